(* Facts about the numeric field converters of Fields.v: strconv.Itoa as a
   zero padded decimal expansion, numericField, strconv.Atoi, parseNumField,
   and their round trips. *)
From Coq Require Import Lia ZifyN ZifyNat ZifyBool.
From ACH Require Export Fields.
From ACH Require Import Utf8Facts.
Open Scope N_scope.

Ltac Zify.zify_post_hook ::= Z.div_mod_to_equations.

Fixpoint p10 (k : nat) : N := match k with O => 1 | S k' => 10 * p10 k' end.

(* the w-digit zero padded decimal representation of n mod 10^w *)
Fixpoint dec (w : nat) (n : N) : bytes :=
  match w with O => [] | S k => dec k (n / 10) ++ [48 + n mod 10] end.

Definition in_int64 (z : Z) : bool := ((min_int64 <=? z) && (z <=? max_int64))%Z.
Definition digitsb (s : bytes) : bool := forallb is_digit s.

(* ---------- generic list helpers ---------- *)

Lemma forallb_impl {A} (P Q : A -> bool) (l : list A) :
  (forall x, P x = true -> Q x = true) -> forallb P l = true -> forallb Q l = true.
Proof.
  intros HPQ Hl. rewrite forallb_forall in *. intros x Hx. apply HPQ. now apply Hl.
Qed.

Lemma forallb_skipn {A} (P : A -> bool) (j : nat) (l : list A) :
  forallb P l = true -> forallb P (skipn j l) = true.
Proof.
  revert l; induction j as [|j IH]; intros l Hl; [exact Hl|].
  destruct l as [|x l]; [reflexivity|].
  cbn [skipn]. cbn [forallb] in Hl. apply andb_prop in Hl as [_ Hl]. now apply IH.
Qed.

Lemma forallb_rev {A} (P : A -> bool) (l : list A) :
  forallb P l = true -> forallb P (rev l) = true.
Proof.
  intros Hl. rewrite forallb_forall in *. intros x Hx. apply Hl. now apply in_rev.
Qed.

Lemma skipn_length_app {A} (l m : list A) : skipn (length l) (l ++ m) = m.
Proof. induction l as [|x l IH]; [reflexivity|exact IH]. Qed.

(* ---------- powers ---------- *)

Lemma p10_S k : p10 (S k) = 10 * p10 k.
Proof. reflexivity. Qed.

Lemma p10_pos k : 0 < p10 k.
Proof. induction k as [|k IH]; [reflexivity|]. rewrite p10_S. lia. Qed.

Lemma p10_le a b : (a <= b)%nat -> p10 a <= p10 b.
Proof.
  intros Hab. induction Hab as [|b Hab IH]; [lia|].
  rewrite p10_S. pose proof (p10_pos b). lia.
Qed.

Lemma p10_18_max : (Z.of_N (p10 18) < max_int64)%Z.
Proof. vm_compute. reflexivity. Qed.

Fixpoint p2 (k : nat) : N := match k with O => 1 | S k' => 2 * p2 k' end.

Lemma p2_S k : p2 (S k) = 2 * p2 k.
Proof. reflexivity. Qed.

Lemma p2_pow k : p2 k = 2 ^ N.of_nat k.
Proof.
  induction k as [|k IH]; [reflexivity|].
  rewrite p2_S, IH, Nat2N.inj_succ, N.pow_succ_r'. reflexivity.
Qed.

Lemma log2_fuel n : 0 < n -> n < p2 (S (N.to_nat (N.log2 n))).
Proof.
  intros Hn. rewrite p2_pow, Nat2N.inj_succ, N2Nat.id.
  apply (N.log2_spec n Hn).
Qed.

(* ---------- zeros ---------- *)

Lemma zeros_S j : zeros (S j) = 48 :: zeros j.
Proof. reflexivity. Qed.

Lemma zeros_snoc j : zeros j ++ [48] = 48 :: zeros j.
Proof.
  induction j as [|j IH]; [reflexivity|].
  rewrite zeros_S. cbn [app]. now rewrite IH.
Qed.

Lemma zeros_length j : length (zeros j) = j.
Proof. apply repeat_length. Qed.

Lemma zeros_digits j : digitsb (zeros j) = true.
Proof. induction j as [|j IH]; [reflexivity|]. rewrite zeros_S. exact IH. Qed.

(* ---------- dec ---------- *)

Lemma dec_S k n : dec (S k) n = dec k (n / 10) ++ [48 + n mod 10].
Proof. reflexivity. Qed.

Lemma dec_length w n : length (dec w n) = w.
Proof.
  revert n; induction w as [|w IH]; intros n; [reflexivity|].
  rewrite dec_S, app_length, IH. cbn [length]. lia.
Qed.

Lemma is_digit_mod10 n : is_digit (48 + n mod 10) = true.
Proof. unfold is_digit. lia. Qed.

Lemma dec_digits w n : digitsb (dec w n) = true.
Proof.
  unfold digitsb. revert n; induction w as [|w IH]; intros n; [reflexivity|].
  rewrite dec_S, forallb_app, IH. cbn [forallb]. rewrite is_digit_mod10. reflexivity.
Qed.

Lemma dec_app j k n : dec (j + k) n = dec j (n / p10 k) ++ dec k n.
Proof.
  revert n; induction k as [|k IH]; intros n.
  - rewrite Nat.add_0_r. cbn [p10 dec]. rewrite N.div_1_r, app_nil_r. reflexivity.
  - rewrite Nat.add_succ_r, !dec_S, IH, p10_S, app_assoc.
    pose proof (p10_pos k) as Hp.
    rewrite N.div_div by lia. reflexivity.
Qed.

Lemma dec_0 j : dec j 0 = zeros j.
Proof.
  induction j as [|j IH]; [reflexivity|].
  rewrite dec_S. change (0 / 10) with 0. change (48 + 0 mod 10) with 48.
  rewrite IH. apply zeros_snoc.
Qed.

Lemma dec_zeros j k n : n < p10 k -> dec (j + k) n = zeros j ++ dec k n.
Proof.
  intros Hn. rewrite dec_app, N.div_small by exact Hn. now rewrite dec_0.
Qed.

Lemma dec_skipn j w n : skipn j (dec (j + w) n) = dec w n.
Proof.
  rewrite dec_app.
  rewrite <- (dec_length j (n / p10 w)) at 1. apply skipn_length_app.
Qed.

Lemma mod_p10_S k n : n mod p10 (S k) = n mod 10 + 10 * ((n / 10) mod p10 k).
Proof.
  rewrite p10_S. pose proof (p10_pos k) as Hp. apply N.mod_mul_r; lia.
Qed.

Lemma dec_mod w n : dec w (n mod p10 w) = dec w n.
Proof.
  revert n; induction w as [|w IH]; intros n; [reflexivity|].
  rewrite !dec_S, mod_p10_S.
  set (x := (n / 10) mod p10 w). set (y := n mod 10).
  assert (Hy : y < 10) by (subst y; lia).
  replace ((y + 10 * x) / 10) with x by lia.
  replace ((y + 10 * x) mod 10) with y by lia.
  subst x. now rewrite IH.
Qed.

Lemma digits_val_app a b acc : digits_val (a ++ b) acc = digits_val b (digits_val a acc).
Proof.
  revert acc; induction a as [|x a IH]; intros acc; [reflexivity|].
  cbn [app digits_val]. apply IH.
Qed.

Lemma digits_val_dec w n acc :
  digits_val (dec w n) acc = (acc * Z.of_N (p10 w) + Z.of_N (n mod p10 w))%Z.
Proof.
  revert n acc; induction w as [|w IH]; intros n acc.
  - cbn [dec digits_val p10]. rewrite N.mod_1_r. lia.
  - rewrite dec_S, digits_val_app, IH, mod_p10_S, p10_S.
    cbn [digits_val].
    set (x := (n / 10) mod p10 w). set (y := n mod 10). set (P := p10 w).
    replace (48 + y - 48) with y by lia.
    rewrite !N2Z.inj_add, !N2Z.inj_mul. change (Z.of_N 10) with 10%Z. ring.
Qed.

(* ---------- digits / itoa ---------- *)

Lemma digits_fuel_dec fuel : forall n acc, 0 < n -> n < p2 fuel ->
  exists k, (1 <= k)%nat /\ digits_fuel fuel n acc = dec k n ++ acc /\ n < p10 k /\ p10 k <= 10 * n.
Proof.
  induction fuel as [|fuel IH]; intros n acc Hpos Hlt.
  - cbn [p2] in Hlt. lia.
  - rewrite p2_S in Hlt. cbn [digits_fuel].
    destruct (n <? 10) eqn:E.
    + exists 1%nat. split; [lia|]. split; [|cbn [p10]; lia].
      rewrite dec_S. cbn [dec app].
      replace (n mod 10) with n by lia. reflexivity.
    + destruct (IH (n / 10) ((48 + n mod 10) :: acc)) as (k & Hk & Hd & Hlo & Hhi); [lia|lia|].
      exists (S k). split; [lia|]. split.
      * rewrite Hd, dec_S, <- app_assoc. reflexivity.
      * rewrite p10_S. lia.
Qed.

Lemma digits_dec n : 0 < n ->
  exists k, (1 <= k)%nat /\ digits n = dec k n /\ n < p10 k /\ p10 k <= 10 * n.
Proof.
  intros Hn. unfold digits.
  destruct (digits_fuel_dec _ n [] Hn (log2_fuel n Hn)) as (k & Hk & Hd & Hlo & Hhi).
  exists k. rewrite Hd, app_nil_r. auto.
Qed.

Lemma itoa_nonneg z : (0 <= z)%Z ->
  exists k, (1 <= k)%nat /\ itoa z = dec k (Z.to_N z) /\ Z.to_N z < p10 k.
Proof.
  intros Hz. destruct z as [|p|p]; [| |lia].
  - exists 1%nat. split; [lia|]. split; reflexivity.
  - destruct (digits_dec (Npos p)) as (k & Hk & Hd & Hlo & _); [reflexivity|].
    exists k. change (Z.to_N (Zpos p)) with (Npos p). cbn [itoa]. auto.
Qed.

Lemma itoa_neg z : (z < 0)%Z -> itoa z = 45 :: itoa (- z).
Proof. intros Hz. destruct z as [|p|p]; [lia|lia|reflexivity]. Qed.

Lemma itoa_digits z : (0 <= z)%Z -> digitsb (itoa z) = true.
Proof.
  intros Hz. destruct (itoa_nonneg z Hz) as (k & _ & -> & _). apply dec_digits.
Qed.

Lemma is_digit_ascii b : is_digit b = true -> (b <? 128) = true.
Proof. unfold is_digit. lia. Qed.

Lemma is_digit_nospace b : is_digit b = true -> negb (is_space b) = true.
Proof. unfold is_digit, is_space. lia. Qed.

Lemma digitsb_ascii s : digitsb s = true -> forallb (fun b => b <? 128) s = true.
Proof. apply forallb_impl, is_digit_ascii. Qed.

Lemma digitsb_nospace s : digitsb s = true -> forallb (fun b => negb (is_space b)) s = true.
Proof. apply forallb_impl, is_digit_nospace. Qed.

Lemma itoa_ascii z : forallb (fun b => b <? 128) (itoa z) = true.
Proof.
  destruct (Z.ltb_spec z 0) as [Hz|Hz].
  - rewrite (itoa_neg z Hz). cbn [forallb]. rewrite andb_true_iff. split; [reflexivity|].
    apply digitsb_ascii, itoa_digits. lia.
  - apply digitsb_ascii, itoa_digits, Hz.
Qed.

Lemma itoa_nospace z : forallb (fun b => negb (is_space b)) (itoa z) = true.
Proof.
  destruct (Z.ltb_spec z 0) as [Hz|Hz].
  - rewrite (itoa_neg z Hz). cbn [forallb]. rewrite andb_true_iff. split; [reflexivity|].
    apply digitsb_nospace, itoa_digits. lia.
  - apply digitsb_nospace, itoa_digits, Hz.
Qed.

Lemma itoa_nonempty z : itoa z <> [].
Proof.
  destruct (Z.ltb_spec z 0) as [Hz|Hz].
  - rewrite (itoa_neg z Hz). discriminate.
  - destruct (itoa_nonneg z Hz) as (k & Hk & -> & _). intros H.
    apply (f_equal (@length N)) in H. rewrite dec_length in H. cbn [length] in H. lia.
Qed.

(* ---------- numericField ---------- *)

Lemma numericField_length z w : length (numericField z w) = w.
Proof.
  unfold numericField.
  destruct (w <? length (itoa z))%nat eqn:E.
  - apply Nat.ltb_lt in E. rewrite skipn_length. lia.
  - apply Nat.ltb_ge in E. rewrite app_length, zeros_length. lia.
Qed.

Lemma numericField_ascii z w : forallb (fun b => b <? 128) (numericField z w) = true.
Proof.
  unfold numericField.
  destruct (w <? length (itoa z))%nat eqn:E.
  - apply forallb_skipn, itoa_ascii.
  - rewrite forallb_app, itoa_ascii, andb_true_r.
    apply digitsb_ascii, zeros_digits.
Qed.

Lemma numericField_dec z w : (0 <= z)%Z -> numericField z w = dec w (Z.to_N z).
Proof.
  intros Hz. unfold numericField.
  destruct (itoa_nonneg z Hz) as (k & Hk & -> & Hlt).
  rewrite dec_length.
  destruct (w <? k)%nat eqn:E.
  - apply Nat.ltb_lt in E.
    replace k with ((k - w) + w)%nat at 2 by lia. apply dec_skipn.
  - apply Nat.ltb_ge in E.
    replace w with ((w - k) + k)%nat at 2 by lia. symmetry. now apply dec_zeros.
Qed.

Lemma numericField_digits z w : (0 <= z)%Z -> digitsb (numericField z w) = true.
Proof. intros Hz. rewrite (numericField_dec z w Hz). apply dec_digits. Qed.

(* ---------- trim on ASCII strings without spaces ---------- *)

Lemma chunks_ascii_local s :
  forallb (fun b => b <? 128) s = true -> chunks s = map (fun b => (b, [b])) s.
Proof.
  induction s as [|b s IH]; intros Hs; [reflexivity|].
  cbn [forallb] in Hs. apply andb_prop in Hs as [Hb Hs].
  rewrite chunks_cons, Hb. cbn [map]. now rewrite IH.
Qed.

Lemma drop_space_nospace cs :
  forallb (fun c : N * bytes => negb (is_space (fst c))) cs = true -> drop_space cs = cs.
Proof.
  destruct cs as [|[r bs] rest]; intros H; [reflexivity|].
  cbn [forallb fst] in H. apply andb_prop in H as [Hr _].
  cbn [drop_space]. destruct (is_space r) eqn:E; [discriminate|reflexivity].
Qed.

Lemma concat_snd_singletons (s : bytes) : concat (map snd (map (fun b => (b, [b])) s)) = s.
Proof.
  induction s as [|b s IH]; [reflexivity|]. cbn [map snd concat app]. now rewrite IH.
Qed.

Lemma trim_ascii_nospace s :
  forallb (fun b => b <? 128) s = true ->
  forallb (fun b => negb (is_space b)) s = true -> trim s = s.
Proof.
  intros Ha Hn. unfold trim. rewrite (chunks_ascii_local s Ha).
  assert (Hc : forallb (fun c : N * bytes => negb (is_space (fst c)))
                 (map (fun b => (b, [b])) s) = true).
  { rewrite forallb_forall in *. intros c Hc. apply in_map_iff in Hc as (b & <- & Hb).
    cbn [fst]. now apply Hn. }
  rewrite (drop_space_nospace _ Hc).
  rewrite (drop_space_nospace _ (forallb_rev _ _ Hc)).
  rewrite rev_involutive. apply concat_snd_singletons.
Qed.

Lemma trim_digits s : digitsb s = true -> trim s = s.
Proof.
  intros Hs. apply trim_ascii_nospace; [now apply digitsb_ascii|now apply digitsb_nospace].
Qed.

(* ---------- atoi ---------- *)

Definition sign_split (s : bytes) : bool * bytes :=
  match s with 45 :: t => (true, t) | 43 :: t => (false, t) | _ => (false, s) end.

Lemma sign_split_cons b t :
  sign_split (b :: t) =
  if b =? 45 then (true, t) else if b =? 43 then (false, t) else (false, b :: t).
Proof.
  destruct b as [|p]; [reflexivity|].
  do 7 (try (destruct p as [p|p|]; try reflexivity)).
Qed.

Lemma atoi_split s :
  atoi s =
  let '(neg, ds) := sign_split s in
  match ds with
  | [] => 0%Z
  | _ => if forallb is_digit ds
         then let v := digits_val ds 0%Z in
              if neg then (if (min_int64 <=? - v)%Z then (- v)%Z else min_int64)
              else (if (v <=? max_int64)%Z then v else max_int64)
         else 0%Z
  end.
Proof. reflexivity. Qed.

Lemma atoi_digits s : s <> [] -> digitsb s = true ->
  atoi s = Z.min (digits_val s 0) max_int64.
Proof.
  intros Hne Hd. destruct s as [|b t]; [congruence|].
  rewrite atoi_split, sign_split_cons.
  assert (Hb : is_digit b = true).
  { unfold digitsb in Hd. cbn [forallb] in Hd. now apply andb_prop in Hd as [Hb _]. }
  unfold is_digit in Hb.
  destruct (b =? 45) eqn:E1; [lia|].
  destruct (b =? 43) eqn:E2; [lia|].
  unfold digitsb in Hd. rewrite Hd. cbv zeta.
  destruct (digits_val (b :: t) 0 <=? max_int64)%Z eqn:E3; lia.
Qed.

Lemma atoi_neg_digits t : t <> [] -> digitsb t = true ->
  atoi (45 :: t) = Z.max (- digits_val t 0) min_int64.
Proof.
  intros Hne Hd. rewrite atoi_split, sign_split_cons.
  change (45 =? 45) with true. cbv iota.
  destruct t as [|b t]; [congruence|].
  unfold digitsb in Hd. rewrite Hd. cbv zeta.
  destruct (min_int64 <=? - digits_val (b :: t) 0)%Z eqn:E3; lia.
Qed.

Lemma dec_nonempty k n : (1 <= k)%nat -> dec k n <> [].
Proof.
  intros Hk H. apply (f_equal (@length N)) in H. rewrite dec_length in H.
  cbn [length] in H. lia.
Qed.

Lemma atoi_itoa_nonneg z : (0 <= z <= max_int64)%Z -> atoi (itoa z) = z.
Proof.
  intros Hz. destruct (itoa_nonneg z) as (k & Hk & -> & Hlt); [lia|].
  rewrite atoi_digits by (auto using dec_nonempty, dec_digits).
  rewrite digits_val_dec, N.mod_small by exact Hlt. lia.
Qed.

Lemma atoi_itoa z : in_int64 z = true -> atoi (itoa z) = z.
Proof.
  unfold in_int64. intros Hz. apply andb_prop in Hz as [Hlo Hhi].
  apply Z.leb_le in Hlo, Hhi.
  destruct (Z.ltb_spec z 0) as [Hneg|Hpos].
  - rewrite (itoa_neg z Hneg).
    destruct (itoa_nonneg (- z)) as (k & Hk & -> & Hlt); [lia|].
    rewrite atoi_neg_digits by (auto using dec_nonempty, dec_digits).
    rewrite digits_val_dec, N.mod_small by exact Hlt.
    unfold min_int64 in *. lia.
  - apply atoi_itoa_nonneg. lia.
Qed.

Lemma parseNumField_itoa z : in_int64 z = true -> parseNumField (itoa z) = z.
Proof.
  intros Hz. unfold parseNumField.
  rewrite trim_ascii_nospace by (apply itoa_ascii || apply itoa_nospace).
  now apply atoi_itoa.
Qed.

Lemma parseNumField_nil : parseNumField [] = 0%Z.
Proof. reflexivity. Qed.

Lemma parseNumField_dec w n : (1 <= w)%nat ->
  parseNumField (dec w n) = Z.min (Z.of_N (n mod p10 w)) max_int64.
Proof.
  intros Hw. unfold parseNumField. rewrite trim_digits by apply dec_digits.
  rewrite atoi_digits by (auto using dec_nonempty, dec_digits).
  rewrite digits_val_dec. f_equal.
Qed.

Lemma to_N_mod_p10 z w : (0 <= z)%Z ->
  Z.of_N (Z.to_N z mod p10 w) = (z mod Z.of_N (p10 w))%Z.
Proof. intros Hz. rewrite N2Z.inj_mod, Z2N.id by exact Hz. reflexivity. Qed.

Lemma parseNumField_numericField_min z w : (0 <= z)%Z ->
  parseNumField (numericField z w) = Z.min (z mod Z.of_N (p10 w)) max_int64.
Proof.
  intros Hz. rewrite (numericField_dec z w Hz).
  destruct w as [|w].
  - cbn [dec p10]. rewrite parseNumField_nil. change (Z.of_N 1) with 1%Z.
    rewrite Z.mod_1_r. reflexivity.
  - rewrite parseNumField_dec by lia. now rewrite to_N_mod_p10.
Qed.

Lemma parseNumField_numericField_mod z w : (0 <= z <= max_int64)%Z ->
  parseNumField (numericField z w) = (z mod Z.of_N (p10 w))%Z.
Proof.
  intros [Hlo Hhi]. rewrite parseNumField_numericField_min by exact Hlo.
  pose proof (p10_pos w) as Hp.
  assert (Hm : (z mod Z.of_N (p10 w) <= z)%Z) by (apply Z.mod_le; lia).
  apply Z.min_l. lia.
Qed.

Lemma parseNumField_numericField_mod18 z w : (0 <= z)%Z -> (w <= 18)%nat ->
  parseNumField (numericField z w) = (z mod Z.of_N (p10 w))%Z.
Proof.
  intros Hz Hw. rewrite parseNumField_numericField_min by exact Hz.
  pose proof (p10_pos w) as Hp. pose proof (p10_le w 18 Hw) as Hle.
  pose proof p10_18_max as Hmax.
  assert (Hm : (0 <= z mod Z.of_N (p10 w) < Z.of_N (p10 w))%Z) by (apply Z.mod_pos_bound; lia).
  apply Z.min_l. lia.
Qed.

Lemma parseNumField_numericField z w : (0 <= z < Z.of_N (p10 w))%Z -> (w <= 18)%nat ->
  parseNumField (numericField z w) = z.
Proof.
  intros Hz Hw. rewrite parseNumField_numericField_mod18 by lia.
  apply Z.mod_small. exact Hz.
Qed.

Lemma numericField_mod z w : (0 <= z)%Z ->
  numericField (z mod Z.of_N (p10 w)) w = numericField z w.
Proof.
  intros Hz. pose proof (p10_pos w) as Hp.
  assert (Hm : (0 <= z mod Z.of_N (p10 w) < Z.of_N (p10 w))%Z) by (apply Z.mod_pos_bound; lia).
  rewrite !numericField_dec by lia.
  rewrite <- to_N_mod_p10 by exact Hz. rewrite N2Z.id. apply dec_mod.
Qed.

Lemma numericField_reparse z w : (0 <= z <= max_int64)%Z ->
  numericField (parseNumField (numericField z w)) w = numericField z w.
Proof.
  intros Hz. rewrite parseNumField_numericField_mod by exact Hz.
  apply numericField_mod. lia.
Qed.

Lemma numericField_reparse18 z w : (0 <= z)%Z -> (w <= 18)%nat ->
  numericField (parseNumField (numericField z w)) w = numericField z w.
Proof.
  intros Hz Hw. rewrite parseNumField_numericField_mod18 by assumption.
  now apply numericField_mod.
Qed.

(* the low 20 digits of 10^20 - 1 exceed int64: Atoi clamps and the field is not reproduced *)
Lemma numericField_reparse_refuted :
  exists z w, (0 <= z)%Z /\ numericField (parseNumField (numericField z w)) w <> numericField z w.
Proof.
  exists 99999999999999999999%Z, 20%nat. split; [lia|].
  vm_compute. discriminate.
Qed.

Lemma itoa_reparse z : in_int64 z = true -> itoa (parseNumField (itoa z)) = itoa z.
Proof. intros Hz. now rewrite parseNumField_itoa. Qed.

(* ---------- examples ---------- *)

Example ex_numericField_trunc : numericField 12345 3 = [51; 52; 53].
Proof. vm_compute. reflexivity. Qed.

Example ex_parse_trunc : parseNumField (numericField 12345 3) = 345%Z.
Proof. vm_compute. reflexivity. Qed.

Example ex_numericField_pad : numericField 42 5 = [48; 48; 48; 52; 50].
Proof. vm_compute. reflexivity. Qed.

Example ex_itoa_neg : itoa (-907) = [45; 57; 48; 55].
Proof. vm_compute. reflexivity. Qed.

Example ex_parse_spaces : parseNumField [32; 32; 49; 50; 32] = 12%Z.
Proof. vm_compute. reflexivity. Qed.

Example ex_parse_clamp :
  parseNumField (numericField 99999999999999999999 20) = max_int64.
Proof. vm_compute. reflexivity. Qed.

(* C02, the reader domain: proofs.

   A. every character bufio.ScanRunes yields ([chars] of an ARBITRARY byte string) is one
      well-formed UTF-8 character; the lines the framing hands to readLine are valid UTF-8
   B. Parse of a well-formed line of 94 characters: every string it assigns is valid UTF-8;
      a cut over k columns holds exactly k characters (`string(runes[lo:hi])`)
   C. the rules do not see the clock: evaluation depends on the fields a rule reads only
   D. [fills] is sound: a parsed record that passes its rules has the nominal width in the
      columns no rule bounds; with `valid => width` (RecValidFacts.valid_width_partial) it
      satisfies [widthb]
   E. invariant of the reader's state machine (Dispatch.read_file): every record of the tree
      was parsed from a line of the input by the layout of its kind, and the kinds sit where
      the writer expects them ([shape_ok])
   F. composition: the tree the default reader returns is written as 94-character records of
      valid UTF-8, in the order of the grammar, blocked by ten *)
From Coq Require Import String List Lia Bool NArith ZArith ZifyN ZifyNat ZifyBool.
From ACH Require Import Arith.
From ACH Require Import Utf8Facts Utf8Enc FieldsFacts CustomFacts LayoutFacts LayoutRoundtrip RecValidFacts FileStructFacts FramingFacts FramingBytes
  DispatchFacts DispatchBytes ReaderValidFacts WrittenCountsFacts ReaderWidth.
Import ListNotations.
Local Open Scope string_scope.
Local Open Scope nat_scope.
Local Open Scope list_scope.

Ltac Zify.zify_post_hook ::= Z.div_mod_to_equations.

(* ------------------------------------------------------------------ *)
(* A. characters and lines                                              *)

Definition single (c : bytes) : Prop := wf_utf8 c = true /\ rune_count c = 1.

Lemma single_encode r : single (encode_rune r).
Proof.
  split.
  - pose proof (wf_encode [r]) as H. unfold encode in H. cbn [flat_map] in H. now rewrite app_nil_r in H.
  - pose proof (rune_count_encode [r]) as H. unfold encode in H. cbn [flat_map] in H. now rewrite app_nil_r in H.
Qed.

Lemma single_err : single [239; 191; 189]%N.
Proof. exact (single_encode rune_error). Qed.

Local Open Scope N_scope.

(* decoding one character of an arbitrary byte string: either the error rune, or the bytes consumed
   are the canonical encoding of the rune (encode-after-decode) *)
Lemma chunk_head_canon b0 t : exists r bs rest,
  chunks (b0 :: t) = (r, bs) :: chunks rest /\ (length rest < length (b0 :: t))%nat
  /\ (r = rune_error \/ encode_rune r = bs).
Proof.
  destruct (b0 <? 128) eqn:E0.
  { apply N.ltb_lt in E0. exists b0, [b0], t. split; [now apply chunks_1|]. split; [cbn [length]; lia|].
    right. unfold encode_rune. apply N.ltb_lt in E0. now rewrite E0. }
  apply N.ltb_ge in E0. rewrite (chunks_hi b0 t E0).
  assert (Eerr : chunks_multi b0 t = (rune_error, [b0]) :: chunks t ->
    exists r bs rest, chunks_multi b0 t = (r, bs) :: chunks rest /\ (length rest < length (b0 :: t))%nat
      /\ (r = rune_error \/ encode_rune r = bs)).
  { intros H. exists rune_error, [b0], t. split; [exact H|]. split; [cbn [length]; lia|now left]. }
  pose proof (seq_size_spec b0) as Hs.
  unfold chunks_multi in *.
  destruct (seq_size b0) as [|[|[|[|[|k]]]]] eqn:Es; try (apply Eerr; reflexivity).
  - (* 2 *) destruct t as [|b1 t1]; [apply Eerr; reflexivity|].
    destruct (second_ok b0 b1) eqn:E1; [|apply Eerr; reflexivity].
    apply second_ok_spec in E1. destruct E1 as (R1 & _).
    exists ((b0 - 192) * 64 + (b1 - 128)), [b0; b1], t1. split; [reflexivity|]. split; [cbn [length]; lia|].
    right. unfold encode_rune.
    assert (A1 : (b0 - 192) * 64 + (b1 - 128) <? 128 = false) by (apply N.ltb_ge; lia).
    assert (A2 : (b0 - 192) * 64 + (b1 - 128) <? 2048 = true) by (apply N.ltb_lt; lia).
    rewrite A1, A2. f_equal; [lia|f_equal; lia].
  - (* 3 *) destruct t as [|b1 [|b2 t2]]; try (apply Eerr; reflexivity).
    destruct (second_ok b0 b1 && cont b2) eqn:E1; [|apply Eerr; reflexivity].
    apply andb_prop in E1 as [E1 E2].
    apply second_ok_spec in E1. destruct E1 as (R1 & Ha & Hb & _).
    apply cont_spec in E2.
    exists ((b0 - 224) * 4096 + (b1 - 128) * 64 + (b2 - 128)), [b0; b1; b2], t2.
    split; [reflexivity|]. split; [cbn [length]; lia|].
    set (r := (b0 - 224) * 4096 + (b1 - 128) * 64 + (b2 - 128)).
    assert (Hlo : 2048 <= r).
    { unfold r. assert (C : b0 = 224 \/ 224 < b0) by lia. destruct C as [C|C]; [specialize (Ha C); lia|lia]. }
    assert (Hhi : r < 65536) by (unfold r; lia).
    assert (Hsur : ~ (55296 <= r <= 57343)).
    { unfold r. assert (C : b0 < 237 \/ b0 = 237 \/ 237 < b0) by lia.
      destruct C as [C|[C|C]]; [lia|specialize (Hb C); lia|lia]. }
    right. unfold encode_rune.
    assert (A1 : r <? 128 = false) by (apply N.ltb_ge; lia).
    assert (A2 : r <? 2048 = false) by (apply N.ltb_ge; lia).
    assert (A3 : (55296 <=? r) && (r <=? 57343) = false).
    { destruct (55296 <=? r) eqn:X1; [|reflexivity]. destruct (r <=? 57343) eqn:X2; [|reflexivity].
      apply N.leb_le in X1, X2. lia. }
    assert (A4 : r <? 65536 = true) by (apply N.ltb_lt; lia).
    rewrite A1, A2, A3, A4. unfold r. f_equal; [lia|f_equal; [lia|f_equal; lia]].
  - (* 4 *) destruct t as [|b1 [|b2 [|b3 t3]]]; try (apply Eerr; reflexivity).
    destruct (second_ok b0 b1 && cont b2 && cont b3) eqn:E1; [|apply Eerr; reflexivity].
    apply andb_prop in E1 as [E1 E3]. apply andb_prop in E1 as [E1 E2].
    apply second_ok_spec in E1. destruct E1 as (R1 & _ & _ & Hc & Hd).
    apply cont_spec in E2. apply cont_spec in E3.
    exists ((b0 - 240) * 262144 + (b1 - 128) * 4096 + (b2 - 128) * 64 + (b3 - 128)), [b0; b1; b2; b3], t3.
    split; [reflexivity|]. split; [cbn [length]; lia|].
    set (r := (b0 - 240) * 262144 + (b1 - 128) * 4096 + (b2 - 128) * 64 + (b3 - 128)).
    assert (Hlo : 65536 <= r).
    { unfold r. assert (C : b0 = 240 \/ 240 < b0) by lia. destruct C as [C|C]; [specialize (Hc C); lia|lia]. }
    assert (Hhi : r < 1114112).
    { unfold r. assert (C : b0 < 244 \/ b0 = 244) by lia. destruct C as [C|C]; [lia|specialize (Hd C); lia]. }
    right. unfold encode_rune.
    assert (A1 : r <? 128 = false) by (apply N.ltb_ge; lia).
    assert (A2 : r <? 2048 = false) by (apply N.ltb_ge; lia).
    assert (A3 : (55296 <=? r) && (r <=? 57343) = false).
    { destruct (55296 <=? r) eqn:X1; [|reflexivity]. destruct (r <=? 57343) eqn:X2; [|reflexivity].
      apply N.leb_le in X1, X2. lia. }
    assert (A4 : r <? 65536 = false) by (apply N.ltb_ge; lia).
    assert (A5 : r <? 1114112 = true) by (apply N.ltb_lt; lia).
    rewrite A1, A2, A3, A4, A5. unfold r. f_equal; [lia|f_equal; [lia|f_equal; [lia|f_equal; lia]]].
Qed.

Local Close Scope N_scope.

(* every character of an arbitrary byte string is one well-formed character *)
Lemma chars_single s : Forall single (chars s).
Proof.
  unfold chars. induction s as [s IH] using list_len_ind.
  destruct s as [|b0 t]; [constructor|].
  destruct (chunk_head_canon b0 t) as (r & bs & rest & Hc & Hlen & Hr).
  rewrite Hc. cbn [map fst snd]. constructor; [|exact (IH rest Hlen)].
  destruct (r =? rune_error)%N eqn:E; [exact single_err|].
  destruct Hr as [Hr|Hr]; [apply N.eqb_neq in E; contradiction|]. rewrite <- Hr. apply single_encode.
Qed.

Lemma wf_single_app cur c : wf_utf8 cur = true -> single c -> wf_utf8 (cur ++ c) = true.
Proof. intros H [Hc _]. now apply wf_app. Qed.

Definition lines_wf (ps : list (nat * bytes)) : Prop := Forall (fun p => wf_utf8 (snd p) = true) ps.

Lemma emit_wf n cur rest : wf_utf8 cur = true -> lines_wf rest -> lines_wf (emit n cur rest).
Proof. intros Hc Hr. unfold emit. destruct (blank_line cur); [exact Hr|now constructor]. Qed.

Lemma frame_wf cs : Forall single cs -> forall cur cnt n, wf_utf8 cur = true -> lines_wf (frame cs cur cnt n).
Proof.
  induction 1 as [|c cs Hc Hcs IH]; intros cur cnt n Hcur; cbn [frame].
  - destruct (0 <? cnt); [constructor; [exact Hcur|constructor]|constructor].
  - destruct (is_nl c).
    + destruct (0 <? cnt); [|now apply IH]. apply emit_wf; [exact Hcur|]. apply IH. apply wf_nil.
    + destruct (S cnt <? 94).
      * apply IH. now apply wf_single_app.
      * apply emit_wf; [now apply wf_single_app|]. apply IH. apply wf_nil.
Qed.

Lemma wf_repeat_sp k : wf_utf8 (repeat sp k) = true.
Proof. exact (wf_spaces k). Qed.

Lemma norm_lines_wf ps : lines_wf ps -> forall ls, norm_lines (map (fun p => norm_line (snd p)) ps) = Some ls ->
  Forall (fun l => wf_utf8 l = true) ls.
Proof.
  induction 1 as [|p ps Hp Hps IH]; intros ls; cbn [map norm_lines].
  - intros H. injection H as <-. constructor.
  - unfold norm_line at 1. destruct (rune_count (snd p) =? 94).
    + destruct (norm_lines _) as [ls'|] eqn:E; [|discriminate]. intros H. injection H as <-.
      constructor; [exact Hp|now apply IH].
    + destruct (94 <? rune_count (snd p)); [discriminate|].
      destruct (norm_lines _) as [ls'|] eqn:E; [|discriminate]. intros H. injection H as <-.
      constructor; [|now apply IH]. apply wf_app; [exact Hp|apply wf_repeat_sp].
Qed.

(* the lines Reader.Read parses are valid UTF-8, whatever the bytes of the input *)
Theorem read_lines_wf text ls : norm_lines (read_lines text) = Some ls -> Forall (fun l => wf_utf8 l = true) ls.
Proof.
  unfold read_lines. apply norm_lines_wf. apply frame_wf; [apply chars_single|apply wf_nil].
Qed.

(* ------------------------------------------------------------------ *)
(* B. Parse of a well-formed line                                       *)

Definition val_wf (v : value) : Prop := match v with VS s => wf_utf8 s = true | VI _ => True end.
Definition rec_wf (r : recval) : Prop := Forall (fun p => val_wf (snd p)) r.

Lemma gets_wf r f : rec_wf r -> wf_utf8 (gets r f) = true.
Proof.
  unfold gets. induction 1 as [|[g v] r Hv Hr IH]; cbn [lookup]; [apply wf_nil|].
  destruct (String.eqb f g); [|exact IH]. destruct v as [s|z]; [exact Hv|apply wf_nil].
Qed.

Lemma rec_wf_utf8b L r : rec_wf r -> utf8b L r = true.
Proof.
  intros H. unfold utf8b. apply forallb_forall. intros s _. unfold seg_utf8b. apply forallb_forall. intros f _.
  now apply gets_wf.
Qed.

Lemma Forall_skipn' {A} (P : A -> Prop) n : forall l, Forall P l -> Forall P (skipn n l).
Proof. induction n as [|n IH]; intros l H; [exact H|]. destruct H; cbn [skipn]; [constructor|now apply IH]. Qed.
Lemma Forall_firstn' {A} (P : A -> Prop) n : forall l, Forall P l -> Forall P (firstn n l).
Proof. induction n as [|n IH]; intros l H; [constructor|]. destruct H; cbn [firstn]; constructor; [assumption|now apply IH]. Qed.

Lemma units_single l : wf_utf8 l = true -> Forall single (units IRune l).
Proof.
  intros H. unfold units. rewrite (chunks_wf l H), map_map. cbn [snd]. apply Forall_forall. intros u Hu.
  apply in_map_iff in Hu as (r & <- & _). apply single_encode.
Qed.

Lemma units_length l : length (units IRune l) = rune_count l.
Proof. unfold units, rune_count. apply map_length. Qed.

Lemma concat_singles us : Forall single us -> wf_utf8 (concat us) = true /\ rune_count (concat us) = length us.
Proof.
  induction 1 as [|u us [Hw Hc] Hus [IH1 IH2]]; cbn [concat length]; [split; [apply wf_nil|reflexivity]|].
  split; [now apply wf_app|]. rewrite rune_count_app_wf by assumption. lia.
Qed.

Lemma sub_wf us lo hi : Forall single us -> wf_utf8 (sub us lo hi) = true.
Proof. intros H. unfold sub. apply concat_singles. now apply Forall_firstn', Forall_skipn'. Qed.

(* `string(runes[lo:lo+w])` has w characters *)
Lemma sub_cols us lo w : Forall single us -> lo + w <= length us -> rune_count (sub us lo (lo + w)) = w.
Proof.
  intros H Hlen. unfold sub. replace (lo + w - lo) with w by lia.
  destruct (concat_singles (firstn w (skipn lo us))) as [_ Hc]; [now apply Forall_firstn', Forall_skipn'|].
  rewrite Hc. apply firstn_length_le. rewrite skipn_length. lia.
Qed.

Lemma wf_tail_ascii b t : (b <? 128)%N = true -> wf_utf8 (b :: t) = true -> wf_utf8 t = true.
Proof.
  intros Hb H. apply wf_spec in H. apply wf_spec. unfold runes in *. rewrite chunks_1 in H by now apply N.ltb_lt.
  cbn [map fst] in H. rewrite encode_cons in H. unfold encode_rune in H. rewrite Hb in H. cbn [app] in H. now injection H.
Qed.

Lemma trz_wf s : wf_utf8 s = true -> wf_utf8 (trimRoutingNumberLeadingZero s) = true.
Proof.
  intros H. unfold trimRoutingNumberLeadingZero.
  destruct s as [|b t]; [now apply wf_trim|]. destruct b as [|p]; [now apply wf_trim|].
  do 7 (try (destruct p as [p|p|]; try (now apply wf_trim))).
  destruct (_ && _); apply wf_trim; [|exact H]. now apply (wf_tail_ascii 48 t).
Qed.

Lemma conv_str_wf fn s s' : wf_utf8 s = true -> conv_str fn s = Some s' -> wf_utf8 s' = true.
Proof.
  intros H. unfold conv_str.
  destruct (String.eqb fn "parseStringField" || String.eqb fn "strings.TrimSpace" || String.eqb fn "parseStringFieldWithOpts").
  { intros E. injection E as <-. now apply wf_trim. }
  destruct (String.eqb fn "trimRoutingNumberLeadingZero").
  { intros E. injection E as <-. now apply trz_wf. }
  destruct (String.eqb fn "validateSimpleDate").
  { intros E. injection E as <-. destruct (valid_date s); [exact H|apply wf_nil]. }
  destruct (String.eqb fn "validateSimpleTime").
  { intros E. injection E as <-. destruct (valid_time s); [exact H|apply wf_nil]. }
  destruct (String.eqb fn "validateSettlementDate"); [|discriminate].
  intros E. injection E as <-. unfold validateSettlementDate.
  destruct (_ || _); [apply wf_spaces|]. destruct (atoi_opt s) as [d|]; [|apply wf_spaces].
  destruct (_ && _); [exact H|apply wf_spaces].
Qed.

Lemma conv_chain_wf chain : forall s s', wf_utf8 s = true -> conv_chain chain s = Some s' -> wf_utf8 s' = true.
Proof.
  induction chain as [|fn rest IH]; intros s s' H; cbn [conv_chain].
  - intros E. now injection E as <-.
  - destruct (conv_chain rest s) as [t|] eqn:E; [|discriminate]. apply conv_str_wf. exact (IH _ _ H E).
Qed.

Lemma conv_value_wf chain s v : wf_utf8 s = true -> conv_value chain s = Some v -> val_wf v.
Proof.
  intros H. unfold conv_value. destruct chain as [|fn rest].
  - intros E. injection E as <-. exact H.
  - destruct (String.eqb fn "parseNumField").
    + destruct (conv_chain rest s); [|discriminate]. intros E. injection E as <-. exact I.
    + destruct (conv_chain (fn :: rest) s) as [t|] eqn:E; [|discriminate]. intros E'. injection E' as <-.
      exact (conv_chain_wf _ _ _ H E).
Qed.

Lemma parse_cut_wf us c : Forall single us ->
  match c_const c with Some bs => wf_utf8 bs | None => true end = true -> rec_wf (parse_cut us c).
Proof.
  intros Hus Hc. unfold parse_cut. destruct (c_const c) as [bs|].
  - constructor; [exact Hc|constructor].
  - destruct (String.eqb (c_field c) ""); [constructor|].
    destruct (conv_value (c_conv c) (sub us (c_lo c) (c_hi c))) as [v|] eqn:E; [|constructor].
    constructor; [|constructor]. exact (conv_value_wf _ _ _ (sub_wf us _ _ Hus) E).
Qed.

Lemma parse_wf L l : l_ix L = IRune -> consts_wfb L = true -> wf_utf8 l = true -> rec_wf (parse L l).
Proof.
  intros Hix Hc Hl. unfold parse. destruct (rune_count l =? 94); [|constructor]. rewrite Hix.
  pose proof (units_single l Hl) as Hus. unfold consts_wfb in Hc. rewrite forallb_forall in Hc.
  unfold rec_wf. induction (l_cuts L) as [|c cuts IH]; [constructor|]. cbn [flat_map]. apply Forall_app. split.
  - apply parse_cut_wf; [exact Hus|]. apply Hc. now left.
  - apply IH. intros c' Hc'. apply Hc. now right.
Qed.

Lemma overlay_wf new : rec_wf new -> rec_wf (overlay new []).
Proof. intros H. unfold overlay, rec_wf. rewrite app_nil_r. now apply Forall_rev. Qed.

(* what Parse assigned to a field *)
Lemma lookup_parsed L l f : layout_ok L = true -> rune_count l = 94 ->
  lookup (overlay (parse L l) []) f = assigned (units IRune l) (l_cuts L) f.
Proof.
  intros Hok H94. destruct (layout_ok_facts L Hok) as [cs F]. unfold overlay, parse. rewrite H94, Nat.eqb_refl, app_nil_r.
  rewrite (ok_ix _ _ F). exact (proj2 (lookup_parse _ _ f (ok_cut_keys _ _ F))).
Qed.

Lemma assigned_const us cuts f c bs : find_key cuts f = Some c -> c_const c = Some bs -> assigned us cuts f = Some (VS bs).
Proof.
  intros Hf Hc. unfold assigned. rewrite Hf. apply find_key_in in Hf as [_ Hk]. unfold cut_key in Hk. rewrite Hc in Hk.
  injection Hk as Hk. unfold parse_cut. rewrite Hc, Hk. cbn [lookup]. now rewrite String.eqb_refl.
Qed.

Lemma assigned_real us cuts f c v : find_key cuts f = Some c -> c_const c = None -> String.eqb (c_field c) "" = false ->
  conv_value (c_conv c) (sub us (c_lo c) (c_hi c)) = Some v -> assigned us cuts f = Some v.
Proof.
  intros Hf Hc Hne Hv. unfold assigned. rewrite Hf. apply find_key_in in Hf as [_ Hk]. unfold cut_key in Hk.
  rewrite Hc, Hne in Hk. injection Hk as Hk. unfold parse_cut. rewrite Hc, Hne, Hv, Hk. cbn [lookup]. now rewrite String.eqb_refl.
Qed.

(* ------------------------------------------------------------------ *)
(* small arithmetic: one column read by parseNumField is one digit       *)

Lemma rune_count_0 t : rune_count t = 0 -> t = [].
Proof.
  destruct t as [|b t]; [reflexivity|]. unfold rune_count.
  destruct (chunks_step_valid b t) as (r & bs & rest & Hc & _). rewrite Hc. discriminate.
Qed.

Lemma ascii_cons_count b t : (b <? 128)%N = true -> forallb (fun x => (x <? 128)%N) t = true -> rune_count (b :: t) = S (length t).
Proof.
  intros Hb Ht. rewrite ascii_rune_count; [reflexivity|]. cbn [forallb]. now rewrite Hb, Ht.
Qed.

Lemma atoi_one_rune t : rune_count t <= 1 -> (0 <= atoi t <= 9)%Z.
Proof.
  intros H. rewrite atoi_split. destruct t as [|b t']; [cbn; lia|]. rewrite sign_split_cons.
  assert (Hsign : forall c, (c <? 128)%N = true -> b = c ->
            match t' with [] => 0%Z | _ :: _ => if forallb is_digit t' then 1%Z else 0%Z end = 0%Z).
  { intros c Hc ->. destruct t' as [|d t'']; [reflexivity|]. destruct (forallb is_digit (d :: t'')) eqn:E; [|reflexivity].
    exfalso. pose proof (digitsb_ascii _ E) as Ha. rewrite (ascii_cons_count c (d :: t'') Hc Ha) in H. cbn [length] in H. lia. }
  destruct (b =? 45)%N eqn:E1.
  { apply N.eqb_eq in E1. specialize (Hsign 45%N eq_refl E1). destruct t' as [|d t'']; [lia|].
    destruct (forallb is_digit (d :: t'')); [discriminate|lia]. }
  destruct (b =? 43)%N eqn:E2.
  { apply N.eqb_eq in E2. specialize (Hsign 43%N eq_refl E2). destruct t' as [|d t'']; [lia|].
    destruct (forallb is_digit (d :: t'')); [discriminate|lia]. }
  destruct (forallb is_digit (b :: t')) eqn:E; [|lia].
  pose proof (digitsb_ascii _ E) as Ha. cbn [forallb] in Ha. apply andb_prop in Ha as [Hb Ht].
  rewrite (ascii_cons_count b t' Hb Ht) in H. destruct t' as [|d t'']; [|cbn [length] in H; lia].
  cbn [forallb] in E. rewrite andb_true_r in E. unfold is_digit in E. apply andb_prop in E as [Ea Eb].
  apply N.leb_le in Ea, Eb. cbv zeta. cbn [digits_val].
  assert (Hv : (0 <= 0 * 10 + Z.of_N (b - 48) <= 9)%Z) by lia.
  destruct (0 * 10 + Z.of_N (b - 48) <=? max_int64)%Z eqn:E3; [lia|]. apply Z.leb_gt in E3. unfold max_int64 in E3. lia.
Qed.

Lemma itoa_small z : (0 <= z <= 9)%Z -> length (itoa z) = 1.
Proof.
  intros H.
  assert (C : (z = 0 \/ z = 1 \/ z = 2 \/ z = 3 \/ z = 4 \/ z = 5 \/ z = 6 \/ z = 7 \/ z = 8 \/ z = 9)%Z) by lia.
  repeat (destruct C as [->|C]; [reflexivity|]). subst z. reflexivity.
Qed.

Lemma parseNumField_one_col s : wf_utf8 s = true -> rune_count s = 1 -> length (itoa (parseNumField s)) = 1.
Proof.
  intros Hw Hc. apply itoa_small. unfold parseNumField. apply atoi_one_rune.
  pose proof (rune_count_trim_le s Hw). lia.
Qed.

(* ------------------------------------------------------------------ *)
(* C. the rules do not see a field they do not read                      *)

Lemma lookup_cons_ne g v (r : recval) f : f <> g -> lookup ((g, v) :: r) f = lookup r f.
Proof. intros H. cbn [lookup]. apply String.eqb_neq in H. now rewrite H. Qed.

Lemma render_seg_frame g v r s : ~ In g (seg_reads s) -> render_seg ((g, v) :: r) s = render_seg r s.
Proof.
  intros H.
  assert (Hs : forall f, simple_field s = Some f -> render_seg ((g, v) :: r) s = render_seg r s).
  { intros f Hf. apply (render_seg_lookup s f); [exact Hf|]. apply lookup_cons_ne. intros ->. apply H.
    unfold seg_reads. destruct s; cbn [simple_field] in Hf; try discriminate; injection Hf as ->; now left. }
  destruct s as [bs|f w|f w|f w|f|f|n h|src]; try (apply (Hs f); reflexivity); try reflexivity.
  cbn [render_seg]. rewrite (render_custom_reads n ((g, v) :: r) r); [reflexivity|].
  intros f Hf. apply lookup_cons_ne. intros ->. exact (H Hf).
Qed.

Lemma evals_frame g v r t : ~ In g (sreads t) -> evals ((g, v) :: r) t = evals r t.
Proof.
  induction t as [f|s|t IH]; cbn [sreads evals]; intros H.
  - apply gets_lookup, lookup_cons_ne. intros ->. apply H. now left.
  - now apply render_seg_frame.
  - now rewrite IH.
Qed.

Lemma evali_frame g v r t : ~ In g (ireads t) -> evali ((g, v) :: r) t = evali r t.
Proof.
  destruct t as [f|z|t|t]; cbn [ireads evali]; intros H.
  - apply geti_lookup, lookup_cons_ne. intros ->. apply H. now left.
  - reflexivity.
  - now rewrite evals_frame.
  - now rewrite evals_frame.
Qed.

Lemma eval_frame g v r c : ~ In g (creads c) -> eval ((g, v) :: r) c = eval r c.
Proof.
  induction c as [| |t set|t set|t set|t set|k a b|k t n|k t n|t rg|t|a IHa b IHb|a IHa b IHb|a IHa|src fs];
    cbn [creads eval]; intros H; try reflexivity;
    try (rewrite evals_frame by exact H; reflexivity); try (rewrite evali_frame by exact H; reflexivity).
  - rewrite !evali_frame; [reflexivity| |]; intros K; apply H, in_or_app; [now right|now left].
  - rewrite IHa, IHb; [reflexivity| |]; intros K; apply H, in_or_app; [now right|now left].
  - rewrite IHa, IHb; [reflexivity| |]; intros K; apply H, in_or_app; [now right|now left].
  - now rewrite IHa.
Qed.

Lemma rec_validb_frame R g v r : rules_skip R g = true -> rec_validb R ((g, v) :: r) = rec_validb R r.
Proof.
  unfold rules_skip, rec_validb. induction R as [|lc R IH]; [reflexivity|]. cbn [forallb]. intros H.
  apply andb_prop in H as [H1 H2]. rewrite (IH H2). f_equal. unfold rejects. rewrite eval_frame; [reflexivity|].
  intros K. apply mem_str_in in K. now rewrite K in H1.
Qed.

Lemma nonempty_rule_sound R r f : nonempty_rule R f = true -> rec_validb R r = true -> gets r f <> [].
Proof.
  unfold nonempty_rule. intros H Hv E. apply existsb_exists in H as (a & Ha & Hn).
  pose proof (valid_atoms R r Hv a Ha) as Hr. unfold rejects in Hr.
  destruct a; cbn [nonempty_atom] in Hn; try discriminate.
  - apply andb_prop in Hn as [Ht Hm]. apply is_tfield_spec in Ht. subst t. cbn [eval evals] in Hr. rewrite E, Hm in Hr. discriminate.
  - apply is_tfield_spec in Hn. subst t. cbn [eval evals] in Hr. rewrite E in Hr. discriminate.
Qed.

(* ------------------------------------------------------------------ *)
(* D. a parsed record that passes its rules has the width of its columns *)

Lemma is_chain1_spec fn cv : is_chain1 fn cv = true -> cv = [fn].
Proof.
  unfold is_chain1. destruct cv as [|g [|g' cv]]; try discriminate. intros H. apply String.eqb_eq in H. now subst.
Qed.

Lemma is_nil_true {A} (l : list A) : is_nil l = true -> l = [].
Proof. destruct l; [reflexivity|discriminate]. Qed.

Lemma gets_cons_same g s (r : recval) : gets ((g, VS s) :: r) g = s.
Proof. unfold gets. cbn [lookup]. now rewrite String.eqb_refl. Qed.

Section Parsed.
Variable all : list (string * rules).
Variable L : layout.
Variables l clk : bytes.
Hypothesis Hok : layout_ok L = true.
Hypothesis Hpf : parse_fills all L = true.
Hypothesis Hl : wf_utf8 l = true.
Hypothesis H94 : rune_count l = 94.
Hypothesis Hclk : wf_utf8 clk = true.
Hypothesis Hclk4 : rune_count clk = 4.

Notation R := (rules_in all L).
Notation r := (overlay (parse L l) []).
Notation r' := (stamp_for clk (l_name L) r).
Notation us := (units IRune l).

Lemma pf_parts : consts_wfb L = true /\ clock_free all L = true
  /\ forallb (fills R L) (unbounded_in all L) = true.
Proof.
  unfold parse_fills in Hpf. apply andb_prop in Hpf as [H H3]. apply andb_prop in H as [H1 H2]. auto.
Qed.

Lemma r_wf : rec_wf r.
Proof.
  destruct (layout_ok_facts L Hok) as [cs F]. apply overlay_wf, parse_wf; [exact (ok_ix _ _ F)|exact (proj1 pf_parts)|exact Hl].
Qed.

Lemma r'_wf : rec_wf r'.
Proof.
  unfold stamp_for, stamp_val. destruct (String.eqb (l_name L) "FileHeader"); [|exact r_wf].
  destruct (is_nil (gets r TIME)); [|exact r_wf]. constructor; [exact Hclk|exact r_wf].
Qed.

Lemma r'_lookup f : f <> TIME -> lookup r' f = lookup r f.
Proof.
  intros H. unfold stamp_for, stamp_val. destruct (String.eqb (l_name L) "FileHeader"); [|reflexivity].
  destruct (is_nil (gets r TIME)); [|reflexivity]. now apply lookup_cons_ne.
Qed.

Lemma r'_valid : rec_validb R r = true -> rec_validb R r' = true.
Proof.
  intros Hv. unfold stamp_for. destruct (String.eqb (l_name L) "FileHeader") eqn:E; [|exact Hv].
  unfold stamp_val. destruct (is_nil (gets r TIME)); [|exact Hv]. rewrite rec_validb_frame; [exact Hv|].
  destruct pf_parts as (_ & Hc & _). unfold clock_free in Hc. rewrite E in Hc. exact Hc.
Qed.

Lemma us_length : length us = 94.
Proof. rewrite units_length. exact H94. Qed.

(* the text of a real cut over w columns *)
Lemma cut_text c w : cut_cols c w = true ->
  c_const c = None /\ String.eqb (c_field c) "" = false
  /\ wf_utf8 (sub us (c_lo c) (c_hi c)) = true /\ rune_count (sub us (c_lo c) (c_hi c)) = w.
Proof.
  unfold cut_cols, is_real. intros H. apply andb_prop in H as [H H4]. apply andb_prop in H as [H H3]. apply andb_prop in H as [H1 H2].
  destruct (c_const c); [discriminate|]. apply negb_true_iff in H2. apply Nat.eqb_eq in H3. apply Nat.leb_le in H4.
  split; [reflexivity|]. split; [exact H2|]. pose proof (units_single l Hl) as Hs. split; [now apply sub_wf|].
  rewrite <- H3. apply sub_cols; [exact Hs|]. rewrite us_length. lia.
Qed.

Lemma lookup_r f : lookup r f = assigned us (l_cuts L) f.
Proof. now apply lookup_parsed. Qed.

Lemma fills_sound x : fills R L x = true -> rec_validb R r = true -> seg_widthb r' x = true.
Proof.
  unfold fills, seg_widthb. destruct (cs_seg x) as [bs|f w|f w|f w|f|f|n h|src]; try discriminate.
  - (* SRaw *)
    destruct (find_key (l_cuts L) f) as [c|] eqn:Ef; [|discriminate]. intros H Hv.
    apply andb_prop in H as [Hne H]. apply negb_true_iff, String.eqb_neq in Hne.
    assert (Hg : gets r' f = gets r f) by (apply gets_lookup, r'_lookup; exact Hne). rewrite Hg.
    destruct (c_const c) as [bs|] eqn:Ec.
    + rewrite (gets_of_lookup r f bs); [exact H|]. rewrite lookup_r. now apply (assigned_const us _ f c).
    + apply andb_prop in H as [Hc Hconv]. destruct (cut_text c (cs_w x) Hc) as (_ & Hfield & Hwf & Hcnt).
      apply orb_prop in Hconv as [Hnil|Htrim].
      * apply is_nil_true in Hnil.
        rewrite (gets_of_lookup r f (sub us (c_lo c) (c_hi c))).
        { now rewrite Hwf, Hcnt, Nat.eqb_refl. }
        rewrite lookup_r. apply (assigned_real us _ f c); auto. rewrite Hnil. apply conv_none.
      * apply andb_prop in Htrim as [Htrim Hne']. apply andb_prop in Htrim as [Htrim Hw1]. apply Nat.eqb_eq in Hw1.
        assert (Eg : gets r f = trim (sub us (c_lo c) (c_hi c))).
        { apply gets_of_lookup. rewrite lookup_r. apply (assigned_real us _ f c); auto. now apply conv_value_trim. }
        pose proof (nonempty_rule_sound R r f Hne' Hv) as Hnz. rewrite Eg in *.
        rewrite (wf_trim _ Hwf). pose proof (rune_count_trim_le _ Hwf) as Hle.
        destruct (rune_count (trim (sub us (c_lo c) (c_hi c)))) as [|k] eqn:Ek; [exfalso; apply Hnz; now apply rune_count_0|].
        rewrite Hw1. assert (k = 0) by lia. now subst k.
  - (* SItoa *)
    destruct (find_key (l_cuts L) f) as [c|] eqn:Ef; [|discriminate]. intros H Hv.
    apply andb_prop in H as [H Hw1]. apply andb_prop in H as [H Hnum]. apply andb_prop in H as [Hne Hc].
    apply negb_true_iff, String.eqb_neq in Hne. apply Nat.eqb_eq in Hw1.
    destruct (cut_text c 1 Hc) as (Ec & Hfield & Hwf & Hcnt).
    rewrite (geti_lookup r' r f (r'_lookup f Hne)).
    rewrite (geti_of_lookup r f (parseNumField (sub us (c_lo c) (c_hi c)))).
    { rewrite (parseNumField_one_col _ Hwf Hcnt), Hw1. reflexivity. }
    rewrite lookup_r. apply (assigned_real us _ f c); auto. now apply conv_value_num.
  - (* SCustom: the creation date and time of the file header *)
    destruct (String.eqb n "FileHeader.FileCreationDateField") eqn:En.
    + apply String.eqb_eq in En. subst n.
      destruct (find_key (l_cuts L) "FileCreationDate") as [c|] eqn:Ef; [|discriminate]. intros H Hv.
      apply andb_prop in H as [H Hne']. apply andb_prop in H as [H Hw]. apply andb_prop in H as [Hc Hch].
      apply is_chain1_spec in Hch. apply Nat.eqb_eq in Hw.
      destruct (cut_text c 6 Hc) as (Ec & Hfield & Hwf & Hcnt).
      rewrite rc_fcd.
      assert (Hg : gets r' "FileCreationDate" = gets r "FileCreationDate") by (apply gets_lookup, r'_lookup; discriminate).
      rewrite Hg.
      assert (Eg : gets r "FileCreationDate" = if valid_date (sub us (c_lo c) (c_hi c)) then sub us (c_lo c) (c_hi c) else []).
      { apply gets_of_lookup. rewrite lookup_r. apply (assigned_real us _ _ c); auto. rewrite Hch. apply conv_date. }
      pose proof (nonempty_rule_sound R r _ Hne' Hv) as Hnz. rewrite Eg in *.
      destruct (valid_date (sub us (c_lo c) (c_hi c))) eqn:Ed; [|now exfalso].
      rewrite Hcnt. cbn [Nat.eqb]. now rewrite Hwf, Hcnt, Hw.
    + destruct (String.eqb n "FileHeader.FileCreationTimeField") eqn:En2; [|discriminate].
      apply String.eqb_eq in En2. subst n.
      destruct (find_key (l_cuts L) TIME) as [c|] eqn:Ef; [|discriminate]. intros H Hv.
      apply andb_prop in H as [H Hname]. apply andb_prop in H as [H Hw]. apply andb_prop in H as [Hc Hch].
      apply is_chain1_spec in Hch. apply Nat.eqb_eq in Hw.
      destruct (cut_text c 4 Hc) as (Ec & Hfield & Hwf & Hcnt).
      rewrite rc_fct. fold TIME.
      assert (Eg : gets r TIME = if valid_time (sub us (c_lo c) (c_hi c)) then sub us (c_lo c) (c_hi c) else []).
      { apply gets_of_lookup. rewrite lookup_r. apply (assigned_real us _ _ c); auto. rewrite Hch. apply conv_time. }
      unfold stamp_for. rewrite Hname. unfold stamp_val.
      destruct (valid_time (sub us (c_lo c) (c_hi c))) eqn:Et.
      * assert (Hn : is_nil (gets r TIME) = false).
        { rewrite Eg. destruct (sub us (c_lo c) (c_hi c)); [discriminate Hcnt|reflexivity]. }
        rewrite Hn, Eg, Hcnt. cbn [Nat.eqb]. now rewrite Hwf, Hcnt, Hw.
      * rewrite Eg. cbn [is_nil]. rewrite !gets_cons_same.
        rewrite Hclk4. cbn [Nat.eqb]. now rewrite Hclk, Hclk4, Hw.
Qed.

(* valid => width for what Parse produced *)
Theorem parsed_widthb : rec_validb R r = true -> widthb L r' = true.
Proof.
  intros Hv. destruct (layout_ok_facts L Hok) as [cs F]. apply (valid_width_partial all L r').
  - now rewrite (ok_cols _ _ F).
  - now apply r'_valid.
  - apply rec_wf_utf8b, r'_wf.
  - unfold unbounded_fitb. apply forallb_forall. intros x Hx. destruct pf_parts as (_ & _ & Hf).
    rewrite forallb_forall in Hf. apply fills_sound; [now apply Hf|exact Hv].
Qed.

Theorem parsed_line : rec_validb R r = true -> rune_count (render L r') = 94 /\ wf_utf8 (render L r') = true.
Proof.
  intros Hv. pose proof (parsed_widthb Hv) as Hw. split; [now apply render_width_w|now apply render_wf_w].
Qed.

End Parsed.

(* ------------------------------------------------------------------ *)
(* E. invariant of the reader's state machine                            *)

Lemma kind_by_kinds arms l k : kind_by arms l = Some k -> In k (arms_kinds arms).
Proof.
  unfold kind_by. destruct (find _ arms) as [p|] eqn:E; [|discriminate]. intros H. injection H as <-.
  apply find_some in E as [Hin _]. unfold arms_kinds. apply in_flat_map. exists p. split; [exact Hin|].
  unfold arm_kind, arm_kinds. destruct (snd p) as [k|alts d]; [now left|].
  destruct (find _ alts) as [q|] eqn:E2; [|now left]. right. apply find_some in E2 as [Hq _]. now apply in_map.
Qed.

Section Machine.
Variable T : list layout.
Variable Q : bytes -> Prop.              (* what is known of every line of the input *)
Variable G : recordR -> bool.            (* what follows for the record Parse makes of such a line *)
Hypothesis HG : forall k l x, Q l -> rune_count l = 94 -> read_rec T k l = Some x -> G x = true.
Hypothesis Hkinds : reader_kinds_ok T = true.

Definition gd (t : N) (x : recordR) : bool := rec_is T t x && G x.
Definition entry_g (e : entryR) : bool := gd T6 (en_rec e) && forallb (gd T7) (en_addenda e).
Definition batch_g (b : batchR) : bool :=
  gd T5 (bt_hdr b) && forallb entry_g (bt_entries b) && gd T8 (bt_ctl b) && mem_str (r_kind (bt_ctl b)) batch_ctl_kinds.
Definition ctx_g (c : ctx) : bool := gd T5 (fst c) && forallb entry_g (snd c).
Definition fctl_g (c : recordR) : bool := gd T9 c && mem_str (r_kind c) file_ctl_kinds.
Definition file_g (f : fileR) : bool :=
  gd T1 (fl_hdr f) && forallb batch_g (fl_batches f) && forallb batch_g (fl_iat f) && fctl_g (fl_ctl f).

Definition optb {A} (p : A -> bool) (o : option A) : bool := match o with Some x => p x | None => true end.

Record sinv (s : dstate) : Prop := mkSinv {
  s_hdr : optb (gd T1) (d_hdr s) = true;
  s_std : forallb batch_g (d_std s) = true;
  s_iat : forallb batch_g (d_iat s) = true;
  s_cur : optb ctx_g (d_cur s) = true;
  s_icur : optb ctx_g (d_icur s) = true;
  s_ctl : optb fctl_g (d_ctl s) = true;
  s_actl : optb fctl_g (d_actl s) = true }.

Lemma sinv_init : sinv d_init.
Proof. constructor; reflexivity. Qed.

Lemma read_rec_kind k l x : read_rec T k l = Some x -> r_kind x = k.
Proof. unfold read_rec. destruct (layout_of T k); [|discriminate]. intros H. now injection H as <-. Qed.

Lemma read_rec_gd t k l x : Q l -> rune_count l = 94 -> kind_is T t k = true -> read_rec T k l = Some x -> gd t x = true.
Proof.
  intros Hq H94 Hk Hr. unfold gd. rewrite (HG k l x Hq H94 Hr), andb_true_r.
  unfold kind_is, rec_is in *. cbn [r_kind] in Hk. now rewrite (read_rec_kind _ _ _ Hr).
Qed.

Record fl_ok (fv : flavor) : Prop := mkFlOk {
  fo_entry : kind_is T T6 (fv_entry fv) = true;
  fo_addenda : forall l k, fv_addenda fv l = Some k -> kind_is T T7 k = true;
  fo_ctl : kind_is T T8 (fv_ctl fv) = true;
  fo_mem : mem_str (fv_ctl fv) batch_ctl_kinds = true }.

Lemma kinds :
  kind_is T T1 "FileHeader" = true /\ kind_is T T5 "BatchHeader" = true /\ kind_is T T5 "IATBatchHeader" = true
  /\ kind_is T T6 "EntryDetail" = true /\ kind_is T T6 "ADVEntryDetail" = true /\ kind_is T T6 "IATEntryDetail" = true
  /\ forallb (kind_is T T7) (arms_kinds std_arms) = true /\ kind_is T T7 adv_addenda = true
  /\ forallb (kind_is T T7) (arms_kinds iat_arms) = true
  /\ kind_is T T8 "BatchControl" = true /\ kind_is T T8 "ADVBatchControl" = true
  /\ kind_is T T9 "FileControl" = true /\ kind_is T T9 "ADVFileControl" = true
  /\ mem_str "BatchControl" batch_ctl_kinds = true /\ mem_str "ADVBatchControl" batch_ctl_kinds = true
  /\ mem_str "FileControl" file_ctl_kinds = true /\ mem_str "ADVFileControl" file_ctl_kinds = true.
Proof.
  pose proof Hkinds as K. unfold reader_kinds_ok in K. rewrite !andb_true_iff in K. decompose [and] K. repeat split; assumption.
Qed.

Lemma std_fl_ok : fl_ok std_fl.
Proof.
  destruct kinds as (KFH & KBH & KIBH & KED & KADVED & KIATED & Kstd & Kadv & Kiat & KBC & KABC & KFC & KAFC & M1 & M2 & M3 & M4).
  constructor; cbn [std_fl fv_entry fv_addenda fv_ctl]; auto.
  intros l k Hk. apply kind_by_kinds in Hk. rewrite forallb_forall in Kstd. now apply Kstd.
Qed.
Lemma adv_fl_ok : fl_ok adv_fl.
Proof.
  destruct kinds as (KFH & KBH & KIBH & KED & KADVED & KIATED & Kstd & Kadv & Kiat & KBC & KABC & KFC & KAFC & M1 & M2 & M3 & M4).
  constructor; cbn [adv_fl fv_entry fv_addenda fv_ctl]; auto.
  intros l k Hk. now injection Hk as <-.
Qed.
Lemma iat_fl_ok : fl_ok iat_fl.
Proof.
  destruct kinds as (KFH & KBH & KIBH & KED & KADVED & KIATED & Kstd & Kadv & Kiat & KBC & KABC & KFC & KAFC & M1 & M2 & M3 & M4).
  constructor; cbn [iat_fl fv_entry fv_addenda fv_ctl]; auto.
  intros l k Hk. apply kind_by_kinds in Hk. rewrite forallb_forall in Kiat. now apply Kiat.
Qed.
Lemma cur_fl_ok h : fl_ok (cur_fl h).
Proof. unfold cur_fl. destruct (is_adv h); [apply adv_fl_ok|apply std_fl_ok]. Qed.

Lemma attach_gd slots a l : gd T7 a = true -> forallb (gd T7) l = true -> forallb (gd T7) (attach slots a l) = true.
Proof.
  intros Ha. induction l as [|b l IH]; intros Hl; [cbn; now rewrite Ha|].
  cbn [forallb] in Hl. apply andb_prop in Hl as [Hb Hl]. cbn [attach].
  destruct (rank slots (r_kind b) <? rank slots (r_kind a)).
  - cbn [forallb]. now rewrite Hb, IH.
  - destruct (rank slots (r_kind b) =? rank slots (r_kind a)).
    + destruct (multi slots (r_kind a)); cbn [forallb]; [now rewrite Hb, IH|now rewrite Ha, Hl].
    + cbn [forallb]. now rewrite Ha, Hb, Hl.
Qed.

Section Line.
Variable l : bytes.
Hypothesis Hq : Q l.
Hypothesis H94 : rune_count l = 94.

Lemma ctx_entry_g fv c c' : fl_ok fv -> ctx_g c = true -> ctx_entry T fv c l = Some c' -> ctx_g c' = true.
Proof.
  intros F Hc. unfold ctx_entry. destruct (read_rec T (fv_entry fv) l) as [e|] eqn:E; [|discriminate].
  intros H. injection H as <-. unfold ctx_g in *. apply andb_prop in Hc as [H1 H2]. cbn [fst snd forallb].
  unfold entry_g at 1. cbn [en_rec en_addenda forallb]. now rewrite H1, H2, (read_rec_gd T6 _ _ _ Hq H94 (fo_entry _ F) E).
Qed.

Lemma ctx_addenda_g fv c c' : fl_ok fv -> ctx_g c = true -> ctx_addenda T fv c l = Some c' -> ctx_g c' = true.
Proof.
  intros F Hc. unfold ctx_addenda. destruct (snd c) as [|e rest] eqn:Es; [discriminate|].
  destruct (indicator1 (en_rec e)); [|discriminate].
  destruct (fv_addenda fv l) as [k|] eqn:Ek.
  - destruct (read_rec T k l) as [a|] eqn:E; [|discriminate]. intros H. injection H as <-.
    unfold ctx_g in *. rewrite Es in Hc. cbn [fst snd forallb] in *.
    apply andb_prop in Hc as [H1 H2]. apply andb_prop in H2 as [H2 H3]. unfold entry_g in H2. apply andb_prop in H2 as [H4 H5].
    unfold entry_g at 1. cbn [en_rec en_addenda].
    rewrite H1, H4, H3, (attach_gd _ _ _ (read_rec_gd T7 _ _ _ Hq H94 (fo_addenda _ F l k Ek) E) H5). reflexivity.
  - intros H. now injection H as <-.
Qed.

Lemma ctx_close_g fv c b : fl_ok fv -> ctx_g c = true -> ctx_close T fv c l = Some b -> batch_g b = true /\ bt_hdr b = fst c.
Proof.
  intros F Hc. unfold ctx_close. destruct (read_rec T (fv_ctl fv) l) as [ctl|] eqn:E; [|discriminate].
  intros H. injection H as <-. split; [|reflexivity]. unfold ctx_g in Hc. apply andb_prop in Hc as [H1 H2].
  unfold batch_g. cbn [bt_hdr bt_entries bt_ctl].
  rewrite H1, forallb_rev, H2, (read_rec_gd T8 _ _ _ Hq H94 (fo_ctl _ F) E), (read_rec_kind _ _ _ E), (fo_mem _ F). reflexivity.
Qed.

Lemma lift_cur_s s o s' : sinv s -> (forall c, o = Some c -> ctx_g c = true) -> lift_cur s o = Some s' -> sinv s'.
Proof.
  intros I H. destruct o as [c|]; [|discriminate]. intros E. injection E as <-.
  destruct I. constructor; cbn; auto.
Qed.
Lemma lift_icur_s s o s' : sinv s -> (forall c, o = Some c -> ctx_g c = true) -> lift_icur s o = Some s' -> sinv s'.
Proof.
  intros I H. destruct o as [c|]; [|discriminate]. intros E. injection E as <-.
  destruct I. constructor; cbn; auto.
Qed.

Lemma dstep_sinv s s' : sinv s -> dstep T (Some s) l = Some s' -> sinv s'.
Proof.
  intros I. unfold dstep. destruct (negb (rune_count l =? 94)); [discriminate|]. cbv zeta.
  destruct kinds as (KFH & KBH & KIBH & KED & KADVED & KIATED & Kstd & Kadv & Kiat & KBC & KABC & KFC & KAFC & M1 & M2 & M3 & M4).
  destruct (rtype l =? T1)%N.
  { unfold step1. destruct (d_hdr s); [discriminate|].
    destruct (read_rec T "FileHeader" l) as [h|] eqn:E; [|discriminate].
    intros H. injection H as <-. destruct I. constructor; cbn; auto. exact (read_rec_gd T1 _ _ _ Hq H94 KFH E). }
  destruct (rtype l =? T5)%N.
  { unfold step5. destruct (d_cur s) eqn:Ec; [discriminate|]. destruct (iat_line l).
    - destruct (read_rec T "IATBatchHeader" l) as [h|] eqn:E; [|discriminate].
      intros H. injection H as <-. destruct I. constructor; cbn; auto.
      unfold ctx_g. cbn [fst snd forallb]. now rewrite (read_rec_gd T5 _ _ _ Hq H94 KIBH E).
    - destruct (read_rec T "BatchHeader" l) as [h|] eqn:E; [|discriminate].
      destruct (existsb (bytes_eqb (sec_of h)) newbatch_secs); [|discriminate].
      intros H. injection H as <-. destruct I. constructor; cbn; auto.
      unfold ctx_g. cbn [fst snd forallb]. now rewrite (read_rec_gd T5 _ _ _ Hq H94 KBH E). }
  destruct (rtype l =? T6)%N.
  { unfold step6. destruct (d_icur s) as [c|] eqn:Ei.
    - apply lift_icur_s; [exact I|]. intros c' Hc'. apply (ctx_entry_g iat_fl c c' iat_fl_ok); [|exact Hc'].
      pose proof (s_icur s I) as X. now rewrite Ei in X.
    - destruct (d_cur s) as [c|] eqn:Ec; [|discriminate].
      apply lift_cur_s; [exact I|]. intros c' Hc'. apply (ctx_entry_g _ c c' (cur_fl_ok (fst c))); [|exact Hc'].
      pose proof (s_cur s I) as X. now rewrite Ec in X. }
  destruct (rtype l =? T7)%N.
  { assert (Hiat : forall s', step7_iat T s l = Some s' -> sinv s').
    { intros s0. unfold step7_iat. destruct (d_icur s) as [c|] eqn:Ei; [|discriminate].
      apply lift_icur_s; [exact I|]. intros c' Hc'. apply (ctx_addenda_g iat_fl c c' iat_fl_ok); [|exact Hc'].
      pose proof (s_icur s I) as X. now rewrite Ei in X. }
    unfold step7. destruct (d_cur s) as [c|] eqn:Ec; [|apply Hiat].
    destruct (not_iatcor (fst c)); [|apply Hiat].
    apply lift_cur_s; [exact I|]. intros c' Hc'. apply (ctx_addenda_g _ c c' (cur_fl_ok (fst c))); [|exact Hc'].
    pose proof (s_cur s I) as X. now rewrite Ec in X. }
  destruct (rtype l =? T8)%N.
  { unfold step8. destruct (d_cur s) as [c|] eqn:Ec.
    - destruct (ctx_close T (cur_fl (fst c)) c l) as [b|] eqn:E; [|discriminate].
      pose proof (s_cur s I) as X. rewrite Ec in X. cbn [optb] in X.
      apply (ctx_close_g _ c b (cur_fl_ok (fst c)) X) in E as [E1 _].
      intros H. injection H as <-. destruct I. constructor; cbn; auto. now rewrite E1.
    - destruct (d_icur s) as [[h [|e es]]|] eqn:Ei; try discriminate.
      destruct (ctx_close T iat_fl (h, e :: es) l) as [b|] eqn:E; [|discriminate].
      pose proof (s_icur s I) as X. rewrite Ei in X. cbn [optb] in X.
      apply (ctx_close_g _ _ b iat_fl_ok X) in E as [E1 _].
      intros H. injection H as <-. destruct I. constructor; cbn; auto. now rewrite E1. }
  destruct (rtype l =? T9)%N; [|discriminate].
  unfold step9. destruct (pad_line l); [intros H; injection H as <-; exact I|].
  destruct (any_adv (d_std s)).
  - destruct (d_actl s); [discriminate|].
    destruct (read_rec T "ADVFileControl" l) as [c|] eqn:E; [|discriminate].
    intros H. injection H as <-. destruct I. constructor; cbn; auto.
    unfold fctl_g. now rewrite (read_rec_gd T9 _ _ _ Hq H94 KAFC E), (read_rec_kind _ _ _ E).
  - destruct (d_ctl s); [discriminate|].
    destruct (read_rec T "FileControl" l) as [c|] eqn:E; [|discriminate].
    intros H. injection H as <-. destruct I. constructor; cbn; auto.
    unfold fctl_g. now rewrite (read_rec_gd T9 _ _ _ Hq H94 KFC E), (read_rec_kind _ _ _ E).
Qed.

End Line.

Lemma dstep_none ls : fold_left (dstep T) ls None = None.
Proof. induction ls as [|l ls IH]; [reflexivity|exact IH]. Qed.

Lemma dstep_94 s l s' : dstep T (Some s) l = Some s' -> rune_count l = 94.
Proof. unfold dstep. destruct (rune_count l =? 94) eqn:E; [intros _; now apply Nat.eqb_eq|discriminate]. Qed.

Lemma fold_sinv ls : Forall Q ls -> forall s s', sinv s -> fold_left (dstep T) ls (Some s) = Some s' -> sinv s'.
Proof.
  induction 1 as [|l ls Hl Hls IH]; intros s s' I H; [injection H as <-; exact I|]. cbn [fold_left] in H.
  destruct (dstep T (Some s) l) as [s1|] eqn:E; [|now rewrite dstep_none in H].
  apply (IH s1 s'); [|exact H]. exact (dstep_sinv l Hl (dstep_94 _ _ _ E) s s1 I E).
Qed.

(* every record of the tree the reader returns was parsed from a line of the input, by the layout the
   writer uses for its place *)
Theorem read_file_g ls f : Forall Q ls -> read_file T ls = Some f -> file_g f = true.
Proof.
  intros Hls. unfold read_file. destruct (fold_left (dstep T) ls (Some d_init)) as [s|] eqn:E; [|discriminate].
  pose proof (fold_sinv ls Hls _ _ sinv_init E) as I. unfold d_finish.
  destruct (d_hdr s) as [h|] eqn:Eh; [|discriminate]. destruct (d_cur s); [discriminate|].
  destruct (d_icur s); [discriminate|].
  destruct (if any_adv (d_std s) then d_actl s else d_ctl s) as [c|] eqn:Ec; [|discriminate].
  intros H. injection H as <-.
  assert (Hc : fctl_g c = true).
  { destruct I as [_ _ _ _ _ I6 I7]. destruct (any_adv (d_std s)); [rewrite Ec in I7|rewrite Ec in I6]; assumption. }
  destruct I as [I1 I2 I3 _ _ _ _]. rewrite Eh in I1. unfold file_g. cbn [fl_hdr fl_batches fl_iat fl_ctl optb] in *.
  now rewrite I1, !forallb_rev, I2, I3, Hc.
Qed.

Lemma forallb_impl' {A} (p q : A -> bool) l : (forall x, p x = true -> q x = true) -> forallb p l = true -> forallb q l = true.
Proof. intros H. rewrite !forallb_forall. auto. Qed.

Lemma gd_shape t x : gd t x = true -> rec_is T t x = true.
Proof. unfold gd. intros H. now apply andb_prop in H as [H _]. Qed.
Lemma gd_G t x : gd t x = true -> G x = true.
Proof. unfold gd. intros H. now apply andb_prop in H as [_ H]. Qed.

Lemma file_g_shape f : file_g f = true -> shape_ok T f = true.
Proof.
  assert (He : forall e, entry_g e = true -> entry_shape T e = true).
  { intros e H. unfold entry_g in H. apply andb_prop in H as [H1 H2]. unfold entry_shape.
    rewrite (gd_shape _ _ H1). exact (forallb_impl' _ _ _ (gd_shape T7) H2). }
  assert (Hb : forall b, batch_g b = true -> batch_shape T b = true).
  { intros b H. unfold batch_g in H. apply andb_prop in H as [H H4]. apply andb_prop in H as [H H3]. apply andb_prop in H as [H1 H2].
    unfold batch_shape. now rewrite (gd_shape _ _ H1), (forallb_impl' _ _ _ He H2), (gd_shape _ _ H3), H4. }
  unfold file_g, fctl_g. intros H. apply andb_prop in H as [H H4]. apply andb_prop in H as [H H3]. apply andb_prop in H as [H1 H2].
  apply andb_prop in H4 as [H4 H5]. unfold shape_ok.
  now rewrite (gd_shape _ _ H1), (forallb_impl' _ _ _ Hb H2), (forallb_impl' _ _ _ Hb H3), (gd_shape _ _ H4), H5.
Qed.

Lemma file_g_all f : file_g f = true -> all_file G f = true.
Proof.
  assert (He : forall e, entry_g e = true -> all_entry G e = true).
  { intros e H. unfold entry_g in H. apply andb_prop in H as [H1 H2]. unfold all_entry.
    rewrite (gd_G _ _ H1). exact (forallb_impl' _ _ _ (gd_G T7) H2). }
  assert (Hb : forall b, batch_g b = true -> all_batch G b = true).
  { intros b H. unfold batch_g in H. apply andb_prop in H as [H _]. apply andb_prop in H as [H H3]. apply andb_prop in H as [H1 H2].
    unfold all_batch. now rewrite (gd_G _ _ H1), (forallb_impl' _ _ _ He H2), (gd_G _ _ H3). }
  unfold file_g, fctl_g. intros H. apply andb_prop in H as [H H4]. apply andb_prop in H as [H H3]. apply andb_prop in H as [H1 H2].
  apply andb_prop in H4 as [H4 _]. unfold all_file.
  now rewrite (gd_G _ _ H1), (forallb_impl' _ _ _ Hb H2), (forallb_impl' _ _ _ Hb H3), (gd_G _ _ H4).
Qed.

End Machine.

(* ------------------------------------------------------------------ *)
(* F. composition                                                       *)

Definition lineb (l : bytes) : bool := (rune_count l =? 94) && wf_utf8 l.

Lemma lineb_nines : lineb nines = true.
Proof. vm_compute. reflexivity. Qed.

Lemma forallb_repeat {A} (p : A -> bool) x k : p x = true -> forallb p (repeat x k) = true.
Proof. intros H. induction k as [|k IH]; [reflexivity|]. cbn [repeat forallb]. now rewrite H, IH. Qed.

Lemma rec_is_kind T t x y : r_kind x = r_kind y -> rec_is T t x = rec_is T t y.
Proof. unfold rec_is. now intros ->. Qed.

Lemma shape_ok_map T g f : (forall x, r_kind (g x) = r_kind x) -> shape_ok T (map_file g f) = shape_ok T f.
Proof.
  intros Hg.
  assert (He : forall e, entry_shape T (map_entry g e) = entry_shape T e).
  { intros e. unfold entry_shape, map_entry. cbn [en_rec en_addenda]. rewrite forallb_map'.
    rewrite (rec_is_kind T T6 _ _ (Hg (en_rec e))). f_equal. apply forallb_ext'. intros a. apply rec_is_kind, Hg. }
  assert (Hb : forall b, batch_shape T (map_batch g b) = batch_shape T b).
  { intros b. unfold batch_shape, map_batch. cbn [bt_hdr bt_entries bt_ctl]. rewrite forallb_map', (forallb_ext' _ _ _ He).
    now rewrite (rec_is_kind T T5 _ _ (Hg (bt_hdr b))), (rec_is_kind T T8 _ _ (Hg (bt_ctl b))), Hg. }
  unfold shape_ok, map_file. cbn [fl_hdr fl_batches fl_iat fl_ctl]. rewrite !forallb_map', !(forallb_ext' _ _ _ Hb).
  now rewrite (rec_is_kind T T1 _ _ (Hg (fl_hdr f))), (rec_is_kind T T9 _ _ (Hg (fl_ctl f))), Hg.
Qed.

(* without the clock: a tree whose file header holds a creation time is written as it is *)
Lemma stamp_rec_id clk x : has_time x = true -> stamp_rec clk x = x.
Proof.
  destruct x as [k v]. unfold has_time, stamp_rec, stamp_for, stamp_val. cbn [r_kind r_val].
  destruct (String.eqb k "FileHeader"); [|reflexivity]. cbn [andb]. destruct (is_nil (gets v TIME)); [discriminate|reflexivity].
Qed.

Lemma map_id_forallb {A} (g : A -> A) (p : A -> bool) l : (forall x, p x = true -> g x = x) -> forallb p l = true -> map g l = l.
Proof.
  intros H. induction l as [|x l IH]; [reflexivity|]. cbn [forallb map]. intros Hp. apply andb_prop in Hp as [H1 H2].
  now rewrite (H x H1), (IH H2).
Qed.

Lemma stamp_id clk f : all_file has_time f = true -> stamp clk f = f.
Proof.
  pose proof (stamp_rec_id clk) as Hr.
  assert (He : forall e, all_entry has_time e = true -> map_entry (stamp_rec clk) e = e).
  { intros [x as_] H. unfold all_entry in H. cbn [en_rec en_addenda] in H. apply andb_prop in H as [H1 H2].
    unfold map_entry. cbn [en_rec en_addenda]. now rewrite (Hr x H1), (map_id_forallb _ _ _ Hr H2). }
  assert (Hb : forall b, all_batch has_time b = true -> map_batch (stamp_rec clk) b = b).
  { intros [h es c] H. unfold all_batch in H. cbn [bt_hdr bt_entries bt_ctl] in H. apply andb_prop in H as [H H3].
    apply andb_prop in H as [H1 H2]. unfold map_batch. cbn [bt_hdr bt_entries bt_ctl].
    now rewrite (Hr h H1), (Hr c H3), (map_id_forallb _ _ _ He H2). }
  destruct f as [h bs is c]. unfold all_file, stamp, map_file. cbn [fl_hdr fl_batches fl_iat fl_ctl]. intros H.
  apply andb_prop in H as [H H4]. apply andb_prop in H as [H H3]. apply andb_prop in H as [H1 H2].
  now rewrite (Hr h H1), (Hr c H4), (map_id_forallb _ _ _ Hb H2), (map_id_forallb _ _ _ Hb H3).
Qed.

Section Compose.
Variable T : list layout.
Variable RS : list (string * rules).
Variable AT : tables.
Hypothesis HT : forallb layout_ok T = true.
Hypothesis HP : forallb (parse_fills RS) T = true.
Hypothesis HK : reader_kinds_ok T = true.
Variable clk : bytes.
Hypothesis Hclk : wf_utf8 clk = true.
Hypothesis Hclk4 : rune_count clk = 4.

Definition wfQ (l : bytes) : Prop := wf_utf8 l = true.
(* a parsed record that passes its rules is written (with the clock, if it is a file header without
   creation time) as a line of 94 characters of valid UTF-8 *)
Definition Gc (x : recordR) : bool := implb (rec_passb RS x) (lineb (render_rec T (stamp_rec clk x))).

Lemma Gc_parsed k l x : wfQ l -> rune_count l = 94 -> read_rec T k l = Some x -> Gc x = true.
Proof.
  intros Hl H94. unfold read_rec. destruct (layout_of T k) as [L|] eqn:EL; [|discriminate].
  intros H. injection H as <-. unfold layout_of in EL. pose proof (find_some _ _ EL) as [Hin Hname].
  apply String.eqb_eq in Hname. fold (layout_of T k) in EL. subst k.
  assert (Hok : layout_ok L = true) by (rewrite forallb_forall in HT; now apply HT).
  assert (Hpf : parse_fills RS L = true) by (rewrite forallb_forall in HP; now apply HP).
  unfold Gc, rec_passb, rules_for. cbn [r_kind r_val]. destruct (rec_validb _ _) eqn:Ev; [|reflexivity]. cbn [implb].
  unfold stamp_rec, render_rec. cbn [r_kind r_val]. rewrite EL.
  assert (Ev' : rec_validb (rules_in RS L) (overlay (parse L l) []) = true) by exact Ev.
  destruct (parsed_line RS L l clk Hok Hpf Hl H94 Hclk Hclk4 Ev') as [H1 H2].
  unfold lineb. now rewrite H1, H2.
Qed.

Theorem reader_lines ls f : Forall wfQ ls -> read_file_valid T RS AT ls = Some (f, false) ->
  forallb lineb (write_file_padded T (stamp clk f)) = true /\ shape_ok T (stamp clk f) = true.
Proof.
  intros Hls Hr. pose proof (valid_reader_refines T RS AT ls f Hr) as Hread.
  pose proof (valid_reader_sound T RS AT ls f Hr) as Hvalid.
  pose proof (read_file_g T wfQ Gc Gc_parsed HK ls f Hls Hread) as Hg.
  pose proof (file_g_all T Gc f Hg) as Hall. pose proof (file_g_shape T Gc f Hg) as Hshape.
  split.
  - unfold tree_validb, tree_okb in Hvalid. apply andb_prop in Hvalid as [Hvalid _]. apply andb_prop in Hvalid as [Hvalid _].
    assert (Hline : all_file (fun x => lineb (render_rec T (stamp_rec clk x))) f = true).
    { apply (all_file_impl2 (rec_passb RS) Gc); [|exact Hvalid|exact Hall].
      intros x Hp Hx. unfold Gc in Hx. now rewrite Hp in Hx. }
    unfold write_file_padded, physical_lines. rewrite forallb_app. apply andb_true_intro. split.
    + apply (all_file_lines T lineb (stamp clk f)). unfold stamp. now rewrite all_file_map.
    + apply forallb_repeat, lineb_nines.
  - unfold stamp. rewrite shape_ok_map; [exact Hshape|reflexivity].
Qed.

(* C02_reader_domain: every byte string the default reader accepts (no batch left open) *)
Theorem reader_domain text f : read_text_valid T RS AT text = Some (f, false) ->
  let g := stamp clk f in
  let out := write_file_padded T g in
  Forall (fun l => rune_count l = 94 /\ wf_utf8 l = true) out
  /\ length out mod 10 = 0
  /\ (exists k, k < 10 /\ out = write_file T g ++ repeat nines k)
  /\ grammar_ok out = true
  /\ shape_ok T g = true.
Proof.
  unfold read_text_valid. destruct (norm_lines (read_lines text)) as [ls|] eqn:El; [|discriminate]. intros Hr. cbv zeta.
  destruct (reader_lines ls f (read_lines_wf text ls El) Hr) as [Hlines Hshape].
  split; [|split; [|split; [|split]]].
  - apply Forall_forall. intros l Hin. rewrite forallb_forall in Hlines. specialize (Hlines l Hin). unfold lineb in Hlines.
    apply andb_prop in Hlines as [H1 H2]. apply Nat.eqb_eq in H1. now split.
  - apply physical_lines_blocked.
  - destruct (physical_lines_tail (struct_of T (stamp clk f))) as (k & Hk & E). exists k. split; [exact Hk|].
    unfold write_file_padded, write_file, record_lines. rewrite E. cbn [app]. f_equal. now rewrite <- app_assoc.
  - apply grammar_written, shape_typed, Hshape.
  - exact Hshape.
Qed.

End Compose.

(* C02, the reader domain: proofs.

   A. every character bufio.ScanRunes yields ([chars] of an ARBITRARY byte string) is one
      well-formed UTF-8 character; the lines the framing hands to readLine are valid UTF-8
   B. Parse of a well-formed line of 94 characters: every string it assigns is valid UTF-8;
      a cut over k columns holds exactly k characters (`string(runes[lo:hi])`)
   C. the rules do not see the clock: evaluation depends on the fields a rule reads only
   D. [fills] is sound: a parsed record that passes its rules has the nominal width in the
      columns no rule bounds; with `valid => width` (RecValidFacts.valid_width_partial) it
      satisfies [widthb]
   E. invariant of the reader's state machine (Dispatch.read_file): every record of the tree
      was parsed from a line of the input by the layout of its kind, and the kinds sit where
      the writer expects them ([shape_ok])
   F. composition: the tree the default reader returns is written as 94-character records of
      valid UTF-8, in the order of the grammar, blocked by ten *)
From Coq Require Import String List Lia Bool NArith ZArith ZifyN ZifyNat ZifyBool.
From ACH Require Import Arith.
From ACH Require Import Utf8Facts Utf8Enc FieldsFacts CustomFacts LayoutFacts LayoutRoundtrip RecValidFacts FileStructFacts FramingFacts FramingBytes
  DispatchFacts DispatchBytes ReaderValidFacts WrittenCountsFacts ReaderWidth.
Import ListNotations.
Local Open Scope string_scope.
Local Open Scope nat_scope.
Local Open Scope list_scope.

Ltac Zify.zify_post_hook ::= Z.div_mod_to_equations.

(* ------------------------------------------------------------------ *)
(* A. characters and lines                                              *)

Definition single (c : bytes) : Prop := wf_utf8 c = true /\ rune_count c = 1.

Lemma single_encode r : single (encode_rune r).
Proof.
  split.
  - pose proof (wf_encode [r]) as H. unfold encode in H. cbn [flat_map] in H. now rewrite app_nil_r in H.
  - pose proof (rune_count_encode [r]) as H. unfold encode in H. cbn [flat_map] in H. now rewrite app_nil_r in H.
Qed.

Lemma single_err : single [239; 191; 189]%N.
Proof. exact (single_encode rune_error). Qed.

Local Open Scope N_scope.

(* decoding one character of an arbitrary byte string: either the error rune, or the bytes consumed
   are the canonical encoding of the rune (encode-after-decode) *)
Lemma chunk_head_canon b0 t : exists r bs rest,
  chunks (b0 :: t) = (r, bs) :: chunks rest /\ (length rest < length (b0 :: t))%nat
  /\ (r = rune_error \/ encode_rune r = bs).
Proof.
  destruct (b0 <? 128) eqn:E0.
  { apply N.ltb_lt in E0. exists b0, [b0], t. split; [now apply chunks_1|]. split; [cbn [length]; lia|].
    right. unfold encode_rune. apply N.ltb_lt in E0. now rewrite E0. }
  apply N.ltb_ge in E0. rewrite (chunks_hi b0 t E0).
  assert (Eerr : chunks_multi b0 t = (rune_error, [b0]) :: chunks t ->
    exists r bs rest, chunks_multi b0 t = (r, bs) :: chunks rest /\ (length rest < length (b0 :: t))%nat
      /\ (r = rune_error \/ encode_rune r = bs)).
  { intros H. exists rune_error, [b0], t. split; [exact H|]. split; [cbn [length]; lia|now left]. }
  pose proof (seq_size_spec b0) as Hs.
  unfold chunks_multi in *.
  destruct (seq_size b0) as [|[|[|[|[|k]]]]] eqn:Es; try (apply Eerr; reflexivity).
  - (* 2 *) destruct t as [|b1 t1]; [apply Eerr; reflexivity|].
    destruct (second_ok b0 b1) eqn:E1; [|apply Eerr; reflexivity].
    apply second_ok_spec in E1. destruct E1 as (R1 & _).
    exists ((b0 - 192) * 64 + (b1 - 128)), [b0; b1], t1. split; [reflexivity|]. split; [cbn [length]; lia|].
    right. unfold encode_rune.
    assert (A1 : (b0 - 192) * 64 + (b1 - 128) <? 128 = false) by (apply N.ltb_ge; lia).
    assert (A2 : (b0 - 192) * 64 + (b1 - 128) <? 2048 = true) by (apply N.ltb_lt; lia).
    rewrite A1, A2. f_equal; [lia|f_equal; lia].
  - (* 3 *) destruct t as [|b1 [|b2 t2]]; try (apply Eerr; reflexivity).
    destruct (second_ok b0 b1 && cont b2) eqn:E1; [|apply Eerr; reflexivity].
    apply andb_prop in E1 as [E1 E2].
    apply second_ok_spec in E1. destruct E1 as (R1 & Ha & Hb & _).
    apply cont_spec in E2.
    exists ((b0 - 224) * 4096 + (b1 - 128) * 64 + (b2 - 128)), [b0; b1; b2], t2.
    split; [reflexivity|]. split; [cbn [length]; lia|].
    set (r := (b0 - 224) * 4096 + (b1 - 128) * 64 + (b2 - 128)).
    assert (Hlo : 2048 <= r).
    { unfold r. assert (C : b0 = 224 \/ 224 < b0) by lia. destruct C as [C|C]; [specialize (Ha C); lia|lia]. }
    assert (Hhi : r < 65536) by (unfold r; lia).
    assert (Hsur : ~ (55296 <= r <= 57343)).
    { unfold r. assert (C : b0 < 237 \/ b0 = 237 \/ 237 < b0) by lia.
      destruct C as [C|[C|C]]; [lia|specialize (Hb C); lia|lia]. }
    right. unfold encode_rune.
    assert (A1 : r <? 128 = false) by (apply N.ltb_ge; lia).
    assert (A2 : r <? 2048 = false) by (apply N.ltb_ge; lia).
    assert (A3 : (55296 <=? r) && (r <=? 57343) = false).
    { destruct (55296 <=? r) eqn:X1; [|reflexivity]. destruct (r <=? 57343) eqn:X2; [|reflexivity].
      apply N.leb_le in X1, X2. lia. }
    assert (A4 : r <? 65536 = true) by (apply N.ltb_lt; lia).
    rewrite A1, A2, A3, A4. unfold r. f_equal; [lia|f_equal; [lia|f_equal; lia]].
  - (* 4 *) destruct t as [|b1 [|b2 [|b3 t3]]]; try (apply Eerr; reflexivity).
    destruct (second_ok b0 b1 && cont b2 && cont b3) eqn:E1; [|apply Eerr; reflexivity].
    apply andb_prop in E1 as [E1 E3]. apply andb_prop in E1 as [E1 E2].
    apply second_ok_spec in E1. destruct E1 as (R1 & _ & _ & Hc & Hd).
    apply cont_spec in E2. apply cont_spec in E3.
    exists ((b0 - 240) * 262144 + (b1 - 128) * 4096 + (b2 - 128) * 64 + (b3 - 128)), [b0; b1; b2; b3], t3.
    split; [reflexivity|]. split; [cbn [length]; lia|].
    set (r := (b0 - 240) * 262144 + (b1 - 128) * 4096 + (b2 - 128) * 64 + (b3 - 128)).
    assert (Hlo : 65536 <= r).
    { unfold r. assert (C : b0 = 240 \/ 240 < b0) by lia. destruct C as [C|C]; [specialize (Hc C); lia|lia]. }
    assert (Hhi : r < 1114112).
    { unfold r. assert (C : b0 < 244 \/ b0 = 244) by lia. destruct C as [C|C]; [lia|specialize (Hd C); lia]. }
    right. unfold encode_rune.
    assert (A1 : r <? 128 = false) by (apply N.ltb_ge; lia).
    assert (A2 : r <? 2048 = false) by (apply N.ltb_ge; lia).
    assert (A3 : (55296 <=? r) && (r <=? 57343) = false).
    { destruct (55296 <=? r) eqn:X1; [|reflexivity]. destruct (r <=? 57343) eqn:X2; [|reflexivity].
      apply N.leb_le in X1, X2. lia. }
    assert (A4 : r <? 65536 = false) by (apply N.ltb_ge; lia).
    assert (A5 : r <? 1114112 = true) by (apply N.ltb_lt; lia).
    rewrite A1, A2, A3, A4, A5. unfold r. f_equal; [lia|f_equal; [lia|f_equal; [lia|f_equal; lia]]].
Qed.

Local Close Scope N_scope.

(* every character of an arbitrary byte string is one well-formed character *)
Lemma chars_single s : Forall single (chars s).
Proof.
  unfold chars. induction s as [s IH] using list_len_ind.
  destruct s as [|b0 t]; [constructor|].
  destruct (chunk_head_canon b0 t) as (r & bs & rest & Hc & Hlen & Hr).
  rewrite Hc. cbn [map fst snd]. constructor; [|exact (IH rest Hlen)].
  destruct (r =? rune_error)%N eqn:E; [exact single_err|].
  destruct Hr as [Hr|Hr]; [apply N.eqb_neq in E; contradiction|]. rewrite <- Hr. apply single_encode.
Qed.

Lemma wf_single_app cur c : wf_utf8 cur = true -> single c -> wf_utf8 (cur ++ c) = true.
Proof. intros H [Hc _]. now apply wf_app. Qed.

Definition lines_wf (ps : list (nat * bytes)) : Prop := Forall (fun p => wf_utf8 (snd p) = true) ps.

Lemma emit_wf n cur rest : wf_utf8 cur = true -> lines_wf rest -> lines_wf (emit n cur rest).
Proof. intros Hc Hr. unfold emit. destruct (blank_line cur); [exact Hr|now constructor]. Qed.

Lemma frame_wf cs : Forall single cs -> forall cur cnt n, wf_utf8 cur = true -> lines_wf (frame cs cur cnt n).
Proof.
  induction 1 as [|c cs Hc Hcs IH]; intros cur cnt n Hcur; cbn [frame].
  - destruct (0 <? cnt); [constructor; [exact Hcur|constructor]|constructor].
  - destruct (is_nl c).
    + destruct (0 <? cnt); [|now apply IH]. apply emit_wf; [exact Hcur|]. apply IH. apply wf_nil.
    + destruct (S cnt <? 94).
      * apply IH. now apply wf_single_app.
      * apply emit_wf; [now apply wf_single_app|]. apply IH. apply wf_nil.
Qed.

Lemma wf_repeat_sp k : wf_utf8 (repeat sp k) = true.
Proof. exact (wf_spaces k). Qed.

Lemma norm_lines_wf ps : lines_wf ps -> forall ls, norm_lines (map (fun p => norm_line (snd p)) ps) = Some ls ->
  Forall (fun l => wf_utf8 l = true) ls.
Proof.
  induction 1 as [|p ps Hp Hps IH]; intros ls; cbn [map norm_lines].
  - intros H. injection H as <-. constructor.
  - unfold norm_line at 1. destruct (rune_count (snd p) =? 94).
    + destruct (norm_lines _) as [ls'|] eqn:E; [|discriminate]. intros H. injection H as <-.
      constructor; [exact Hp|now apply IH].
    + destruct (94 <? rune_count (snd p)); [discriminate|].
      destruct (norm_lines _) as [ls'|] eqn:E; [|discriminate]. intros H. injection H as <-.
      constructor; [|now apply IH]. apply wf_app; [exact Hp|apply wf_repeat_sp].
Qed.

(* the lines Reader.Read parses are valid UTF-8, whatever the bytes of the input *)
Theorem read_lines_wf text ls : norm_lines (read_lines text) = Some ls -> Forall (fun l => wf_utf8 l = true) ls.
Proof.
  unfold read_lines. apply norm_lines_wf. apply frame_wf; [apply chars_single|apply wf_nil].
Qed.

(* ------------------------------------------------------------------ *)
(* B. Parse of a well-formed line                                       *)

Definition val_wf (v : value) : Prop := match v with VS s => wf_utf8 s = true | VI _ => True end.
Definition rec_wf (r : recval) : Prop := Forall (fun p => val_wf (snd p)) r.

Lemma gets_wf r f : rec_wf r -> wf_utf8 (gets r f) = true.
Proof.
  unfold gets. induction 1 as [|[g v] r Hv Hr IH]; cbn [lookup]; [apply wf_nil|].
  destruct (String.eqb f g); [|exact IH]. destruct v as [s|z]; [exact Hv|apply wf_nil].
Qed.

Lemma rec_wf_utf8b L r : rec_wf r -> utf8b L r = true.
Proof.
  intros H. unfold utf8b. apply forallb_forall. intros s _. unfold seg_utf8b. apply forallb_forall. intros f _.
  now apply gets_wf.
Qed.

Lemma Forall_skipn' {A} (P : A -> Prop) n : forall l, Forall P l -> Forall P (skipn n l).
Proof. induction n as [|n IH]; intros l H; [exact H|]. destruct H; cbn [skipn]; [constructor|now apply IH]. Qed.
Lemma Forall_firstn' {A} (P : A -> Prop) n : forall l, Forall P l -> Forall P (firstn n l).
Proof. induction n as [|n IH]; intros l H; [constructor|]. destruct H; cbn [firstn]; constructor; [assumption|now apply IH]. Qed.

Lemma units_single l : wf_utf8 l = true -> Forall single (units IRune l).
Proof.
  intros H. unfold units. rewrite (chunks_wf l H), map_map. cbn [snd]. apply Forall_forall. intros u Hu.
  apply in_map_iff in Hu as (r & <- & _). apply single_encode.
Qed.

Lemma units_length l : length (units IRune l) = rune_count l.
Proof. unfold units, rune_count. apply map_length. Qed.

Lemma concat_singles us : Forall single us -> wf_utf8 (concat us) = true /\ rune_count (concat us) = length us.
Proof.
  induction 1 as [|u us [Hw Hc] Hus [IH1 IH2]]; cbn [concat length]; [split; [apply wf_nil|reflexivity]|].
  split; [now apply wf_app|]. rewrite rune_count_app_wf by assumption. lia.
Qed.

Lemma sub_wf us lo hi : Forall single us -> wf_utf8 (sub us lo hi) = true.
Proof. intros H. unfold sub. apply concat_singles. now apply Forall_firstn', Forall_skipn'. Qed.

(* `string(runes[lo:lo+w])` has w characters *)
Lemma sub_cols us lo w : Forall single us -> lo + w <= length us -> rune_count (sub us lo (lo + w)) = w.
Proof.
  intros H Hlen. unfold sub. replace (lo + w - lo) with w by lia.
  destruct (concat_singles (firstn w (skipn lo us))) as [_ Hc]; [now apply Forall_firstn', Forall_skipn'|].
  rewrite Hc. apply firstn_length_le. rewrite skipn_length. lia.
Qed.

Lemma wf_tail_ascii b t : (b <? 128)%N = true -> wf_utf8 (b :: t) = true -> wf_utf8 t = true.
Proof.
  intros Hb H. apply wf_spec in H. apply wf_spec. unfold runes in *. rewrite chunks_1 in H by now apply N.ltb_lt.
  cbn [map fst] in H. rewrite encode_cons in H. unfold encode_rune in H. rewrite Hb in H. cbn [app] in H. now injection H.
Qed.

Lemma trz_wf s : wf_utf8 s = true -> wf_utf8 (trimRoutingNumberLeadingZero s) = true.
Proof.
  intros H. unfold trimRoutingNumberLeadingZero.
  destruct s as [|b t]; [now apply wf_trim|]. destruct b as [|p]; [now apply wf_trim|].
  do 7 (try (destruct p as [p|p|]; try (now apply wf_trim))).
  destruct (_ && _); apply wf_trim; [|exact H]. now apply (wf_tail_ascii 48 t).
Qed.

Lemma conv_str_wf fn s s' : wf_utf8 s = true -> conv_str fn s = Some s' -> wf_utf8 s' = true.
Proof.
  intros H. unfold conv_str.
  destruct (String.eqb fn "parseStringField" || String.eqb fn "strings.TrimSpace" || String.eqb fn "parseStringFieldWithOpts").
  { intros E. injection E as <-. now apply wf_trim. }
  destruct (String.eqb fn "trimRoutingNumberLeadingZero").
  { intros E. injection E as <-. now apply trz_wf. }
  destruct (String.eqb fn "validateSimpleDate").
  { intros E. injection E as <-. destruct (valid_date s); [exact H|apply wf_nil]. }
  destruct (String.eqb fn "validateSimpleTime").
  { intros E. injection E as <-. destruct (valid_time s); [exact H|apply wf_nil]. }
  destruct (String.eqb fn "validateSettlementDate"); [|discriminate].
  intros E. injection E as <-. unfold validateSettlementDate.
  destruct (_ || _); [apply wf_spaces|]. destruct (atoi_opt s) as [d|]; [|apply wf_spaces].
  destruct (_ && _); [exact H|apply wf_spaces].
Qed.

Lemma conv_chain_wf chain : forall s s', wf_utf8 s = true -> conv_chain chain s = Some s' -> wf_utf8 s' = true.
Proof.
  induction chain as [|fn rest IH]; intros s s' H; cbn [conv_chain].
  - intros E. now injection E as <-.
  - destruct (conv_chain rest s) as [t|] eqn:E; [|discriminate]. apply conv_str_wf. exact (IH _ _ H E).
Qed.

Lemma conv_value_wf chain s v : wf_utf8 s = true -> conv_value chain s = Some v -> val_wf v.
Proof.
  intros H. unfold conv_value. destruct chain as [|fn rest].
  - intros E. injection E as <-. exact H.
  - destruct (String.eqb fn "parseNumField").
    + destruct (conv_chain rest s); [|discriminate]. intros E. injection E as <-. exact I.
    + destruct (conv_chain (fn :: rest) s) as [t|] eqn:E; [|discriminate]. intros E'. injection E' as <-.
      exact (conv_chain_wf _ _ _ H E).
Qed.

Lemma parse_cut_wf us c : Forall single us ->
  match c_const c with Some bs => wf_utf8 bs | None => true end = true -> rec_wf (parse_cut us c).
Proof.
  intros Hus Hc. unfold parse_cut. destruct (c_const c) as [bs|].
  - constructor; [exact Hc|constructor].
  - destruct (String.eqb (c_field c) ""); [constructor|].
    destruct (conv_value (c_conv c) (sub us (c_lo c) (c_hi c))) as [v|] eqn:E; [|constructor].
    constructor; [|constructor]. exact (conv_value_wf _ _ _ (sub_wf us _ _ Hus) E).
Qed.

Lemma parse_wf L l : l_ix L = IRune -> consts_wfb L = true -> wf_utf8 l = true -> rec_wf (parse L l).
Proof.
  intros Hix Hc Hl. unfold parse. destruct (rune_count l =? 94); [|constructor]. rewrite Hix.
  pose proof (units_single l Hl) as Hus. unfold consts_wfb in Hc. rewrite forallb_forall in Hc.
  unfold rec_wf. induction (l_cuts L) as [|c cuts IH]; [constructor|]. cbn [flat_map]. apply Forall_app. split.
  - apply parse_cut_wf; [exact Hus|]. apply Hc. now left.
  - apply IH. intros c' Hc'. apply Hc. now right.
Qed.

Lemma overlay_wf new : rec_wf new -> rec_wf (overlay new []).
Proof. intros H. unfold overlay, rec_wf. rewrite app_nil_r. now apply Forall_rev. Qed.

(* what Parse assigned to a field *)
Lemma lookup_parsed L l f : layout_ok L = true -> rune_count l = 94 ->
  lookup (overlay (parse L l) []) f = assigned (units IRune l) (l_cuts L) f.
Proof.
  intros Hok H94. destruct (layout_ok_facts L Hok) as [cs F]. unfold overlay, parse. rewrite H94, Nat.eqb_refl, app_nil_r.
  rewrite (ok_ix _ _ F). exact (proj2 (lookup_parse _ _ f (ok_cut_keys _ _ F))).
Qed.

Lemma assigned_const us cuts f c bs : find_key cuts f = Some c -> c_const c = Some bs -> assigned us cuts f = Some (VS bs).
Proof.
  intros Hf Hc. unfold assigned. rewrite Hf. apply find_key_in in Hf as [_ Hk]. unfold cut_key in Hk. rewrite Hc in Hk.
  injection Hk as Hk. unfold parse_cut. rewrite Hc, Hk. cbn [lookup]. now rewrite String.eqb_refl.
Qed.

Lemma assigned_real us cuts f c v : find_key cuts f = Some c -> c_const c = None -> String.eqb (c_field c) "" = false ->
  conv_value (c_conv c) (sub us (c_lo c) (c_hi c)) = Some v -> assigned us cuts f = Some v.
Proof.
  intros Hf Hc Hne Hv. unfold assigned. rewrite Hf. apply find_key_in in Hf as [_ Hk]. unfold cut_key in Hk.
  rewrite Hc, Hne in Hk. injection Hk as Hk. unfold parse_cut. rewrite Hc, Hne, Hv, Hk. cbn [lookup]. now rewrite String.eqb_refl.
Qed.

(* ------------------------------------------------------------------ *)
(* small arithmetic: one column read by parseNumField is one digit       *)

Lemma rune_count_0 t : rune_count t = 0 -> t = [].
Proof.
  destruct t as [|b t]; [reflexivity|]. unfold rune_count.
  destruct (chunks_step_valid b t) as (r & bs & rest & Hc & _). rewrite Hc. discriminate.
Qed.

Lemma ascii_cons_count b t : (b <? 128)%N = true -> forallb (fun x => (x <? 128)%N) t = true -> rune_count (b :: t) = S (length t).
Proof.
  intros Hb Ht. rewrite ascii_rune_count; [reflexivity|]. cbn [forallb]. now rewrite Hb, Ht.
Qed.

Lemma atoi_one_rune t : rune_count t <= 1 -> (0 <= atoi t <= 9)%Z.
Proof.
  intros H. rewrite atoi_split. destruct t as [|b t']; [cbn; lia|]. rewrite sign_split_cons.
  assert (Hsign : forall c, (c <? 128)%N = true -> b = c ->
            match t' with [] => 0%Z | _ :: _ => if forallb is_digit t' then 1%Z else 0%Z end = 0%Z).
  { intros c Hc ->. destruct t' as [|d t'']; [reflexivity|]. destruct (forallb is_digit (d :: t'')) eqn:E; [|reflexivity].
    exfalso. pose proof (digitsb_ascii _ E) as Ha. rewrite (ascii_cons_count c (d :: t'') Hc Ha) in H. cbn [length] in H. lia. }
  destruct (b =? 45)%N eqn:E1.
  { apply N.eqb_eq in E1. specialize (Hsign 45%N eq_refl E1). destruct t' as [|d t'']; [lia|].
    destruct (forallb is_digit (d :: t'')); [discriminate|lia]. }
  destruct (b =? 43)%N eqn:E2.
  { apply N.eqb_eq in E2. specialize (Hsign 43%N eq_refl E2). destruct t' as [|d t'']; [lia|].
    destruct (forallb is_digit (d :: t'')); [discriminate|lia]. }
  destruct (forallb is_digit (b :: t')) eqn:E; [|lia].
  pose proof (digitsb_ascii _ E) as Ha. cbn [forallb] in Ha. apply andb_prop in Ha as [Hb Ht].
  rewrite (ascii_cons_count b t' Hb Ht) in H. destruct t' as [|d t'']; [|cbn [length] in H; lia].
  cbn [forallb] in E. rewrite andb_true_r in E. unfold is_digit in E. apply andb_prop in E as [Ea Eb].
  apply N.leb_le in Ea, Eb. cbv zeta. cbn [digits_val].
  assert (Hv : (0 <= 0 * 10 + Z.of_N (b - 48) <= 9)%Z) by lia.
  destruct (0 * 10 + Z.of_N (b - 48) <=? max_int64)%Z eqn:E3; [lia|]. apply Z.leb_gt in E3. unfold max_int64 in E3. lia.
Qed.

Lemma itoa_small z : (0 <= z <= 9)%Z -> length (itoa z) = 1.
Proof.
  intros H.
  assert (C : (z = 0 \/ z = 1 \/ z = 2 \/ z = 3 \/ z = 4 \/ z = 5 \/ z = 6 \/ z = 7 \/ z = 8 \/ z = 9)%Z) by lia.
  repeat (destruct C as [->|C]; [reflexivity|]). subst z. reflexivity.
Qed.

Lemma parseNumField_one_col s : wf_utf8 s = true -> rune_count s = 1 -> length (itoa (parseNumField s)) = 1.
Proof.
  intros Hw Hc. apply itoa_small. unfold parseNumField. apply atoi_one_rune.
  pose proof (rune_count_trim_le s Hw). lia.
Qed.

(* ------------------------------------------------------------------ *)
(* C. the rules do not see a field they do not read                      *)

Lemma lookup_cons_ne g v (r : recval) f : f <> g -> lookup ((g, v) :: r) f = lookup r f.
Proof. intros H. cbn [lookup]. apply String.eqb_neq in H. now rewrite H. Qed.

Lemma render_seg_frame g v r s : ~ In g (seg_reads s) -> render_seg ((g, v) :: r) s = render_seg r s.
Proof.
  intros H.
  assert (Hs : forall f, simple_field s = Some f -> render_seg ((g, v) :: r) s = render_seg r s).
  { intros f Hf. apply (render_seg_lookup s f); [exact Hf|]. apply lookup_cons_ne. intros ->. apply H.
    unfold seg_reads. destruct s; cbn [simple_field] in Hf; try discriminate; injection Hf as ->; now left. }
  destruct s as [bs|f w|f w|f w|f|f|n h|src]; try (apply (Hs f); reflexivity); try reflexivity.
  cbn [render_seg]. rewrite (render_custom_reads n ((g, v) :: r) r); [reflexivity|].
  intros f Hf. apply lookup_cons_ne. intros ->. exact (H Hf).
Qed.

Lemma evals_frame g v r t : ~ In g (sreads t) -> evals ((g, v) :: r) t = evals r t.
Proof.
  induction t as [f|s|t IH]; cbn [sreads evals]; intros H.
  - apply gets_lookup, lookup_cons_ne. intros ->. apply H. now left.
  - now apply render_seg_frame.
  - now rewrite IH.
Qed.

Lemma evali_frame g v r t : ~ In g (ireads t) -> evali ((g, v) :: r) t = evali r t.
Proof.
  destruct t as [f|z|t|t]; cbn [ireads evali]; intros H.
  - apply geti_lookup, lookup_cons_ne. intros ->. apply H. now left.
  - reflexivity.
  - now rewrite evals_frame.
  - now rewrite evals_frame.
Qed.

Lemma eval_frame g v r c : ~ In g (creads c) -> eval ((g, v) :: r) c = eval r c.
Proof.
  induction c as [| |t set|t set|t set|t set|k a b|k t n|k t n|t rg|t|a IHa b IHb|a IHa b IHb|a IHa|src fs];
    cbn [creads eval]; intros H; try reflexivity;
    try (rewrite evals_frame by exact H; reflexivity); try (rewrite evali_frame by exact H; reflexivity).
  - rewrite !evali_frame; [reflexivity| |]; intros K; apply H, in_or_app; [now right|now left].
  - rewrite IHa, IHb; [reflexivity| |]; intros K; apply H, in_or_app; [now right|now left].
  - rewrite IHa, IHb; [reflexivity| |]; intros K; apply H, in_or_app; [now right|now left].
  - now rewrite IHa.
Qed.

Lemma rec_validb_frame R g v r : rules_skip R g = true -> rec_validb R ((g, v) :: r) = rec_validb R r.
Proof.
  unfold rules_skip, rec_validb. induction R as [|lc R IH]; [reflexivity|]. cbn [forallb]. intros H.
  apply andb_prop in H as [H1 H2]. rewrite (IH H2). f_equal. unfold rejects. rewrite eval_frame; [reflexivity|].
  intros K. apply mem_str_in in K. now rewrite K in H1.
Qed.

Lemma nonempty_rule_sound R r f : nonempty_rule R f = true -> rec_validb R r = true -> gets r f <> [].
Proof.
  unfold nonempty_rule. intros H Hv E. apply existsb_exists in H as (a & Ha & Hn).
  pose proof (valid_atoms R r Hv a Ha) as Hr. unfold rejects in Hr.
  destruct a; cbn [nonempty_atom] in Hn; try discriminate.
  - apply andb_prop in Hn as [Ht Hm]. apply is_tfield_spec in Ht. subst t. cbn [eval evals] in Hr. rewrite E, Hm in Hr. discriminate.
  - apply is_tfield_spec in Hn. subst t. cbn [eval evals] in Hr. rewrite E in Hr. discriminate.
Qed.

(* ------------------------------------------------------------------ *)
(* D. a parsed record that passes its rules has the width of its columns *)

Lemma is_chain1_spec fn cv : is_chain1 fn cv = true -> cv = [fn].
Proof.
  unfold is_chain1. destruct cv as [|g [|g' cv]]; try discriminate. intros H. apply String.eqb_eq in H. now subst.
Qed.

Lemma is_nil_true {A} (l : list A) : is_nil l = true -> l = [].
Proof. destruct l; [reflexivity|discriminate]. Qed.

Lemma gets_cons_same g s (r : recval) : gets ((g, VS s) :: r) g = s.
Proof. unfold gets. cbn [lookup]. now rewrite String.eqb_refl. Qed.

Section Parsed.
Variable all : list (string * rules).
Variable L : layout.
Variables l clk : bytes.
Hypothesis Hok : layout_ok L = true.
Hypothesis Hpf : parse_fills all L = true.
Hypothesis Hl : wf_utf8 l = true.
Hypothesis H94 : rune_count l = 94.
Hypothesis Hclk : wf_utf8 clk = true.
Hypothesis Hclk4 : rune_count clk = 4.

Notation R := (rules_in all L).
Notation r := (overlay (parse L l) []).
Notation r' := (stamp_for clk (l_name L) r).
Notation us := (units IRune l).

Lemma pf_parts : consts_wfb L = true /\ clock_free all L = true
  /\ forallb (fills R L) (unbounded_in all L) = true.
Proof.
  unfold parse_fills in Hpf. apply andb_prop in Hpf as [H H3]. apply andb_prop in H as [H1 H2]. auto.
Qed.

Lemma r_wf : rec_wf r.
Proof.
  destruct (layout_ok_facts L Hok) as [cs F]. apply overlay_wf, parse_wf; [exact (ok_ix _ _ F)|exact (proj1 pf_parts)|exact Hl].
Qed.

Lemma r'_wf : rec_wf r'.
Proof.
  unfold stamp_for, stamp_val. destruct (String.eqb (l_name L) "FileHeader"); [|exact r_wf].
  destruct (is_nil (gets r TIME)); [|exact r_wf]. constructor; [exact Hclk|exact r_wf].
Qed.

Lemma r'_lookup f : f <> TIME -> lookup r' f = lookup r f.
Proof.
  intros H. unfold stamp_for, stamp_val. destruct (String.eqb (l_name L) "FileHeader"); [|reflexivity].
  destruct (is_nil (gets r TIME)); [|reflexivity]. now apply lookup_cons_ne.
Qed.

Lemma r'_valid : rec_validb R r = true -> rec_validb R r' = true.
Proof.
  intros Hv. unfold stamp_for. destruct (String.eqb (l_name L) "FileHeader") eqn:E; [|exact Hv].
  unfold stamp_val. destruct (is_nil (gets r TIME)); [|exact Hv]. rewrite rec_validb_frame; [exact Hv|].
  destruct pf_parts as (_ & Hc & _). unfold clock_free in Hc. rewrite E in Hc. exact Hc.
Qed.

Lemma us_length : length us = 94.
Proof. rewrite units_length. exact H94. Qed.

(* the text of a real cut over w columns *)
Lemma cut_text c w : cut_cols c w = true ->
  c_const c = None /\ String.eqb (c_field c) "" = false
  /\ wf_utf8 (sub us (c_lo c) (c_hi c)) = true /\ rune_count (sub us (c_lo c) (c_hi c)) = w.
Proof.
  unfold cut_cols, is_real. intros H. apply andb_prop in H as [H H4]. apply andb_prop in H as [H H3]. apply andb_prop in H as [H1 H2].
  destruct (c_const c); [discriminate|]. apply negb_true_iff in H2. apply Nat.eqb_eq in H3. apply Nat.leb_le in H4.
  split; [reflexivity|]. split; [exact H2|]. pose proof (units_single l Hl) as Hs. split; [now apply sub_wf|].
  rewrite <- H3. apply sub_cols; [exact Hs|]. rewrite us_length. lia.
Qed.

Lemma lookup_r f : lookup r f = assigned us (l_cuts L) f.
Proof. now apply lookup_parsed. Qed.

Lemma fills_sound x : fills R L x = true -> rec_validb R r = true -> seg_widthb r' x = true.
Proof.
  unfold fills, seg_widthb. destruct (cs_seg x) as [bs|f w|f w|f w|f|f|n h|src]; try discriminate.
  - (* SRaw *)
    destruct (find_key (l_cuts L) f) as [c|] eqn:Ef; [|discriminate]. intros H Hv.
    apply andb_prop in H as [Hne H]. apply negb_true_iff, String.eqb_neq in Hne.
    assert (Hg : gets r' f = gets r f) by (apply gets_lookup, r'_lookup; exact Hne). rewrite Hg.
    destruct (c_const c) as [bs|] eqn:Ec.
    + rewrite (gets_of_lookup r f bs); [exact H|]. rewrite lookup_r. now apply (assigned_const us _ f c).
    + apply andb_prop in H as [Hc Hconv]. destruct (cut_text c (cs_w x) Hc) as (_ & Hfield & Hwf & Hcnt).
      apply orb_prop in Hconv as [Hnil|Htrim].
      * apply is_nil_true in Hnil.
        rewrite (gets_of_lookup r f (sub us (c_lo c) (c_hi c))).
        { now rewrite Hwf, Hcnt, Nat.eqb_refl. }
        rewrite lookup_r. apply (assigned_real us _ f c); auto. rewrite Hnil. apply conv_none.
      * apply andb_prop in Htrim as [Htrim Hne']. apply andb_prop in Htrim as [Htrim Hw1]. apply Nat.eqb_eq in Hw1.
        assert (Eg : gets r f = trim (sub us (c_lo c) (c_hi c))).
        { apply gets_of_lookup. rewrite lookup_r. apply (assigned_real us _ f c); auto. now apply conv_value_trim. }
        pose proof (nonempty_rule_sound R r f Hne' Hv) as Hnz. rewrite Eg in *.
        rewrite (wf_trim _ Hwf). pose proof (rune_count_trim_le _ Hwf) as Hle.
        destruct (rune_count (trim (sub us (c_lo c) (c_hi c)))) as [|k] eqn:Ek; [exfalso; apply Hnz; now apply rune_count_0|].
        rewrite Hw1. assert (k = 0) by lia. now subst k.
  - (* SItoa *)
    destruct (find_key (l_cuts L) f) as [c|] eqn:Ef; [|discriminate]. intros H Hv.
    apply andb_prop in H as [H Hw1]. apply andb_prop in H as [H Hnum]. apply andb_prop in H as [Hne Hc].
    apply negb_true_iff, String.eqb_neq in Hne. apply Nat.eqb_eq in Hw1.
    destruct (cut_text c 1 Hc) as (Ec & Hfield & Hwf & Hcnt).
    rewrite (geti_lookup r' r f (r'_lookup f Hne)).
    rewrite (geti_of_lookup r f (parseNumField (sub us (c_lo c) (c_hi c)))).
    { rewrite (parseNumField_one_col _ Hwf Hcnt), Hw1. reflexivity. }
    rewrite lookup_r. apply (assigned_real us _ f c); auto. now apply conv_value_num.
  - (* SCustom: the creation date and time of the file header *)
    destruct (String.eqb n "FileHeader.FileCreationDateField") eqn:En.
    + apply String.eqb_eq in En. subst n.
      destruct (find_key (l_cuts L) "FileCreationDate") as [c|] eqn:Ef; [|discriminate]. intros H Hv.
      apply andb_prop in H as [H Hne']. apply andb_prop in H as [H Hw]. apply andb_prop in H as [Hc Hch].
      apply is_chain1_spec in Hch. apply Nat.eqb_eq in Hw.
      destruct (cut_text c 6 Hc) as (Ec & Hfield & Hwf & Hcnt).
      rewrite rc_fcd.
      assert (Hg : gets r' "FileCreationDate" = gets r "FileCreationDate") by (apply gets_lookup, r'_lookup; discriminate).
      rewrite Hg.
      assert (Eg : gets r "FileCreationDate" = if valid_date (sub us (c_lo c) (c_hi c)) then sub us (c_lo c) (c_hi c) else []).
      { apply gets_of_lookup. rewrite lookup_r. apply (assigned_real us _ _ c); auto. rewrite Hch. apply conv_date. }
      pose proof (nonempty_rule_sound R r _ Hne' Hv) as Hnz. rewrite Eg in *.
      destruct (valid_date (sub us (c_lo c) (c_hi c))) eqn:Ed; [|now exfalso].
      rewrite Hcnt. cbn [Nat.eqb]. now rewrite Hwf, Hcnt, Hw.
    + destruct (String.eqb n "FileHeader.FileCreationTimeField") eqn:En2; [|discriminate].
      apply String.eqb_eq in En2. subst n.
      destruct (find_key (l_cuts L) TIME) as [c|] eqn:Ef; [|discriminate]. intros H Hv.
      apply andb_prop in H as [H Hname]. apply andb_prop in H as [H Hw]. apply andb_prop in H as [Hc Hch].
      apply is_chain1_spec in Hch. apply Nat.eqb_eq in Hw.
      destruct (cut_text c 4 Hc) as (Ec & Hfield & Hwf & Hcnt).
      rewrite rc_fct. fold TIME.
      assert (Eg : gets r TIME = if valid_time (sub us (c_lo c) (c_hi c)) then sub us (c_lo c) (c_hi c) else []).
      { apply gets_of_lookup. rewrite lookup_r. apply (assigned_real us _ _ c); auto. rewrite Hch. apply conv_time. }
      unfold stamp_for. rewrite Hname. unfold stamp_val.
      destruct (valid_time (sub us (c_lo c) (c_hi c))) eqn:Et.
      * assert (Hn : is_nil (gets r TIME) = false).
        { rewrite Eg. destruct (sub us (c_lo c) (c_hi c)); [discriminate Hcnt|reflexivity]. }
        rewrite Hn, Eg, Hcnt. cbn [Nat.eqb]. now rewrite Hwf, Hcnt, Hw.
      * rewrite Eg. cbn [is_nil]. rewrite !gets_cons_same.
        rewrite Hclk4. cbn [Nat.eqb]. now rewrite Hclk, Hclk4, Hw.
Qed.

(* valid => width for what Parse produced *)
Theorem parsed_widthb : rec_validb R r = true -> widthb L r' = true.
Proof.
  intros Hv. destruct (layout_ok_facts L Hok) as [cs F]. apply (valid_width_partial all L r').
  - now rewrite (ok_cols _ _ F).
  - now apply r'_valid.
  - apply rec_wf_utf8b, r'_wf.
  - unfold unbounded_fitb. apply forallb_forall. intros x Hx. destruct pf_parts as (_ & _ & Hf).
    rewrite forallb_forall in Hf. apply fills_sound; [now apply Hf|exact Hv].
Qed.

Theorem parsed_line : rec_validb R r = true -> rune_count (render L r') = 94 /\ wf_utf8 (render L r') = true.
Proof.
  intros Hv. pose proof (parsed_widthb Hv) as Hw. split; [now apply render_width_w|now apply render_wf_w].
Qed.

End Parsed.

(* C02, valid => width: soundness of the column analysis of RecValid.v.
   Generic over the rule table and the layout (nothing here mentions the regenerated
   tables): if [col_bounded R x] holds then every record the rules accept renders the
   column x to its nominal width; hence [widthb] follows from [rec_validb], [utf8b] and
   the widths of the columns the rules do not bound. *)
From Coq Require Import String List Lia NArith ZArith Bool.
From ACH Require Import LayoutOk FieldsFacts LayoutFacts CustomFacts RecValid.
Import ListNotations.
Local Open Scope string_scope.
Local Open Scope nat_scope.

(* ------------------------------------------------------------------ *)
(* rules that do not reject                                             *)

Lemma rejects_or r a b : rejects r (COr a b) = false -> rejects r a = false /\ rejects r b = false.
Proof.
  unfold rejects; cbn [eval]. destruct (eval r a) as [[|]|], (eval r b) as [[|]|]; cbn; intros H;
    try discriminate; auto.
Qed.

Lemma rejects_disjuncts r c : rejects r c = false -> forall a, In a (disjuncts c) -> rejects r a = false.
Proof.
  induction c; cbn [disjuncts]; intros H x Hx; try (destruct Hx as [<-|[]]; exact H).
  apply in_app_or in Hx. apply rejects_or in H as [H1 H2]. destruct Hx as [Hx|Hx]; auto.
Qed.

Lemma valid_rule R r l c : rec_validb R r = true -> In (l, c) R -> rejects r c = false.
Proof.
  unfold rec_validb. intros H Hin. rewrite forallb_forall in H. specialize (H _ Hin).
  now apply negb_true_iff in H.
Qed.

Lemma valid_atoms R r : rec_validb R r = true -> forall a, In a (atoms R) -> rejects r a = false.
Proof.
  intros H a Ha. unfold atoms in Ha. apply in_flat_map in Ha as ([l c] & Hlc & Ha).
  exact (rejects_disjuncts r c (valid_rule R r l c H Hlc) a Ha).
Qed.

(* recognisers *)
Lemma is_ne_spec k : is_ne k = true -> k = Cne.
Proof. destruct k; cbn; intros H; try discriminate; reflexivity. Qed.
Lemma is_tfield_spec t f : is_tfield t f = true -> t = TField f.
Proof. destruct t; cbn; intros H; try discriminate. apply String.eqb_eq in H. now subst. Qed.
Lemma is_ifield_spec t f : is_ifield t f = true -> t = IField f.
Proof. destruct t; cbn; intros H; try discriminate. apply String.eqb_eq in H. now subst. Qed.
Lemma is_iconst_spec t z : is_iconst t z = true -> t = IConst z.
Proof. destruct t; cbn; intros H; try discriminate. apply Z.eqb_eq in H. now subst. Qed.

Lemma rejects_cmp_ne r a b : rejects r (CIntCmp Cne a b) = false -> evali r a = evali r b.
Proof.
  unfold rejects; cbn [eval cmpz]. destruct (evali r a =? evali r b)%Z eqn:E; cbn; intros H; [|discriminate].
  now apply Z.eqb_eq in E.
Qed.

(* ------------------------------------------------------------------ *)
(* string columns                                                       *)

Lemma mem_bytes_in s set : mem_bytes s set = true -> In s set.
Proof.
  unfold mem_bytes. intros H. apply existsb_exists in H as (m & Hm & E). apply bytes_eqb_eq in E. now subst.
Qed.

Lemma rune_count_to_upper s : rune_count (to_upper s) = rune_count s.
Proof.
  unfold to_upper. rewrite rune_count_encode, map_length. unfold runes, rune_count. now rewrite map_length.
Qed.

Lemma evals_plain r t f : plain_field t f = true -> rune_count (evals r t) = rune_count (gets r f).
Proof.
  destruct t as [g|s|t']; cbn [plain_field]; intros H.
  - apply is_tfield_spec in H. injection H as ->. reflexivity.
  - discriminate.
  - apply is_tfield_spec in H. subst t'. cbn [evals]. apply rune_count_to_upper.
Qed.

Lemma rune_count_single b : rune_count [b] = 1.
Proof.
  unfold rune_count. cbn [chunks]. destruct (b <? 128)%N; [reflexivity|].
  destruct (seq_size b) as [|[|[|[|[|k]]]]]; reflexivity.
Qed.

Lemma str_atom_sound r f w a : str_atom_bound f w a = true -> rejects r a = false -> rune_count (gets r f) = w.
Proof.
  destruct a; cbn [str_atom_bound]; try discriminate; intros H Hr.
  - (* CStrNotIn *)
    apply andb_prop in H as [Hp Hs]. unfold rejects in Hr; cbn [eval] in Hr.
    destruct (mem_bytes (evals r t) set) eqn:E; cbn in Hr; [|discriminate].
    apply mem_bytes_in in E. rewrite forallb_forall in Hs. specialize (Hs _ E). apply Nat.eqb_eq in Hs.
    now rewrite <- (evals_plain r t f Hp).
  - (* CByteLen *)
    apply andb_prop in H as [H Hw]. apply andb_prop in H as [H Hn]. apply andb_prop in H as [Hk Ht].
    apply is_ne_spec in Hk. apply is_tfield_spec in Ht. subst c t.
    apply Z.eqb_eq in Hn. apply Nat.eqb_eq in Hw. subst n w.
    unfold rejects in Hr; cbn [eval cmpz evals] in Hr.
    destruct (Z.of_nat (length (gets r f)) =? 1)%Z eqn:E; cbn in Hr; [|discriminate].
    apply Z.eqb_eq in E. destruct (gets r f) as [|b [|b' t]]; cbn [length] in E; try lia.
    apply rune_count_single.
  - (* CRuneLen *)
    apply andb_prop in H as [H Hn]. apply andb_prop in H as [Hk Ht].
    apply is_ne_spec in Hk. apply is_tfield_spec in Ht. subst c t. apply Z.eqb_eq in Hn.
    unfold rejects in Hr; cbn [eval cmpz evals] in Hr.
    destruct (Z.of_nat (rune_count (gets r f)) =? n)%Z eqn:E; cbn in Hr; [|discriminate].
    apply Z.eqb_eq in E. lia.
Qed.

Lemma str_bound_sound R r f w : str_bound R f w = true -> rec_validb R r = true -> rune_count (gets r f) = w.
Proof.
  unfold str_bound. intros H Hv. apply existsb_exists in H as (a & Ha & Hb).
  exact (str_atom_sound r f w a Hb (valid_atoms R r Hv a Ha)).
Qed.

(* ------------------------------------------------------------------ *)
(* integer columns                                                      *)

Lemma mem_z_in z set : mem_z z set = true -> In z set.
Proof.
  unfold mem_z. intros H. apply existsb_exists in H as (m & Hm & E). apply Z.eqb_eq in E. now subst.
Qed.

Lemma int_atom_sound r f w a : int_atom_bound f w a = true -> rejects r a = false -> length (itoa (geti r f)) = w.
Proof.
  destruct a; cbn [int_atom_bound]; try discriminate; intros H Hr.
  - (* CIntNotIn *)
    apply andb_prop in H as [Ht Hs]. apply is_ifield_spec in Ht. subst t.
    unfold rejects in Hr; cbn [eval evali] in Hr.
    destruct (mem_z (geti r f) set) eqn:E; cbn in Hr; [|discriminate].
    apply mem_z_in in E. rewrite forallb_forall in Hs. specialize (Hs _ E). now apply Nat.eqb_eq in Hs.
  - (* CIntCmp *)
    apply andb_prop in H as [H Hb]. apply andb_prop in H as [Hk Ha].
    apply is_ne_spec in Hk. apply is_ifield_spec in Ha. subst c a.
    destruct b as [g|z|t|t]; try discriminate. apply Nat.eqb_eq in Hb.
    apply rejects_cmp_ne in Hr. cbn [evali] in Hr. now rewrite Hr.
Qed.

Lemma int_bound_sound R r f w : int_bound R f w = true -> rec_validb R r = true -> length (itoa (geti r f)) = w.
Proof.
  unfold int_bound. intros H Hv. apply existsb_exists in H as (a & Ha & Hb).
  exact (int_atom_sound r f w a Hb (valid_atoms R r Hv a Ha)).
Qed.

(* ------------------------------------------------------------------ *)
(* custom accessors                                                     *)

Lemma wf_spaces k : wf_utf8 (spaces k) = true.
Proof. apply wf_ascii, ascii_spaces. Qed.

Lemma wf_sp_cons x : wf_utf8 x = true -> wf_utf8 (sp :: x) = true.
Proof. intros H. change (sp :: x) with (app [sp] x). apply wf_app; [reflexivity|exact H]. Qed.

Lemma rune_count_sp_cons x : rune_count (sp :: x) = S (rune_count x).
Proof. change (sp :: x) with (app [sp] x). rewrite rune_count_app_wf by reflexivity. reflexivity. Qed.

Lemma routing_text_fit v : wf_utf8 v = true -> wf_utf8 (routing_text v) = true /\ rune_count (routing_text v) = 10.
Proof.
  intros Hv. unfold routing_text. destruct v as [|b t].
  - split; [apply wf_spaces|apply rune_count_spaces].
  - split.
    + apply wf_sp_cons, wf_stringField, wf_trim, Hv.
    + rewrite rune_count_sp_cons, rune_count_stringField_any. reflexivity.
Qed.

Lemma custom_total_sound n h w r : custom_total n w = true -> seg_utf8b r (SCustom n h) = true ->
  exists bs, render_custom n r = Some bs /\ wf_utf8 bs = true /\ rune_count bs = w.
Proof.
  unfold custom_total, seg_utf8b. cbn [seg_strs]. intros H Hu. apply andb_prop in H as [Hn Hw].
  unfold mem_str, total_customs in Hn. cbn [existsb] in Hn.
  repeat (apply orb_prop in Hn as [Hn|Hn]); try discriminate; apply String.eqb_eq in Hn; subst n.
  - (* BatchHeader.EffectiveEntryDateField *)
    assert (E : custom_width "BatchHeader.EffectiveEntryDateField" = Some 6) by reflexivity.
    rewrite E in Hw. apply Nat.eqb_eq in Hw. subst w.
    assert (Er : custom_reads "BatchHeader.EffectiveEntryDateField"
                 = ["EffectiveEntryDate"; "CompanyEntryDescription"; "StandardEntryClassCode"]) by reflexivity.
    rewrite Er in Hu. cbn [forallb] in Hu. apply andb_prop in Hu as [Hu1 _].
    rewrite rc_eed. eexists; split; [reflexivity|].
    destruct (bytes_eqb _ _ && bytes_eqb _ _).
    + split; [apply wf_spaces|apply rune_count_spaces].
    + split; [now apply wf_stringField|apply rune_count_stringField_any].
  - (* FileHeader.ImmediateDestinationField *)
    assert (E : custom_width "FileHeader.ImmediateDestinationField" = Some 10) by reflexivity.
    rewrite E in Hw. apply Nat.eqb_eq in Hw. subst w.
    assert (Er : custom_reads "FileHeader.ImmediateDestinationField" = ["ImmediateDestination"]) by reflexivity.
    rewrite Er in Hu. cbn [forallb] in Hu. apply andb_prop in Hu as [Hu1 _].
    rewrite rc_idest. eexists; split; [reflexivity|]. now apply routing_text_fit.
  - (* FileHeader.ImmediateOriginField *)
    assert (E : custom_width "FileHeader.ImmediateOriginField" = Some 10) by reflexivity.
    rewrite E in Hw. apply Nat.eqb_eq in Hw. subst w.
    assert (Er : custom_reads "FileHeader.ImmediateOriginField" = ["ImmediateOrigin"]) by reflexivity.
    rewrite Er in Hu. cbn [forallb] in Hu. apply andb_prop in Hu as [Hu1 _].
    rewrite rc_iorig. eexists; split; [reflexivity|]. now apply routing_text_fit.
  - (* IATBatchHeader.ForeignExchangeReferenceField *)
    assert (E : custom_width "IATBatchHeader.ForeignExchangeReferenceField" = Some 15) by reflexivity.
    rewrite E in Hw. apply Nat.eqb_eq in Hw. subst w.
    assert (Er : custom_reads "IATBatchHeader.ForeignExchangeReferenceField"
                 = ["ForeignExchangeReference"; "ForeignExchangeReferenceIndicator"]) by reflexivity.
    rewrite Er in Hu. cbn [forallb] in Hu. apply andb_prop in Hu as [Hu1 _].
    rewrite rc_fxref. eexists; split; [reflexivity|].
    destruct (geti r "ForeignExchangeReferenceIndicator" =? 3)%Z.
    + split; [apply wf_spaces|apply rune_count_spaces].
    + split; [now apply wf_alphaField|apply rune_count_alphaField_any].
Qed.

(* an accessor that writes its field as it is: well formed when the field is *)
Lemma sized_custom_wf n h r bs : mem_str n sized_customs = true -> seg_utf8b r (SCustom n h) = true ->
  render_custom n r = Some bs -> wf_utf8 bs = true.
Proof.
  unfold seg_utf8b. cbn [seg_strs]. intros Hn Hu.
  unfold mem_str, sized_customs in Hn. cbn [existsb] in Hn.
  repeat (apply orb_prop in Hn as [Hn|Hn]); try discriminate; apply String.eqb_eq in Hn; subst n.
  - assert (Er : custom_reads "Addenda99.DateOfDeathField" = ["DateOfDeath"]) by reflexivity.
    rewrite Er in Hu. cbn [forallb] in Hu. apply andb_prop in Hu as [Hu1 _].
    rewrite rc_dod. intros E. injection E as <-. unfold or_blank.
    destruct (gets r "DateOfDeath") as [|b t]; [apply wf_spaces|exact Hu1].
  - assert (Er : custom_reads "FileHeader.FileCreationDateField" = ["FileCreationDate"]) by reflexivity.
    rewrite Er in Hu. cbn [forallb] in Hu. apply andb_prop in Hu as [Hu1 _].
    rewrite rc_fcd. destruct (rune_count (gets r "FileCreationDate") =? 6); [|discriminate].
    intros E. injection E as <-. exact Hu1.
  - assert (Er : custom_reads "FileHeader.FileCreationTimeField" = ["FileCreationTime"]) by reflexivity.
    rewrite Er in Hu. cbn [forallb] in Hu. apply andb_prop in Hu as [Hu1 _].
    rewrite rc_fct. destruct (rune_count (gets r "FileCreationTime") =? 4); [|discriminate].
    intros E. injection E as <-. exact Hu1.
Qed.

Lemma rune_count_nil0 : rune_count [] = 0.
Proof. reflexivity. Qed.

Lemma custom_atom_sound n h w r a : custom_atom_bound n w a = true -> rejects r a = false ->
  seg_utf8b r (SCustom n h) = true ->
  exists bs, render_custom n r = Some bs /\ wf_utf8 bs = true /\ rune_count bs = w.
Proof.
  destruct a; cbn [custom_atom_bound]; try discriminate; intros H Hr Hu.
  apply andb_prop in H as [H Hs]. apply andb_prop in H as [H H1]. apply andb_prop in H as [H Hn].
  apply andb_prop in H as [Hk Ht]. apply is_ne_spec in Hk. subst c.
  apply Z.eqb_eq in Hn. apply Nat.leb_le in H1.
  destruct t as [g|s|t']; cbn [is_render_custom] in Ht; try discriminate.
  destruct s as [bs0|f0 w0|f0 w0|f0 w0|f0|f0|m h'|src]; try discriminate.
  apply String.eqb_eq in Ht. subst m.
  unfold rejects in Hr; cbn [eval cmpz evals render_seg] in Hr.
  destruct (render_custom n r) as [bs|] eqn:E.
  - exists bs. split; [reflexivity|]. split; [exact (sized_custom_wf n h r bs Hs Hu E)|].
    destruct (Z.of_nat (rune_count bs) =? n0)%Z eqn:E2; cbn in Hr; [|discriminate].
    apply Z.eqb_eq in E2. lia.
  - exfalso. rewrite rune_count_nil0 in Hr.
    destruct (Z.of_nat 0 =? n0)%Z eqn:E2; cbn in Hr; [|discriminate]. apply Z.eqb_eq in E2. lia.
Qed.

(* ------------------------------------------------------------------ *)
(* a bounded column has its nominal width on every accepted record       *)

Lemma col_bounded_sound R r x : col_bounded R x = true -> rec_validb R r = true ->
  seg_utf8b r (cs_seg x) = true -> seg_widthb r x = true.
Proof.
  unfold col_bounded, seg_widthb. destruct (cs_seg x) as [bs|f w|f w|f w|f|f|n h|src]; intros Hb Hv Hu;
    try reflexivity; try discriminate.
  - (* SAlpha *) unfold seg_utf8b in Hu. cbn [seg_strs forallb] in Hu. now apply andb_prop in Hu as [Hu _].
  - (* SStr *) unfold seg_utf8b in Hu. cbn [seg_strs forallb] in Hu. now apply andb_prop in Hu as [Hu _].
  - (* SRaw *)
    unfold seg_utf8b in Hu. cbn [seg_strs forallb] in Hu. apply andb_prop in Hu as [Hu _].
    rewrite Hu, (str_bound_sound R r f (cs_w x) Hb Hv). cbn. apply Nat.eqb_refl.
  - (* SItoa *) rewrite (int_bound_sound R r f (cs_w x) Hb Hv). apply Nat.eqb_refl.
  - (* SCustom *)
    apply orb_prop in Hb as [Hb|Hb].
    + destruct (custom_total_sound n h (cs_w x) r Hb Hu) as (bs & -> & Hwf & Hc).
      rewrite Hwf, Hc. cbn. apply Nat.eqb_refl.
    + apply existsb_exists in Hb as (a & Ha & Hb).
      destruct (custom_atom_sound n h (cs_w x) r a Hb (valid_atoms R r Hv a Ha) Hu) as (bs & -> & Hwf & Hc).
      rewrite Hwf, Hc. cbn. apply Nat.eqb_refl.
Qed.

Theorem valid_width_cols R r cs :
  rec_validb R r = true ->
  (forall x, In x cs -> seg_utf8b r (cs_seg x) = true) ->
  forallb (seg_widthb r) (unbounded_of R cs) = true ->
  forallb (seg_widthb r) cs = true.
Proof.
  intros Hv Hu Hn. apply forallb_forall. intros x Hx.
  destruct (col_bounded R x) eqn:E.
  - exact (col_bounded_sound R r x E Hv (Hu x Hx)).
  - rewrite forallb_forall in Hn. apply Hn. unfold unbounded_of. apply filter_In. split; [exact Hx|].
    now rewrite E.
Qed.

Lemma utf8b_cols L cs r : cols L = Some cs -> utf8b L r = true ->
  forall x, In x cs -> seg_utf8b r (cs_seg x) = true.
Proof.
  unfold cols, utf8b. intros Hc Hu x Hx. rewrite forallb_forall in Hu. apply Hu.
  rewrite <- (cols_from_segs _ _ _ _ Hc). now apply in_map.
Qed.

(* valid => width, with the unbounded columns as an explicit hypothesis *)
Theorem valid_width_partial all L r :
  is_some (cols L) = true ->
  rec_validb (rules_in all L) r = true -> utf8b L r = true -> unbounded_fitb all L r = true ->
  widthb L r = true.
Proof.
  unfold unbounded_fitb, unbounded_in, widthb. destruct (cols L) as [cs|] eqn:Hc; [|discriminate].
  intros _ Hv Hu Hn. exact (valid_width_cols _ r cs Hv (utf8b_cols L cs r Hc Hu) Hn).
Qed.

(* valid => width for a layout all of whose columns are bounded *)
Theorem valid_width all L r :
  complete_in all L = true ->
  rec_validb (rules_in all L) r = true -> utf8b L r = true ->
  widthb L r = true.
Proof.
  unfold complete_in. intros Hc Hv Hu. apply andb_prop in Hc as [Hc Hn].
  apply (valid_width_partial all L r Hc Hv Hu). unfold unbounded_fitb.
  destruct (unbounded_in all L); [reflexivity|discriminate].
Qed.

(* ------------------------------------------------------------------ *)
(* a field pinned to one literal                                        *)

Lemma pins_sound R f v r : pins R f v = true -> rec_validb R r = true -> gets r f = v.
Proof.
  unfold pins. intros H Hv. apply existsb_exists in H as (a & Ha & Hb).
  pose proof (valid_atoms R r Hv a Ha) as Hr.
  destruct a; cbn [exact_atom] in Hb; try discriminate.
  destruct set as [|m [|m' set]]; try discriminate.
  apply andb_prop in Hb as [Ht Hm]. apply is_tfield_spec in Ht. subst t. apply bytes_eqb_eq in Hm. subst m.
  unfold rejects in Hr; cbn [eval evals mem_bytes existsb] in Hr.
  destruct (bytes_eqb (gets r f) v) eqn:E; cbn in Hr; [|discriminate]. now apply bytes_eqb_eq in E.
Qed.

(* ------------------------------------------------------------------ *)
(* batch level: a rule guarded by the presence of a sub-record          *)

Lemma guarded_bound_sound R g f z r : guarded_bound R g f z = true -> rec_validb R r = true ->
  (0 < geti r g)%Z -> geti r f = z.
Proof.
  unfold guarded_bound. intros H Hv Hg. apply existsb_exists in H as ([l c] & Hin & Hc). cbn [snd] in Hc.
  pose proof (valid_rule R r l c Hv Hin) as Hr.
  destruct c; cbn [guarded_atom] in Hc; try discriminate.
  destruct c1; try discriminate. destruct c2; try discriminate.
  apply andb_prop in Hc as [Hc H6]. apply andb_prop in Hc as [Hc H5]. apply andb_prop in Hc as [Hc H4].
  apply andb_prop in Hc as [Hc H3]. apply andb_prop in Hc as [H1 H2].
  apply is_ifield_spec in H2. apply is_iconst_spec in H3. apply is_ne_spec in H4.
  apply is_ifield_spec in H5. apply is_iconst_spec in H6. subst.
  unfold rejects in Hr; cbn [eval evali and3] in Hr.
  assert (Hguard : cmpz c (geti r g) 0%Z = true).
  { destruct c; cbn in H1; try discriminate; cbn [cmpz].
    - apply negb_true_iff, Z.eqb_neq. lia.
    - apply Z.ltb_lt. exact Hg. }
  rewrite Hguard in Hr. cbn [cmpz] in Hr.
  destruct (geti r f =? z)%Z eqn:E; cbn in Hr; [|discriminate]. now apply Z.eqb_eq in E.
Qed.

(* the entries an entry loop inspects *)
Lemma entries_valid_in R X es e : entries_validb R X es = true -> In e (inspected X es) -> rec_validb R e = true.
Proof. unfold entries_validb. intros H Hin. rewrite forallb_forall in H. now apply H. Qed.

Lemma inspected_incl X es e : In e (inspected X es) -> In e es.
Proof.
  induction es as [|a es IH]; cbn [inspected]; [easy|]. destruct (may_exit X a).
  - intros [<-|[]]. now left.
  - intros [<-|H]; [now left|right; now apply IH].
Qed.

Lemma inspected_all X es : (forall e, In e es -> may_exit X e = false) -> inspected X es = es.
Proof.
  induction es as [|a es IH]; intros H; [reflexivity|]. cbn [inspected].
  rewrite (H a (or_introl eq_refl)). f_equal. apply IH. intros e He. apply H. now right.
Qed.

Lemma may_exit_false r : may_exit CFalse r = false.
Proof. reflexivity. Qed.

(* ------------------------------------------------------------------ *)
(* non-vacuity of the generic statements on a small hand-written table    *)

Definition Ex_rules : rules :=
  [ ("Ex#1", CStrIn (TField "CheckDigit") [[]])
  ; ("Ex#2", CRuneLen Cne (TField "CheckDigit") 1%Z)
  ; ("Ex#3", CIntNotIn (IField "TransactionCode") [22%Z; 27%Z])
  ; ("Ex#4", COr (CIntCmp Cne (IField "AddendaRecordIndicator") (IConst 0%Z)) (CUnknown "something else" ["X"])) ].

Example Ex_complete : complete_in [("ExEntryDetail", Ex_rules)] Ex_layout = true.
Proof. vm_compute. reflexivity. Qed.
Example Ex_valid : rec_validb Ex_rules Ex_record = true.
Proof. vm_compute. reflexivity. Qed.
Example Ex_utf8 : utf8b Ex_layout Ex_record = true.
Proof. vm_compute. reflexivity. Qed.
Example Ex_valid_width : widthb Ex_layout Ex_record = true.
Proof. exact (valid_width _ Ex_layout Ex_record Ex_complete Ex_valid Ex_utf8). Qed.
(* without the length rule the CheckDigit column is reported, and a two-character value is accepted *)
Example Ex_unbounded :
  unbounded_names [("ExEntryDetail", [("Ex#3", CIntNotIn (IField "TransactionCode") [22%Z; 27%Z])])] Ex_layout
  = ["CheckDigit"; "AddendaRecordIndicator"].
Proof. vm_compute. reflexivity. Qed.

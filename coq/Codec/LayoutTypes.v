(* Types of the record-layout tables regenerated from the Go source (Gen/Layouts.v). *)
From Coq Require Import String List NArith ZArith.
Import ListNotations.
From ACH Require Import Bytes.

Inductive seg :=
| SLit (bs : bytes)                    (* constant text *)
| SAlpha (f : string) (w : nat)        (* x.alphaField(x.F, w): left justified, blank filled, rune-truncated *)
| SNum (f : string) (w : nat)          (* x.numericField(x.F, w): right justified, zero filled, left-truncated *)
| SStr (f : string) (w : nat)          (* x.stringField(x.F, w): zero filled on the left, rune-truncated *)
| SRaw (f : string)                    (* the field written as is *)
| SItoa (f : string)                   (* strconv.Itoa(x.F) *)
| SCustom (name : string) (hash : string)  (* hand-modelled accessor, matched by name and source hash *)
| SUnknown (src : string).

Record cut := mkcutrec {
  c_lo : nat; c_hi : nat;               (* columns [lo, hi), zero based, in runes or bytes *)
  c_field : string;                     (* "" = discarded *)
  c_conv : list string;                 (* conversion functions, outermost first *)
  c_const : option bytes }.             (* Some bs: the parser assigns the constant bs *)
Definition mkcut (lo hi : nat) (f : string) (conv : list string) : cut := mkcutrec lo hi f conv None.
Definition mkconst (f : string) (bs : bytes) : cut := mkcutrec 0 0 f [] (Some bs).

Inductive indexing := IRune | IByte.

Record layout := mklayout { l_name : string; l_ix : indexing; l_segs : list seg; l_cuts : list cut }.

(* record values: an association list from Go field names to values *)
Inductive value := VS (s : bytes) | VI (z : Z).
Definition recval := list (string * value).

Fixpoint lookup (r : recval) (f : string) : option value :=
  match r with
  | [] => None
  | (g, v) :: r' => if String.eqb f g then Some v else lookup r' f
  end.
Definition gets (r : recval) (f : string) : bytes := match lookup r f with Some (VS s) => s | _ => [] end.
Definition geti (r : recval) (f : string) : Z := match lookup r f with Some (VI z) => z | _ => 0%Z end.

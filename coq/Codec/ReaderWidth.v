(* C02, the reader domain: what the default reader returns is written as well-formed NACHA.

   Codec/ReaderValid.v models ach.NewReader(text).Read() with default validation
   ([read_text_valid]); Codec/RecValid.v + Oblig/C02ValidObl.v prove `valid => width` for the
   columns some rule bounds and leave the others as the hypothesis [unbounded_fitb].  This file
   holds the definitions that discharge that hypothesis for records that come out of Parse:

     fills R L x      the boolean reason why column x of layout L has its nominal width on every
                      record that Parse produced from a 94-character line and that passes the
                      rules R: the field is a constant of Parse, or Parse slices exactly the
                      column's width (`string(runes[lo:hi])`, no conversion), or slices it and
                      trims (one column, and a rule rejects the empty string), or reads one
                      column with parseNumField (a single digit at most), or it is one of the
                      two creation date / time accessors of the file header
     parse_fills      ... for every column of L that no rule bounds, plus the two facts about
                      Parse the argument uses (character indexing, well-formed constants)
     stamp clk f      the file header with an empty FileCreationTime (Parse keeps "" when the
                      four columns are no valid time, and no rule rejects it) written by
                      FileCreationTimeField(), which then formats time.Now(): [clk] is that
                      string.  Codec/Layout.v's hand model of the accessor covers non-empty
                      values only, so the clock is made explicit here instead of changing it.

   Definitions only. *)
From Coq Require Import String List NArith ZArith Bool.
From ACH Require Export ReaderValid WrittenCounts.
Import ListNotations.
Local Open Scope string_scope.
Local Open Scope nat_scope.

(* ------------------------------------------------------------------ *)
(* the fields a rule reads                                              *)

Fixpoint sreads (t : sterm) : list string :=
  match t with TField f => [f] | TRender s => seg_reads s | TUpper t' => sreads t' end.
Definition ireads (t : iterm) : list string :=
  match t with IField f => [f] | IConst _ => [] | IAtoi t' | ICheckDigit t' => sreads t' end.
Fixpoint creads (c : cond) : list string :=
  match c with
  | CTrue | CFalse | CUnknown _ _ => []
  | CStrIn t _ | CStrNotIn t _ | CByteLen _ t _ | CRuneLen _ t _ | CRunesOutside t _ | CAtoiErr t => sreads t
  | CIntIn t _ | CIntNotIn t _ => ireads t
  | CIntCmp _ a b => ireads a ++ ireads b
  | CAnd a b | COr a b => creads a ++ creads b
  | CNot a => creads a
  end.
(* no recognised rule of R reads the field g *)
Definition rules_skip (R : rules) (g : string) : bool :=
  forallb (fun lc => negb (mem_str g (creads (snd lc)))) R.

(* ------------------------------------------------------------------ *)
(* the clock                                                            *)

Definition TIME : string := "FileCreationTime".

Definition stamp_val (clk : bytes) (r : recval) : recval :=
  if is_nil (gets r TIME) then (TIME, VS clk) :: r else r.
Definition stamp_for (clk : bytes) (k : string) (r : recval) : recval :=
  if String.eqb k "FileHeader" then stamp_val clk r else r.
Definition stamp_rec (clk : bytes) (x : recordR) : recordR := mkRec (r_kind x) (stamp_for clk (r_kind x) (r_val x)).
(* every record of kind FileHeader (there is one, the file's) with an empty creation time gets the clock *)
Definition stamp (clk : bytes) (f : fileR) : fileR := map_file (stamp_rec clk) f.

(* the record does not need the clock *)
Definition has_time (x : recordR) : bool := negb (String.eqb (r_kind x) "FileHeader" && is_nil (gets (r_val x) TIME)).

(* ------------------------------------------------------------------ *)
(* why a parsed column has its width                                    *)

(* the atom, when it does not reject, forces the string field f to be non-empty *)
Definition nonempty_atom (f : string) (a : cond) : bool :=
  match a with
  | CAtoiErr t => is_tfield t f
  | CStrIn t set => is_tfield t f && mem_bytes [] set
  | _ => false
  end.
Definition nonempty_rule (R : rules) (f : string) : bool := existsb (nonempty_atom f) (atoms R).

(* a real cut over exactly w columns inside the record *)
Definition cut_cols (c : cut) (w : nat) : bool :=
  is_real c && negb (String.eqb (c_field c) "") && (c_lo c + w =? c_hi c) && (c_hi c <=? 94).
Definition is_chain1 (fn : string) (cv : list string) : bool :=
  match cv with [g] => String.eqb g fn | _ => false end.

Definition fills (R : rules) (L : layout) (x : colseg) : bool :=
  match cs_seg x with
  | SRaw f =>
      match find_key (l_cuts L) f with
      | Some c =>
          negb (String.eqb f TIME) &&
          match c_const c with
          | Some bs => wf_utf8 bs && (rune_count bs =? cs_w x)
          | None => cut_cols c (cs_w x)
                    && (is_nil (c_conv c) || (is_trim_chain (c_conv c) && (cs_w x =? 1) && nonempty_rule R f))
          end
      | None => false
      end
  | SItoa f =>
      match find_key (l_cuts L) f with
      | Some c => negb (String.eqb f TIME) && cut_cols c 1 && is_num_chain (c_conv c) && (cs_w x =? 1)
      | None => false
      end
  | SCustom n _ =>
      if String.eqb n "FileHeader.FileCreationDateField" then
        match find_key (l_cuts L) "FileCreationDate" with
        | Some c => cut_cols c 6 && is_chain1 "validateSimpleDate" (c_conv c) && (cs_w x =? 6)
                    && nonempty_rule R "FileCreationDate"
        | None => false
        end
      else if String.eqb n "FileHeader.FileCreationTimeField" then
        match find_key (l_cuts L) TIME with
        | Some c => cut_cols c 4 && is_chain1 "validateSimpleTime" (c_conv c) && (cs_w x =? 4)
                    && String.eqb (l_name L) "FileHeader"
        | None => false
        end
      else false
  | _ => false
  end.

Definition consts_wfb (L : layout) : bool :=
  forallb (fun c => match c_const c with Some bs => wf_utf8 bs | None => true end) (l_cuts L).

(* stamping the clock changes FileCreationTime of a file header only: no rule reads it *)
Definition clock_free (all : list (string * rules)) (L : layout) : bool :=
  negb (String.eqb (l_name L) "FileHeader") || rules_skip (rules_in all L) TIME.

Definition parse_fills (all : list (string * rules)) (L : layout) : bool :=
  consts_wfb L && clock_free all L && forallb (fills (rules_in all L) L) (unbounded_in all L).

(* ------------------------------------------------------------------ *)
(* the kinds the reader's addenda switches can yield                     *)

Definition arm_kinds (a : arm) : list string :=
  match a with AKind k => [k] | ACode alts d => d :: map snd alts end.
Definition arms_kinds (arms : list (bytes * arm)) : list string := flat_map (fun p => arm_kinds (snd p)) arms.

Section WithLayouts.
Variable T : list layout.

(* the record types the reader constructs, by the place they take in the tree, start with the
   record-type character of that place (read from the regenerated layouts) *)
Definition kind_is (t : N) (k : string) : bool := rec_is T t (mkRec k []).

Definition reader_kinds_ok : bool :=
  kind_is T1 "FileHeader" && kind_is T5 "BatchHeader" && kind_is T5 "IATBatchHeader"
  && kind_is T6 "EntryDetail" && kind_is T6 "ADVEntryDetail" && kind_is T6 "IATEntryDetail"
  && forallb (kind_is T7) (arms_kinds std_arms) && kind_is T7 adv_addenda && forallb (kind_is T7) (arms_kinds iat_arms)
  && kind_is T8 "BatchControl" && kind_is T8 "ADVBatchControl"
  && kind_is T9 "FileControl" && kind_is T9 "ADVFileControl"
  && mem_str "BatchControl" batch_ctl_kinds && mem_str "ADVBatchControl" batch_ctl_kinds
  && mem_str "FileControl" file_ctl_kinds && mem_str "ADVFileControl" file_ctl_kinds.

(* every record of the tree renders to 94 characters of valid UTF-8 *)
Definition rec_lineb (x : recordR) : bool :=
  (rune_count (render_rec T x) =? 94) && wf_utf8 (render_rec T x).

End WithLayouts.

(* no literal of the layout holds a CR or LF *)
Definition lits_no_nl (L : layout) : bool :=
  forallb (fun s => match s with SLit bs => no_nl bs | _ => true end) (l_segs L)
  && forallb (fun c => match c_const c with Some bs => no_nl bs | None => true end) (l_cuts L).

(* Structural model of Writer.Write (record order, final-block padding) and of
   the reader's record dispatch (reader.go parseLine) at the level of whole
   record lines.  Definitions only. *)
From ACH Require Export Bytes.
From Coq Require Import NArith.
Open Scope N_scope.

Record entryS := mkEntry { e_rec : bytes; e_addenda : list bytes }.
Record batchS := mkBatch { b_hdr : bytes; b_entries : list entryS; b_ctl : bytes }.
Record fileS := mkFile { f_hdr : bytes; f_batches : list batchS; f_ctl : bytes }.

Definition entry_lines (e : entryS) : list bytes := e_rec e :: e_addenda e.
Definition batch_lines (b : batchS) : list bytes := b_hdr b :: flat_map entry_lines (b_entries b) ++ [b_ctl b].
Definition record_lines (f : fileS) : list bytes := f_hdr f :: flat_map batch_lines (f_batches f) ++ [f_ctl f].

Definition nines : bytes := repeat nine 94.

(* `for i := 0; i < (10-(lineNum%10)) && lineNum%10 != 0; i++` *)
Definition pad_count (n : nat) : nat := if (n mod 10 =? 0)%nat then 0%nat else (10 - n mod 10)%nat.

Definition physical_lines (f : fileS) : list bytes :=
  record_lines f ++ repeat nines (pad_count (length (record_lines f))).

Definition write (le : bytes) (f : fileS) : bytes := concat (map (fun l => l ++ le) (physical_lines f)).

(* record type = first byte *)
Definition rtype (l : bytes) : N := hd 0 l.
Definition T1 : N := 49.
Definition T5 : N := 53.
Definition T6 : N := 54.
Definition T7 : N := 55.
Definition T8 : N := 56.
Definition T9 : N := 57.

Definition entry_typed (e : entryS) : bool := (rtype (e_rec e) =? T6) && forallb (fun a => rtype a =? T7) (e_addenda e).
Definition batch_typed (b : batchS) : bool :=
  (rtype (b_hdr b) =? T5) && forallb entry_typed (b_entries b) && (rtype (b_ctl b) =? T8).
Definition file_typed (f : fileS) : bool :=
  (rtype (f_hdr f) =? T1) && forallb batch_typed (f_batches f) && (rtype (f_ctl f) =? T9).

(* the regular grammar: 1, then batches [5, entries [6, any number of 7], 8], then 9, then only 9-filler lines; as an automaton over whole lines *)
Inductive gstate := GStart | GFile | GBatch | GEntry | GDone | GBad.
Definition is_filler (l : bytes) : bool := bytes_eqb l nines.
Definition gstep (s : gstate) (l : bytes) : gstate :=
  let t := rtype l in
  match s with
  | GStart => if t =? T1 then GFile else GBad
  | GFile => if t =? T5 then GBatch else if t =? T9 then GDone else GBad
  | GBatch => if t =? T6 then GEntry else if t =? T8 then GFile else GBad
  | GEntry => if t =? T6 then GEntry else if t =? T7 then GEntry else if t =? T8 then GFile else GBad
  | GDone => if is_filler l then GDone else GBad
  | GBad => GBad
  end.
Definition grammar_ok (ls : list bytes) : bool :=
  match fold_left gstep ls GStart with GDone => true | _ => false end.

(* the reader's dispatch: lines starting "99" are final-block padding and skipped *)
Definition starts99 (l : bytes) : bool := match l with a :: b :: _ => (a =? nine) && (b =? nine) | _ => false end.

Record rstate := mkR {
  r_hdr : option bytes; r_done : list batchS;                      (* completed batches, reversed *)
  r_cur : option (bytes * list entryS);                            (* open batch: header, entries reversed *)
  r_ctl : option bytes }.

Definition add_addenda (es : list entryS) (a : bytes) : option (list entryS) :=
  match es with
  | e :: rest => Some (mkEntry (e_rec e) (e_addenda e ++ [a]) :: rest)
  | [] => None
  end.

Definition rstep (st : option rstate) (l : bytes) : option rstate :=
  match st with
  | None => None
  | Some s =>
    let t := rtype l in
    if t =? T1 then match r_hdr s with None => Some (mkR (Some l) (r_done s) (r_cur s) (r_ctl s)) | Some _ => None end
    else if t =? T5 then match r_cur s with None => Some (mkR (r_hdr s) (r_done s) (Some (l, [])) (r_ctl s)) | Some _ => None end
    else if t =? T6 then match r_cur s with Some (h, es) => Some (mkR (r_hdr s) (r_done s) (Some (h, mkEntry l [] :: es)) (r_ctl s)) | None => None end
    else if t =? T7 then match r_cur s with
                         | Some (h, es) => match add_addenda es l with
                                           | Some es' => Some (mkR (r_hdr s) (r_done s) (Some (h, es')) (r_ctl s))
                                           | None => None end
                         | None => None end
    else if t =? T8 then match r_cur s with
                         | Some (h, es) => Some (mkR (r_hdr s) (mkBatch h (rev es) l :: r_done s) None (r_ctl s))
                         | None => None end
    else if t =? T9 then
      if starts99 l then Some s
      else match r_ctl s with None => Some (mkR (r_hdr s) (r_done s) (r_cur s) (Some l)) | Some _ => None end
    else None
  end.

Definition read_struct (ls : list bytes) : option fileS :=
  match fold_left rstep ls (Some (mkR None [] None None)) with
  | Some (mkR (Some h) done None (Some c)) => Some (mkFile h (rev done) c)
  | _ => None
  end.

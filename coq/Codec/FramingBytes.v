(* Byte-level corollaries of the framing theorems (need the UTF-8 append lemmas). *)
From ACH Require Import Utf8 Utf8Facts Utf8Enc Framing FramingFacts.
From Coq Require Import Lia.
Open Scope N_scope.

Lemma chars_app_wf a b : wf_utf8 a = true -> chars (a ++ b) = chars a ++ chars b.
Proof. intros H. unfold chars. now rewrite chunks_app_wf, map_app. Qed.

Lemma chars_app_ascii_r s x : asciib x = true -> chars (s ++ x) = chars s ++ chars x.
Proof. intros H. unfold chars. now rewrite chunks_app_ascii_r, map_app. Qed.

Lemma chars_length s : length (chars s) = rune_count s.
Proof. unfold chars, rune_count. apply map_length. Qed.

(* trailing blanks trimmed, any characters: padding to 94 characters restores the record *)
Theorem norm_line_trimmed_utf8 p k : rune_count (p ++ repeat sp k) = 94%nat -> (0 < k)%nat ->
  norm_line p = NLine (p ++ repeat sp k).
Proof.
  intros H Hk. assert (A : asciib (repeat sp k) = true).
  { unfold asciib. apply forallb_forall. intros x Hx. apply repeat_spec in Hx. now subst. }
  unfold rune_count in H. rewrite chunks_app_ascii_r in H by assumption. rewrite app_length in H.
  fold (rune_count p) in H. fold (rune_count (repeat sp k)) in H.
  rewrite (rune_count_ascii _ A), repeat_length in H.
  unfold norm_line. cbv zeta.
  destruct (Nat.eqb_spec (rune_count p) 94) as [E|E]; [lia|].
  destruct (Nat.ltb_spec 94 (rune_count p)) as [E2|E2]; [lia|].
  replace (94 - rune_count p)%nat with k by lia. reflexivity.
Qed.

(* a well-formed record without CR/LF bytes: its characters are not line breaks *)
Definition no_nl_bytes (s : bytes) : bool := forallb (fun b => negb (b =? 10) && negb (b =? 13)) s.

Lemma chars_wf_concat s : wf_utf8 s = true -> concat (chars s) = s.
Proof.
  intros H. unfold chars. rewrite (chunks_wf s H). rewrite map_map. cbn [fst snd].
  apply wf_spec in H. rewrite <- H at 2. unfold encode. rewrite flat_map_concat_map.
  f_equal. apply map_ext_in. intros r Hr.
  assert (V : validb r = true).
  { pose proof (runes_valid s) as A. rewrite forallb_forall in A. now apply A. }
  destruct (r =? rune_error) eqn:E; [|reflexivity].
  apply N.eqb_eq in E. subst. symmetry. apply encode_rune_error.
Qed.

Lemma not_nl_of_bytes c : concat [c] = c -> (forall b, In b c -> b <> 10 /\ b <> 13) -> c <> [] -> not_nl c.
Proof.
  intros _ H Hne. unfold not_nl, is_nl, LF, CR. destruct c as [|b c']; [contradiction|].
  destruct (H b (or_introl eq_refl)) as [H10 H13].
  cbn [bytes_eqb]. destruct (N.eqb_spec b 10); [contradiction|]. destruct (N.eqb_spec b 13); [contradiction|]. reflexivity.
Qed.

(* Field-level re-render stability conditions for the hand-modelled custom
   accessors ([SCustom] segments).  [seg_stableb L r (SCustom n h)] is a
   whole-record check (render, parse, overlay, render again); the lemmas below
   replace it by explicit conditions on the fields the accessor reads.
   Generic over the layout: the facts about the tables are hypotheses on
   closed terms, discharged by computation in Oblig/C01Customs.v. *)
From Coq Require Import String List Lia NArith ZArith Bool.
From ACH Require Import LayoutOk FieldsFacts LayoutFacts.
Import ListNotations.
Local Open Scope string_scope.

(* ------------------------------------------------------------------ *)
(* A. the value of a field after  String -> Parse -> overlay            *)

Definition reparsed (L : layout) (r : recval) (g : string) : option value :=
  match (match find_key (l_cuts L) g with
         | None => None
         | Some c => match c_const c with
                     | Some bs => Some (VS bs)
                     | None => match aligned_seg L c with
                               | Some s => conv_value (c_conv c) (render_seg r s)
                               | None => None
                               end
                     end
         end)
  with Some v => Some v | None => lookup r g end.

Lemma lookup_reparsed L r g : layout_ok L = true -> fitsb L r = true ->
  lookup (overlay (parse L (render L r)) r) g = reparsed L r g.
Proof.
  intros Hok Hfit. pose proof (fitsb_widthb L r Hfit) as Hw.
  rewrite (lookup_overlay L r g Hok Hw).
  pose proof (parse_render_fields L r g Hok Hfit) as Hp.
  destruct (layout_ok_facts L Hok) as [cs F].
  unfold parse in Hp. rewrite (render_width_w L r Hok Hw), Nat.eqb_refl in Hp.
  destruct (lookup_parse (units (l_ix L) (render L r)) (l_cuts L) g (ok_cut_keys _ _ F)) as [H1 _].
  rewrite H1 in Hp. unfold reparsed. rewrite Hp. reflexivity.
Qed.

(* a field assigned from its own columns *)
Lemma reparsed_real L r g c s :
  find_key (l_cuts L) g = Some c -> c_const c = None -> aligned_seg L c = Some s ->
  reparsed L r g = match conv_value (c_conv c) (render_seg r s) with Some v => Some v | None => lookup r g end.
Proof. intros H1 H2 H3. unfold reparsed. rewrite H1, H2, H3. reflexivity. Qed.

Lemma gets_of_lookup r g t : lookup r g = Some (VS t) -> gets r g = t.
Proof. unfold gets. now intros ->. Qed.
Lemma geti_of_lookup r g z : lookup r g = Some (VI z) -> geti r g = z.
Proof. unfold geti. now intros ->. Qed.

(* ------------------------------------------------------------------ *)
(* B. a custom accessor depends on the fields of [custom_reads] only     *)

Ltac reads_in H n f K :=
  assert (K : In f (custom_reads n)) by (vm_compute; tauto);
  apply H in K.

Lemma render_custom_reads n r1 r2 :
  (forall g, In g (custom_reads n) -> lookup r1 g = lookup r2 g) -> render_custom n r1 = render_custom n r2.
Proof.
  intros H. unfold render_custom.
  destruct (String.eqb n "Addenda99.DateOfDeathField") eqn:E1.
  { apply String.eqb_eq in E1. subst n.
    reads_in H "Addenda99.DateOfDeathField" "DateOfDeath" K.
    now rewrite (gets_lookup r1 r2 _ K). }
  destruct (String.eqb n "BatchHeader.EffectiveEntryDateField") eqn:E2.
  { apply String.eqb_eq in E2. subst n.
    pose proof H as H'. pose proof H as H''.
    reads_in H "BatchHeader.EffectiveEntryDateField" "EffectiveEntryDate" K.
    reads_in H' "BatchHeader.EffectiveEntryDateField" "CompanyEntryDescription" K0.
    reads_in H'' "BatchHeader.EffectiveEntryDateField" "StandardEntryClassCode" K1.
    now rewrite (gets_lookup r1 r2 _ K), (gets_lookup r1 r2 _ K0), (gets_lookup r1 r2 _ K1). }
  destruct (String.eqb n "FileHeader.ImmediateDestinationField") eqn:E3.
  { apply String.eqb_eq in E3. subst n.
    reads_in H "FileHeader.ImmediateDestinationField" "ImmediateDestination" K.
    now rewrite (gets_lookup r1 r2 _ K). }
  destruct (String.eqb n "FileHeader.ImmediateOriginField") eqn:E4.
  { apply String.eqb_eq in E4. subst n.
    reads_in H "FileHeader.ImmediateOriginField" "ImmediateOrigin" K.
    now rewrite (gets_lookup r1 r2 _ K). }
  destruct (String.eqb n "FileHeader.FileCreationDateField") eqn:E5.
  { apply String.eqb_eq in E5. subst n.
    reads_in H "FileHeader.FileCreationDateField" "FileCreationDate" K.
    now rewrite (gets_lookup r1 r2 _ K). }
  destruct (String.eqb n "FileHeader.FileCreationTimeField") eqn:E6.
  { apply String.eqb_eq in E6. subst n.
    reads_in H "FileHeader.FileCreationTimeField" "FileCreationTime" K.
    now rewrite (gets_lookup r1 r2 _ K). }
  destruct (String.eqb n "IATBatchHeader.ForeignExchangeReferenceField") eqn:E7.
  { apply String.eqb_eq in E7. subst n.
    pose proof H as H'.
    reads_in H "IATBatchHeader.ForeignExchangeReferenceField" "ForeignExchangeReference" K.
    reads_in H' "IATBatchHeader.ForeignExchangeReferenceField" "ForeignExchangeReferenceIndicator" K0.
    now rewrite (gets_lookup r1 r2 _ K), (geti_lookup r1 r2 _ K0). }
  destruct (String.eqb n "Addenda98.CorrectedDataField") eqn:E8.
  { apply String.eqb_eq in E8. subst n.
    pose proof H as H'.
    reads_in H "Addenda98.CorrectedDataField" "CorrectedData" K.
    reads_in H' "Addenda98.CorrectedDataField" "iatCorrectedData" K0.
    now rewrite (gets_lookup r1 r2 _ K), (gets_lookup r1 r2 _ K0). }
  reflexivity.
Qed.

(* ------------------------------------------------------------------ *)
(* C. the whole-record check, reduced to the re-parsed fields            *)

Lemma custom_stable_intro L r n h : layout_ok L = true -> fitsb L r = true ->
  (forall r2, (forall g, In g (custom_reads n) -> lookup r2 g = reparsed L r g) ->
              render_custom n r2 = render_custom n r) ->
  seg_stableb L r (SCustom n h) = true.
Proof.
  intros Hok Hfit H. unfold seg_stableb, render_seg. apply bytes_eqb_eq.
  rewrite (H (overlay (parse L (render L r)) r)); [reflexivity|].
  intros g _. now apply lookup_reparsed.
Qed.

(* ------------------------------------------------------------------ *)
(* D. the accessors, one by one                                          *)

(* closed equations: the conversions in use *)
Lemma conv_date t : conv_value ["validateSimpleDate"] t = Some (VS (if valid_date t then t else [])).
Proof. reflexivity. Qed.
Lemma conv_time t : conv_value ["validateSimpleTime"] t = Some (VS (if valid_time t then t else [])).
Proof. reflexivity. Qed.
Lemma conv_routing t :
  conv_value ["trimRoutingNumberLeadingZero"; "parseStringField"] t = Some (VS (trimRoutingNumberLeadingZero (trim t))).
Proof. reflexivity. Qed.
Lemma conv_none t : conv_value [] t = Some (VS t).
Proof. reflexivity. Qed.

(* closed equations: the accessors *)
Definition or_blank (w : nat) (d : bytes) : bytes := match d with [] => spaces w | b :: t => b :: t end.
Definition routing_text (v : bytes) : bytes :=
  match v with [] => spaces 10 | b :: t => sp :: stringField (trim (b :: t)) 9 end.

Lemma rc_dod r : render_custom "Addenda99.DateOfDeathField" r = Some (or_blank 6 (gets r "DateOfDeath")).
Proof. reflexivity. Qed.
Lemma rc_fcd r : render_custom "FileHeader.FileCreationDateField" r =
  if Nat.eqb (rune_count (gets r "FileCreationDate")) 6 then Some (gets r "FileCreationDate") else None.
Proof. reflexivity. Qed.
Lemma rc_fct r : render_custom "FileHeader.FileCreationTimeField" r =
  if Nat.eqb (rune_count (gets r "FileCreationTime")) 4 then Some (gets r "FileCreationTime") else None.
Proof. reflexivity. Qed.
Lemma rc_idest r : render_custom "FileHeader.ImmediateDestinationField" r =
  Some (routing_text (gets r "ImmediateDestination")).
Proof. reflexivity. Qed.
Lemma rc_iorig r : render_custom "FileHeader.ImmediateOriginField" r =
  Some (routing_text (gets r "ImmediateOrigin")).
Proof. reflexivity. Qed.
Lemma rc_fxref r : render_custom "IATBatchHeader.ForeignExchangeReferenceField" r =
  Some (if (geti r "ForeignExchangeReferenceIndicator" =? 3)%Z then spaces 15
        else alphaField (gets r "ForeignExchangeReference") 15).
Proof. reflexivity. Qed.
Lemma rc_eed r : render_custom "BatchHeader.EffectiveEntryDateField" r =
  Some (if bytes_eqb (gets r "CompanyEntryDescription") AUTOENROLL && bytes_eqb (gets r "StandardEntryClassCode") ENR
        then spaces 6 else stringField (gets r "EffectiveEntryDate") 6).
Proof. reflexivity. Qed.

(* ---- dates and times ---- *)

Lemma valid_date_nil : valid_date [] = false.
Proof. reflexivity. Qed.
Lemma valid_date_blank : valid_date (spaces 6) = false.
Proof. vm_compute. reflexivity. Qed.

Lemma valid_date_count d : valid_date d = true -> rune_count d = 6%nat.
Proof.
  unfold valid_date.
  destruct d as [|y1 [|y2 [|m1 [|m2 [|d1 [|d2 [|x d]]]]]]]; intros H; try discriminate H.
  apply andb_prop in H as [H _]. apply andb_prop in H as [Hy Hr].
  rewrite rune_count_ascii; [reflexivity|]. unfold asciib. cbn [forallb].
  apply digitsb_ascii in Hr. cbn [forallb] in Hr. rewrite Hr, andb_true_r.
  apply N.ltb_lt. apply orb_prop in Hy as [Hy|Hy]; [apply orb_prop in Hy as [Hy|Hy]|].
  - unfold is_digit in Hy. apply andb_prop in Hy as [_ Hy]. apply N.leb_le in Hy. lia.
  - apply N.eqb_eq in Hy. lia.
  - apply N.eqb_eq in Hy. lia.
Qed.

Lemma valid_time_count d : valid_time d = true -> rune_count d = 4%nat.
Proof.
  unfold valid_time.
  destruct d as [|h1 [|h2 [|m1 [|m2 [|x d]]]]]; intros H; try discriminate H.
  apply andb_prop in H as [H H6]. apply andb_prop in H as [H H5]. apply andb_prop in H as [H H4].
  apply andb_prop in H as [H H3]. apply andb_prop in H as [H1 H2].
  unfold is_digit in H3, H6. apply andb_prop in H3 as [_ H3]. apply andb_prop in H6 as [_ H6].
  apply N.leb_le in H2, H3, H5, H6.
  assert (A1 : (h1 <? 128)%N = true) by (apply N.ltb_lt; lia).
  assert (A2 : (h2 <? 128)%N = true) by (apply N.ltb_lt; lia).
  assert (A3 : (m1 <? 128)%N = true) by (apply N.ltb_lt; lia).
  assert (A4 : (m2 <? 128)%N = true) by (apply N.ltb_lt; lia).
  rewrite rune_count_ascii; [reflexivity|]. unfold asciib. cbn [forallb].
  rewrite A1, A2, A3, A4. reflexivity.
Qed.

(* 1. Addenda99.DateOfDeathField *)
Lemma dod_fix d : (is_nil d || bytes_eqb d (spaces 6) || valid_date d) = true ->
  or_blank 6 (if valid_date (or_blank 6 d) then or_blank 6 d else []) = or_blank 6 d.
Proof.
  intros H.
  assert (Ht : or_blank 6 d = spaces 6 \/ valid_date (or_blank 6 d) = true).
  { destruct d as [|b d']; [left; reflexivity|]. cbn [is_nil orb] in H.
    apply orb_prop in H as [H|H]; [left|right]; [|exact H].
    apply bytes_eqb_eq in H. exact H. }
  destruct Ht as [Ht|Ht].
  - rewrite Ht, valid_date_blank. reflexivity.
  - rewrite Ht. destruct (or_blank 6 d) as [|b t]; [|reflexivity].
    rewrite valid_date_nil in Ht. discriminate Ht.
Qed.

Lemma dod_stable L r h c : layout_ok L = true -> fitsb L r = true ->
  find_key (l_cuts L) "DateOfDeath" = Some c -> c_const c = None -> c_conv c = ["validateSimpleDate"] ->
  aligned_seg L c = Some (SCustom "Addenda99.DateOfDeathField" h) ->
  (is_nil (gets r "DateOfDeath") || bytes_eqb (gets r "DateOfDeath") (spaces 6) || valid_date (gets r "DateOfDeath")) = true ->
  seg_stableb L r (SCustom "Addenda99.DateOfDeathField" h) = true.
Proof.
  intros Hok Hfit Hk Hconst Hconv Hal Hc.
  apply custom_stable_intro; [exact Hok|exact Hfit|]. intros r2 H2.
  reads_in H2 "Addenda99.DateOfDeathField" "DateOfDeath" K.
  rewrite (reparsed_real L r _ c _ Hk Hconst Hal), Hconv in K.
  unfold render_seg in K. rewrite rc_dod, conv_date in K. apply gets_of_lookup in K.
  rewrite !rc_dod, K. f_equal. apply dod_fix. exact Hc.
Qed.

(* 2. FileHeader.FileCreationDateField *)
Lemma fcd_stable L r h c : layout_ok L = true -> fitsb L r = true ->
  find_key (l_cuts L) "FileCreationDate" = Some c -> c_const c = None -> c_conv c = ["validateSimpleDate"] ->
  aligned_seg L c = Some (SCustom "FileHeader.FileCreationDateField" h) ->
  valid_date (gets r "FileCreationDate") = true ->
  seg_stableb L r (SCustom "FileHeader.FileCreationDateField" h) = true.
Proof.
  intros Hok Hfit Hk Hconst Hconv Hal Hc.
  apply custom_stable_intro; [exact Hok|exact Hfit|]. intros r2 H2.
  reads_in H2 "FileHeader.FileCreationDateField" "FileCreationDate" K.
  rewrite (reparsed_real L r _ c _ Hk Hconst Hal), Hconv in K.
  unfold render_seg in K. rewrite rc_fcd, (valid_date_count _ Hc), Nat.eqb_refl, conv_date, Hc in K.
  apply gets_of_lookup in K.
  rewrite !rc_fcd, K. reflexivity.
Qed.

(* 3. FileHeader.FileCreationTimeField *)
Lemma fct_stable L r h c : layout_ok L = true -> fitsb L r = true ->
  find_key (l_cuts L) "FileCreationTime" = Some c -> c_const c = None -> c_conv c = ["validateSimpleTime"] ->
  aligned_seg L c = Some (SCustom "FileHeader.FileCreationTimeField" h) ->
  valid_time (gets r "FileCreationTime") = true ->
  seg_stableb L r (SCustom "FileHeader.FileCreationTimeField" h) = true.
Proof.
  intros Hok Hfit Hk Hconst Hconv Hal Hc.
  apply custom_stable_intro; [exact Hok|exact Hfit|]. intros r2 H2.
  reads_in H2 "FileHeader.FileCreationTimeField" "FileCreationTime" K.
  rewrite (reparsed_real L r _ c _ Hk Hconst Hal), Hconv in K.
  unfold render_seg in K. rewrite rc_fct, (valid_time_count _ Hc), Nat.eqb_refl, conv_time, Hc in K.
  apply gets_of_lookup in K.
  rewrite !rc_fct, K. reflexivity.
Qed.

(* ---- 4./5. the routing numbers of the file header ---- *)

Lemma dropsp_sp rs : dropsp (32%N :: rs) = dropsp rs.
Proof. reflexivity. Qed.

Lemma trim_sp_cons u : wf_utf8 u = true -> trim (32%N :: u) = trim u.
Proof.
  intros H. destruct (wf_view u H) as (rs & Hv & -> & _).
  assert (Hv' : valid (32%N :: rs) = true).
  { unfold valid in *. cbn [forallb]. rewrite Hv. reflexivity. }
  change (32%N :: encode rs) with (encode (32%N :: rs)).
  rewrite (trim_encode _ Hv'), (trim_encode _ Hv). unfold trim_runes. rewrite dropsp_sp. reflexivity.
Qed.

(* the leading zero is only dropped from texts of ten characters *)
Lemma trz_other u : rune_count u <> 10%nat -> trimRoutingNumberLeadingZero u = trim u.
Proof.
  intros H. unfold trimRoutingNumberLeadingZero.
  destruct u as [|b t]; [reflexivity|]. destruct b as [|p]; [reflexivity|].
  do 7 (try (destruct p as [p|p|]; try reflexivity)).
  apply Nat.eqb_neq in H. rewrite H. reflexivity.
Qed.

Lemma rune_count_nil : rune_count [] = 0%nat.
Proof. reflexivity. Qed.

Lemma routing_fix v : (is_nil v || (wf_utf8 v && ends_ok (stringField (trim v) 9))) = true ->
  routing_text (trimRoutingNumberLeadingZero (trim (routing_text v))) = routing_text v.
Proof.
  intros H. destruct v as [|b v']; [vm_compute; reflexivity|].
  cbn [is_nil orb] in H. apply andb_prop in H as [Hwf He].
  unfold routing_text at 2 3. remember (stringField (trim (b :: v')) 9) as u eqn:Eu.
  assert (Hwu : wf_utf8 u = true) by (rewrite Eu; apply wf_stringField, wf_trim; exact Hwf).
  assert (Hcu : rune_count u = 9%nat) by (rewrite Eu; apply rune_count_stringField_any).
  unfold sp. rewrite (trim_sp_cons u Hwu), (trim_id u Hwu He).
  rewrite trz_other by (rewrite Hcu; discriminate).
  rewrite (trim_id u Hwu He).
  destruct u as [|x u'] eqn:Eu'; [rewrite rune_count_nil in Hcu; discriminate Hcu|].
  unfold routing_text. rewrite <- Eu'. rewrite (trim_id u); [|rewrite Eu'; exact Hwu|rewrite Eu'; exact He].
  rewrite (stringField_exact u 9); [reflexivity|]. rewrite Eu'. exact Hcu.
Qed.

Lemma routing_stable L r n f h c : layout_ok L = true -> fitsb L r = true ->
  (forall r', render_custom n r' = Some (routing_text (gets r' f))) -> In f (custom_reads n) ->
  find_key (l_cuts L) f = Some c -> c_const c = None ->
  c_conv c = ["trimRoutingNumberLeadingZero"; "parseStringField"] ->
  aligned_seg L c = Some (SCustom n h) ->
  (is_nil (gets r f) || (wf_utf8 (gets r f) && ends_ok (stringField (trim (gets r f)) 9))) = true ->
  seg_stableb L r (SCustom n h) = true.
Proof.
  intros Hok Hfit Hrc Hin Hk Hconst Hconv Hal Hc.
  apply custom_stable_intro; [exact Hok|exact Hfit|]. intros r2 H2.
  pose proof (H2 f Hin) as K.
  rewrite (reparsed_real L r _ c _ Hk Hconst Hal), Hconv in K.
  unfold render_seg in K. rewrite Hrc, conv_routing in K. apply gets_of_lookup in K.
  rewrite !Hrc, K. f_equal. apply routing_fix. exact Hc.
Qed.

Lemma idest_stable L r h c : layout_ok L = true -> fitsb L r = true ->
  find_key (l_cuts L) "ImmediateDestination" = Some c -> c_const c = None ->
  c_conv c = ["trimRoutingNumberLeadingZero"; "parseStringField"] ->
  aligned_seg L c = Some (SCustom "FileHeader.ImmediateDestinationField" h) ->
  (is_nil (gets r "ImmediateDestination")
   || (wf_utf8 (gets r "ImmediateDestination") && ends_ok (stringField (trim (gets r "ImmediateDestination")) 9))) = true ->
  seg_stableb L r (SCustom "FileHeader.ImmediateDestinationField" h) = true.
Proof.
  intros Hok Hfit. apply routing_stable; [exact Hok|exact Hfit|exact rc_idest|vm_compute; tauto].
Qed.

Lemma iorig_stable L r h c : layout_ok L = true -> fitsb L r = true ->
  find_key (l_cuts L) "ImmediateOrigin" = Some c -> c_const c = None ->
  c_conv c = ["trimRoutingNumberLeadingZero"; "parseStringField"] ->
  aligned_seg L c = Some (SCustom "FileHeader.ImmediateOriginField" h) ->
  (is_nil (gets r "ImmediateOrigin")
   || (wf_utf8 (gets r "ImmediateOrigin") && ends_ok (stringField (trim (gets r "ImmediateOrigin")) 9))) = true ->
  seg_stableb L r (SCustom "FileHeader.ImmediateOriginField" h) = true.
Proof.
  intros Hok Hfit. apply routing_stable; [exact Hok|exact Hfit|exact rc_iorig|vm_compute; tauto].
Qed.

(* ---- 6. IATBatchHeader.ForeignExchangeReferenceField ---- *)

Lemma p10_1 : Z.of_N (p10 1) = 10%Z.
Proof. reflexivity. Qed.

Lemma fxref_stable L r h c1 c2 : layout_ok L = true -> fitsb L r = true ->
  find_key (l_cuts L) "ForeignExchangeReferenceIndicator" = Some c1 -> c_const c1 = None ->
  is_num_chain (c_conv c1) = true ->
  aligned_seg L c1 = Some (SNum "ForeignExchangeReferenceIndicator" 1) ->
  find_key (l_cuts L) "ForeignExchangeReference" = Some c2 -> c_const c2 = None ->
  is_trim_chain (c_conv c2) = true ->
  aligned_seg L c2 = Some (SCustom "IATBatchHeader.ForeignExchangeReferenceField" h) ->
  ((0 <=? geti r "ForeignExchangeReferenceIndicator")%Z && (geti r "ForeignExchangeReferenceIndicator" <? 10)%Z
   && ((geti r "ForeignExchangeReferenceIndicator" =? 3)%Z
       || (wf_utf8 (gets r "ForeignExchangeReference") && plain_left (gets r "ForeignExchangeReference")))) = true ->
  seg_stableb L r (SCustom "IATBatchHeader.ForeignExchangeReferenceField" h) = true.
Proof.
  intros Hok Hfit Hk1 Hconst1 Hconv1 Hal1 Hk2 Hconst2 Hconv2 Hal2 Hc.
  apply andb_prop in Hc as [Hc Hfx]. apply andb_prop in Hc as [Hz0 Hz10].
  apply Z.leb_le in Hz0. apply Z.ltb_lt in Hz10.
  apply custom_stable_intro; [exact Hok|exact Hfit|]. intros r2 H2. pose proof H2 as H2'.
  reads_in H2 "IATBatchHeader.ForeignExchangeReferenceField" "ForeignExchangeReferenceIndicator" K1.
  reads_in H2' "IATBatchHeader.ForeignExchangeReferenceField" "ForeignExchangeReference" K2.
  rewrite (reparsed_real L r _ c1 _ Hk1 Hconst1 Hal1), (conv_value_num _ _ Hconv1) in K1.
  unfold render_seg in K1.
  rewrite parseNumField_numericField in K1 by (rewrite ?p10_1; lia).
  apply geti_of_lookup in K1.
  rewrite (reparsed_real L r _ c2 _ Hk2 Hconst2 Hal2), (conv_value_trim _ _ Hconv2) in K2.
  unfold render_seg in K2. rewrite rc_fxref in K2. apply gets_of_lookup in K2.
  rewrite !rc_fxref, K1, K2. f_equal.
  destruct (geti r "ForeignExchangeReferenceIndicator" =? 3)%Z eqn:E3; [reflexivity|].
  cbn [orb] in Hfx. apply andb_prop in Hfx as [Hwf Hpl].
  apply alphaField_trim_fixed; [exact Hwf|exact Hpl].
Qed.

(* ---- 7. BatchHeader.EffectiveEntryDateField ---- *)

Lemma trim_autoenroll : trim (alphaField AUTOENROLL 10) = AUTOENROLL.
Proof. vm_compute. reflexivity. Qed.
Lemma stringField_nil_6 : stringField [] 6 = zeros 6.
Proof. vm_compute. reflexivity. Qed.
Lemma autoenroll_refl : bytes_eqb AUTOENROLL AUTOENROLL = true.
Proof. vm_compute. reflexivity. Qed.

Definition eed_text (ced sec eed : bytes) : bytes :=
  if bytes_eqb ced AUTOENROLL && bytes_eqb sec ENR then spaces 6 else stringField eed 6.

Lemma eed_fix ced sec eed :
  (if bytes_eqb ced AUTOENROLL && bytes_eqb sec ENR then true
   else negb (bytes_eqb (trim (alphaField ced 10)) AUTOENROLL && bytes_eqb sec ENR)
        && (valid_date (stringField eed 6) || bytes_eqb (stringField eed 6) (zeros 6))) = true ->
  eed_text (trim (alphaField ced 10)) sec
           (if valid_date (eed_text ced sec eed) then eed_text ced sec eed else [])
  = eed_text ced sec eed.
Proof.
  intros H. unfold eed_text.
  destruct (bytes_eqb ced AUTOENROLL && bytes_eqb sec ENR) eqn:E.
  - apply andb_prop in E as [E1 E2]. apply bytes_eqb_eq in E1. subst ced.
    rewrite trim_autoenroll, autoenroll_refl, E2. reflexivity.
  - apply andb_prop in H as [H1 H2]. apply negb_true_iff in H1. rewrite H1.
    destruct (valid_date (stringField eed 6)) eqn:V.
    + apply stringField_idem.
    + cbn [orb] in H2. apply bytes_eqb_eq in H2. rewrite H2. apply stringField_nil_6.
Qed.

Lemma eed_stable L r h c1 c2 c3 : layout_ok L = true -> fitsb L r = true ->
  find_key (l_cuts L) "EffectiveEntryDate" = Some c1 -> c_const c1 = None ->
  c_conv c1 = ["validateSimpleDate"] ->
  aligned_seg L c1 = Some (SCustom "BatchHeader.EffectiveEntryDateField" h) ->
  find_key (l_cuts L) "CompanyEntryDescription" = Some c2 -> c_const c2 = None ->
  is_trim_chain (c_conv c2) = true ->
  aligned_seg L c2 = Some (SAlpha "CompanyEntryDescription" 10) ->
  find_key (l_cuts L) "StandardEntryClassCode" = Some c3 -> c_const c3 = None ->
  c_conv c3 = [] ->
  aligned_seg L c3 = Some (SRaw "StandardEntryClassCode") ->
  (if bytes_eqb (gets r "CompanyEntryDescription") AUTOENROLL && bytes_eqb (gets r "StandardEntryClassCode") ENR
   then true
   else negb (bytes_eqb (trim (alphaField (gets r "CompanyEntryDescription") 10)) AUTOENROLL
              && bytes_eqb (gets r "StandardEntryClassCode") ENR)
        && (valid_date (stringField (gets r "EffectiveEntryDate") 6)
            || bytes_eqb (stringField (gets r "EffectiveEntryDate") 6) (zeros 6))) = true ->
  seg_stableb L r (SCustom "BatchHeader.EffectiveEntryDateField" h) = true.
Proof.
  intros Hok Hfit Hk1 Hconst1 Hconv1 Hal1 Hk2 Hconst2 Hconv2 Hal2 Hk3 Hconst3 Hconv3 Hal3 Hc.
  apply custom_stable_intro; [exact Hok|exact Hfit|]. intros r2 H2.
  pose proof H2 as H2'. pose proof H2 as H2''.
  reads_in H2 "BatchHeader.EffectiveEntryDateField" "EffectiveEntryDate" K1.
  reads_in H2' "BatchHeader.EffectiveEntryDateField" "CompanyEntryDescription" K2.
  reads_in H2'' "BatchHeader.EffectiveEntryDateField" "StandardEntryClassCode" K3.
  rewrite (reparsed_real L r _ c1 _ Hk1 Hconst1 Hal1), Hconv1 in K1.
  unfold render_seg in K1. rewrite rc_eed, conv_date in K1. apply gets_of_lookup in K1.
  rewrite (reparsed_real L r _ c2 _ Hk2 Hconst2 Hal2), (conv_value_trim _ _ Hconv2) in K2.
  unfold render_seg in K2. apply gets_of_lookup in K2.
  rewrite (reparsed_real L r _ c3 _ Hk3 Hconst3 Hal3), Hconv3, conv_none in K3.
  unfold render_seg in K3. apply gets_of_lookup in K3.
  rewrite !rc_eed, K1, K2, K3. f_equal.
  apply (eed_fix (gets r "CompanyEntryDescription") (gets r "StandardEntryClassCode") (gets r "EffectiveEntryDate")).
  exact Hc.
Qed.

(* ------------------------------------------------------------------ *)
(* E. the simple segments met next to the custom ones (whole-record
      corollaries): explicit forms of [seg_stableb]                      *)

Lemma raw_const_stable L r f c bs :
  find_key (l_cuts L) f = Some c -> c_const c = Some bs -> gets r f = bs ->
  seg_stableb L r (SRaw f) = true.
Proof.
  intros Hk Hconst Hg. rewrite (seg_stableb_simple L r (SRaw f) f eq_refl), Hk, Hconst.
  cbn [render_seg]. rewrite gets_single, Hg. apply bytes_eqb_eq. reflexivity.
Qed.

Lemma raw_id_stable L r f c :
  find_key (l_cuts L) f = Some c -> c_const c = None -> c_conv c = [] ->
  seg_stableb L r (SRaw f) = true.
Proof.
  intros Hk Hconst Hconv. rewrite (seg_stableb_simple L r (SRaw f) f eq_refl), Hk, Hconst, Hconv.
  reflexivity.
Qed.

Lemma alpha_trim_stable L r f w c :
  find_key (l_cuts L) f = Some c -> c_const c = None -> is_trim_chain (c_conv c) = true ->
  plain_left (gets r f) = true ->
  seg_stableb L r (SAlpha f w) = true.
Proof.
  intros Hk Hconst Hconv Hp. rewrite (seg_stableb_simple L r (SAlpha f w) f eq_refl), Hk, Hconst.
  cbn [field_stable]. rewrite Hconv.
  destruct (c_conv c) as [|fn rest]; [discriminate Hconv|]. cbn [is_nil]. exact Hp.
Qed.

Print Assumptions lookup_reparsed.
Print Assumptions render_custom_reads.
Print Assumptions custom_stable_intro.
Print Assumptions dod_stable.
Print Assumptions fcd_stable.
Print Assumptions fct_stable.
Print Assumptions idest_stable.
Print Assumptions iorig_stable.
Print Assumptions fxref_stable.
Print Assumptions eed_stable.

(* C02, the reader domain: no record the Writer writes for a reader-produced tree holds a CR or LF, so that
   splitting the written text at the line ending gives back exactly the records (the premise under which
   "94 characters per line" is a statement about the physical text).

   The framing cuts at every CR / LF, so no line handed to Parse holds one; Parse assigns substrings of the line
   (trimmed, filtered) and constants; String() writes fields, blanks, zeros, digits and literals.  Nothing here
   needs validity or width: it is a property of Parse and String() alone. *)
From Coq Require Import String List Lia Bool NArith ZArith ZifyN ZifyNat ZifyBool.
From ACH Require Import Arith.
From ACH Require Import Utf8Facts Utf8Enc FieldsFacts NumFacts CustomFacts LayoutFacts FramingFacts FramingBytes
  DispatchFacts DispatchBytes ReaderValidFacts WrittenCountsFacts ReaderWidth ReaderWidthFacts.
Import ListNotations.
Local Open Scope string_scope.
Local Open Scope nat_scope.
Local Open Scope list_scope.

(* ------------------------------------------------------------------ *)
(* bytes                                                                *)

Lemma no_nl_app a b : no_nl (a ++ b) = no_nl a && no_nl b.
Proof. unfold no_nl. apply forallb_app. Qed.

Lemma no_nl_concat l : forallb no_nl l = true -> no_nl (concat l) = true.
Proof.
  induction l as [|x l IH]; [reflexivity|]. cbn [forallb concat]. intros H. apply andb_prop in H as [H1 H2].
  now rewrite no_nl_app, H1, IH.
Qed.

Lemma no_nl_repeat b k : (negb (b =? 10)%N && negb (b =? 13)%N) = true -> no_nl (repeat b k) = true.
Proof. intros H. unfold no_nl. now apply forallb_repeat. Qed.

Lemma no_nl_spaces k : no_nl (spaces k) = true.
Proof. now apply no_nl_repeat. Qed.
Lemma no_nl_zeros k : no_nl (zeros k) = true.
Proof. now apply no_nl_repeat. Qed.

Lemma in_firstn' {A} n : forall (l : list A) x, In x (firstn n l) -> In x l.
Proof.
  induction n as [|n IH]; intros l x; [intros []|]. destruct l as [|a l]; [intros []|]. cbn [firstn].
  intros [H|H]; [now left|right; now apply IH].
Qed.
Lemma in_skipn' {A} n : forall (l : list A) x, In x (skipn n l) -> In x l.
Proof.
  induction n as [|n IH]; intros l x; [now cbn|]. destruct l as [|a l]; [intros []|]. cbn [skipn].
  intros H. right. now apply IH.
Qed.

Lemma no_nl_firstn' n s : no_nl s = true -> no_nl (firstn n s) = true.
Proof.
  unfold no_nl. rewrite !forallb_forall. intros H b Hb. apply H. exact (in_firstn' _ _ _ Hb).
Qed.
Lemma no_nl_skipn' n s : no_nl s = true -> no_nl (skipn n s) = true.
Proof.
  unfold no_nl. rewrite !forallb_forall. intros H b Hb. apply H. exact (in_skipn' _ _ _ Hb).
Qed.

Lemma forallb_firstn {A} (p : A -> bool) n l : forallb p l = true -> forallb p (firstn n l) = true.
Proof. rewrite !forallb_forall. intros H x Hx. apply H. exact (in_firstn' _ _ _ Hx). Qed.
Lemma forallb_skipn {A} (p : A -> bool) n l : forallb p l = true -> forallb p (skipn n l) = true.
Proof. rewrite !forallb_forall. intros H x Hx. apply H. exact (in_skipn' _ _ _ Hx). Qed.

Lemma digits_no_nl s : digitsb s = true -> no_nl s = true.
Proof.
  unfold digitsb, no_nl. apply forallb_impl. intros b H. unfold is_digit in H. apply andb_prop in H as [H _].
  apply N.leb_le in H. destruct (b =? 10)%N eqn:E1; [apply N.eqb_eq in E1; lia|].
  destruct (b =? 13)%N eqn:E2; [apply N.eqb_eq in E2; lia|]. reflexivity.
Qed.

Lemma itoa_no_nl z : no_nl (itoa z) = true.
Proof.
  destruct (Z_lt_le_dec z 0) as [Hn|Hp].
  - rewrite itoa_neg by assumption. change (no_nl (45%N :: itoa (- z))) with (true && no_nl (itoa (- z))).
    cbn [andb]. apply digits_no_nl, itoa_digits. lia.
  - apply digits_no_nl, itoa_digits. exact Hp.
Qed.

Lemma numericField_no_nl z w : no_nl (numericField z w) = true.
Proof.
  unfold numericField. cbv zeta. destruct (w <? length (itoa z)).
  - apply no_nl_skipn', itoa_no_nl.
  - now rewrite no_nl_app, no_nl_zeros, itoa_no_nl.
Qed.

(* the characters of a string, as chunks *)
Lemma no_nl_chunks s : no_nl s = true -> forallb (fun c : N * bytes => no_nl (snd c)) (chunks s) = true.
Proof.
  intros H. rewrite <- (chunks_concat s) in H. revert H. generalize (chunks s). intros cs.
  induction cs as [|c cs IH]; [reflexivity|]. cbn [map concat forallb]. rewrite no_nl_app. intros H.
  apply andb_prop in H as [H1 H2]. now rewrite H1, IH.
Qed.

Lemma drop_space_forallb (p : N * bytes -> bool) cs : forallb p cs = true -> forallb p (drop_space cs) = true.
Proof.
  induction cs as [|[r bs] cs IH]; [reflexivity|]. cbn [drop_space]. intros H. destruct (is_space r); [|exact H].
  cbn [forallb] in H. apply andb_prop in H as [_ H]. now apply IH.
Qed.

Lemma trim_no_nl s : no_nl s = true -> no_nl (trim s) = true.
Proof.
  intros H. unfold trim. apply no_nl_concat. rewrite forallb_map'.
  rewrite forallb_rev. apply drop_space_forallb. rewrite forallb_rev. apply drop_space_forallb. now apply no_nl_chunks.
Qed.

Lemma rune_prefix_no_nl w s : wf_utf8 s = true -> no_nl s = true -> no_nl (rune_prefix w s) = true.
Proof.
  intros Hw H. unfold rune_prefix. apply wf_spec in Hw. rewrite <- Hw in H.
  rewrite <- (firstn_skipn w (runes s)), encode_app, no_nl_app in H. now apply andb_prop in H as [H _].
Qed.

Lemma alphaField_no_nl s w : wf_utf8 s = true -> no_nl s = true -> no_nl (alphaField s w) = true.
Proof.
  intros Hw H. unfold alphaField. cbv zeta. destruct (w <? rune_count s); [now apply rune_prefix_no_nl|].
  now rewrite no_nl_app, H, no_nl_spaces.
Qed.

Lemma stringField_no_nl s w : wf_utf8 s = true -> no_nl s = true -> no_nl (stringField s w) = true.
Proof.
  intros Hw H. unfold stringField. cbv zeta. destruct (w <? rune_count s); [now apply rune_prefix_no_nl|].
  now rewrite no_nl_app, H, no_nl_zeros.
Qed.

(* ------------------------------------------------------------------ *)
(* records                                                              *)

Definition val_ok (v : value) : Prop := match v with VS s => wf_utf8 s = true /\ no_nl s = true | VI _ => True end.
Definition rec_ok (r : recval) : Prop := Forall (fun p => val_ok (snd p)) r.

Lemma gets_ok r f : rec_ok r -> wf_utf8 (gets r f) = true /\ no_nl (gets r f) = true.
Proof.
  unfold gets. induction 1 as [|[g v] r Hv Hr IH]; cbn [lookup]; [split; reflexivity|].
  destruct (String.eqb f g); [|exact IH]. destruct v as [s|z]; [exact Hv|split; reflexivity].
Qed.

Lemma render_custom_no_nl n r bs : rec_ok r -> render_custom n r = Some bs -> no_nl bs = true.
Proof.
  intros Hr. unfold render_custom.
  pose proof (fun f => proj1 (gets_ok r f Hr)) as W. pose proof (fun f => proj2 (gets_ok r f Hr)) as N.
  destruct (String.eqb n "Addenda99.DateOfDeathField").
  { intros E. injection E as <-. destruct (gets r "DateOfDeath") eqn:Eg; [apply no_nl_spaces|rewrite <- Eg; apply N]. }
  destruct (String.eqb n "BatchHeader.EffectiveEntryDateField").
  { intros E. injection E as <-. destruct (_ && _); [apply no_nl_spaces|now apply stringField_no_nl]. }
  destruct (String.eqb n "FileHeader.ImmediateDestinationField").
  { intros E. injection E as <-. destruct (gets r "ImmediateDestination") eqn:Eg; [apply no_nl_spaces|]. rewrite <- Eg.
    change (no_nl (sp :: ?x)) with (true && no_nl x). cbn [andb].
    apply stringField_no_nl; [apply wf_trim, W|apply trim_no_nl, N]. }
  destruct (String.eqb n "FileHeader.ImmediateOriginField").
  { intros E. injection E as <-. destruct (gets r "ImmediateOrigin") eqn:Eg; [apply no_nl_spaces|]. rewrite <- Eg.
    change (no_nl (sp :: ?x)) with (true && no_nl x). cbn [andb].
    apply stringField_no_nl; [apply wf_trim, W|apply trim_no_nl, N]. }
  destruct (String.eqb n "FileHeader.FileCreationDateField").
  { destruct (_ =? 6); [|discriminate]. intros E. injection E as <-. apply N. }
  destruct (String.eqb n "FileHeader.FileCreationTimeField").
  { destruct (_ =? 4); [|discriminate]. intros E. injection E as <-. apply N. }
  destruct (String.eqb n "IATBatchHeader.ForeignExchangeReferenceField").
  { intros E. injection E as <-. destruct (_ =? 3)%Z; [apply no_nl_spaces|now apply alphaField_no_nl]. }
  destruct (String.eqb n "Addenda98.CorrectedDataField"); [|discriminate].
  intros E. injection E as <-. destruct (gets r "iatCorrectedData") eqn:Eg; [now apply alphaField_no_nl|].
  rewrite <- Eg, no_nl_app, !alphaField_no_nl; auto.
Qed.

Lemma render_seg_no_nl r s : rec_ok r -> match s with SLit bs => no_nl bs | _ => true end = true -> no_nl (render_seg r s) = true.
Proof.
  intros Hr Hl. pose proof (fun f => proj1 (gets_ok r f Hr)) as W. pose proof (fun f => proj2 (gets_ok r f Hr)) as N.
  destruct s as [bs|f w|f w|f w|f|f|n h|src]; cbn [render_seg].
  - exact Hl.
  - now apply alphaField_no_nl.
  - apply numericField_no_nl.
  - now apply stringField_no_nl.
  - apply N.
  - apply itoa_no_nl.
  - destruct (render_custom n r) as [bs|] eqn:E; [exact (render_custom_no_nl n r bs Hr E)|reflexivity].
  - reflexivity.
Qed.

Lemma render_no_nl L r : lits_no_nl L = true -> rec_ok r -> no_nl (render L r) = true.
Proof.
  intros HL Hr. unfold lits_no_nl in HL. apply andb_prop in HL as [HL _]. rewrite forallb_forall in HL.
  unfold render. apply no_nl_concat. rewrite forallb_map'. apply forallb_forall. intros s Hs.
  apply render_seg_no_nl; [exact Hr|now apply HL].
Qed.

(* ------------------------------------------------------------------ *)
(* Parse                                                                *)

Lemma trz_no_nl s : no_nl s = true -> no_nl (trimRoutingNumberLeadingZero s) = true.
Proof.
  intros H. unfold trimRoutingNumberLeadingZero.
  destruct s as [|b t]; [now apply trim_no_nl|]. destruct b as [|p]; [now apply trim_no_nl|].
  do 7 (try (destruct p as [p|p|]; try (now apply trim_no_nl))).
  destruct (_ && _); apply trim_no_nl; [|exact H]. change (no_nl (48%N :: t)) with (true && no_nl t) in H. exact H.
Qed.

Lemma conv_str_no_nl fn s s' : no_nl s = true -> conv_str fn s = Some s' -> no_nl s' = true.
Proof.
  intros H. unfold conv_str.
  destruct (String.eqb fn "parseStringField" || String.eqb fn "strings.TrimSpace" || String.eqb fn "parseStringFieldWithOpts").
  { intros E. injection E as <-. now apply trim_no_nl. }
  destruct (String.eqb fn "trimRoutingNumberLeadingZero").
  { intros E. injection E as <-. now apply trz_no_nl. }
  destruct (String.eqb fn "validateSimpleDate").
  { intros E. injection E as <-. destruct (valid_date s); [exact H|reflexivity]. }
  destruct (String.eqb fn "validateSimpleTime").
  { intros E. injection E as <-. destruct (valid_time s); [exact H|reflexivity]. }
  destruct (String.eqb fn "validateSettlementDate"); [|discriminate].
  intros E. injection E as <-. unfold validateSettlementDate.
  destruct (_ || _); [apply no_nl_spaces|]. destruct (atoi_opt s) as [d|]; [|apply no_nl_spaces].
  destruct (_ && _); [exact H|apply no_nl_spaces].
Qed.

Lemma conv_chain_no_nl chain : forall s s', no_nl s = true -> conv_chain chain s = Some s' -> no_nl s' = true.
Proof.
  induction chain as [|fn rest IH]; intros s s' H; cbn [conv_chain].
  - intros E. now injection E as <-.
  - destruct (conv_chain rest s) as [t|] eqn:E; [|discriminate]. apply conv_str_no_nl. exact (IH _ _ H E).
Qed.

Lemma conv_value_ok chain s v : wf_utf8 s = true -> no_nl s = true -> conv_value chain s = Some v -> val_ok v.
Proof.
  intros Hw H E. pose proof (conv_value_wf chain s v Hw E) as Hv. revert E. unfold conv_value. destruct chain as [|fn rest].
  - intros E. injection E as <-. now split.
  - destruct (String.eqb fn "parseNumField").
    + destruct (conv_chain rest s); [|discriminate]. intros E. injection E as <-. exact I.
    + destruct (conv_chain (fn :: rest) s) as [t|] eqn:E; [|discriminate]. intros E'. injection E' as <-.
      split; [exact Hv|exact (conv_chain_no_nl _ _ _ H E)].
Qed.

Lemma units_no_nl l : no_nl l = true -> forallb no_nl (units IRune l) = true.
Proof. intros H. unfold units. rewrite forallb_map'. now apply no_nl_chunks. Qed.

Lemma sub_no_nl us lo hi : forallb no_nl us = true -> no_nl (sub us lo hi) = true.
Proof. intros H. unfold sub. apply no_nl_concat. now apply forallb_firstn, forallb_skipn. Qed.

Lemma parse_ok L l : l_ix L = IRune -> consts_wfb L = true -> lits_no_nl L = true ->
  wf_utf8 l = true -> no_nl l = true -> rec_ok (parse L l).
Proof.
  intros Hix Hc HL Hl Hn. unfold parse. destruct (rune_count l =? 94); [|constructor]. rewrite Hix.
  pose proof (units_single l Hl) as Hus. pose proof (units_no_nl l Hn) as Hun.
  unfold consts_wfb in Hc. rewrite forallb_forall in Hc.
  unfold lits_no_nl in HL. apply andb_prop in HL as [_ HL]. rewrite forallb_forall in HL.
  unfold rec_ok. induction (l_cuts L) as [|c cuts IH]; [constructor|]. cbn [flat_map]. apply Forall_app. split.
  - unfold parse_cut. specialize (Hc c (or_introl eq_refl)). specialize (HL c (or_introl eq_refl)).
    destruct (c_const c) as [bs|]; [constructor; [now split|constructor]|].
    destruct (String.eqb (c_field c) ""); [constructor|].
    destruct (conv_value (c_conv c) (sub (units IRune l) (c_lo c) (c_hi c))) as [v|] eqn:E; [|constructor].
    constructor; [|constructor]. exact (conv_value_ok _ _ _ (sub_wf _ _ _ Hus) (sub_no_nl _ _ _ Hun) E).
  - apply IH; intros c' Hc'; [apply Hc|apply HL]; now right.
Qed.

Lemma overlay_ok new : rec_ok new -> rec_ok (overlay new []).
Proof. intros H. unfold overlay, rec_ok. rewrite app_nil_r. now apply Forall_rev. Qed.

Lemma stamp_for_ok clk k r : wf_utf8 clk = true -> no_nl clk = true -> rec_ok r -> rec_ok (stamp_for clk k r).
Proof.
  intros Hw Hn Hr. unfold stamp_for, stamp_val. destruct (String.eqb k "FileHeader"); [|exact Hr].
  destruct (is_nil (gets r TIME)); [|exact Hr]. constructor; [now split|exact Hr].
Qed.

(* ------------------------------------------------------------------ *)
(* lines                                                                *)

Lemma encode_rune_break r : is_nl (encode_rune r) = false -> no_nl (encode_rune r) = true.
Proof.
  unfold encode_rune, is_nl, LF, CR. destruct (r <? 128)%N eqn:E1.
  { intros H. apply orb_false_iff in H as [H1 H2]. cbn [bytes_eqb] in H1, H2. rewrite andb_true_r in H1, H2.
    unfold no_nl. cbn [forallb]. now rewrite H1, H2. }
  apply N.ltb_ge in E1. intros _.
  assert (Hhi : forall b, (128 <= b)%N -> (negb (b =? 10)%N && negb (b =? 13)%N) = true).
  { intros b Hb. destruct (b =? 10)%N eqn:X1; [apply N.eqb_eq in X1; lia|].
    destruct (b =? 13)%N eqn:X2; [apply N.eqb_eq in X2; lia|]. reflexivity. }
  unfold no_nl.
  destruct (r <? 2048)%N; [cbn [forallb]; rewrite !Hhi by lia; reflexivity|].
  destruct ((55296 <=? r)%N && (r <=? 57343)%N); [reflexivity|].
  destruct (r <? 65536)%N; [cbn [forallb]; rewrite !Hhi by lia; reflexivity|].
  destruct (r <? 1114112)%N; [cbn [forallb]; rewrite !Hhi by lia; reflexivity|reflexivity].
Qed.

Definition single_nb (c : bytes) : Prop := single c /\ (is_nl c = false -> no_nl c = true).

Lemma chars_single_nb s : Forall single_nb (chars s).
Proof.
  unfold chars. induction s as [s IH] using list_len_ind.
  destruct s as [|b0 t]; [constructor|].
  destruct (chunk_head_canon b0 t) as (r & bs & rest & Hc & Hlen & Hr).
  rewrite Hc. cbn [map fst snd]. constructor; [|exact (IH rest Hlen)].
  destruct (r =? rune_error)%N eqn:E; [split; [exact single_err|reflexivity]|].
  destruct Hr as [Hr|Hr]; [apply N.eqb_neq in E; contradiction|]. rewrite <- Hr.
  split; [apply single_encode|apply encode_rune_break].
Qed.

Definition lines_ok (ps : list (nat * bytes)) : Prop := Forall (fun p => wf_utf8 (snd p) = true /\ no_nl (snd p) = true) ps.

Lemma emit_ok n cur rest : wf_utf8 cur = true -> no_nl cur = true -> lines_ok rest -> lines_ok (emit n cur rest).
Proof. intros Hc Hn Hr. unfold emit. destruct (blank_line cur); [exact Hr|constructor; [now split|exact Hr]]. Qed.

Lemma frame_ok cs : Forall single_nb cs -> forall cur cnt n, wf_utf8 cur = true -> no_nl cur = true -> lines_ok (frame cs cur cnt n).
Proof.
  induction 1 as [|c cs [Hc Hb] Hcs IH]; intros cur cnt n Hcur Hn; cbn [frame].
  - destruct (0 <? cnt); [constructor; [now split|constructor]|constructor].
  - destruct (is_nl c) eqn:Enl.
    + destruct (0 <? cnt); [|now apply IH]. apply emit_ok; [exact Hcur|exact Hn|]. now apply IH.
    + assert (Hw : wf_utf8 (cur ++ c) = true) by now apply wf_single_app.
      assert (Hn' : no_nl (cur ++ c) = true) by (rewrite no_nl_app, Hn, (Hb eq_refl); reflexivity).
      destruct (S cnt <? 94); [now apply IH|]. apply emit_ok; [exact Hw|exact Hn'|]. now apply IH.
Qed.

Theorem read_lines_ok text ls : norm_lines (read_lines text) = Some ls ->
  Forall (fun l => wf_utf8 l = true /\ no_nl l = true) ls.
Proof.
  unfold read_lines. pose proof (frame_ok (chars text) (chars_single_nb text) [] 0 0 eq_refl eq_refl) as H.
  revert ls. induction H as [|p ps [Hw Hn] Hps IH]; intros ls; cbn [map norm_lines].
  - intros E. injection E as <-. constructor.
  - unfold norm_line at 1. destruct (rune_count (snd p) =? 94).
    + destruct (norm_lines _) as [ls'|] eqn:E; [|discriminate]. intros E'. injection E' as <-.
      constructor; [now split|now apply IH].
    + destruct (94 <? rune_count (snd p)); [discriminate|].
      destruct (norm_lines _) as [ls'|] eqn:E; [|discriminate]. intros E'. injection E' as <-.
      constructor; [|now apply IH]. split; [apply wf_app; [exact Hw|apply wf_repeat_sp]|].
      rewrite no_nl_app, Hn. apply (no_nl_spaces _).
Qed.

(* ------------------------------------------------------------------ *)
(* composition                                                          *)

Section NoBreak.
Variable T : list layout.
Variable RS : list (string * rules).
Variable AT : tables.
Hypothesis HT : forallb layout_ok T = true.
Hypothesis HP : forallb (parse_fills RS) T = true.
Hypothesis HL : forallb lits_no_nl T = true.
Hypothesis HK : reader_kinds_ok T = true.
Variable clk : bytes.
Hypothesis Hclk : wf_utf8 clk = true.
Hypothesis Hclkn : no_nl clk = true.

Definition okQ (l : bytes) : Prop := wf_utf8 l = true /\ no_nl l = true.
Definition Gn (x : recordR) : bool := no_nl (render_rec T (stamp_rec clk x)).

Lemma Gn_parsed k l x : okQ l -> rune_count l = 94 -> read_rec T k l = Some x -> Gn x = true.
Proof.
  intros [Hl Hn] H94. unfold read_rec. destruct (layout_of T k) as [L|] eqn:EL; [|discriminate].
  intros H. injection H as <-. unfold layout_of in EL. pose proof (find_some _ _ EL) as [Hin Hname].
  fold (layout_of T k) in EL.
  assert (Hok : layout_ok L = true) by (rewrite forallb_forall in HT; now apply HT).
  assert (Hpf : parse_fills RS L = true) by (rewrite forallb_forall in HP; now apply HP).
  assert (Hlit : lits_no_nl L = true) by (rewrite forallb_forall in HL; now apply HL).
  destruct (layout_ok_facts L Hok) as [cs F]. destruct (pf_parts RS L Hpf) as (Hc & _ & _).
  unfold Gn, stamp_rec, render_rec. cbn [r_kind r_val]. rewrite EL.
  apply render_no_nl; [exact Hlit|]. apply stamp_for_ok; [exact Hclk|exact Hclkn|].
  apply overlay_ok, parse_ok; auto. exact (ok_ix _ _ F).
Qed.

(* the hypothesis [rec_no_nl] of C01_file_text_roundtrip / C01_valid_text_roundtrip holds of reader-produced trees *)
Theorem reader_rec_no_nl text f : read_text_valid T RS AT text = Some (f, false) ->
  all_file (rec_no_nl T) (stamp clk f) = true.
Proof.
  unfold read_text_valid. destruct (norm_lines (read_lines text)) as [ls|] eqn:El; [|discriminate]. intros Hr.
  pose proof (valid_reader_refines T RS AT ls f Hr) as Hread.
  pose proof (read_file_g T okQ Gn Gn_parsed HK ls f (read_lines_ok text ls El) Hread) as Hg.
  pose proof (file_g_all T Gn f Hg) as Hall. unfold stamp. now rewrite all_file_map.
Qed.

Theorem reader_no_break text f : read_text_valid T RS AT text = Some (f, false) ->
  forallb no_nl (write_file_padded T (stamp clk f)) = true.
Proof.
  unfold read_text_valid. destruct (norm_lines (read_lines text)) as [ls|] eqn:El; [|discriminate]. intros Hr.
  pose proof (valid_reader_refines T RS AT ls f Hr) as Hread.
  pose proof (read_file_g T okQ Gn Gn_parsed HK ls f (read_lines_ok text ls El) Hread) as Hg.
  pose proof (file_g_all T Gn f Hg) as Hall.
  unfold write_file_padded, physical_lines. rewrite forallb_app. apply andb_true_intro. split.
  - apply (all_file_lines T no_nl (stamp clk f)). unfold stamp. now rewrite all_file_map.
  - apply forallb_repeat. exact (proj2 nines_line_ok).
Qed.

End NoBreak.

(* Facts about the rune-level converters (pure list reasoning). *)
From Coq Require Import Lia.
From ACH Require Import RuneDefs.
Open Scope N_scope.

Definition allsp (l : list N) : bool := forallb is_space l.

Lemma dropsp_split l : exists A, l = A ++ dropsp l /\ allsp A = true /\ hd_nonsp (dropsp l) = true.
Proof.
  induction l as [|x l IH]; [exists []; auto|].
  cbn [dropsp]. destruct (is_space x) eqn:E.
  - destruct IH as (A & H1 & H2 & H3). exists (x :: A). repeat split; auto.
    + cbn [app]. now rewrite <- H1.
    + cbn [allsp forallb]. fold (allsp A). now rewrite E, H2.
  - exists []. repeat split; auto. cbn [hd_nonsp]. now rewrite E.
Qed.

Lemma dropsp_id l : hd_nonsp l = true -> dropsp l = l.
Proof.
  destruct l as [|x l]; [reflexivity|]. cbn [hd_nonsp dropsp]. intros H.
  destruct (is_space x); [discriminate|reflexivity].
Qed.

Lemma dropsp_allsp A l : allsp A = true -> dropsp (A ++ l) = dropsp l.
Proof.
  induction A as [|x A IH]; [reflexivity|]. unfold allsp. cbn [forallb app dropsp]. intros H.
  apply andb_prop in H as [H1 H2]. rewrite H1. now apply IH.
Qed.

Lemma dropsp_all A : allsp A = true -> dropsp A = [].
Proof. intros H. rewrite <- (app_nil_r A). now rewrite dropsp_allsp. Qed.

Lemma allsp_rev A : allsp (rev A) = allsp A.
Proof.
  unfold allsp. induction A as [|x A IH]; [reflexivity|]. cbn [rev forallb].
  rewrite forallb_app, IH. cbn [forallb]. rewrite andb_true_r. apply andb_comm.
Qed.

Lemma allsp_app A B : allsp (A ++ B) = allsp A && allsp B.
Proof. apply forallb_app. Qed.

Lemma hd_nonsp_app t B : t <> [] -> hd_nonsp (t ++ B) = hd_nonsp t.
Proof. destruct t; [congruence|reflexivity]. Qed.

Lemma trim_runes_id t : ends_ok_runes t = true -> trim_runes t = t.
Proof.
  unfold ends_ok_runes, trim_runes. intros H. apply andb_prop in H as [H1 H2].
  rewrite (dropsp_id t H1), (dropsp_id _ H2). apply rev_involutive.
Qed.

Lemma trim_runes_spec A t B :
  allsp A = true -> allsp B = true -> ends_ok_runes t = true -> trim_runes (A ++ t ++ B) = t.
Proof.
  intros HA HB Ht. unfold trim_runes. rewrite (dropsp_allsp A _ HA).
  destruct t as [|x t'].
  - cbn [app]. now rewrite (dropsp_all B HB).
  - unfold ends_ok_runes in Ht. apply andb_prop in Ht as [H1 H2].
    rewrite (dropsp_id ((x :: t') ++ B)) by (rewrite hd_nonsp_app; [assumption|discriminate]).
    rewrite rev_app_distr, dropsp_allsp by (now rewrite allsp_rev).
    rewrite (dropsp_id _ H2). apply rev_involutive.
Qed.

Lemma trim_runes_decomp rs : exists A B,
  rs = A ++ trim_runes rs ++ B /\ allsp A = true /\ allsp B = true /\ ends_ok_runes (trim_runes rs) = true.
Proof.
  destruct (dropsp_split rs) as (A & H1 & HA & Hy). set (y := dropsp rs) in *.
  destruct (dropsp_split (rev y)) as (B' & H2 & HB & Hz).
  unfold trim_runes. fold y. set (z := dropsp (rev y)) in *.
  assert (Ey : y = rev z ++ rev B').
  { rewrite <- rev_app_distr, <- H2. symmetry. apply rev_involutive. }
  exists A, (rev B'). repeat split; auto.
  - now rewrite <- Ey.
  - now rewrite allsp_rev.
  - unfold ends_ok_runes. rewrite rev_involutive, Hz, andb_true_r.
    destruct (rev z) as [|a q] eqn:Ez; [reflexivity|].
    rewrite Ey in Hy. cbn [app hd_nonsp] in Hy. exact Hy.
Qed.

Lemma trim_runes_idem rs : trim_runes (trim_runes rs) = trim_runes rs.
Proof.
  destruct (trim_runes_decomp rs) as (A & B & _ & _ & _ & H). now apply trim_runes_id.
Qed.

Lemma trim_runes_app_allsp rs C : allsp C = true -> trim_runes (rs ++ C) = trim_runes rs.
Proof.
  intros HC. destruct (trim_runes_decomp rs) as (A & B & H1 & HA & HB & Ht).
  rewrite H1 at 1. rewrite <- !app_assoc. apply trim_runes_spec; auto.
  now rewrite allsp_app, HB, HC.
Qed.

Lemma allsp_blanks k : allsp (repeat 32 k) = true.
Proof. induction k as [|k IH]; [reflexivity|]. cbn [repeat]. unfold allsp in *. cbn [forallb]. now rewrite IH. Qed.

Lemma trim_runes_app_blank rs k : trim_runes (rs ++ repeat 32 k) = trim_runes rs.
Proof. apply trim_runes_app_allsp, allsp_blanks. Qed.

Lemma trim_runes_length rs : (length (trim_runes rs) <= length rs)%nat.
Proof.
  destruct (trim_runes_decomp rs) as (A & B & H1 & _). rewrite H1 at 2. rewrite !app_length. lia.
Qed.

(* ---- padding ---- *)

Lemma pad_alpha_length rs w : length (pad_alpha rs w) = w.
Proof.
  unfold pad_alpha. destruct (w <? length rs)%nat eqn:E.
  - apply Nat.ltb_lt in E. rewrite firstn_length. lia.
  - apply Nat.ltb_ge in E. rewrite app_length, repeat_length. lia.
Qed.

Lemma pad_str_length rs w : length (pad_str rs w) = w.
Proof.
  unfold pad_str. destruct (w <? length rs)%nat eqn:E.
  - apply Nat.ltb_lt in E. rewrite firstn_length. lia.
  - apply Nat.ltb_ge in E. rewrite app_length, repeat_length. lia.
Qed.

Lemma pad_alpha_short t w : (length t <= w)%nat -> pad_alpha t w = t ++ repeat 32 (w - length t).
Proof. intros H. unfold pad_alpha. apply Nat.ltb_ge in H. now rewrite H. Qed.

Lemma pad_str_short t w : (length t <= w)%nat -> pad_str t w = repeat 48 (w - length t) ++ t.
Proof. intros H. unfold pad_str. apply Nat.ltb_ge in H. now rewrite H. Qed.

Lemma pad_alpha_exact u w : length u = w -> pad_alpha u w = u.
Proof. intros H. rewrite pad_alpha_short by lia. rewrite H, Nat.sub_diag. apply app_nil_r. Qed.

Lemma pad_str_exact u w : length u = w -> pad_str u w = u.
Proof. intros H. rewrite pad_str_short by lia. rewrite H, Nat.sub_diag. reflexivity. Qed.

Lemma pad_alpha_idem rs w : pad_alpha (pad_alpha rs w) w = pad_alpha rs w.
Proof. apply pad_alpha_exact, pad_alpha_length. Qed.

Lemma pad_str_idem rs w : pad_str (pad_str rs w) w = pad_str rs w.
Proof. apply pad_str_exact, pad_str_length. Qed.

(* ---- plain texts: trimming only removes trailing blanks ---- *)

Lemma forallb_firstn {A} (p : A -> bool) n l : forallb p l = true -> forallb p (firstn n l) = true.
Proof.
  revert l; induction n as [|n IH]; intros [|x l]; cbn [firstn forallb]; auto.
  intros H. apply andb_prop in H as [H1 H2]. now rewrite H1, IH.
Qed.

Lemma forallb_repeat {A} (p : A -> bool) x k : p x = true -> forallb p (repeat x k) = true.
Proof. intros H. induction k as [|k IH]; [reflexivity|]. cbn [repeat forallb]. now rewrite H, IH. Qed.

Lemma plain_pad rs w : plain_runes rs = true -> plain_runes (pad_alpha rs w) = true.
Proof.
  unfold plain_runes. intros H. apply andb_prop in H as [H1 H2]. apply andb_true_intro. split.
  - unfold pad_alpha. destruct (w <? length rs)%nat; [now apply forallb_firstn|].
    rewrite forallb_app, H1. cbn [andb]. now apply forallb_repeat.
  - apply orb_prop in H2 as [H2|H2]; apply orb_true_iff.
    + unfold pad_alpha. destruct (w <? length rs)%nat eqn:E.
      * destruct w as [|w]; [left; reflexivity|]. destruct rs as [|x rs]; [left; reflexivity|].
        left. exact H2.
      * destruct rs as [|x rs]; [|left; exact H2]. right. cbn [app]. unfold all_blank. now apply forallb_repeat.
    + right. unfold all_blank in *. unfold pad_alpha. destruct (w <? length rs)%nat; [now apply forallb_firstn|].
      rewrite forallb_app, H2. cbn [andb]. now apply forallb_repeat.
Qed.

Lemma all_blank_repeat u : all_blank u = true -> u = repeat 32 (length u).
Proof.
  unfold all_blank. induction u as [|x u IH]; [reflexivity|]. cbn [forallb length repeat]. intros H.
  apply andb_prop in H as [H1 H2]. apply N.eqb_eq in H1. subst x. now rewrite <- IH.
Qed.

Lemma allsp_plain_blank B : allsp B = true -> forallb sp_ok B = true -> all_blank B = true.
Proof.
  unfold allsp, all_blank. induction B as [|x B IH]; [reflexivity|]. cbn [forallb]. intros H1 H2.
  apply andb_prop in H1 as [H1 H1']. apply andb_prop in H2 as [H2 H2'].
  unfold sp_ok in H2. rewrite H1 in H2. cbn [negb orb] in H2. now rewrite H2, IH.
Qed.

Lemma plain_decomp u : plain_runes u = true -> exists k, u = trim_runes u ++ repeat 32 k.
Proof.
  unfold plain_runes. intros H. apply andb_prop in H as [H1 H2].
  destruct (trim_runes_decomp u) as (A & B & Hu & HA & HB & Ht). set (t := trim_runes u) in *.
  assert (HBok : forallb sp_ok B = true).
  { rewrite Hu in H1. rewrite !forallb_app in H1. apply andb_prop in H1 as [_ H1]. now apply andb_prop in H1 as [_ H1]. }
  pose proof (all_blank_repeat B (allsp_plain_blank B HB HBok)) as EB.
  apply orb_prop in H2 as [H2|H2].
  - (* no leading space: A = [] *)
    destruct A as [|a A].
    + exists (length B). cbn [app] in Hu. now rewrite <- EB.
    + rewrite Hu in H2. cbn [app hd_nonsp] in H2. unfold allsp in HA. cbn [forallb] in HA.
      apply andb_prop in HA as [HA _]. rewrite HA in H2. discriminate.
  - (* all blanks: t = [] *)
    assert (Et : t = []).
    { destruct t as [|x t'] eqn:Et'; [reflexivity|].
      unfold ends_ok_runes in Ht. apply andb_prop in Ht as [Ht _]. cbn [hd_nonsp] in Ht.
      rewrite Hu in H2. unfold all_blank in H2. rewrite !forallb_app in H2.
      apply andb_prop in H2 as [_ H2]. apply andb_prop in H2 as [H2 _]. cbn [forallb] in H2.
      apply andb_prop in H2 as [H2 _]. apply N.eqb_eq in H2. subst x. discriminate. }
    exists (length u). rewrite Et. cbn [app]. now apply all_blank_repeat.
Qed.

Lemma pad_alpha_trim_exact u w :
  length u = w -> plain_runes u = true -> pad_alpha (trim_runes u) w = u.
Proof.
  intros Hl Hp. destruct (plain_decomp u Hp) as [k Hk].
  assert (Hlen : (length (trim_runes u) + k = w)%nat).
  { assert (E : length u = length (trim_runes u ++ repeat 32 k)) by (now rewrite <- Hk).
    rewrite app_length, repeat_length in E. lia. }
  rewrite pad_alpha_short by lia.
  replace (w - length (trim_runes u))%nat with k by lia. now symmetry.
Qed.

Lemma pad_alpha_trim rs w :
  plain_runes rs = true -> pad_alpha (trim_runes (pad_alpha rs w)) w = pad_alpha rs w.
Proof. intros H. apply pad_alpha_trim_exact; [apply pad_alpha_length|now apply plain_pad]. Qed.

Lemma pad_str_trim_exact u w :
  length u = w -> ends_ok_runes u = true -> pad_str (trim_runes u) w = u.
Proof. intros Hl He. rewrite trim_runes_id by assumption. now apply pad_str_exact. Qed.

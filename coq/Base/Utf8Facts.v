(* Facts about the UTF-8 decoder. *)
From ACH Require Import Utf8.
Open Scope N_scope.

(* an induction principle following the recursion of [chunks] *)
Lemma list_len_ind {A} (P : list A -> Prop) :
  (forall l, (forall l', (length l' < length l)%nat -> P l') -> P l) -> forall l, P l.
Proof.
  intros H l. remember (length l) as n eqn:E. revert l E.
  induction n as [n IH] using lt_wf_ind. intros l ->. apply H. intros l' Hl'. now apply (IH (length l')).
Qed.

(* one unfolding step of [chunks], as a specification *)
Definition chunk_step (l : bytes) (r : N) (bs rest : bytes) : Prop :=
  l = bs ++ rest /\ (1 <= length bs <= 4)%nat /\
  (length bs = 1%nat \/ Forall (fun b => 128 <= b) bs) /\
  chunks l = (r, bs) :: chunks rest.

Definition chunks_multi (b0 : N) (t : bytes) : list (N * bytes) :=
      match seq_size b0, t with
      | 2%nat, b1 :: t1 =>
          if second_ok b0 b1 then ((b0 - 192) * 64 + (b1 - 128), [b0; b1]) :: chunks t1
          else (rune_error, [b0]) :: chunks t
      | 3%nat, b1 :: (b2 :: t2) =>
          if second_ok b0 b1 && cont b2
          then ((b0 - 224) * 4096 + (b1 - 128) * 64 + (b2 - 128), [b0; b1; b2]) :: chunks t2
          else (rune_error, [b0]) :: chunks t
      | 4%nat, b1 :: (b2 :: (b3 :: t3)) =>
          if second_ok b0 b1 && cont b2 && cont b3
          then ((b0 - 240) * 262144 + (b1 - 128) * 4096 + (b2 - 128) * 64 + (b3 - 128), [b0; b1; b2; b3]) :: chunks t3
          else (rune_error, [b0]) :: chunks t
      | _, _ => (rune_error, [b0]) :: chunks t
      end.

Lemma chunks_cons b0 t :
  chunks (b0 :: t) = if b0 <? 128 then (b0, [b0]) :: chunks t else chunks_multi b0 t.
Proof. reflexivity. Qed.

Lemma second_ok_hi b0 b1 : second_ok b0 b1 = true -> 128 <= b1.
Proof.
  unfold second_ok, cont.
  repeat match goal with |- context [if ?c then _ else _] => destruct c end; intros H;
  apply andb_prop in H as [H _]; apply N.leb_le in H; lia.
Qed.

Lemma cont_hi b : cont b = true -> 128 <= b.
Proof. intros H. unfold cont in H. apply andb_prop in H as [H _]. now apply N.leb_le in H. Qed.

Ltac hi := repeat (apply Forall_cons; [solve [assumption | eauto using second_ok_hi, cont_hi]|]); apply Forall_nil.

Lemma chunks_step b0 t : exists r bs rest, chunk_step (b0 :: t) r bs rest /\
  (bs = [b0] -> (b0 < 128 /\ r = b0) \/ (128 <= b0 /\ r = rune_error)).
Proof.
  destruct (b0 <? 128) eqn:E0.
  { apply N.ltb_lt in E0. exists b0, [b0], t. split.
    - repeat split; cbn [length app]; auto; try lia.
      rewrite chunks_cons. apply N.ltb_lt in E0. now rewrite E0.
    - intros _. left. split; [assumption|reflexivity]. }
  assert (Hm : chunks (b0 :: t) = chunks_multi b0 t) by (rewrite chunks_cons; now rewrite E0).
  apply N.ltb_ge in E0.
  assert (Eerr : chunks_multi b0 t = (rune_error, [b0]) :: chunks t ->
    exists r bs rest, chunk_step (b0 :: t) r bs rest /\
     (bs = [b0] -> (b0 < 128 /\ r = b0) \/ (128 <= b0 /\ r = rune_error))).
  { intros H. exists rune_error, [b0], t. split.
    - repeat split; cbn [length app]; auto; try lia. now rewrite Hm.
    - intros _. right. split; [assumption|reflexivity]. }
  unfold chunks_multi in *.
  destruct (seq_size b0) as [|[|[|[|[|k]]]]] eqn:Es; try (apply Eerr; reflexivity).
  - (* 2 *) destruct t as [|b1 t1]; [apply Eerr; reflexivity|].
    destruct (second_ok b0 b1) eqn:E1; [|apply Eerr; reflexivity].
    exists ((b0 - 192) * 64 + (b1 - 128)), [b0; b1], t1. split.
    + repeat split; cbn [length app]; auto; try lia.
      right. hi.
    + intros H; discriminate.
  - (* 3 *) destruct t as [|b1 [|b2 t2]]; try (apply Eerr; reflexivity).
    destruct (second_ok b0 b1 && cont b2) eqn:E1; [|apply Eerr; reflexivity].
    apply andb_prop in E1 as [E1 E2].
    exists ((b0 - 224) * 4096 + (b1 - 128) * 64 + (b2 - 128)), [b0; b1; b2], t2. split.
    + repeat split; cbn [length app]; auto; try lia.
      right. hi.
    + intros H; discriminate.
  - (* 4 *) destruct t as [|b1 [|b2 [|b3 t3]]]; try (apply Eerr; reflexivity).
    destruct (second_ok b0 b1 && cont b2 && cont b3) eqn:E1; [|apply Eerr; reflexivity].
    apply andb_prop in E1 as [E1 E3]. apply andb_prop in E1 as [E1 E2].
    exists ((b0 - 240) * 262144 + (b1 - 128) * 4096 + (b2 - 128) * 64 + (b3 - 128)), [b0; b1; b2; b3], t3. split.
    + repeat split; cbn [length app]; auto; try lia.
      right. hi.
    + intros H; discriminate.
Qed.

(* the chunks partition the input *)
Lemma chunks_concat l : concat (map snd (chunks l)) = l.
Proof.
  induction l as [l IH] using list_len_ind. destruct l as [|b0 t]; [reflexivity|].
  destruct (chunks_step b0 t) as (r & bs & rest & (Hl & Hlen & _ & Hc) & _).
  rewrite Hc. cbn [map snd concat]. rewrite IH; [now symmetry|].
  rewrite Hl, app_length. lia.
Qed.

Lemma rune_count_le l : (rune_count l <= length l)%nat.
Proof.
  unfold rune_count. induction l as [l IH] using list_len_ind. destruct l as [|b0 t]; [cbn; lia|].
  destruct (chunks_step b0 t) as (r & bs & rest & (Hl & Hlen & _ & Hc) & _).
  rewrite Hc, Hl, app_length. cbn [length].
  assert (length (chunks rest) <= length rest)%nat.
  { apply IH. rewrite Hl, app_length. lia. }
  lia.
Qed.

(* every chunk is either a single byte equal to its (ASCII) rune, a single
   byte >= 128 decoded as U+FFFD, or a multi-byte sequence of bytes >= 128 *)
Lemma chunks_shape l : Forall (fun c : N * bytes =>
     (snd c = [fst c] /\ fst c < 128) \/ Forall (fun b => 128 <= b) (snd c)) (chunks l).
Proof.
  induction l as [l IH] using list_len_ind. destruct l as [|b0 t]; [constructor|].
  destruct (chunks_step b0 t) as (r & bs & rest & (Hl & Hlen & Hhi & Hc) & H1).
  rewrite Hc. constructor.
  - cbn [fst snd]. destruct Hhi as [Hone|Hhi]; [|now right].
    destruct bs as [|x [|y bs']]; cbn in Hone; try discriminate.
    cbn in Hl. injection Hl as <- _.
    cbn [fst snd].
    destruct (H1 eq_refl) as [[A ->]|[A ->]]; [left; split; auto|right; repeat constructor; assumption].
  - apply IH. rewrite Hl, app_length. lia.
Qed.

(* Go-faithful UTF-8 decoding (unicode/utf8.DecodeRuneInString, [for range s],
   utf8.RuneCountInString): an invalid or truncated sequence decodes to
   U+FFFD and consumes exactly one byte. *)
From ACH Require Export Bytes.
Open Scope N_scope.

Definition rune_error : N := 65533.

Definition cont (b : N) : bool := (128 <=? b) && (b <=? 191).

(* size announced by the first byte (0 = invalid first byte) and accepted range of the second *)
Definition seq_size (b0 : N) : nat :=
  if b0 <? 194 then 0%nat
  else if b0 <=? 223 then 2%nat
  else if b0 <=? 239 then 3%nat
  else if b0 <=? 244 then 4%nat
  else 0%nat.

Definition second_ok (b0 b1 : N) : bool :=
  if b0 =? 224 then (160 <=? b1) && (b1 <=? 191)
  else if b0 =? 237 then (128 <=? b1) && (b1 <=? 159)
  else if b0 =? 240 then (144 <=? b1) && (b1 <=? 191)
  else if b0 =? 244 then (128 <=? b1) && (b1 <=? 143)
  else cont b1.

(* [chunks s]: the decoded runes of [s], each with the bytes it was decoded from *)
Fixpoint chunks (l : bytes) : list (N * bytes) :=
  match l with
  | [] => []
  | b0 :: t =>
    if b0 <? 128 then (b0, [b0]) :: chunks t
    else
      match seq_size b0, t with
      | 2%nat, b1 :: t1 =>
          if second_ok b0 b1 then ((b0 - 192) * 64 + (b1 - 128), [b0; b1]) :: chunks t1
          else (rune_error, [b0]) :: chunks t
      | 3%nat, b1 :: (b2 :: t2) =>
          if second_ok b0 b1 && cont b2
          then ((b0 - 224) * 4096 + (b1 - 128) * 64 + (b2 - 128), [b0; b1; b2]) :: chunks t2
          else (rune_error, [b0]) :: chunks t
      | 4%nat, b1 :: (b2 :: (b3 :: t3)) =>
          if second_ok b0 b1 && cont b2 && cont b3
          then ((b0 - 240) * 262144 + (b1 - 128) * 4096 + (b2 - 128) * 64 + (b3 - 128), [b0; b1; b2; b3]) :: chunks t3
          else (rune_error, [b0]) :: chunks t
      | _, _ => (rune_error, [b0]) :: chunks t
      end
  end.

Definition runes (l : bytes) : list N := map fst (chunks l).
Definition rune_count (l : bytes) : nat := length (chunks l).

(* UTF-8 encoding of one rune (utf8.AppendRune / WriteRune); surrogates and
   out-of-range values become U+FFFD *)
Definition encode_rune (r : N) : bytes :=
  if r <? 128 then [r]
  else if r <? 2048 then [192 + r / 64; 128 + r mod 64]
  else if (55296 <=? r) && (r <=? 57343) then [239; 191; 189]
  else if r <? 65536 then [224 + r / 4096; 128 + (r / 64) mod 64; 128 + r mod 64]
  else if r <? 1114112 then [240 + r / 262144; 128 + (r / 4096) mod 64; 128 + (r / 64) mod 64; 128 + r mod 64]
  else [239; 191; 189].

Definition encode (rs : list N) : bytes := flat_map encode_rune rs.

(* Byte strings: Go's [string] is modelled as [list N] with every element < 256. *)
From Coq Require Export List NArith ZArith Arith Bool Lia.
Export ListNotations.

Definition byte := N.
Definition bytes := list N.

Definition sp : N := 32%N.    (* ' ' *)
Definition star : N := 42%N.  (* '*' *)
Definition nine : N := 57%N.  (* '9' *)
Definition zero : N := 48%N.  (* '0' *)

Definition is_byte (b : N) : bool := (b <? 256)%N.
Definition all_bytes (l : bytes) : bool := forallb is_byte l.

Fixpoint bytes_eqb (a b : bytes) : bool :=
  match a, b with
  | [], [] => true
  | x :: a', y :: b' => (x =? y)%N && bytes_eqb a' b'
  | _, _ => false
  end.

Lemma bytes_eqb_eq a b : bytes_eqb a b = true <-> a = b.
Proof.
  revert b; induction a as [|x a IH]; intros [|y b]; cbn; split; intros H; try easy.
  - apply andb_prop in H as [H1 H2]. apply N.eqb_eq in H1. apply IH in H2. now subst.
  - injection H as -> ->. rewrite N.eqb_refl. cbn. now apply IH.
Qed.

(* prefix / contiguous-substring tests (strings.Contains) *)
Fixpoint is_prefix (p l : bytes) : bool :=
  match p, l with
  | [], _ => true
  | x :: p', y :: l' => (x =? y)%N && is_prefix p' l'
  | _ :: _, [] => false
  end.

Fixpoint contains (l p : bytes) : bool :=
  is_prefix p l || match l with [] => false | _ :: l' => contains l' p end.

Definition substring (p l : bytes) : Prop := exists pre post, l = pre ++ p ++ post.

Lemma is_prefix_spec p l : is_prefix p l = true <-> exists post, l = p ++ post.
Proof.
  revert l; induction p as [|x p IH]; intros l; cbn.
  - split; [intros _; now exists l | easy].
  - destruct l as [|y l]; [split; [easy | intros [post H]; discriminate]|].
    split.
    + intros H. apply andb_prop in H as [H1 H2]. apply N.eqb_eq in H1. subst y.
      apply IH in H2 as [post ->]. now exists post.
    + intros [post H]. injection H as -> ->. rewrite N.eqb_refl. cbn. apply IH. now exists post.
Qed.

Lemma contains_spec l p : contains l p = true <-> substring p l.
Proof.
  induction l as [|y l IH]; cbn.
  - rewrite orb_false_r, is_prefix_spec. split.
    + intros [post H]. exists [], post. exact H.
    + intros (pre & post & H). destruct pre; cbn in H; [now exists post|discriminate].
  - rewrite orb_true_iff, is_prefix_spec, IH. split.
    + intros [[post H] | (pre & post & H)].
      * exists [], post. exact H.
      * exists (y :: pre), post. cbn. now rewrite H.
    + intros (pre & post & H). destruct pre as [|z pre]; cbn in H.
      * left. now exists post.
      * right. injection H as -> ->. now exists pre, post.
Qed.

(* join with a single-byte separator (strings.Join(xs, " ")) *)
Fixpoint join (sep : bytes) (xs : list bytes) : bytes :=
  match xs with
  | [] => []
  | [x] => x
  | x :: rest => x ++ sep ++ join sep rest
  end.

(* Never-failing diagnostics for the record layouts: prints, per record, the
   verdict of the checker, its components and the lossy fields. *)
From Coq Require Import String List NArith.
From ACH Require Import LayoutOk Layouts.
Import ListNotations.

Definition diag_components (L : layout) :=
  ( is_irune (l_ix L),
    match cols L with Some cs => Some (total_width cs) | None => None end,
    match cols L with
    | Some cs => map c_field (filter (fun c => if is_real c && negb (String.eqb (c_field c) "") then negb (is_some (aligned cs c)) else false) (l_cuts L))
    | None => [] end,
    forallb lit_ok (l_segs L),
    forallb (fun c => conv_ok (c_conv c)) (l_cuts L),
    ordered_from 0 (l_cuts L),
    nodupb (flat_map cut_keys (l_cuts L)),
    nodupb (flat_map seg_keys (l_segs L)) ).

Eval vm_compute in map (fun L => (l_name L, layout_ok L, lossy_fields L)) all_layouts.
(* (isIRune, total width, misaligned cut fields, literals ok, conversions known, cuts ordered, cut keys unique, segment fields unique) *)
Eval vm_compute in map (fun L => (l_name L, diag_components L)) (filter (fun L => negb (layout_ok L)) all_layouts).
Eval vm_compute in (length all_layouts, forallb layout_ok all_layouts).

(* Reflection obligations for C15: boolean checkers evaluated on the table
   regenerated from the current source (Gen/OptUses.v), and the instances of
   the generic theorems for it. *)
From Coq Require Import String List Bool.
Import ListNotations.
From ACH Require Import OptMono OptMonoFacts OptUsesTable OptTree OptTreeFacts OptUses.

(* ValidateOpts has exactly the fields the model classifies *)
Lemma opt_fields_ok : fields_ok validate_opts_fields = true.
Proof. vm_compute. reflexivity. Qed.

(* every use of a relaxation flag in the source is a relaxing guard that is a guard
   site of the model, or lies in a non-validation function; every guard site of the
   model is in the source *)
Lemma opt_uses_ok : uses_ok opt_uses model_sites = true.
Proof. vm_compute. reflexivity. Qed.

Lemma opt_others_ok : others_ok opt_uses = true.
Proof. vm_compute. reflexivity. Qed.

Lemma opt_flags_covered : flags_covered opt_uses = true.
Proof. vm_compute. reflexivity. Qed.

Lemma opt_merge_ok : merge_ok validate_opts_fields merge_or_fields = true.
Proof. vm_compute. reflexivity. Qed.

Lemma guard_sites_ok :
  (forall u f, In u opt_uses -> flag_of_name (u_flag u) = Some f ->
     (u_kind u = URelax /\ In (mksite (u_func u) f (u_occ u)) model_sites)
     \/ In (u_func u) nonvalidation_funcs)
  /\ (forall s, In s model_sites -> exists u, In u opt_uses /\ u_kind u = URelax /\ u_func u = s_func s
                                       /\ u_flag u = flag_name (s_flag s) /\ u_occ u = s_occ s).
Proof. apply uses_sound, opt_uses_ok. Qed.

(* the model's guard sites are those of the trees, whatever the data *)
Lemma model_sites_all D : model_sites_of D = model_sites.
Proof. apply model_sites_static. Qed.

(* what a table with an inverted guard looks like to the checker *)
Example inverted_guard_rejected :
  uses_ok [mkuse "EntryDetail.Validate" "AllowInvalidCheckDigit" 1 UTighten] [] = false.
Proof. vm_compute. reflexivity. Qed.

Example early_return_in_parser_rejected :
  use_ok model_sites (mkuse "Reader.parseBatchControl" "UnequalAddendaCounts" 1 UEffect) = false.
Proof. vm_compute. reflexivity. Qed.

(* C01 obligations that do not depend on the layout proofs: non-vacuity of the framing theorems. *)
From ACH Require Import Framing FramingFacts.
From Coq Require Import List NArith Lia.
Import ListNotations.
Open Scope N_scope.

Definition ex_rec (c : N) : list char := repeat [c] 94.

Lemma ex_rec_ok : rec_ok (ex_rec 65, [JNl CR; JNl LF; JBlank 3 LF]).
Proof.
  unfold rec_ok. cbn [fst snd]. split; [|split].
  - split; [reflexivity|]. apply Forall_forall. intros x Hx. apply repeat_spec in Hx. now subst.
  - vm_compute. reflexivity.
  - repeat constructor; cbn; lia.
Qed.

(* the same two records as CR LF + blank-line text and as one unbroken stream are framed identically *)
Lemma ex_layouts_agree :
  map snd (frame (layout_text [(ex_rec 65, [JNl CR; JNl LF; JBlank 3 LF]); (ex_rec 66, [JNl LF])]) [] 0 0)
  = map snd (frame (layout_text [(ex_rec 65, []); (ex_rec 66, [])]) [] 0 0)
  /\ length (frame (layout_text [(ex_rec 65, []); (ex_rec 66, [])]) [] 0 0) = 2%nat.
Proof. vm_compute. split; reflexivity. Qed.

(* C17, phase 2 — obligations: the concrete interpretation at the regenerated offset table,
   non-vacuity examples and the _refuted witnesses behind the known findings
   server:{contents,flatten,segment,failed-balance}-alters-stored-file and
   server:balance-overwrites-id. *)
From Coq Require Import List ZArith NArith Bool Lia.
Import ListNotations.
From ACH Require Import Server ServerFacts ServerLib ServerLibFacts.
From ACH Require Offsets OffsetsFacts OffsetTable C05Obl Purity PurityFacts.

Notation T := OffsetTable.offset_table.

(* ---------------------------------------------------------------- lemmas in the form the Props file states *)

Lemma readonly_calls_fixed ops v : created v -> fold_left (fun w o => lop o w) ops v = v.
Proof. intro C. apply lops_fixed, created_prefix_inv, C. Qed.

Lemma create_result_pure w v : lcreate w = (SOk, v) -> Purity.prefix_inv (lf_pur v) = true.
Proof. intro H. apply created_prefix_inv, (create_ok_created w v H). Qed.

Lemma reads_preserve_store L rs m j v :
  forallb plainread rs = true -> vold m j -> vshows m j = Some v -> created v ->
  vshows (vrun T L m rs) j = Some v.
Proof. apply vrun_plainread_preserves. Qed.

Lemma reads_preserve_store_built L rs m j v :
  forallb readonly rs = true -> vold m j -> vshows m j = Some v -> built L v ->
  vshows (vrun T L m rs) j = Some v.
Proof. intros RO O S [C [TR [NA NR]]]. now apply vrun_read_preserves_built. Qed.

Lemma unchanged_if_built L rs m j v :
  forallb readonly rs = true -> mold m j -> lib_shows T L m j = Some v -> built L v ->
  lib_shows T L (fst (grun false m rs)) j = Some v.
Proof. apply term_read_run_preserves_built. Qed.

Lemma balance_build_returns o b : exists ok b', Offsets.build T (with_offcfg b o) = Offsets.Ret ok b'.
Proof. apply bal_build_returns, C05Obl.offset_table_good. Qed.

(* ---------------------------------------------------------------- a small library of concrete values *)

Open Scope Z_scope.

Definition odfi0 : Z := 12345678.
Definition ent (code amt trace : Z) : Offsets.entry := Offsets.mkentry code amt false trace 0 23138010.

Definition bat1 (svc num : Z) (es : list Offsets.entry) : Offsets.batch :=
  Offsets.mkbatch true odfi0 svc num es
    (Offsets.mkctl svc num (Offsets.count es) (Offsets.hash es) (Offsets.credits T es) (Offsets.debits T es)) None.

Definition file_of (bs : list Offsets.batch) : Offsets.file := Offsets.mkfile true bs (Offsets.file_control bs).

Definition ppd : Purity.bat := Purity.mkbat (Some [80; 80; 68]%N) true.

(* one PPD batch, two entries carrying the ODFI in their trace numbers: what Batch.Create leaves *)
Definition v_built : lfile :=
  mklf (Client 1) co_nil
       (file_of [bat1 200 1 [ent 22 100 123456780000001; ent 27 100 123456780000002]]) [ppd].

(* the same file with trace numbers not yet assigned (a file posted as JSON without them, or
   read from text with foreign trace numbers): File.Create does not look at entries *)
Definition v_untraced : lfile :=
  mklf (Client 1) co_nil (file_of [bat1 200 1 [ent 22 100 0; ent 27 100 0]]) [ppd].

(* a batch was added since the last Create: the file control is stale *)
Definition v_stale : lfile :=
  mklf (Client 1) co_nil
       (Offsets.mkfile true [bat1 200 1 [ent 22 100 123456780000001]; bat1 220 0 [ent 22 5 123456780000001]]
                       (Offsets.file_control [bat1 200 1 [ent 22 100 123456780000001]]))
       [ppd; ppd].

Definition vf_ok : Purity.vflags := Purity.mkv false false true true.

Definition touch_all (reset : bool) : touch := mktouch (fun _ _ => true) (fun _ => reset) (fun _ j => Z.of_nat j + 1).
Definition share_none : share := mkshare (fun _ => None) (fun _ _ => false) (fun _ => true).

(* the consolidated / segmented batches reach every entry; [reset]: the batches are mixed IAT batches *)
Definition lab (reset : bool) : labels :=
  mklab (fun _ _ _ => v_built) (fun _ _ => v_built) (fun _ _ => vf_ok) (fun _ => vf_ok) (fun _ => vf_ok)
        (fun _ => touch_all false) (fun _ => touch_all reset) (fun _ => share_none)
        (fun v _ => v) (fun v _ => v) (fun v i => lsetid v i) (fun v i => lsetid v i) (fun v i => lsetid v i)
        (fun _ => Offsets.mkoff true Offsets.Checking 12345678) (fun _ _ => true).

Definition traces (v : lfile) : list (list Z) :=
  map (fun b => map Offsets.e_trace (Offsets.b_entries b)) (Offsets.f_batches (lf_off v)).

(* ---------------------------------------------------------------- non-vacuity *)

Lemma v_built_created : created v_built.
Proof. vm_compute. reflexivity. Qed.

Lemma v_built_built : built (lab false) v_built.
Proof. split; [exact v_built_created|]. repeat split; try (vm_compute; reflexivity). Qed.

Lemma v_untraced_created : created v_untraced /\ traced v_untraced = false.
Proof. split; vm_compute; reflexivity. Qed.

(* a history of every read request on a store that holds the built file *)
Open Scope N_scope.
Definition read_history : list request :=
  [RGet (Client 1); RList; RContents (Client 1) LF; RValidate (Client 1) 0; RBuild (Client 1);
   RGetBatch (Client 1) 0; RListBatches (Client 1); RFlatten (Client 1) true; RSegment (Client 1) true true true;
   RSegmentBody Text 0 true true false; RContents (Client 1) CRLF; RGet (Client 1)].

Lemma read_history_example :
  forallb readonly read_history = true /\
  vshows (vrun T (lab false) (VState [(Client 1, v_built)] 0%N) read_history) (Client 1) = Some v_built /\
  vnid (vrun T (lab false) (VState [(Client 1, v_built)] 0%N) read_history) = 4%N.
Proof. vm_compute. repeat split; reflexivity. Qed.
Open Scope Z_scope.

(* ---------------------------------------------------------------- the findings, in the model *)

(* server:contents-alters-stored-file — GET contents on a stored file that is not a fixed
   point of Create: the stored object is re-tabulated (batch number and file control) *)
Lemma contents_untabulated_changes :
  ~ created v_stale /\
  Offsets.fc_batches (Offsets.f_ctl (lf_off v_stale)) = 1 /\
  Offsets.fc_batches (Offsets.f_ctl (lf_off (lcontents (fun _ => vf_ok) v_stale))) = 2 /\
  map Offsets.b_num (Offsets.f_batches (lf_off (lcontents (fun _ => vf_ok) v_stale))) = [1; 2].
Proof. split; [vm_compute; discriminate|]. vm_compute. repeat split; reflexivity. Qed.

(* server:flatten-alters-stored-file — on the code as it is now (the consolidated batch has
   its own header): a stored file that IS a fixed point of File.Create still changes, through
   the entry pointers it shares with the consolidated batch *)
Lemma flatten_tabulated_changes :
  created v_untraced /\
  traces v_untraced = [[0; 0]] /\
  traces (lflatsrc (lab false) v_untraced) = [[123456780000001; 123456780000002]] /\
  Offsets.f_ctl (lf_off (lflatsrc (lab false) v_untraced)) = Offsets.f_ctl (lf_off v_untraced).
Proof. split; [vm_compute; reflexivity|]. vm_compute. repeat split; reflexivity. Qed.

(* server:segment-alters-stored-file — the same through the halves' batches ... *)
Lemma segment_tabulated_changes :
  created v_untraced /\
  traces (lsegsrc (lab false) v_untraced) = [[123456780000001; 123456780000002]].
Proof. split; vm_compute; reflexivity. Qed.

(* ... and for a mixed IAT batch even when every entry carried the ODFI: TraceNumber = "" comes
   first, the new numbers count positions in the half (here both entries in one half) *)
Definition v_built_gap : lfile :=
  mklf (Client 1) co_nil
       (file_of [bat1 200 1 [ent 22 100 123456780000005; ent 27 100 123456780000009]]) [ppd].

Lemma segment_iat_reset_changes :
  created v_built_gap /\ traced v_built_gap = true /\
  traces (lsegsrc (lab true) v_built_gap) = [[123456780000001; 123456780000002]] /\
  lflatsrc (lab true) v_built_gap = v_built_gap.
Proof. split; [vm_compute; reflexivity|]. vm_compute. repeat split; reflexivity. Qed.

(* server:balance-overwrites-id — the stored object itself carries the new ID, the offset
   entries and the mixed service class afterwards *)
Lemma balance_changes_stored :
  created v_built /\
  let v' := lbal T (lab false) v_built 0%N (Gen 7) in
  lf_id v' = Gen 7 /\
  map Offsets.b_svc (Offsets.f_batches (lf_off v')) = [200] /\
  map (fun b => length (Offsets.b_entries b)) (Offsets.f_batches (lf_off v_built)) = [2%nat] /\
  map (fun b => length (Offsets.b_entries b)) (Offsets.f_batches (lf_off v')) = [4%nat].
Proof. split; [exact v_built_created|]. vm_compute. repeat split; reflexivity. Qed.

(* one-sided file: the offset entry is appended to the stored object *)
Definition v_credit_only : lfile :=
  mklf (Client 1) co_nil (file_of [bat1 220 1 [ent 22 100 123456780000001]]) [ppd].

Lemma balance_appends_offset :
  created v_credit_only /\
  let v' := lbal T (lab false) v_credit_only 0%N (Gen 7) in
  lf_id v' = Gen 7 /\
  map (fun b => map Offsets.e_off (Offsets.b_entries b)) (Offsets.f_batches (lf_off v')) = [[false; true]] /\
  map Offsets.b_svc (Offsets.f_batches (lf_off v')) = [200].
Proof. split; [vm_compute; reflexivity|]. vm_compute. repeat split; reflexivity. Qed.

(* server:failed-balance-alters-stored-file — the second batch's build fails (header does
   not validate): the first batch is already balanced, the ID is still the old one *)
Definition bad_batch : Offsets.batch :=
  Offsets.mkbatch false odfi0 220 2 [ent 22 7 123456780000001]
    (Offsets.mkctl 220 2 1 23138010 7 0) None.

Definition v_second_bad : lfile :=
  mklf (Client 1) co_nil (file_of [bat1 220 1 [ent 22 100 123456780000001]; bad_batch]) [ppd; ppd].

Lemma failed_balance_changes_stored :
  created v_second_bad /\
  let v' := lbal T (lab false) v_second_bad 0%N (Gen 7) in
  lf_id v' = Client 1 /\
  map (fun b => length (Offsets.b_entries b)) (Offsets.f_batches (lf_off v')) = [2%nat; 1%nat] /\
  v' <> v_second_bad.
Proof.
  split; [vm_compute; reflexivity|]. cbv zeta. split; [vm_compute; reflexivity|].
  split; [vm_compute; reflexivity|]. intro H. apply (f_equal traces) in H. vm_compute in H. discriminate.
Qed.

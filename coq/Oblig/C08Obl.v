(* Obligations for C08/C09: concrete evaluations of the merge model (non-vacuity:
   the model splits, collides and merges on small inputs) and the reflection
   obligations over the tables regenerated from merge.go / batchHeader.go. *)
From Coq Require Import List NArith ZArith Bool Lia Permutation.
From ACH Require Import Bytes Merge MergeFacts.
Import ListNotations.
Open Scope Z_scope.

(* a small concrete input: two files of the same routing pair with Equal headers
   (names differ in case only), one colliding trace, and a file of another pair *)
Definition ex_h1 : header := mkHeader 200 [65; 99; 109; 101]%N [49]%N [80; 80; 68]%N [80]%N [49; 57]%N [49; 50]%N 1.
Definition ex_h2 : header := mkHeader 200 [65; 67; 77; 69]%N [49]%N [80; 80; 68]%N [80]%N [49; 57]%N [49; 50]%N 2.
Definition ex_e (t : N) (a : Z) (n : Z) (i : N) : entry := mkEntry [49; 50; t]%N a n i.
Definition ex_f1 : ifile := mkIFile [49]%N [50]%N 1 [mkIBatch ex_h1 [ex_e 49 100 0 1; ex_e 50 200 1 2]].
Definition ex_f2 : ifile := mkIFile [49]%N [50]%N 2 [mkIBatch ex_h2 [ex_e 50 300 0 3; ex_e 51 400 2 4]].
Definition ex_f3 : ifile := mkIFile [49]%N [51]%N 3 [mkIBatch ex_h1 [ex_e 49 500 0 5]].
Definition ex_files : list ifile := [ex_f1; ex_f2; ex_f3].

Definition shape (gs : list rfile) : list (list (Z * list N)) :=
  map (fun g => map (fun rb => (rb_number rb, map e_id (rb_entries rb))) (rf_batches g)) gs.

(* no limit: one file per routing pair; the colliding trace (entry 3) gets its own batch *)
Lemma ex_unlimited :
  shape (merge_files ex_files (mkConds 0 0)) = [[(1, [1; 2; 4]%N); (2, [3]%N)]; [(3, [5]%N)]].
Proof. vm_compute. reflexivity. Qed.

(* 2 + (2 + 1 + 2 + 3) + (2 + 1) = 13 records in the first file *)
Lemma ex_unlimited_lines : map file_lines (merge_files ex_files (mkConds 0 0)) = [13; 5].
Proof. vm_compute. reflexivity. Qed.

(* MaxLines 9: entry 4 (3 records) does not fit after entries 1,2 -> overflow inside the batch;
   then the header of the next batch alone makes entry 3 overflow: the batch number (3) created
   at the top of the loop is skipped *)
Lemma ex_lines_9 :
  shape (merge_files ex_files (mkConds 9 0)) = [[(1, [1; 2]%N)]; [(2, [4]%N)]; [(4, [3]%N)]; [(5, [5]%N)]].
Proof. vm_compute. reflexivity. Qed.

(* MaxLines 10: 2 + 2 + 1 + 2 + 3 = 10 fits exactly *)
Lemma ex_lines_10 :
  shape (merge_files ex_files (mkConds 10 0)) = [[(1, [1; 2; 4]%N)]; [(3, [3]%N)]; [(4, [5]%N)]].
Proof. vm_compute. reflexivity. Qed.

(* MaxDollarAmount 300: 100+200 fit exactly; 400 and 500 alone exceed the cap and are emitted alone *)
Lemma ex_dollar_300 :
  shape (merge_files ex_files (mkConds 0 300)) = [[(1, [1; 2]%N)]; [(2, [4]%N)]; [(4, [3]%N)]; [(6, [5]%N)]].
Proof. vm_compute. reflexivity. Qed.

Lemma ex_headers_equal : header_equal ex_h1 ex_h2 = true /\ h_rest ex_h1 <> h_rest ex_h2.
Proof. split; [vm_compute; reflexivity | cbn; lia]. Qed.

Lemma ex_conservation_instance :
  Permutation (ids_out (merge_files ex_files (mkConds 9 300))) (ids_in ex_files) /\ length (ids_in ex_files) = 5%nat.
Proof. split; [apply merge_conservation | reflexivity]. Qed.

(* ---------------------------------------------------------------- reflection over the regenerated tables *)
From ACH Require Import MergeTable MergeGen.

Lemma merge_equal_table_ok : equal_table_ok gen_equal_checks = true.
Proof. vm_compute. reflexivity. Qed.

(* BatchHeader.Equal as written in the current source, interpreted over the model header,
   is the model's header_equal -- hence equivalent to equality of the identity key *)
Lemma source_equal_is_model a b : eval_equal gen_equal_checks a b = header_equal a b.
Proof. apply equal_table_sound, merge_equal_table_ok. Qed.

Lemma source_equal_hkey a b : eval_equal gen_equal_checks a b = true <-> hkey a = hkey b.
Proof. rewrite source_equal_is_model. apply header_equal_hkey. Qed.

Lemma merge_literals_ok : literals_ok gen_newbatch_literals = true.
Proof. vm_compute. reflexivity. Qed.

Lemma merge_route_ok : route_ok gen_route_fields = true.
Proof. vm_compute. reflexivity. Qed.

Lemma merge_limits_ok : limits_ok gen_line_limit gen_dollar_limit = true.
Proof. vm_compute. reflexivity. Qed.

Lemma merge_clamps_ok : clamps_ok gen_limit_clamps = true.
Proof. vm_compute. reflexivity. Qed.

Lemma merge_lookup_ok : lookup_ok gen_add_calls gen_find_calls = true.
Proof. vm_compute. reflexivity. Qed.

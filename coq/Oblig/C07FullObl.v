(* C07 (phase 4) obligations: the regenerated defaults / options-flow / achcli tables (Gen/JsonDefaults.v), the file-level
   round trip on the current tables with the text, the options (file and header) and the offsets in the conclusion,
   ADV files included; non-vacuity witnesses and refuted statements. *)
From Coq Require Import String Ascii List Bool ZArith NArith Lia.
Import ListNotations.
From ACH Require Import Bytes JsonCodec JsonCodecFacts JsonSurvive JsonPostTable Layout LayoutOk FileStruct JsonFile JsonFileFacts JsonFileCurrent.
From ACH Require Import JsonTags JsonPost Offsets OffsetTable Layouts RecValid RecValidFacts RecRules C07Obl C07FileObl.
From ACH Require Import JsonDefaultsTable JsonDefaults JsonFull JsonFullFacts JsonKeepFacts.
Local Open Scope string_scope.
Local Open Scope list_scope.

(* ------------------------------------------------------------ (b) constructor defaults against omitempty *)

(* omitempty fields whose decode-time value is not the zero value, and why nothing is lost:
   - always_present: the regenerated rules of the record's Validate() reject an empty value (so omitempty never drops it);
   - unrendered_absent: Batch.ADVControl is absent (nil) only on batches that are not ADV, whose ADV control the writer
     does not write ([batch_lines_set_adv_plain]); on an ADV batch build() rebuilds it. *)
Definition always_present : list (string * string) := [ ("FileHeader", "FileIDModifier") ].
Definition unrendered_absent : list (string * string) := [ ("Batch", "ADVControl") ].

Lemma defaults_checked : defaults_ok json_structs T_File (always_present ++ unrendered_absent) json_ctor_values = true.
Proof. vm_compute. reflexivity. Qed.

(* both lists are needed, and they are excused fields of C07_tags_ok_partial *)
Lemma defaults_tight :
  defaults_ok json_structs T_File always_present json_ctor_values = false /\
  defaults_ok json_structs T_File unrendered_absent json_ctor_values = false /\
  forallb (fun p => inb p excused) (always_present ++ unrendered_absent) = true.
Proof. vm_compute. repeat split; reflexivity. Qed.

Definition rules_named (n : string) : rules :=
  match find (fun p => String.eqb (fst p) n) all_rules with Some p => snd p | None => [] end.

Lemma always_present_by_rules :
  forallb (fun p => reject_if_empty (rules_named (fst p)) (snd p)) always_present = true.
Proof. vm_compute. reflexivity. Qed.

(* a record the regenerated rules accept never has an always-present field dropped by omitempty *)
Lemma always_present_sound n f r :
  In (n, f) always_present -> rec_validb (rules_named n) r = true -> gets r f <> [].
Proof.
  intros Hin Hv. apply (reject_if_empty_sound (rules_named n) f r); [|exact Hv].
  pose proof always_present_by_rules as H. rewrite forallb_forall in H. exact (H (n, f) Hin).
Qed.

(* the structs the decoder starts from a non-zero value: each is the value of its New… constructor *)
Lemma decode_starts_are_ctors :
  forallb (start_is_ctor json_ctor_values) (decode_starts T_File (start T_File)) = true.
Proof. vm_compute. reflexivity. Qed.

(* every struct of the JSON form the decoder visits: whatever omitempty drops from a value whose always-present fields
   are not empty is already in the value the decoder starts from (Batch.ADVControl aside) *)
Lemma omit_lossless_current n fs cs vs :
  In (TStruct n fs, VRec cs) (decode_starts T_File (start T_File)) ->
  typed_fields fs vs = true ->
  present_nonempty n (always_present ++ unrendered_absent) fs vs = true ->
  omit_lossless fs cs vs = true /\ omit_fields_back fs (surv_fields fs cs vs) vs = true.
Proof.
  intros Hin Hv Hp.
  assert (Hok : forallb (fun p => inb p (always_present ++ unrendered_absent)) (omit_nonzero_fields n fs cs) = true).
  { pose proof defaults_checked as H. unfold defaults_ok in H. cbv zeta in H.
    apply andb_prop in H as [H _]. apply andb_prop in H as [H _].
    rewrite forallb_forall in H. exact (H _ Hin). }
  pose proof (omit_default_sound n _ fs cs vs Hok Hv Hp) as L.
  split; [exact L|]. now apply omit_fields_survive.
Qed.

(* the pattern a seeded change introduced (NewIATBatchHeader: OriginatorStatusCode 1 under omitempty): the checker rejects it *)
Definition T_default_demo : ty :=
  TStruct "demo" [ (mkF "Header" (Some "header") (Some "header") false (Some (VRec [VInt 1])) false,
                    TPtr (TStruct "demoHeader" [ (mkF "Status" (Some "status") (Some "status") true None false, TInt) ])) ].

Lemma default_demo_rejected :
  defaults_ok [("demoHeader", TStruct "demoHeader" [ (mkF "Status" (Some "status") (Some "status") true None false, TInt) ])]
              T_default_demo [] [("demoHeader", "NewDemoHeader", Some (VRec [VInt 1]))] = false
  /\ dec T_default_demo (start T_default_demo) (enc T_default_demo (VRec [VRec [VInt 0]])) = VRec [VRec [VInt 1]].
Proof. vm_compute. split; reflexivity. Qed.

(* ------------------------------------------------------------ (a) options on the file header *)

Lemma opts_flow_checked : opts_flow_ok json_opts_flow = true.
Proof. vm_compute. reflexivity. Qed.

(* the four header checks the round trip relies on are applied whatever the options are (top-level rejects of
   FileHeader.ValidateWith before the first option-dependent statement), and they are the regenerated core rules *)
Lemma header_core_checks :
  header_checks_ok json_opts_flow
    ["len(FileIDModifier) != 1"; "recordSize != ""094"""; "blockingFactor != ""10"""; "formatCode != ""1"""] = true /\
  len_pinned hdr_core_rules "FileIDModifier" = true /\
  pins hdr_core_rules "recordSize" (bstr "094") = true /\ pins hdr_core_rules "blockingFactor" (bstr "10") = true /\
  pins hdr_core_rules "formatCode" (bstr "1") = true.
Proof. vm_compute. repeat split; reflexivity. Qed.

(* the two accessors the option-aware header line models are the ones the layout table hashes (any edit of their bodies
   changes the hash, which breaks this and the layout obligations of C01) *)
Lemma header_accessors_pinned :
  existsb (fun s => match s with SCustom n h => String.eqb n "FileHeader.ImmediateDestinationField" && String.eqb h "f332511f84a1" | _ => false end) (l_segs L_FileHeader)
  && existsb (fun s => match s with SCustom n h => String.eqb n "FileHeader.ImmediateOriginField" && String.eqb h "1da7f3123d8e" | _ => false end) (l_segs L_FileHeader) = true.
Proof. vm_compute. reflexivity. Qed.

(* the header constants: every assignment in the package gives the field one literal, which is the decode-time value
   (so a header produced by NewFileHeader, Parse or the JSON decoder satisfies the kept conditions); three of the four
   are also pinned by the regenerated rules of FileHeader.Validate *)
Lemma header_constants :
  const_field json_opts_flow "priorityCode" (bstr "01") = true /\
  const_field json_opts_flow "recordSize" (bstr "094") = true /\
  const_field json_opts_flow "blockingFactor" (bstr "10") = true /\
  const_field json_opts_flow "formatCode" (bstr "1") = true /\
  pins V_FileHeader "recordSize" (bstr "094") = true /\ pins V_FileHeader "blockingFactor" (bstr "10") = true /\
  pins V_FileHeader "formatCode" (bstr "1") = true.
Proof. vm_compute. repeat split; reflexivity. Qed.

Lemma header_constants_decode_time :
  match field_default T_File "Header" with
  | VRec hs => map (fun f => match field_val (struct_fields T_FileHeader) hs f with Some (_, x) => x | None => VNil end)
                   ["priorityCode"; "recordSize"; "blockingFactor"; "formatCode"; "FileIDModifier"]
  | _ => []
  end = [VStr (bstr "01"); VStr (bstr "094"); VStr (bstr "10"); VStr (bstr "1"); VStr (bstr "A")].
Proof. vm_compute. reflexivity. Qed.

(* ------------------------------------------------------------ (c) achcli *)

Lemma cli_flow_checked : cli_flow_ok achcli_flow = true.
Proof. vm_compute. reflexivity. Qed.

(* without -skip-validation and -validate, achcli passes nil: the options stored in the document are used *)
Lemma achcli_keeps_stored fields doc : final_opts fields (achcli_passed false []) doc = doc.
Proof. reflexivity. Qed.

Lemma achcli_validate_replaces fields o doc : final_opts fields (achcli_passed false [o]) doc = [o].
Proof. reflexivity. Qed.

Lemma achcli_skip_replaces fields vfile doc : final_opts fields (achcli_passed true vfile) doc = [skip_all_opts].
Proof. reflexivity. Qed.

Lemma achcli_reformat_plain fhv bhv fv j : achcli_reformat fhv bhv fv false [] j = from_json fhv bhv fv [] j.
Proof. reflexivity. Qed.

(* the seeded change (return &opts instead of nil): an empty but non-nil set replaces the stored one *)
Lemma achcli_empty_set_loses_stored fields doc :
  doc <> [] -> forall empty, final_opts fields [empty] doc = [empty].
Proof. reflexivity. Qed.

(* ------------------------------------------------------------ the round trip on the current source *)

Lemma afc_layout_checked fhv bhv fv : afc_layout_ok all_layouts (env_cur fhv bhv fv) = true.
Proof. vm_compute. reflexivity. Qed.

Lemma write_of_lines_o a b : lines_full a = lines_full b -> write_full a = write_full b.
Proof. unfold write_full, write_o, lines_full. intros ->. reflexivity. Qed.

(* what comes back: the text under the header's own options, the options on the file and on its header, the offsets *)
Definition survives (f : rtree) (v : val) : Prop :=
  lines_full f = lines_full (tree_full v)
  /\ write_full f = write_full (tree_full v)
  /\ file_opts f = file_opts (tree_of_file v)
  /\ header_opts f = [file_opts (tree_of_file v)]
  /\ offsets_of f = offsets_of (tree_of_file v).

Theorem roundtrip_full fhv bhv fv v :
  typed T_File v = true ->
  keep_ok v = true ->
  in_domain v = true -> valid fhv bhv fv v = true -> tabulated fhv bhv fv v = true -> catx_clean v = true ->
  exists f, from_json fhv bhv fv [] (to_json v) = (if fv f then POk f else PInvalid f) /\ survives f v.
Proof.
  intros Hv Hk Hd Hval Htab Hc. pose proof (tree_roundtrip v Hv Hk) as R.
  assert (Hho : hdr_opts v = final_opts (pe_merge_fields (env_cur fhv bhv fv)) [] (kid (tree_of_file v) "validateOpts")).
  { unfold in_domain in Hd. cbv zeta in Hd. apply andb_prop in Hd as [Hd _]. apply andb_prop in Hd as [Hd _].
    apply trees_eqb_eq in Hd. exact Hd. }
  unfold from_json, post_cur. unfold tree_of_file in R at 1. rewrite R.
  destruct (is_adv_file (tree_of_file v)) eqn:Eadv.
  - pose proof (hyps_ready_adv fhv bhv fv v Eadv Hd Hval Htab Hc) as Hr.
    destruct (full_adv all_layouts (env_cur fhv bhv fv) [] (tree_of_file v) (hdr_opts v) (batch_adv_controls v) (file_adv_control v)
                       (afc_layout_checked fhv bhv fv) Hr Hho) as (f & Hp & H1 & H2 & H3 & H4).
    exists f. split; [exact Hp|]. unfold survives.
    split; [exact H1|]. split; [apply write_of_lines_o; exact H1|]. split; [exact H2|]. split; [exact H3 | exact H4].
  - pose proof (hyps_ready_plain fhv bhv fv v Eadv Hd Hval Htab Hc) as Hr.
    destruct (full_plain all_layouts (env_cur fhv bhv fv) [] (tree_of_file v) (hdr_opts v) (batch_adv_controls v) (file_adv_control v)
                         (fc_layout_checked fhv bhv fv) Hr Hho) as (f & Hp & H1 & H2 & H3 & H4).
    exists f. split; [exact Hp|]. unfold survives.
    split; [exact H1|]. split; [apply write_of_lines_o; exact H1|]. split; [exact H2|]. split; [exact H3 | exact H4].
Qed.

(* achcli -reformat ach on the JSON of such a file, run without -validate / -skip-validation, prints the text of the file *)
Corollary achcli_roundtrip fhv bhv fv v :
  typed T_File v = true -> keep_ok v = true ->
  in_domain v = true -> valid fhv bhv fv v = true -> tabulated fhv bhv fv v = true -> catx_clean v = true ->
  exists f, achcli_reformat fhv bhv fv false [] (to_json v) = (if fv f then POk f else PInvalid f) /\ survives f v.
Proof. exact (roundtrip_full fhv bhv fv v). Qed.

(* the statements of Props/C07Full.v in their final hypothesis order *)
Lemma omit_default_sound_full n present fs cs vs :
  forallb (fun p => inb p present) (omit_nonzero_fields n fs cs) = true ->
  typed_fields fs vs = true ->
  present_nonempty n present fs vs = true ->
  omit_lossless fs cs vs = true /\ omit_fields_back fs (surv_fields fs cs vs) vs = true.
Proof.
  intros H1 H2 H3. pose proof (omit_default_sound n present fs cs vs H1 H2 H3) as L.
  exact (conj L (omit_fields_survive fs cs vs H2 L)).
Qed.

Lemma roundtrip_stmt fhv bhv fv v :
  typed T_File v = true ->
  in_domain v = true -> valid fhv bhv fv v = true -> tabulated fhv bhv fv v = true ->
  keep_ok v = true -> catx_clean v = true ->
  exists f, from_json fhv bhv fv [] (to_json v) = (if fv f then POk f else PInvalid f)
            /\ lines_full f = lines_full (tree_full v)
            /\ write_full f = write_full (tree_full v)
            /\ file_opts f = file_opts (tree_of_file v)
            /\ header_opts f = [file_opts (tree_of_file v)]
            /\ offsets_of f = offsets_of (tree_of_file v).
Proof. intros Hv Hd Hval Ht Hk Hc. exact (roundtrip_full fhv bhv fv v Hv Hk Hd Hval Ht Hc). Qed.

Lemma achcli_roundtrip_stmt fhv bhv fv v :
  typed T_File v = true ->
  in_domain v = true -> valid fhv bhv fv v = true -> tabulated fhv bhv fv v = true ->
  keep_ok v = true -> catx_clean v = true ->
  exists f, achcli_reformat fhv bhv fv false [] (to_json v) = (if fv f then POk f else PInvalid f)
            /\ write_full f = write_full (tree_full v)
            /\ file_opts f = file_opts (tree_of_file v).
Proof.
  intros Hv Hd Hval Ht Hk Hc.
  destruct (roundtrip_full fhv bhv fv v Hv Hk Hd Hval Ht Hc) as (f & H1 & _ & H3 & H4 & _).
  exists f. exact (conj H1 (conj H3 H4)).
Qed.

Lemma defaults_stmt :
  defaults_ok json_structs T_File (always_present ++ unrendered_absent) json_ctor_values = true /\
  forallb (fun p => reject_if_empty (rules_named (fst p)) (snd p)) always_present = true /\
  (forall n f r, In (n, f) always_present -> rec_validb (rules_named n) r = true -> gets r f <> []) /\
  (forall layouts b c, hdr_is_adv b = false ->
     batch_lines layouts false (set_kid b "ADVControl" c) = batch_lines layouts false b).
Proof.
  exact (conj defaults_checked (conj always_present_by_rules (conj always_present_sound
         (fun layouts b c => batch_lines_set_adv_plain layouts b c)))).
Qed.

(* the final form: the kept excused fields are derived from validity, json_safe is exactly the known findings *)
Theorem roundtrip_final fhv bhv fv v :
  typed T_File v = true ->
  in_domain v = true -> valid fhv bhv fv v = true -> tabulated fhv bhv fv v = true -> json_safe v = true ->
  exists f, from_json fhv bhv fv [] (to_json v) = (if fv f then POk f else PInvalid f)
            /\ lines_full f = lines_full (tree_full v)
            /\ write_full f = write_full (tree_full v)
            /\ file_opts f = file_opts (tree_of_file v)
            /\ header_opts f = [file_opts (tree_of_file v)]
            /\ offsets_of f = offsets_of (tree_of_file v).
Proof.
  intros Hv Hd Hval Ht Hs. unfold json_safe in Hs. apply andb_prop in Hs as [Ha Hc].
  exact (roundtrip_full fhv bhv fv v Hv (keep_ok_of_valid fhv bhv fv v Hv Hd Hval Ha) Hd Hval Ht Hc).
Qed.

Lemma achcli_roundtrip_final fhv bhv fv v :
  typed T_File v = true ->
  in_domain v = true -> valid fhv bhv fv v = true -> tabulated fhv bhv fv v = true -> json_safe v = true ->
  exists f, achcli_reformat fhv bhv fv false [] (to_json v) = (if fv f then POk f else PInvalid f)
            /\ write_full f = write_full (tree_full v)
            /\ file_opts f = file_opts (tree_of_file v).
Proof.
  intros Hv Hd Hval Ht Hs.
  destruct (roundtrip_final fhv bhv fv v Hv Hd Hval Ht Hs) as (f & H1 & _ & H3 & H4 & _).
  exists f. exact (conj H1 (conj H3 H4)).
Qed.

(* without the Addenda98 condition the statement is false (known finding json:unexported:Addenda98.iatCorrectedData, struct level: C07_addenda98_iat_refuted) *)

(* ------------------------------------------------------------ every excused field of C07_tags_ok_partial is accounted for *)

(* implied by in_domain + valid (C07_keep_from_valid) *)
Definition valid_implied : list (string * string) :=
  [ ("FileHeader", "priorityCode"); ("FileHeader", "FileIDModifier"); ("FileHeader", "recordSize");
    ("FileHeader", "blockingFactor"); ("FileHeader", "formatCode") ].
Definition known_finding_fields : list (string * string) := [ ("Addenda98", "iatCorrectedData") ].

Definition layout_reads_field (p : string * string) : bool :=
  existsb (fun L => String.eqb (l_name L) (fst p) && existsb (String.eqb (snd p)) (layout_reads L)) all_layouts.

Lemma excused_accounted :
  (* the checker reports exactly the excused fields *)
  tags_ok excused T_File (start T_File) = true /\
  forallb (fun p => inb p (problems T_File (start T_File))) excused = true /\
  (* each is: outside the full tree (and then read by no record layout) | one of the three fields the full tree carries,
     which C07_roundtrip restores | implied by validity | the known finding *)
  forallb (fun p => inb p hid_full || inb p full_fields || inb p valid_implied || inb p known_finding_fields) excused = true /\
  forallb (fun p => negb (layout_reads_field p)) hid_full = true /\
  forallb (fun p => inb p keep_fields) (valid_implied ++ known_finding_fields) = true /\
  forallb (fun p => inb p (valid_implied ++ known_finding_fields)) keep_fields = true.
Proof. vm_compute. repeat split; reflexivity. Qed.

(* ------------------------------------------------------------ witnesses *)

Definition adv_witness : val :=
VRec [VStr [];
 VRec [VStr [];
 VStr [48; 49]%N;
 VStr [52; 57; 56; 49; 56; 53; 48; 53; 56]%N;
 VStr [57; 51; 49; 53; 57; 53; 53; 52; 50]%N;
 VStr [49; 57; 48; 56; 49; 57]%N;
 VStr [48; 48; 48; 48]%N;
 VStr [49]%N;
 VStr [48; 57; 52]%N;
 VStr [49; 48]%N;
 VStr [49]%N;
 VStr [63]%N;
 VStr [121; 53; 57; 34; 76; 48; 125]%N;
 VStr [];
 VInt (0);
 VRec [];
 VRec [];
 VNil];
 VArr [VRec [VStr [];
 VRec [VStr [];
 VInt (280);
 VStr [105; 32; 52; 55; 49; 81; 118]%N;
 VStr [];
 VStr [51; 57; 52; 56; 52; 55; 57; 56; 51; 49]%N;
 VStr [65; 68; 86]%N;
 VStr [83; 121; 32; 68; 106; 33]%N;
 VStr [];
 VStr [50; 50; 48; 49; 48; 49]%N;
 VStr [];
 VInt (0);
 VStr [55; 56; 50; 55; 52; 51; 53; 48]%N;
 VInt (1);
 VInt (0);
 VRec [];
 VRec [];
 VNil];
 VArr [];
 VRec [VStr [];
 VInt (200);
 VInt (0);
 VInt (1);
 VInt (0);
 VInt (0);
 VStr [];
 VStr [];
 VStr [];
 VInt (1);
 VInt (0);
 VRec [];
 VRec [];
 VNil];
 VArr [VRec [VStr [];
 VInt (88);
 VStr [53; 57; 49; 56; 51; 51; 52; 49]%N;
 VStr [52]%N;
 VStr [75; 68; 47; 51; 52; 75]%N;
 VInt (15176419856);
 VStr [51; 56; 56; 52; 55; 49; 55; 53; 57]%N;
 VStr [46; 89; 45; 78; 55]%N;
 VStr [82]%N;
 VStr [87; 78; 55; 116; 126; 89; 50; 48; 84; 50; 36; 121; 57]%N;
 VStr [];
 VInt (0);
 VStr [51; 53; 49; 50; 56; 49; 48; 56]%N;
 VInt (59);
 VInt (1);
 VNil;
 VStr [70; 111; 114; 119; 97; 114; 100]%N;
 VInt (0);
 VRec [];
 VRec [];
 VNil]];
 VRec [VStr [];
 VInt (280);
 VInt (1);
 VInt (59183341);
 VInt (15176419856);
 VInt (0);
 VStr [105; 32; 52; 55; 49; 81; 118]%N;
 VStr [55; 56; 50; 55; 52; 51; 53; 48]%N;
 VInt (1);
 VInt (0);
 VRec [];
 VRec [];
 VNil];
 VNil;
 VStr [70; 111; 114; 119; 97; 114; 100]%N;
 VRec [];
 VNil];
 VRec [VStr [];
 VRec [VStr [];
 VInt (280);
 VStr [56]%N;
 VStr [101; 95; 77]%N;
 VStr [71; 80; 47; 65; 77; 85; 55]%N;
 VStr [65; 68; 86]%N;
 VStr [55; 102; 32; 110; 103; 111; 48; 119; 50; 93]%N;
 VStr [50; 51; 48; 54; 51; 48]%N;
 VStr [50; 52; 48; 50; 50; 57]%N;
 VStr [];
 VInt (0);
 VStr [49; 50; 49; 53; 49; 53; 52; 48]%N;
 VInt (2);
 VInt (0);
 VRec [];
 VRec [];
 VNil];
 VArr [];
 VNil;
 VArr [VRec [VStr [];
 VInt (88);
 VStr [53; 49; 53; 57; 53; 49; 54; 50]%N;
 VStr [56]%N;
 VStr [71; 85; 45; 52; 46; 73; 88; 32; 69; 52; 32; 73; 45; 51; 90]%N;
 VInt (250000028);
 VStr [55; 54; 55; 54; 56; 49; 52; 52; 53]%N;
 VStr [];
 VStr [70]%N;
 VStr [74; 51; 104; 111; 89; 79; 119; 53; 52; 89; 35; 54; 86; 73; 32; 109; 39; 92; 102; 56; 116; 62]%N;
 VStr [72]%N;
 VInt (0);
 VStr [57; 50; 55; 49; 56; 49; 56; 48]%N;
 VInt (366);
 VInt (1);
 VNil;
 VStr [70; 111; 114; 119; 97; 114; 100]%N;
 VInt (0);
 VRec [];
 VRec [];
 VNil]];
 VRec [VStr [];
 VInt (280);
 VInt (1);
 VInt (51595162);
 VInt (250000028);
 VInt (0);
 VStr [56]%N;
 VStr [49; 50; 49; 53; 49; 53; 52; 48]%N;
 VInt (2);
 VInt (0);
 VRec [];
 VRec [];
 VNil];
 VNil;
 VStr [70; 111; 114; 119; 97; 114; 100]%N;
 VRec [];
 VNil]];
 VArr [];
 VRec [VStr [];
 VInt (0);
 VInt (0);
 VInt (0);
 VInt (0);
 VInt (0);
 VInt (0);
 VInt (0);
 VRec [];
 VRec []];
 VRec [VStr [];
 VInt (2);
 VInt (1);
 VInt (2);
 VInt (110778503);
 VInt (15426419884);
 VInt (0);
 VInt (0);
 VRec [];
 VRec []];
 VArr [];
 VArr [];
 VNil].

Definition bypass_witness : val :=
VRec [VStr [];
 VRec [VStr [];
 VStr [48; 49]%N;
 VStr [54; 56; 48; 49; 52; 55; 55; 49; 48]%N;
 VStr [49; 50; 51; 52; 53; 54; 55; 56; 57; 48]%N;
 VStr [49; 57; 48; 56; 49; 57]%N;
 VStr [49; 55; 52; 53]%N;
 VStr [83]%N;
 VStr [48; 57; 52]%N;
 VStr [49; 48]%N;
 VStr [49]%N;
 VStr [50]%N;
 VStr [49; 96; 89; 53; 64; 53; 88; 64; 36; 56; 56; 32; 48; 67; 50; 54; 75; 52; 51; 104]%N;
 VStr [76; 42; 85; 109; 52; 74; 49; 55]%N;
 VInt (0);
 VRec [];
 VRec [];
 VRec [VBool false;
 VBool false;
 VBool true;
 VBool false;
 VNil;
 VBool false;
 VBool false;
 VBool false;
 VBool false;
 VBool false;
 VBool false;
 VBool false;
 VBool false;
 VBool false;
 VBool false;
 VBool false;
 VBool false;
 VBool false;
 VBool false]];
 VArr [VRec [VStr [];
 VRec [VStr [];
 VInt (200);
 VStr [93; 32; 59; 66]%N;
 VStr [81; 85; 51; 54; 49; 125; 32; 96; 50; 112]%N;
 VStr [51; 55; 52; 53; 52; 54; 57; 53; 55; 49]%N;
 VStr [80; 80; 68]%N;
 VStr [54; 108; 54; 49; 105; 68; 97; 78; 121]%N;
 VStr [50; 50; 48; 49; 48; 49]%N;
 VStr [50; 53; 48; 49; 48; 50]%N;
 VStr [];
 VInt (1);
 VStr [49; 50; 50; 51; 48; 53; 53; 55]%N;
 VInt (1);
 VInt (0);
 VRec [];
 VRec [];
 VNil];
 VArr [VRec [VStr [];
 VInt (52);
 VStr [48; 51; 49; 55; 50; 55; 53; 52]%N;
 VStr [51]%N;
 VStr [84; 79; 57; 55; 55]%N;
 VInt (673);
 VStr [49; 75; 32; 69; 47; 46; 32; 78; 50]%N;
 VStr [53; 124; 104; 57; 100; 53; 43; 87; 122; 55; 54; 101; 57]%N;
 VStr [48; 76]%N;
 VInt (0);
 VStr [49; 50; 50; 51; 48; 53; 53; 55; 48; 48; 48; 48; 48; 48; 49]%N;
 VNil;
 VArr [];
 VNil;
 VNil;
 VNil;
 VNil;
 VNil;
 VStr [70; 111; 114; 119; 97; 114; 100]%N;
 VInt (0);
 VRec [];
 VRec [];
 VNil]];
 VRec [VStr [];
 VInt (200);
 VInt (1);
 VInt (3172754);
 VInt (0);
 VInt (673);
 VStr [51; 55; 52; 53; 52; 54; 57; 53; 55; 49]%N;
 VStr [];
 VStr [49; 50; 50; 51; 48; 53; 53; 55]%N;
 VInt (1);
 VInt (0);
 VRec [];
 VRec [];
 VNil];
 VArr [];
 VNil;
 VNil;
 VStr [70; 111; 114; 119; 97; 114; 100]%N;
 VRec [];
 VRec [VBool false;
 VBool false;
 VBool true;
 VBool false;
 VNil;
 VBool false;
 VBool false;
 VBool false;
 VBool false;
 VBool false;
 VBool false;
 VBool false;
 VBool false;
 VBool false;
 VBool false;
 VBool false;
 VBool false;
 VBool false;
 VBool false]]];
 VArr [];
 VRec [VStr [];
 VInt (1);
 VInt (1);
 VInt (1);
 VInt (3172754);
 VInt (0);
 VInt (673);
 VInt (0);
 VRec [];
 VRec []];
 VRec [VStr [];
 VInt (0);
 VInt (0);
 VInt (0);
 VInt (0);
 VInt (0);
 VInt (0);
 VInt (0);
 VRec [];
 VRec []];
 VArr [];
 VArr [];
 VRec [VBool false;
 VBool false;
 VBool true;
 VBool false;
 VNil;
 VBool false;
 VBool false;
 VBool false;
 VBool false;
 VBool false;
 VBool false;
 VBool false;
 VBool false;
 VBool false;
 VBool false;
 VBool false;
 VBool false;
 VBool false;
 VBool false]].

Definition headeronly_witness : val :=
VRec [VStr [];
 VRec [VStr [];
 VStr [48; 49]%N;
 VStr [54; 56; 48; 49; 52; 55; 55; 49; 48]%N;
 VStr [49; 50; 51; 52; 53; 54; 55; 56; 57; 48]%N;
 VStr [49; 57; 48; 56; 49; 57]%N;
 VStr [49; 55; 52; 53]%N;
 VStr [83]%N;
 VStr [48; 57; 52]%N;
 VStr [49; 48]%N;
 VStr [49]%N;
 VStr [50]%N;
 VStr [49; 96; 89; 53; 64; 53; 88; 64; 36; 56; 56; 32; 48; 67; 50; 54; 75; 52; 51; 104]%N;
 VStr [76; 42; 85; 109; 52; 74; 49; 55]%N;
 VInt (0);
 VRec [];
 VRec [];
 VRec [VBool false;
 VBool false;
 VBool true;
 VBool false;
 VNil;
 VBool false;
 VBool false;
 VBool false;
 VBool false;
 VBool false;
 VBool false;
 VBool false;
 VBool false;
 VBool false;
 VBool false;
 VBool false;
 VBool false;
 VBool false;
 VBool false]];
 VArr [VRec [VStr [];
 VRec [VStr [];
 VInt (200);
 VStr [93; 32; 59; 66]%N;
 VStr [81; 85; 51; 54; 49; 125; 32; 96; 50; 112]%N;
 VStr [51; 55; 52; 53; 52; 54; 57; 53; 55; 49]%N;
 VStr [80; 80; 68]%N;
 VStr [54; 108; 54; 49; 105; 68; 97; 78; 121]%N;
 VStr [50; 50; 48; 49; 48; 49]%N;
 VStr [50; 53; 48; 49; 48; 50]%N;
 VStr [];
 VInt (1);
 VStr [49; 50; 50; 51; 48; 53; 53; 55]%N;
 VInt (1);
 VInt (0);
 VRec [];
 VRec [];
 VNil];
 VArr [VRec [VStr [];
 VInt (52);
 VStr [48; 51; 49; 55; 50; 55; 53; 52]%N;
 VStr [51]%N;
 VStr [84; 79; 57; 55; 55]%N;
 VInt (673);
 VStr [49; 75; 32; 69; 47; 46; 32; 78; 50]%N;
 VStr [53; 124; 104; 57; 100; 53; 43; 87; 122; 55; 54; 101; 57]%N;
 VStr [48; 76]%N;
 VInt (0);
 VStr [49; 50; 50; 51; 48; 53; 53; 55; 48; 48; 48; 48; 48; 48; 49]%N;
 VNil;
 VArr [];
 VNil;
 VNil;
 VNil;
 VNil;
 VNil;
 VStr [70; 111; 114; 119; 97; 114; 100]%N;
 VInt (0);
 VRec [];
 VRec [];
 VNil]];
 VRec [VStr [];
 VInt (200);
 VInt (1);
 VInt (3172754);
 VInt (0);
 VInt (673);
 VStr [51; 55; 52; 53; 52; 54; 57; 53; 55; 49]%N;
 VStr [];
 VStr [49; 50; 50; 51; 48; 53; 53; 55]%N;
 VInt (1);
 VInt (0);
 VRec [];
 VRec [];
 VNil];
 VArr [];
 VNil;
 VNil;
 VStr [70; 111; 114; 119; 97; 114; 100]%N;
 VRec [];
 VNil]];
 VArr [];
 VRec [VStr [];
 VInt (1);
 VInt (1);
 VInt (1);
 VInt (3172754);
 VInt (0);
 VInt (673);
 VInt (0);
 VRec [];
 VRec []];
 VRec [VStr [];
 VInt (0);
 VInt (0);
 VInt (0);
 VInt (0);
 VInt (0);
 VInt (0);
 VInt (0);
 VRec [];
 VRec []];
 VArr [];
 VArr [];
 VNil].

Definition catxoffset_witness : val :=
VRec [VStr [];
 VRec [VStr [];
 VStr [48; 49]%N;
 VStr [49; 48; 52; 50; 56; 49; 54; 51; 49]%N;
 VStr [50; 53; 50; 55; 54; 49; 51; 57; 51]%N;
 VStr [50; 52; 48; 50; 50; 57]%N;
 VStr [49; 48; 53; 53]%N;
 VStr [73]%N;
 VStr [48; 57; 52]%N;
 VStr [49; 48]%N;
 VStr [49]%N;
 VStr [102; 123; 55; 55; 109; 111; 41; 61; 37; 49; 56; 59; 70; 87; 119; 70; 51; 70; 52; 44; 32; 121; 106]%N;
 VStr [74]%N;
 VStr [88; 54]%N;
 VInt (0);
 VRec [];
 VRec [];
 VNil];
 VArr [VRec [VStr [];
 VRec [VStr [];
 VInt (200);
 VStr [114; 55; 69; 70; 56; 48; 32; 32; 56; 62; 115; 39]%N;
 VStr [];
 VStr [54; 75]%N;
 VStr [67; 84; 88]%N;
 VStr [72]%N;
 VStr [50; 49; 49; 50; 51; 49]%N;
 VStr [50; 49; 49; 50; 51; 49]%N;
 VStr [];
 VInt (2);
 VStr [56; 52; 53; 50; 56; 52; 55; 50]%N;
 VInt (500);
 VInt (0);
 VRec [];
 VRec [];
 VNil];
 VArr [VRec [VStr [];
 VInt (37);
 VStr [56; 57; 55; 57; 49; 52; 54; 53]%N;
 VStr [53]%N;
 VStr [73; 55; 90; 65; 83; 86; 54; 77; 68; 49; 87; 55; 32; 48; 49; 89; 79]%N;
 VInt (3);
 VStr [68; 32; 76; 88; 50; 70; 80; 32; 48]%N;
 VStr [48; 48; 48; 52; 77; 49; 85; 48; 37; 32; 32; 32; 32; 32; 32; 32; 32; 32; 32; 32; 32; 32]%N;
 VStr [104]%N;
 VInt (1);
 VStr [56; 52; 53; 50; 56; 52; 55; 50; 48; 48; 48; 48; 48; 48; 49]%N;
 VNil;
 VArr [VRec [VStr [];
 VStr [48; 53]%N;
 VStr [101; 32; 105; 54; 32; 96; 100; 32; 32; 49; 38; 105; 110; 86; 32; 54; 32; 43; 32; 32; 104; 99; 51; 72; 76; 49; 51; 118; 54; 116; 107; 110; 86]%N;
 VInt (1);
 VInt (1);
 VInt (0);
 VRec [];
 VRec [];
 VNil];
 VRec [VStr [];
 VStr [48; 53]%N;
 VStr [61; 121; 118; 62; 79; 98; 32; 100; 56; 92; 32; 68; 53; 76; 32; 57; 122; 43; 104; 98; 78; 74]%N;
 VInt (2);
 VInt (1);
 VInt (0);
 VRec [];
 VRec [];
 VNil];
 VRec [VStr [];
 VStr [48; 53]%N;
 VStr [54; 51; 102; 122; 77; 52; 32; 76; 48; 80; 84; 126; 48; 112; 107; 99; 75; 46; 89; 32; 110; 75; 109; 78; 32; 102; 57; 98; 69; 53; 107; 57; 51; 32; 116; 67; 83; 55; 55; 113; 115; 32; 52; 122; 55; 38; 50; 80; 32; 32; 95; 71; 40; 98; 32; 107; 88; 39; 55; 52; 51; 48; 64; 71; 71; 118; 59; 52; 51; 96; 50; 119; 32; 83; 32; 53; 64; 97; 37; 109]%N;
 VInt (3);
 VInt (1);
 VInt (0);
 VRec [];
 VRec [];
 VNil];
 VRec [VStr [];
 VStr [48; 53]%N;
 VStr [72; 32; 82; 54; 55; 32; 35; 32; 124; 55; 73; 117; 79; 50; 51; 70; 122; 50; 110; 99; 118; 72; 100; 87; 48; 52; 55; 57; 53; 32; 102; 56; 85; 87; 40; 106]%N;
 VInt (4);
 VInt (1);
 VInt (0);
 VRec [];
 VRec [];
 VNil]];
 VNil;
 VNil;
 VNil;
 VNil;
 VNil;
 VStr [70; 111; 114; 119; 97; 114; 100]%N;
 VInt (0);
 VRec [];
 VRec [];
 VNil];
 VRec [VStr [];
 VInt (22);
 VStr [52; 55; 51; 51; 54; 55; 53; 53]%N;
 VStr [56]%N;
 VStr [52; 32; 51; 90; 51; 89]%N;
 VInt (3);
 VStr [];
 VStr [79; 70; 70; 83; 69; 84]%N;
 VStr [80]%N;
 VInt (0);
 VStr [56; 52; 53; 50; 56; 52; 55; 50; 48; 48; 48; 48; 48; 48; 50]%N;
 VNil;
 VArr [];
 VNil;
 VNil;
 VNil;
 VNil;
 VNil;
 VStr [70; 111; 114; 119; 97; 114; 100]%N;
 VInt (0);
 VRec [];
 VRec [];
 VNil]];
 VRec [VStr [];
 VInt (200);
 VInt (6);
 VInt (137128220);
 VInt (3);
 VInt (3);
 VStr [54; 75]%N;
 VStr [];
 VStr [56; 52; 53; 50; 56; 52; 55; 50]%N;
 VInt (500);
 VInt (0);
 VRec [];
 VRec [];
 VNil];
 VArr [];
 VNil;
 VRec [VStr [52; 55; 51; 51; 54; 55; 53; 53; 56]%N;
 VStr [52; 32; 51; 90; 51; 89]%N;
 VStr [99; 104; 101; 99; 107; 105; 110; 103]%N;
 VStr [80]%N];
 VStr [70; 111; 114; 119; 97; 114; 100]%N;
 VRec [];
 VNil]];
 VArr [];
 VRec [VStr [];
 VInt (1);
 VInt (1);
 VInt (6);
 VInt (137128220);
 VInt (3);
 VInt (3);
 VInt (0);
 VRec [];
 VRec []];
 VRec [VStr [];
 VInt (0);
 VInt (0);
 VInt (0);
 VInt (0);
 VInt (0);
 VInt (0);
 VInt (0);
 VRec [];
 VRec []];
 VArr [];
 VArr [];
 VNil].

Definition accept_all := full_env true.

(* the full tree built by attaching the three fields is the generic view with those fields visible (same text) *)
Example tree_full_is_view :
  lines_full (tree_full adv_witness) = lines_full (tree_full_view adv_witness) /\
  lines_full (tree_full bypass_witness) = lines_full (tree_full_view bypass_witness).
Proof. vm_compute. split; reflexivity. Qed.

(* non-vacuity: an ADV file (two batches) and a file with a 10-character origin under BypassOriginValidation satisfy
   every hypothesis, and the conclusion computes *)
Example adv_witness_ok :
  typed T_File adv_witness = true /\ keep_ok adv_witness = true /\ roundtrip_hyps true adv_witness = true /\
  is_adv_value adv_witness = true /\ length (lines_full (tree_full adv_witness)) = 8%nat /\
  match roundtrip_run true false [] adv_witness with
  | Some f => write_full f = write_full (tree_full adv_witness)
  | None => False
  end.
Proof. vm_compute. repeat split; reflexivity. Qed.

Example bypass_witness_ok :
  typed T_File bypass_witness = true /\ keep_ok bypass_witness = true /\ roundtrip_hyps true bypass_witness = true /\
  flag (file_opts (tree_of_file bypass_witness)) "BypassOriginValidation" = true /\
  match roundtrip_run true false [] bypass_witness with
  | Some f => write_full f = write_full (tree_full bypass_witness)
              /\ header_opts f = [file_opts (tree_of_file bypass_witness)]
              /\ write_full f <> write_cur f      (* the options on the header matter: rendered without them the line differs *)
  | None => False
  end.
Proof.
  split; [vm_compute; reflexivity|]. split; [vm_compute; reflexivity|]. split; [vm_compute; reflexivity|].
  split; [vm_compute; reflexivity|]. vm_compute. split; [reflexivity|]. split; [reflexivity|]. discriminate.
Qed.

(* refuted outside the domain: options stored on the header only (FileHeader.SetValidation, not File.SetValidation)
   are not part of the JSON form; the header line changes *)
Lemma header_only_opts_refuted :
  exists v, typed T_File v = true /\ keep_ok v = true /\
    valid (fun _ _ => true) (fun _ _ => true) (fun _ => true) v = true /\
    tabulated (fun _ _ => true) (fun _ _ => true) (fun _ => true) v = true /\ json_safe v = true /\
    in_domain v = false /\
    match roundtrip_run true false [] v with
    | Some f => lines_full f <> lines_full (tree_full v)
    | None => True
    end.
Proof.
  exists headeronly_witness. split; [vm_compute; reflexivity|]. split; [vm_compute; reflexivity|].
  split; [vm_compute; reflexivity|]. split; [vm_compute; reflexivity|]. split; [vm_compute; reflexivity|].
  split; [vm_compute; reflexivity|]. vm_compute. discriminate.
Qed.

(* refuted without the CTX/ATX condition, second form (known finding json:catx:offset-entry-repacked): the OFFSET entry
   of a balanced CTX batch is packed again *)
Lemma catx_offset_refuted :
  exists v, typed T_File v = true /\ keep_ok v = true /\ in_domain v = true /\
    valid (fun _ _ => true) (fun _ _ => true) (fun _ => true) v = true /\
    tabulated (fun _ _ => true) (fun _ _ => true) (fun _ => true) v = true /\ a98_clean v = true /\
    catx_clean v = false /\
    match roundtrip_run true false [] v with
    | Some f => lines_full f <> lines_full (tree_full v)
    | None => True
    end.
Proof.
  exists catxoffset_witness. split; [vm_compute; reflexivity|]. split; [vm_compute; reflexivity|].
  split; [vm_compute; reflexivity|]. split; [vm_compute; reflexivity|]. split; [vm_compute; reflexivity|].
  split; [vm_compute; reflexivity|]. split; [vm_compute; reflexivity|]. vm_compute. discriminate.
Qed.

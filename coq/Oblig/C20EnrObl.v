(* Obligations for the ENR / DNE payment-information path of C20 (phase 2):
   - the bodies of the four payment-information functions, regenerated from the
     Go source (Gen/PayShape.v) and run by the interpreter of Model/PayShapeTable.v,
     compute the model functions of Model/PaymentInfo.v for ALL inputs
     (symbolic evaluation of the regenerated syntax, then case analysis);
   - non-vacuity examples for the theorems of Props/C20Enr.v and the witnesses
     showing which hypotheses are necessary. *)
From Coq Require Import String List Lia ZifyBool.
From ACH Require Import Utf8 Utf8Facts Mask MaskFacts Fields PaymentInfo PaymentInfoFacts PayShapeTable PayShape.
Import ListNotations.

(* ---------- the regenerated source computes the model ---------- *)

Ltac sym_eval :=
  lazy -[trim fmt_s fields join rune_count skipn firstn length app itoa equal_fold_letter
         Nat.ltb Nat.leb Nat.sub Nat.eqb split_star trim_bslash atoi_opt dne_date nth_error
         maskName maskNumber alphaField].

Ltac split_matches :=
  repeat match goal with
         | |- context [match atoi_opt ?x with _ => _ end] => destruct (atoi_opt x) eqn:?
         | |- context [match dne_date ?x with _ => _ end] => destruct (dne_date x) eqn:?
         | |- context [if ?c then _ else _] => destruct c eqn:?
         end.

(* a leaf of the decision tree: either both sides are the same value, or the
   branch is a run-time panic of the Go code (slice out of range) whose
   condition contradicts the guards on the path *)
Ltac close_leaf :=
  first [ reflexivity
        | exfalso; lia
        | exfalso; match goal with H : context [rune_count ?n] |- _ => pose proof (rune_count_le n) end; lia ].

(* the structs have exactly the modelled fields: a String() cannot print a
   remembered copy of a value from a field the model does not know *)
Lemma gen_enr_struct_ok : gen_enr_struct = enr_struct_fields.
Proof. reflexivity. Qed.

Lemma gen_dne_struct_ok : gen_dne_struct = dne_struct_fields.
Proof. reflexivity. Qed.

(* ENRPaymentInformation.String: for every field content the regenerated body
   returns exactly [enr_string]; in particular it never panics (the byte slice
   IndividualName[15:] is guarded by the rune count) *)
Lemma gen_enr_string_ok i : run_func gen_enr_string (enr_rec i) [] = Some [VBy (enr_string i)].
Proof.
  destruct i as [tx rdfi chk acct ident name code].
  sym_eval. split_matches; close_leaf.
Qed.

Lemma gen_dne_string_ok i : run_func gen_dne_string (dne_rec i) [] = Some [VBy (dne_string i)].
Proof. destruct i as [d s a]. sym_eval. reflexivity. Qed.

Lemma gen_enr_parse_ok pri seq eseq :
  run_func gen_enr_parse VNil [addenda_rec pri seq eseq] = Some (enr_parse_result pri).
Proof.
  unfold enr_parse_result, parse_enr. sym_eval.
  destruct (split_star (trim_bslash pri)) as [|p0 [|p1 [|p2 [|p3 [|p4 [|p5 [|p6 [|p7 [|p8 r]]]]]]]]];
    cbn [length nth_error Nat.eqb]; try reflexivity.
  split_matches; reflexivity.
Qed.

Lemma gen_dne_parse_ok pri seq eseq :
  run_func gen_dne_parse VNil [addenda_rec pri seq eseq] = Some (dne_parse_result pri).
Proof.
  unfold dne_parse_result, parse_dne. sym_eval.
  destruct (split_star (trim_bslash pri)) as [|p0 [|p1 [|p2 [|p3 [|p4 [|p5 [|p6 r]]]]]]];
    cbn [length nth_error Nat.eqb]; try reflexivity.
  split_matches; reflexivity.
Qed.

(* describe.dumpAddenda05 with its callees: the regenerated body of dumpAddenda05,
   calling the regenerated bodies of the parse functions and of String(), writes
   - for every payment string, every flag set - the header line and the row whose
   first cell is the model's [describe_enr] / [describe_dne].  This is the whole
   pipeline parse -> mask the parsed fields -> String(), taken from the source of
   this run: masking AFTER String(), a dropped mask, a String() that reads
   something else all change the regenerated syntax and break this proof. *)
Definition pay_funcs : list (string * pfunc) :=
  [("ach.ParseENRPaymentInformation", gen_enr_parse); ("ach.ParseDNEPaymentInformation", gen_dne_parse);
   ("ENRPaymentInformation.String", gen_enr_string); ("DNEPaymentInformation.String", gen_dne_string)]%string.

Definition dump_args (batch : string) (names accts corr : bool) (pri seq eseq : bytes) : list pval :=
  [VTag "tabwriter.Writer"; VTag batch; addenda_rec pri seq eseq; opts_rec names accts corr]%string.

Lemma gen_dump_enr_ok names accts corr pri seq eseq :
  run_proc (ext_table pay_funcs) gen_dump_addenda05 (dump_args "BatchENR" names accts corr pri seq eseq)
  = Some [VBy (addenda05_lines (describe_enr names accts pri) seq eseq)].
Proof.
  unfold describe_enr, parse_enr, dump_args. sym_eval.
  destruct (split_star (trim_bslash pri)) as [|p0 [|p1 [|p2 [|p3 [|p4 [|p5 [|p6 [|p7 [|p8 r]]]]]]]]];
    cbn [length nth_error Nat.eqb]; try reflexivity.
  split_matches; close_leaf.
Qed.

Lemma gen_dump_dne_ok names accts corr pri seq eseq :
  run_proc (ext_table pay_funcs) gen_dump_addenda05 (dump_args "BatchDNE" names accts corr pri seq eseq)
  = Some [VBy (addenda05_lines (describe_dne names accts pri) seq eseq)].
Proof.
  unfold describe_dne, parse_dne, dump_args. sym_eval.
  destruct (split_star (trim_bslash pri)) as [|p0 [|p1 [|p2 [|p3 [|p4 [|p5 [|p6 r]]]]]]];
    cbn [length nth_error Nat.eqb]; try reflexivity.
  split_matches; close_leaf.
Qed.

(* any other batch type: the raw field (free text, not protected) *)
Lemma gen_dump_other_ok names accts corr pri seq eseq :
  run_proc (ext_table pay_funcs) gen_dump_addenda05 (dump_args "Batch" names accts corr pri seq eseq)
  = Some [VBy (addenda05_lines (alphaField pri 80) seq eseq)].
Proof. unfold dump_args. sym_eval. reflexivity. Qed.

(* the statement about the name, read off the regenerated source *)
Lemma gen_dump_enr_name_hidden pri i accts corr seq eseq w :
  parse_enr pri = Some i -> nospace w -> nostar w = true -> (3 <= length w)%nat ->
  exists cell,
    run_proc (ext_table pay_funcs) gen_dump_addenda05 (dump_args "BatchENR" true accts corr pri seq eseq)
      = Some [VBy (addenda05_lines cell seq eseq)] /\
    (substring w cell -> exists f, In f (enr_beside_name (mask_enr true accts i)) /\ substring w f).
Proof.
  intros Hp Hs Hst Hl. exists (describe_enr true accts pri). split; [apply gen_dump_enr_ok|].
  now apply enr_name_hidden.
Qed.

(* no other function of describe/file.go touches the payment-information
   functions or an Addenda05's payment related information (dumpAddenda17 prints
   the IAT Addenda17 field of the same name) *)
Lemma gen_dump_other_uses_ok :
  gen_dump_other_uses = ["dumpAddenda17:PaymentRelatedInformationField"]%string.
Proof. reflexivity. Qed.

(* ---------- non-vacuity ---------- *)

Definition bs := bytes_of_string.

(* consumer, both flags: the word JOHNATHAN of the parsed name is not shown *)
Definition ex_consumer : bytes := bs "22*12200004*3*123987654*777777777*DOE*JOHNATHAN*A\".

Example enr_name_hidden_example :
  exists i, parse_enr ex_consumer = Some i /\
    In (bs "JOHNATHAN") (fields (e_name i)) /\ noblank (bs "JOHNATHAN") = true /\
    nostar (bs "JOHNATHAN") = true /\
    describe_enr true true ex_consumer = bs "22*12200004*3******7654******7777*****JO********A\" /\
    contains (describe_enr true true ex_consumer) (bs "JOHNATHAN") = false /\
    contains (describe_enr false true ex_consumer) (bs "JOHNATHAN") = true.
Proof. eexists. repeat split; try reflexivity. vm_compute. tauto. Qed.

(* business, a multi-byte character in the first fifteen columns: the byte slice
   name[15:] of the MASKED name starts one byte early and repeats an asterisk *)
Definition ex_business : bytes :=
  (bs "27*12200004*3*0012345678*12-3456789*" ++ [195; 145]%N ++ bs "ANDU HOLDINGS A*ND SONS*B\")%list.

Example enr_business_example :
  exists i, parse_enr ex_business = Some i /\
    is_business (e_code i) = true /\ (15 < rune_count (e_name i))%nat /\
    In (bs "HOLDINGS") (fields (e_name i)) /\
    describe_enr true true ex_business
      = (bs "27*12200004*3*******5678*******6789*" ++ [195; 145]%N ++ bs "*** HO****** ***** SO**B\")%list /\
    contains (describe_enr true true ex_business) (bs "HOLDINGS") = false.
Proof. eexists. repeat split; try reflexivity. vm_compute. lia. vm_compute. tauto. Qed.

Example enr_numbers_hidden_example :
  exists i, parse_enr ex_consumer = Some i /\
    e_acct i = bs "123987654" /\ (5 <= count_sig (e_acct i))%nat /\ nostar (e_acct i) = true /\
    contains (describe_enr false true ex_consumer) (bs "123987654") = false /\
    contains (describe_enr false true ex_consumer) (bs "777777777") = false /\
    contains (describe_enr true false ex_consumer) (bs "123987654") = true.
Proof. eexists. repeat split; try reflexivity. vm_compute. lia. Qed.

Definition ex_dne : bytes := bs "DATE OF DEATH*010218*CUSTOMER SSN*123456789*AMOUNT*1.00\".

Example dne_ssn_hidden_example :
  exists i, parse_dne ex_dne = Some i /\
    d_ssn i = bs "123456789" /\ (5 <= count_sig (d_ssn i))%nat /\
    describe_dne false true ex_dne = bs "DATE OF DEATH*010218*CUSTOMER SSN******6789*AMOUNT*1.00\" /\
    describe_dne true false ex_dne = describe_dne false true ex_dne /\
    contains (describe_dne true false ex_dne) (bs "123456789") = false /\
    contains (describe_dne false false ex_dne) (bs "123456789") = true.
Proof. eexists. repeat split; try reflexivity. vm_compute. lia. Qed.

(* ---------- which hypotheses are necessary ---------- *)

(* [nostar w] in the statement about String(): a name that itself contains
   asterisks can be shown through the business branch - the word AB*B* of the
   name below is masked to AB***, the first part ends in AB (the two-byte
   character makes fifteen runes sixteen bytes), the second part starts at byte
   15 with B***, and the two are joined with '*'.  Not reachable through
   describe: the parsed name is cut out of a '*'-separated string
   ([parse_enr_nostar]). *)
Definition star_name : bytes := ([195; 169]%N ++ bs "xxxxxxxxxxxx AB*B*")%list.

Lemma enr_name_out_star_witness :
  In (bs "AB*B*") (fields star_name) /\ noblank (bs "AB*B*") = true /\
  nth 3 (bs "AB*B*") 0%N <> star /\ nostar (bs "AB*B*") = false /\
  contains (enr_name_out (maskName star_name) [66%N]) (bs "AB*B*") = true.
Proof. vm_compute. repeat split; try tauto; discriminate. Qed.

(* well-formedness: a value that does not parse (here: seven parts instead of
   eight) is printed as the raw field with nothing masked.  properties.jsonl
   restricts C20 to well-formed ENR / DNE payment information. *)
Definition ex_malformed : bytes := bs "22*12200004*3*123987654*777777777*DOE*A\".

Lemma enr_malformed_witness :
  enr_wellformed ex_malformed = false /\
  contains (describe_enr true true ex_malformed) (bs "123987654") = true.
Proof. vm_compute. split; reflexivity. Qed.

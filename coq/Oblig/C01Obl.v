(* Obligations of the codec properties C01/C02: the regenerated layout tables
   pass the boolean checker (by reflection); instantiations of the generic
   theorems of LayoutFacts.v follow below. *)
From Coq Require Import String List NArith ZArith Bool.
From ACH Require Import LayoutOk Layouts.
Import ListNotations.

Lemma all_layouts_ok : forallb layout_ok all_layouts = true.
Proof. vm_compute. reflexivity. Qed.

Lemma all_layouts_26 : length all_layouts = 26%nat.
Proof. reflexivity. Qed.

Lemma layout_ok_in L : In L all_layouts -> layout_ok L = true.
Proof. intros H. exact (proj1 (forallb_forall _ _) all_layouts_ok L H). Qed.

(* Obligations of the codec properties C01/C02: the regenerated layout tables
   pass the boolean checker (by reflection), hence the generic theorems of
   LayoutFacts.v hold for each of the 26 record types. *)
From Coq Require Import String List NArith ZArith Bool.
From ACH Require Import LayoutOk FieldsFacts LayoutFacts LayoutRoundtrip Layouts.
Import ListNotations.
Local Open Scope string_scope.

Lemma all_layouts_ok : forallb layout_ok all_layouts = true.
Proof. vm_compute. reflexivity. Qed.

Lemma all_layouts_26 : length all_layouts = 26%nat.
Proof. reflexivity. Qed.

Lemma layout_ok_in L : In L all_layouts -> layout_ok L = true.
Proof. intros H. exact (proj1 (forallb_forall _ _) all_layouts_ok L H). Qed.

(* the fields String() writes and Parse() does not read back, today *)
Lemma all_lossy_fields :
  flat_map lossy_fields all_layouts =
  [ "FileHeader.priorityCode"; "FileHeader.recordSize"; "FileHeader.blockingFactor"; "FileHeader.formatCode"
  ; "IATEntryDetail.OFACScreeningIndicator"; "IATEntryDetail.SecondaryOFACScreeningIndicator" ].
Proof. vm_compute. reflexivity. Qed.

(* ---- instantiations for every record type ---- *)

Theorem C02_record_width L r : In L all_layouts -> widthb L r = true -> rune_count (render L r) = 94%nat.
Proof. intros H. apply render_width_w. now apply layout_ok_in. Qed.

Theorem C02_record_wf L r : In L all_layouts -> widthb L r = true -> wf_utf8 (render L r) = true.
Proof. intros H. apply render_wf_w. now apply layout_ok_in. Qed.

Theorem C01_parse_render L r : In L all_layouts -> fitsb L r = true ->
  forall c, In c (l_cuts L) -> c_const c = None -> c_field c <> "" ->
  exists s, aligned_seg L c = Some s /\ In s (l_segs L) /\ seg_field s = Some (c_field c)
    /\ sub (units (l_ix L) (render L r)) (c_lo c) (c_hi c) = render_seg r s
    /\ lookup (parse L (render L r)) (c_field c) = conv_value (c_conv c) (render_seg r s).
Proof. intros H. apply parse_render. now apply layout_ok_in. Qed.

Theorem C01_parse_render_fields L r f : In L all_layouts -> fitsb L r = true ->
  lookup (parse L (render L r)) f =
  match find_key (l_cuts L) f with
  | None => None
  | Some c => match c_const c with
              | Some bs => Some (VS bs)
              | None => match aligned_seg L c with
                        | Some s => conv_value (c_conv c) (render_seg r s)
                        | None => None
                        end
              end
  end.
Proof. intros H. apply parse_render_fields. now apply layout_ok_in. Qed.

Theorem C01_reparse_fixed L r : In L all_layouts -> fitsb L r = true -> stableb L r = true ->
  render L (overlay (parse L (render L r)) r) = render L r.
Proof. intros H. apply reparse_fixed. now apply layout_ok_in. Qed.

(* value-level round trip: a field read back from its own columns returns the record's value *)
Theorem C01_parse_render_value L r s f c : In L all_layouts -> fitsb L r = true -> canonb L r = true ->
  In s (l_segs L) -> simple_field s = Some f -> find_key (l_cuts L) f = Some c -> c_const c = None ->
  lookup (parse L (render L r)) f = canon_value s r.
Proof. intros H. apply parse_render_value. now apply layout_ok_in. Qed.

(* ---- non-vacuity on the generated tables ---- *)

Definition bs := bytes_of_string.

Definition ed_record : recval :=
  [ ("TransactionCode", VI 22); ("RDFIIdentification", VS (bs "23138010")); ("CheckDigit", VS (bs "4"))
  ; ("DFIAccountNumber", VS (bs "12345678")); ("Amount", VI 100000)
  ; ("IdentificationNumber", VS (bs "ID-7"))
  ; ("IndividualName", VS [74; 111; 115; 195; 169; 32; 195; 145; 97; 110; 100; 195; 186]%N)
  ; ("DiscretionaryData", VS (bs "S")); ("AddendaRecordIndicator", VI 0)
  ; ("TraceNumber", VS (bs "121042880000001")) ].

Example ed_in : In L_EntryDetail all_layouts.
Proof. unfold all_layouts. repeat (first [left; reflexivity | right]). Qed.
Example ed_fits : fitsb L_EntryDetail ed_record = true.
Proof. vm_compute. reflexivity. Qed.
Example ed_stable : stableb L_EntryDetail ed_record = true.
Proof. vm_compute. reflexivity. Qed.
Example ed_width : rune_count (render L_EntryDetail ed_record) = 94%nat.
Proof. apply C02_record_width; [exact ed_in|apply fitsb_widthb, ed_fits]. Qed.
Example ed_reparse :
  render L_EntryDetail (overlay (parse L_EntryDetail (render L_EntryDetail ed_record)) ed_record)
  = render L_EntryDetail ed_record.
Proof. apply C01_reparse_fixed; [exact ed_in|exact ed_fits|exact ed_stable]. Qed.

(* a file header (four custom accessors, four constant cuts) *)
Definition fh_record : recval :=
  [ ("priorityCode", VS (bs "01")); ("ImmediateDestination", VS (bs "231380104"))
  ; ("ImmediateOrigin", VS (bs "121042882")); ("FileCreationDate", VS (bs "190816"))
  ; ("FileCreationTime", VS (bs "1055")); ("FileIDModifier", VS (bs "A"))
  ; ("recordSize", VS (bs "094")); ("blockingFactor", VS (bs "10")); ("formatCode", VS (bs "1"))
  ; ("ImmediateDestinationName", VS (bs "Federal Reserve Bank")); ("ImmediateOriginName", VS (bs "My Bank Name"))
  ; ("ReferenceCode", VS (bs "")) ].

Example fh_in : In L_FileHeader all_layouts.
Proof. unfold all_layouts. repeat (first [left; reflexivity | right]). Qed.
Example fh_fits : fitsb L_FileHeader fh_record = true.
Proof. vm_compute. reflexivity. Qed.
Example fh_stable : stableb L_FileHeader fh_record = true.
Proof. vm_compute. reflexivity. Qed.
Example fh_reparse :
  render L_FileHeader (overlay (parse L_FileHeader (render L_FileHeader fh_record)) fh_record)
  = render L_FileHeader fh_record.
Proof. apply C01_reparse_fixed; [exact fh_in|exact fh_fits|exact fh_stable]. Qed.

(* a batch header (one custom accessor reading three fields) *)
Definition bh_record : recval :=
  [ ("ServiceClassCode", VI 220); ("CompanyName", VS (bs "ACME Corporation")); ("CompanyDiscretionaryData", VS (bs ""))
  ; ("CompanyIdentification", VS (bs "121042882")); ("StandardEntryClassCode", VS (bs "PPD"))
  ; ("CompanyEntryDescription", VS (bs "PAYROLL")); ("CompanyDescriptiveDate", VS (bs ""))
  ; ("EffectiveEntryDate", VS (bs "190816")); ("SettlementDate", VS (bs ""))
  ; ("OriginatorStatusCode", VI 1); ("ODFIIdentification", VS (bs "12104288")); ("BatchNumber", VI 1) ].

Example bh_in : In L_BatchHeader all_layouts.
Proof. unfold all_layouts. repeat (first [left; reflexivity | right]). Qed.
Example bh_fits : fitsb L_BatchHeader bh_record = true.
Proof. vm_compute. reflexivity. Qed.
Example bh_stable : stableb L_BatchHeader bh_record = true.
Proof. vm_compute. reflexivity. Qed.

(* ---- the side conditions and the allow-list are not decoration: witnesses ---- *)

(* IATEntryDetail: a non-blank OFAC screening indicator is written (column 77)
   and lost by Parse, which assigns " " *)
Definition iat_record : recval :=
  [ ("TransactionCode", VI 22); ("RDFIIdentification", VS (bs "12104288")); ("CheckDigit", VS (bs "2"))
  ; ("AddendaRecords", VI 7); ("Amount", VI 100000); ("DFIAccountNumber", VS (bs "123456789"))
  ; ("OFACScreeningIndicator", VS (bs "1")); ("SecondaryOFACScreeningIndicator", VS (bs ""))
  ; ("AddendaRecordIndicator", VI 1); ("TraceNumber", VS (bs "231380100000001")) ].

Lemma iat_ofac_lossy_refuted :
  fitsb L_IATEntryDetail iat_record = true /\
  sub (units IRune (render L_IATEntryDetail iat_record)) 76 77 = bs "1" /\
  lookup (parse L_IATEntryDetail (render L_IATEntryDetail iat_record)) "OFACScreeningIndicator" = Some (VS (bs " ")) /\
  stableb L_IATEntryDetail iat_record = false /\
  render L_IATEntryDetail (overlay (parse L_IATEntryDetail (render L_IATEntryDetail iat_record)) iat_record)
    <> render L_IATEntryDetail iat_record.
Proof. vm_compute. repeat split; discriminate. Qed.

(* BatchHeader: a company entry description of eleven characters "AUTOENROLL "
   is truncated to "AUTOENROLL" on write; the re-parsed ENR batch header then
   blanks its effective entry date *)
Definition bh_enr_record : recval :=
  ("CompanyEntryDescription", VS (bs "AUTOENROLL!")) :: ("StandardEntryClassCode", VS (bs "ENR")) :: bh_record.

Lemma bh_autoenroll_refuted :
  fitsb L_BatchHeader bh_enr_record = true /\ stableb L_BatchHeader bh_enr_record = false /\
  render L_BatchHeader (overlay (parse L_BatchHeader (render L_BatchHeader bh_enr_record)) bh_enr_record)
    <> render L_BatchHeader bh_enr_record.
Proof. vm_compute. repeat split; discriminate. Qed.

(* the well-formedness hypothesis of C02 is needed: two adjacent full-width
   fields, the first ending in a lone UTF-8 lead byte (0xC3), the second
   starting with a continuation byte (0xA9): each counts 35 runes, nothing is
   padded or truncated, and in the record the two bytes merge into one rune *)
Definition a11_record : recval :=
  [ ("TypeCode", VS (bs "11"))
  ; ("OriginatorName", VS (repeat 65%N 34 ++ [195]%N)%list)
  ; ("OriginatorStreetAddress", VS ([169]%N ++ repeat 66%N 34)%list)
  ; ("EntryDetailSequenceNumber", VI 1) ].

Lemma a11_invalid_utf8_width :
  rune_count (gets a11_record "OriginatorName") = 35%nat /\
  rune_count (gets a11_record "OriginatorStreetAddress") = 35%nat /\
  widthb L_Addenda11 a11_record = false /\
  length (render L_Addenda11 a11_record) = 94%nat /\
  rune_count (render L_Addenda11 a11_record) = 93%nat.
Proof. vm_compute. repeat split; reflexivity. Qed.

Print Assumptions all_layouts_ok.
Print Assumptions C02_record_width.
Print Assumptions C02_record_wf.
Print Assumptions C01_parse_render.
Print Assumptions C01_parse_render_fields.
Print Assumptions C01_reparse_fixed.
Print Assumptions C01_parse_render_value.

(* Obligations of the validating-reader theorems (Props/C01Valid.v, Props/C04Valid.v):
   1. the validation call sites regenerated from reader.go (Gen/ReaderValidSites.v) are the
      hand table of Codec/ReaderValid.v; every Parse is directly followed by the validation
      of the same record; every field a recognised rule reads is assigned by Parse;
   2. the generic theorems instantiated on the layouts, record rules and arithmetic tables
      regenerated in this run;
   3. non-vacuity: the four generated example files satisfy every hypothesis;
   4. witnesses: each hypothesis is needed (`_refuted` / `_needed`);
   5. C04: the tamper theorems of Model/TamperFacts.v transferred to the validating reader. *)
From Coq Require Import String List NArith ZArith Bool Lia.
From ACH Require Import Arith TamperFacts ArithFacts.
From ACH Require Import ReaderValid ReaderValidFacts ReaderValidCanon ReaderValidProj LayoutFacts LayoutRoundtrip FramingFacts DispatchFacts DispatchBytes.
From ACH Require C04Obl.
From ACH Require Import Layouts RecRules Tables ReaderValidSites C01Obl C01FileEx C01FileObl.
Import ListNotations.
Local Open Scope string_scope.
Local Open Scope nat_scope.
Local Open Scope list_scope.

Definition RT := all_rules.
Definition AT := gen_tables.

(* ------------------------------------------------------------------ *)
(* 1. where the reader validates                                        *)

Lemma validate_events_ok : gen_validate_events = validate_events /\ gen_maybe_validate = maybe_validate_src.
Proof. vm_compute. split; reflexivity. Qed.

Lemma every_parse_validated : forallb (fun p => parse_validated (snd p)) gen_validate_events = true.
Proof. vm_compute. reflexivity. Qed.

(* the batch is validated where parseLine closes it, twice (standard / ADV batch, IAT batch); Read validates nothing *)
Lemma batch_sites : assoc "parseLine" gen_validate_events = Some ["V:batch"; "V:&batch"]
  /\ assoc "Read" gen_validate_events = Some [].
Proof. vm_compute. split; reflexivity. Qed.

(* the fields the recognised rules read *)
Fixpoint sterm_reads (t : sterm) : list string :=
  match t with TField f => [f] | TRender s => seg_reads s | TUpper t' => sterm_reads t' end.
Definition iterm_reads (t : iterm) : list string :=
  match t with IField f => [f] | IConst _ => [] | IAtoi t' | ICheckDigit t' => sterm_reads t' end.
Fixpoint cond_reads (c : cond) : list string :=
  match c with
  | CStrIn t _ | CStrNotIn t _ | CByteLen _ t _ | CRuneLen _ t _ | CRunesOutside t _ | CAtoiErr t => sterm_reads t
  | CIntIn t _ | CIntNotIn t _ => iterm_reads t
  | CIntCmp _ a b => iterm_reads a ++ iterm_reads b
  | CAnd a b | COr a b => cond_reads a ++ cond_reads b
  | CNot a => cond_reads a
  | CTrue | CFalse | CUnknown _ _ => []
  end.
Definition rules_reads (R : rules) : list string := flat_map (fun lc => cond_reads (snd lc)) R.

(* a record built by Parse alone (the reader's) holds every field its Validate() looks at: the model's
   `overlay (parse L line) []` and the Go record (NewX() then Parse) agree on them *)
Lemma rules_read_assigned :
  forallb (fun L => forallb (fun g => is_some (find_key (l_cuts L) g)) (rules_reads (rules_for RT (l_name L)))) LT = true.
Proof. vm_compute. reflexivity. Qed.

(* every layout has rules, and the rule table names only layouts *)
Lemma rules_cover_layouts : map fst RT = map l_name LT.
Proof. vm_compute. reflexivity. Qed.

(* ------------------------------------------------------------------ *)
(* 2. instances                                                         *)

Theorem c01_valid_reader_refines ls f : read_file_valid LT RT AT ls = Some (f, false) -> read_file LT ls = Some f.
Proof. apply valid_reader_refines. Qed.

Theorem c01_valid_reader_sound ls f : read_file_valid LT RT AT ls = Some (f, false) -> tree_validb RT AT f = true.
Proof. apply valid_reader_sound. Qed.

Theorem c01_valid_strict ls f : read_file_valid LT RT AT ls = Some (f, false) <-> read_file_strict LT RT AT ls = Some f.
Proof. apply g_strict. Qed.

Theorem c01_valid_parsed x : rec_passb RT x = true -> rec_keepsb LT RT x = true -> rec_passb RT (parsed_rec LT x) = true.
Proof. apply valid_parsed. Qed.

Theorem c01_valid_roundtrip f k :
  all_file (rec_fitsb LT) f = true -> dispatchb LT f = true ->
  all_file (rec_passb RT) f = true -> all_file (rec_keepsb LT RT) f = true ->
  batches_okb AT (parsed_file LT f) = true ->
  read_file_valid LT RT AT (write_file LT f ++ repeat nines k) = Some (parsed_file LT f, false).
Proof. exact (valid_roundtrip LT all_layouts_ok RT AT f k). Qed.

(* the arithmetic hypothesis on the file as it is written *)
Theorem c01_valid_roundtrip_orig f k :
  all_file (rec_fitsb LT) f = true -> dispatchb LT f = true ->
  all_file (rec_passb RT) f = true -> all_file (rec_keepsb LT RT) f = true ->
  proj_keepsb LT f = true -> batches_okb AT f = true ->
  read_file_valid LT RT AT (write_file LT f ++ repeat nines k) = Some (parsed_file LT f, false).
Proof.
  intros Hfit Hd Hv Hk Hp Hb. apply c01_valid_roundtrip; auto. now rewrite (batches_okb_kept LT AT f Hp).
Qed.

Theorem c01_batches_okb_kept f : proj_keepsb LT f = true -> batches_okb AT (parsed_file LT f) = batches_okb AT f.
Proof. apply batches_okb_kept. Qed.

(* [proj_keepsb] from canonical values: the protected fields of the batch header, entry and batch control
   layouts are written by simple segments and read back from their own columns *)
Lemma proj_roles_simple :
  role_simple L_BatchHeader hdr_str_fields hdr_int_fields = true
  /\ role_simple L_IATBatchHeader hdr_str_fields hdr_int_fields = true
  /\ role_simple L_EntryDetail (entry_str_fields KStd) entry_int_fields = true
  /\ role_simple L_IATEntryDetail (entry_str_fields KIAT) entry_int_fields = true
  /\ role_simple L_ADVEntryDetail (entry_str_fields KADV) entry_int_fields = true
  /\ role_simple L_BatchControl ctl_str_fields ctl_int_fields = true
  /\ role_simple L_ADVBatchControl ctl_str_fields ctl_int_fields = true.
Proof. vm_compute. repeat split; reflexivity. Qed.

Theorem c01_canon_fields_kept x L ss is_ :
  layout_of LT (r_kind x) = Some L -> role_simple L ss is_ = true ->
  fitsb L (r_val x) = true -> canonb L (r_val x) = true -> fields_keptb LT ss is_ x = true.
Proof. exact (canon_fields_kept LT x L ss is_ all_layouts_ok). Qed.

Theorem c01_valid_roundtrip_padded f :
  all_file (rec_fitsb LT) f = true -> dispatchb LT f = true ->
  all_file (rec_passb RT) f = true -> all_file (rec_keepsb LT RT) f = true ->
  batches_okb AT (parsed_file LT f) = true ->
  read_file_valid LT RT AT (write_file_padded LT f) = Some (parsed_file LT f, false).
Proof. intros. unfold write_file_padded, FileStruct.physical_lines. now apply c01_valid_roundtrip. Qed.

Theorem c01_valid_roundtrip_parsed f k :
  all_file (rec_fitsb LT) f = true -> dispatchb LT f = true ->
  tree_validb RT AT (parsed_file LT f) = true ->
  read_file_valid LT RT AT (write_file LT f ++ repeat nines k) = Some (parsed_file LT f, false).
Proof. exact (valid_roundtrip_parsed LT all_layouts_ok RT AT f k). Qed.

Theorem c01_valid_text_roundtrip f k j0 recs :
  all_file (rec_fitsb LT) f = true -> dispatchb LT f = true -> all_file (rec_no_nl LT) f = true ->
  tree_validb RT AT (parsed_file LT f) = true ->
  map fst recs = write_file LT f ++ repeat nines k ->
  Forall junk_ok j0 -> Forall (fun p => Forall junk_ok (snd p)) recs ->
  read_text_valid LT RT AT (junk_bytes j0 ++ text_of recs) = Some (parsed_file LT f, false).
Proof. exact (valid_text_roundtrip LT all_layouts_ok RT AT f k j0 recs). Qed.

Lemma is_rok_eq r : is_rok r = true -> r = ROk.
Proof. destruct r; cbn; intros H; try discriminate H; reflexivity. Qed.

(* Read followed by File.Validate(): accepted iff the file arithmetic holds too *)
Theorem c01_read_then_validate ls f lg : read_then_validate LT RT AT ls = Some (f, lg) <->
  read_file_valid LT RT AT ls = Some (f, lg) /\ validate_file AT (p_file f) = ROk.
Proof.
  unfold read_then_validate. destruct (read_file_valid LT RT AT ls) as [[g l]|].
  - destruct (is_rok (validate_file AT (p_file g))) eqn:E.
    + split.
      * intros H. injection H as Hg Hl. subst. split; [reflexivity|now apply is_rok_eq].
      * intros [H _]. exact H.
    + split; [discriminate|]. intros [H1 H2]. injection H1 as Hg Hl. subst. rewrite H2 in E. discriminate E.
  - split; [discriminate|]. intros [H _]. discriminate H.
Qed.

(* ---- canonical values: for 24 of the 26 record types [rec_keepsb] follows from [canonb] ---- *)

(* the record types all of whose recognised rules read only fields that String() writes with a simple
   segment and Parse reads back from its own columns *)
Definition canon_layouts : list layout := filter (fun L => rules_simple L (rules_for RT (l_name L))) LT.
Definition other_layouts : list layout := filter (fun L => negb (rules_simple L (rules_for RT (l_name L)))) LT.

Lemma canon_layouts_names :
  map l_name canon_layouts =
  [ "ADVBatchControl"; "ADVEntryDetail"; "ADVFileControl"; "Addenda02"; "Addenda05"; "Addenda10"; "Addenda11"; "Addenda12"
  ; "Addenda13"; "Addenda14"; "Addenda15"; "Addenda16"; "Addenda17"; "Addenda18"; "Addenda98"; "Addenda98Refused"
  ; "Addenda99Contested"; "Addenda99Dishonored"; "BatchControl"; "BatchHeader"; "EntryDetail"; "FileControl"
  ; "IATBatchHeader"; "IATEntryDetail" ].
Proof. vm_compute. reflexivity. Qed.

(* the rules of the two others that read something else: a hand-modelled accessor (Addenda99), fields
   Parse assigns as constants or through trimRoutingNumberLeadingZero / validateSimpleDate (FileHeader) *)
Lemma other_layouts_rules :
  map (fun L => (l_name L, map fst (filter (fun lc => negb (cond_simple L (snd lc))) (rules_for RT (l_name L))))) other_layouts =
  [ ("Addenda99", ["Addenda99.Validate#3"])
  ; ("FileHeader", [ "FileHeader.fieldInclusion#1"; "FileHeader.fieldInclusion#2"; "FileHeader.fieldInclusion#3"
                   ; "FileHeader.fieldInclusion#5"; "FileHeader.fieldInclusion#6"; "FileHeader.fieldInclusion#7"
                   ; "FileHeader.ValidateWith#10"; "FileHeader.ValidateWith#11"; "FileHeader.ValidateWith#12"
                   ; "FileHeader.ValidateWith#14"; "CheckRoutingNumber#15"; "CheckRoutingNumber#16" ]) ].
Proof. vm_compute. reflexivity. Qed.

Lemma canon_in L : In L canon_layouts -> In L LT /\ rules_simple L (rules_for RT (l_name L)) = true.
Proof. unfold canon_layouts. intros H. now apply filter_In in H. Qed.

Lemma layout_of_name x L : layout_of LT (r_kind x) = Some L -> l_name L = r_kind x.
Proof. unfold layout_of. intros H. apply find_some in H as [_ H]. now apply String.eqb_eq in H. Qed.

(* a record of one of the 24 types whose values are canonical for their columns keeps every value the
   rules read; with C01_valid_parsed: it validates when read back *)
Theorem c01_canon_keeps x L :
  layout_of LT (r_kind x) = Some L -> In L canon_layouts ->
  fitsb L (r_val x) = true -> canonb L (r_val x) = true -> rec_keepsb LT RT x = true.
Proof.
  intros HL Hin Hfit Hcan. apply canon_in in Hin as [_ Hs]. rewrite (layout_of_name x L HL) in Hs.
  exact (canon_keeps LT RT x L all_layouts_ok HL Hs Hfit Hcan).
Qed.

Theorem c01_canon_valid_parsed x L :
  layout_of LT (r_kind x) = Some L -> In L canon_layouts ->
  fitsb L (r_val x) = true -> canonb L (r_val x) = true ->
  rec_passb RT x = true -> rec_passb RT (parsed_rec LT x) = true.
Proof. intros HL Hin Hfit Hcan Hv. apply c01_valid_parsed; [exact Hv|now apply (c01_canon_keeps x L)]. Qed.

(* non-vacuity: the batch header of the IAT example as it is read back is canonical; and [canonb] is strictly stronger than
   [rec_keepsb] (the padded IndividualName of [padded_name_kept] below is not canonical) *)
Lemma iat_hdr_canon_layout : In L_IATBatchHeader canon_layouts.
Proof.
  unfold canon_layouts. apply filter_In. split; [|vm_compute; reflexivity].
  unfold LT, all_layouts. repeat (first [left; reflexivity | right]).
Qed.

Example canon_example :
  let x := parsed_rec LT (bt_hdr (hd (mkBat a02 [] a02) (fl_iat ex_iat))) in
  layout_of LT (r_kind x) = Some L_IATBatchHeader
  /\ fitsb L_IATBatchHeader (r_val x) = true /\ canonb L_IATBatchHeader (r_val x) = true /\ rec_passb RT x = true
  /\ rec_keepsb LT RT x = true.
Proof.
  cbv zeta. split; [vm_compute; reflexivity|]. split; [vm_compute; reflexivity|]. split; [vm_compute; reflexivity|].
  split; [vm_compute; reflexivity|].
  apply (c01_canon_keeps _ L_IATBatchHeader); [vm_compute; reflexivity|exact iat_hdr_canon_layout| |]; vm_compute; reflexivity.
Qed.

(* ------------------------------------------------------------------ *)
(* 3. non-vacuity                                                       *)

Definition vhyps (f : fileR) : bool :=
  all_file (rec_fitsb LT) f && dispatchb LT f && all_file (rec_passb RT) f && all_file (rec_keepsb LT RT) f
  && batches_okb AT (parsed_file LT f) && all_file (rec_no_nl LT) f.

(* ... and the hypotheses of the statement on the file as written *)
Lemma ex_orig_hyps :
  proj_keepsb LT ex_std && batches_okb AT ex_std && proj_keepsb LT ex_ret && batches_okb AT ex_ret
  && proj_keepsb LT ex_iat && batches_okb AT ex_iat && proj_keepsb LT ex_adv && batches_okb AT ex_adv = true.
Proof. vm_compute. reflexivity. Qed.

Lemma ex_std_vhyps : vhyps ex_std = true.  Proof. vm_compute. reflexivity. Qed.
Lemma ex_ret_vhyps : vhyps ex_ret = true.  Proof. vm_compute. reflexivity. Qed.
Lemma ex_iat_vhyps : vhyps ex_iat = true.  Proof. vm_compute. reflexivity. Qed.
Lemma ex_adv_vhyps : vhyps ex_adv = true.  Proof. vm_compute. reflexivity. Qed.

Lemma vhyps_split f : vhyps f = true ->
  all_file (rec_fitsb LT) f = true /\ dispatchb LT f = true /\ all_file (rec_passb RT) f = true
  /\ all_file (rec_keepsb LT RT) f = true /\ batches_okb AT (parsed_file LT f) = true /\ all_file (rec_no_nl LT) f = true.
Proof.
  unfold vhyps. intros H. apply andb_prop in H as [H H6]. apply andb_prop in H as [H H5].
  apply andb_prop in H as [H H4]. apply andb_prop in H as [H H3]. apply andb_prop in H as [H1 H2].
  repeat split; assumption.
Qed.

(* obtained FROM the theorem, and the same evaluated directly *)
Example ex_std_valid_roundtrip :
  read_file_valid LT RT AT (write_file_padded LT ex_std) = Some (parsed_file LT ex_std, false).
Proof. destruct (vhyps_split _ ex_std_vhyps) as (H1 & H2 & H3 & H4 & H5 & _). now apply c01_valid_roundtrip_padded. Qed.
Example ex_iat_valid_roundtrip :
  read_file_valid LT RT AT (write_file_padded LT ex_iat) = Some (parsed_file LT ex_iat, false).
Proof. destruct (vhyps_split _ ex_iat_vhyps) as (H1 & H2 & H3 & H4 & H5 & _). now apply c01_valid_roundtrip_padded. Qed.
Example ex_adv_valid_roundtrip :
  read_file_valid LT RT AT (write_file_padded LT ex_adv) = Some (parsed_file LT ex_adv, false).
Proof. destruct (vhyps_split _ ex_adv_vhyps) as (H1 & H2 & H3 & H4 & H5 & _). now apply c01_valid_roundtrip_padded. Qed.
Example ex_ret_valid_computed :
  read_file_valid LT RT AT (write_file_padded LT ex_ret) = Some (parsed_file LT ex_ret, false)
  /\ read_then_validate LT RT AT (write_file_padded LT ex_ret) = Some (parsed_file LT ex_ret, false).
Proof. vm_compute. split; reflexivity. Qed.

(* the examples are files of some size: records / rules evaluated *)
Lemma ex_sizes : length (file_records ex_std) = 12 /\ length (file_records ex_iat) = 31
  /\ length (flat_map (fun x => rules_for RT (r_kind x)) (file_records ex_iat)) = 322.
Proof. vm_compute. repeat split; reflexivity. Qed.

(* ------------------------------------------------------------------ *)
(* 4. the hypotheses are needed                                         *)

(* (a) [rec_keepsb]: a mandatory field that holds a single blank.  BatchHeader.Validate() only tests
   CompanyName == ""; String() writes 16 blanks; Parse trims them: the record read back has an
   empty CompanyName and is rejected.  Every other hypothesis holds — the default reader rejects
   what the writer wrote from a file whose records all validate (replayed on the Go code by
   `c01valid witness`: known finding roundtrip:valid:blank-only-mandatory-field:read-error). *)
Lemma blank_company_refuted :
  let f := rename_company " " ex_std in
  all_file (rec_fitsb LT) f = true /\ all_file (rec_stableb LT) f = true /\ dispatchb LT f = true
  /\ all_file (rec_passb RT) f = true /\ batches_okb AT (parsed_file LT f) = true
  /\ all_file (rec_keepsb LT RT) f = false
  /\ rec_passb RT (parsed_rec LT (bt_hdr (hd (mkBat a02 [] a02) (fl_batches f)))) = false
  /\ read_file LT (write_file_padded LT f) = Some (parsed_file LT f)
  /\ read_file_valid LT RT AT (write_file_padded LT f) = None.
Proof. cbv zeta. vm_compute. repeat split; reflexivity. Qed.

(* ... the same for an addenda record: Addenda05 has no mandatory text field, Addenda02 does *)
Definition a02_blank_city : recordR :=
  mkRec "Addenda02" (("TerminalCity", VS (bstr " ")) :: r_val a02).
Lemma blank_city_refuted :
  rec_fitsb LT a02_blank_city = true /\ rec_passb RT a02_blank_city = true
  /\ rec_keepsb LT RT a02_blank_city = false /\ rec_passb RT (parsed_rec LT a02_blank_city) = false
  /\ rec_passb RT a02 = true /\ rec_keepsb LT RT a02 = true /\ rec_passb RT (parsed_rec LT a02) = true.
Proof. vm_compute. repeat split; reflexivity. Qed.

(* FileHeader (not among the 24): FileHeader.Validate() only wants FileCreationDate non-empty; six
   characters that are not a calendar date ("250230") are written as they are and blanked by Parse
   (validateSimpleDate): the header read back has no creation date and is rejected (replayed on the Go
   code: known finding roundtrip:valid:file-creation-date-not-calendar:read-error) *)
Definition set_hdr (g : string) (v : value) (f : fileR) : fileR :=
  mkFil (mkRec (r_kind (fl_hdr f)) ((g, v) :: r_val (fl_hdr f))) (fl_batches f) (fl_iat f) (fl_ctl f).
Lemma file_creation_date_refuted :
  let f := set_hdr "FileCreationDate" (VS (bstr "250230")) ex_std in
  all_file (rec_fitsb LT) f = true /\ all_file (rec_stableb LT) f = false /\ dispatchb LT f = true
  /\ all_file (rec_passb RT) f = true /\ batches_okb AT (parsed_file LT f) = true
  /\ rec_keepsb LT RT (fl_hdr f) = false /\ rec_passb RT (parsed_rec LT (fl_hdr f)) = false
  /\ read_file LT (write_file_padded LT f) = Some (parsed_file LT f)
  /\ read_file_valid LT RT AT (write_file_padded LT f) = None.
Proof. cbv zeta. vm_compute. repeat split; reflexivity. Qed.

(* [rec_keepsb] is not "the value is unchanged": an IndividualName shorter than its 22 columns is read
   back padded (Parse keeps the columns as they are), the emptiness test of fieldInclusion is all
   the rules ask of it *)
Lemma padded_name_kept :
  let e := en_rec (hd (mkEnt a02 []) (bt_entries (hd (mkBat a02 [] a02) (fl_batches ex_std)))) in
  rec_keepsb LT RT e = true
  /\ length (gets (r_val e) "IndividualName") < 22
  /\ length (gets (r_val (parsed_rec LT e)) "IndividualName") = 22.
Proof. cbv zeta. vm_compute. repeat split; lia. Qed.

(* (b) the batch arithmetic: a control total off by one — read without validation, rejected with *)
Definition bump_ctl (f : fileR) : fileR :=
  match fl_batches f with
  | mkBat h es c :: bs =>
      mkFil (fl_hdr f)
        (mkBat h es (mkRec (r_kind c) (("EntryHash", VI (geti (r_val c) "EntryHash" + 1)) :: r_val c)) :: bs)
        (fl_iat f) (fl_ctl f)
  | _ => f
  end.
Lemma batch_arith_needed :
  let f := bump_ctl ex_std in
  all_file (rec_fitsb LT) f = true /\ dispatchb LT f = true /\ all_file (rec_passb RT) f = true
  /\ all_file (rec_keepsb LT RT) f = true /\ batches_okb AT (parsed_file LT f) = false
  /\ read_file LT (write_file_padded LT f) = Some (parsed_file LT f)
  /\ read_file_valid LT RT AT (write_file_padded LT f) = None.
Proof. cbv zeta. vm_compute. repeat split; reflexivity. Qed.

(* (c) the record rules: an entry with transaction code 20 (not a NACHA code) *)
Definition recode_entry (code : Z) (f : fileR) : fileR :=
  match fl_batches f with
  | mkBat h (mkEnt e as_ :: es) c :: bs =>
      mkFil (fl_hdr f) (mkBat h (mkEnt (mkRec (r_kind e) (("TransactionCode", VI code) :: r_val e)) as_ :: es) c :: bs)
            (fl_iat f) (fl_ctl f)
  | _ => f
  end.
Lemma record_rules_needed :
  let f := recode_entry 20 ex_std in
  all_file (rec_fitsb LT) f = true /\ dispatchb LT f = true /\ all_file (rec_passb RT) f = false
  /\ read_file LT (write_file_padded LT f) = Some (parsed_file LT f)
  /\ read_file_valid LT RT AT (write_file_padded LT f) = None.
Proof. cbv zeta. vm_compute. repeat split; reflexivity. Qed.

(* (d) Read does not check the FILE arithmetic: a file control whose entry/addenda count is off by one
   is returned by Read (default validation) and rejected by File.Validate() *)
Definition bump_fctl (f : fileR) : fileR :=
  mkFil (fl_hdr f) (fl_batches f) (fl_iat f)
        (mkRec (r_kind (fl_ctl f)) (("EntryAddendaCount", VI (geti (r_val (fl_ctl f)) "EntryAddendaCount" + 1)) :: r_val (fl_ctl f))).
Lemma read_skips_file_arith :
  let f := bump_fctl ex_std in
  read_file_valid LT RT AT (write_file_padded LT f) = Some (parsed_file LT f, false)
  /\ validate_file AT (p_file (parsed_file LT f)) = RFCount
  /\ read_then_validate LT RT AT (write_file_padded LT f) = None
  /\ read_then_validate LT RT AT (write_file_padded LT ex_std) = Some (parsed_file LT ex_std, false).
Proof. cbv zeta. vm_compute. repeat split; reflexivity. Qed.

(* (e) a batch that is never closed: the batch control of the first batch removed.  Go adds the batch
   without control and without validating it; Read succeeds (flag [true]); File.Validate() rejects *)
Definition drop_nth {A} (n : nat) (l : list A) : list A := firstn n l ++ skipn (S n) l.
Lemma lingering_batch_accepted :
  let ls := drop_nth 6 (write_file_padded LT ex_std) in
  rtype (nth 6 (write_file_padded LT ex_std) []) = T8
  /\ read_file LT ls = None /\ read_file_strict LT RT AT ls = None
  /\ (exists g, read_file_valid LT RT AT ls = Some (g, true)
        /\ map (fun b => r_val (bt_ctl b)) (fl_batches g) = [[]; r_val (parsed_rec LT (bt_ctl (nth 1 (fl_batches ex_std) (mkBat a02 [] a02))))])
  /\ read_then_validate LT RT AT ls = None.
Proof.
  cbv zeta. split; [vm_compute; reflexivity|]. split; [vm_compute; reflexivity|]. split; [vm_compute; reflexivity|].
  split; [|vm_compute; reflexivity].
  destruct (read_file_valid LT RT AT (drop_nth 6 (write_file_padded LT ex_std))) as [[g lg]|] eqn:E; [|vm_compute in E; discriminate E].
  exists g. vm_compute in E. injection E as <- <-. split; [reflexivity|vm_compute; reflexivity].
Qed.

(* ------------------------------------------------------------------ *)
(* 5. C04: tampered batches are never returned by the validating reader  *)

Lemma forallb_In {A} (p : A -> bool) l x : forallb p l = true -> In x l -> p x = true.
Proof. intros H. rewrite forallb_forall in H. apply H. Qed.

(* every batch of a file the reader returns (flag false) passes validate_batch *)
Theorem c04_valid_reader_batches ls g b :
  read_file_valid LT RT AT ls = Some (g, false) -> In b (all_batches (p_file g)) -> validate_batch AT b = ROk.
Proof.
  intros H Hb. apply c01_valid_reader_sound in H. unfold tree_validb, tree_okb in H.
  apply andb_prop in H as [H Hi]. apply andb_prop in H as [_ Hs].
  unfold all_batches, p_file in Hb. cbn [Arith.fl_batches Arith.fl_iat] in Hb. apply in_app_or in Hb as [Hb|Hb].
  - apply in_map_iff in Hb as (x & <- & Hx). apply is_rok_eq. exact (forallb_In _ _ _ Hs Hx).
  - apply in_map_iff in Hb as (x & <- & Hx). apply is_rok_eq. exact (forallb_In _ _ _ Hi Hx).
Qed.

(* C04_tamper_batch_control transferred: the returned file contains no batch that is a valid batch
   with one numeric control field changed *)
Theorem c04_valid_reader_rejects_tamper ls g b0 p v :
  read_file_valid LT RT AT ls = Some (g, false) ->
  verify AT b0 = ROk -> v <> get_c p (Arith.bt_ctl b0) ->
  ~ In (set_ctl b0 (set_c p v (Arith.bt_ctl b0))) (all_batches (p_file g)).
Proof.
  intros H Hv Hne Hin. apply (tamper_bctl AT b0 p v Hv Hne).
  apply validate_batch_verify. exact (c04_valid_reader_batches ls g _ H Hin).
Qed.

(* ... stated on two inputs: the lines ls read (without validation) as a file whose i-th batch is
   the i-th batch of an accepted file with a control field changed: the validating reader does not
   return that file, whatever else ls contains *)
Theorem c04_valid_reader_tampered_input ls ls' g g' b0 p v :
  read_file_valid LT RT AT ls = Some (g, false) -> In b0 (all_batches (p_file g)) ->
  v <> get_c p (Arith.bt_ctl b0) ->
  read_file LT ls' = Some g' -> In (set_ctl b0 (set_c p v (Arith.bt_ctl b0))) (all_batches (p_file g')) ->
  read_file_valid LT RT AT ls' = None \/ exists h, read_file_valid LT RT AT ls' = Some (h, true).
Proof.
  intros H Hb Hne Hr Hin.
  destruct (read_file_valid LT RT AT ls') as [[h [|]]|] eqn:E; [right; now exists h| |now left].
  exfalso. pose proof (c01_valid_reader_refines _ _ E) as E'. rewrite Hr in E'. injection E' as ->.
  apply (c04_valid_reader_rejects_tamper ls' h b0 p v E); auto.
  apply validate_batch_verify. exact (c04_valid_reader_batches ls g b0 H Hb).
Qed.

(* entry amounts (standard batches) *)
Theorem c04_valid_reader_rejects_amount ls g b pre e post a :
  read_file_valid LT RT AT ls = Some (g, false) ->
  Arith.bt_kind b = KStd -> Arith.bt_entries b = pre ++ e :: post -> validate_batch AT b = ROk -> a <> en_amount e ->
  ~ In (set_entries b (pre ++ set_amount e a :: post)) (all_batches (p_file g)).
Proof.
  intros H Hk He Hv Hne Hin. apply (C04Obl.c04_amount_std b pre e post a Hk He Hv Hne).
  exact (c04_valid_reader_batches ls g _ H Hin).
Qed.

(* non-vacuity: the batch control of the example, entry hash changed; the tampered lines read without
   validation as the tampered tree, the validating reader answers None *)
Lemma c04_valid_example :
  let f := bump_ctl ex_std in
  read_file_valid LT RT AT (write_file_padded LT ex_std) = Some (parsed_file LT ex_std, false)
  /\ (exists b0, nth_error (all_batches (p_file (parsed_file LT ex_std))) 0 = Some b0
        /\ nth_error (all_batches (p_file (parsed_file LT f))) 0 = Some (set_ctl b0 (set_c CHash (bc_hash (Arith.bt_ctl b0) + 1)%Z (Arith.bt_ctl b0))))
  /\ read_file LT (write_file_padded LT f) = Some (parsed_file LT f)
  /\ read_file_valid LT RT AT (write_file_padded LT f) = None.
Proof.
  cbv zeta. split; [vm_compute; reflexivity|]. split; [|split; vm_compute; reflexivity].
  destruct (nth_error (all_batches (p_file (parsed_file LT ex_std))) 0) as [b0|] eqn:E; [|vm_compute in E; discriminate E].
  exists b0. split; [reflexivity|]. vm_compute in E. injection E as <-. vm_compute. reflexivity.
Qed.

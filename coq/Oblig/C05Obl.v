(* Reflection obligations for C05: the table regenerated from batch.go satisfies the
   checker; instances of the generic theorems at that table; non-vacuity examples; the
   witnesses of the defect that was repaired ([Entries[i+i:]]). *)
From Coq Require Import Lia.
From ACH Require Import Offsets OffsetsFacts OffsetTable.
Open Scope Z_scope.

Lemma offset_table_ok : table_ok offset_table = true.
Proof. vm_compute. reflexivity. Qed.

Lemma offset_table_good : table_good offset_table.
Proof. apply table_ok_good, offset_table_ok. Qed.

Notation T := offset_table.

Lemma c05_create_valid b b' :
  (b_off b <> None -> wf_entries T (b_entries b) = true) -> build T b = Ret true b' -> ctl_ok T b'.
Proof. apply build_ctl_ok, offset_table_good. Qed.

Lemma c05_traces_assigned b b' : odfi_ok (b_odfi b) ->
  (b_off b <> None -> wf_entries T (b_entries b) = true) -> build T b = Ret true b' ->
  forallb (has_prefix (b_odfi b)) (filter nonoff (b_entries b')) = true.
Proof. apply build_traces, offset_table_good. Qed.

Lemma c05_traces_kept b b' e :
  (b_off b <> None -> wf_entries T (b_entries b) = true) -> build T b = Ret true b' ->
  In e (b_entries b) -> e_off e = false -> has_prefix (b_odfi b) e = true -> In e (b_entries b').
Proof. apply build_keeps, offset_table_good. Qed.

Lemma c05_traces_fresh odfi es s :
  forallb (fun e => negb (has_prefix odfi e)) es = true ->
  map e_trace (retrace odfi s es) = map (fun i => odfi * P7 + (s + Z.of_nat i) mod P7) (seq 0 (length es)).
Proof. apply retrace_all_absent. Qed.

Lemma c05_traces_ascending b b' : 0 <= b_odfi b ->
  (b_off b <> None -> wf_entries T (b_entries b) = true) ->
  all_absent (b_odfi b) (b_entries b) = true -> Z.of_nat (length (b_entries b)) < P7 - 1 ->
  build T b = Ret true b' -> asc 0 (map e_trace (b_entries b')).
Proof. apply build_ascending, offset_table_good. Qed.

Lemma c05_file_tabulates f f' : file_create f = Ret true f' ->
  f_ctl f' = file_control (f_batches f') /\ map b_entries (f_batches f') = map b_entries (f_batches f) /\
  fc_batches (f_ctl f') = Z.of_nat (length (f_batches f)).
Proof. apply file_create_tabulates. Qed.

Lemma c05_idempotent b b' : odfi_ok (b_odfi b) -> wf_entries T (b_entries b) = true ->
  build T b = Ret true b' -> b_entries b' <> [] -> build T b' = Ret true b'.
Proof. apply build_idem, offset_table_good. Qed.

Lemma c05_offset_balanced n b o : (1 <= n)%nat ->
  b_hdr_ok b = true -> b_off b = Some o -> o_routing_ok o = true -> o_kind o <> BadKind ->
  odfi_ok (b_odfi b) -> wf_entries T (b_entries b) = true -> existsb nonoff (b_entries b) = true ->
  exists b', iter_build T n b = Ret true b' /\ balanced T b' /\ ctl_ok T b' /\
    (length (off_credits T (b_entries b')) <= 1)%nat /\ (length (off_debits T (b_entries b')) <= 1)%nat /\
    b_entries b' = body b ++ new_offsets T o (last_trace (body b)) (credits T (body b)) (debits T (body b)).
Proof.
  intros Hn Hh Eo Hr Hk Ho Hwf Hex. exists (offset_result T o b).
  split; [apply iter_build_offset; auto using offset_table_good|].
  destruct (offset_result_props T o b offset_table_good Hk) as (P1 & P2 & P3 & P4 & _).
  split; [exact P2|]. split; [exact P1|]. split; [exact P3|]. split; [exact P4|]. apply offset_result_entries.
Qed.

Lemma c05_build_total b : build T b <> Panic /\ build T b <> Hang.
Proof. apply build_total, offset_table_good. Qed.

Lemma c05_history_total ops f : run T ops f <> Panic /\ run T ops f <> Hang.
Proof. destruct (run_total T ops offset_table_good f) as (ok & f' & ->). split; discriminate. Qed.

Lemma c05_history_create ops i f f' b' :
  file_wf T f = true -> forallb (op_wf T) ops = true ->
  run T (ops ++ [BatchCreate i]) f = Ret true f' -> nth_error (f_batches f') i = Some b' ->
  ctl_ok T b' /\
  (b_off b' <> None -> balanced T b' /\ (length (off_credits T (b_entries b')) <= 1)%nat
                       /\ (length (off_debits T (b_entries b')) <= 1)%nat).
Proof. apply history_create, offset_table_good. Qed.

Lemma c05_history_file_stable ops f f' : run T (ops ++ [FileCreate]) f = Ret true f' ->
  run T (ops ++ [FileCreate; FileCreate]) f = Ret true f'.
Proof. apply history_file_stable. Qed.

Lemma c05_file_idempotent f f' : file_create f = Ret true f' -> file_create f' = Ret true f'.
Proof. apply file_create_idem. Qed.

Lemma c05_file_numbers f f' i b : forallb (fun b => b_num b <=? 1) (f_batches f) = true ->
  file_create f = Ret true f' -> nth_error (f_batches f') i = Some b ->
  b_num b = 1 + Z.of_nat i /\ c_num (b_ctl b) = 1 + Z.of_nat i /\ f_ctl f' = file_control (f_batches f').
Proof.
  intros Hall H Hn. unfold file_create in H. destruct (f_hdr_ok f); cbn [negb] in H; [|discriminate].
  destruct (f_batches f) as [|x xs] eqn:E; [discriminate|]. rewrite <- E in H. injection H as <-.
  cbn [f_batches f_ctl] in *. rewrite E in Hn. destruct (renumber_absent _ 1 Hall i b Hn). auto.
Qed.

(* ------------------------------------------------------------------ non-vacuity *)

Definition ex_entry (code amt : Z) (off : bool) (trace : Z) : entry := mkentry code amt off trace 0 23138010.
Definition ex_ctl0 : control := mkctl 0 0 0 0 0 0.
Definition ex_off : offcfg := mkoff true Checking 12104288.
(* three entries without traces, one user entry named OFFSET, checking offset configured *)
Definition ex_batch : batch :=
  mkbatch true 12104288 220 1
    [ex_entry 22 100 false 0; ex_entry 27 40 false 0; ex_entry 22 5 true 0; ex_entry 32 250 false 121042880000009]
    ex_ctl0 (Some ex_off).

Definition three_entries_ex : batch :=
  mkbatch true 12104288 200 1
    [ex_entry 22 100 false 0; ex_entry 22 200 false 0; ex_entry 27 50 false 0] ex_ctl0 (Some ex_off).

Lemma ex_batch_hyps :
  b_hdr_ok ex_batch = true /\ o_routing_ok ex_off = true /\ o_kind ex_off <> BadKind /\ odfi_ok (b_odfi ex_batch) /\
  wf_entries T (b_entries ex_batch) = true /\ existsb nonoff (b_entries ex_batch) = true.
Proof. repeat split; try reflexivity; try discriminate; unfold odfi_ok; cbn; lia. Qed.

(* the first build: traces 1,2 assigned, the pre-set trace kept, the user's OFFSET entry
   replaced by a 350 debit and a 40 credit offset; the second build returns the same batch *)
Lemma ex_batch_build :
  build T ex_batch = Ret true
    (mkbatch true 12104288 200 1
       [ex_entry 22 100 false 121042880000001; ex_entry 27 40 false 121042880000002;
        ex_entry 32 250 false 121042880000009;
        mkentry 27 350 true 121042880000010 0 12104288; mkentry 22 40 true 121042880000011 0 12104288]
       (mkctl 200 1 5 (Z.rem (3 * 23138010 + 2 * 12104288) P10) 390 390) (Some ex_off))
  /\ iter_build T 4 ex_batch = build T ex_batch.
Proof. vm_compute. split; reflexivity. Qed.

(* ascending traces: three entries without traces and an offset *)
Lemma ex_ascending :
  all_absent (b_odfi three_entries_ex) (b_entries three_entries_ex) = true /\
  match build T three_entries_ex with
  | Ret true b' => map e_trace (b_entries b') =
      [121042880000001; 121042880000002; 121042880000003; 121042880000004; 121042880000005]
  | _ => False
  end.
Proof. vm_compute. split; reflexivity. Qed.

(* a history: create, add an entry, create, file create twice *)
Definition ex_file : file := mkfile true [ex_batch; ex_batch] (mkfctl 0 0 0 0 0 0).
Definition ex_ops : list op :=
  [BatchCreate 0; AddEntry 0 (ex_entry 27 7 false 0); BatchCreate 0; BatchCreate 1; FileCreate].
Lemma ex_history :
  file_wf T ex_file = true /\ forallb (op_wf T) ex_ops = true /\
  match run T (ex_ops ++ [BatchCreate 0]) ex_file with
  | Ret true f' => forallb (ctl_okb T) (f_batches f') = true /\ map b_num (f_batches f') = [1; 2]
  | _ => False
  end.
Proof. vm_compute. repeat split; reflexivity. Qed.

(* ------------------------------------------------------------------ the repaired defect *)

(* upsertOffsets as it was before commit "fix: upsertOffsets removes the old offset entry with
   Entries[i+1:]": identical table, tail slice Entries[i+i:] *)
Definition unfixed_table : otable :=
  mkotable (t_credit T) (t_debit T) (t_rm_credit T) TailDouble true
           (t_deb_chk T) (t_deb_sav T) (t_cre_chk T) (t_cre_sav T) false.

Definition three_entries : batch :=
  mkbatch true 12104288 200 1
    [ex_entry 22 100 false 0; ex_entry 22 200 false 0; ex_entry 27 50 false 0] ex_ctl0 (Some ex_off).

(* second Create of a batch with three entries and an offset: slice bounds out of range [6:5] *)
Lemma unfixed_second_create_panics :
  exists b1, build unfixed_table three_entries = Ret true b1 /\ build unfixed_table b1 = Panic.
Proof.
  exists (match build unfixed_table three_entries with Ret _ b => b | _ => three_entries end).
  split; vm_compute; reflexivity.
Qed.

(* entry 0 named OFFSET: the loop makes no progress *)
Lemma unfixed_entry0_offset_hangs :
  build unfixed_table (mkbatch true 12104288 200 1 [ex_entry 22 100 true 0; ex_entry 22 200 false 0] ex_ctl0 (Some ex_off)) = Hang.
Proof. vm_compute. reflexivity. Qed.

(* an OFFSET entry at index 2 of 6: two entries are dropped, the batch no longer matches its control *)
Lemma unfixed_drops_entries :
  match build unfixed_table (mkbatch true 12104288 200 1
          [ex_entry 22 1 false 0; ex_entry 22 2 false 0; ex_entry 27 3 true 0; ex_entry 22 4 false 0;
           ex_entry 22 5 false 0; ex_entry 22 6 false 0] ex_ctl0 (Some ex_off)) with
  | Ret true b' => ctl_okb unfixed_table b' = false
  | _ => False
  end.
Proof. vm_compute. reflexivity. Qed.

Lemma unfixed_table_rejected : table_ok unfixed_table = false.
Proof. vm_compute. reflexivity. Qed.

(* an entry named OFFSET by the user with a code the removal loop books differently from
   calculateBatchAmounts (GL credit 42): outside [wf_entries]; the control no longer matches *)
Lemma offset_named_gl_credit_outside_wf :
  wf_entryb T (ex_entry 42 100 true 0) = false /\
  match build T (mkbatch true 12104288 200 1 [ex_entry 42 100 true 0; ex_entry 27 500 false 0] ex_ctl0 (Some ex_off)) with
  | Ret true b' => ctl_okb T b' = false
  | _ => False
  end.
Proof. vm_compute. split; reflexivity. Qed.

(* Obligations and instances for the general C03 statements (Props/C03General.v):
   the ADV code list of the regenerated tables is exactly 81..88, instantiation of
   the generic theorems at the regenerated tables, non-vacuity examples. *)
From Coq Require Import List Bool ZArith.
From ACH Require Import ArithGenFacts Tables C03Obl.
Open Scope Z_scope.

Lemma gen_advcodes_ok : advcodes_ok gen_tables = true.
Proof. vm_compute. reflexivity. Qed.

Lemma c03_advcodes c : memz c (t_advcodes T) = adv_code c.
Proof. apply advcodes_sound; [exact gen_tables_ok|exact gen_advcodes_ok]. Qed.

Lemma c03_batch_arith_general b : validate_batch T b = ROk ->
  bc_count (bt_ctl b) = spec_count (bt_entries b) /\
  bc_debit (bt_ctl b) = gen_debit (bt_kind b) (bt_entries b) /\
  bc_credit (bt_ctl b) = gen_credit (bt_kind b) (bt_entries b) /\
  bt_class b = bc_class (bt_ctl b) /\ bt_odfi b = bc_odfi (bt_ctl b) /\ bt_number b = bc_number (bt_ctl b) /\
  bc_hash (bt_ctl b) = gen_hash (bt_entries b) /\
  bc_credit (bt_ctl b) + bc_debit (bt_ctl b) + foreign_amount (bt_kind b) (bt_entries b) = sumz en_amount (bt_entries b).
Proof. apply batch_arith_general; [exact gen_tables_ok|exact gen_advcodes_ok]. Qed.

Lemma c03_totals_regular k es : codes_regular T k es ->
  gen_credit k es = spec_credit k es /\ gen_debit k es = spec_debit k es /\ foreign_amount k es = 0.
Proof. apply gen_totals_regular; [exact gen_tables_ok|exact gen_advcodes_ok]. Qed.

Lemma c03_batch_arith_regular b : validate_batch T b = ROk -> codes_regular T (bt_kind b) (bt_entries b) ->
  bc_count (bt_ctl b) = spec_count (bt_entries b) /\
  bc_debit (bt_ctl b) = spec_debit (bt_kind b) (bt_entries b) /\
  bc_credit (bt_ctl b) = spec_credit (bt_kind b) (bt_entries b) /\
  bt_class b = bc_class (bt_ctl b) /\ bt_odfi b = bc_odfi (bt_ctl b) /\ bt_number b = bc_number (bt_ctl b) /\
  (Forall rdfi_89 (bt_entries b) -> bc_hash (bt_ctl b) = spec_hash (bt_entries b)) /\
  bc_credit (bt_ctl b) + bc_debit (bt_ctl b) = sumz en_amount (bt_entries b).
Proof. apply batch_arith_regular; [exact gen_tables_ok|exact gen_advcodes_ok]. Qed.

(* ---- non-vacuity and witnesses -------------------------------------------------- *)

(* the IAT batch of C03_iat_adv_code_refuted: the general theorem says where the 700 went *)
Lemma general_example_iat :
  validate_batch T iat_adv_code = ROk /\ foreign_amount KIAT (bt_entries iat_adv_code) = 700 /\
  gen_credit KIAT (bt_entries iat_adv_code) = 0 /\ gen_debit KIAT (bt_entries iat_adv_code) = 0.
Proof. vm_compute. repeat split; reflexivity. Qed.

(* an ADV batch with one entry of another family (a return carrying code 22) *)
Definition adv_mixed := mkbatch KADV 280 ex_odfi 1
  [mkentry 81 900 (ds [2;3;1;3;8;0;1;0]) (ds [4]) [] 0; mkentry 82 300 (ds [1;2;1;0;4;2;8;8]) (ds [2]) [] 0;
   mkentry 22 50 (ds [2;3;1;3;8;0;1;0]) (ds [4]) [] 0]
  (mkbctl 280 3 58380308 300 900 ex_odfi 1).
Lemma general_example_adv :
  validate_batch T adv_mixed = ROk /\ foreign_amount KADV (bt_entries adv_mixed) = 50 /\
  gen_credit KADV (bt_entries adv_mixed) = 900 /\ gen_debit KADV (bt_entries adv_mixed) = 300.
Proof. vm_compute. repeat split; reflexivity. Qed.

(* routing numbers stored with their check digit (9 digits): rdfi_89 holds, rdfi_wf does not *)
Definition nine_batch := mkbatch KStd 220 ex_odfi 1
  [mkentry 22 100 (ds [2;3;1;3;8;0;1;0;4]) (ds [4]) (ds [1;2;1;0;4;2;8;8;0;0;0;0;0;0;1]) 0]
  (mkbctl 220 1 23138010 0 100 ex_odfi 1).
Lemma general_example_nine :
  validate_batch T nine_batch = ROk /\ Forall rdfi_89 (bt_entries nine_batch) /\
  ~ Forall rdfi_wf (bt_entries nine_batch) /\ spec_hash (bt_entries nine_batch) = 23138010.
Proof.
  split; [vm_compute; reflexivity|]. split; [constructor; [split; [right; reflexivity|reflexivity]|constructor]|]. split; [|vm_compute; reflexivity].
  intros H. inversion H as [|? ? [Hl _] _]; subst. discriminate Hl.
Qed.

(* the 7 character routing number of C03_hash_short_rdfi_refuted: summand 0 *)
Lemma general_example_short :
  gen_hash (bt_entries short_batch) = 0 /\ spec_hash (bt_entries short_batch) = 2313801.
Proof. vm_compute. split; reflexivity. Qed.

(* ten stored digits with a leading 0: the record shows the first eight digits,
   the hash counts the digits 2..9 *)
Definition ten_batch := mkbatch KStd 220 ex_odfi 1
  [mkentry 22 100 (ds [0;2;3;1;3;8;0;1;0;4]) (ds [4]) (ds [1;2;1;0;4;2;8;8;0;0;0;0;0;0;1]) 0]
  (mkbctl 220 1 23138010 0 100 ex_odfi 1).
Lemma hash_ten_rdfi :
  validate_batch T ten_batch = ROk /\ bc_hash (bt_ctl ten_batch) = 23138010 /\
  spec_hash (bt_entries ten_batch) = 2313801 /\ gen_hash (bt_entries ten_batch) = 23138010.
Proof. vm_compute. repeat split; reflexivity. Qed.

(* a negative summand: eight stored characters "-1234567" (check digit field "-1"
   equals CalculateCheckDigit's error value); Go's % keeps the sign *)
Definition neg_batch := mkbatch KStd 220 ex_odfi 1
  [mkentry 22 100 [45;49;50;51;52;53;54;55]%N [45;49]%N (ds [1;2;1;0;4;2;8;8;0;0;0;0;0;0;1]) 0]
  (mkbctl 220 1 (-1234567) 0 100 ex_odfi 1).
Lemma hash_negative_summand :
  validate_batch T neg_batch = ROk /\ gen_hash (bt_entries neg_batch) = -1234567.
Proof. vm_compute. split; reflexivity. Qed.

(* ---- end to end: file control of a READ and validated file in terms of the ENTRIES ---- *)
(* Composition of c03_read_validate, c03_file_arith / c03_file_arith_adv and
   c03_batch_arith_general: the file control of a file that was read and validated equals
   sums over the entries of every batch of every kind, not only over batch controls. *)
Definition file_entries_spec (f : file) (bs : list batch) : Prop :=
  fc_count (fl_ctl f) = sumz (fun b => spec_count (bt_entries b)) bs /\
  fc_debit (fl_ctl f) = sumz (fun b => gen_debit (bt_kind b) (bt_entries b)) bs /\
  fc_credit (fl_ctl f) = sumz (fun b => gen_credit (bt_kind b) (bt_entries b)) bs /\
  fc_hash (fl_ctl f) = Z.rem (sumz (fun b => gen_hash (bt_entries b)) bs) (10 ^ 10).

Lemma file_sums_entries f bs : file_sums_spec f bs -> Forall (fun b => validate_batch T b = ROk) bs ->
  file_entries_spec f bs.
Proof.
  intros (Hc & Hd & Hcr & Hh) Hall. unfold file_entries_spec.
  assert (Hg : Forall (fun b =>
      bc_count (bt_ctl b) = spec_count (bt_entries b) /\
      bc_debit (bt_ctl b) = gen_debit (bt_kind b) (bt_entries b) /\
      bc_credit (bt_ctl b) = gen_credit (bt_kind b) (bt_entries b) /\
      bc_hash (bt_ctl b) = gen_hash (bt_entries b)) bs).
  { eapply Forall_impl; [|exact Hall]. intros b Hb.
    destruct (c03_batch_arith_general b Hb) as (H1 & H2 & H3 & _ & _ & _ & H7 & _). auto. }
  rewrite Hc, Hd, Hcr, Hh.
  assert (E1 : sumz (fun b => bc_count (bt_ctl b)) bs = sumz (fun b => spec_count (bt_entries b)) bs).
  { apply sumz_ext. eapply Forall_impl; [|exact Hg]. intros b (H1 & _). exact H1. }
  assert (E2 : sumz (fun b => bc_debit (bt_ctl b)) bs = sumz (fun b => gen_debit (bt_kind b) (bt_entries b)) bs).
  { apply sumz_ext. eapply Forall_impl; [|exact Hg]. intros b (_ & H2 & _). exact H2. }
  assert (E3 : sumz (fun b => bc_credit (bt_ctl b)) bs = sumz (fun b => gen_credit (bt_kind b) (bt_entries b)) bs).
  { apply sumz_ext. eapply Forall_impl; [|exact Hg]. intros b (_ & _ & H3 & _). exact H3. }
  assert (E4 : sumz (fun b => bc_hash (bt_ctl b)) bs = sumz (fun b => gen_hash (bt_entries b)) bs).
  { apply sumz_ext. eapply Forall_impl; [|exact Hg]. intros b (_ & _ & _ & H4). exact H4. }
  rewrite E1, E2, E3, E4. repeat split; reflexivity.
Qed.

Lemma c03_read_validate_entries f : read_validate T f = ROk -> is_adv_file f = false ->
  file_entries_spec f (all_batches f).
Proof.
  intros Hr Hadv. destruct (c03_read_validate f Hr) as (Hall & Hv).
  destruct (c03_file_arith f Hv Hadv) as (_ & Hs & _ & _).
  apply file_sums_entries; assumption.
Qed.

Lemma c03_read_validate_entries_adv f : read_validate T f = ROk -> is_adv_file f = true ->
  file_entries_spec f (fl_batches f).
Proof.
  intros Hr Hadv. destruct (c03_read_validate f Hr) as (Hall & Hv).
  destruct (c03_file_arith_adv f Hv Hadv) as (_ & Hs).
  apply file_sums_entries; [exact Hs|].
  unfold all_batches in Hall. apply Forall_app in Hall. exact (proj1 Hall).
Qed.

Lemma read_validate_entries_example :
  read_validate T ex_file = ROk /\ is_adv_file ex_file = false /\ all_batches ex_file <> [].
Proof. vm_compute. repeat split; try reflexivity. discriminate. Qed.

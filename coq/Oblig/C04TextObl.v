(* Obligations for C04 at the text level: the table of protected columns checked by
   reflection against the layouts regenerated from the current source
   (Gen/Layouts.v), the text theorems instantiated with that table and with the
   regenerated code tables (Gen/Tables.v, shared with C03), the blank tails of the
   two file control layouts, and non-vacuity examples on a concrete file written
   through the layouts. *)
From Coq Require Import String List Lia NArith ZArith Bool.
From ACH Require Import TamperText TamperTextFacts TamperTextLift TruncBytes TruncCtl LayoutFacts NumFacts FileStructFacts.
From ACH Require Import Tables C03Obl.
Import ListNotations.
Local Open Scope string_scope.
Local Open Scope list_scope.
Local Open Scope nat_scope.

(* ---- the table against the regenerated layouts ------------------------------------ *)

(* every row: the named field is cut from exactly these columns with parseNumField /
   as a (trimmed) string, no other cut reads them, and String() writes them with
   numericField / Itoa / stringField / raw *)
Lemma protected_columns_ok : forallb pcol_ok protected_columns = true.
Proof. vm_compute. reflexivity. Qed.

Lemma protected_layouts_ok : forallb (fun p => layout_ok (p_layout p)) protected_columns = true.
Proof. vm_compute. reflexivity. Qed.

Lemma protected_columns_46 : length protected_columns = 46.
Proof. reflexivity. Qed.

Lemma pcol_in_ok p : In p protected_columns -> pcol_ok p = true /\ layout_ok (p_layout p) = true.
Proof.
  intros H. split.
  - pose proof protected_columns_ok as A. rewrite forallb_forall in A. now apply A.
  - pose proof protected_layouts_ok as A. rewrite forallb_forall in A. now apply (A p).
Qed.

(* ---- one digit of a protected column -------------------------------------------------- *)

Lemma c04_text_line_digit_changes_field p line j d :
  In p protected_columns -> wf_utf8 line = true -> rune_count line = 94 ->
  j < p_hi p - p_lo p -> is_digit d = true ->
  digitsb (column line (p_lo p) (p_hi p)) = true ->
  nth j (column line (p_lo p) (p_hi p)) 0%N <> d ->
  (p_kind p = CKNum -> (digits_val (column line (p_lo p) (p_hi p)) 0 < max_int64)%Z) ->
  let line' := set_digit line (p_lo p + j) d in
  rune_count line' = 94 /\ wf_utf8 line' = true /\
  (forall g, g <> p_field p -> lookup (parse (p_layout p) line') g = lookup (parse (p_layout p) line) g) /\
  field_change (p_kind p) (lookup (parse (p_layout p) line) (p_field p)) (lookup (parse (p_layout p) line') (p_field p))
               (column line (p_lo p) (p_hi p)) (set_nth j d (column line (p_lo p) (p_hi p))).
Proof. intros Hin. destruct (pcol_in_ok p Hin) as [A B]. now apply line_digit_changes_field. Qed.

Lemma c04_text_digit_changes_field p r j d :
  In p protected_columns -> fitsb (p_layout p) r = true -> col_value_ok p r ->
  j < p_hi p - p_lo p -> is_digit d = true ->
  let L := p_layout p in
  let line := render L r in
  let text := column line (p_lo p) (p_hi p) in
  nth j text 0%N <> d ->
  let line' := set_digit line (p_lo p + j) d in
  rune_count line' = 94 /\ wf_utf8 line' = true /\
  (forall g, g <> p_field p -> lookup (parse L line') g = lookup (parse L line) g) /\
  field_change (p_kind p) (lookup (parse L line) (p_field p)) (lookup (parse L line') (p_field p))
               text (set_nth j d text).
Proof. intros Hin. destruct (pcol_in_ok p Hin) as [A B]. now apply rendered_digit_changes_field. Qed.

(* ---- ... makes the file invalid ----------------------------------------------------------- *)

Lemma c04_tamper_text_line_rejected f s p line j d :
  read_validate T (skel f) = ROk -> Forall (batch_regular T) (all_batches (skel f)) ->
  In p protected_columns -> site_class f s = Some (p_class p) -> site_line f s = Some line ->
  wf_utf8 line = true -> rune_count line = 94 ->
  j < p_hi p - p_lo p -> is_digit d = true ->
  digitsb (column line (p_lo p) (p_hi p)) = true ->
  nth j (column line (p_lo p) (p_hi p)) 0%N <> d ->
  (p_kind p = CKNum -> (digits_val (column line (p_lo p) (p_hi p)) 0 < max_int64)%Z) ->
  read_validate T (skel (tamper f s (p_lo p + j) d)) <> ROk.
Proof.
  intros Hv Hreg Hin Hsc Hsl Hwf Hn Hj Hd Hdig Hne Hmax. destruct (pcol_in_ok p Hin) as [A B].
  exact (tamper_site_rejected T gen_tables_ok f Hv p Hin A B line Hwf Hn j d Hj Hd Hdig Hne Hmax s Hsl Hsc Hreg).
Qed.

Lemma c04_tamper_text_rejected f s p r j d :
  read_validate T (skel f) = ROk -> Forall (batch_regular T) (all_batches (skel f)) ->
  In p protected_columns -> site_class f s = Some (p_class p) ->
  site_line f s = Some (render (p_layout p) r) -> fitsb (p_layout p) r = true -> col_value_ok p r ->
  j < p_hi p - p_lo p -> is_digit d = true ->
  nth j (column (render (p_layout p) r) (p_lo p) (p_hi p)) 0%N <> d ->
  read_validate T (skel (tamper f s (p_lo p + j) d)) <> ROk.
Proof.
  intros Hv Hreg Hin Hsc Hsl Hfit Hval Hj Hd Hne. destruct (pcol_in_ok p Hin) as [A B].
  destruct (rendered_column p r B A Hfit Hval) as (Hwf & Hn & Hdig & Hmax & _).
  now apply (c04_tamper_text_line_rejected f s p (render (p_layout p) r) j d).
Qed.

(* ---- truncation ------------------------------------------------------------------------------ *)

Lemma c04_truncation_bytes f le k :
  le_ok le -> file_typed f = true -> starts99 (f_ctl f) = false -> ascii_records f ->
  read_validate T (skel f) = ROk -> k < length (write le f) ->
  let r := read_text (firstn k (write le f)) in
  r = None \/ r = Some f \/
  exists c, 1 <= c < 94 /\ r = Some (with_ctl f (cut_line (f_ctl f) c)) /\
    (read_validate T (skel (with_ctl f (cut_line (f_ctl f) c))) <> ROk \/
     skel (with_ctl f (cut_line (f_ctl f) c)) = skel f).
Proof. apply truncation_bytes_verdict, gen_tables_ok. Qed.

(* the two file control layouts end in blanks from column 55 / 71 on (the last
   significant column is the end of the credit total); a cut there changes nothing *)
Definition last_significant (adv : bool) : nat := if adv then 71 else 55.

Lemma fctl_tail r : skipn 55 (render L_FileControl r) = repeat sp 39.
Proof.
  unfold render. cbn [L_FileControl l_segs map render_seg concat].
  change 55 with (1 + (6 + (6 + (8 + (10 + (12 + (12 + 0))))))).
  rewrite (skipn_app_len [57%N]) by reflexivity.
  rewrite !skipn_app_len by apply numericField_length.
  cbn [skipn]. now rewrite app_nil_r.
Qed.

Lemma adv_fctl_tail r : skipn 71 (render L_ADVFileControl r) = repeat sp 23.
Proof.
  unfold render. cbn [L_ADVFileControl l_segs map render_seg concat].
  change 71 with (1 + (6 + (6 + (8 + (10 + (20 + (20 + 0))))))).
  rewrite (skipn_app_len [57%N]) by reflexivity.
  rewrite !skipn_app_len by apply numericField_length.
  cbn [skipn]. now rewrite app_nil_r.
Qed.

Lemma fctl_length adv r : length (render (fctl_layout adv) r) = 94.
Proof.
  destruct adv; unfold render; cbn [fctl_layout L_FileControl L_ADVFileControl l_segs map render_seg concat];
    rewrite !app_length, !numericField_length; reflexivity.
Qed.

Lemma c04_truncation_blank_tail adv r c : last_significant adv <= c <= 94 ->
  cut_line (render (fctl_layout adv) r) c = render (fctl_layout adv) r.
Proof.
  intros Hc. apply (cut_in_blank_tail _ (last_significant adv) c (fctl_length adv r) Hc).
  destruct adv; [apply adv_fctl_tail|apply fctl_tail].
Qed.

(* an accepted cut inside the control record (third case above, second alternative): if the
   original entry/addenda count is not zero and its column holds digits, Parse assigns the
   cut record exactly the values of the original one, the unprotected block count included *)
Lemma c04_truncation_ctl_identical f c :
  ascii_records f -> 1 <= c < 94 -> digitsb (column (f_ctl f) 13 21) = true ->
  fc_count (fl_ctl (skel f)) <> 0%Z ->
  skel (with_ctl f (cut_line (f_ctl f) c)) = skel f ->
  parse (fctl_layout (adv_file f)) (cut_line (f_ctl f) c) = parse (fctl_layout (adv_file f)) (f_ctl f).
Proof. apply truncated_ctl_identical. Qed.

(* ---- non-vacuity: a file written through the layouts ------------------------------------------ *)

Definition bs := bytes_of_string.
Definition tx_hdr : recval :=
  [ ("ServiceClassCode", VI 200); ("CompanyName", VS (bs "ACME")); ("CompanyIdentification", VS (bs "123456789"))
  ; ("StandardEntryClassCode", VS (bs "PPD")); ("CompanyEntryDescription", VS (bs "PAYROLL"))
  ; ("EffectiveEntryDate", VS (bs "260930")); ("OriginatorStatusCode", VI 1)
  ; ("ODFIIdentification", VS (bs "12104288")); ("BatchNumber", VI 1) ].
Definition tx_e1 : recval :=
  [ ("TransactionCode", VI 22); ("RDFIIdentification", VS (bs "23138010")); ("CheckDigit", VS (bs "4"))
  ; ("DFIAccountNumber", VS (bs "12345678")); ("Amount", VI 100000); ("IndividualName", VS (bs "Jane Doe"))
  ; ("AddendaRecordIndicator", VI 0); ("TraceNumber", VS (bs "121042880000001")) ].
Definition tx_e2 : recval :=
  [ ("TransactionCode", VI 27); ("RDFIIdentification", VS (bs "12104288")); ("CheckDigit", VS (bs "2"))
  ; ("DFIAccountNumber", VS (bs "744-5678-99")); ("Amount", VI 5000); ("IndividualName", VS (bs "Wade Arnold"))
  ; ("AddendaRecordIndicator", VI 1); ("TraceNumber", VS (bs "121042880000002")) ].
Definition tx_bctl : recval :=
  [ ("ServiceClassCode", VI 200); ("EntryAddendaCount", VI 3); ("EntryHash", VI 35242298)
  ; ("TotalDebitEntryDollarAmount", VI 5000); ("TotalCreditEntryDollarAmount", VI 100000)
  ; ("CompanyIdentification", VS (bs "123456789")); ("ODFIIdentification", VS (bs "12104288")); ("BatchNumber", VI 1) ].
Definition tx_fctl : recval :=
  [ ("BatchCount", VI 1); ("BlockCount", VI 1); ("EntryAddendaCount", VI 3); ("EntryHash", VI 35242298)
  ; ("TotalDebitEntryDollarAmountInFile", VI 5000); ("TotalCreditEntryDollarAmountInFile", VI 100000) ].
Definition tx_file : fileS :=
  mkFile (ex_line T1 65)
    [ mkBatch (render L_BatchHeader tx_hdr)
        [ mkEntry (render L_EntryDetail tx_e1) []; mkEntry (render L_EntryDetail tx_e2) [ex_line T7 68] ]
        (render L_BatchControl tx_bctl) ]
    (render L_FileControl tx_fctl).

Definition good_lineb (l : bytes) : bool :=
  (length l =? 94) && asciib l && FramingBytes.no_nl_bytes l && negb (blank_line l).
Lemma good_lineb_spec l : good_lineb l = true -> good_line l.
Proof.
  unfold good_lineb, good_line. intros H. apply andb_prop in H as [H H4]. apply andb_prop in H as [H H3].
  apply andb_prop in H as [H1 H2]. apply Nat.eqb_eq in H1. apply negb_true_iff in H4. auto.
Qed.

(* the hypotheses of the theorems hold for it *)
Lemma tx_file_ok :
  read_validate T (skel tx_file) = ROk /\ Forall (batch_regular T) (all_batches (skel tx_file)) /\
  file_typed tx_file = true /\ starts99 (f_ctl tx_file) = false /\ ascii_records tx_file /\
  length (write CRLF_b tx_file) = 960.
Proof.
  split; [vm_compute; reflexivity|]. split.
  { constructor; [|constructor]. split; [exact I|]. repeat constructor. }
  split; [vm_compute; reflexivity|]. split; [vm_compute; reflexivity|]. split; [|vm_compute; reflexivity].
  unfold ascii_records. apply Forall_forall. intros l Hl. apply good_lineb_spec.
  assert (A : forallb good_lineb (record_lines tx_file) = true) by (vm_compute; reflexivity).
  rewrite forallb_forall in A. now apply A.
Qed.

Lemma tx_sites :
  site_class tx_file (SEntry 0 0) = Some (RCEntry KStd) /\ site_line tx_file (SEntry 0 0) = Some (render L_EntryDetail tx_e1) /\
  fitsb L_EntryDetail tx_e1 = true /\ col_value_ok (mkpcol (RCEntry KStd) "Amount" 29 39 CKNum) tx_e1 /\
  col_value_ok (mkpcol (RCEntry KStd) "RDFIIdentification" 3 11 CKStr) tx_e1.
Proof.
  split; [vm_compute; reflexivity|]. split; [reflexivity|]. split; [vm_compute; reflexivity|].
  split; [unfold col_value_ok; cbn; unfold max_int64; lia|]. split; reflexivity.
Qed.

(* every kind of protected line, one digit replaced: the first failing rule *)
Lemma tx_tamper_examples :
  read_validate T (skel (tamper tx_file (SEntry 0 0) 38 55)) = RCredit /\       (* amount 100000 -> 100007 *)
  read_validate T (skel (tamper tx_file (SEntry 0 1) 5 55)) = RCheckDigit /\    (* routing number digit *)
  read_validate T (skel (tamper tx_file (SEntry 0 1) 11 55)) = RCheckDigit /\   (* check digit *)
  read_validate T (skel (tamper tx_file (SBatchCtl 0) 12 55)) = RHash /\
  read_validate T (skel (tamper tx_file (SBatchCtl 0) 80 55)) = ROdfi /\
  read_validate T (skel (tamper tx_file (SBatchHdr 0) 93 55)) = RNumber /\
  read_validate T (skel (tamper tx_file SFileCtl 6 55)) = RFBatchCount /\
  read_validate T (skel (tamper tx_file SFileCtl 30 55)) = RFHash.
Proof. vm_compute. repeat split; reflexivity. Qed.

(* truncation of the CRLF text (96 bytes per line, file control = line 6, bytes 576..671):
   99 = no file, otherwise the code of the first failing rule (0 = accepted) *)
Definition verdict_code (text : bytes) : Z :=
  match text_verdict T text with None => 99%Z | Some (_, r) => rule_code r end.

Lemma tx_truncation_examples :
  map (fun k => verdict_code (firstn k (write CRLF_b tx_file))) [0; 95; 500; 576; 577; 590; 600; 620; 630; 631; 671; 672; 673; 674; 959]
  = [99; 99; 99; 99; 16; 17; 18; 19; 19; 0; 0; 0; 99; 0; 0]%Z /\
  read_text (firstn 631 (write CRLF_b tx_file)) = Some tx_file /\
  read_text (write LF_b tx_file) = Some tx_file.
Proof. vm_compute. repeat split; reflexivity. Qed.

(* the side conditions are needed: a 20 digit ADV total holding max_int64 keeps its
   parsed value when the leading 0 is replaced (strconv.Atoi clamps on overflow) *)
Lemma digit_change_needs_range_refuted :
  let text := bs "09223372036854775807" in
  digitsb text = true /\ set_nth 0 49%N text <> text /\ atoi (set_nth 0 49%N text) = atoi text.
Proof. vm_compute. repeat split. discriminate. Qed.

(* a debits-only file: the credit total column holds zeros, a cut inside it (columns 43..54)
   is accepted, the cut line differs from the original line, and the parsed record is
   identical; a cut one column earlier loses the last digit of the debit total: rejected *)
Definition td_bctl : recval :=
  [ ("ServiceClassCode", VI 200); ("EntryAddendaCount", VI 2); ("EntryHash", VI 12104288)
  ; ("TotalDebitEntryDollarAmount", VI 5000); ("TotalCreditEntryDollarAmount", VI 0)
  ; ("CompanyIdentification", VS (bs "123456789")); ("ODFIIdentification", VS (bs "12104288")); ("BatchNumber", VI 1) ].
Definition td_fctl : recval :=
  [ ("BatchCount", VI 1); ("BlockCount", VI 1); ("EntryAddendaCount", VI 2); ("EntryHash", VI 12104288)
  ; ("TotalDebitEntryDollarAmountInFile", VI 5000); ("TotalCreditEntryDollarAmountInFile", VI 0) ].
Definition td_file : fileS :=
  mkFile (ex_line T1 65)
    [ mkBatch (render L_BatchHeader tx_hdr) [ mkEntry (render L_EntryDetail tx_e2) [ex_line T7 68] ] (render L_BatchControl td_bctl) ]
    (render L_FileControl td_fctl).

Lemma td_truncation_example :
  read_validate T (skel td_file) = ROk /\ digitsb (column (f_ctl td_file) 13 21) = true /\
  fc_count (fl_ctl (skel td_file)) = 2%Z /\
  skel (with_ctl td_file (cut_line (f_ctl td_file) 44)) = skel td_file /\
  cut_line (f_ctl td_file) 44 <> f_ctl td_file /\
  parse L_FileControl (cut_line (f_ctl td_file) 44) = parse L_FileControl (f_ctl td_file) /\
  read_validate T (skel (with_ctl td_file (cut_line (f_ctl td_file) 42))) = RFDebit.
Proof. vm_compute. repeat split; try reflexivity. discriminate. Qed.

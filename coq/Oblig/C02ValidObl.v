(* Obligations of C02 "valid => width": the validation rules regenerated from the Go
   source (Gen/RecRules.v) bound every column whose width only validation guarantees,
   except a reviewed list of columns that no rule of the Go code bounds.  Reflection on
   the regenerated tables + instantiation of the generic theorems of RecValidFacts.v +
   non-vacuity examples + _refuted witnesses for the unbounded columns. *)
From Coq Require Import String List Lia NArith ZArith Bool.
From ACH Require Import LayoutOk FieldsFacts LayoutFacts RecValid RecValidFacts Layouts RecRules C01Obl.
Import ListNotations.
Local Open Scope string_scope.

Definition rules_of (L : layout) : rules := rules_in all_rules L.
Definition unbounded_columns (L : layout) : list string := unbounded_names all_rules L.
Definition unbounded_fit (L : layout) (r : recval) : bool := unbounded_fitb all_rules L r.
Definition complete_layouts : list layout := filter (complete_in all_rules) all_layouts.
Definition partial_layouts : list layout := filter (fun L => negb (complete_in all_rules L)) all_layouts.

(* ------------------------------------------------------------------ *)
(* reflection on the regenerated tables                                 *)

(* the record types whose regenerated rules bound every raw / Itoa / custom column *)
Lemma complete_layouts_names :
  map l_name complete_layouts =
  [ "ADVBatchControl"; "ADVFileControl"; "Addenda02"; "Addenda05"; "Addenda10"; "Addenda11"; "Addenda12"
  ; "Addenda13"; "Addenda14"; "Addenda15"; "Addenda16"; "Addenda17"; "Addenda18"; "Addenda98"
  ; "Addenda98Refused"; "Addenda99"; "Addenda99Contested"; "Addenda99Dishonored"; "BatchControl"
  ; "BatchHeader"; "FileControl"; "IATBatchHeader" ].
Proof. vm_compute. reflexivity. Qed.

(* the columns that NO rule of Validate() bounds, today (reviewed: docs/C02.md):
   - CheckDigit (EntryDetail, IATEntryDetail, ADVEntryDetail): compared through strconv.Atoi with the
     computed digit, so "07", "+7", "007" pass for a computed 7;
   - AddendaRecordIndicator: no record level rule (IATEntryDetail only rejects 0); the batch level
     rule is Batch.isAddendaSequence / IATBatch.isAddendaSequence (see C02_indicator_* below);
   - FileHeader.priorityCode: unexported, never checked (set to "01" by NewFileHeader and Parse);
   - FileHeader.FileCreationDate / FileCreationTime: only FileCreationDate <> "" is checked. *)
Lemma unbounded_reviewed :
  map (fun L => (l_name L, unbounded_columns L)) partial_layouts =
  [ ("ADVEntryDetail", ["CheckDigit"; "AddendaRecordIndicator"])
  ; ("EntryDetail", ["CheckDigit"; "AddendaRecordIndicator"])
  ; ("FileHeader", ["priorityCode"; "FileHeader.FileCreationDateField"; "FileHeader.FileCreationTimeField"])
  ; ("IATEntryDetail", ["CheckDigit"; "AddendaRecordIndicator"]) ].
Proof. vm_compute. reflexivity. Qed.

Lemma complete_partial_26 : (length complete_layouts + length partial_layouts = 26)%nat.
Proof. vm_compute. reflexivity. Qed.

Lemma complete_in_all L : In L complete_layouts -> In L all_layouts /\ complete_in all_rules L = true.
Proof. unfold complete_layouts. intros H. now apply filter_In in H. Qed.

Lemma cols_some_in L : In L all_layouts -> is_some (cols L) = true.
Proof.
  intros H. destruct (layout_ok_facts L (layout_ok_in L H)) as [cs F]. now rewrite (ok_cols _ _ F).
Qed.

(* ------------------------------------------------------------------ *)
(* valid => width                                                       *)

Theorem C02_valid_widthb L r : In L complete_layouts ->
  rec_validb (rules_of L) r = true -> utf8b L r = true -> widthb L r = true.
Proof. intros H. apply valid_width. now apply complete_in_all. Qed.

Theorem C02_valid_record_width L r : In L complete_layouts ->
  rec_validb (rules_of L) r = true -> utf8b L r = true -> rune_count (render L r) = 94%nat.
Proof.
  intros H Hv Hu. apply C02_record_width; [now apply complete_in_all|now apply C02_valid_widthb].
Qed.

Theorem C02_valid_record_wf L r : In L complete_layouts ->
  rec_validb (rules_of L) r = true -> utf8b L r = true -> wf_utf8 (render L r) = true.
Proof.
  intros H Hv Hu. apply C02_record_wf; [now apply complete_in_all|now apply C02_valid_widthb].
Qed.

Theorem C02_valid_widthb_partial L r : In L all_layouts ->
  rec_validb (rules_of L) r = true -> utf8b L r = true -> unbounded_fit L r = true -> widthb L r = true.
Proof. intros H. apply valid_width_partial. now apply cols_some_in. Qed.

Theorem C02_valid_record_width_partial L r : In L all_layouts ->
  rec_validb (rules_of L) r = true -> utf8b L r = true -> unbounded_fit L r = true ->
  rune_count (render L r) = 94%nat.
Proof.
  intros H Hv Hu Hn. apply C02_record_width; [exact H|now apply C02_valid_widthb_partial].
Qed.

(* ------------------------------------------------------------------ *)
(* the type code of a valid addenda record is the one of its record type *)

Definition typecode_table : list (string * bytes) :=
  [ ("Addenda02", bs "02"); ("Addenda05", bs "05"); ("Addenda10", bs "10"); ("Addenda11", bs "11")
  ; ("Addenda12", bs "12"); ("Addenda13", bs "13"); ("Addenda14", bs "14"); ("Addenda15", bs "15")
  ; ("Addenda16", bs "16"); ("Addenda17", bs "17"); ("Addenda18", bs "18"); ("Addenda98", bs "98")
  ; ("Addenda98Refused", bs "98"); ("Addenda99", bs "99"); ("Addenda99Contested", bs "99")
  ; ("Addenda99Dishonored", bs "99") ].

Definition has_typecode (L : layout) : bool :=
  existsb (fun s => match s with SRaw f => String.eqb f "TypeCode" | _ => false end) (l_segs L).

(* the table covers exactly the record types that write a TypeCode column *)
Lemma typecode_table_covers : map fst typecode_table = map l_name (filter has_typecode all_layouts).
Proof. vm_compute. reflexivity. Qed.

Definition rules_named (n : string) : rules := rules_in all_rules (mklayout n IRune [] []).

Lemma typecode_pinned :
  forallb (fun p => pins (rules_named (fst p)) "TypeCode" (snd p)) typecode_table = true.
Proof. vm_compute. reflexivity. Qed.

Theorem C02_valid_typecode L code r : In (l_name L, code) typecode_table ->
  rec_validb (rules_of L) r = true -> gets r "TypeCode" = code.
Proof.
  intros Hin Hv. pose proof typecode_pinned as H. rewrite forallb_forall in H. specialize (H _ Hin).
  cbn [fst snd] in H. exact (pins_sound (rules_named (l_name L)) "TypeCode" code r H Hv).
Qed.

(* ------------------------------------------------------------------ *)
(* batch level: AddendaRecordIndicator                                  *)

Definition batch_rules_of (name : string) : rules :=
  match assoc name batch_entry_rules with Some R => R | None => [] end.
Definition subrecords_of (name : string) : list string :=
  match assoc name entry_subrecords with Some l => l | None => [] end.
(* the condition on which the entry loop leaves the function (CTrue if the table has no entry: nothing is inspected) *)
Definition loop_exit_of (name : string) : cond :=
  match assoc name batch_loop_exits with Some X => X | None => CTrue end.
(* isAddendaSequence accepts the entries es (as far as the regenerated rules go) *)
Definition batch_entries_valid (name : string) (es : list recval) : bool :=
  entries_validb (batch_rules_of name) (loop_exit_of name) es.
Definition batch_inspected (name : string) (es : list recval) : list recval := inspected (loop_exit_of name) es.

(* Batch.isAddendaSequence: whichever optional sub-record an entry carries, the rule
   `entry.AddendaRecordIndicator != 1` guarded by its presence is there *)
Lemma std_indicator_guarded :
  forallb (fun g => guarded_bound (batch_rules_of "EntryDetail") g "AddendaRecordIndicator" 1%Z)
          (subrecords_of "EntryDetail") = true.
Proof. vm_compute. reflexivity. Qed.

Lemma std_subrecords_nonempty : subrecords_of "EntryDetail" <> [].
Proof. vm_compute. discriminate. Qed.

(* Batch.isAddendaSequence never leaves its loop early: every entry is inspected *)
Lemma std_loop_no_exit : loop_exit_of "EntryDetail" = CFalse.
Proof. vm_compute. reflexivity. Qed.

Lemma std_inspected es : batch_inspected "EntryDetail" es = es.
Proof.
  unfold batch_inspected. rewrite std_loop_no_exit. apply inspected_all. intros e _. apply may_exit_false.
Qed.

(* IATBatch.isAddendaSequence: unconditional rule, but the loop returns nil on the first correction entry
   (`if entry.isCorrection() { return nil }`): the entries after it are not inspected *)
Lemma iat_indicator_bound : int_bound (batch_rules_of "IATEntryDetail") "AddendaRecordIndicator" 1 = true.
Proof. vm_compute. reflexivity. Qed.

Lemma iat_loop_exit :
  loop_exit_of "IATEntryDetail" = CIntCmp Cne (IField "#Addenda98") (IConst 0%Z).
Proof. vm_compute. reflexivity. Qed.

Theorem C02_indicator_with_addenda es r g : In g (subrecords_of "EntryDetail") ->
  batch_entries_valid "EntryDetail" es = true -> In r es -> (0 < geti r g)%Z ->
  geti r "AddendaRecordIndicator" = 1%Z.
Proof.
  intros Hg Hv Hin Hp. pose proof std_indicator_guarded as H. rewrite forallb_forall in H.
  apply (guarded_bound_sound _ g "AddendaRecordIndicator" 1%Z r (H g Hg)); [|exact Hp].
  apply (entries_valid_in _ _ es r Hv). change (In r (batch_inspected "EntryDetail" es)).
  now rewrite std_inspected.
Qed.

Theorem C02_indicator_iat es r :
  batch_entries_valid "IATEntryDetail" es = true -> In r (batch_inspected "IATEntryDetail" es) ->
  length (itoa (geti r "AddendaRecordIndicator")) = 1%nat.
Proof.
  intros Hv Hin. apply (int_bound_sound _ r "AddendaRecordIndicator" 1 iat_indicator_bound).
  exact (entries_valid_in _ _ es r Hv Hin).
Qed.

(* without correction entries every IAT entry is inspected *)
Lemma iat_inspected_all es : (forall e, In e es -> geti e "#Addenda98" = 0%Z) -> batch_inspected "IATEntryDetail" es = es.
Proof.
  intros H. unfold batch_inspected. rewrite iat_loop_exit. apply inspected_all. intros e He.
  unfold may_exit. cbn [eval evali cmpz]. rewrite (H e He). reflexivity.
Qed.

(* the entries after the first correction entry really are unchecked: a batch of two correction
   entries, the second with indicator 10, is accepted by the regenerated isAddendaSequence rules *)
Lemma iat_later_correction_refuted :
  let c1 := [("AddendaRecordIndicator", VI 1); ("#Addenda98", VI 1)] in
  let c2 := [("AddendaRecordIndicator", VI 10); ("#Addenda98", VI 1)] in
  batch_entries_valid "IATEntryDetail" [c1; c2] = true /\
  batch_inspected "IATEntryDetail" [c1; c2] = [c1] /\
  length (itoa (geti c2 "AddendaRecordIndicator")) = 2%nat /\
  batch_entries_valid "IATEntryDetail" [c2; c1] = false.
Proof. vm_compute. repeat split; reflexivity. Qed.

(* the two unbounded columns of an entry, explicitly *)
Lemma ed_unbounded_eq :
  unbounded_in all_rules L_EntryDetail = [ (11, 1, SRaw "CheckDigit"); (78, 1, SItoa "AddendaRecordIndicator") ]%nat.
Proof. vm_compute. reflexivity. Qed.
Lemma iat_unbounded_eq :
  unbounded_in all_rules L_IATEntryDetail = [ (11, 1, SRaw "CheckDigit"); (78, 1, SItoa "AddendaRecordIndicator") ]%nat.
Proof. vm_compute. reflexivity. Qed.

Example iat_in : In L_IATEntryDetail all_layouts.
Proof. unfold all_layouts. repeat (first [left; reflexivity | right]). Qed.

Lemma utf8b_field L r s f : utf8b L r = true -> In s (l_segs L) -> In f (seg_strs s) -> wf_utf8 (gets r f) = true.
Proof.
  unfold utf8b, seg_utf8b. intros H Hs Hf. rewrite forallb_forall in H. specialize (H s Hs).
  rewrite forallb_forall in H. exact (H f Hf).
Qed.

(* an entry that carries an addenda record, in a batch accepted by Batch.isAddendaSequence: the
   only hypothesis left is the one-character CheckDigit *)
Theorem C02_entry_with_addenda_width es r g : In g (subrecords_of "EntryDetail") ->
  batch_entries_valid "EntryDetail" es = true -> In r es -> (0 < geti r g)%Z ->
  rec_validb (rules_of L_EntryDetail) r = true ->
  utf8b L_EntryDetail r = true -> rune_count (gets r "CheckDigit") = 1%nat ->
  rune_count (render L_EntryDetail r) = 94%nat.
Proof.
  intros Hg Hb Hin Hp Hv Hu Hc. apply (C02_valid_record_width_partial _ r ed_in Hv Hu).
  unfold unbounded_fit, unbounded_fitb. rewrite ed_unbounded_eq.
  unfold seg_widthb; cbn [forallb cs_seg cs_w fst snd].
  rewrite (C02_indicator_with_addenda es r g Hg Hb Hin Hp), Hc.
  rewrite (utf8b_field L_EntryDetail r (SRaw "CheckDigit") "CheckDigit" Hu);
    [reflexivity| cbn; tauto | cbn; tauto].
Qed.

(* an IAT entry the loop of IATBatch.isAddendaSequence inspects (all of them when the batch has no
   correction entry, iat_inspected_all) *)
Theorem C02_iat_entry_width es r :
  batch_entries_valid "IATEntryDetail" es = true -> In r (batch_inspected "IATEntryDetail" es) ->
  rec_validb (rules_of L_IATEntryDetail) r = true ->
  utf8b L_IATEntryDetail r = true -> rune_count (gets r "CheckDigit") = 1%nat ->
  rune_count (render L_IATEntryDetail r) = 94%nat.
Proof.
  intros Hb Hin Hv Hu Hc. apply (C02_valid_record_width_partial _ r iat_in Hv Hu).
  unfold unbounded_fit, unbounded_fitb. rewrite iat_unbounded_eq.
  unfold seg_widthb; cbn [forallb cs_seg cs_w fst snd].
  rewrite (C02_indicator_iat es r Hb Hin), Hc.
  rewrite (utf8b_field L_IATEntryDetail r (SRaw "CheckDigit") "CheckDigit" Hu);
    [reflexivity| cbn; tauto | cbn; tauto].
Qed.

(* ------------------------------------------------------------------ *)
(* non-vacuity: concrete valid records of complete layouts               *)

Example bh_complete : In L_BatchHeader complete_layouts.
Proof. unfold complete_layouts. apply filter_In. split; [exact bh_in|vm_compute; reflexivity]. Qed.
Example bh_valid : rec_validb (rules_of L_BatchHeader) bh_record = true.
Proof. vm_compute. reflexivity. Qed.
Example bh_utf8 : utf8b L_BatchHeader bh_record = true.
Proof. vm_compute. reflexivity. Qed.
Example bh_valid_width : rune_count (render L_BatchHeader bh_record) = 94%nat.
Proof. exact (C02_valid_record_width _ _ bh_complete bh_valid bh_utf8). Qed.
(* the rules bite: service class 20 (two digits), SEC "PP", originator status code 12 are rejected *)
Example bh_rejects :
  rec_validb (rules_of L_BatchHeader) (("ServiceClassCode", VI 20) :: bh_record) = false /\
  rec_validb (rules_of L_BatchHeader) (("StandardEntryClassCode", VS (bs "PP")) :: bh_record) = false /\
  rec_validb (rules_of L_BatchHeader) (("OriginatorStatusCode", VI 12) :: bh_record) = false /\
  rec_validb (rules_of L_BatchHeader) (("OriginatorStatusCode", VI 0) :: bh_record) = false.
Proof. vm_compute. repeat split; reflexivity. Qed.

(* a return addenda with a date of death; a 4-character date of death is rejected *)
Definition a99_record : recval :=
  [ ("TypeCode", VS (bs "99")); ("ReturnCode", VS (bs "R15")); ("OriginalTrace", VS (bs "121042880000001"))
  ; ("DateOfDeath", VS (bs "190816")); ("OriginalDFI", VS (bs "12104288")); ("AddendaInformation", VS (bs ""))
  ; ("TraceNumber", VS (bs "121042880000002")) ].
Example a99_complete : In L_Addenda99 complete_layouts.
Proof.
  unfold complete_layouts. apply filter_In. split; [|vm_compute; reflexivity].
  unfold all_layouts. repeat (first [left; reflexivity | right]).
Qed.
Example a99_valid : rec_validb (rules_of L_Addenda99) a99_record = true.
Proof. vm_compute. reflexivity. Qed.
Example a99_valid_width : rune_count (render L_Addenda99 a99_record) = 94%nat.
Proof. apply (C02_valid_record_width _ _ a99_complete a99_valid). vm_compute. reflexivity. Qed.
Example a99_rejects :
  rec_validb (rules_of L_Addenda99) (("DateOfDeath", VS (bs "1908")) :: a99_record) = false /\
  rec_validb (rules_of L_Addenda99) (("DateOfDeath", VS (bs "")) :: a99_record) = true /\
  rec_validb (rules_of L_Addenda99) (("ReturnCode", VS (bs "R1")) :: a99_record) = false /\
  rec_validb (rules_of L_Addenda99) (("TypeCode", VS (bs "98")) :: a99_record) = false.
Proof. vm_compute. repeat split; reflexivity. Qed.

(* Addenda10: the transaction type code is compared after strings.ToUpper: "web" and the
   four-byte "ıAT" (U+0131, whose upper case is I) are accepted, three characters each *)
Definition a10_record : recval :=
  [ ("TypeCode", VS (bs "10")); ("TransactionTypeCode", VS [196; 177; 65; 84]%N); ("ForeignPaymentAmount", VI 100000)
  ; ("ForeignTraceNumber", VS (bs "")); ("Name", VS (bs "Receiver")); ("EntryDetailSequenceNumber", VI 1) ].
Example a10_complete : In L_Addenda10 complete_layouts.
Proof.
  unfold complete_layouts. apply filter_In. split; [|vm_compute; reflexivity].
  unfold all_layouts. repeat (first [left; reflexivity | right]).
Qed.
Example a10_valid : rec_validb (rules_of L_Addenda10) a10_record = true.
Proof. vm_compute. reflexivity. Qed.
Example a10_valid_width :
  rune_count (render L_Addenda10 a10_record) = 94%nat /\ length (render L_Addenda10 a10_record) = 95%nat.
Proof.
  split; [|vm_compute; reflexivity].
  apply (C02_valid_record_width _ _ a10_complete a10_valid). vm_compute. reflexivity.
Qed.

(* ------------------------------------------------------------------ *)
(* the unbounded columns are really unbounded: accepted records of another width *)

(* EntryDetail: CheckDigit "04" for a computed digit 4 *)
Lemma ed_checkdigit_refuted :
  let r := ("CheckDigit", VS (bs "04")) :: ed_record in
  rec_validb (rules_of L_EntryDetail) r = true /\ utf8b L_EntryDetail r = true /\
  unbounded_fit L_EntryDetail r = false /\ rune_count (render L_EntryDetail r) = 95%nat.
Proof. vm_compute. repeat split; reflexivity. Qed.

(* EntryDetail: nothing bounds the addenda record indicator of an entry on its own *)
Lemma ed_indicator_refuted :
  let r := ("AddendaRecordIndicator", VI 10) :: ed_record in
  rec_validb (rules_of L_EntryDetail) r = true /\ utf8b L_EntryDetail r = true /\
  rune_count (render L_EntryDetail r) = 95%nat.
Proof. vm_compute. repeat split; reflexivity. Qed.

Lemma iat_indicator_refuted :
  let r := ("AddendaRecordIndicator", VI 10) :: iat_record in
  rec_validb (rules_of L_IATEntryDetail) r = true /\ utf8b L_IATEntryDetail r = true /\
  rec_validb (batch_rules_of "IATEntryDetail") r = false /\
  rune_count (render L_IATEntryDetail r) = 95%nat.
Proof. vm_compute. repeat split; reflexivity. Qed.

(* FileHeader: a two-character creation time, a four-character creation date and a
   one-character priority code are accepted by the rules *)
Lemma fh_unbounded_refuted :
  rec_validb (rules_of L_FileHeader) fh_record = true /\
  unbounded_fit L_FileHeader fh_record = true /\
  (let r := ("FileCreationTime", VS (bs "12")) :: fh_record in
   rec_validb (rules_of L_FileHeader) r = true /\ rune_count (render L_FileHeader r) = 90%nat) /\
  (let r := ("FileCreationDate", VS (bs "1908")) :: fh_record in
   rec_validb (rules_of L_FileHeader) r = true /\ rune_count (render L_FileHeader r) = 88%nat) /\
  (let r := ("priorityCode", VS (bs "1")) :: fh_record in
   rec_validb (rules_of L_FileHeader) r = true /\ rune_count (render L_FileHeader r) = 93%nat).
Proof. vm_compute. repeat split; reflexivity. Qed.

(* and the partial theorem applies to the records that do fit *)
Example ed_valid : rec_validb (rules_of L_EntryDetail) ed_record = true.
Proof. vm_compute. reflexivity. Qed.
Example ed_valid_width : rune_count (render L_EntryDetail ed_record) = 94%nat.
Proof. apply (C02_valid_record_width_partial _ _ ed_in ed_valid); vm_compute; reflexivity. Qed.
Example fh_valid_width : rune_count (render L_FileHeader fh_record) = 94%nat.
Proof. apply (C02_valid_record_width_partial _ _ fh_in); vm_compute; reflexivity. Qed.

Print Assumptions C02_valid_widthb.
Print Assumptions C02_valid_record_width.
Print Assumptions C02_valid_widthb_partial.
Print Assumptions C02_valid_typecode.
Print Assumptions C02_entry_with_addenda_width.
Print Assumptions C02_iat_entry_width.

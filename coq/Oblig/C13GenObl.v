(* Phase 3 obligations for C13: instances of ReversalGenFacts at the tables regenerated on this
   run (RT), the offset codes of upsertOffsets through the regenerated switch, non-vacuity
   examples (PRENOTE batch of prenote codes, NOC batch, return batch, batch with an offset
   entry) and the PRENOTE witness seen through the general statement. *)
From Coq Require Import ZArith NArith List Bool Lia.
Import ListNotations.
From ACH Require Import Bytes TxCodes RevTable Reversal ReversalFacts ReversalTable C13Obl ReversalGen ReversalGenFacts.
Open Scope Z_scope.

Lemma c13_batch_general ak d b :
  rbatch_valid_gen ak RT b = true -> all_reversible RT b = true ->
  batch_reversed_gen RT d b (reversal_batch RT d b)
  /\ rbatch_valid_gen ak RT (reversal_batch RT d b) = batch_survives ak RT b.
Proof. apply reversal_batch_general, RT_ok. Qed.

Lemma c13_survives_not_prenote ak b :
  rbatch_valid_gen ak RT b = true -> is_prenote_desc (rb_desc b) = false -> batch_survives ak RT b = true.
Proof. apply survives_not_prenote. Qed.

Lemma c13_survives_prenote ak b :
  rbatch_valid_gen ak RT b = true -> is_prenote_desc (rb_desc b) = true ->
  batch_survives ak RT b = forallb (prenote_coded ak rev_prenote_codes) (rb_entries b).
Proof. apply survives_prenote. Qed.

(* the result is valid: batches not described PRENOTE, and PRENOTE batches of prenote codes *)
Lemma c13_batch_general_valid ak d b :
  rbatch_valid_gen ak RT b = true -> all_reversible RT b = true ->
  (is_prenote_desc (rb_desc b) = false \/ forallb (prenote_coded ak rev_prenote_codes) (rb_entries b) = true) ->
  rbatch_valid_gen ak RT (reversal_batch RT d b) = true.
Proof.
  intros Hv Hr Hc. destruct (c13_batch_general ak d b Hv Hr) as [_ ->].
  destruct (is_prenote_desc (rb_desc b)) eqn:E.
  - rewrite (c13_survives_prenote ak b Hv E). destruct Hc as [Hc|Hc]; [discriminate|exact Hc].
  - now apply c13_survives_not_prenote.
Qed.

Lemma c13_file_general ak d t f :
  rfile_valid_gen ak RT f = true -> file_all_reversible RT f = true ->
  exists f', reversal_file RT d t f = ROk f' /\ file_reversed_gen RT ak d t f f'.
Proof. apply reversal_file_general, RT_ok. Qed.

Lemma c13_twice_general d1 d2 b : all_reversible RT b = true ->
  let b2 := reversal_batch RT d2 (reversal_batch RT d1 b) in
  rb_entries b2 = rb_entries b /\ rb_debit b2 = rb_debit b /\ rb_credit b2 = rb_credit b.
Proof. apply reversal_twice_general, RT_ok. Qed.

Lemma c13_offsets_reversed off d b : all_reversible RT b = true ->
  offsets_consistent off rev_amount_arms (rb_entries (reversal_batch RT d b)) = offsets_consistent off rev_amount_arms (rb_entries b)
  /\ offset_codes off (rb_entries (reversal_batch RT d b)) = map (rev_code reversal_arms) (offset_codes off (rb_entries b)).
Proof. apply (offsets_reversed RT RT_ok). Qed.

Lemma c13_valid_gen_forward b : rbatch_valid_gen (fun _ => AForward) RT b = rbatch_valid RT b.
Proof. apply rbatch_valid_gen_forward. Qed.

(* the four codes upsertOffsets gives an OFFSET entry (checking / savings, credit / debit) are
   exchanged pairwise by the regenerated switch *)
Lemma offset_codes_reversed : map (rev_code reversal_arms) [22; 27; 32; 37] = [27; 22; 37; 32].
Proof. vm_compute. reflexivity. Qed.

(* ---- examples ------------------------------------------------------------------------------ *)

Definition dPRENOTE : bytes := [80; 82; 69; 78; 79; 84; 69]%N.
Definition dPAY : bytes := [80; 65; 89]%N.
Definition dDATE : bytes := [49; 57; 48; 56; 49; 54]%N.

(* ids 1..9 forward, 10..19 NOC (Addenda98), 20..29 return (Addenda99), 30.. forward; 30.. are OFFSET entries *)
Definition ex_ak (id : N) : akind :=
  if (id <? 10)%N then AForward else if (id <? 20)%N then ANoc else if (id <? 30)%N then AReturn else AForward.
Definition ex_off (id : N) : bool := (30 <=? id)%N.

(* described PRENOTE, prenote codes only *)
Definition g_prenote : rbatch := mkrbatch 200 200 dPRENOTE dDATE 0 0 [mkentry 23 0 1%N 1%N; mkentry 38 0 2%N 2%N].
(* a COR-like batch: NOC entries carry amount 0 on ReturnNOC codes *)
Definition g_noc : rbatch := mkrbatch 200 200 dPAY dDATE 0 0 [mkentry 21 0 10%N 1%N; mkentry 36 0 11%N 2%N].
(* returns: a returned debit and a returned prenote (amount 0 on an ordinary code is allowed) *)
Definition g_return : rbatch := mkrbatch 200 200 dPAY dDATE 40 0 [mkentry 26 40 20%N 1%N; mkentry 21 0 21%N 2%N].
(* two credits balanced by the debit OFFSET entry Create appended *)
Definition g_offset : rbatch :=
  mkrbatch 200 200 dPAY dDATE 150 150 [mkentry 22 100 3%N 1%N; mkentry 32 50 4%N 2%N; mkentry 27 150 30%N 3%N].
Definition g_file : rfile := mkrfile [49]%N [50]%N [g_prenote; g_noc; g_return; g_offset] 190 150.

Example g_hyps :
  rfile_valid_gen ex_ak RT g_file = true /\ file_all_reversible RT g_file = true
  /\ forallb (batch_survives ex_ak RT) (rf_batches g_file) = true
  /\ is_prenote_desc (rb_desc g_prenote) = true
  /\ offsets_consistent ex_off rev_amount_arms (rb_entries g_offset) = true
  /\ rbatch_valid RT g_noc = false /\ rbatch_valid RT g_return = false.
Proof. vm_compute. repeat split; reflexivity. Qed.

Example g_reversed :
  reversal_file RT [51]%N [52]%N g_file =
  ROk (mkrfile [51]%N [52]%N
         [ mkrbatch 200 200 reversal_description [51]%N 0 0 [mkentry 28 0 1%N 1%N; mkentry 33 0 2%N 2%N]
         ; mkrbatch 200 200 reversal_description [51]%N 0 0 [mkentry 26 0 10%N 1%N; mkentry 31 0 11%N 2%N]
         ; mkrbatch 200 200 reversal_description [51]%N 0 40 [mkentry 21 40 20%N 1%N; mkentry 26 0 21%N 2%N]
         ; mkrbatch 200 200 reversal_description [51]%N 150 150 [mkentry 27 100 3%N 1%N; mkentry 37 50 4%N 2%N; mkentry 22 150 30%N 3%N] ]
         150 190).
Proof. vm_compute. reflexivity. Qed.

Example g_reversed_valid :
  match reversal_file RT [51]%N [52]%N g_file with
  | ROk f' => rfile_valid_gen ex_ak RT f' = true
              /\ forallb (fun b => offsets_consistent ex_off rev_amount_arms (rb_entries b)) [nth 3 (rf_batches f') g_noc] = true
  | RErrNoBatches => False
  end.
Proof. vm_compute. split; reflexivity. Qed.

(* the known finding through the general statement: described PRENOTE with an ordinary code *)
Example g_prenote_witness :
  rbatch_valid_gen ex_ak RT prenote_batch = true /\ all_reversible RT prenote_batch = true
  /\ batch_survives ex_ak RT prenote_batch = false
  /\ rbatch_valid_gen ex_ak RT (reversal_batch RT [50]%N prenote_batch) = false.
Proof. vm_compute. repeat split; reflexivity. Qed.

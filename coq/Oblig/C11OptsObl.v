(* C11, phase 4: obligations, examples and the refuted statement for the option
   handling of SegmentFile (Model/SegmentOpts.v) over the tables of this run. *)
From Coq Require Import ZArith NArith List Bool.
Import ListNotations.
From ACH Require Import TxCodes RevTable SegTable Segment SegmentTable C11Obl SegmentOpts SegmentOptsFacts OptSitesObl.
From ACH Require MergeOpts MergeOptsFacts.
Open Scope Z_scope.

Definition segment_opts_view_ST := segment_opts_view ST.

(* ---- non-vacuity: a file carrying BypassDestinationValidation with a mixed batch that
   carries CustomTraceNumbers, a credits-only batch carrying nothing and a mixed IAT
   batch carrying BypassOriginValidation *)
Definition o_dest : vopts := Some (MergeOpts.mkOpts [false; false; false; true; false] None).
Definition o_custom : vopts := Some (MergeOpts.mkOpts [false; false; false; false; true] None).
Definition o_origin : vopts := Some (MergeOpts.mkOpts [false; false; true; false; false] None).

Definition example_file : sfileo :=
  mksfo o_dest
    [ mksbo (mksb false 200 1 7 100 50 [mkentry 22 100 1 1; mkentry 27 50 2 2]) o_custom
    ; mksbo (mksb false 220 2 8 30 0 [mkentry 22 30 3 1]) None ]
    [ mksbo (mksb false 200 3 9 10 20 [mkentry 22 10 4 1; mkentry 27 20 5 2]) o_origin ].

Example example_view :
  segment_opts_view_ST example_file
  = ((o_dest,
      [Some (MergeOpts.mkOpts [false; false; false; true; true] None); None],
      [Some (MergeOpts.mkOpts [false; false; true; true; false] None)]),
     (o_dest,
      [Some (MergeOpts.mkOpts [false; false; false; true; true] None)],
      [Some (MergeOpts.mkOpts [false; false; true; true; false] None)])).
Proof. vm_compute. reflexivity. Qed.

(* the mixed batch of the example is split by the tables of this run, the credits-only one is not *)
Example example_splits :
  splits_std ST (mksbo (mksb false 200 1 7 100 50 [mkentry 22 100 1 1; mkentry 27 50 2 2]) o_custom) = true
  /\ splits_std ST (mksbo (mksb false 220 2 8 30 0 [mkentry 22 30 3 1]) None) = false
  /\ splits_iat ST (mksbo (mksb false 200 3 9 10 20 [mkentry 22 10 4 1; mkentry 27 20 5 2]) o_origin) = true.
Proof. vm_compute. repeat split. Qed.

(* ---- before 9ad8a729: the credit half of the mixed batch carries nothing, although the
   batch it comes from carries CustomTraceNumbers *)
Lemma opts_kept_unfixed_refuted :
  exists f b o, In b (sfo_batches f) /\ In o (part_opts false ST true (sfo_opts f) b)
    /\ MergeOpts.oflag MergeOpts.ix_custom_trace (so_opts b) = true
    /\ ~ MergeOptsFacts.osub (so_opts b) o.
Proof.
  exists example_file, (mksbo (mksb false 200 1 7 100 50 [mkentry 22 100 1 1; mkentry 27 50 2 2]) o_custom), None.
  split; [now left|]. split; [vm_compute; now left|]. split; [reflexivity|].
  intros H. exact H.
Qed.

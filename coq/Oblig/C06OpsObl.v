(* Reflection obligations, refutation witnesses and non-vacuity examples for the C06 shape model
   (phase 2): coq/Model/TotalOps.v, TotalJson.v against the type-aware site table regenerated from the
   current source (Gen/OpSites.v). *)
From Coq Require Import String List Bool Arith.
Import ListNotations.
From ACH Require Import PartialTable PartialAccounted OpSiteTable OpsCovered OpSites TotalOps TotalOpsFacts TotalJson TotalJsonFacts.

(* ---- the table ties *)

(* every unguarded dereference of an optional sub-record inside a function the model transcribes is one
   the model accounts for; nothing the translator did not understand occurs in those functions *)
Lemma ops_sites_covered : covered_ok ops_functions ops_cover op_sites = true.
Proof. vm_compute. reflexivity. Qed.

(* … with exactly the recorded number of occurrences per function and pointer *)
Lemma ops_cover_exact : cover_exact ops_functions ops_cover op_sites = true.
Proof. vm_compute. reflexivity. Qed.

(* the reasons value / map / nil-safe / loop-bound / sort-less / last / ops-model of PartialAccounted.accounted
   are what the regenerated table says about those sites *)
Lemma accounted_refined : refined_ok ops_cover accounted op_sites = true.
Proof. vm_compute. reflexivity. Qed.

(* the 22 Batcher implementations: Validate goes through verify() first, Create is build(); Validate() *)
Lemma batchers_uniform : batchers_ok batcher_names batcher_types = true.
Proof. vm_compute. reflexivity. Qed.

(* the nil receivers the model relies on are accepted by the source *)
Lemma nil_receivers_accepted : nil_safe_ok nil_safe_needed nil_safe_methods = true.
Proof. vm_compute. reflexivity. Qed.

Lemma ops_sites_covered_meaning s :
  In s op_sites -> In (o_func s) ops_functions -> is_ptr s = true ->
  exists c, In c ops_cover /\ c_func c = o_func s /\ c_path c = o_path s.
Proof. apply covered_sound, ops_sites_covered. Qed.

(* how many of the sites that phase 1 left to search are now discharged, by reason (exact counts are
   in the evidence file; these bounds break when a discharged site falls back) *)
Lemma search_only_remaining : count_reason "search-only:" accounted <=? 18 = true.
Proof. vm_compute. reflexivity. Qed.
Lemma discharged_by_model : 94 <=? count_reason "ops-model:" accounted = true.
Proof. vm_compute. reflexivity. Qed.
Lemma discharged_by_type :
  78 <=? count_reason "value:" accounted + count_reason "map:" accounted + count_reason "nil-safe:" accounted
         + count_reason "loop-bound:" accounted + count_reason "sort-less:" accounted + count_reason "last:" accounted = true.
Proof. vm_compute. reflexivity. Qed.

(* ---- witness shapes *)

Definition ent (c : cat) (code : nat) : entry := mkentry c code false false false false false false [] false.
Definition ppd_batch : batch :=
  mkbatch (KSec PPD) (Some (mkheader PPD Mixed)) true false false
    [Some (mkentry CFwd 22 false false false false false false [true] false); Some (ent CFwd 27)] [].
Definition mte_batch : batch :=
  mkbatch (KSec MTE) (Some (mkheader MTE Debits)) true false false
    [Some (mkentry CFwd 27 true false false false false false [] false)] [].
Definition cor_batch : batch :=
  mkbatch (KSec COR) (Some (mkheader COR Credits)) true false false
    [Some (mkentry CNOC 21 false true false false false false [] false)] [].
Definition adv_batch : batch :=
  mkbatch (KSec ADV) (Some (mkheader ADV Advices)) false true false [] [Some (mkadv CFwd 81 false); Some (mkadv CFwd 82 true)].
Definition iat_b : iat_batch :=
  mkib (Some (mkih Mixed false)) true
    [Some (mkie CFwd 22 true true true true true true true false false [true] [true; true]);
     Some (mkie CFwd 27 true true true true true true true false false [] [])].
Definition good_file : file := mkfile [Some ppd_batch; Some mte_batch; Some cor_batch] [iat_b].
Definition adv_file : file := mkfile [Some adv_batch] [].

(* non-vacuity: the hypotheses of the totality theorems hold for files with every kind of content, and
   on them the operations do run to the end (OK, not an early error) under the all-true oracle *)
Lemma wf_examples :
  wf_file_strict good_file = true /\ wf_file_strict adv_file = true /\ file_class good_file = ShWf /\
  (exists s o, run_ops [OValidate; OCreate; OWrite; OSegment; OFlatten; OMerge; OReversal; OBatchCreate] good_file [] = OK tt s o) /\
  (exists s o, run_op OValidate good_file [] = OK tt s o) /\
  (exists s o, run_op OFlatten good_file [] = OK tt s o) /\
  (exists s o, run_op OSegment adv_file [] = OK tt s o) /\
  (exists s o, run_op OReversal adv_file [] = OK tt s o).
Proof. vm_compute. repeat split; eauto. Qed.

(* the data-dependent reasoning that protects entry.Addenda02.TerminalState (BatchMTE/POS/SHR.Validate):
   without Addenda02 the inclusion check returns an error first; with a return category the line is skipped *)
Lemma mte_without_addenda02 :
  let b := set_entries [Some (ent CFwd 27)] mte_batch in
  wf_batch b = true /\ (exists s o, batch_validate b tt [] = ERR s o) /\
  (exists s o, batch_validate (set_entries [Some (mkentry CRet 26 false false false true false false [] false)] mte_batch) tt [] = OK tt s o).
Proof. vm_compute. repeat split; eauto. Qed.

(* refutation: each class of ill-formed shape makes some operation panic in the model (each witness is
   replayed on the real code from corpus/C06/ops-*.json; the finding keys are shape:<class>) *)
Definition nil_batcher_file : file := mkfile [Some ppd_batch; None] [].
Definition nil_header_file : file := mkfile [Some (set_header None ppd_batch)] [].
Definition adv_then_nil_header : file := mkfile [Some adv_batch; Some (set_header None adv_batch)] [].
Definition nil_control_file : file := mkfile [Some (set_control false ppd_batch)] [].
Definition nil_advcontrol_file : file := mkfile [Some (set_adv false adv_batch)] [].
Definition nil_entry_file : file := mkfile [Some (set_entries [Some (ent CFwd 22); None] ppd_batch)] [].
Definition nil_addenda_file : file :=
  mkfile [Some (set_entries [Some (mkentry CFwd 22 false false false false false false [false] false)] ppd_batch)] [].
Definition nil_iat_header_file : file := mkfile [] [mkib None true (ib_entries iat_b)].
Definition nil_iat_control_file : file := mkfile [] [mkib (ib_header iat_b) false (ib_entries iat_b)].
Definition nil_iat_entry_file : file := mkfile [] [mkib (ib_header iat_b) true [None]].
Definition nil_iat_addenda_file : file :=
  mkfile [] [mkib (ib_header iat_b) true [Some (mkie CFwd 22 true true true true true true true false false [false] [])]].
Definition unknown_sec_file : file :=
  mkfile [Some (mkbatch KBase (Some (mkheader IAT Mixed)) true false false [Some (ent CFwd 22)] [])] [].

Lemma ops_total_refuted_witnesses :
  (file_class nil_batcher_file = ShNilBatcher /\ run_op OValidate nil_batcher_file [] = PANIC) /\
  (file_class nil_header_file = ShNilHeader /\ run_op OBatchValidate nil_header_file [] = PANIC) /\
  (file_class adv_then_nil_header = ShNilHeader /\ run_op OValidate adv_then_nil_header [] = PANIC) /\
  (file_class nil_control_file = ShNilControl /\ run_op OBatchValidate nil_control_file [] = PANIC) /\
  (file_class nil_advcontrol_file = ShNilControl /\ run_op OCreate nil_advcontrol_file [] = PANIC) /\
  (file_class nil_entry_file = ShNilEntry /\ run_op OValidate nil_entry_file [] = PANIC) /\
  (file_class nil_addenda_file = ShNilAddenda /\ run_op OValidate nil_addenda_file [] = PANIC) /\
  (file_class nil_iat_header_file = ShNilIATHeader /\ run_op OCreate nil_iat_header_file [] = PANIC) /\
  (file_class nil_iat_control_file = ShNilIATControl /\ run_op OCreate nil_iat_control_file [] = PANIC) /\
  (file_class nil_iat_entry_file = ShNilIATEntry /\ run_op OWriteBypass nil_iat_entry_file [] = PANIC) /\
  (file_class nil_iat_addenda_file = ShNilIATAddenda /\ run_op OBatchCreate nil_iat_addenda_file [] = PANIC) /\
  (wf_file unknown_sec_file = true /\ wf_file_strict unknown_sec_file = false /\ panics (run_op OFlatten unknown_sec_file []) = false).
Proof. vm_compute. repeat split. Qed.

(* File.IsADV installs missing headers and controls: a file-level operation does not panic on a missing
   BatchControl or on a missing header in front of the first ADV batch (it returns errors instead) *)
Lemma is_adv_patches :
  panics (run_op OValidate nil_control_file []) = false /\ panics (run_op OValidate nil_header_file []) = false /\
  panics (run_op OCreate nil_control_file []) = false.
Proof. vm_compute. repeat split. Qed.

(* the statement without the well-formedness hypothesis is false *)
Lemma ops_total_refuted : exists f xs o, panics (run_ops xs f o) = true.
Proof. exists nil_batcher_file, [OValidate], []. vm_compute. reflexivity. Qed.

(* the defect fixed by 7f797c26 stays excluded: a batch with a non-ADV SEC code that only holds ADV entries
   is well-formed and Validate returns an error *)
Definition only_adv_entries_under_ppd : batch :=
  mkbatch (KSec PPD) (Some (mkheader PPD Mixed)) true false false [] [Some (mkadv CFwd 81 false)].
Lemma only_adv_entries_no_panic :
  wf_batch only_adv_entries_under_ppd = true /\ exists s o, batch_validate only_adv_entries_under_ppd tt [] = ERR s o.
Proof. vm_compute. split; eauto. Qed.

(* ---- JSON *)

(* a decoded document full of nulls: null batch, batch without header, null entry, null Addenda05, null
   controls, IAT batch without header, null IAT entry and addenda *)
Definition null_doc : file :=
  mkfile [None;
          Some (mkbatch KBase None true true false [Some (ent CFwd 22)] []);
          Some (mkbatch KBase (Some (mkheader PPD Mixed)) false false false
                  [None; Some (mkentry CFwd 22 false false false false false false [false; true] false); None] [None])]
         [mkib None false [None];
          mkib (Some (mkih Mixed false)) false
            [None; Some (mkie CFwd 22 true true true true true true true false false [false] [false; true])]].

Lemma json_null_document :
  exists f s o, file_from_json null_doc tt [] = OK (f, true) s o /\ wf_file f = true /\
                length (f_batches f) = 1 /\ length (f_iat f) = 1.
Proof. vm_compute. eexists. eexists. eexists. repeat split. Qed.

(* ---- server *)

Definition sample_requests : list route :=
  [RCreateFile 1 (BJson null_doc); RCreateFile 2 (BText good_file); RCreateFile 3 BNoFile;
   RGetFiles; RGetFile 1; RBuild 1; RContents 2; RValidateGet 2; RValidatePost 9;
   RCreateBatch 1 (mkfile [Some ppd_batch] []); RGetBatches 1; RGetBatch 1 0; RDeleteBatch 1 0;
   RBalance 2 true 17; RSegmentID 2 10 11; RSegment BNoFile 12 13; RSegment (BJson null_doc) 14 15;
   RFlatten 2 16; RDeleteFile 3; RPing; RPreflight].

Lemma handlers_example :
  forallb (route_ok true) sample_requests = true /\
  exists r o, serve sample_requests [] [] = OK tt r o /\ 4 <=? length r = true.
Proof. vm_compute. split; [reflexivity|]. eexists. eexists. split; reflexivity. Qed.

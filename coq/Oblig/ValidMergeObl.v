(* Phase 2 obligations for C09: instances at the regenerated validator tables, payload
   preservation, non-vacuity example (two files with Equal headers merged into one batch). *)
From Coq Require Import Lia.
From ACH Require Import ValidOut ValidOutFacts Tables.
From ACH Require Import Bytes Merge MergeFacts.
From ACH Require Import ValidMerge ValidMergeFacts.
Open Scope Z_scope.

Notation GA := gen_tables.

Lemma c09_batch_arith_valid mp fs c : inputs_valid GA mp fs ->
  forall g rb, In g (merge_files fs c) -> In rb (rf_batches g) ->
  AR.calc_debit GA AR.KStd (map (m_entry mp) (rb_entries rb)) <= AR.t_batch_limit GA ->
  AR.calc_credit GA AR.KStd (map (m_entry mp) (rb_entries rb)) <= AR.t_batch_limit GA ->
  AR.validate_batch GA (m_batch GA mp rb) = AR.ROk.
Proof. apply merge_batch_arith_valid. Qed.

Lemma c09_file_arith_valid mp fs c : inputs_valid GA mp fs ->
  forall g, In g (merge_files fs c) ->
  Forall (fun rb => AR.calc_debit GA AR.KStd (map (m_entry mp) (rb_entries rb)) <= AR.t_batch_limit GA /\
                    AR.calc_credit GA AR.KStd (map (m_entry mp) (rb_entries rb)) <= AR.t_batch_limit GA) (rf_batches g) ->
  fctl_fits GA (AR.fl_ctl (m_file GA mp g)) ->
  AR.validate_file GA (m_file GA mp g) = AR.ROk.
Proof. apply merge_file_arith_valid. Qed.

(* payload preservation: an entry of an output batch is (the very record of) an entry of an
   input batch whose header has the same service class and ODFI *)
Lemma c09_payload_preserved mp fs c g rb e :
  In g (merge_files fs c) -> In rb (rf_batches g) -> In e (rb_entries rb) ->
  exists f ib, In f fs /\ In ib (if_batches f) /\ In (m_entry mp e) (map (m_entry mp) (ib_entries ib))
               /\ h_scc (ib_header ib) = h_scc (rb_header rb) /\ h_odfi (ib_header ib) = h_odfi (rb_header rb).
Proof.
  intros Hg Hrb He. destruct (merge_no_mixing fs c g rb e Hg Hrb He) as (f & ib & Hf & Hib & Hie & _ & Hk).
  exists f, ib. repeat split; try assumption; [now apply in_map| |].
  - change (key_scc (hkey (ib_header ib)) = key_scc (hkey (rb_header rb))). now rewrite Hk.
  - change (key_odfi (hkey (ib_header ib)) = key_odfi (hkey (rb_header rb))). now rewrite Hk.
Qed.

(* ---- non-vacuity ------------------------------------------------------------------------ *)

Definition dsb (l : list Z) : bytes := map (fun d => (48 + Z.to_N d)%N) l.

Definition ex_mp (id : N) : mpay :=
  match id with
  | 1%N => mkmpay 22 (dsb [2;3;1;3;8;0;1;0]) (dsb [4])
  | _ => mkmpay 32 (dsb [1;2;1;0;4;2;8;8]) (dsb [2])
  end.
Definition ex_hdr (r : N) : header := mkHeader 220 [65]%N [49]%N [80; 80; 68]%N [80]%N [49; 57]%N (dsb [1;2;1;0;4;2;8;8]) r.
Definition ex_me1 := mkEntry (dsb [1;2;1;0;4;2;8;8;0;0;0;0;0;0;1]) 100 0 1.
Definition ex_me2 := mkEntry (dsb [1;2;1;0;4;2;8;8;0;0;0;0;0;0;2]) 200 1 2.
Definition ex_mf1 : ifile := mkIFile [49]%N [50]%N 1 [mkIBatch (ex_hdr 1) [ex_me2]].
Definition ex_mf2 : ifile := mkIFile [49]%N [50]%N 2 [mkIBatch (ex_hdr 2) [ex_me1]].
Definition ex_mfiles := [ex_mf1; ex_mf2].
Definition ex_conds := mkConds 0 0.

Lemma ex_merge_hyps : inputs_valid GA ex_mp ex_mfiles /\ length (merge_files ex_mfiles ex_conds) = 1%nat /\
  map (fun g => map (fun rb => map e_id (rb_entries rb)) (rf_batches g)) (merge_files ex_mfiles ex_conds) = [[[1%N; 2%N]]].
Proof.
  split; [|split; vm_compute; reflexivity].
  intros f ib Hf Hib. exists 1.
  destruct Hf as [<-|[<-|[]]]; destruct Hib as [<-|[]]; vm_compute; reflexivity.
Qed.

Lemma ex_merge_valid :
  Forall (fun g => AR.validate_file GA (m_file GA ex_mp g) = AR.ROk) (merge_files ex_mfiles ex_conds).
Proof. repeat constructor; vm_compute; reflexivity. Qed.

(* the merged batch under a header of the wrong service class (debits only, 225) is refused *)
Lemma ex_merge_wrong_class_refused :
  Forall (fun g => Forall (fun rb =>
     AR.validate_batch GA (m_tab GA ex_mp (mkHeader 225 [65]%N [49]%N [80; 80; 68]%N [80]%N [49; 57]%N (dsb [1;2;1;0;4;2;8;8]) 1)
                                 (rb_number rb) (rb_entries rb)) = AR.RDirection) (rf_batches g))
         (merge_files ex_mfiles ex_conds).
Proof. repeat constructor; vm_compute; reflexivity. Qed.

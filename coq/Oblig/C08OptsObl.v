(* Obligations for the option part of C08 (coq/Model/MergeOpts.v): reflection over the table
   regenerated from file.go / merge.go / batch.go / entryDetail.go, concrete evaluations of the
   model (non-vacuity; the two defects fixed in merge.go; the refutation witnesses of order
   independence) and instances of the hypotheses of the theorems. *)
From Coq Require Import List NArith ZArith Bool Lia Permutation.
From ACH Require Import Bytes Fields Merge MergeFacts MergeOpts MergeOptsFacts MergeOptsTable MergeOptsGen.
Import ListNotations.
Open Scope Z_scope.

(* ---------------------------------------------------------------- reflection over the regenerated table *)

Lemma opts_struct_ok : struct_ok gen_vo_fields = true.
Proof. vm_compute. reflexivity. Qed.

Lemma opts_merge_shape_ok :
  merge_shape_ok gen_vo_fields gen_vo_merge_recv gen_vo_merge_param gen_vo_merge_guards
                 gen_vo_merge_literal gen_vo_merge_post gen_vo_merge_rest = true.
Proof. vm_compute. reflexivity. Qed.

Lemma opts_flow_ok : flow_ok gen_opt_flow = true.
Proof. vm_compute. reflexivity. Qed.

Lemma opts_trace_pins_ok : pins_ok gen_trace_pins = true.
Proof. vm_compute. reflexivity. Qed.

(* ValidateOpts.merge as written in the source of this run, read on two non-nil operands, is the
   model's omerge: every boolean field of the struct ... *)
Lemma source_merge_flag i a b :
  (i < List.length gen_vo_merge_literal)%nat ->
  src_merge_flag gen_vo_merge_literal i (o_flags a) (o_flags b) = oflag i (omerge (Some a) (Some b)).
Proof. apply (merge_shape_flag _ _ _ _ _ _ _ i a b opts_merge_shape_ok). Qed.

(* ... and the function field *)
Lemma source_merge_func a b :
  Some (src_merge_func gen_vo_merge_recv gen_vo_merge_post (o_ctc a) (o_ctc b))
  = option_map o_ctc (omerge (Some a) (Some b)).
Proof. apply (merge_shape_func _ _ _ _ _ _ _ a b opts_struct_ok opts_merge_shape_ok). Qed.

Lemma source_merge_is_model a b :
  (forall i, (i < List.length gen_vo_merge_literal)%nat ->
     src_merge_flag gen_vo_merge_literal i (o_flags a) (o_flags b) = oflag i (omerge (Some a) (Some b)))
  /\ Some (src_merge_func gen_vo_merge_recv gen_vo_merge_post (o_ctc a) (o_ctc b))
     = option_map o_ctc (omerge (Some a) (Some b)).
Proof. split; [intros i; apply source_merge_flag|apply source_merge_func]. Qed.

(* the nil guards: merge(nil, x) = x and merge(x, nil) = x are [omerge] by definition *)
Lemma source_merge_nil x : omerge None x = x /\ omerge x None = x.
Proof. split; [reflexivity|apply omerge_none_r]. Qed.

Lemma source_field_count : List.length gen_vo_merge_literal = 18%nat /\ List.length (bool_fields gen_vo_fields) = 18%nat.
Proof. split; vm_compute; reflexivity. Qed.

(* ---------------------------------------------------------------- concrete inputs *)

Definition nflags : nat := 18.
Definition fl (on : list nat) : flags := map (fun i => existsb (Nat.eqb i) on) (seq 0 nflags).
Definition mk (on : list nat) (ctc : option N) : vopts := Some (mkOpts (fl on) ctc).
Definition o_none : vopts := None.
Definition o_empty : vopts := mk [] None.
Definition o_bypass : vopts := mk [ix_bypass_origin] None.
Definition o_custom : vopts := mk [ix_custom_trace] None.
Definition o_bypass_dest : vopts := mk [3%nat] None.
Definition o_amounts : vopts := mk [15%nat; 16%nat] None.

Definition d8 (n : Z) : bytes := numericField n 8.
Definition tr (prefix seqno : Z) : bytes := numericField prefix 8 ++ numericField seqno 7.
Definition xh (rest : N) : header :=
  mkHeader 220 [65; 99; 109; 101]%N [49]%N [80; 80; 68]%N [80]%N [49; 57]%N (d8 12104288) rest.
Definition en (prefix seqno : Z) (id : N) : entry := mkEntry (tr prefix seqno) 100 0 id.
Definition xf (hid : N) (o : vopts) (bs : list ibatcho) : ifileo := mkIFO [49]%N [50]%N hid o bs.
Definition xb (rest : N) (o : vopts) (es : list entry) : ibatcho := mkIBO (mkIBatch (xh rest) es) o.

(* what the harness observes of an output *)
Definition oshow (o : vopts) : option (list nat * option N) :=
  match o with
  | None => None
  | Some a => Some (filter (fun i => vget i (o_flags a)) (seq 0 (List.length (o_flags a))), o_ctc a)
  end.
Definition view (gs : list rfileo) :=
  map (fun g => (oshow (rfo_opts g),
                 map (fun rb => (rbo_number rb, oshow (rbo_opts rb),
                                 option_map (map (fun e => (e_id e, e_trace e))) (rbo_created rb)))
                     (rfo_batches g))) gs.

(* -- the defect fixed earlier (docs/C08.md): entries validated under BypassOriginValidation join a
      batch created from a file without options: the batch takes the option, the foreign trace
      numbers stay *)
Definition ex_plain : ifileo := xf 1 o_none [xb 1 o_none [en 12104288 1 1; en 12104288 2 2]].
Definition ex_foreign : ifileo := xf 2 o_bypass [xb 2 o_bypass [en 99887766 5 3]].

Lemma ex_bypass_joins_plain :
  view (merge_files_o [ex_plain; ex_foreign] (mkConds 0 0))
  = [(Some ([ix_bypass_origin], None),
      [(1, Some ([ix_bypass_origin], None),
        Some [(1%N, tr 12104288 1); (2%N, tr 12104288 2); (3%N, tr 99887766 5)])])].
Proof. vm_compute. reflexivity. Qed.

(* the same entries without any option: Batch.build renumbers the foreign entry (by design) *)
Definition ex_foreign_unvalidated : ifileo := xf 2 o_none [xb 2 o_none [en 99887766 5 3]].
Lemma ex_traces_rewritten_without_opts :
  view (merge_files_o [ex_plain; ex_foreign_unvalidated] (mkConds 0 0))
  = [(None, [(1, None, Some [(1%N, tr 12104288 1); (2%N, tr 12104288 2); (3%N, tr 12104288 3)])])].
Proof. vm_compute. reflexivity. Qed.

(* ... and when the new number is not above its predecessor, Batch.Create fails: MergeFilesWith returns the error *)
Definition ex_plain_high : ifileo := xf 1 o_none [xb 1 o_none [en 12104288 7 1; en 12104288 9 2]].
Lemma ex_rewrite_breaks_order :
  merge_created_ok (merge_files_o [ex_plain_high; ex_foreign_unvalidated] (mkConds 0 0)) = false.
Proof. vm_compute. reflexivity. Qed.

(* -- fix 331a5189: every file started at `overflow:` carries the merged options of the out-file *)
Definition ex_four : ifileo :=
  xf 1 o_bypass_dest [xb 1 o_bypass_dest [en 12104288 1 1; en 12104288 2 2; en 12104288 3 3; en 12104288 4 4]].
Lemma ex_overflow_files_keep_options :
  map (fun g => (oshow (rfo_opts g), List.length (rfo_batches g))) (merge_files_o [ex_four] (mkConds 6 0))
  = [(Some ([3%nat], None), 1%nat); (Some ([3%nat], None), 1%nat)].
Proof. vm_compute. reflexivity. Qed.

(* -- fix d7bc850a: options stored on the batch only (Batch.SetValidation) *)
Definition ex_batch_only : ifileo := xf 1 o_none [xb 1 o_bypass [en 99887766 5 1; en 99887766 7 2]].
Lemma ex_batch_options_kept :
  view (merge_files_o [ex_batch_only] (mkConds 0 0))
  = [(None, [(1, Some ([ix_bypass_origin], None), Some [(1%N, tr 99887766 5); (2%N, tr 99887766 7)])])].
Proof. vm_compute. reflexivity. Qed.

(* -- unions: three files of one routing pair with different options; the third collides *)
Definition ex_u1 : ifileo := xf 1 o_amounts [xb 1 o_amounts [en 12104288 1 1]].
Definition ex_u2 : ifileo := xf 2 o_custom [xb 2 o_custom [en 12104288 2 2]].
Definition ex_u3 : ifileo := xf 3 o_empty [xb 3 o_empty [en 12104288 2 3]].
Lemma ex_union :
  view (merge_files_o [ex_u1; ex_u2; ex_u3] (mkConds 0 0))
  = [(Some ([ix_custom_trace; 15%nat; 16%nat], None),
      [(1, Some ([ix_custom_trace; 15%nat; 16%nat], None), Some [(1%N, tr 12104288 1); (2%N, tr 12104288 2)]);
       (2, Some ([], None), Some [(3%N, tr 12104288 2)])])].
Proof. vm_compute. reflexivity. Qed.

(* ---------------------------------------------------------------- order independence: refutation witnesses *)

(* (1) CheckTransactionCode: the function of the LAST file that has one wins *)
Definition ex_c1 : ifileo := xf 1 (mk [] (Some 1%N)) [xb 1 (mk [] (Some 1%N)) [en 12104288 1 1]].
Definition ex_c2 : ifileo := xf 2 (mk [] (Some 2%N)) [xb 2 (mk [] (Some 2%N)) [en 12104288 2 2]].

Lemma ex_order_ctc :
  map (fun g => option_map o_ctc (rfo_opts g)) (merge_files_o [ex_c1; ex_c2] (mkConds 0 0)) = [Some (Some 2%N)] /\
  map (fun g => option_map o_ctc (rfo_opts g)) (merge_files_o [ex_c2; ex_c1] (mkConds 0 0)) = [Some (Some 1%N)].
Proof. split; vm_compute; reflexivity. Qed.

(* (2) boolean fields of a BATCH when trace numbers collide: which of two Equal batches an entry joins
   depends on the order, and so do the options it ends up under *)
Definition ex_a : ifileo := xf 1 o_amounts [xb 1 o_amounts [en 12104288 1 1]].
Definition ex_b : ifileo := xf 2 o_custom [xb 2 o_custom [en 12104288 1 2; en 12104288 2 3]].

(* the value of boolean field i on every output batch that holds the entry with the given id *)
Definition flag_at (i : nat) (id : N) (gs : list rfileo) : list bool :=
  flat_map (fun g => flat_map (fun rb => if existsb (fun e => N.eqb (e_id e) id) (rbo_entries rb)
                                         then [oflag i (rbo_opts rb)] else []) (rfo_batches g)) gs.

Lemma ex_order_batch_flags :
  flag_at ix_custom_trace 1 (merge_files_o [ex_a; ex_b] (mkConds 0 0)) = [true] /\
  flag_at ix_custom_trace 1 (merge_files_o [ex_b; ex_a] (mkConds 0 0)) = [false].
Proof. split; vm_compute; reflexivity. Qed.

Lemma opts_order_refuted :
  (exists fs fs' c, Permutation fs fs' /\
     map (fun g => option_map o_ctc (rfo_opts g)) (merge_files_o fs c)
     <> map (fun g => option_map o_ctc (rfo_opts g)) (merge_files_o fs' c))
  /\ (exists fs fs' c i id, Permutation fs fs' /\
        flag_at i id (merge_files_o fs c) = [true] /\ flag_at i id (merge_files_o fs' c) = [false]).
Proof.
  split.
  - exists [ex_c1; ex_c2], [ex_c2; ex_c1], (mkConds 0 0). split; [apply perm_swap|].
    destruct ex_order_ctc as [-> ->]. discriminate.
  - exists [ex_a; ex_b], [ex_b; ex_a], (mkConds 0 0), ix_custom_trace, 1%N.
    split; [apply perm_swap|]. exact ex_order_batch_flags.
Qed.

(* ---------------------------------------------------------------- non-vacuity of the hypotheses *)

Lemma ex_inputs_trace_valid : inputs_trace_valid [ex_plain; ex_foreign; ex_batch_only; ex_u2].
Proof.
  intros f ib e Hf Hib He.
  repeat (destruct Hf as [<-|Hf]; [cbn in Hib; repeat (destruct Hib as [<-|Hib]; [cbn in He;
    repeat (destruct He as [<-|He]; [vm_compute; reflexivity|]); destruct He|]); destruct Hib|]).
  destruct Hf.
Qed.

Lemma ex_inputs_not_valid : ~ inputs_trace_valid [ex_plain; ex_foreign_unvalidated].
Proof.
  intros H. specialize (H ex_foreign_unvalidated (xb 2 o_none [en 99887766 5 3]) (en 99887766 5 3)).
  assert (E : entry_trace_valid (ib_header (ibo_batch (xb 2 o_none [en 99887766 5 3])))
                (batch_in_opts (fo_opts ex_foreign_unvalidated) (xb 2 o_none [en 99887766 5 3])) (en 99887766 5 3) = false)
    by (vm_compute; reflexivity).
  rewrite H in E; [discriminate| right; now left | now left | now left].
Qed.

Lemma ex_custom_inputs :
  (forall f, In f [ex_u2] -> custom (fo_opts f) = true) /\ inputs_numeric [ex_u2].
Proof.
  split.
  - intros f [<-|[]]. vm_compute. reflexivity.
  - intros f ib e [<-|[]] [<-|[]] [<-|[]]. split; vm_compute; discriminate.
Qed.

(* the union statement is not trivially true: an option set that does not include the other exists *)
Lemma ex_osub_strict : osub o_empty o_custom /\ ~ osub o_custom o_empty /\ ~ osub o_empty o_none.
Proof.
  split; [|split].
  - unfold o_empty, o_custom, mk, osub. cbn [o_flags o_ctc]. split; [|auto]. intros i H. exfalso.
    assert (E : fl [] = repeat false nflags) by (vm_compute; reflexivity).
    unfold vget in H. rewrite E, nth_repeat in H. discriminate.
  - cbn. intros [H _]. specialize (H ix_custom_trace). vm_compute in H. now specialize (H eq_refl).
  - cbn. auto.
Qed.

(* no_collision: satisfied by inputs without a repeated trace number under one header key,
   violated by the refutation witness of the batch-level order dependence *)
Lemma ex_no_collision : no_collision [ex_u1; ex_u2] /\ List.length (ids_in (map erase_ifile [ex_u1; ex_u2])) = 2%nat.
Proof.
  split; [|reflexivity]. unfold no_collision. vm_compute.
  constructor; [intros [H|[]]; discriminate H|]. constructor; [intros []|constructor].
Qed.

Lemma ex_collision : ~ no_collision [ex_a; ex_b].
Proof.
  unfold no_collision. intros H. vm_compute in H. inversion H as [|? ? Hn _]. apply Hn. left. reflexivity.
Qed.

(* C04, phase 7: non-vacuity of the full text-level theorems on the validating reader — every
   hypothesis of C04_valid_reader_tamper_text holds for a concrete site of the written lines of the
   three example files of C01 (standard: vx, IAT: vx_iat, ADV: vx_adv), so the theorem itself (not a
   computation) gives "not accepted" for the tampered text; the computed accept codes agree. *)
From Coq Require Import String List Lia NArith ZArith Bool.
From ACH Require Import Arith ArithFacts ArithSpec LayoutFacts NumFacts FileStructFacts.
From ACH Require Import TamperText TamperTextFacts TamperTextLift TruncFacts TruncBytes TruncUtf8 TruncUtf8Facts.
From ACH Require Import ReaderSkel ReaderSkelFacts TamperValidFacts TamperValidSurgery TruncValidFacts.
From ACH Require Import Tables C01Obl C03Obl C04TextObl C04Utf8Obl C01FileEx C01FileObl C01ValidObl C04ValidTextObl.
From ACH Require Import C04ValidTextFullObl C04ValidTruncObl.
Import ListNotations.
Local Open Scope string_scope.
Local Open Scope nat_scope.
Local Open Scope list_scope.

(* batch_regular, decided *)
Definition batch_regularb (b : Arith.batch) : bool :=
  match bt_kind b with
  | KStd => true
  | KIAT => forallb (fun e => negb (memz (en_code e) (t_advcodes AT))) (bt_entries b)
  | KADV => forallb (fun e => memz (en_code e) (t_advcodes AT)) (bt_entries b)
  end && forallb (fun e => (length (en_rdfi e) =? 8) && forallb is_digit (en_rdfi e)) (bt_entries b).

Lemma batch_regularb_spec b : batch_regularb b = true -> batch_regular AT b.
Proof.
  unfold batch_regularb, batch_regular, codes_regular. intros H. apply andb_prop in H as [Hc Hr]. split.
  - destruct (bt_kind b); [exact I| |]; apply Forall_forall; intros e He; rewrite forallb_forall in Hc; specialize (Hc e He);
      [now apply negb_true_iff in Hc|exact Hc].
  - apply Forall_forall. intros e He. rewrite forallb_forall in Hr. specialize (Hr e He).
    apply andb_prop in Hr as [H8 Hd]. apply Nat.eqb_eq in H8. now split.
Qed.

Lemma all_regular s : forallb batch_regularb (all_batches (skel s)) = true -> Forall (batch_regular AT) (all_batches (skel s)).
Proof. intros H. apply Forall_forall. intros b Hb. rewrite forallb_forall in H. now apply batch_regularb_spec, H. Qed.

Definition the_line (s : fileS) (site : site) : bytes := match site_line s site with Some l => l | None => [] end.

(* standard file: last digit of the entry hash of the first batch control *)
Example vx_tamper_by_theorem : accepts LT RT AT (write CRLF_b (tamper vx (SBatchCtl 0) (10 + 9) 55)) = None.
Proof.
  destruct vx_accepted as [g0 Ha]. destruct vx_ok as (Ht & Hb & _).
  assert (Hle : le_ok CRLF_b) by (now right).
  assert (Hreg : Forall (batch_regular AT) (all_batches (skel vx))) by (apply all_regular; vm_compute; reflexivity).
  assert (Hin : In vx_hash protected_columns) by (vm_compute; auto 50).
  assert (Hsc : site_class vx (SBatchCtl 0) = Some (p_class vx_hash)) by (vm_compute; reflexivity).
  assert (Hsl : site_line vx (SBatchCtl 0) = Some (the_line vx (SBatchCtl 0))) by (vm_compute; reflexivity).
  assert (Hj : 9 < p_hi vx_hash - p_lo vx_hash) by (vm_compute; lia).
  assert (Hd : is_digit 55 = true) by reflexivity.
  assert (Hdig : digitsb (column (the_line vx (SBatchCtl 0)) (p_lo vx_hash) (p_hi vx_hash)) = true) by (vm_compute; reflexivity).
  assert (Hne : nth 9 (column (the_line vx (SBatchCtl 0)) (p_lo vx_hash) (p_hi vx_hash)) 0%N <> 55%N) by (vm_compute; intros HH; discriminate HH).
  assert (Hmax : p_kind vx_hash = CKNum -> (digits_val (column (the_line vx (SBatchCtl 0)) (p_lo vx_hash) (p_hi vx_hash)) 0 < max_int64)%Z)
    by (intros _; vm_compute; reflexivity).
  exact (c04_valid_reader_tamper_text_full vx CRLF_b g0 (SBatchCtl 0) vx_hash _ 9 55 Hle Ht vx_utf8 Hb Ha Hreg Hin Hsc Hsl Hj Hd Hdig Hne Hmax).
Qed.

(* IAT file: ninth digit of the amount of the first entry of the first IAT batch *)
Definition iat_amount : pcol := mkpcol (RCEntry KIAT) "Amount" 29 39 CKNum.
Example vx_iat_tamper_by_theorem : accepts LT RT AT (write LF_b (tamper vx_iat (SEntry 0 0) (29 + 8) 55)) = None.
Proof.
  destruct vx_iat_accepted as [g0 Ha]. destruct vx_iat_ok as (Ht & Hb & _).
  assert (Hle : le_ok LF_b) by (now left).
  assert (Hreg : Forall (batch_regular AT) (all_batches (skel vx_iat))) by (apply all_regular; vm_compute; reflexivity).
  assert (Hin : In iat_amount protected_columns) by (vm_compute; auto 50).
  assert (Hsc : site_class vx_iat (SEntry 0 0) = Some (p_class iat_amount)) by (vm_compute; reflexivity).
  assert (Hsl : site_line vx_iat (SEntry 0 0) = Some (the_line vx_iat (SEntry 0 0))) by (vm_compute; reflexivity).
  assert (Hj : 8 < p_hi iat_amount - p_lo iat_amount) by (vm_compute; lia).
  assert (Hd : is_digit 55 = true) by reflexivity.
  assert (Hdig : digitsb (column (the_line vx_iat (SEntry 0 0)) (p_lo iat_amount) (p_hi iat_amount)) = true) by (vm_compute; reflexivity).
  assert (Hne : nth 8 (column (the_line vx_iat (SEntry 0 0)) (p_lo iat_amount) (p_hi iat_amount)) 0%N <> 55%N) by (vm_compute; intros HH; discriminate HH).
  assert (Hmax : p_kind iat_amount = CKNum -> (digits_val (column (the_line vx_iat (SEntry 0 0)) (p_lo iat_amount) (p_hi iat_amount)) 0 < max_int64)%Z)
    by (intros _; vm_compute; reflexivity).
  exact (c04_valid_reader_tamper_text_full vx_iat LF_b g0 (SEntry 0 0) iat_amount _ 8 55 Hle Ht vx_iat_utf8 Hb Ha Hreg Hin Hsc Hsl Hj Hd Hdig Hne Hmax).
Qed.

(* ADV file: last digit of the entry/addenda count of the ADV file control *)
Definition adv_count : pcol := mkpcol (RCFileCtl true) "EntryAddendaCount" 13 21 CKNum.
Example vx_adv_tamper_by_theorem : accepts LT RT AT (write LF_b (tamper vx_adv SFileCtl (13 + 7) 55)) = None.
Proof.
  destruct vx_adv_accepted as [g0 Ha]. destruct vx_adv_ok as (Ht & Hb & _).
  assert (Hle : le_ok LF_b) by (now left).
  assert (Hreg : Forall (batch_regular AT) (all_batches (skel vx_adv))) by (apply all_regular; vm_compute; reflexivity).
  assert (Hin : In adv_count protected_columns) by (vm_compute; auto 50).
  assert (Hsc : site_class vx_adv (SFileCtl) = Some (p_class adv_count)) by (vm_compute; reflexivity).
  assert (Hsl : site_line vx_adv (SFileCtl) = Some (the_line vx_adv (SFileCtl))) by (vm_compute; reflexivity).
  assert (Hj : 7 < p_hi adv_count - p_lo adv_count) by (vm_compute; lia).
  assert (Hd : is_digit 55 = true) by reflexivity.
  assert (Hdig : digitsb (column (the_line vx_adv (SFileCtl)) (p_lo adv_count) (p_hi adv_count)) = true) by (vm_compute; reflexivity).
  assert (Hne : nth 7 (column (the_line vx_adv (SFileCtl)) (p_lo adv_count) (p_hi adv_count)) 0%N <> 55%N) by (vm_compute; intros HH; discriminate HH).
  assert (Hmax : p_kind adv_count = CKNum -> (digits_val (column (the_line vx_adv (SFileCtl)) (p_lo adv_count) (p_hi adv_count)) 0 < max_int64)%Z)
    by (intros _; vm_compute; reflexivity).
  exact (c04_valid_reader_tamper_text_full vx_adv LF_b g0 (SFileCtl) adv_count _ 7 55 Hle Ht vx_adv_utf8 Hb Ha Hreg Hin Hsc Hsl Hj Hd Hdig Hne Hmax).
Qed.

(* the same three texts by computation, and the structure facts the surgery lemma derives *)
Lemma full_examples_codes :
  accept_code LT RT AT (write CRLF_b (tamper vx (SBatchCtl 0) (10 + 9) 55)) = 1
  /\ accept_code LT RT AT (write LF_b (tamper vx_iat (SEntry 0 0) (29 + 8) 55)) = 1
  /\ accept_code LT RT AT (write LF_b (tamper vx_adv SFileCtl (13 + 7) 55)) = 3
  /\ bridge_okb LT (tamper vx_iat (SEntry 0 0) (29 + 8) 55) = true
  /\ bridge_okb LT (tamper vx_adv SFileCtl (13 + 7) 55) = true
  /\ file_typed (tamper vx_iat (SEntry 0 0) (29 + 8) 55) = true.
Proof. vm_compute. repeat split; reflexivity. Qed.

(* truncation: the filler theorem on the standard and the IAT example (the ADV example has 10 records
   and no filler), by the theorem *)
Example vx_filler_by_theorem :
  (exists g0, accepts LT RT AT (write CRLF_b vx) = Some g0
     /\ accepts LT RT AT (firstn (length (text_of CRLF_b (record_lines vx ++ repeat nines 3)) + 40) (write CRLF_b vx)) = Some g0
     /\ accepts LT RT AT (firstn (length (text_of CRLF_b (record_lines vx ++ repeat nines 0)) + 0) (write CRLF_b vx)) = Some g0)
  /\ accepts LT RT AT (firstn (length (text_of CRLF_b (record_lines vx ++ repeat nines 3)) + 1) (write CRLF_b vx)) = None
  /\ pad_count (length (record_lines vx)) = 8.
Proof.
  destruct vx_accepted as [g0 Ha]. destruct vx_ok as (Ht & Hb & _).
  assert (Hp : pad_count (length (record_lines vx)) = 8) by (vm_compute; reflexivity).
  assert (Hle : le_ok CRLF_b) by now right.
  split; [exists g0; split; [exact Ha|split]|split; [|exact Hp]].
  - exact (c04_valid_reader_truncation_filler vx CRLF_b g0 3 40 Hle Ht vx_utf8 Hb Ha ltac:(rewrite Hp; lia) ltac:(lia)).
  - exact (c04_valid_reader_truncation_filler vx CRLF_b g0 0 0 Hle Ht vx_utf8 Hb Ha ltac:(rewrite Hp; lia) ltac:(lia)).
  - exact (c04_valid_reader_truncation_filler vx CRLF_b g0 3 1 Hle Ht vx_utf8 Hb Ha ltac:(rewrite Hp; lia) ltac:(lia)).
Qed.

Example vx_iat_filler_by_theorem :
  accepts LT RT AT (firstn (length (text_of LF_b (record_lines vx_iat ++ repeat nines 8)) + 1) (write LF_b vx_iat)) = None
  /\ exists g0, accepts LT RT AT (firstn (length (text_of LF_b (record_lines vx_iat ++ repeat nines 8)) + 2) (write LF_b vx_iat)) = Some g0.
Proof.
  destruct vx_iat_accepted as [g0 Ha]. destruct vx_iat_ok as (Ht & Hb & _ & _ & Hp).
  assert (Hle : le_ok LF_b) by now left.
  split; [|exists g0].
  - exact (c04_valid_reader_truncation_filler vx_iat LF_b g0 8 1 Hle Ht vx_iat_utf8 Hb Ha ltac:(rewrite Hp; lia) ltac:(lia)).
  - exact (c04_valid_reader_truncation_filler vx_iat LF_b g0 8 2 Hle Ht vx_iat_utf8 Hb Ha ltac:(rewrite Hp; lia) ltac:(lia)).
Qed.

(* ... and the general theorem on a cut inside the control record of the ADV example *)
Example vx_adv_truncation_by_theorem :
  accepts LT RT AT (firstn (95 * 9 + 30) (write LF_b vx_adv)) = None
  \/ exists g g0, accepts LT RT AT (write LF_b vx_adv) = Some g0 /\ accepts LT RT AT (firstn (95 * 9 + 30) (write LF_b vx_adv)) = Some g /\ p_file g = p_file g0.
Proof.
  destruct vx_adv_accepted as [g0 Ha]. destruct vx_adv_ok as (Ht & Hb & _).
  assert (Hk : 95 * 9 + 30 < length (write LF_b vx_adv)) by (rewrite (proj2 (proj2 vx_adv_truncated)); lia).
  destruct (c04_valid_reader_truncation vx_adv LF_b (95 * 9 + 30) g0 ltac:(now left) Ht vx_adv_utf8 Hb Ha Hk) as [H|(g & Hg & Hp)];
    [left; exact H|right; exists g, g0; exact (conj Ha (conj Hg Hp))].
Qed.

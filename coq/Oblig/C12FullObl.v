(* C12, phase 6 — obligations for the whole-function model: instances of the generic theorems of
   FlattenFullFacts at the tables regenerated this run (Gen/Tables.v, Gen/OffsetTable.v,
   Gen/TabulateTable.v), non-vacuity example, refutation witness. *)
From Coq Require Import Lia Permutation Sorted.
From ACH Require Import ValidOut ValidOutFacts Tables OffsetTable TabulateTable.
From ACH Require Import OffsetsFacts FileCreateAll ValidOffsets ValidOffsetsFacts ValidOutObl.
From ACH Require Import Bytes Fields Flatten FlattenFacts ValidFlatten ValidFlattenFacts ValidFlatObl FlattenFull FlattenFullFacts.
Open Scope Z_scope.

Notation GTT := tabulate_table.

(* the file control is not wider than the batch control (re-evaluated on the regenerated table) *)
Lemma c12_limits : Arith.t_file_limit GA <= Arith.t_batch_limit GA.
Proof. vm_compute. discriminate. Qed.

Lemma c12_create_is_build hd sp b :
  hd_ok (hd (b_sig b)) = true -> b_entries b <> [] -> traces_prefixed hd b ->
  exists b', Offsets.build GT (to_off hd sp b) = Offsets.Ret true b'
    /\ Offsets.b_entries b' = map (to_off_entry sp) (b_entries b)
    /\ ctl_ok GT b'
    /\ off_skeleton hd sp b b' = f_batch GA (hp_of hd) (fp_of sp) b.
Proof. apply build_consolidated, gen_agree. Qed.

Lemma c12_succeeds hd sp ip ap inf inp r :
  std_file inp -> inp <> [] -> i_hdr_ok inf = true ->
  kinds_consistent inp -> Forall traces_nodup inp ->
  Forall (fun b => Arith.validate_batch GA (f_batch GA (hp_of hd) (fp_of sp) b) = Arith.ROk) inp ->
  Forall (hdr_pair hd) (ids inp) ->
  i_count inf = sum_ids cnt_e inp -> i_debit inf = sum_ids (db_e GT sp) inp -> i_credit inf = sum_ids (cr_e GT sp) inp ->
  cat_rule inp ->
  i_debit inf <= Arith.t_file_limit GA -> i_credit inf <= Arith.t_file_limit GA ->
  flatten_full_spec GA GT GTT hd sp ip ap inf inp r ->
  (fst r = FOk \/ (fst r = FErrValidate /\ file_ctl_ok GA (snd r) = false))
  /\ af_iat (snd r) = []
  /\ Offsets.fc_count (af_ctl (snd r)) = i_count inf
  /\ Offsets.fc_debit (af_ctl (snd r)) = i_debit inf
  /\ Offsets.fc_credit (af_ctl (snd r)) = i_credit inf.
Proof.
  intros. eapply (flatten_succeeds GA GT GTT gen_agree); eauto using c12_limits.
Qed.

Lemma c12_valid hd sp ip ap inf inp r :
  std_file inp -> i_hdr_ok inf = true ->
  kinds_consistent inp -> Forall traces_nodup inp ->
  Forall (fun b => Arith.validate_batch GA (f_batch GA (hp_of hd) (fp_of sp) b) = Arith.ROk) inp ->
  Forall (hdr_pair hd) (ids inp) ->
  i_debit inf = sum_ids (db_e GT sp) inp -> i_credit inf = sum_ids (cr_e GT sp) inp ->
  cat_rule inp ->
  i_debit inf <= Arith.t_file_limit GA -> i_credit inf <= Arith.t_file_limit GA ->
  flatten_full_spec GA GT GTT hd sp ip ap inf inp r ->
  exists all, r = finish GA GT GTT hd sp ip ap inf all /\ flatten_spec inp (finalize all) /\
    Forall (fun x => created GA GT hd sp x /\ StronglySorted trace_lt (b_entries x)) (pre all).
Proof.
  intros. eapply (flatten_valid GA GT GTT gen_agree); eauto using c12_limits.
Qed.

(* ---- non-vacuity: the two one-entry batches of ValidFlatObl (one header, credits) ------------ *)

Definition fx_hd (s : bytes) : hdrp := mkhdrp 220 (dsb [1;2;1;0;4;2;8;8]) true false 12104288 true.
Definition fx_sp (c : bytes) : stdp :=
  match c with
  | [1%N] => mkstdp 22 (dsb [2;3;1;3;8;0;1;0]) (dsb [4]) false
  | _ => mkstdp 32 (dsb [1;2;1;0;4;2;8;8]) (dsb [2]) false
  end.
Definition fx_ip (c : bytes) : ipay := mkipay 0 0 false [] 0 0 false false.
Definition fx_ap (c : bytes) : apay := mkapay 0 0 false.
Definition fx_inf : fin := mkfin true 3 0 300.

Lemma fx_cat_rule : cat_rule ex_inp.
Proof.
  split; [|split].
  - repeat constructor; cbn; intros; intuition (subst; reflexivity).
  - intros a b Ha Hb _. cbn in Ha, Hb. destruct Ha as [<-|[<-|[]]], Hb as [<-|[<-|[]]]; reflexivity.
  - repeat constructor; cbn; now right.
Qed.

Lemma fx_hyps :
  std_file ex_inp /\ ex_inp <> [] /\ i_hdr_ok fx_inf = true /\ kinds_consistent ex_inp /\ Forall traces_nodup ex_inp /\
  Forall (fun b => Arith.validate_batch GA (f_batch GA (hp_of fx_hd) (fp_of fx_sp) b) = Arith.ROk) ex_inp /\
  Forall (hdr_pair fx_hd) (ids ex_inp) /\
  i_count fx_inf = sum_ids cnt_e ex_inp /\ i_debit fx_inf = sum_ids (db_e GT fx_sp) ex_inp /\
  i_credit fx_inf = sum_ids (cr_e GT fx_sp) ex_inp /\ cat_rule ex_inp /\
  i_debit fx_inf <= Arith.t_file_limit GA /\ i_credit fx_inf <= Arith.t_file_limit GA.
Proof.
  destruct ex_flat_hyps as (K & N & _ & _ & _ & _).
  split; [repeat constructor; cbn; congruence|]. split; [discriminate|]. split; [reflexivity|].
  split; [exact K|]. split; [exact N|].
  split; [repeat constructor; vm_compute; reflexivity|].
  split; [repeat constructor; vm_compute; reflexivity|].
  split; [vm_compute; reflexivity|]. split; [vm_compute; reflexivity|]. split; [vm_compute; reflexivity|].
  split; [exact fx_cat_rule|]. split; vm_compute; discriminate.
Qed.

(* the whole function on it: OK, one batch, the original figures in the new file control *)
Lemma fx_result :
  let r := flatten_full_stable GA GT GTT fx_hd fx_sp fx_ip fx_ap fx_inf ex_inp in
  fst r = FOk /\ length (af_std (snd r)) = 1%nat /\ af_ctl (snd r) = Offsets.mkfctl 1 1 3 35242298 0 300.
Proof. vm_compute. repeat split. Qed.

(* ---- refutation: the same file with the second entry a return entry (Addenda99, category
   Return).  Every hypothesis of c12_succeeds but the category rule holds, every input batch
   passes isCategory — and the consolidated batch fails it in Create, is not added, File.Create
   returns ErrFileNoBatches (known finding flatten:error:mixed-category-same-header) *)
Definition rx_e2 := mkEntry (dsb [1;2;1;0;4;2;8;8;0;0;0;0;0;0;2]) [2%N] 200 false 1 1.
Definition rx_inp : list batch := [mkBatch KStd [7%N] 1 [rx_e2] []; mkBatch KStd [7%N] 2 [ex_e1] []].

Lemma rx_refutes :
  std_file rx_inp /\ kinds_consistent rx_inp /\ Forall traces_nodup rx_inp /\
  Forall (fun b => Arith.validate_batch GA (f_batch GA (hp_of fx_hd) (fp_of fx_sp) b) = Arith.ROk) rx_inp /\
  Forall (hdr_pair fx_hd) (ids rx_inp) /\
  i_count fx_inf = sum_ids cnt_e rx_inp /\ i_debit fx_inf = sum_ids (db_e GT fx_sp) rx_inp /\
  i_credit fx_inf = sum_ids (cr_e GT fx_sp) rx_inp /\
  Forall (fun b => is_category_std false b = true /\ cat_pure b) rx_inp /\
  flatten_full_spec GA GT GTT fx_hd fx_sp fx_ip fx_ap fx_inf rx_inp (flatten_full_stable GA GT GTT fx_hd fx_sp fx_ip fx_ap fx_inf rx_inp) /\
  fst (flatten_full_stable GA GT GTT fx_hd fx_sp fx_ip fx_ap fx_inf rx_inp) = FErrCreate /\
  af_std (snd (flatten_full_stable GA GT GTT fx_hd fx_sp fx_ip fx_ap fx_inf rx_inp)) = [].
Proof.
  split; [repeat constructor; cbn; congruence|].
  split; [intros a b Ha Hb _; cbn in Ha, Hb; destruct Ha as [<-|[<-|[]]], Hb as [<-|[<-|[]]]; reflexivity|].
  split; [repeat constructor; cbn; tauto|].
  split; [repeat constructor; vm_compute; reflexivity|].
  split; [repeat constructor; vm_compute; reflexivity|].
  split; [vm_compute; reflexivity|]. split; [vm_compute; reflexivity|]. split; [vm_compute; reflexivity|].
  split; [repeat constructor; cbn; intros; intuition (subst; reflexivity)|].
  split; [apply flatten_full_stable_spec|]. split; vm_compute; reflexivity.
Qed.

Lemma c12_succeeds_refuted :
  exists hd sp ip ap inf inp,
    std_file inp /\ kinds_consistent inp /\ Forall traces_nodup inp /\
    Forall (fun b => Arith.validate_batch GA (f_batch GA (hp_of hd) (fp_of sp) b) = Arith.ROk) inp /\
    Forall (hdr_pair hd) (ids inp) /\
    i_count inf = sum_ids cnt_e inp /\ i_debit inf = sum_ids (db_e GT sp) inp /\ i_credit inf = sum_ids (cr_e GT sp) inp /\
    Forall (fun b => is_category_std false b = true /\ cat_pure b) inp /\
    exists r, flatten_full_spec GA GT GTT hd sp ip ap inf inp r /\ fst r = FErrCreate /\ af_std (snd r) = [].
Proof.
  exists fx_hd, fx_sp, fx_ip, fx_ap, fx_inf, rx_inp.
  destruct rx_refutes as (H1 & H2 & H3 & H4 & H5 & H6 & H7 & H8 & H9 & H10 & H11 & H12).
  repeat (split; [assumption|]). eexists. split; [exact H10|]. split; assumption.
Qed.

(* ---- files of standard and IAT batches ------------------------------------------------------- *)

Lemma c12_succeeds_iat hd sp ip ap kiat inf inp r :
  mixed_file kiat inp -> inp <> [] -> i_hdr_ok inf = true ->
  kinds_consistent inp -> Forall traces_nodup inp ->
  Forall (fun b => kiat (b_sig b) = false -> Arith.validate_batch GA (f_batch GA (hp_of hd) (fp_of sp) b) = Arith.ROk) inp ->
  Forall (mixed_pair hd ip kiat) (ids inp) ->
  i_count inf = sum_pairs (cnt_p ip kiat) inp ->
  i_debit inf = sum_pairs (db_p GT GTT sp ip kiat) inp -> i_credit inf = sum_pairs (cr_p GT GTT sp ip kiat) inp ->
  cat_rule inp ->
  i_debit inf <= Arith.t_file_limit GA -> i_credit inf <= Arith.t_file_limit GA ->
  flatten_full_spec GA GT GTT hd sp ip ap inf inp r ->
  (fst r = FOk \/ (fst r = FErrValidate /\ file_ctl_ok GA (snd r) = false))
  /\ Offsets.fc_count (af_ctl (snd r)) = i_count inf
  /\ Offsets.fc_debit (af_ctl (snd r)) = i_debit inf
  /\ Offsets.fc_credit (af_ctl (snd r)) = i_credit inf
  /\ exists all, r = finish GA GT GTT hd sp ip ap inf all /\ flatten_spec inp (finalize all)
       /\ (length (af_std (snd r)) + length (af_iat (snd r)) = length all)%nat
       /\ Forall (fun x => (created_s GA GT hd sp kiat x \/ created_i GTT hd ip kiat x) /\ StronglySorted trace_lt (b_entries x)) (pre all).
Proof.
  intros. eapply (flatten_succeeds_mixed GA GT GTT gen_agree); eauto using c12_limits.
Qed.

Lemma c12_create_iat hd ip x :
  hd_ok (hd (b_sig x)) = true -> hd_odfi_num (hd (b_sig x)) = true -> b_entries x <> [] ->
  Forall (fun e => BuildIAT.incl_ok (to_iat_entry ip e) = true /\ ip_tr_num (ip (e_core e)) = true) (b_entries x) ->
  category_ok x = true ->
  exists b', create_iat GTT hd ip x = Some b'
    /\ Offsets.c_count (BuildIAT.ib_ctl b') = BuildIAT.icount (map (to_iat_entry ip) (b_entries x))
    /\ Offsets.c_credit (BuildIAT.ib_ctl b') = BuildIAT.icredits GTT (map (to_iat_entry ip) (b_entries x))
    /\ Offsets.c_debit (BuildIAT.ib_ctl b') = BuildIAT.idebits GTT (map (to_iat_entry ip) (b_entries x)).
Proof. apply create_iat_spec. Qed.

(* non-vacuity: the standard batches of ex_inp plus two IAT batches with one header *)
Definition mx_kiat (s : bytes) : bool := match s with [9%N] => true | _ => false end.
Definition mx_hd (s : bytes) : hdrp :=
  if mx_kiat s then mkhdrp 200 (dsb [2;3;1;3;8;0;1;0]) true false 23138010 true else fx_hd s.
Definition mx_ip (c : bytes) : ipay := mkipay 22 12104288 true [true; true; true; true; true; true; true] 1 0 false false.
Definition mx_i1 := mkEntry (dsb [2;3;1;3;8;0;1;0;0;0;0;0;0;0;5]) [5%N] 1000 false 8 0.
Definition mx_i2 := mkEntry (dsb [2;3;1;3;8;0;1;0;0;0;0;0;0;0;3]) [6%N] 2500 false 8 0.
Definition mx_inp : list batch := ex_inp ++ [mkBatch KIAT [9%N] 3 [mx_i1] []; mkBatch KIAT [9%N] 4 [mx_i2] []].
Definition mx_inf : fin := mkfin true 21 0 3800.

Ltac mx_pair := unfold mixed_pair; cbn [fst snd]; split; [vm_compute; reflexivity|split; intros K; try (vm_compute in K; discriminate K); repeat split; vm_compute; try reflexivity; try discriminate].

Lemma mx_hyps :
  mixed_file mx_kiat mx_inp /\ mx_inp <> [] /\ i_hdr_ok mx_inf = true /\ kinds_consistent mx_inp /\ Forall traces_nodup mx_inp /\
  Forall (fun b => mx_kiat (b_sig b) = false -> Arith.validate_batch GA (f_batch GA (hp_of mx_hd) (fp_of fx_sp) b) = Arith.ROk) mx_inp /\
  Forall (mixed_pair mx_hd mx_ip mx_kiat) (ids mx_inp) /\
  i_count mx_inf = sum_pairs (cnt_p mx_ip mx_kiat) mx_inp /\
  i_debit mx_inf = sum_pairs (db_p GT GTT fx_sp mx_ip mx_kiat) mx_inp /\
  i_credit mx_inf = sum_pairs (cr_p GT GTT fx_sp mx_ip mx_kiat) mx_inp /\
  cat_rule mx_inp /\ i_debit mx_inf <= Arith.t_file_limit GA /\ i_credit mx_inf <= Arith.t_file_limit GA.
Proof.
  split.
  { unfold mixed_file, mx_inp, ex_inp. cbn [app].
    repeat (apply Forall_cons; [split; [cbn; congruence|split; [reflexivity|first [left; split; reflexivity|right; split; reflexivity]]]|]).
    apply Forall_nil. }
  split; [discriminate|]. split; [reflexivity|].
  split.
  { intros a b Ha Hb Hs. cbn in Ha, Hb.
    destruct Ha as [<-|[<-|[<-|[<-|[]]]]], Hb as [<-|[<-|[<-|[<-|[]]]]]; try reflexivity; cbn in Hs; discriminate Hs. }
  split; [repeat constructor; cbn; tauto|].
  split.
  { repeat constructor; intros K; try (vm_compute in K; discriminate K); vm_compute; reflexivity. }
  split.
  { unfold ids, mx_inp, ex_inp. cbn [app flat_map ids_of map b_entries b_sig].
    repeat (apply Forall_cons; [mx_pair|]). apply Forall_nil. }
  split; [vm_compute; reflexivity|]. split; [vm_compute; reflexivity|]. split; [vm_compute; reflexivity|].
  split.
  { split; [|split].
    - repeat constructor; cbn; intros; intuition (subst; reflexivity).
    - intros a b Ha Hb _. cbn in Ha, Hb.
      destruct Ha as [<-|[<-|[<-|[<-|[]]]]], Hb as [<-|[<-|[<-|[<-|[]]]]]; reflexivity.
    - repeat constructor; cbn; now right. }
  split; vm_compute; discriminate.
Qed.

Lemma mx_result :
  let r := flatten_full_stable GA GT GTT mx_hd fx_sp mx_ip fx_ap mx_inf mx_inp in
  fst r = FOk /\ length (af_std (snd r)) = 1%nat /\ length (af_iat (snd r)) = 1%nat /\
  map (fun b => map BuildIAT.ie_trace (BuildIAT.ib_entries b)) (af_iat (snd r)) = [[231380100000003; 231380100000005]] /\
  Offsets.fc_count (af_ctl (snd r)) = 21 /\ Offsets.fc_credit (af_ctl (snd r)) = 3800.
Proof. vm_compute. repeat split. Qed.

(* ---- ADV: the sequence-number limit --------------------------------------------------------- *)

Lemma c12_create_adv_iff hd ap x :
  hd_ok (hd (b_sig x)) = true -> b_entries x = [] -> b_adv x <> [] -> category_ok x = true ->
  (create_adv GTT hd ap x <> None <-> BuildIAT.zlen (b_adv x) <= 9998).
Proof. apply create_adv_iff. Qed.

(* two ADV batches of 5000 entries with one header: each passes Create; consolidated they hold
   10000 entries, Create fails on the four digit sequence number, the batch is not added and
   File.Create returns ErrFileNoBatches (known finding flatten:error:adv-sequence-limit, witness
   corpus/C12/full-adv-two-batches-of-5000.json replayed on the real code every run) *)
Definition ax_hd (s : bytes) : hdrp := mkhdrp 280 (dsb [1;2;1;0;4;2;8;8]) true true 12104288 true.
Definition ax_ap (c : bytes) : apay := mkapay 81 23138010 false.
Definition ax_entries : list entry := repeat (mkEntry [] [1%N] 100 false 0 0) 5000.
Definition ax_inp : list batch := [mkBatch KStd [8%N] 1 [] ax_entries; mkBatch KStd [8%N] 2 [] ax_entries].
Definition ax_inf : fin := mkfin true 0 0 0.

Lemma ax_refutes :
  Forall (fun b => create_adv GTT ax_hd ax_ap b <> None /\ is_category_std true b = true) ax_inp /\
  kinds_consistent ax_inp /\
  fst (flatten_full_stable GA GT GTT ax_hd fx_sp fx_ip ax_ap ax_inf ax_inp) = FErrCreate /\
  af_std (snd (flatten_full_stable GA GT GTT ax_hd fx_sp fx_ip ax_ap ax_inf ax_inp)) = [].
Proof.
  split.
  { unfold ax_inp. apply Forall_cons; [|apply Forall_cons; [|apply Forall_nil]].
    all: split; [apply c12_create_adv_iff|]; try (vm_compute; reflexivity); try (vm_compute; discriminate). }
  split.
  { assert (K : forall x, In x ax_inp -> b_kind x = KStd) by (intros x [<-|[<-|[]]]; reflexivity).
    intros a b Ha Hb _. now rewrite (K a Ha), (K b Hb). }
  split; vm_compute; reflexivity.
Qed.

Lemma c12_succeeds_adv_limit_refuted :
  exists hd sp ip ap inf inp,
    Forall (fun b => create_adv GTT hd ap b <> None /\ is_category_std true b = true) inp /\ kinds_consistent inp /\
    exists r, flatten_full_spec GA GT GTT hd sp ip ap inf inp r /\ fst r = FErrCreate /\ af_std (snd r) = [].
Proof.
  exists ax_hd, fx_sp, fx_ip, ax_ap, ax_inf, ax_inp. destruct ax_refutes as (H1 & H2 & H3 & H4).
  split; [exact H1|]. split; [exact H2|]. eexists. split; [apply flatten_full_stable_spec|]. split; assumption.
Qed.

Lemma c12_succeeds_adv hd sp ip ap inf inp r :
  Forall (fun b => b_kind b = KStd /\ b_entries b = [] /\ b_adv b <> []) inp -> inp <> [] ->
  i_hdr_ok inf = true -> i_count inf = 0 -> i_debit inf = 0 -> i_credit inf = 0 ->
  Forall (fun p => hd_adv (hd (fst p)) = true /\ hd_ok (hd (fst p)) = true) (adv_ids inp) ->
  cat_rule inp -> BuildIAT.zlen (adv_ids inp) <= 9998 ->
  flatten_full_spec GA GT GTT hd sp ip ap inf inp r ->
  (fst r = FOk \/ (fst r = FErrValidate /\ file_ctl_ok GA (snd r) = false))
  /\ af_iat (snd r) = [] /\ forallb sb_is_adv (af_std (snd r)) = true
  /\ exists all, r = finish GA GT GTT hd sp ip ap inf all /\ flatten_spec inp (finalize all)
       /\ length (af_std (snd r)) = length all /\ Forall (created_a GTT hd ap) (pre all).
Proof. apply flatten_succeeds_adv. Qed.

(* non-vacuity: two ADV batches (2 + 1 entries) with one header *)
Definition ay_e (n : N) (amt : Z) : entry := mkEntry [] [n] amt false 0 0.
Definition ay_inp : list batch := [mkBatch KStd [8%N] 1 [] [ay_e 1 100; ay_e 2 250]; mkBatch KStd [8%N] 2 [] [ay_e 3 75]].

Lemma ay_hyps :
  Forall (fun b => b_kind b = KStd /\ b_entries b = [] /\ b_adv b <> []) ay_inp /\ ay_inp <> [] /\
  Forall (fun p => hd_adv (ax_hd (fst p)) = true /\ hd_ok (ax_hd (fst p)) = true) (adv_ids ay_inp) /\
  cat_rule ay_inp /\ BuildIAT.zlen (adv_ids ay_inp) <= 9998.
Proof.
  split; [repeat constructor; cbn; congruence|]. split; [discriminate|].
  split; [repeat constructor|].
  split.
  { split; [|split].
    - repeat constructor; cbn; intros; intuition (subst; reflexivity).
    - intros a b Ha Hb _. cbn in Ha, Hb. destruct Ha as [<-|[<-|[]]], Hb as [<-|[<-|[]]]; reflexivity.
    - repeat constructor; cbn; now left. }
  vm_compute. discriminate.
Qed.

Lemma ay_result :
  let r := flatten_full_stable GA GT GTT ax_hd fx_sp fx_ip ax_ap ax_inf ay_inp in
  fst r = FOk /\ length (af_std (snd r)) = 1%nat /\
  af_actl (snd r) = Offsets.mkfctl 1 1 3 69414030 0 425.
Proof. vm_compute. repeat split. Qed.

(* ---- flatten (flatten f) -------------------------------------------------------------------------- *)
Lemma c12_reflatten hd sp ip ap inf inp out r' :
  std_file inp -> inp <> [] -> i_hdr_ok inf = true ->
  kinds_consistent inp -> Forall traces_nodup inp ->
  Forall (fun b => Arith.validate_batch GA (f_batch GA (hp_of hd) (fp_of sp) b) = Arith.ROk) inp ->
  Forall (hdr_pair hd) (ids inp) ->
  i_count inf = sum_ids cnt_e inp -> i_debit inf = sum_ids (db_e GT sp) inp -> i_credit inf = sum_ids (cr_e GT sp) inp ->
  cat_rule inp ->
  i_debit inf <= Arith.t_file_limit GA -> i_credit inf <= Arith.t_file_limit GA ->
  flatten_spec inp out ->
  flatten_full_spec GA GT GTT hd sp ip ap inf out r' ->
  (fst r' = FOk \/ (fst r' = FErrValidate /\ file_ctl_ok GA (snd r') = false))
  /\ Offsets.fc_count (af_ctl (snd r')) = i_count inf
  /\ Offsets.fc_debit (af_ctl (snd r')) = i_debit inf
  /\ Offsets.fc_credit (af_ctl (snd r')) = i_credit inf
  /\ exists all', r' = finish GA GT GTT hd sp ip ap inf all' /\ finalize all' = out
       /\ Forall (fun x => created GA GT hd sp x /\ StronglySorted trace_lt (b_entries x)) (pre all').
Proof.
  intros. eapply (reflatten GA GT GTT gen_agree); eauto using c12_limits.
Qed.

(* ---- the last error return closed ------------------------------------------------------------------ *)
Lemma c12_hash10 : BuildIAT.hash10 (BuildIAT.tt_create GTT) = true.
Proof. vm_compute. reflexivity. Qed.

Lemma c12_succeeds_ok hd sp ip ap inf inp r :
  std_file inp -> inp <> [] -> i_hdr_ok inf = true ->
  kinds_consistent inp -> Forall traces_nodup inp ->
  Forall (fun b => Arith.validate_batch GA (f_batch GA (hp_of hd) (fp_of sp) b) = Arith.ROk) inp ->
  Forall (hdr_pair hd) (ids inp) ->
  i_count inf = sum_ids cnt_e inp -> i_debit inf = sum_ids (db_e GT sp) inp -> i_credit inf = sum_ids (cr_e GT sp) inp ->
  cat_rule inp ->
  (forall p, In p (ids inp) -> 0 <= rd_e sp (snd p)) ->
  Arith.validate_fctl GA (Arith.mkfctl 1 (i_count inf) ((sum_ids (rd_e sp) inp) mod Offsets.P10) (i_debit inf) (i_credit inf)) = Arith.ROk ->
  flatten_full_spec GA GT GTT hd sp ip ap inf inp r ->
  fst r = FOk.
Proof.
  intros. eapply (flatten_succeeds_ok GA GT GTT gen_agree); eauto using c12_limits, c12_hash10.
Qed.

Lemma fx_ctl_hyps :
  (forall p, In p (ids ex_inp) -> 0 <= rd_e fx_sp (snd p)) /\
  Arith.validate_fctl GA (Arith.mkfctl 1 (i_count fx_inf) ((sum_ids (rd_e fx_sp) ex_inp) mod Offsets.P10) (i_debit fx_inf) (i_credit fx_inf)) = Arith.ROk.
Proof.
  split; [|vm_compute; reflexivity].
  intros p Hp. cbn in Hp. destruct Hp as [<-|[<-|[]]]; vm_compute; discriminate.
Qed.

(* Obligations for C12: non-vacuity examples and refutation witnesses for the
   theorems in Props/C12.v (all by computation on the executable model). *)
From ACH Require Import Bytes Flatten FlattenFacts.
From ACH Require Import LayoutTypes Layouts FlattenTable FlattenSrc.
From Coq Require Import Permutation Sorted Lia String.

(* reflection over the facts regenerated from file_flattener.go and over the
   record layouts regenerated from batchHeader.go / iatBatchHeader.go *)
Lemma flatten_src_ok : facts_ok flatten_src = true.
Proof. vm_compute. reflexivity. Qed.

Lemma header_layouts_ok : header_layout_ok L_BatchHeader = true /\ header_layout_ok L_IATBatchHeader = true.
Proof. vm_compute. split; reflexivity. Qed.

Lemma flatten_src_facts :
  (forall w, ~ In (FUnknown w) flatten_src)
  /\ (forall r u w, In (FSigWidth r u w) flatten_src -> u = "rune"%string /\ w = sig_width)
  /\ (forall s k o, In (FSort s k o) flatten_src -> o = "<"%string)
  /\ In (FFirstFit true) flatten_src /\ ~ In (FFirstFit false) flatten_src.
Proof. apply facts_sound, flatten_src_ok. Qed.

(* three batches, the first two with the same header signature and disjoint
   trace numbers, the third with another signature *)
Definition ex_e (t : N) (amt : Z) (d : bool) : entry := mkEntry [49; t]%N [t]%N amt d 0%N 0%N.
Definition ex_b1 : batch := mkBatch KStd [65]%N 1 [ex_e 50 100 false; ex_e 52 70 true] [].
Definition ex_b2 : batch := mkBatch KStd [65]%N 2 [ex_e 51 5 false] [].
Definition ex_b3 : batch := mkBatch KStd [66]%N 3 [ex_e 50 9 true] [].
Definition ex_inp : list batch := [ex_b1; ex_b2; ex_b3].

Lemma ex_kinds_consistent : kinds_consistent ex_inp.
Proof. intros a b Ha Hb _. cbn in Ha, Hb. intuition (subst; reflexivity). Qed.

Lemma ex_flatten_value :
  flatten_stable ex_inp =
  [mkBatch KStd [65]%N 1 [ex_e 50 100 false; ex_e 51 5 false; ex_e 52 70 true] [];
   mkBatch KStd [66]%N 2 [ex_e 50 9 true] []].
Proof. vm_compute. reflexivity. Qed.

(* the hypotheses of the theorems are met by this input and its result *)
Lemma ex_spec : flatten_spec ex_inp (flatten_stable ex_inp).
Proof. apply flatten_stable_spec. Qed.

Lemma ex_wellformed_hyps : Forall traces_nodup ex_inp /\ Forall nonempty ex_inp.
Proof.
  split.
  - repeat constructor; cbn; intuition discriminate.
  - repeat (constructor; [left; discriminate|]). constructor.
Qed.

Lemma ex_cat_uniform : cat_uniform ex_inp.
Proof.
  split; intros p q Hp Hq _; cbn in Hp, Hq; [|easy].
  intuition (subst; reflexivity).
Qed.

(* the processing order matters: with three one-entry batches of one signature
   (equal counts: every order is admissible) where the first two collide, the
   third joins whichever of them was processed first — both results satisfy
   the theorems, which is why they quantify over the order *)
Definition ord_a : batch := mkBatch KStd [65]%N 1 [ex_e 50 1 false] [].
Definition ord_b : batch := mkBatch KStd [65]%N 2 [ex_e 50 2 false] [].
Definition ord_c : batch := mkBatch KStd [65]%N 3 [ex_e 51 3 false] [].

Lemma ex_order_admissible :
  admissible [ord_a; ord_b; ord_c] [ord_a; ord_b; ord_c] /\ admissible [ord_a; ord_b; ord_c] [ord_b; ord_a; ord_c].
Proof.
  split; (split; [|repeat constructor]).
  - reflexivity.
  - apply perm_swap.
Qed.

Lemma ex_order_matters :
  finalize (all_batches (run [ord_a; ord_b; ord_c])) <> finalize (all_batches (run [ord_b; ord_a; ord_c])).
Proof. vm_compute. discriminate. Qed.

(* the certificate checker accepts a correct hint and rejects a wrong one *)
Lemma ex_hint_accepts :
  flatten_hint ex_inp [1; 2; 0]%nat = Some (flatten_stable ex_inp) /\ flatten_hint ex_inp [0; 1; 2]%nat = None
  /\ flatten_hint ex_inp [1; 1; 0]%nat = None.
Proof. vm_compute. repeat split. Qed.

(* refutation of "Flatten succeeds on every valid file": a forward batch and a
   return batch with the same header; each passes isCategory, their
   consolidation does not (known finding flatten:error:mixed-category-same-header) *)
Definition cat_fwd : batch := mkBatch KStd [65]%N 1 [mkEntry [49; 50]%N [1]%N 100 false 0%N 0%N] [].
Definition cat_ret : batch := mkBatch KStd [65]%N 2 [mkEntry [49; 51]%N [2]%N 100 false 1%N 1%N] [].

Lemma mixed_category_fails :
  forallb category_ok [cat_fwd; cat_ret] = true /\ kinds_consistent [cat_fwd; cat_ret]
  /\ Forall traces_nodup [cat_fwd; cat_ret] /\ Forall nonempty [cat_fwd; cat_ret]
  /\ flatten_stable_checked [cat_fwd; cat_ret] = None.
Proof.
  split; [reflexivity|]. split; [intros a b Ha Hb _; cbn in Ha, Hb; intuition (subst; reflexivity)|].
  split; [repeat constructor; cbn; intuition discriminate|].
  split; [repeat (constructor; [left; discriminate|]); constructor|]. vm_compute. reflexivity.
Qed.

Lemma mixed_category_refutes :
  exists inp, forallb category_ok inp = true /\ kinds_consistent inp /\ flatten_spec inp (flatten_stable inp)
              /\ checked (flatten_stable inp) = None.
Proof.
  exists [cat_fwd; cat_ret]. destruct mixed_category_fails as (H1 & H2 & _ & _ & H5).
  split; [exact H1|]. split; [exact H2|]. split; [apply flatten_stable_spec|exact H5].
Qed.

(* the kind hypothesis of the conservation theorem is necessary in the model:
   Consume's type assertion fails on a kind mismatch, the error is ignored and the
   entries are gone (unreachable from valid files: the SEC code is part of the
   signature and is IAT exactly for IAT batches) *)
Lemma kind_mismatch_drops_entries :
  List.length (ids (flatten_stable [mkBatch KStd [65]%N 1 [ex_e 50 1 false] []; mkBatch KIAT [65]%N 2 [ex_e 51 2 false] []])) = 1%nat.
Proof. vm_compute. reflexivity. Qed.

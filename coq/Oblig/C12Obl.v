(* Obligations for C12: non-vacuity examples for the theorems in Props/C12.v *)
From ACH Require Import Bytes Flatten FlattenFacts.
From Coq Require Import Permutation Sorted Lia.

(* three batches, the first two with the same header signature and disjoint
   trace numbers, the third with another signature *)
Definition ex_e (t : N) (amt : Z) (d : bool) : entry := mkEntry [49; t]%N [t]%N amt d 0%N 0%N.
Definition ex_b1 : batch := mkBatch KStd [65]%N 1 [ex_e 50 100 false; ex_e 52 70 true] [].
Definition ex_b2 : batch := mkBatch KStd [65]%N 2 [ex_e 51 5 false] [].
Definition ex_b3 : batch := mkBatch KStd [66]%N 3 [ex_e 50 9 true] [].
Definition ex_inp : list batch := [ex_b1; ex_b2; ex_b3].

Lemma ex_kinds_consistent : kinds_consistent ex_inp.
Proof. intros a b Ha Hb _. cbn in Ha, Hb. intuition (subst; reflexivity). Qed.

Lemma ex_flatten_value :
  flatten_stable ex_inp =
  [mkBatch KStd [65]%N 1 [ex_e 50 100 false; ex_e 51 5 false; ex_e 52 70 true] [];
   mkBatch KStd [66]%N 2 [ex_e 50 9 true] []].
Proof. vm_compute. reflexivity. Qed.

(* Phase 2 obligations for C12: instances at the regenerated validator tables, payload
   preservation, non-vacuity example (two batches with one header consolidated into one). *)
From Coq Require Import Lia Permutation Sorted.
From ACH Require Import ValidOut ValidOutFacts Tables.
From ACH Require Import Bytes Flatten FlattenFacts.
From ACH Require Import ValidFlatten ValidFlattenFacts.
Open Scope Z_scope.

Notation GA := gen_tables.

Lemma c12_batch_arith_valid hp fp inp out :
  kinds_consistent inp -> Forall traces_nodup inp -> Forall (fun b => b_entries b <> [] /\ b_adv b = []) inp ->
  flatten_spec inp out ->
  Forall (fun b => AR.validate_batch GA (f_batch GA hp fp b) = AR.ROk) inp ->
  forall b, In b out ->
  AR.calc_debit GA AR.KStd (map (f_entry fp) (b_entries b)) <= AR.t_batch_limit GA ->
  AR.calc_credit GA AR.KStd (map (f_entry fp) (b_entries b)) <= AR.t_batch_limit GA ->
  AR.validate_batch GA (f_batch GA hp fp b) = AR.ROk.
Proof. apply flatten_batch_arith_valid. Qed.

Lemma c12_file_arith_valid hp fp inp out :
  kinds_consistent inp -> Forall traces_nodup inp -> Forall (fun b => b_entries b <> [] /\ b_adv b = []) inp ->
  flatten_spec inp out -> out <> [] ->
  Forall (fun b => AR.validate_batch GA (f_batch GA hp fp b) = AR.ROk) inp ->
  Forall (fun b => AR.calc_debit GA AR.KStd (map (f_entry fp) (b_entries b)) <= AR.t_batch_limit GA /\
                   AR.calc_credit GA AR.KStd (map (f_entry fp) (b_entries b)) <= AR.t_batch_limit GA) out ->
  fctl_fits GA (AR.fl_ctl (f_file GA hp fp out)) ->
  AR.validate_file GA (f_file GA hp fp out) = AR.ROk.
Proof. apply flatten_file_arith_valid. Qed.

(* payload preservation: the skeleton entries of the result are, as a multiset of
   (signature, skeleton entry) pairs, those of the input *)
Lemma c12_payload_preserved fp inp out : kinds_consistent inp -> flatten_spec inp out ->
  Permutation (map (fun p => (fst p, f_entry fp (snd p))) (ids out))
              (map (fun p => (fst p, f_entry fp (snd p))) (ids inp)).
Proof. intros Hk Hs. apply Permutation_map. now destruct (flatten_conservation inp out Hk Hs). Qed.

(* ---- non-vacuity ------------------------------------------------------------------------ *)

Definition dsb (l : list Z) : bytes := map (fun d => (48 + Z.to_N d)%N) l.

Definition ex_hp (s : bytes) : hpay := mkhpay 220 (dsb [1;2;1;0;4;2;8;8]).
Definition ex_fp (c : bytes) : fpay :=
  match c with
  | [1%N] => mkfpay 22 (dsb [2;3;1;3;8;0;1;0]) (dsb [4])
  | _ => mkfpay 32 (dsb [1;2;1;0;4;2;8;8]) (dsb [2])
  end.
Definition ex_e1 := mkEntry (dsb [1;2;1;0;4;2;8;8;0;0;0;0;0;0;1]) [1%N] 100 false 0 0.
Definition ex_e2 := mkEntry (dsb [1;2;1;0;4;2;8;8;0;0;0;0;0;0;2]) [2%N] 200 false 1 0.
Definition ex_inp : list batch := [mkBatch KStd [7%N] 1 [ex_e2] []; mkBatch KStd [7%N] 2 [ex_e1] []].
Definition ex_out : list batch := flatten_stable ex_inp.

Lemma ex_flat_hyps :
  kinds_consistent ex_inp /\ Forall traces_nodup ex_inp /\ Forall (fun b => b_entries b <> [] /\ b_adv b = []) ex_inp /\
  flatten_spec ex_inp ex_out /\ length ex_out = 1%nat /\
  Forall (fun b => AR.validate_batch GA (f_batch GA ex_hp ex_fp b) = AR.ROk) ex_inp.
Proof.
  split; [|split; [|split; [|split; [|split]]]].
  - intros a b Ha Hb _. cbn in Ha, Hb. destruct Ha as [<-|[<-|[]]], Hb as [<-|[<-|[]]]; reflexivity.
  - repeat constructor; cbn; tauto.
  - repeat constructor; cbn; congruence.
  - apply flatten_stable_spec.
  - vm_compute. reflexivity.
  - repeat constructor; vm_compute; reflexivity.
Qed.

Lemma ex_flat_valid :
  Forall (fun b => AR.validate_batch GA (f_batch GA ex_hp ex_fp b) = AR.ROk) ex_out /\
  AR.validate_file GA (f_file GA ex_hp ex_fp ex_out) = AR.ROk /\
  map (fun b => map AR.en_trace (AR.bt_entries (f_batch GA ex_hp ex_fp b))) ex_out = [[e_trace ex_e1; e_trace ex_e2]].
Proof. split; [|split]; [repeat constructor; vm_compute; reflexivity|vm_compute; reflexivity|vm_compute; reflexivity]. Qed.

(* a consolidated batch whose hash were not recomputed (here: the hash of the first input
   batch kept) is refused by the same validator *)
Lemma ex_flat_stale_hash_refused :
  match ex_out with
  | b :: _ =>
      let x := f_batch GA ex_hp ex_fp b in
      let c := AR.bt_ctl x in
      AR.validate_batch GA (AR.mkbatch AR.KStd (AR.bt_class x) (AR.bt_odfi x) (AR.bt_number x) (AR.bt_entries x)
                             (AR.mkbctl (AR.bc_class c) (AR.bc_count c) 12104288 (AR.bc_debit c) (AR.bc_credit c) (AR.bc_odfi c) (AR.bc_number c)))
  | [] => AR.ROk
  end = AR.RHash.
Proof. vm_compute. reflexivity. Qed.

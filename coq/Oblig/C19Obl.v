(* Reflection obligations for C19 (table regenerated from the current source),
   instances of the generic theorems, non-vacuity examples and refutation witnesses. *)
From Coq Require Import String List Bool Arith NArith.
Import ListNotations.
From ACH Require Import Pool PoolFacts PoolDisc PoolTable OptsWrites.

(* ---- the regenerated table passes every check ---- *)
Lemma pool_users_ok : users_ok pool_users = true.
Proof. vm_compute. reflexivity. Qed.

Lemma pool_prims_ok : prims_ok pool_prims = true.
Proof. vm_compute. reflexivity. Qed.

Lemma pool_save_resets_then_puts : save_ok pool_save_ops = true.
Proof. vm_compute. reflexivity. Qed.

Lemma pool_get_returns_ok : get_ok pool_get_returns = true /\ new_ok pool_new_returns = true.
Proof. vm_compute. split; reflexivity. Qed.

Lemma pool_globals_read_only : globals_ok pool_globals = true.
Proof. vm_compute. reflexivity. Qed.

Lemma pool_table_is_complete : table_complete pool_users pool_globals = true.
Proof. vm_compute. reflexivity. Qed.

Lemma pool_table_checked :
  pool_table_ok pool_users pool_prims pool_save_ops pool_get_returns pool_new_returns pool_globals = true.
Proof. vm_compute. reflexivity. Qed.

(* a *ValidateOpts handed to the library is shared by the files a caller processes on different goroutines: in the
   model it is a cell of the global part G, which a disciplined thread only reads (global_write_interferes shows a
   write breaks non-interference).  Source table of this run: package ach assigns to no field of a ValidateOpts
   other than a fresh local value, and never through a *ValidateOpts parameter or receiver. *)
Lemma opts_read_only : opts_param_writes = [] /\ Nat.ltb 0 validate_opts_fields = true.
Proof. vm_compute. split; reflexivity. Qed.

(* ---- the library instance of the non-interference theorem ---- *)
Lemma lib_threads_disciplined (Loc Glob : Type) fw fr (calls : list user) :
  (forall u, In u calls -> In u pool_users) ->
  disciplined (thread_prog Loc Glob fw fr calls) = true.
Proof. apply table_thread_disciplined, pool_users_ok. Qed.

Lemma lib_noninterference (Loc Glob : Type) fw fr (calls : tid -> list user) l0 G warm :
  (forall t u, In u (calls t) -> In u pool_users) ->
  forall sc,
    let g := run sc (ginit (fun t => thread_prog Loc Glob fw fr (calls t)) l0 G warm) in
    (forall t, pc (th g t) = PDone ->
               loc (th g t) = sloc (solo_final (thread_prog Loc Glob fw fr (calls t)) (l0 t) G)) /\
    glob g = G /\
    (forall b, In b (pool g) -> heap g b = []).
Proof. apply table_noninterference, pool_users_ok. Qed.

(* ---- concrete programs over byte strings ---- *)
Definition L := buf.   (* private state: the last string read *)
Definition G := buf.   (* the shared table *)

Definition app (x : N) : L -> buf -> buf := fun _ b => (b ++ [x])%list.
Definition rd : L -> buf -> L := fun _ b => b.

(* String(): borrow, write two bytes, read, save *)
Definition good (x y : N) : prog L G :=
  PGet 0 (PWrite 0 (app x) (PWrite 0 (app y) (PRead 0 rd (PReset 0 (PPut 0 PDone))))).

Definition two (p q : prog L G) : tid -> prog L G :=
  fun t => match t with 0 => p | 1 => q | _ => PDone end.

(* non-vacuity of the hypotheses: disciplined programs exist, they run to completion
   under an interleaving that reuses a pooled buffer, and the results are the solo ones *)
Definition sched_mix : sched :=
  [(0, None); (0, None); (1, None); (0, None); (1, None); (0, None); (0, None); (0, None);
   (1, None); (1, None); (1, None); (1, None)].
Definition sched_reuse : sched :=
  [(0, None); (0, None); (0, None); (0, None); (0, None); (0, None);
   (1, Some 0); (1, None); (1, None); (1, None); (1, None); (1, None)].

Lemma good_disciplined : disciplined (good 65 66) = true /\ disciplined (good 67 68) = true.
Proof. vm_compute. split; reflexivity. Qed.

Lemma good_example :
  let P := two (good 65 66) (good 67 68) in
  let g1 := run sched_mix (ginit P (fun _ => []) [] 0) in
  let g2 := run sched_reuse (ginit P (fun _ => []) [] 0) in
  loc (th g1 0) = [65; 66]%N /\ loc (th g1 1) = [67; 68]%N /\
  loc (th g2 0) = [65; 66]%N /\ loc (th g2 1) = [67; 68]%N /\
  next g1 = 2 /\ next g2 = 1 /\ pool g2 = [0] /\
  sloc (solo_final (good 67 68) [] []) = [67; 68]%N.
Proof. vm_compute. repeat split; reflexivity. Qed.

(* the structured form: Reader.Read holding its line buffer while a record's Parse
   borrows a second one *)
Definition nested : stm L G :=
  SBorrow (SWrite 0 (app 49) (SBorrow (SWrite 0 (app 50) (SRead 1 rd (SRead 0 rd SDone))) (SRead 0 rd SDone))) SDone.
Lemma nested_example : wf 0 nested = true /\ disciplined (compile 0 nested PDone) = true.
Proof. vm_compute. split; reflexivity. Qed.

(* threads made of real table entries are disciplined programs that terminate *)
Lemma lib_example :
  let calls := firstn 3 pool_users in
  let p := thread_prog L G (fun _ _ => app 120) (fun _ _ => rd) calls in
  length calls = 3 /\ disciplined p = true /\ 9 <= depth p.
Proof. vm_compute. repeat split; try reflexivity. repeat constructor. Qed.

(* ---- refutations: each clause of the discipline is needed ---- *)

(* (a) use after Put (a string aliasing the buffer, a missing copy, an early saveBuffer):
   thread 0 writes to its buffer after returning it; the DISCIPLINED thread 1, which was
   handed that buffer, reads "BX" where its solo run reads "B" *)
Definition uap : prog L G :=
  PGet 0 (PWrite 0 (app 65) (PReset 0 (PPut 0 (PWrite 0 (app 88) PDone)))).
Definition victim : prog L G :=
  PGet 0 (PWrite 0 (app 66) (PRead 0 rd (PReset 0 (PPut 0 PDone)))).
Definition sched_uap : sched :=
  [(0, None); (0, None); (0, None); (0, None); (1, Some 0); (1, None); (0, None); (1, None)].

Lemma use_after_put_interferes :
  disciplined uap = false /\ disciplined victim = true /\
  loc (th (run sched_uap (ginit (two uap victim) (fun _ => []) [] 0)) 1) = [66; 88]%N /\
  sloc (solo_run (count 1 sched_uap) (sinit victim [] [])) = [66]%N.
Proof. vm_compute. repeat split; reflexivity. Qed.

(* (b) saveBuffer without Reset: thread 1 finds thread 0's bytes in its fresh buffer *)
Definition noreset : prog L G := PGet 0 (PWrite 0 (app 83) (PPut 0 PDone)).
Definition reader : prog L G := PGet 0 (PRead 0 rd (PReset 0 (PPut 0 PDone))).
Definition sched_noreset : sched := [(0, None); (0, None); (0, None); (1, Some 0); (1, None)].

Lemma put_without_reset_interferes :
  disciplined noreset = false /\ disciplined reader = true /\
  loc (th (run sched_noreset (ginit (two noreset reader) (fun _ => []) [] 0)) 1) = [83]%N /\
  sloc (solo_run (count 1 sched_noreset) (sinit reader [] [])) = []%N.
Proof. vm_compute. repeat split; reflexivity. Qed.

(* (c) a package-level table assigned after init (lazy initialisation) *)
Definition lazy_init : prog L G := PGWrite (fun _ _ => [1]%N) PDone.
Definition lookup : prog L G := PGRead (fun _ g => g) PDone.
Definition sched_lazy : sched := [(0, None); (1, None)].

Lemma global_write_interferes :
  disciplined lazy_init = false /\ disciplined lookup = true /\
  loc (th (run sched_lazy (ginit (two lazy_init lookup) (fun _ => []) [] 0)) 1) = [1]%N /\
  sloc (solo_run (count 1 sched_lazy) (sinit lookup [] [])) = []%N.
Proof. vm_compute. repeat split; reflexivity. Qed.

(* the unrestricted statement is therefore false: without the discipline hypothesis
   some thread's state differs from its solo run *)
Lemma noninterference_needs_discipline :
  exists (P : tid -> prog L G) sc t,
    loc (th (run sc (ginit P (fun _ => []) [] 0)) t)
    <> sloc (solo_run (count t sc) (sinit (P t) [] [])).
Proof.
  exists (two uap victim), sched_uap, 1. vm_compute. discriminate.
Qed.

(* a table entry that leaks the buffer is rejected by the checker *)
Lemma checker_rejects_escape :
  user_ok (mkuser "X.String" "buf" true true ["WriteString"; "Bytes"] [] false) = false /\
  user_ok (mkuser "X.String" "buf" true true ["WriteString"] ["return"] false) = false /\
  user_ok (mkuser "X.String" "buf" false true ["WriteString"; "String"] [] false) = false /\
  save_ok ["Put"] = false /\ save_ok ["Put"; "Reset"] = false /\
  gvar_ok (mkgvar "ach" "cache" "map" ["lookup"] [] [] []) = false.
Proof. vm_compute. repeat split; reflexivity. Qed.

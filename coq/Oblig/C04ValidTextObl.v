(* C04, phase 6: the TEXT-level tamper and truncation theorems transferred to the model of the
   DEFAULT reader (Codec/ReaderValid.v), on the tables of this run:

     LT = Gen/Layouts.v all_layouts,  RT = Gen/RecRules.v all_rules,  AT = Gen/Tables.v gen_tables

   accepts LT RT AT text = Some g   ach.NewReader(text).Read() returns g, no batch was left open,
                                    and g.Validate() finds nothing
   plus the obligations that pin the columns every protected Parse reads. *)
From Coq Require Import String List Lia NArith ZArith Bool.
From ACH Require Import Arith ArithFacts LayoutFacts NumFacts FileStructFacts.
From ACH Require Import TamperText TamperTextFacts TamperTextLift TruncFacts TruncBytes TruncUtf8 TruncUtf8Facts.
From ACH Require Import ReaderSkel ReaderSkelFacts TamperValidFacts.
From ACH Require Import Tables C01Obl C03Obl C04TextObl C04Utf8Obl C01FileEx C01FileObl C01ValidObl.
Import ListNotations.
Local Open Scope string_scope.
Local Open Scope nat_scope.
Local Open Scope list_scope.

(* ---- the columns Parse reads, pinned --------------------------------------------------------- *)

(* for every protected column: the record layout, the unit of its columns (characters), the columns
   of the cut that assigns the field, whether its conversion is parseNumField *)
Definition parse_columns (p : pcol) : string * string * bool * option (nat * nat * bool) :=
  let L := p_layout p in
  (l_name L, p_field p, is_irune (l_ix L),
   option_map (fun c => (c_lo c, c_hi c, is_num_chain (c_conv c))) (find_key (l_cuts L) (p_field p))).

Definition expected_columns (p : pcol) : string * string * bool * option (nat * nat * bool) :=
  (l_name (p_layout p), p_field p, true,
   Some (p_lo p, p_hi p, match p_kind p with CKNum => true | CKStr => false end)).

(* FileControl.Parse reads the entry/addenda count from characters [13, 21) with parseNumField
   (a seeded change sliced runes[14:21]) *)
Lemma fctl_parse_count_columns :
  parse_columns (mkpcol (RCFileCtl false) "EntryAddendaCount" 13 21 CKNum)
  = ("FileControl", "EntryAddendaCount", true, Some (13, 21, true)).
Proof. vm_compute. reflexivity. Qed.

(* EntryDetail.Parse reads the amount from characters [29, 39) with parseNumField, on every path
   (a seeded ASCII fast path read record[30:39]) *)
Lemma entry_parse_amount_columns :
  parse_columns (mkpcol (RCEntry KStd) "Amount" 29 39 CKNum) = ("EntryDetail", "Amount", true, Some (29, 39, true))
  /\ layout_ok L_EntryDetail = true.
Proof. split; vm_compute; reflexivity. Qed.

(* ... and so for all 46 protected columns *)
Lemma parse_columns_pinned : map parse_columns protected_columns = map expected_columns protected_columns.
Proof. vm_compute. reflexivity. Qed.

(* ---- the layouts the two readers share ------------------------------------------------------ *)

Lemma LT_ok : forallb layout_ok LT = true.
Proof. exact all_layouts_ok. Qed.

Lemma LT_bh : layout_of LT "BatchHeader" = Some L_BatchHeader. Proof. vm_compute. reflexivity. Qed.
Lemma LT_ibh : layout_of LT "IATBatchHeader" = Some L_IATBatchHeader. Proof. vm_compute. reflexivity. Qed.
Lemma LT_ed : layout_of LT "EntryDetail" = Some L_EntryDetail. Proof. vm_compute. reflexivity. Qed.
Lemma LT_ied : layout_of LT "IATEntryDetail" = Some L_IATEntryDetail. Proof. vm_compute. reflexivity. Qed.
Lemma LT_aed : layout_of LT "ADVEntryDetail" = Some L_ADVEntryDetail. Proof. vm_compute. reflexivity. Qed.
Lemma LT_bc : layout_of LT "BatchControl" = Some L_BatchControl. Proof. vm_compute. reflexivity. Qed.
Lemma LT_abc : layout_of LT "ADVBatchControl" = Some L_ADVBatchControl. Proof. vm_compute. reflexivity. Qed.
Lemma LT_fc : layout_of LT "FileControl" = Some L_FileControl. Proof. vm_compute. reflexivity. Qed.
Lemma LT_afc : layout_of LT "ADVFileControl" = Some L_ADVFileControl. Proof. vm_compute. reflexivity. Qed.

(* the two readers on the same lines (Codec/ReaderSkelFacts.v on the tables of this run) *)
Theorem c04_read_file_skelD ls g s : read_file LT ls = Some g -> read_struct ls = Some s -> p_file g = skelD LT s.
Proof. exact (read_file_skelD LT LT_ok LT_bh LT_ibh LT_ed LT_ied LT_aed LT_bc LT_abc LT_fc LT_afc ls g s). Qed.

Theorem c04_read_file_skel ls g s : read_file LT ls = Some g -> read_struct ls = Some s -> bridge_okb LT s = true ->
  p_file g = skel s.
Proof. exact (read_file_skel LT LT_ok LT_bh LT_ibh LT_ed LT_ied LT_aed LT_bc LT_abc LT_fc LT_afc ls g s). Qed.

(* ---- the projection lemma left open in phase 3 ------------------------------------------------ *)

(* the skeleton of the tree the reader builds from a written file = the skeleton of the written
   lines, the object of the text-level theorems *)
Theorem c04_projection f :
  all_file (rec_fitsb LT) f = true -> dispatchb LT f = true ->
  file_typed (struct_of LT f) = true -> starts99 (f_ctl (struct_of LT f)) = false ->
  bridge_okb LT (struct_of LT f) = true ->
  p_file (parsed_file LT f) = skel (struct_of LT f).
Proof.
  intros Hfit Hd Ht H99 Hb.
  pose proof (DispatchFacts.read_write_file LT LT_ok f (pad_count (length (write_file LT f))) Hfit Hd) as Hr.
  apply (c04_read_file_skel _ _ _ Hr); [|exact Hb].
  exact (read_struct_physical (struct_of LT f) Ht H99).
Qed.

(* ---- what an accepted text is ------------------------------------------------------------------ *)

Lemma accepted_lines text g : accepts LT RT AT text = Some g ->
  exists ls, all_lines (read_lines text) = Some ls /\ read_file_valid LT RT AT ls = Some (g, false)
             /\ validate_file AT (p_file g) = ROk.
Proof.
  unfold accepts, read_text_valid. rewrite norm_all_lines.
  destruct (all_lines (read_lines text)) as [ls|]; [|discriminate].
  destruct (read_file_valid LT RT AT ls) as [[g' [|]]|] eqn:E; try discriminate.
  destruct (is_rok (validate_file AT (p_file g'))) eqn:Ev; [|discriminate].
  intros H. injection H as <-. exists ls. repeat split; [exact E|now apply is_rok_eq].
Qed.

Lemma accepted_read_validate ls g : read_file_valid LT RT AT ls = Some (g, false) ->
  validate_file AT (p_file g) = ROk -> read_validate AT (p_file g) = ROk.
Proof.
  intros H Hv. unfold read_validate.
  assert (E : first_fail (validate_batch AT) (all_batches (p_file g)) = ROk).
  { apply first_fail_ok, Forall_forall. intros b Hb. exact (c04_valid_reader_batches ls g b H Hb). }
  rewrite E. exact Hv.
Qed.

(* the lines of a typed structured file in front of its file control record *)
Lemma typed_not_ctl t l : rtype l = t -> t <> T9 -> not_ctl l.
Proof. intros <- H. now left. Qed.

Lemma batch_lines_not_ctl b : batch_typed b = true -> Forall not_ctl (batch_lines b).
Proof.
  unfold batch_typed. intros H. apply andb_prop in H as [H H8]. apply andb_prop in H as [H5 He].
  apply N.eqb_eq in H5, H8. unfold batch_lines. constructor; [now apply (typed_not_ctl T5)|].
  apply Forall_app. split; [|constructor; [now apply (typed_not_ctl T8)|constructor]].
  induction (b_entries b) as [|e es IH]; [constructor|]. cbn [forallb] in He. apply andb_prop in He as [He1 He2].
  cbn [flat_map]. apply Forall_app. split; [|now apply IH].
  unfold entry_typed in He1. apply andb_prop in He1 as [H6 H7]. apply N.eqb_eq in H6. unfold entry_lines.
  constructor; [now apply (typed_not_ctl T6)|]. apply Forall_forall. intros a Ha.
  rewrite forallb_forall in H7. specialize (H7 a Ha). apply N.eqb_eq in H7. now apply (typed_not_ctl T7).
Qed.

Definition body (s : fileS) : list bytes := f_hdr s :: flat_map batch_lines (f_batches s).

Lemma body_not_ctl s : file_typed s = true -> Forall not_ctl (body s).
Proof.
  unfold file_typed. intros H. apply andb_prop in H as [H _]. apply andb_prop in H as [H1 Hb]. apply N.eqb_eq in H1.
  constructor; [now apply (typed_not_ctl T1)|].
  induction (f_batches s) as [|b bs IH]; [constructor|]. cbn [forallb] in Hb. apply andb_prop in Hb as [Hb1 Hb2].
  cbn [flat_map]. apply Forall_app. split; [now apply batch_lines_not_ctl|now apply IH].
Qed.

Lemma physical_body s : physical_lines s = body s ++ f_ctl s :: repeat nines (pad_count (length (record_lines s))).
Proof. unfold physical_lines, record_lines, body. cbn [app]. f_equal. now rewrite <- app_assoc. Qed.

Lemma nines_not_ctl : not_ctl nines.
Proof. right. vm_compute. reflexivity. Qed.

(* an accepted written text: its control record is not taken for padding, the tree the reader
   returns projects to the skeleton of the lines, and that skeleton passes read_validate *)
Theorem accepted_struct s le g : le_ok le -> file_typed s = true -> utf8_records s -> bridge_okb LT s = true ->
  accepts LT RT AT (write le s) = Some g ->
  starts99 (f_ctl s) = false /\ p_file g = skel s /\ read_validate AT (skel s) = ROk.
Proof.
  intros Hle Ht Hu Hb Ha. destruct (accepted_lines _ _ Ha) as (ls & Hls & Hr & Hv).
  rewrite write_text_of, (lines_written le _ Hle (physical_u s Hu)) in Hls. injection Hls as <-.
  pose proof (c01_valid_reader_refines _ _ Hr) as Hrf.
  destruct (starts99 (f_ctl s)) eqn:E99.
  - exfalso. rewrite (read_file_needs_ctl LT (physical_lines s)) in Hrf; [discriminate|].
    rewrite physical_body. apply Forall_app. split; [now apply body_not_ctl|].
    constructor; [now right|]. apply Forall_forall. intros x Hx. apply repeat_spec in Hx. subst x. exact nines_not_ctl.
  - pose proof (c04_read_file_skel _ _ _ Hrf (read_struct_physical s Ht E99) Hb) as Hp.
    split; [reflexivity|]. split; [exact Hp|]. rewrite <- Hp. exact (accepted_read_validate _ _ Hr Hv).
Qed.

(* ---- C04_valid_reader_tamper_text --------------------------------------------------------------- *)

(* a written text that Read + Validate accept; one digit of one protected column of one of its lines
   replaced by another digit: Read + Validate do not accept the tampered text (as anything).
   The last three hypotheses say that the tampered lines are still a typed structured file on which
   the two readers agree (they follow from the same facts about s: see c04_tamper_keeps_* below for
   the sites where this is proved) *)
Theorem c04_valid_reader_tamper_text_line s le g0 site p line j d :
  le_ok le -> file_typed s = true -> utf8_records s -> bridge_okb LT s = true ->
  accepts LT RT AT (write le s) = Some g0 ->
  Forall (batch_regular AT) (all_batches (skel s)) ->
  In p protected_columns -> site_class s site = Some (p_class p) -> site_line s site = Some line ->
  wf_utf8 line = true -> rune_count line = 94 ->
  j < p_hi p - p_lo p -> is_digit d = true ->
  digitsb (column line (p_lo p) (p_hi p)) = true ->
  nth j (column line (p_lo p) (p_hi p)) 0%N <> d ->
  (p_kind p = CKNum -> (digits_val (column line (p_lo p) (p_hi p)) 0 < max_int64)%Z) ->
  let s' := tamper s site (p_lo p + j) d in
  file_typed s' = true -> utf8_records s' -> bridge_okb LT s' = true ->
  accepts LT RT AT (write le s') = None.
Proof.
  intros Hle Ht Hu Hb Ha Hreg Hin Hsc Hsl Hwf Hn Hj Hd Hdig Hne Hmax s' Ht' Hu' Hb'.
  destruct (accepts LT RT AT (write le s')) as [g|] eqn:E; [exfalso|reflexivity].
  destruct (accepted_struct s le g0 Hle Ht Hu Hb Ha) as (_ & _ & Hv).
  destruct (accepted_struct s' le g Hle Ht' Hu' Hb' E) as (_ & _ & Hv').
  exact (c04_tamper_text_line_rejected s site p line j d Hv Hreg Hin Hsc Hsl Hwf Hn Hj Hd Hdig Hne Hmax Hv').
Qed.

(* the line written through its layout from a record that fits *)
Theorem c04_valid_reader_tamper_text_rendered s le g0 site p r j d :
  le_ok le -> file_typed s = true -> utf8_records s -> bridge_okb LT s = true ->
  accepts LT RT AT (write le s) = Some g0 ->
  Forall (batch_regular AT) (all_batches (skel s)) ->
  In p protected_columns -> site_class s site = Some (p_class p) ->
  site_line s site = Some (render (p_layout p) r) -> fitsb (p_layout p) r = true -> col_value_ok p r ->
  j < p_hi p - p_lo p -> is_digit d = true ->
  nth j (column (render (p_layout p) r) (p_lo p) (p_hi p)) 0%N <> d ->
  let s' := tamper s site (p_lo p + j) d in
  file_typed s' = true -> utf8_records s' -> bridge_okb LT s' = true ->
  accepts LT RT AT (write le s') = None.
Proof.
  intros Hle Ht Hu Hb Ha Hreg Hin Hsc Hsl Hfit Hval Hj Hd Hne. destruct (pcol_in_ok p Hin) as [A B].
  destruct (rendered_column p r B A Hfit Hval) as (Hwf & Hn & Hdig & Hmax & _).
  now apply (c04_valid_reader_tamper_text_line s le g0 site p (render (p_layout p) r) j d).
Qed.

(* ---- C04_valid_reader_truncation ------------------------------------------------------------------ *)

Lemma text_of_body le s : write le s = text_of le (body s) ++ text_of le (f_ctl s :: repeat nines (pad_count (length (record_lines s)))).
Proof. now rewrite write_text_of, physical_body, text_of_app. Qed.

Lemma Forall_uline_body s : utf8_records s -> Forall uline (body s).
Proof.
  unfold utf8_records, record_lines, body. intros H. rewrite app_comm_cons in H. now apply Forall_app in H as [H _].
Qed.

Lemma not_accepted_without_ctl text ls : all_lines (read_lines text) = Some ls -> Forall not_ctl ls ->
  accepts LT RT AT text = None.
Proof.
  intros Hls Hn. destruct (accepts LT RT AT text) as [g|] eqn:E; [exfalso|reflexivity].
  destruct (accepted_lines _ _ E) as (ls' & Hls' & Hr & _). rewrite Hls in Hls'. injection Hls' as <-.
  pose proof (c01_valid_reader_refines _ _ Hr) as Hrf. now rewrite (read_file_needs_ctl LT ls Hn) in Hrf.
Qed.

(* every prefix that ends before the file control record begins (any byte offset, also inside a
   multi-byte character, LF or CRLF) is rejected: the control record is lost *)
Theorem c04_valid_reader_truncation_before_ctl s le k :
  le_ok le -> file_typed s = true -> utf8_records s ->
  k <= length (text_of le (body s)) ->
  accepts LT RT AT (firstn k (write le s)) = None.
Proof.
  intros Hle Ht Hu Hk. rewrite text_of_body, firstn_app.
  replace (k - length (text_of le (body s))) with 0 by lia. cbn [firstn]. rewrite app_nil_r.
  pose proof (Forall_uline_body s Hu) as Hub. pose proof (body_not_ctl s Ht) as Hnb.
  destruct (Nat.eq_dec k (length (text_of le (body s)))) as [->|Hlt].
  - rewrite firstn_all. exact (not_accepted_without_ctl _ _ (lines_written le _ Hle Hub) Hnb).
  - destruct (lines_prefix_u le (body s) k Hle Hub ltac:(lia)) as (i & c & j & Hi & Hc & Hj & _ & E).
    apply (not_accepted_without_ctl _ _ E). apply Forall_app. split; [now apply Forall_firstn|].
    assert (Hin : In (nth i (body s) []) (body s)) by now apply nth_In.
    rewrite Forall_forall in Hub, Hnb. pose proof (Hub _ Hin) as Hul. pose proof (Hnb _ Hin) as Hnl.
    assert (H9 : rtype (nth i (body s) []) <> T9).
    { destruct Hnl as [Hnl|Hnl]; [exact Hnl|]. intros H9.
      (* a body line is typed 1, 5, 6, 7 or 8: body_not_ctl gives not_ctl through [typed_not_ctl] only *)
      revert Hin. clear -Ht H9. intros Hin. pose proof (body_not_ctl s Ht) as Hb.
      assert (Hty : Forall (fun l => rtype l <> T9) (body s)).
      { clear Hb Hin H9. unfold file_typed in Ht. apply andb_prop in Ht as [Ht _]. apply andb_prop in Ht as [H1 Hb].
        apply N.eqb_eq in H1. constructor; [rewrite H1; discriminate|].
        induction (f_batches s) as [|b bs IH]; [constructor|]. cbn [forallb] in Hb. apply andb_prop in Hb as [Hb1 Hb2].
        cbn [flat_map]. apply Forall_app. split; [|now apply IH].
        unfold batch_typed in Hb1. apply andb_prop in Hb1 as [Hb1 H8]. apply andb_prop in Hb1 as [H5 He].
        apply N.eqb_eq in H5, H8. unfold batch_lines. constructor; [rewrite H5; discriminate|].
        apply Forall_app. split; [|constructor; [rewrite H8; discriminate|constructor]].
        induction (b_entries b) as [|e es IHe]; [constructor|]. cbn [forallb] in He. apply andb_prop in He as [He1 He2].
        cbn [flat_map]. apply Forall_app. split; [|now apply IHe].
        unfold entry_typed in He1. apply andb_prop in He1 as [H6 H7]. apply N.eqb_eq in H6. unfold entry_lines.
        constructor; [rewrite H6; discriminate|]. apply Forall_forall. intros a Ha.
        rewrite forallb_forall in H7. specialize (H7 a Ha). apply N.eqb_eq in H7. rewrite H7. discriminate. }
      rewrite Forall_forall in Hty. exact (Hty _ Hin H9). }
    pose proof (tail_u_not_ctl _ c j Hul Hc H9) as Htl.
    apply Forall_forall. intros x Hx. rewrite Forall_forall in Htl. left. now apply Htl.
Qed.

Lemma bridge_with_ctl s c : bridge_okb LT (with_ctl s c) = bridge_okb LT s.
Proof. reflexivity. Qed.

(* every proper prefix (any byte offset) that Read + Validate accept, and that the structural reader
   reads at all, is accepted as a file with exactly the protected values of the original.
   PARTIAL: the remaining case is a prefix on which the structural reader answers None (the cut
   control record spills into a second line of U+FFFD, or a cut filler line "9   …" is a second
   control record); the missing lemma is
     read_text (firstn k (write le s)) = None -> accepts LT RT AT (firstn k (write le s)) = None *)
Theorem c04_valid_reader_truncation_partial s le k g0 g :
  le_ok le -> file_typed s = true -> utf8_records s -> bridge_okb LT s = true ->
  accepts LT RT AT (write le s) = Some g0 -> k < length (write le s) ->
  accepts LT RT AT (firstn k (write le s)) = Some g ->
  TamperText.read_text (firstn k (write le s)) <> None ->
  p_file g = p_file g0.
Proof.
  intros Hle Ht Hu Hb Ha Hk Hg Hrd.
  destruct (accepted_struct s le g0 Hle Ht Hu Hb Ha) as (H99 & Hp0 & Hv).
  destruct (accepted_lines _ _ Hg) as (ls & Hls & Hr & Hvg).
  pose proof (c01_valid_reader_refines _ _ Hr) as Hrf.
  pose proof (accepted_read_validate _ _ Hr Hvg) as Hrv.
  assert (Ers : TamperText.read_text (firstn k (write le s)) = read_struct ls) by (unfold TamperText.read_text; now rewrite Hls).
  destruct (truncation_bytes_u_verdict AT gen_tables_ok s le k Hle Ht H99 Hu Hv Hk) as [E|[E|(c & j & _ & _ & _ & _ & E & Halt)]].
  - contradiction.
  - rewrite Ers in E. rewrite Hp0. exact (c04_read_file_skel _ _ _ Hrf E Hb).
  - rewrite Ers in E. pose proof (c04_read_file_skel _ _ _ Hrf E Hb) as Hp. rewrite Hp0, Hp.
    destruct Halt as [Hbad|Hsame]; [|exact Hsame]. exfalso. apply Hbad. now rewrite <- Hp.
Qed.

(* ---- non-vacuity ---------------------------------------------------------------------------------- *)

(* the written lines of the generated example file of C01 (two standard batches, addenda) *)
Definition vx : fileS := struct_of LT ex_std.
Definition vx_hash : pcol := mkpcol (RCBatchCtl KStd) "EntryHash" 10 20 CKNum.
Definition vx_amount : pcol := mkpcol (RCEntry KStd) "Amount" 29 39 CKNum.
Definition vx_count : pcol := mkpcol (RCFileCtl false) "EntryAddendaCount" 13 21 CKNum.

Ltac ulines :=
  match goal with |- Forall uline ?l => let ls := fresh in set (ls := l); vm_compute in ls; subst ls end;
  repeat (constructor; [unfold uline; repeat split; vm_compute; reflexivity|]); constructor.

Lemma vx_utf8 : utf8_records vx.
Proof. unfold utf8_records. ulines. Qed.

Lemma vx_ok :
  file_typed vx = true /\ bridge_okb LT vx = true /\ accept_code LT RT AT (write CRLF_b vx) = 0
  /\ In vx_hash protected_columns /\ In vx_amount protected_columns /\ In vx_count protected_columns
  /\ site_class vx (SBatchCtl 0) = Some (p_class vx_hash) /\ site_class vx (SEntry 0 0) = Some (p_class vx_amount)
  /\ site_class vx SFileCtl = Some (p_class vx_count).
Proof. repeat split; vm_compute; auto 50. Qed.

Lemma vx_accepted : exists g, accepts LT RT AT (write CRLF_b vx) = Some g.
Proof. destruct (accepts LT RT AT (write CRLF_b vx)) as [g|] eqn:E; [now exists g|]. vm_compute in E. discriminate E. Qed.

(* one digit replaced in the entry hash of the first batch control, in the amount of the first entry
   (its first digit: the column a seeded fast path skipped), in the first digit of the file control's
   entry/addenda count (the column a seeded slice skipped): still typed structured files on which the
   readers agree, and rejected (1 = Read fails, 3 = File.Validate fails) *)
Lemma vx_tampered :
  let t1 := tamper vx (SBatchCtl 0) (10 + 9) 55 in
  let t2 := tamper vx (SEntry 0 0) (29 + 0) 55 in
  let t3 := tamper vx SFileCtl (13 + 0) 55 in
  (file_typed t1 = true /\ bridge_okb LT t1 = true /\ accept_code LT RT AT (write CRLF_b t1) = 1)
  /\ (file_typed t2 = true /\ bridge_okb LT t2 = true /\ accept_code LT RT AT (write CRLF_b t2) = 1)
  /\ (file_typed t3 = true /\ bridge_okb LT t3 = true /\ accept_code LT RT AT (write CRLF_b t3) = 3).
Proof. vm_compute. repeat split; reflexivity. Qed.

Lemma vx_tampered_utf8 : utf8_records (tamper vx (SBatchCtl 0) (10 + 9) 55).
Proof. unfold utf8_records. ulines. Qed.

(* truncation: cut in the middle of the second batch (rejected, control record lost), inside the
   file control record before / behind its last significant column, inside the filler *)
Lemma vx_truncated :
  map (fun k => accept_code LT RT AT (firstn k (write CRLF_b vx))) [400; 96 * 11 + 30; 96 * 11 + 54; 96 * 11 + 55; 96 * 11 + 94; 96 * 12 + 1; 96 * 12 + 2]
  = [1; 3; 3; 0; 0; 1; 0] /\ List.length (record_lines vx) = 12.
Proof. vm_compute. split; reflexivity. Qed.

(* Obligations for C09: concrete instances showing the hypotheses and the disjuncts
   of the limit theorems are met non-trivially by the model. *)
From Coq Require Import List NArith ZArith Bool Lia.
From ACH Require Import Bytes Merge MergeFacts C08Obl.
Import ListNotations.
Open Scope Z_scope.

(* MaxLines 9 binds: every output file stays within 9 records (no single-entry exception needed) *)
Lemma ex_limit_lines_met :
  map file_lines (merge_files ex_files (mkConds 9 0)) = [7; 7; 5; 5].
Proof. vm_compute. reflexivity. Qed.

(* MaxLines 6: entry 4 alone needs 2+2+3 = 7 > 6 records: the single-entry exception is real *)
Lemma ex_limit_lines_single :
  map (fun g => (file_lines g, length (file_entries g))) (merge_files ex_files (mkConds 6 0))
  = [(5, 1%nat); (6, 1%nat); (7, 1%nat); (5, 1%nat); (5, 1%nat)].
Proof. vm_compute. reflexivity. Qed.

(* MaxDollarAmount 300: first file holds exactly 300, the others a single entry above the cap *)
Lemma ex_limit_dollar :
  map (fun g => (file_amount g, length (file_entries g))) (merge_files ex_files (mkConds 0 300))
  = [(300, 2%nat); (400, 1%nat); (300, 1%nat); (500, 1%nat)].
Proof. vm_compute. reflexivity. Qed.

(* the forced cap: MaxDollarAmount 0 and anything above the Nacha limit mean the Nacha limit *)
Lemma ex_effective :
  effective_dollar (mkConds 0 0) = 999999999999 /\ effective_dollar (mkConds 0 1000000000000) = 999999999999 /\
  effective_dollar (mkConds 0 5) = 5 /\ effective_dollar (mkConds 0 (-1)) = -1.
Proof. vm_compute. repeat split; reflexivity. Qed.

(* non-vacuity of C09_maximal: with MaxLines 13 (= the size of the larger merged file) and the
   default dollar cap no limit binds on the example, and the result is the plain conversion *)
Lemma ex_no_limit_binds :
  Forall (fun o => fits (mkConds 13 0) (effective_dollar (mkConds 13 0)) o /\ ofile_nonneg o) (build_state ex_files).
Proof.
  apply Forall_forall. intros o Ho. vm_compute in Ho.
  destruct Ho as [<-|[<-|[]]]; (split; [split; intros _; vm_compute; discriminate | repeat constructor; vm_compute; discriminate]).
Qed.

Lemma ex_maximal_shape :
  shape (merge_files ex_files (mkConds 13 0)) = [[(1, [1; 2; 4]%N); (2, [3]%N)]; [(3, [5]%N)]]
  /\ merge_files ex_files (mkConds 13 0) = plain (build_state ex_files).
Proof. split; [vm_compute; reflexivity | apply merge_maximal, ex_no_limit_binds]. Qed.

(* ... and with MaxLines 12 the hypothesis fails and the output differs from the plain conversion *)
Lemma ex_limit_binds_12 : merge_files ex_files (mkConds 12 0) <> plain (build_state ex_files).
Proof. vm_compute. discriminate. Qed.

(* non-vacuity of C09_valid_partial: the section hypothesis is satisfiable *)
Lemma ex_valid_instance fs c :
  forall g rb, In g (merge_files fs c) -> In rb (rf_batches g) -> rb_entries rb <> [] /\ tasc (rb_entries rb).
Proof.
  apply (merge_valid_relative (fun _ _ => True) (fun _ es => es <> [] /\ tasc es)).
  - intros h es H1 H2 _. now split.
  - intros; exact I.
Qed.

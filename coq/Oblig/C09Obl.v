(* Obligations for C09: concrete instances showing the hypotheses and the disjuncts
   of the limit theorems are met non-trivially by the model. *)
From Coq Require Import List NArith ZArith Bool Lia.
From ACH Require Import Bytes Merge MergeFacts C08Obl.
Import ListNotations.
Open Scope Z_scope.

(* MaxLines 9 binds: every output file stays within 9 records (no single-entry exception needed) *)
Lemma ex_limit_lines_met :
  map file_lines (merge_files ex_files (mkConds 9 0)) = [7; 7; 5; 5].
Proof. vm_compute. reflexivity. Qed.

(* MaxLines 6: entry 4 alone needs 2+2+3 = 7 > 6 records: the single-entry exception is real *)
Lemma ex_limit_lines_single :
  map (fun g => (file_lines g, length (file_entries g))) (merge_files ex_files (mkConds 6 0))
  = [(5, 1%nat); (6, 1%nat); (7, 1%nat); (5, 1%nat); (5, 1%nat)].
Proof. vm_compute. reflexivity. Qed.

(* MaxDollarAmount 300: first file holds exactly 300, the others a single entry above the cap *)
Lemma ex_limit_dollar :
  map (fun g => (file_amount g, length (file_entries g))) (merge_files ex_files (mkConds 0 300))
  = [(300, 2%nat); (400, 1%nat); (300, 1%nat); (500, 1%nat)].
Proof. vm_compute. reflexivity. Qed.

(* the forced cap: MaxDollarAmount 0 and anything above the Nacha limit mean the Nacha limit *)
Lemma ex_effective :
  effective_dollar (mkConds 0 0) = 999999999999 /\ effective_dollar (mkConds 0 1000000000000) = 999999999999 /\
  effective_dollar (mkConds 0 5) = 5 /\ effective_dollar (mkConds 0 (-1)) = -1.
Proof. vm_compute. repeat split; reflexivity. Qed.

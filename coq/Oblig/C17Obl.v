(* C17 obligations: the route table regenerated from server/routing.go agrees with the
   requests of the model; witnesses and non-vacuity examples. *)
From Coq Require Import List NArith Bool String.
From ACH Require Import Server ServerFacts RouteTable ServerRoutes.
Import ListNotations.
Open Scope N_scope.

Lemma routes_ok : routes_check server_routes = true.
Proof. vm_compute. reflexivity. Qed.

Lemma status_ok : status_check server_status = true.
Proof. vm_compute. reflexivity. Qed.

(* every route of the model is registered with the expected endpoint, decoder and encoder *)
Lemma routes_registered r : In r expected_routes -> In r server_routes.
Proof. apply routes_sound, routes_ok. Qed.

(* the history behind known finding server:balance-overwrites-id, in the model *)
Lemma balance_witness_model :
  rpay (nth 2 (snd (crun cinit [RCreate Text 1 0 (Some 1) None; RBalance (Client 1) 0 true; RGet (Client 1)])) (Resp BadBody 0 PNone))
  = PFile (Balanced (WithID (Parsed Text 1 0) (Client 1)) 0 (Gen 0)).
Proof. vm_compute. reflexivity. Qed.

(* non-vacuity: a history without balance that exercises every other request *)
Definition sample_history : list request :=
  [RCreate Text 1 0 (Some 1) None; RCreate Json 2 0 None (Some 2); RCreate Text 3 0 None None;
   RCreate Text 4 0 (Some 1) None; RGet (Client 1); RContents (Client 1) CRLF; RValidate (Client 2) 1;
   RBuild (Gen 0); RAddBatch (Client 1) 5 true false; RAddBatch (Client 1) 5 true true; RGetBatch (Client 1) 5;
   RListBatches (Client 3); RDeleteBatch (Client 1) 5; RFlatten (Client 1) true; RSegment (Client 2) true true false;
   RSegmentBody Json 6 true false true; RBalance (Client 1) 0 false; RList; RDelete (Client 1); RGet (Client 1)].

Lemma sample_history_admissible :
  forallb (fun r => negb (is_balance_ok r)) sample_history = true /\
  map rcls (snd (crun cinit sample_history)) =
  [Found; Found; Found; Refused; Found; Found; Found; Found; Found; Refused; Found; Found; Found; Found; Found;
   Found; Found; Found; Found; NotFound].
Proof. vm_compute. split; reflexivity. Qed.

Lemma readonly_example :
  forallb readonly [RGet (Client 1); RContents (Client 1) LF; RBuild (Client 1); RFlatten (Client 1) true;
                    RSegment (Client 1) true true true; RList; RValidate (Client 1) 0] = true.
Proof. reflexivity. Qed.

(* Reflection obligations for C13 over the tables regenerated from reversal.go,
   batch.go and validators.go, and the instances of the generic theorems. *)
From Coq Require Import ZArith NArith List Bool Lia.
Import ListNotations.
From ACH Require Import Bytes TxCodes RevTable Reversal ReversalFacts ReversalTable.
Open Scope Z_scope.

Definition RT : rtables :=
  mkrt reversal_arms reversal_fixups reversal_description rev_amount_arms rev_standard_codes rev_prenote_codes.

(* the switch: same account type, opposite direction, valid code, involution, flag = new direction *)
Lemma reversal_code_table_ok : rev_table_ok reversal_arms rev_standard_codes rev_prenote_codes = true.
Proof. vm_compute. reflexivity. Qed.

(* the three `if has…` statements compute the NACHA service class of the flag pair *)
Lemma reversal_fixups_ok : fixups_ok reversal_fixups = true.
Proof. vm_compute. reflexivity. Qed.

(* calculateBatchAmounts classifies every standard entry code by its units digit *)
Lemma reversal_amount_lists_ok : amount_ok rev_amount_arms rev_standard_codes = true.
Proof. vm_compute. reflexivity. Qed.

Lemma reversal_description_ok : bytes_eqb reversal_description [82; 69; 86; 69; 82; 83; 65; 76]%N = true.
Proof. vm_compute. reflexivity. Qed.

Lemma RT_ok : tables_ok RT = true.
Proof. vm_compute. reflexivity. Qed.

Lemma reversal_code_map c : reversible rev_standard_codes c = true ->
  code_props reversal_arms rev_standard_codes rev_prenote_codes c.
Proof. apply rev_table_sound, reversal_code_table_ok. Qed.

(* the reversible set is exactly the 28 codes the property names *)
Lemma reversible_set :
  filter (reversible rev_standard_codes) rev_standard_codes =
  [21; 22; 23; 24; 26; 27; 28; 29; 31; 32; 33; 34; 36; 37; 38; 39; 41; 42; 43; 44; 46; 47; 48; 49; 51; 52; 55; 56].
Proof. vm_compute. reflexivity. Qed.

Lemma reversal_batch_ok d b :
  rbatch_valid RT b = true -> all_reversible RT b = true -> is_prenote_desc (rb_desc b) = false ->
  batch_reversed RT d b (reversal_batch RT d b).
Proof. apply reversal_batch_correct, RT_ok. Qed.

(* the finding: a batch described PRENOTE may carry zero amounts on ordinary codes; Reversal
   replaces the description, after which ValidAmountForCodes rejects the zero amounts *)
Definition prenote_batch : rbatch :=
  mkrbatch 220 220 [80; 82; 69; 78; 79; 84; 69]%N [49; 57; 48; 56; 49; 54]%N 0 0 [mkentry 22 0 1%N 1%N].
Lemma reversal_prenote_description :
  rbatch_valid RT prenote_batch = true /\ all_reversible RT prenote_batch = true
  /\ rbatch_valid RT (reversal_batch RT [50]%N prenote_batch) = false.
Proof. vm_compute. repeat split. Qed.

Lemma reversal_twice d1 d2 b : all_reversible RT b = true ->
  codes (reversal_batch RT d2 (reversal_batch RT d1 b)) = codes b.
Proof. apply reversal_twice_codes, RT_ok. Qed.

Lemma reversal_file_ok d t f :
  rfile_valid RT f = true -> file_reversible RT f = true ->
  exists f', reversal_file RT d t f = ROk f' /\ file_reversed RT d t f f'.
Proof. apply reversal_file_correct, RT_ok. Qed.

(* loan prenote 53 and loan zero-dollar 54 have no counterpart: the switch sends
   them to 58 / 59, which are not transaction codes (why the property excludes them) *)
Lemma loan_prenote_not_reversible :
  rev_code reversal_arms 53 = 58 /\ rev_code reversal_arms 54 = 59 /\
  memz 58 rev_standard_codes = false /\ memz 59 rev_standard_codes = false.
Proof. vm_compute. repeat split. Qed.

(* non-vacuity: a valid debits-only batch holding loan debit 55 and checking debit 27, and a mixed file *)
Definition ex_batch : rbatch :=
  mkrbatch 225 225 [80; 65; 89]%N [49; 57; 48; 56; 49; 54]%N 300 0
           [mkentry 55 100 1%N 1%N; mkentry 27 200 2%N 2%N].
Definition ex_batch2 : rbatch :=
  mkrbatch 200 200 [80; 65; 89]%N [49; 57; 48; 56; 49; 54]%N 7 0
           [mkentry 23 0 3%N 1%N; mkentry 36 7 4%N 2%N].
Definition ex_file : rfile := mkrfile [49]%N [50]%N [ex_batch; ex_batch2] 307 0.

Example ex_batch_hyps : rbatch_valid RT ex_batch = true /\ all_reversible RT ex_batch = true
  /\ is_prenote_desc (rb_desc ex_batch) = false.
Proof. vm_compute. repeat split. Qed.

Example ex_batch_reversed :
  reversal_batch RT [50]%N ex_batch =
  mkrbatch 220 220 reversal_description [50]%N 0 300 [mkentry 52 100 1%N 1%N; mkentry 22 200 2%N 2%N].
Proof. vm_compute. reflexivity. Qed.

Example ex_file_hyps : rfile_valid RT ex_file = true /\ file_reversible RT ex_file = true.
Proof. vm_compute. split; reflexivity. Qed.

(* Reflection obligations for C16, phase 4: the per-site checkers evaluated on the
   regenerated tables, the generic theorems at the per-site policies of this source
   tree, non-vacuity examples and refutation witnesses. *)
From Coq Require Import String List Bool NArith Lia.
Import ListNotations.
From ACH Require Import Bytes BufIO BufIOFacts WriterIOTable WriterIO WriterIOCurrent C16Obl.
From ACH Require Import Framing BufIOSeq BufIOSeqFacts BufIOSeqInst WriterSiteTable WriterIOSeq WriterSiteCurrent.
Open Scope list_scope.
Open Scope N_scope.

Lemma site_table_checks :
  site_table_ok writer_sites writer_threshold writer_nil_returns writer_bufio_ctor writer_flush_shortcut = true.
Proof. vm_compute. reflexivity. Qed.

Lemma reader_table3_checks : reader_table3_ok reader_facts read_maxlines = true.
Proof. vm_compute. reflexivity. Qed.

Lemma current_spolicy_is : current_spolicy = spolicy_of writer_sites writer_threshold writer_flush_shortcut.
Proof. vm_compute. reflexivity. Qed.
Lemma current_rpolicy3_is : current_rpolicy3 = rpolicy3_of reader_facts read_maxlines.
Proof. vm_compute. reflexivity. Qed.

Lemma site_table_ok_policy t th rets ctor sc :
  site_table_ok t th rets ctor sc = true -> spolicy_ok (spolicy_of t th sc) = true.
Proof.
  unfold site_table_ok. intros H. apply andb_prop in H as [H _]. apply andb_prop in H as [H _].
  apply andb_prop in H as [H _]. now apply andb_prop in H as [_ H].
Qed.

Lemma current_spolicy_ok : spolicy_ok current_spolicy = true.
Proof. rewrite current_spolicy_is. exact (site_table_ok_policy _ _ _ _ _ site_table_checks). Qed.

Lemma current_rpolicy3_ok : rpolicy3_ok current_rpolicy3 = true.
Proof.
  rewrite current_rpolicy3_is. pose proof reader_table3_checks as H. unfold reader_table3_ok in H.
  now apply andb_prop in H as [H _].
Qed.

(* the per-site policy of this tree has the shape the harness assumes: 13 + 14 sites *)
Lemma current_site_counts : length (sp_batch current_spolicy) = 13%nat /\ length (sp_iat current_spolicy) = 14%nat.
Proof. vm_compute. split; reflexivity. Qed.

Lemma current_ok_on f : sfile_in_range f current_spolicy = true -> spolicy_ok_on f current_spolicy = true.
Proof. exact (spolicy_ok_on_of_all f current_spolicy current_spolicy_ok). Qed.

(* ---- the generic theorems at the current per-site policy *)

Lemma current_seq_write le f script : sfile_in_range f current_spolicy = true ->
  let r := seq_writer_run current_spolicy le f script in
  ((gr_write r = None \/ gr_flush r = None) ->
     ss_got (gr_sink r) = sfull_output le f /\ ss_bad (gr_sink r) = false) /\
  (ss_bad (gr_sink r) = true -> gr_write r <> None /\ gr_flush r <> None) /\
  ss_late (gr_sink r) = 0.
Proof.
  intros Hr r. pose proof (current_ok_on f Hr) as Hok. split; [|split].
  - exact (seq_writer_safe current_spolicy le f Hok script).
  - exact (seq_writer_reports current_spolicy le f Hok script).
  - exact (seq_writer_never_called_again current_spolicy le f Hok script).
Qed.

Lemma current_seq_results_agree le f script : sfile_in_range f current_spolicy = true ->
  let r := seq_writer_run current_spolicy le f script in gr_write r = gr_flush r.
Proof. intros Hr. exact (seq_writer_results_agree current_spolicy le f (current_ok_on f Hr) script). Qed.

Lemma current_seq_no_false_error le f script : sfile_in_range f current_spolicy = true ->
  let r := seq_writer_run current_spolicy le f script in
  ss_bad (gr_sink r) = false ->
  gr_write r = None /\ gr_flush r = None /\ ss_got (gr_sink r) = sfull_output le f.
Proof. intros Hr. exact (seq_writer_no_false_error current_spolicy le f (current_ok_on f Hr) script). Qed.

Lemma current_seq_healthy le f : sfile_in_range f current_spolicy = true ->
  let r := seq_writer_run current_spolicy le f [] in
  gr_write r = None /\ gr_flush r = None /\ ss_got (gr_sink r) = sfull_output le f.
Proof. intros Hr. exact (seq_writer_healthy current_spolicy le f (current_ok_on f Hr)). Qed.

Lemma current_seq_fuel le f script : sfile_in_range f current_spolicy = true ->
  let r := seq_writer_run current_spolicy le f script in gr_write r <> Some EFuel /\ gr_flush r <> Some EFuel.
Proof. intros Hr. exact (seq_writer_fuel current_spolicy le f (current_ok_on f Hr) script). Qed.

Lemma current_site_write le f : sfile_in_range f current_spolicy = true ->
  (forall flt, f_k flt < blen (sfull_output le f) ->
     let r := off_writer_run current_spolicy le f (Some flt) in gr_write r <> None /\ gr_flush r <> None) /\
  (forall fo, let r := off_writer_run current_spolicy le f fo in
     (gr_write r = None \/ gr_flush r = None) ->
     s_got (gr_sink r) = sfull_output le f /\ s_tripped (gr_sink r) = false).
Proof.
  intros Hr. pose proof (current_ok_on f Hr) as Hok. split.
  - exact (off_writer_detects current_spolicy le f Hok).
  - exact (off_writer_safe current_spolicy le f Hok).
Qed.

Lemma current_site_healthy le f : sfile_in_range f current_spolicy = true ->
  let r := off_writer_run current_spolicy le f None in
  gr_write r = None /\ gr_flush r = None /\ s_got (gr_sink r) = sfull_output le f.
Proof. intros Hr. exact (off_writer_healthy current_spolicy le f (current_ok_on f Hr)). Qed.

(* ---- concrete files *)

(* header, batch header, entry, an absent Addenda02, batch control, file control *)
Definition sf5 : sfile :=
  mksfile (line 49) [(0, line 53); (1, line 54); (2, []); (11, line 56)] [] false (line 57).
(* header, n entries through site 1 of writeBatch, file control *)
Definition sf_big (site : N) (n : nat) (adv : bool) : sfile :=
  mksfile (line 49) (map (fun _ => (site, line 54)) (seq 0 n)) [] adv (line 57).
(* 43 lines: writing the file control fills the buffer up to 11 bytes, so that
   writeLine's `Available() < 94` flush happens inside the control call *)
Definition sf43 (adv : bool) : sfile := sf_big (if adv then 9 else 1) 41 adv.

Example sf5_in_range : sfile_in_range sf5 current_spolicy = true /\ sfile_in_range (sf_big 1 58 false) current_spolicy = true
  /\ sfile_in_range (sf43 true) current_spolicy = true.
Proof. vm_compute. repeat split. Qed.

Example seq_healthy_run_ok :
  let r := seq_writer_run current_spolicy lf sf5 [] in
  gr_write r = None /\ gr_flush r = None /\ bytes_eqb (ss_got (gr_sink r)) (sfull_output lf sf5) = true
  /\ blen (sfull_output lf sf5) = 950 /\ ss_calls (gr_sink r) = 1.
Proof. vm_compute. repeat split. Qed.

(* the sink fails once (takes 100 bytes, returns an error) and would accept everything
   afterwards: reported by Write and by Flush, and the sink is not called again *)
Example seq_transient_fault_reported :
  let r := seq_writer_run current_spolicy lf sf5 [mksresp 100 (Some SInj)] in
  gr_write r = Some EInj /\ gr_flush r = Some EInj /\ blen (ss_got (gr_sink r)) = 100
  /\ ss_bad (gr_sink r) = true /\ ss_calls (gr_sink r) = 1 /\ ss_late (gr_sink r) = 0.
Proof. vm_compute. repeat split. Qed.

(* two good answers, then a short count without an error, then good answers again *)
Example seq_later_short_write_reported :
  let ok := mksresp 4096 None in
  let r := seq_writer_run current_spolicy lf (sf_big 1 120 false) [ok; ok; mksresp 7 None; ok; ok] in
  gr_write r = Some EShort /\ gr_flush r = Some EShort /\ ss_calls (gr_sink r) = 3
  /\ blen (ss_got (gr_sink r)) = 4085 + 4085 + 7 /\ ss_script (gr_sink r) = [ok; ok].
Proof. vm_compute. repeat split. Qed.

(* ---- per-site refutations: what the checker demands of each site is needed exactly
        for the files that reach the site *)

Definition set_nth (i : nat) (h : handler) (l : list handler) : list handler :=
  firstn i l ++ h :: skipn (S i) l.

(* only the ADV control site answers an error with `return nil` *)
Definition pol_advctl_nil : spolicy := with_ctls reference_spolicy Propagate ReturnNil.

Lemma advctl_return_nil_refuted :
  let flt := Some (mkfault 100 Hard false) in
  (* an ADV file: Write reports success with 100 of 4750 bytes written *)
  (let r := off_writer_run pol_advctl_nil lf (sf43 true) flt in
   gr_write r = None /\ blen (s_got (gr_sink r)) = 100 /\ blen (sfull_output lf (sf43 true)) = 4750) /\
  (* the same defect is invisible on the same file written as non-ADV *)
  (let r := off_writer_run pol_advctl_nil lf (sf43 false) flt in gr_write r = Some EInj /\ gr_flush r = Some EInj) /\
  spolicy_ok pol_advctl_nil = false /\ spolicy_ok_on (sf43 false) pol_advctl_nil = true
  /\ spolicy_ok_on (sf43 true) pol_advctl_nil = false.
Proof. vm_compute. repeat split. Qed.

(* Write answers a failed writeBatch with `return nil` *)
Definition pol_call_batch_nil : spolicy :=
  mkspol Propagate Propagate Propagate 94 Propagate false Propagate ReturnNil Propagate Propagate Propagate
         (repeat Propagate 13) (repeat Propagate 14) Propagate Propagate Propagate.

Lemma call_batch_return_nil_refuted :
  let r := off_writer_run pol_call_batch_nil lf (sf_big 1 58 false) (Some (mkfault 100 Hard false)) in
  gr_write r = None /\ blen (s_got (gr_sink r)) = 100 /\ spolicy_ok pol_call_batch_nil = false.
Proof. vm_compute. repeat split. Qed.

(* one call site inside writeBatch drops the error, or answers it with `return nil`:
   a different model, accepted by the checker, with the same observations *)
Definition pol_site (i : nat) (h : handler) : spolicy :=
  with_sites reference_spolicy (set_nth i h (repeat Propagate 13)) (repeat Propagate 14).

Example one_site_dropping_still_reported :
  pol_site 1 Ignore <> reference_spolicy /\ spolicy_ok (pol_site 1 Ignore) = true /\ spolicy_ok (pol_site 1 ReturnNil) = true /\
  let flt := Some (mkfault 100 Hard true) in
  let r0 := off_writer_run reference_spolicy lf (sf_big 1 58 false) flt in
  let r1 := off_writer_run (pol_site 1 Ignore) lf (sf_big 1 58 false) flt in
  let r2 := off_writer_run (pol_site 1 ReturnNil) lf (sf_big 1 58 false) flt in
  gr_write r0 = Some EInj /\ gr_write r1 = Some EInj /\ gr_write r2 = Some EInj /\
  gr_flush r1 = Some EInj /\ gr_flush r2 = Some EInj /\
  s_calls (gr_sink r1) = s_calls (gr_sink r0) /\ s_calls (gr_sink r2) = s_calls (gr_sink r0) /\
  bytes_eqb (s_got (gr_sink r1)) (s_got (gr_sink r0)) = true /\ bytes_eqb (s_got (gr_sink r2)) (s_got (gr_sink r0)) = true.
Proof. split; [discriminate|]. vm_compute. repeat split. Qed.

(* the grouped model of BufIO.v (one handler for all writeLine calls of the batch loops,
   which also stands for Write's use of writeBatch) predicts a swallowed error for
   `return nil` at a batch site; the per-site model, which lets Write go on after
   writeBatch returned nil, predicts what the code does: the error is reported *)
Lemma grouping_was_coarser :
  let flt := Some (mkfault 100 Hard false) in
  wr_write (writer_run (with_body ReturnNil) lf recs60 flt) = None /\
  gr_write (off_writer_run (pol_site 1 ReturnNil) lf (sf_big 1 58 false) flt) = Some EInj /\
  bytes_eqb (full_output lf recs60) (sfull_output lf (sf_big 1 58 false)) = true.
Proof. vm_compute. repeat split. Qed.

(* Writer.Flush with the shortcut `if w.w.Buffered() == 0 { return nil }`: a sink that
   takes all bytes and reports a failure leaves the buffer empty and the error recorded;
   Write reports it, the Flush that follows does not *)
Definition pol_flush_shortcut : spolicy :=
  mkspol Propagate Propagate Propagate 94 Propagate true Propagate Propagate Propagate Propagate Propagate
         (repeat Propagate 13) (repeat Propagate 14) Propagate Propagate Propagate.

Lemma flush_shortcut_refuted :
  let r := seq_writer_run pol_flush_shortcut lf sf5 [mksresp 4096 (Some SInj)] in
  gr_write r = Some EInj /\ gr_flush r = None /\ ss_bad (gr_sink r) = true /\ spolicy_ok pol_flush_shortcut = false.
Proof. vm_compute. repeat split. Qed.

(* ---- reader *)

Definition ones (n : nat) : bytes := repeat 49 n.

Example non_sticky_source_reported :
  reader_seq current_rpolicy3 1000 (failing_once text2000 1500 RInj) = (QScanErr RInj, 2) /\
  reader_seq current_rpolicy3 1000 (failing_once text2000 500 RInj) = (QCtorErr, 2) /\
  reader_seq current_rpolicy3 1000 (failing_once text2000 1500 RUnexpectedEOF) = (QScanErr RUnexpectedEOF, 2).
Proof. vm_compute. repeat split. Qed.

(* the exception: the error arrives together with the byte that completes charset's
   1024-byte preview; io.ReadFull drops it; a source that then goes on is read to its
   end and Read reports no I/O error at all *)
Lemma boundary_error_swallowed :
  exists rs, existsb (fun r => match rr_term r with Some (TErr RInj) => true | _ => false end) rs = true /\
    reader_seq current_rpolicy3 1000 rs = (QParsed (data_of rs), nlen rs).
Proof.
  exists [mkrresp (ones 1024) (Some (TErr RInj)); mkrresp (ones 100) None].
  split; vm_compute; reflexivity.
Qed.

(* a sticky source at the same place is reported *)
Example boundary_error_sticky_reported :
  reader_seq current_rpolicy3 1000 [mkrresp (ones 1024) (Some (TErr RInj)); mkrresp [] (Some (TErr RInj))]
  = (QScanErr RInj, 2).
Proof. vm_compute. reflexivity. Qed.

(* maxLines: 2000 characters without a line break are 21 lines of 94 characters *)
Example too_long_reported :
  line_events (chars text2000) 0 = 21 /\
  fst (reader_seq current_rpolicy3 20 (failing_once text2000 1500 RInj)) = QScanErr RInj /\
  fst (reader_seq current_rpolicy3 5 (failing_once text2000 1500 RInj)) = QTooLong /\
  fst (reader_seq current_rpolicy3 5 [mkrresp text2000 None]) = QTooLong /\
  fst (reader_seq current_rpolicy3 21 [mkrresp text2000 None]) = QParsed text2000.
Proof. vm_compute. repeat split. Qed.

(* `return r.File, nil` at maxLines: the source's failure is never seen and Read reports success *)
Lemma maxl_return_nil_refuted :
  fst (reader_seq (mkrpol3 Propagate Propagate ReturnNil) 5 (failing_once text2000 1500 RInj)) = QCutNil
  /\ rpolicy3_ok (mkrpol3 Propagate Propagate ReturnNil) = false.
Proof. vm_compute. split; reflexivity. Qed.

(* the instances of the reader theorems at the current policy *)
Lemma current_seq_read_partial m pre r post :
  plain pre = true -> rr_term r = Some (TErr RInj) ->
  ~ (blen (data_of pre) < preview_size /\ blen (data_of pre) + blen (rr_data r) = preview_size) ->
  reports_error (fst (reader_seq current_rpolicy3 m (pre ++ r :: post))) = true.
Proof. exact (fun Hp Ht Hn => reader_seq_error_reported current_rpolicy3 m pre r post current_rpolicy3_ok Hp Ht Hn). Qed.

Lemma current_seq_read_nil_only_if m rs d :
  fst (reader_seq current_rpolicy3 m rs) = QParsed d ->
  (plain rs = true /\ d = data_of rs) \/
  exists pre r post t, rs = pre ++ r :: post /\ plain pre = true /\ rr_term r = Some t /\
    (at_boundary pre r \/
     (d = data_of pre ++ rr_data r /\
      (t = TEOF \/ (t = TErr RUnexpectedEOF /\ blen (data_of pre) + blen (rr_data r) < preview_size)))).
Proof. exact (reader_seq_parsed_only_if current_rpolicy3 m rs d current_rpolicy3_ok). Qed.

Lemma current_seq_read_after_event m pre r t post post' :
  plain pre = true -> rr_term r = Some t ->
  ~ (blen (data_of pre) < preview_size /\ blen (data_of pre) + blen (rr_data r) = preview_size) ->
  reader_seq current_rpolicy3 m (pre ++ r :: post) = reader_seq current_rpolicy3 m (pre ++ r :: post').
Proof. intros Hp Ht Hn. exact (reader_seq_after_event_irrelevant current_rpolicy3 m pre post r t Hp Ht post' Hn). Qed.

Lemma current_seq_read_plain m rs : plain rs = true ->
  reader_seq current_rpolicy3 m rs = (scan_spec m (data_of rs) TEOF, nlen rs).
Proof. exact (reader_seq_plain current_rpolicy3 m current_rpolicy3_ok rs). Qed.

Lemma current_seq_read_extends m chunks t : too_long m (concat chunks) = false ->
  fst (reader_seq current_rpolicy3 m (resps_of_source (mksrc chunks t))) = qresult_of (reader_run current_rpolicy (mksrc chunks t)).
Proof. exact (reader_seq_extends_reader_run current_rpolicy current_rpolicy3 m chunks t current_rpolicy_ok current_rpolicy3_ok). Qed.

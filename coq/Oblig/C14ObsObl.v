(* C14, phase 5 — the table of state components that neither json.Marshal nor the NACHA text
   shows, computed from the regenerated JSON type tree of ach.File (Gen/JsonTags.v). *)
From Coq Require Import String List Bool NArith.
Import ListNotations.
From ACH Require Import Bytes JsonCodec JsonTags EffectTable Purity PurityAlias PurityObs PurityObsFacts.
Open Scope string_scope.

(* embedded helpers and per-record option pointers: no key, read by no renderer *)
Definition boilerplate (p : string * string) : bool :=
  String.eqb (snd p) "validator" || String.eqb (snd p) "converters" || String.eqb (snd p) "validateOpts".

(* everything else that is hidden from both observations *)
Definition expected_hidden : list (string * string) :=
  [ ("IATBatch", "category"); ("Batch", "id"); ("Batch", "category"); ("ValidateOpts", "CheckTransactionCode") ].

(* no key, but read by a renderer: visible in the NACHA text only *)
Definition expected_text_only : list (string * string) :=
  [ ("FileHeader", "priorityCode"); ("FileHeader", "recordSize"); ("FileHeader", "blockingFactor");
    ("FileHeader", "formatCode"); ("FileHeader", "validateOpts"); ("Addenda98", "iatCorrectedData") ].

Lemma hidden_table : same_set (filter (fun p => negb (boilerplate p)) (dedup (hidden T_File))) expected_hidden = true.
Proof. vm_compute. reflexivity. Qed.

Lemma text_only_table : same_set (dedup (text_only T_File)) expected_text_only = true.
Proof. vm_compute. reflexivity. Qed.

(* the file's own options are under a key: the JSON observation shows them (what C14_g changed) *)
Lemma file_opts_keyed : existsb (pair_eqb2 ("File", "validateOpts")) (hidden T_File ++ text_only T_File) = false.
Proof. vm_compute. reflexivity. Qed.

(* non-vacuity of enc_struct_agree on the real Batch type: two batches that differ only in the
   key-less fields id / category encode alike — such a change is invisible to the JSON observation *)
Example ex_hidden_agree :
  exists n fs vs vs', T_Batch = TStruct n fs /\ vs <> vs' /\ agree_keyed fs vs vs' /\
                      enc T_Batch (VRec vs) = enc T_Batch (VRec vs').
Proof.
  destruct T_Batch as [| | |n fs| | |] eqn:E; try discriminate.
  exists n, fs, (map (fun _ => VNil) fs), (map (fun mf => match f_enc (fst mf) with Some _ => VNil | None => VStr [88%N] end) fs).
  injection E as <- <-. split; [reflexivity|]. split; [vm_compute; discriminate|].
  split; [vm_compute; tauto|]. vm_compute. reflexivity.
Qed.

(* non-vacuity of the observation: a reader-style ADV file with stored options *)
Definition ex_obs_state : xfile :=
  mkx [mkbat (Some [80; 80; 68]%N) true; mkbat (Some [65; 68; 86]%N) false; mkbat None true] (Some [true; false]).
Example ex_obs : x_of_json (obs_json ex_obs_state) = Some ex_obs_state /\ length (obs_lines ex_obs_state) = 4.
Proof. vm_compute. split; reflexivity. Qed.

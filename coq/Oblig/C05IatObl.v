(* Reflection obligations for the IAT / ADV / whole-file part of C05: the table regenerated
   from iatBatch.go / batch.go / file.go satisfies the checker (code lists, constants the model
   transcribes); instances of the generic theorems at that table; non-vacuity examples; the
   witnesses of the statement that does not hold (ascending batch numbers with provided numbers)
   and of the two defects that were repaired (createFileADV: untruncated hash, IAT batches). *)
From Coq Require Import Lia.
From ACH Require Import Offsets OffsetsFacts OffsetTable C05Obl.
From ACH Require Import BuildIAT BuildIATFacts BuildADV BuildADVFacts FileCreateAll FileCreateAllFacts TabulateTable.
Open Scope Z_scope.

Lemma tabulate_consts_ok : consts_ok tabulate_table = true.
Proof. vm_compute. reflexivity. Qed.

Lemma tabulate_table_ok : ttable_ok tabulate_table = true.
Proof. vm_compute. reflexivity. Qed.

Lemma tabulate_table_good : ttable_good tabulate_table.
Proof. apply ttable_ok_good, tabulate_table_ok. Qed.

(* IAT batches use the code lists of standard batches (C05's offset table): one notion of credit / debit *)
Lemma iat_lists_are_std_lists :
  same_set (tt_iat_credit tabulate_table) (t_credit offset_table) && same_set (tt_iat_debit tabulate_table) (t_debit offset_table) = true.
Proof. vm_compute. reflexivity. Qed.

Notation O := offset_table.
Notation T := tabulate_table.

(* ------------------------------------------------------------------ IAT *)

Lemma c05_iat_build_control b b' : iat_build T b = (true, b') ->
  let c := ib_ctl b' in let es := ib_entries b' in
  c_count c = zsum icount_one es /\ c_credit c = zsum by_credit es /\ c_debit c = zsum by_debit es /\
  c_hash c = Z.rem (zsum ie_rdfi es) P10 /\
  ((forall e, In e es -> 0 <= ie_rdfi e) -> c_hash c = (zsum ie_rdfi es) mod P10) /\
  c_svc c = ib_svc b /\ c_num c = ib_num b /\
  map ie_static es = map ie_static (ib_entries b).
Proof. apply iat_build_control_spec, tabulate_table_good. Qed.

Lemma c05_iat_build_control_caller b b' : iat_build T b = (true, b') ->
  let c := ib_ctl b' in let es := ib_entries b in
  c_count c = zsum icount_one es /\ c_credit c = zsum by_credit es /\ c_debit c = zsum by_debit es /\
  c_hash c = Z.rem (zsum ie_rdfi es) P10.
Proof. apply iat_build_control_caller, tabulate_table_good. Qed.

Lemma c05_iat_build_idempotent b b' : odfi_ok (ib_odfi b) \/ should_set (ib_opts b) = false ->
  iat_build T b = (true, b') -> iat_build T b' = (true, b').
Proof. apply iat_build_idem. Qed.

Lemma c05_iat_addenda_sequence b b' e : iat_build T b = (true, b') -> In e (ib_entries b') ->
  let d := trace_seq (ie_trace e) in
  (forall v, In (Some v) (ie_mand e) -> v = d) /\
  (forall i a x, nth_error (ie_a17 e) i = Some (a, x) -> a = 1 + Z.of_nat i /\ x = d) /\
  (forall i a x, nth_error (ie_a18 e) i = Some (a, x) -> a = 1 + Z.of_nat i /\ x = d).
Proof.
  intros H Hin. pose proof (iat_build_seqs T b b' H) as Hs. rewrite forallb_forall in Hs. specialize (Hs e Hin).
  unfold seqs_okb in Hs. cbv zeta in *. apply andb_prop in Hs as [Hs H18]. apply andb_prop in Hs as [Hm H17].
  repeat split.
  - intros v Hv. rewrite forallb_forall in Hm. specialize (Hm _ Hv). cbn in Hm. lia.
  - eapply pairs_ok_nth in H17; [|eassumption]. lia.
  - eapply pairs_ok_nth in H17; [|eassumption]. lia.
  - eapply pairs_ok_nth in H18; [|eassumption]. lia.
  - eapply pairs_ok_nth in H18; [|eassumption]. lia.
Qed.

Lemma c05_iat_traces b b' : iat_build T b = (true, b') ->
  map ie_trace (ib_entries b') = traces_after (ib_odfi b) (ib_opts b) 1 (ib_entries b) /\
  (odfi_ok (ib_odfi b) -> should_set (ib_opts b) = true -> forallb (ihas_prefix (ib_odfi b)) (ib_entries b') = true) /\
  (should_set (ib_opts b) = false -> map ie_trace (ib_entries b') = map ie_trace (ib_entries b)) /\
  (should_set (ib_opts b) = true -> forallb (fun e => negb (ihas_prefix (ib_odfi b) e)) (ib_entries b) = true ->
   map ie_trace (ib_entries b') = map (fun i => ib_odfi b * P7 + (1 + Z.of_nat i) mod P7) (seq 0 (length (ib_entries b)))).
Proof.
  intros H. pose proof (iat_build_traces T b b' H) as Ht. repeat split.
  - exact Ht.
  - intros Ho Hs. eapply iat_build_prefix; eassumption.
  - intros Hs. rewrite Ht. now apply traces_after_custom.
  - intros Hs Ha. rewrite Ht. now apply traces_after_fresh.
Qed.

Lemma c05_iat_traces_ascending b b' : 0 <= ib_odfi b -> should_set (ib_opts b) = true ->
  forallb (fun e => negb (ihas_prefix (ib_odfi b) e)) (ib_entries b) = true ->
  zlen (ib_entries b) < P7 - 1 ->
  iat_build T b = (true, b') -> asc 0 (map ie_trace (ib_entries b')).
Proof. apply iat_build_ascending. Qed.

(* ------------------------------------------------------------------ ADV *)

Lemma c05_adv_build_control b b' : adv_build T b = (true, b') ->
  let c := ab_ctl b' in let es := ab_entries b in
  c_count c = zsum (fun e => 1 + b2z (ae_a99 e)) es /\ c_credit c = zsum adv_by_credit es /\ c_debit c = zsum adv_by_debit es /\
  c_hash c = Z.rem (zsum ae_rdfi es) P10 /\
  ((forall e, In e es -> 0 <= ae_rdfi e) -> c_hash c = (zsum ae_rdfi es) mod P10) /\
  c_svc c = ab_svc b /\ c_num c = ab_num b /\
  map ae_static (ab_entries b') = map ae_static es /\
  map ae_seq (ab_entries b') = map (fun i => 1 + Z.of_nat i) (seq 0 (length es)) /\
  zlen es <= 9998.
Proof. apply adv_build_control_spec, tabulate_table_good. Qed.

Lemma c05_adv_build_ctl_ok b b' : adv_build T b = (true, b') -> actl_ok T b'.
Proof. apply adv_build_control. Qed.

Lemma c05_adv_build_idempotent b b' : adv_build T b = (true, b') -> adv_build T b' = (true, b').
Proof. apply adv_build_idem. Qed.

Lemma c05_adv_build_limit b : ab_hdr_ok b = true -> ab_off b = false -> ab_entries b <> [] ->
  (fst (adv_build T b) = true <-> zlen (ab_entries b) <= 9998).
Proof. apply adv_build_limit. Qed.

(* ------------------------------------------------------------------ files *)

Lemma c05_file_create_all_counts f f' : file_is_adv f = false ->
  file_create_all T f = (true, f') ->
  Forall (sctl_ok O T) (af_std f) -> Forall (ictl_ok T) (af_iat f) ->
  (forall s, In s (af_std f) -> 0 <= s_count s) ->
  let recs := phys_records (af_std f) (af_iat f) in
  let c := af_ctl f' in
  fc_batches c = zlen (af_std f) + zlen (af_iat f) /\
  fc_count c = zsum s_count (af_std f) + zsum (fun b => icount (ib_entries b)) (af_iat f) /\
  fc_blocks c = (recs + 9) / 10 /\ 10 * (fc_blocks c - 1) < recs <= 10 * fc_blocks c /\
  fc_hash c = Z.rem (zsum (fun s => Z.rem (s_rdfi s) P10) (af_std f)
                     + zsum (fun b => Z.rem (zsum ie_rdfi (ib_entries b)) P10) (af_iat f)) P10 /\
  fc_debit c = zsum (s_debit O T) (af_std f) + zsum (fun b => idebits T (ib_entries b)) (af_iat f) /\
  fc_credit c = zsum (s_credit O T) (af_std f) + zsum (fun b => icredits T (ib_entries b)) (af_iat f) /\
  map s_entries (af_std f') = map s_entries (af_std f) /\ map ib_entries (af_iat f') = map ib_entries (af_iat f) /\
  af_actl f' = af_actl f.
Proof. apply file_create_all_counts, tabulate_table_good. Qed.

Lemma c05_file_create_adv f f' : file_is_adv f = true ->
  file_create_all T f = (true, f') -> Forall (sctl_ok O T) (af_std f) ->
  let recs := phys_records (af_std f) [] in
  let c := af_actl f' in
  forallb sb_is_adv (af_std f) = true /\ af_iat f = [] /\
  fc_batches c = zlen (af_std f) /\
  fc_count c = zsum s_count (af_std f) /\
  fc_blocks c = (recs + 9) / 10 /\ 10 * (fc_blocks c - 1) < recs <= 10 * fc_blocks c /\
  fc_hash c = Z.rem (zsum (fun s => Z.rem (s_rdfi s) P10) (af_std f)) P10 /\
  fc_debit c = zsum (s_debit O T) (af_std f) /\ fc_credit c = zsum (s_credit O T) (af_std f) /\
  map s_entries (af_std f') = map s_entries (af_std f) /\ map sb_num (af_std f') = renum_list 1 (map sb_num (af_std f)) /\
  af_ctl f' = af_ctl f.
Proof. apply file_create_adv_counts, tabulate_table_good. Qed.

(* a batch is the result of a successful build (standard batches: with an offset configured, the
   caller's entries named OFFSET are of the kind C05_create_valid needs) *)
Definition sbuilt (s0 s : sbatch) : Prop :=
  match s0, s with
  | SStd b0, SStd b => build O b0 = Ret true b /\ (b_off b0 <> None -> wf_entries O (b_entries b0) = true)
  | SAdv a0, SAdv a => adv_build T a0 = (true, a)
  | _, _ => False
  end.

Lemma sbuilt_ok s0 s : sbuilt s0 s -> sctl_ok O T s.
Proof.
  destruct s0 as [b0|a0], s as [b|a]; cbn [sbuilt sctl_ok]; try tauto.
  - intros [H Hwf]. eapply build_ctl_ok; [apply offset_table_good|exact Hwf|exact H].
  - apply adv_build_control.
Qed.

Lemma Forall2_built_s ss0 ss : Forall2 sbuilt ss0 ss -> Forall (sctl_ok O T) ss.
Proof. induction 1 as [|s0 s l0 l H _ IH]; constructor; [eapply sbuilt_ok; eassumption|assumption]. Qed.

Lemma Forall2_built_i ibs0 ibs : Forall2 (fun b0 b => iat_build T b0 = (true, b)) ibs0 ibs -> Forall (ictl_ok T) ibs.
Proof. induction 1 as [|s0 s l0 l H _ IH]; constructor; [eapply iat_build_control; eassumption|assumption]. Qed.

(* every batch built, then File.Create: the file control counts the physical records *)
Lemma c05_file_create_after_builds f f' ss0 ibs0 : file_is_adv f = false ->
  Forall2 sbuilt ss0 (af_std f) -> Forall2 (fun b0 b => iat_build T b0 = (true, b)) ibs0 (af_iat f) ->
  (forall s, In s (af_std f) -> 0 <= s_count s) ->
  file_create_all T f = (true, f') ->
  let recs := phys_records (af_std f) (af_iat f) in
  fc_batches (af_ctl f') = zlen (af_std f) + zlen (af_iat f) /\
  fc_count (af_ctl f') = zsum s_count (af_std f) + zsum (fun b => icount (ib_entries b)) (af_iat f) /\
  fc_blocks (af_ctl f') = (recs + 9) / 10 /\
  all_ctl_nums f' = all_nums f' /\ all_nums f' = renum_list 1 (all_nums f).
Proof.
  intros Ha Hs Hi Hn H. pose proof (Forall2_built_s _ _ Hs) as Hs'. pose proof (Forall2_built_i _ _ Hi) as Hi'.
  destruct (c05_file_create_all_counts f f' Ha H Hs' Hi' Hn) as (H1 & H2 & H3 & _).
  cbv zeta. repeat split; try assumption.
  - eapply file_create_ctl_numbers; eassumption.
  - eapply file_create_numbers; eassumption.
Qed.

Lemma c05_file_hash_total ss ibs :
  (forall s, In s ss -> 0 <= s_rdfi s) -> (forall b, In b ibs -> 0 <= zsum ie_rdfi (ib_entries b)) ->
  Z.rem (zsum (fun s => Z.rem (s_rdfi s) P10) ss + zsum (fun b => Z.rem (zsum ie_rdfi (ib_entries b)) P10) ibs) P10
  = (zsum s_rdfi ss + zsum (fun b => zsum ie_rdfi (ib_entries b)) ibs) mod P10.
Proof. apply file_hash_total. Qed.

Lemma c05_file_create_all_idempotent f f' : file_create_all T f = (true, f') -> file_create_all T f' = (true, f').
Proof. apply file_create_all_idem, tabulate_table_good. Qed.

Lemma c05_all_history_total ops f : arun O T ops f <> Panic /\ arun O T ops f <> Hang.
Proof. destruct (arun_total O T ops offset_table_good f) as (ok & f' & ->). split; discriminate. Qed.

Lemma c05_all_history_file_stable ops f f' :
  arun O T (ops ++ [ACreateFile]) f = Ret true f' -> arun O T (ops ++ [ACreateFile; ACreateFile]) f = Ret true f'.
Proof. apply ahistory_file_stable, tabulate_table_good. Qed.

Lemma c05_all_history_built ops f f' :
  (forall i, arun O T (ops ++ [IBuild i]) f = Ret true f' -> forall b, nth_error (af_iat f') i = Some b -> ictl_ok T b) /\
  (forall i, arun O T (ops ++ [ABuild i]) f = Ret true f' -> forall a, nth_error (af_std f') i = Some (SAdv a) -> actl_ok T a).
Proof. apply ahistory_built, offset_table_good. Qed.

(* batch numbers *)
Lemma c05_file_numbers f f' : file_is_adv f = false -> file_create_all T f = (true, f') ->
  all_nums f' = renum_list 1 (all_nums f) /\
  (forall i n, nth_error (all_nums f) i = Some n -> nth_error (all_nums f') i = Some (if n <=? 1 then 1 + Z.of_nat i else n)) /\
  (forallb (fun n => n <=? 1) (all_nums f) = true ->
     all_nums f' = map (fun i => 1 + Z.of_nat i) (seq 0 (length (all_nums f))) /\ asc 0 (all_nums f')) /\
  (forallb (fun n => 1 <? n) (all_nums f) = true -> all_nums f' = all_nums f).
Proof.
  intros Ha H. repeat split.
  - eapply file_create_numbers; eassumption.
  - intros i n Hn. eapply file_numbers_nth; eassumption.
  - eapply file_numbers_absent; eassumption.
  - eapply file_numbers_absent; eassumption.
  - intros Hp. eapply file_numbers_provided; eassumption.
Qed.

(* ------------------------------------------------------------------ non-vacuity *)

Definition zero_ctl : control := mkctl 0 0 0 0 0 0.
Definition zero_fctl : fctl := mkfctl 0 0 0 0 0 0.
Definition no_opts : fopts := mkfo false false false.

Definition seven (v : Z) : list (option Z) := [Some v; Some v; Some v; Some v; Some v; Some v; Some v].

(* a forward credit with two Addenda17 and one Addenda18 and no trace number, a debit that carries the
   ODFI already, a return (Addenda99) with a foreign trace number *)
Definition ex_ientries : list ientry :=
  [ mkie 22 100000 true 0 23138010 (seven 5) [(7, 7); (0, 0)] [(3, 9)] false false;
    mkie 27 2500 true 121042880000044 12104288 (seven 1) [] [] false false;
    mkie 21 0 true 999999990000007 9100001 (seven 0) [] [] false true ].

Definition ex_ibatch : ibatch := mkib true true 12104288 200 0 ex_ientries zero_ctl None.

Definition ex_ibatch_built : ibatch := snd (iat_build T ex_ibatch).

Example ex_iat_build :
  iat_build T ex_ibatch = (true, ex_ibatch_built) /\
  ib_ctl ex_ibatch_built = mkctl 200 0 28 44342299 100000 2500 /\
  map ie_trace (ib_entries ex_ibatch_built) = [121042880000001; 121042880000044; 121042880000003] /\
  map ie_a17 (ib_entries ex_ibatch_built) = [[(1, 1); (2, 1)]; []; []] /\
  iat_build T ex_ibatch_built = (true, ex_ibatch_built) /\ odfi_ok (ib_odfi ex_ibatch).
Proof. vm_compute. repeat split; intros; try discriminate; reflexivity. Qed.

Example ex_iat_ascending :
  let b := mkib true true 12104288 200 0 (map (fun e => set_itrace e 0) ex_ientries) zero_ctl None in
  0 <= ib_odfi b /\ should_set (ib_opts b) = true /\
  forallb (fun e => negb (ihas_prefix (ib_odfi b) e)) (ib_entries b) = true /\ zlen (ib_entries b) < P7 - 1 /\
  fst (iat_build T b) = true.
Proof. vm_compute. repeat split; intros; discriminate. Qed.

(* with CustomTraceNumbers the foreign trace number stays, the addenda follow it *)
Example ex_iat_build_custom :
  let b := mkib true true 12104288 200 0 ex_ientries zero_ctl (Some (false, true)) in
  exists b', iat_build T b = (true, b') /\ map ie_trace (ib_entries b') = [0; 121042880000044; 999999990000007] /\
             map ie_mand (ib_entries b') = [seven 0; seven 44; seven 7].
Proof. eexists. vm_compute. repeat split. Qed.

(* a missing mandatory addenda record in the second entry: error, the first entry already renumbered *)
Example ex_iat_build_error :
  let bad := mkie 27 2500 true 0 12104288 [Some 1; None; Some 1; Some 1; Some 1; Some 1; Some 1] [] [] false false in
  let b := mkib true true 12104288 200 0 [hd bad ex_ientries; bad] zero_ctl None in
  fst (iat_build T b) = false /\ map ie_trace (ib_entries (snd (iat_build T b))) = [121042880000001; 0] /\
  ib_ctl (snd (iat_build T b)) = zero_ctl.
Proof. vm_compute. repeat split. Qed.

Definition ex_aentries : list aentry :=
  [ mkae 81 50000 23138010 false 0; mkae 82 250 12104288 true 77; mkae 88 1 9100001 false 3 ].

Definition ex_abatch : abatch := mkab true false 280 0 ex_aentries zero_ctl false.
Definition ex_abatch_built : abatch := snd (adv_build T ex_abatch).

Example ex_adv_build :
  adv_build T ex_abatch = (true, ex_abatch_built) /\
  ab_ctl ex_abatch_built = mkctl 280 0 4 44342299 50000 251 /\
  map ae_seq (ab_entries ex_abatch_built) = [1; 2; 3] /\
  adv_build T ex_abatch_built = (true, ex_abatch_built).
Proof. vm_compute. repeat split. Qed.

(* a standard batch (the one of C05Obl's examples is not exported: a small one here), built *)
Definition ex_std : batch :=
  mkbatch true 12104288 200 0
    [mkentry 22 1000 false 0 1 23138010; mkentry 27 300 false 0 0 12104288] zero_ctl None.

Definition ex_std_built : batch := match build O ex_std with Ret _ b => b | _ => ex_std end.

Example ex_std_build : build O ex_std = Ret true ex_std_built.
Proof. vm_compute. reflexivity. Qed.

(* a file with a standard and an IAT batch, numbers absent: 2 + (2 + 3) + (2 + 28) = 37 records, 4 blocks *)
Definition ex_file : afile := mkaf true no_opts [SStd ex_std_built] [ex_ibatch_built] zero_fctl zero_fctl.

Example ex_file_create :
  exists f', file_create_all T ex_file = (true, f') /\ file_is_adv ex_file = false /\
    Forall2 sbuilt [SStd ex_std] (af_std ex_file) /\
    Forall2 (fun b0 b => iat_build T b0 = (true, b)) [ex_ibatch] (af_iat ex_file) /\
    (forall s, In s (af_std ex_file) -> 0 <= s_count s) /\
    phys_records (af_std ex_file) (af_iat ex_file) = 37 /\
    af_ctl f' = mkfctl 2 4 31 79584597 2800 101000 /\ all_nums f' = [1; 2] /\
    file_create_all T f' = (true, f').
Proof.
  eexists. split; [vm_compute; reflexivity|]. split; [reflexivity|].
  split. { constructor; [|constructor]. split; [apply ex_std_build|intros H; now contradict H]. }
  split. { constructor; [|constructor]. apply ex_iat_build. }
  split. { intros s [<-|[]]. vm_compute. discriminate. }
  vm_compute. repeat split.
Qed.

(* an ADV file of two batches *)
Definition ex_adv_file : afile := mkaf true no_opts [SAdv ex_abatch_built; SAdv ex_abatch_built] [] zero_fctl zero_fctl.

Example ex_adv_file_create :
  exists f', file_create_all T ex_adv_file = (true, f') /\ file_is_adv ex_adv_file = true /\
    Forall (sctl_ok O T) (af_std ex_adv_file) /\
    af_actl f' = mkfctl 2 2 8 88684598 502 100000 /\ map sb_num (af_std f') = [1; 2] /\ af_ctl f' = zero_fctl.
Proof.
  eexists. split; [vm_compute; reflexivity|]. split; [reflexivity|].
  split. { repeat constructor. }
  vm_compute. repeat split.
Qed.

(* a history: build, add an entry, remove one, amend one, build again, create the file twice *)
Example ex_all_history :
  let f0 := mkaf true no_opts [SAdv ex_abatch] [ex_ibatch] zero_fctl zero_fctl in
  let ops := [IBuild 0; IAdd 0 (hd (mkie 0 0 true 0 0 [] [] [] false false) ex_ientries); IRemove 0 1; IAmend 0 0 27 5;
              IBuild 0%nat; ABuild 0%nat; AAmend 0 2 81 9; ABuild 0%nat] in
  exists f1, arun O T ops f0 = Ret true f1 /\ map ib_ctl (af_iat f1) = [mkctl 200 0 31 55376021 100000 5].
Proof. eexists. vm_compute. split; reflexivity. Qed.

(* ------------------------------------------------------------------ what does not hold *)

(* Full statement "after a successful File.Create the batch numbers ascend": refuted.  File.Create
   replaces only numbers <= 1; the caller's 5 stays in front of the 2 the next batch gets.  Both
   batches are tabulated (control = recomputation, header number = control number). *)
Definition ex_std5 : batch := set_num ex_std_built 5.

Lemma file_numbers_ascending_refuted :
  exists f f', file_is_adv f = false /\ Forall (sctl_ok O T) (af_std f) /\ Forall (ictl_ok T) (af_iat f) /\
    file_create_all T f = (true, f') /\ all_nums f = [5; 0] /\ all_nums f' = [5; 2] /\ ~ asc 0 (all_nums f').
Proof.
  exists (mkaf true no_opts [SStd ex_std5; SStd ex_std_built] [] zero_fctl zero_fctl). eexists.
  split; [reflexivity|]. split. { repeat constructor. } split; [constructor|].
  split; [vm_compute; reflexivity|]. split; [reflexivity|]. split; [reflexivity|].
  cbn. intros (_ & H & _). lia.
Qed.

(* the same across the two lists: a standard batch numbered 3 in front of an IAT batch without a number *)
Lemma file_numbers_ascending_iat_refuted :
  exists f f', file_is_adv f = false /\ file_create_all T f = (true, f') /\ all_nums f' = [3; 2] /\ ~ asc 0 (all_nums f').
Proof.
  exists (mkaf true no_opts [SStd (set_num ex_std_built 3)] [ex_ibatch_built] zero_fctl zero_fctl). eexists.
  split; [reflexivity|]. split; [vm_compute; reflexivity|]. split; [reflexivity|].
  cbn. intros (_ & H & _). lia.
Qed.

(* createFileADV as it was before the repairs *)
Definition with_adv_consts (k : fconsts) (g : bool) : ttable :=
  mkttable (tt_iat_credit T) (tt_iat_debit T) (tt_adv_credit T) (tt_adv_debit T) (tt_iat_hash_digits T) (tt_std_hash_digits T)
           (tt_iat_seq_init T) (tt_a17_init T) (tt_a18_init T) (tt_std_seq_init T) (tt_adv_seq_max T) (tt_create T) k g (tt_unknown T).

(* (1) fc.EntryHash = fileEntryHashSum: no truncation *)
Definition unfixed_hash_table : ttable := with_adv_consts (mkfconsts 2 1 [1] [2] [10; 10; 10] None 1) true.
(* (2) no test of f.IATBatches *)
Definition unfixed_guard_table : ttable := with_adv_consts (tt_create_adv T) false.

Lemma unfixed_tables_rejected : ttable_ok unfixed_hash_table = false /\ ttable_ok unfixed_guard_table = false.
Proof. vm_compute. split; reflexivity. Qed.

(* two tabulated ADV batches whose hashes add up to more than ten digits: the stored file hash is not
   the ten-digit value File.Validate recomputes *)
Definition big_abatch : abatch := mkab true false 280 0 (repeat (mkae 81 1 81234567 false 0) 70) zero_ctl false.
Definition big_abatch_built : abatch := snd (adv_build T big_abatch).

Lemma unfixed_adv_hash_refuted :
  exists f f', file_is_adv f = true /\ Forall (sctl_ok O unfixed_hash_table) (af_std f) /\
    file_create_all unfixed_hash_table f = (true, f') /\
    fc_hash (af_actl f') = 11372839380 /\
    fc_hash (af_actl f') <> Z.rem (zsum (fun s => c_hash (sb_ctl s)) (af_std f')) P10.
Proof.
  exists (mkaf true no_opts [SAdv big_abatch_built; SAdv big_abatch_built] [] zero_fctl zero_fctl). eexists.
  split; [reflexivity|]. split. { repeat constructor. }
  split; [vm_compute; reflexivity|]. split; [vm_compute; reflexivity|]. vm_compute. discriminate.
Qed.

(* an ADV batch and an IAT batch: Create succeeded with a control that counts one batch of two *)
Lemma unfixed_adv_iat_refuted :
  exists f f', file_is_adv f = true /\ file_create_all unfixed_guard_table f = (true, f') /\
    fc_batches (af_actl f') = 1 /\ zlen (af_std f') + zlen (af_iat f') = 2 /\
    fst (file_create_all T f) = false.
Proof.
  exists (mkaf true no_opts [SAdv ex_abatch_built] [ex_ibatch_built] zero_fctl zero_fctl). eexists.
  split; [reflexivity|]. split; [vm_compute; reflexivity|]. vm_compute. repeat split.
Qed.

(* Phase 2 obligations for C11: the standard arithmetic lists of the segment tables are the
   validator's (re-evaluated on every run), instances of the theorems of ValidSegmentFacts,
   non-vacuity example (a mixed batch split into a 220 and a 225 batch). *)
From Coq Require Import ZArith NArith List Bool Lia.
Import ListNotations.
From ACH Require Import ValidOut ValidOutFacts Tables C03Obl.
From ACH Require Import Bytes TxCodes RevTable SegTable Segment SegmentFacts SegmentTable C11Obl.
From ACH Require Import ValidSegment ValidSegmentFacts.
Open Scope Z_scope.

Notation GA := gen_tables.

Lemma gen_seg_tables_agree : seg_tables_agree GA ST = true.
Proof. vm_compute. reflexivity. Qed.

Lemma c11_part_arith_valid ep sp b cr y :
  sb_adv b = false -> AR.validate_batch GA (s_batch GA ep sp b) = AR.ROk -> In y (part ST cr b) ->
  AR.validate_batch GA (s_batch GA ep sp y) = AR.ROk /\ sb_adv y = false.
Proof. apply part_arith_valid; [apply gen_tables_ok|apply ST_ok|apply gen_seg_tables_agree]. Qed.

Lemma c11_file_arith_valid ep sp f cf df :
  Forall (fun b => sb_adv b = false /\ AR.validate_batch GA (s_batch GA ep sp b) = AR.ROk) (sf_batches f) ->
  segment ST f = SOk cf df ->
  forall g, g = cf \/ g = df -> (sf_batches g <> [] \/ sf_iat g <> []) ->
  fctl_fits GA (AR.fl_ctl (s_file GA ep sp g)) ->
  AR.validate_file GA (s_file GA ep sp g) = AR.ROk.
Proof. apply segment_file_arith_valid; [apply gen_tables_ok|apply ST_ok|apply gen_seg_tables_agree]. Qed.

(* payload preservation: an entry of a batch SegmentFile builds from a standard batch is an
   entry of that batch (same code, amount, id, trace — hence the same payload), and the new
   batch carries its identification tag (hence the same ODFI) *)
Lemma c11_payload_preserved b cr y e : sb_adv b = false -> In y (part ST cr b) -> In e (sb_entries y) ->
  In e (sb_entries b) /\ sb_ident y = sb_ident b.
Proof.
  intros Hadv Hy He. unfold part in Hy. rewrite Hadv in Hy.
  destruct (scc_lookup (st_scc_std ST) (sb_scc b)) as [[c d| | |]|]; try (destruct Hy; fail).
  - apply fresh_In in Hy as (Hes & Hid & _). rewrite Hes in He. apply filter_In in He as [He _]. now split.
  - destruct cr; [|destruct Hy]. destruct Hy as [<-|[]]. now split.
  - destruct cr; [destruct Hy|]. destruct Hy as [<-|[]]. now split.
Qed.

(* ---- non-vacuity -------------------------------------------------------------------------- *)

Definition dsb (l : list Z) : bytes := map (fun d => (48 + Z.to_N d)%N) l.

Definition ex_sep (id tr : N) : spay :=
  match id with
  | 1%N => mkspay (dsb [2;3;1;3;8;0;1;0]) (dsb [4]) (dsb [1;2;1;0;4;2;8;8;0;0;0;0;0;0;1]) 0
  | 2%N => mkspay (dsb [1;2;1;0;4;2;8;8]) (dsb [2]) (dsb [1;2;1;0;4;2;8;8;0;0;0;0;0;0;2]) 1
  | _ => mkspay (dsb [2;3;1;3;8;0;1;0]) (dsb [4]) (dsb [1;2;1;0;4;2;8;8;0;0;0;0;0;0;3]) 0
  end.
Definition ex_ssp (ident : N) : bytes := dsb [1;2;1;0;4;2;8;8].
Definition ex_sbatch : sbatch :=
  mksb false 200 1 7 150 200 [mkentry 22 100 1%N 1%N; mkentry 27 200 2%N 2%N; mkentry 32 50 3%N 3%N].
Definition ex_sfile : sfile := mksf 1 2 [ex_sbatch] [] 150 200.

Lemma ex_seg_hyps :
  AR.validate_batch GA (s_batch GA ex_sep ex_ssp ex_sbatch) = AR.ROk /\
  AR.validate_file GA (s_file GA ex_sep ex_ssp ex_sfile) = AR.ROk /\
  map (fun y => (sb_scc y, map e_code (sb_entries y))) (part ST true ex_sbatch) = [(220, [22; 32])] /\
  map (fun y => (sb_scc y, map e_code (sb_entries y))) (part ST false ex_sbatch) = [(225, [27])].
Proof. vm_compute. repeat split; reflexivity. Qed.

Lemma ex_seg_valid :
  match segment ST ex_sfile with
  | SOk cf df => AR.validate_file GA (s_file GA ex_sep ex_ssp cf) = AR.ROk /\ AR.validate_file GA (s_file GA ex_sep ex_ssp df) = AR.ROk
  | SErr _ => False
  end.
Proof. vm_compute. split; reflexivity. Qed.

(* the credit half under the mixed batch's own control totals (not re-tabulated) is refused *)
Lemma ex_seg_stale_totals_refused :
  Forall (fun y => AR.validate_batch GA (s_batch GA ex_sep ex_ssp
                     (mksb (sb_adv y) (sb_scc y) (sb_num y) (sb_ident y) (sb_credit ex_sbatch) (sb_debit ex_sbatch) (sb_entries y)))
                   = AR.RDebit) (part ST true ex_sbatch).
Proof. repeat constructor. Qed.

(* Reflection obligations and non-vacuity examples for the shape model of ach.Reader (phase 5):
   coq/Model/ReaderShape.v against the type-aware site table regenerated from the current source
   (Gen/OpSites.v) and the hand table of the reader's state effects against Gen/ReaderEffects.v. *)
From Coq Require Import String List Bool Arith NArith Ascii.
Import ListNotations.
From ACH Require Import PartialTable PartialAccounted OpSiteTable OpSites TotalOps TotalOpsFacts TotalJson TotalJsonFacts
  ReaderShape ReaderShapeFacts ReaderSiteTable ReaderEffectsTable ReaderEffects ReaderText ReaderTextFacts.
From ACH Require Totality.

(* ---- the table ties *)

(* every dereference / index of a transcribed reader function that its type does not discharge is a site
   kind of the model; nothing the translator did not understand occurs in those functions *)
Lemma reader_sites_covered : reader_covered_ok reader_functions reader_cover op_sites = true.
Proof. vm_compute. reflexivity. Qed.

(* … with exactly the recorded number of occurrences per function and operand *)
Lemma reader_cover_exact_ok : reader_cover_exact reader_functions reader_cover op_sites = true.
Proof. vm_compute. reflexivity. Qed.

(* the "reader-model:" reasons of PartialAccounted.accounted name the site kind the cover gives the site *)
Lemma reader_accounted : reader_accounted_ok reader_cover accounted op_sites = true.
Proof. vm_compute. reflexivity. Qed.

Lemma reader_sites_covered_meaning s :
  In s op_sites -> In (o_func s) reader_functions -> needs_invariant s = true ->
  exists c, In c reader_cover /\ rc_func c = o_func s /\ rc_path c = o_path s.
Proof. apply reader_covered_sound, reader_sites_covered. Qed.

(* the sites of the table the reader model accounts for; what stays search-only *)
Lemma reader_sites_counted : cover_total reader_cover = 40.
Proof. vm_compute. reflexivity. Qed.
Lemma reader_model_entries : count_reason "reader-model:" accounted = 16.
Proof. vm_compute. reflexivity. Qed.
Lemma search_only_after_reader : Nat.leb (count_reason "search-only:" accounted) 2 = true.
Proof. vm_compute. reflexivity. Qed.

(* the state effects of every reader function (assignments to r.currentBatch / r.IATCurrentBatch, the
   constructors, AddEntry / AddBatch / maybeValidate calls, guards, returns) are the ones the transitions
   of ReaderShape.v were written from; the constructors install what the model says they install *)
Lemma reader_effects_pinned : effects_eqb reader_effects gen_reader_effects = true.
Proof. vm_compute. reflexivity. Qed.
Lemma reader_ctors_pinned : effects_eqb reader_ctors gen_reader_ctors = true.
Proof. vm_compute. reflexivity. Qed.

(* ---- non-vacuity: line sequences *)

Definition yes : ans := mkans true true.
Definition ent (code : nat) (ari : bool) : line := LEntry code false ari code ari code ari.
Definition all_ok (ls : list line) : list rline := map (fun l => (l, yes)) ls.

Definition ppd_lines : list rline := all_ok
  [LFileHeader; LBatchHeader (mkheader PPD Mixed) false; ent 22 true; LAddenda T05; LAddenda T05; ent 27 false;
   LBatchControl; LFileControl; LPadding].
Definition adv_lines : list rline := all_ok
  [LFileHeader; LBatchHeader (mkheader ADV Advices) false; ent 82 true; LAddenda (T99 RPlain); LBatchControl; LFileControl].
Definition iat_lines : list rline := all_ok
  [LFileHeader; LIATHeader (mkih Mixed false); ent 22 true; LAddenda T10; LAddenda T11; LAddenda T12; LAddenda T13;
   LAddenda T14; LAddenda T15; LAddenda T16; LAddenda T17; LAddenda T18; LAddenda T18; LBatchControl; LFileControl].
Definition return_lines : list rline := all_ok
  [LFileHeader; LBatchHeader (mkheader PPD Debits) false; ent 26 true; LAddenda (T99 RPlain);
   LEntry 27 true false 27 false 27 false; LBatchControl; LFileControl].

(* what the reader builds from them: the shapes of TotalOps.v with header, matching control, the entries
   with their addenda; every line and the tail accepted; the result satisfies the hypothesis of the
   operation theorems *)
Lemma reader_examples :
  (exists s o, reader_read ppd_lines yes (init false) [] = OK ([true; true; true; true; true; true; true; true; true], true) s o /\
     r_file s = mkfile [Some (mkbatch (KSec PPD) (Some (mkheader PPD Mixed)) true false false
                                [Some (mkentry CFwd 22 false false false false false false [true; true] false);
                                 Some (mkentry CFwd 27 false false false false false false [] false)] [])] [] /\
     r_cur s = None /\ wf_file_strict (r_file s) = true) /\
  (exists s o v, reader_read adv_lines yes (init false) [] = OK v s o /\ accepted v = true /\
     (* File.IsADV() — parseFileControl and the tail of Read call it — installs a BatchControl on the first batch *)
     r_file s = mkfile [Some (mkbatch (KSec ADV) (Some (mkheader ADV Advices)) true true false []
                                [Some (mkadv CRet 82 true)])] []) /\
  (exists s o v, reader_read iat_lines yes (init false) [] = OK v s o /\ accepted v = true /\
     r_file s = mkfile [] [mkib (Some (mkih Mixed false)) true
                                [Some (mkie CFwd 22 true true true true true true true false false [true] [true; true])]]) /\
  (* setOffsetCategory: the OFFSET entry of a return batch becomes a Return entry *)
  (exists s o v, reader_read return_lines yes (init false) [] = OK v s o /\
     r_file s = mkfile [Some (mkbatch (KSec PPD) (Some (mkheader PPD Debits)) true false false
                                [Some (mkentry CRet 26 false false false true false false [] false);
                                 Some (mkentry CRet 27 false false false false false false [] true)] [])] []).
Proof. vm_compute. split; [|split; [|split]]; repeat eexists. Qed.

(* line orders a valid file never has: the verdicts (false = the line is reported) and no panic *)
Definition verdicts (ls : list line) : option (list bool) :=
  match read_lines (all_ok ls) (init false) [] with OK v _ _ => Some v | _ => None end.

Lemma odd_orders :
  verdicts [LAddenda T05] = Some [false] /\                                         (* addenda outside a batch *)
  verdicts [LBatchControl] = Some [false] /\                                        (* control outside a batch *)
  verdicts [ent 22 true] = Some [false] /\                                          (* entry outside a batch *)
  verdicts [LBatchHeader (mkheader PPD Mixed) false; LAddenda T05] = Some [true; false] /\      (* addenda without entry *)
  verdicts [LBatchHeader (mkheader ADV Advices) false; LAddenda (T99 RPlain)] = Some [true; false] /\
  verdicts [LIATHeader (mkih Mixed false); LAddenda T10] = Some [true; false] /\    (* Entries is nil *)
  verdicts [LIATHeader (mkih Mixed false); LBatchControl] = Some [true; false] /\
  verdicts [LBatchHeader (mkheader PPD Mixed) false; LBatchHeader (mkheader PPD Mixed) false] = Some [true; false] /\
  verdicts [LBatchHeader (mkheader IAT Mixed) false] = Some [false] /\              (* NewBatch refuses the code *)
  verdicts [LBatchHeader (mkheader PPD Mixed) false; ent 22 false; LAddenda T05] = Some [true; true; false] /\  (* indicator 0 *)
  verdicts [LBatchHeader (mkheader PPD Mixed) false; ent 22 true; LAddenda T10] = Some [true; true; true] /\   (* no case: ignored *)
  verdicts [LUnknown; LPadding; LFileControl; LFileHeader] = Some [false; true; true; true].
Proof. vm_compute. repeat split. Qed.

(* a quirk the model reproduces: a standard batch header does not reset r.IATCurrentBatch, so the entries
   that follow go to the IAT batch (parseED tests its header first); the first control closes the (empty)
   standard batch — Batch.Validate reports it — the second one the IAT batch with both entries *)
Lemma iat_header_shadows :
  exists s o,
    read_lines (all_ok [LIATHeader (mkih Mixed false); ent 22 false; LBatchHeader (mkheader PPD Mixed) false; ent 27 false;
                        LBatchControl; LBatchControl]) (init false) [] = OK [true; true; true; true; false; false] s o /\
    r_file s = mkfile [Some (mkbatch (KSec PPD) (Some (mkheader PPD Mixed)) true false false [] [])]
                      [mkib (Some (mkih Mixed false)) true [Some (fresh_iat 22); Some (fresh_iat 27)]] /\
    inv s = true.
Proof. vm_compute. eexists. eexists. repeat split. Qed.

(* a lingering batch (no control record) is accumulated by the tail of Read; a lingering IAT batch is not *)
Lemma lingering :
  (exists s o v, reader_read (all_ok [LBatchHeader (mkheader PPD Mixed) false; ent 22 false]) yes (init false) [] = OK v s o /\
     length (f_batches (r_file s)) = 1) /\
  (exists s o v, reader_read (all_ok [LIATHeader (mkih Mixed false); ent 22 false]) yes (init false) [] = OK v s o /\
     r_file s = new_file).
Proof. vm_compute. split; eexists; eexists; eexists; split; reflexivity. Qed.

(* the invariant is not trivially true: each clause fails on some (unreachable) state, and the site it
   protects panics there *)
Definition bad_header : rstate := mkrs false (Some (mkbatch (KSec PPD) None true false false [] [])) false false ic_blank false new_file.
Definition bad_control : rstate := mkrs false (Some (mkbatch (KSec PPD) (Some (mkheader PPD Mixed)) false false false [] [])) false false ic_blank false new_file.
Definition bad_entry : rstate := mkrs false (Some (mkbatch (KSec PPD) (Some (mkheader PPD Mixed)) true false false [None] [])) false true ic_blank false new_file.
Definition bad_iat_empty : rstate := mkrs false None false false (mkic (Some (mkih Mixed false)) true (Some [])) true new_file.
Definition bad_iat_control : rstate := mkrs false None false false (mkic (Some (mkih Mixed false)) false (Some [Some (fresh_iat 22)])) true new_file.

Lemma clauses_matter :
  (holds ClCurHeader bad_header = false /\ step (LBatchControl, yes) bad_header [] = PANIC) /\
  (holds ClCurControl bad_control = false /\ step (LBatchControl, yes) bad_control [] = PANIC) /\
  (holds ClCurEntries bad_entry = false /\ step (LAddenda T05, yes) bad_entry [] = PANIC) /\
  (holds ClIatNonempty bad_iat_empty = false /\ step (LAddenda T10, yes) bad_iat_empty [] = PANIC) /\
  (holds ClIatBuilt bad_iat_control = false /\ step (LBatchControl, yes) bad_iat_control [] = PANIC).
Proof. vm_compute. repeat split. Qed.

(* the hypotheses of the server theorem hold for request lists with text bodies of every kind, and the
   requests are served (the stored files include the ones read from text) *)
Definition text_requests : list troute :=
  [TCreateText 1 ppd_lines yes; TCreateText 2 (all_ok [LAddenda T05; LBatchControl]) (mkans false true);
   TCreateText 3 iat_lines yes; TPlain (RValidateGet 1); TPlain (RBuild 2); TPlain (RContents 3);
   TSegmentText ppd_lines yes 10 11; TSegmentText (all_ok [LUnknown]) yes 12 13; TPlain (RFlatten 1 14); TPlain RGetFiles].

Lemma text_requests_example :
  forallb (troute_ok true) text_requests = true /\
  exists r o, serve_t text_requests [] [] = OK tt r o /\ Nat.leb 4 (length r) = true.
Proof. vm_compute. split; [reflexivity|]. eexists. eexists. split; reflexivity. Qed.

(* the hypotheses of C06_reader_site_safe / C06_reader_sites_total are satisfiable: each of the seven site
   kinds has its guard true in some reachable state (and is then safe there) *)
Definition state_after (ls : list line) : option rstate :=
  match read_lines (all_ok ls) (init false) [] with OK _ s _ => Some s | _ => None end.

Lemma site_guards_reachable :
  (exists s, state_after [LBatchHeader (mkheader PPD Mixed) false; ent 22 true] = Some s /\
     site_guard SCurHeader s = true /\ site_guard SCurControl s = true /\ site_guard SCurLastEntry s = true /\
     site_ok SCurHeader s = true /\ site_ok SCurControl s = true /\ site_ok SCurLastEntry s = true) /\
  (exists s, state_after [LBatchHeader (mkheader ADV Advices) false; ent 81 true] = Some s /\
     site_guard SCurAdvControl s = true /\ site_guard SCurLastAdvEntry s = true /\
     site_ok SCurAdvControl s = true /\ site_ok SCurLastAdvEntry s = true) /\
  (exists s, state_after [LIATHeader (mkih Mixed false); ent 22 true] = Some s /\
     site_guard SIatControl s = true /\ site_guard SIatLastEntry s = true /\
     site_ok SIatControl s = true /\ site_ok SIatLastEntry s = true).
Proof. vm_compute. split; [|split]; eexists; repeat split. Qed.

(* ---- bytes to shapes: the premise of C06_read_text_total_partial is satisfiable — nine physical lines
   (a short one is padded by readLine), their dispatch by the byte-level model, and the PPD line sequence
   of [reader_examples] refining it *)
Definition bytes_of_string (s : string) : Bytes.bytes :=
  map (fun a => Ascii.N_of_ascii a) (list_ascii_of_string s).
Definition text_line (first : string) (at50 : string) : Bytes.bytes :=
  let b := bytes_of_string first in
  (b ++ repeat 32%N (50 - List.length b) ++ bytes_of_string at50 ++ repeat 32%N (94 - 50 - String.length at50))%list.

Definition sample_text : list Bytes.bytes :=
  [text_line "101" ""; text_line "5200" "PPD"; text_line "622" ""; text_line "705" ""; text_line "705" "";
   text_line "627" ""; text_line "8200" ""; bytes_of_string "9000001"; text_line "9999" ""].

Lemma text_example :
  exists recs, Totality.read_lines true sample_text = Totality.Ok recs /\
    dispatched recs = [Totality.KFileHeader; Totality.KBatchHeader; Totality.KEntryDetail;
                       Totality.KAddenda [48; 53]%N [32; 32; 32]%N; Totality.KAddenda [48; 53]%N [32; 32; 32]%N;
                       Totality.KEntryDetail; Totality.KBatchControl; Totality.KFileControl; Totality.KPadding] /\
    refines_all (dispatched recs) ppd_lines = true /\
    refines_all (dispatched recs) adv_lines = false.
Proof. vm_compute. eexists. repeat split. Qed.

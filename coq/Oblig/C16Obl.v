(* Reflection obligations for C16: the checkers evaluated on the tables regenerated
   from writer.go / reader.go, the generic theorems instantiated at the policies of
   this source tree, non-vacuity examples and the refutation witnesses. *)
From Coq Require Import String List Bool NArith Lia.
Import ListNotations.
From ACH Require Import Bytes BufIO BufIOFacts WriterIOTable WriterIO WriterIOCurrent.
Open Scope N_scope.

Lemma writer_table_checks :
  writer_table_ok writer_sites writer_threshold writer_nil_returns writer_bufio_ctor = true.
Proof. vm_compute. reflexivity. Qed.

Lemma reader_table_checks : reader_table_ok reader_facts = true.
Proof. vm_compute. reflexivity. Qed.

(* the evaluated policies the extracted model runs with are those of the tables *)
Lemma current_wpolicy_is : current_wpolicy = policy_of writer_sites writer_threshold.
Proof. vm_compute. reflexivity. Qed.
Lemma current_rpolicy_is : current_rpolicy = rpolicy_of reader_facts.
Proof. vm_compute. reflexivity. Qed.

Lemma writer_table_ok_policy t th rets ctor :
  writer_table_ok t th rets ctor = true -> policy_ok (policy_of t th) = true.
Proof.
  unfold writer_table_ok. intros H. apply andb_prop in H as [H _]. apply andb_prop in H as [H _].
  now apply andb_prop in H as [_ H].
Qed.

Lemma reader_table_ok_policy f : reader_table_ok f = true -> rpolicy_ok (rpolicy_of f) = true.
Proof. unfold reader_table_ok. intros H. now apply andb_prop in H as [H _]. Qed.

Lemma current_wpolicy_ok : policy_ok current_wpolicy = true.
Proof. rewrite current_wpolicy_is. exact (writer_table_ok_policy _ _ _ _ writer_table_checks). Qed.

Lemma current_rpolicy_ok : rpolicy_ok current_rpolicy = true.
Proof. rewrite current_rpolicy_is. exact (reader_table_ok_policy _ reader_table_checks). Qed.

(* ---- the generic theorems at the current policies *)

Lemma current_writer_safe le recs fo :
  let r := writer_run current_wpolicy le recs fo in
  (wr_write r = None \/ wr_flush r = None) ->
  s_got (wr_sink r) = full_output le recs /\ s_tripped (wr_sink r) = false.
Proof. exact (writer_safe current_wpolicy le current_wpolicy_ok fo recs). Qed.

Lemma current_writer_detects le recs f :
  f_k f < blen (full_output le recs) ->
  let r := writer_run current_wpolicy le recs (Some f) in wr_write r <> None /\ wr_flush r <> None.
Proof. exact (writer_detects current_wpolicy le current_wpolicy_ok recs f). Qed.

Lemma current_write le recs :
  (forall f, f_k f < blen (full_output le recs) ->
     let r := writer_run current_wpolicy le recs (Some f) in wr_write r <> None /\ wr_flush r <> None) /\
  (forall fo, let r := writer_run current_wpolicy le recs fo in
     (wr_write r = None \/ wr_flush r = None) ->
     s_got (wr_sink r) = full_output le recs /\ s_tripped (wr_sink r) = false).
Proof. split; [apply current_writer_detects|apply current_writer_safe]. Qed.

Lemma current_writer_no_false_error le recs fo :
  let r := writer_run current_wpolicy le recs fo in
  s_tripped (wr_sink r) = false ->
  wr_write r = None /\ wr_flush r = None /\ s_got (wr_sink r) = full_output le recs.
Proof. exact (writer_no_false_error current_wpolicy le current_wpolicy_ok fo recs). Qed.

Lemma current_writer_healthy le recs :
  let r := writer_run current_wpolicy le recs None in
  wr_write r = None /\ wr_flush r = None /\ s_got (wr_sink r) = full_output le recs.
Proof. exact (writer_healthy current_wpolicy le current_wpolicy_ok recs). Qed.

Lemma current_fuel_enough le recs fo :
  let r := writer_run current_wpolicy le recs fo in wr_write r <> Some EFuel /\ wr_flush r <> Some EFuel.
Proof. exact (fuel_enough current_wpolicy le current_wpolicy_ok fo recs). Qed.

Lemma current_reader_detects text k c :
  reader_run current_rpolicy (failing_source text k c RInj) = RCtorErr \/
  reader_run current_rpolicy (failing_source text k c RInj) = RScanErr RInj.
Proof. exact (reader_detects current_rpolicy text k c current_rpolicy_ok). Qed.

Lemma current_reader_complete text c : reader_run current_rpolicy (healthy_source text c) = RParsed text.
Proof. exact (reader_complete current_rpolicy text c current_rpolicy_ok). Qed.

Lemma current_reader_unexpected_eof text k c :
  reader_run current_rpolicy (failing_source text k c RUnexpectedEOF) =
  if preview_size <=? blen (firstn k text) then RScanErr RUnexpectedEOF else RParsed (firstn k text).
Proof. exact (reader_unexpected_eof current_rpolicy text k c current_rpolicy_ok). Qed.

(* ---- non-vacuity: concrete runs *)

Definition line (c : N) : bytes := repeat c 94.
Definition recs3 : list (rtag * bytes) := [(THdr, line 49); (TBody, line 54); (TCtl, line 57)].
(* 41 records: the nine padding lines cross the 4096-byte buffer *)
Definition recs41 : list (rtag * bytes) :=
  (THdr, line 49) :: map (fun _ => (TBody, line 54)) (seq 0 39) ++ [(TCtl, line 57)].
Definition lf : bytes := [10].

Example healthy_run_ok :
  let r := writer_run current_wpolicy lf recs3 None in
  wr_write r = None /\ wr_flush r = None /\ bytes_eqb (s_got (wr_sink r)) (full_output lf recs3) = true
  /\ blen (full_output lf recs3) = 950.
Proof. vm_compute. repeat split. Qed.

Example faulty_run_reported :
  let f := mkfault 100 Hard false in
  (f_k f < blen (full_output lf recs3)) /\
  let r := writer_run current_wpolicy lf recs3 (Some f) in
  wr_write r = Some EInj /\ wr_flush r = Some EInj /\ blen (s_got (wr_sink r)) = 100.
Proof. vm_compute. repeat split. Qed.

Example short_write_reported :
  let r := writer_run current_wpolicy lf recs41 (Some (mkfault 4090 ShortNil true)) in
  wr_write r = Some EShort /\ wr_flush r = Some EShort /\ blen (s_got (wr_sink r)) = 4090.
Proof. vm_compute. repeat split. Qed.

(* ---- the hypothesis policy_ok is needed: policies that violate it lose the property *)

Definition with_final (h : handler) : wpolicy :=
  mkpol Propagate Propagate Propagate 94 Propagate Propagate Propagate Propagate Propagate Propagate h.
Definition with_pad_line (h : handler) : wpolicy :=
  mkpol Propagate Propagate Propagate 94 Propagate Propagate Propagate Propagate h Propagate Propagate.
Definition with_body (h : handler) : wpolicy :=
  mkpol Propagate Propagate Propagate 94 Propagate Propagate h Propagate Propagate Propagate Propagate.

(* ignoring the final Flush result: success reported, 100 of 950 bytes written *)
Lemma ignored_final_flush_refuted :
  let r := writer_run (with_final Ignore) lf recs3 (Some (mkfault 100 Hard false)) in
  wr_write r = None /\ blen (s_got (wr_sink r)) = 100 /\ policy_ok (with_final Ignore) = false.
Proof. vm_compute. repeat split. Qed.

(* `return nil` on a failed WriteString in the padding loop: only offsets inside the
   buffer that fills up during padding reveal it *)
Lemma pad_return_nil_refuted :
  let r := writer_run (with_pad_line ReturnNil) lf recs41 (Some (mkfault 4000 Hard false)) in
  wr_write r = None /\ blen (s_got (wr_sink r)) = 4000 /\ blen (full_output lf recs41) = 4750.
Proof. vm_compute. repeat split. Qed.

(* dropping the error of every writeLine call in the batch loops is covered by bufio's
   sticky error: still reported, identical observations *)
Example ignored_body_errors_still_reported :
  policy_ok (with_body Ignore) = true /\
  let f := Some (mkfault 500 Hard true) in
  let r := writer_run (with_body Ignore) lf recs41 f in
  let r0 := writer_run reference_policy lf recs41 f in
  wr_write r = Some EInj /\ wr_write r0 = Some EInj /\ s_calls (wr_sink r) = s_calls (wr_sink r0)
  /\ bytes_eqb (s_got (wr_sink r)) (s_got (wr_sink r0)) = true.
Proof. vm_compute. repeat split. Qed.

(* `return nil` on a failed WriteString inside writeLine is covered as well (the caller
   continues and meets the sticky error) ... *)
Definition with_wl_line (h : handler) : wpolicy :=
  mkpol h Propagate Propagate 94 Propagate Propagate Propagate Propagate Propagate Propagate Propagate.
Example writeline_return_nil_still_reported :
  policy_ok (with_wl_line ReturnNil) = true /\
  let r := writer_run (with_wl_line ReturnNil) lf recs41 (Some (mkfault 4000 Hard false)) in
  wr_write r = Some EInj /\ wr_flush r = Some EInj.
Proof. vm_compute. repeat split. Qed.

(* ... but not where Write or the batch loops look at writeLine's result: 60 records, the
   mid-stream flush after record 43 fails, Write returns nil with nothing delivered *)
Definition recs60 : list (rtag * bytes) :=
  (THdr, line 49) :: map (fun _ => (TBody, line 54)) (seq 0 58) ++ [(TCtl, line 57)].
Lemma body_return_nil_refuted :
  let r := writer_run (with_body ReturnNil) lf recs60 (Some (mkfault 100 Hard false)) in
  wr_write r = None /\ blen (s_got (wr_sink r)) = 100 /\ policy_ok (with_body ReturnNil) = false.
Proof. vm_compute. repeat split. Qed.

(* reader: without the scanner.Err() check a failure after the preview is swallowed *)
Definition text2000 : bytes := repeat 49 2000.
Lemma dropped_scanner_err_refuted :
  reader_run (mkrpol Propagate Absent) (failing_source text2000 1500 0 RInj) = RParsed (firstn 1500 text2000)
  /\ rpolicy_ok (mkrpol Propagate Absent) = false.
Proof. vm_compute. split; reflexivity. Qed.

Example reader_failure_reported :
  reader_run current_rpolicy (failing_source text2000 1500 7 RInj) = RScanErr RInj /\
  reader_run current_rpolicy (failing_source text2000 500 7 RInj) = RCtorErr.
Proof. vm_compute. split; reflexivity. Qed.

(* the finding: io.ErrUnexpectedEOF inside charset's preview is taken for the end of a
   short input; the first 500 bytes are parsed as if they were the file *)
Lemma unexpected_eof_in_preview_swallowed :
  exists text k, (k < length text)%nat /\
    reader_run current_rpolicy (failing_source text k 0 RUnexpectedEOF) = RParsed (firstn k text)
    /\ firstn k text <> text.
Proof.
  exists text2000, 500%nat. split; [cbn; lia|]. split; [vm_compute; reflexivity|].
  intros H. apply (f_equal (@length N)) in H. rewrite firstn_length in H. cbn in H. lia.
Qed.

(* Phase 5 obligations for C13 with options: the pinned source of File.Reversal / File.Create /
   ( *Batch ).Validate and of the option reads of the validator (Gen/RevOptsGen.v), the theorems of
   ReversalOptsFacts at the tables of this run, a file that validates ONLY under its options with
   its reversal, and the two machine-checked counter-examples of the unrestricted statement. *)
From Coq Require Import Lia.
From ACH Require Import ValidOut ValidOutFacts Tables C03Obl ArithOpts ArithOptsFacts.
From Coq Require Import ZArith NArith List Bool String.
From ACH Require Import Bytes TxCodes RevTable Reversal ReversalFacts ReversalGenFacts ReversalTable C13Obl.
From ACH Require Import ValidReversal ValidReversalFacts ValidRevObl ReversalOptsFacts RevOptsTable RevOptsGen.
From ACH Require MergeOpts.
Import ListNotations.
Open Scope Z_scope.

(* ---- the source of this run ------------------------------------------------------------------- *)

Lemma rev_pins_hold : rev_pins_ok gen_rev_pins = true.
Proof. vm_compute. reflexivity. Qed.

(* read off the pinned text: Reversal stores and reads no option, rebuilds only behind the type
   assertion on the bare Batch, whose Validate is an unconditional error *)
Lemma rev_rebuild_dead :
  pin_of gen_rev_pins "Reversal:options" = Some ""%string
  /\ pin_of gen_rev_pins "Batch.Validate" = Some "{ return errors.New(""use an implementation of batch or NewBatch"") }"%string
  /\ pin_of gen_rev_pins "Reversal:rebuild"
     = Some "if bb, ok := f.Batches[i].(*Batch); ok { if err := bb.build(); err != nil { return fmt.Errorf(""rebuilding batch index %d failed: %v"", i, err) } }"%string
  /\ pin_of gen_rev_pins "Reversal:calls"
     = Some "Format,Format,GetHeader,Format,GetEntries,GetControl,NewBatchControl,SetHeader,SetControl,build,Errorf,Create"%string.
Proof. repeat split; vm_compute; reflexivity. Qed.

(* ---- instances at the tables of this run ------------------------------------------------------ *)

Notation rcRT := (rcode RT).

Lemma c13_opts_batch_valid csem ep d x :
  validate_batch_o csem GA (rv_arith ep x) = Arith.ROk -> batch_ok csem RT x ->
  validate_batch_o csem GA (rv_arith ep (reversal_batch_o RT d x)) = Arith.ROk.
Proof. apply reversal_batch_valid_o; [apply gen_tables_ok|apply RT_ok|apply gen_rev_tables_agree]. Qed.

Lemma c13_opts_file_valid csem ep d t f : file_hyps csem GA RT ep f ->
  exists f', reversal_file_o GA RT ep d t f = RvOk f'
    /\ file_valid_o csem GA (rvf_arith ep f') = true
    /\ rvf_opts f' = rvf_opts f /\ rvf_date f' = d /\ rvf_time f' = t
    /\ rvf_origin f' = rvf_origin f /\ rvf_dest f' = rvf_dest f
    /\ Forall2 (kept RT d) (rvf_batches f) (rvf_batches f')
    /\ fc_debit (rvf_ctl f') = fc_credit (rvf_ctl f) /\ fc_credit (rvf_ctl f') = fc_debit (rvf_ctl f)
    /\ rvf_ctl f' = tab_fctl_o GA (map (ab ep) (rvf_batches f')).
Proof. apply reversal_file_valid_o; [apply gen_tables_ok|apply RT_ok|apply gen_rev_tables_agree]. Qed.

Lemma c13_opts_twice csem ep d1 t1 d2 t2 f : file_hyps csem GA RT ep f ->
  exists f1 f2, reversal_file_o GA RT ep d1 t1 f = RvOk f1 /\ reversal_file_o GA RT ep d2 t2 f1 = RvOk f2
    /\ file_valid_o csem GA (rvf_arith ep f1) = true /\ file_valid_o csem GA (rvf_arith ep f2) = true
    /\ rvf_opts f2 = rvf_opts f
    /\ Forall2 restored (rvf_batches f) (rvf_batches f2)
    /\ fc_debit (rvf_ctl f2) = fc_debit (rvf_ctl f) /\ fc_credit (rvf_ctl f2) = fc_credit (rvf_ctl f).
Proof. apply reversal_twice_o; [apply gen_tables_ok|apply RT_ok|apply gen_rev_tables_agree]. Qed.

Lemma c13_opts_skip_all csem ep d t f : oflag ix_skip_all (rvf_opts f) = true ->
  exists f', reversal_file_o GA RT ep d t f = RvOk f' /\ file_valid_o csem GA (rvf_arith ep f') = true
    /\ rvf_opts f' = rvf_opts f /\ Forall2 (kept RT d) (rvf_batches f) (rvf_batches f').
Proof. apply reversal_file_skip_all. Qed.

(* ---- a file that validates only under its options ----------------------------------------------- *)

Definition nfl : nat := 18.
Definition xfl (on : list nat) : MergeOpts.flags := map (fun i => existsb (Nat.eqb i) on) (seq 0 nfl).
Definition xmk (on : list nat) (ctc : option N) : vopts := Some (MergeOpts.mkOpts (xfl on) ctc).

(* function 2 accepts credit codes only (units digit below 5); every other function everything *)
Definition xr_csem (f : N) (c : Z) : bool := if (f =? 2)%N then c mod 10 <? 5 else true.

Definition xtr (prefix seqno : Z) : bytes := (numericField prefix 8 ++ numericField seqno 7)%list.
Definition xr_rdfi : bytes := dsb [2;3;1;3;8;0;1;0].

(* entries 1, 2: foreign prefix, descending; entry 3: wrong check digit *)
Definition xr_ep (id tr : N) : rpay :=
  match id with
  | 1%N => mkrpay xr_rdfi (dsb [4]) (xtr 99887766 9) 0
  | 2%N => mkrpay xr_rdfi (dsb [4]) (xtr 99887766 3) 0
  | 3%N => mkrpay xr_rdfi (dsb [9]) (xtr 12104288 1) 0
  | _ => mkrpay xr_rdfi (dsb [4]) (xtr 12104288 (Z.of_N id)) 0
  end.

Definition xr_odfi : bytes := dsb [1;2;1;0;4;2;8;8].

(* a batch whose control record is the tabulation of its entries, except for the class / count given *)
Definition xbatch (o : vopts) (eos : list vopts) (num cls_h cls_c : Z) (count_off : Z) (es : list entry) : rvb :=
  let aes := map (r_entry xr_ep) es in
  mkrvb o eos (mkbpay xr_odfi num (calc_count aes + count_off) (calc_hash GA aes) xr_odfi num)
        (mkrbatch cls_h cls_c [80]%N [49]%N (calc_debit GA KStd aes) (calc_credit GA KStd aes) es).

Definition xfile (o : vopts) (origin dest : bytes) (count_off : Z) (xs : list rvb) : rvf :=
  let c := tab_fctl_o GA (map (ab xr_ep) xs) in
  mkrvf o origin dest [48]%N [48]%N xs
        (AR.mkfctl (fc_batches c) (fc_count c + count_off) (fc_hash c) (fc_debit c) (fc_credit c)).

Definition xr_b1 : rvb :=
  xbatch (xmk [MergeOpts.ix_custom_trace] None) [None; None] 3 220 220 0
         [mkentry 22 100 1 1; mkentry 32 200 2 2].
Definition xr_b2 : rvb :=
  xbatch (xmk [ix_unequal_scc] None) [xmk [ix_invalid_check] None] 1 225 200 0 [mkentry 27 50 3 3].
(* origin 000000000 (BypassOriginValidation), batch numbers 3, 1 (AllowUnorderedBatchNumbers) *)
Definition xr_file : rvf :=
  xfile (xmk [MergeOpts.ix_bypass_origin; ix_unordered] None) (dsb [0;0;0;0;0;0;0;0;0]) (dsb [2;3;1;3;8;0;1;0;4]) 0 [xr_b1; xr_b2].

Definition strip_rvf (f : rvf) : rvf :=
  mkrvf None (rvf_origin f) (rvf_dest f) (rvf_date f) (rvf_time f)
        (map (fun x => mkrvb None (map (fun _ => None) (rv_eopts x)) (rv_pay x) (rv_b x)) (rvf_batches f)) (rvf_ctl f).

Lemma ex_rev_opts_hyps : file_hyps xr_csem GA RT xr_ep xr_file.
Proof.
  unfold file_hyps. split; [vm_compute; reflexivity|]. split; [vm_compute; reflexivity|].
  split; [left; discriminate|]. split; [|vm_compute; reflexivity].
  repeat constructor; vm_compute; reflexivity.
Qed.

(* the reversal: succeeds, validates under the unchanged options, batch number 1 in second place became 2
   (File.Create), codes flipped, stale class 200 / 225 replaced by 220 / 220, trace tags untouched;
   without its options neither the file nor its reversal validates *)
Lemma ex_rev_opts_result :
  match reversal_file_o GA RT xr_ep [50]%N [51]%N xr_file with
  | RvOk f' =>
      file_valid_o xr_csem GA (rvf_arith xr_ep f') = true
      /\ rvf_opts f' = rvf_opts xr_file
      /\ map (fun x => (bp_number (rv_pay x), rb_scc_h (rv_b x), rb_scc_c (rv_b x), codes (rv_b x), map e_trace (rb_entries (rv_b x))))
             (rvf_batches f')
         = [(3, 225, 225, [27; 37], [1%N; 2%N]); (2, 220, 220, [22], [3%N])]
      /\ file_valid_o xr_csem GA (rvf_arith xr_ep (strip_rvf f')) = false
  | _ => False
  end
  /\ file_valid_o xr_csem GA (rvf_arith xr_ep (strip_rvf xr_file)) = false.
Proof. vm_compute. repeat split; reflexivity. Qed.

(* ---- the unrestricted statement fails: two witnesses ----------------------------------------------- *)

(* (1) an entry whose own CheckTransactionCode accepts credit codes only *)
Definition xr_ctc_file : rvf :=
  xfile None (dsb [1;2;1;0;4;2;8;8;2]) (dsb [2;3;1;3;8;0;1;0;4]) 0
        [xbatch None [xmk [] (Some 2%N)] 1 220 220 0 [mkentry 22 100 4 4]].

(* (2) file and batch under UnequalAddendaCounts, batch control count 0, file control count 1:
   File.Create sums the batch controls, the new file control says 0 entries while money moves *)
Definition xr_count_file : rvf :=
  xfile (xmk [ix_unequal_addenda] None) (dsb [1;2;1;0;4;2;8;8;2]) (dsb [2;3;1;3;8;0;1;0;4]) 1
        [xbatch (xmk [ix_unequal_addenda] None) [None] 1 220 220 (-1) [mkentry 22 100 4 4]].

Definition refutes (f : rvf) : Prop :=
  file_valid_o xr_csem GA (rvf_arith xr_ep f) = true
  /\ oflag ix_skip_all (rvf_opts f) = false /\ rvf_batches f <> []
  /\ forallb (fun x => all_reversible RT (rv_b x)) (rvf_batches f) = true
  /\ match reversal_file_o GA RT xr_ep [50]%N [51]%N f with
     | RvOk f' => file_valid_o xr_csem GA (rvf_arith xr_ep f') = false
     | _ => False
     end.

Lemma c13_opts_valid_refuted :
  (exists f, refutes f /\ fc_count (rvf_ctl f) = sumz (fun b => bc_count (bt_ctl b)) (map (ab xr_ep) (rvf_batches f))
             /\ forallb (fun x => ctc_accepts xr_csem rcRT (rv_eopts x) (codes (rv_b x))) (rvf_batches f) = false)
  /\ (exists f, refutes f /\ forallb (fun x => ctc_accepts xr_csem rcRT (rv_eopts x) (codes (rv_b x))) (rvf_batches f) = true
                /\ fc_count (rvf_ctl f) <> sumz (fun b => bc_count (bt_ctl b)) (map (ab xr_ep) (rvf_batches f))).
Proof.
  split.
  - exists xr_ctc_file. split; [|split; vm_compute; reflexivity].
    unfold refutes. repeat split; try (vm_compute; reflexivity). discriminate.
  - exists xr_count_file. split; [|split; [vm_compute; reflexivity|vm_compute; discriminate]].
    unfold refutes. repeat split; try (vm_compute; reflexivity). discriminate.
Qed.

(* Reflection obligations for C20: boolean checkers evaluated on the tables
   regenerated from the current source. *)
From Coq Require Import String List Bool.
From ACH Require Import Utf8 Mask MaskFacts DescribeTable Describe.

Lemma describe_cells_ok : cells_ok describe_cells = true.
Proof. vm_compute. reflexivity. Qed.

Lemma describe_table_complete : table_complete describe_cells = true.
Proof. vm_compute. reflexivity. Qed.

Lemma describe_flag_map_ok : flag_map_ok describe_flag_map = true.
Proof. vm_compute. reflexivity. Qed.

(* every protected cell of the regenerated table prints a masked value *)
Lemma describe_cells_masked c src flag fn on v :
  In c describe_cells -> In src (c_srcs c) -> protect src = Some (flag, fn) -> on flag = true ->
  exists s', eval_cell on c v = apply_fn fn s'.
Proof. apply cells_sound, describe_cells_ok. Qed.

Lemma describe_number_cells_hide c src flag on v secret :
  In c describe_cells -> In src (c_srcs c) -> protect src = Some (flag, "maskNumber"%string) -> on flag = true ->
  (5 <= count_sig secret)%nat -> ~ substring secret (eval_cell on c v).
Proof.
  intros Hc Hs Hp Hon Hlen. destruct (describe_cells_masked c src flag _ on v Hc Hs Hp Hon) as [s' ->].
  change (apply_fn "maskNumber" s') with (maskNumber s'). now apply maskNumber_hides_long.
Qed.

Lemma describe_name_cells_hide c src flag on v w j :
  In c describe_cells -> In src (c_srcs c) -> protect src = Some (flag, "maskName"%string) -> on flag = true ->
  nospace w -> (2 <= j < length w)%nat -> nth j w 0%N <> star -> ~ substring w (eval_cell on c v).
Proof.
  intros Hc Hs Hp Hon Hn Hj Hne. destruct (describe_cells_masked c src flag _ on v Hc Hs Hp Hon) as [s' ->].
  change (apply_fn "maskName" s') with (maskName s'). now apply (maskName_hides s' w j).
Qed.

(* the finding: a short value preceded by two blanks is printed complete *)
Definition short_witness : bytes := [32; 32; 49; 50; 51; 52; 32; 32; 32; 32; 32; 32; 32; 32; 32; 32; 32]%N.
Lemma maskNumber_short_leak :
  contains (maskNumber short_witness) [49; 50; 51; 52]%N = true /\ count_sig [49; 50; 51; 52]%N = 4%nat.
Proof. vm_compute. split; reflexivity. Qed.

(* non-vacuity: concrete values meeting the hypotheses of the theorems *)
Lemma hides_long_example :
  (5 <= count_sig [49; 50; 51; 52; 53; 54]%N)%nat /\
  maskNumber [49; 50; 51; 52; 53; 54; 32; 32]%N = [42; 42; 51; 52; 53; 54; 32; 32]%N.
Proof. vm_compute. split; [lia|reflexivity]. Qed.

Lemma hides_name_example :
  maskName [74; 111; 104; 110; 32; 68; 111; 101; 32; 83; 109; 105; 116; 104]%N
  = [74; 111; 42; 42; 32; 42; 42; 42; 32; 83; 109; 42; 42; 42]%N.
Proof. vm_compute. reflexivity. Qed.

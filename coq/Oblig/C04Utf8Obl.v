(* Obligations / instances / non-vacuity for the UTF-8 truncation theorems
   (Props/C04Utf8.v): instantiation at the regenerated tables, and two concrete files
   with multi-byte characters — one written through the layouts (non-ASCII name, a
   4-byte character in the last column of the file header), one whose file control
   record carries a 4-byte character in its last (reserved) column, so that every case
   of the theorem occurs: one padded line with U+FFFD characters, the spill into a
   second line, and the accepted cut with an unchanged skeleton. *)
From Coq Require Import String List Lia NArith ZArith Bool.
From ACH Require Import TamperText TamperTextFacts TruncBytes TruncUtf8 Utf8Prefix TruncUtf8Facts FramingBytes FileStructFacts Utf8Enc.
From ACH Require Import ArithFacts Tables C03Obl C04TextObl.
Import ListNotations.
Local Open Scope string_scope.
Local Open Scope list_scope.
Local Open Scope nat_scope.

Lemma c04_truncation_bytes_u f le k :
  le_ok le -> file_typed f = true -> starts99 (f_ctl f) = false -> utf8_records f ->
  read_validate T (skel f) = ROk -> k < length (write le f) ->
  let r := read_text (firstn k (write le f)) in
  r = None \/ r = Some f \/
  exists c j, 1 <= c < 94 /\ c + j <= 94 /\ j <= 3 /\ (0 < j -> j < length (nth c (chars (f_ctl f)) [])) /\
    r = Some (with_ctl f (cut_ctl (f_ctl f) c j)) /\
    (read_validate T (skel (with_ctl f (cut_ctl (f_ctl f) c j))) <> ROk \/
     skel (with_ctl f (cut_ctl (f_ctl f) c j)) = skel f).
Proof. apply truncation_bytes_u_verdict, gen_tables_ok. Qed.

Lemma c04_truncation_bytes_ascii_ctl f le k :
  le_ok le -> file_typed f = true -> starts99 (f_ctl f) = false -> utf8_records f ->
  asciib (f_ctl f) = true ->
  read_validate T (skel f) = ROk -> k < length (write le f) ->
  let r := read_text (firstn k (write le f)) in
  r = None \/ r = Some f \/
  exists c, 1 <= c < 94 /\ r = Some (with_ctl f (cut_line (f_ctl f) c)) /\
    (read_validate T (skel (with_ctl f (cut_line (f_ctl f) c))) <> ROk \/
     skel (with_ctl f (cut_line (f_ctl f) c)) = skel f).
Proof. apply truncation_bytes_ascii_ctl, gen_tables_ok. Qed.

(* the file control record String() writes is ASCII whatever the field values are:
   checked on the regenerated layouts *)
Lemma fctl_layouts_numeric : forall adv, numeric_layout (fctl_layout adv) = true.
Proof. intros [|]; vm_compute; reflexivity. Qed.

Lemma fctl_render_ascii adv rc : asciib (render (fctl_layout adv) rc) = true.
Proof. apply render_numeric_ascii, fctl_layouts_numeric. Qed.

Lemma c04_truncation_bytes_written f le k adv rc :
  le_ok le -> file_typed f = true -> starts99 (f_ctl f) = false -> utf8_records f ->
  f_ctl f = render (fctl_layout adv) rc ->
  read_validate T (skel f) = ROk -> k < length (write le f) ->
  let r := read_text (firstn k (write le f)) in
  r = None \/ r = Some f \/
  exists c, 1 <= c < 94 /\ r = Some (with_ctl f (cut_line (f_ctl f) c)) /\
    (read_validate T (skel (with_ctl f (cut_line (f_ctl f) c))) <> ROk \/
     skel (with_ctl f (cut_line (f_ctl f) c)) = skel f).
Proof. apply truncation_bytes_written_ctl; [exact gen_tables_ok|apply fctl_layouts_numeric]. Qed.

(* ---- non-vacuity ------------------------------------------------------------------- *)

Definition ulineb (l : bytes) : bool :=
  wf_utf8 l && (rune_count l =? 94) && FramingBytes.no_nl_bytes l && negb (blank_line l).
Lemma ulineb_spec l : ulineb l = true -> uline l.
Proof.
  unfold ulineb, uline. intros H. apply andb_prop in H as [H H4]. apply andb_prop in H as [H H3].
  apply andb_prop in H as [H1 H2]. apply Nat.eqb_eq in H2. apply negb_true_iff in H4. auto.
Qed.

Definition emoji : bytes := [240; 159; 152; 128]%N.              (* U+1F600, 4 bytes *)
(* "José €": 2-byte and 3-byte characters *)
Definition ux_name : bytes := [74; 111; 115; 195; 169; 32; 226; 130; 172]%N.
Definition ux_e1 : recval :=
  [ ("TransactionCode", VI 22); ("RDFIIdentification", VS (bs "23138010")); ("CheckDigit", VS (bs "4"))
  ; ("DFIAccountNumber", VS (bs "12345678")); ("Amount", VI 100000); ("IndividualName", VS ux_name)
  ; ("AddendaRecordIndicator", VI 0); ("TraceNumber", VS (bs "121042880000001")) ].
(* file header: '1', 92 'A', and a 4-byte character in column 94 *)
Definition ux_hdr : bytes := T1 :: repeat 65%N 92 ++ emoji.
Definition ux_file : fileS :=
  mkFile ux_hdr
    [ mkBatch (render L_BatchHeader tx_hdr)
        [ mkEntry (render L_EntryDetail ux_e1) []; mkEntry (render L_EntryDetail tx_e2) [ex_line T7 68%N] ]
        (render L_BatchControl tx_bctl) ]
    (render L_FileControl tx_fctl).

Lemma utf8_records_of f : forallb ulineb (record_lines f) = true -> utf8_records f.
Proof.
  intros A. unfold utf8_records. apply Forall_forall. intros l Hl. apply ulineb_spec.
  rewrite forallb_forall in A. now apply A.
Qed.

Lemma ux_file_ok :
  read_validate T (skel ux_file) = ROk /\ file_typed ux_file = true /\ starts99 (f_ctl ux_file) = false /\
  utf8_records ux_file /\ ~ ascii_records ux_file /\ asciib (f_ctl ux_file) = true /\
  fitsb L_EntryDetail ux_e1 = true /\ length (write LF_b ux_file) = 956.
Proof.
  split; [vm_compute; reflexivity|]. split; [vm_compute; reflexivity|]. split; [vm_compute; reflexivity|].
  split; [apply utf8_records_of; vm_compute; reflexivity|]. split.
  - intros H. unfold ascii_records in H. inversion H as [|? ? (_ & Ha & _) _]; subst. vm_compute in Ha. discriminate Ha.
  - split; [vm_compute; reflexivity|]. split; vm_compute; reflexivity.
Qed.

(* offsets inside multi-byte characters of the LF text: the header's 4-byte character
   occupies bytes 93..96 (line 0), the entry's é bytes 250..251, its € bytes 253..255 *)
Lemma ux_truncation_examples :
  map (fun k => verdict_code (firstn k (write LF_b ux_file))) [94; 95; 96; 251; 254; 255; 955]
  = [99; 99; 99; 99; 99; 99; 0]%Z /\
  map (fun k => List.length (read_lines (firstn k (write LF_b ux_file)))) [93; 94; 95; 96; 97; 251]
  = [1; 1; 2; 2; 1; 3] /\
  read_text (write LF_b ux_file) = Some ux_file.
Proof. vm_compute. repeat split; reflexivity. Qed.

(* a file control record with a 4-byte character in its last column (the reserved area
   is not parsed): every case of the theorem inside the control record *)
Definition uc_ctl : bytes := firstn 93 (render L_FileControl tx_fctl) ++ emoji.
Definition uc_file : fileS := with_ctl tx_file uc_ctl.

Lemma uc_file_ok :
  read_validate T (skel uc_file) = ROk /\ file_typed uc_file = true /\ starts99 (f_ctl uc_file) = false /\
  utf8_records uc_file /\ asciib (f_ctl uc_file) = false /\ length (write LF_b uc_file) = 953.
Proof.
  split; [vm_compute; reflexivity|]. split; [vm_compute; reflexivity|]. split; [vm_compute; reflexivity|].
  split; [apply utf8_records_of; vm_compute; reflexivity|]. split; vm_compute; reflexivity.
Qed.

(* the control record is line 6 (bytes 570..666), its 4-byte character bytes 663..666:
   one byte of it left: 93 characters + U+FFFD = 94, accepted with the original skeleton;
   two or three bytes left: 95 / 96 characters, the second line is an unknown record *)
Lemma uc_truncation_examples :
  map (fun k => verdict_code (firstn k (write LF_b uc_file))) [570; 571; 600; 624; 625; 663; 664; 665; 666; 667; 668]
  = [99; 16; 18; 19; 0; 0; 0; 99; 99; 0; 0]%Z /\
  read_text (firstn 664 (write LF_b uc_file)) = Some (with_ctl uc_file (cut_ctl uc_ctl 93 1)) /\
  split_at (chars uc_ctl) 94 = (93, 1) /\ split_at (chars uc_ctl) 96 = (93, 3) /\
  skel (with_ctl uc_file (cut_ctl uc_ctl 93 1)) = skel uc_file /\
  cut_ctl uc_ctl 93 1 <> uc_ctl /\
  read_text (firstn 665 (write LF_b uc_file)) = None.
Proof. vm_compute. repeat split; try reflexivity. discriminate. Qed.

(* the closed form of the characters of a prefix on a concrete string *)
Lemma prefix_chars_example :
  map (fun k => chars (firstn k ux_name)) [3; 4; 5; 7; 8; 9]
  = [ [[74]; [111]; [115]]; [[74]; [111]; [115]; U_b]; [[74]; [111]; [115]; [195; 169]]
    ; [[74]; [111]; [115]; [195; 169]; [32]; U_b]; [[74]; [111]; [115]; [195; 169]; [32]; U_b; U_b]
    ; [[74]; [111]; [115]; [195; 169]; [32]; [226; 130; 172]] ]%N /\
  forallb (fun k => Nat.eqb (List.length (chars (firstn k ux_name))) (List.length (prefix_chars ux_name k))) (seq 0 10) = true.
Proof. vm_compute. split; reflexivity. Qed.

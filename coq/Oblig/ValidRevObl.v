(* Phase 2 obligations for C13: the standard-code list of the reversal tables is accepted
   by the validator's tables (re-evaluated on every run), instances of the theorems of
   ValidReversalFacts at the regenerated tables, non-vacuity examples. *)
From Coq Require Import ZArith NArith List Bool Lia.
Import ListNotations.
From ACH Require Import ValidOut ValidOutFacts Tables C03Obl.
From ACH Require Import Bytes TxCodes RevTable Reversal ReversalFacts ReversalTable C13Obl.
From ACH Require Import ValidReversal ValidReversalFacts.
Open Scope Z_scope.

Notation GA := gen_tables.

Lemma gen_rev_tables_agree : rev_tables_agree GA RT = true.
Proof. vm_compute. reflexivity. Qed.

Lemma c13_batch_arith_valid ep d bp b :
  AR.validate_batch GA (r_batch ep bp b) = AR.ROk -> all_reversible RT b = true ->
  AR.validate_batch GA (r_batch ep bp (reversal_batch RT d b)) = AR.ROk.
Proof. apply reversal_batch_arith_valid; [apply gen_tables_ok|apply RT_ok|apply gen_rev_tables_agree]. Qed.

Lemma c13_file_arith_valid ep d t bps f :
  length bps = length (rf_batches f) -> rf_batches f <> [] ->
  AR.validate_file GA (r_file GA ep bps f) = AR.ROk ->
  forallb (all_reversible RT) (rf_batches f) = true ->
  exists f', reversal_file RT d t f = ROk f' /\ AR.validate_file GA (r_file GA ep bps f') = AR.ROk.
Proof. apply reversal_file_arith_valid; [apply gen_tables_ok|apply RT_ok|apply gen_rev_tables_agree]. Qed.

(* payload preservation: the skeleton entry of a reversed entry is the skeleton entry of the
   original with the transaction code replaced — routing number, check digit, trace string,
   addenda count and amount are the original's *)
Lemma c13_payload_preserved ep e :
  r_entry ep (rev_entry (rt_arms RT) e) = recode (rev_code (rt_arms RT)) (r_entry ep e).
Proof. reflexivity. Qed.

Lemma c13_batch_payload_preserved ep d bp b :
  let b' := r_batch ep bp (reversal_batch RT d b) in
  let b0 := r_batch ep bp b in
  AR.bt_odfi b' = AR.bt_odfi b0 /\ AR.bt_number b' = AR.bt_number b0 /\
  AR.bc_count (AR.bt_ctl b') = AR.bc_count (AR.bt_ctl b0) /\ AR.bc_hash (AR.bt_ctl b') = AR.bc_hash (AR.bt_ctl b0) /\
  AR.bc_odfi (AR.bt_ctl b') = AR.bc_odfi (AR.bt_ctl b0) /\ AR.bc_number (AR.bt_ctl b') = AR.bc_number (AR.bt_ctl b0) /\
  AR.bc_debit (AR.bt_ctl b') = AR.bc_credit (AR.bt_ctl b0) /\ AR.bc_credit (AR.bt_ctl b') = AR.bc_debit (AR.bt_ctl b0) /\
  AR.bt_entries b' = map (recode (rev_code (rt_arms RT))) (AR.bt_entries b0).
Proof.
  cbv zeta. unfold reversal_batch. destruct (entry_flags (rt_arms RT) (rb_entries b)) as [hc hd].
  destruct (match apply_fixups (rt_fix RT) hc hd with Some p => p | None => (rb_scc_h b, rb_scc_c b) end) as [sh sc].
  cbn [r_batch rb_entries rb_debit rb_credit AR.bt_odfi AR.bt_number AR.bt_ctl AR.bt_entries
       AR.bc_count AR.bc_hash AR.bc_odfi AR.bc_number AR.bc_debit AR.bc_credit].
  repeat split; try reflexivity. rewrite !map_map. apply map_ext. reflexivity.
Qed.

(* ---- non-vacuity: the debits-only batch of C13Obl (loan debit 55, checking debit 27) with
   routing numbers / traces as payload; its reversal is the credits-only batch 52 / 22 ---- *)

Definition dsb (l : list Z) : bytes := map (fun d => (48 + Z.to_N d)%N) l.

Definition ex_ep (id tr : N) : rpay :=
  match id with
  | 1%N => mkrpay (dsb [2;3;1;3;8;0;1;0]) (dsb [4]) (dsb [1;2;1;0;4;2;8;8;0;0;0;0;0;0;1]) 0
  | 2%N => mkrpay (dsb [1;2;1;0;4;2;8;8]) (dsb [2]) (dsb [1;2;1;0;4;2;8;8;0;0;0;0;0;0;2]) 1
  | 3%N => mkrpay (dsb [2;3;1;3;8;0;1;0]) (dsb [4]) (dsb [1;2;1;0;4;2;8;8;0;0;0;0;0;0;3]) 0
  | _ => mkrpay (dsb [1;2;1;0;4;2;8;8]) (dsb [2]) (dsb [1;2;1;0;4;2;8;8;0;0;0;0;0;0;4]) 0
  end.
Definition ex_odfi := dsb [1;2;1;0;4;2;8;8].
Definition ex_bp1 := mkbpay ex_odfi 1 3 35242298 ex_odfi 1.
Definition ex_bp2 := mkbpay ex_odfi 2 2 35242298 ex_odfi 2.

Lemma ex_rev_hyps :
  AR.validate_batch GA (r_batch ex_ep ex_bp1 ex_batch) = AR.ROk /\ all_reversible RT ex_batch = true /\
  AR.validate_file GA (r_file GA ex_ep [ex_bp1; ex_bp2] ex_file) = AR.ROk /\
  forallb (all_reversible RT) (rf_batches ex_file) = true.
Proof. vm_compute. repeat split; reflexivity. Qed.

Lemma ex_rev_valid :
  AR.validate_batch GA (r_batch ex_ep ex_bp1 (reversal_batch RT [50]%N ex_batch)) = AR.ROk /\
  map AR.en_code (AR.bt_entries (r_batch ex_ep ex_bp1 (reversal_batch RT [50]%N ex_batch))) = [52; 22] /\
  AR.bt_class (r_batch ex_ep ex_bp1 (reversal_batch RT [50]%N ex_batch)) = 220.
Proof. vm_compute. repeat split; reflexivity. Qed.

(* Reversal that forgets to swap the totals is refused by the same validator *)
Lemma ex_rev_unswapped_refused :
  let b' := reversal_batch RT [50]%N ex_batch in
  AR.validate_batch GA (r_batch ex_ep ex_bp1 (mkrbatch (rb_scc_h b') (rb_scc_c b') (rb_desc b') (rb_date b')
                                                     (rb_debit ex_batch) (rb_credit ex_batch) (rb_entries b'))) = AR.RDebit.
Proof. vm_compute. reflexivity. Qed.

(* C07 (phase 2) obligations: the file-tree round trip on the tables regenerated from the
   current source (Gen/JsonTags.v, Gen/JsonPost.v, Gen/Layouts.v, Gen/WriterOrder.v,
   Gen/OffsetTable.v), non-vacuity witnesses and refuted statements. *)
From Coq Require Import String Ascii List Bool ZArith NArith Lia.
Import ListNotations.
From ACH Require Import Bytes JsonCodec JsonCodecFacts JsonSurvive JsonPostTable Layout LayoutOk FileStruct JsonFile JsonFileFacts JsonFileCurrent.
From ACH Require Import JsonTags JsonPost Offsets OffsetTable Layouts WriterOrderTypes WriterOrder C07Obl.
Local Open Scope string_scope.
Local Open Scope list_scope.

(* ------------------------------------------------------------ the regenerated tables are what the model assumes *)

Lemma post_table_checked : post_table_ok json_post_table = true.
Proof. vm_compute. reflexivity. Qed.

(* ConvertBatchType on the current source: BatchXXX for each of its SEC codes, Batch otherwise *)
Lemma convert_type_current sec :
  convert_type json_post_table sec =
  (if existsb (fun p => String.eqb sec (fst p)) (pt_convert json_post_table) then "Batch" ++ sec else "Batch")%string.
Proof.
  apply convert_type_sound.
  pose proof post_table_checked as H. unfold post_table_ok in H.
  repeat (apply andb_prop in H as [H ?]). assumption.
Qed.

(* every addenda field of the two entry structs gets its type code inferred (nothing dropped from set…RecordType) *)
Definition addenda_fields (t : ty) : list string :=
  flat_map (fun mf => if String.prefix "Addenda" (f_name (fst mf)) && is_node_ty (snd mf) then [f_name (fst mf)] else [])
           (struct_fields t).

Definition struct_named (n : string) : option ty :=
  match find (fun p => String.eqb (fst p) n) json_structs with Some p => Some (snd p) | None => None end.

Lemma typecodes_complete :
  map fst (pt_typecodes json_post_table) = ["EntryDetail"; "IATEntryDetail"] /\
  forallb (fun e => match struct_named (fst e) with
                    | Some t => forallb (fun f => existsb (fun p => String.eqb f (fst p)) (snd e)) (addenda_fields t)
                                && negb (Nat.eqb (length (addenda_fields t)) 0)
                    | None => false
                    end) (pt_typecodes json_post_table) = true.
Proof. vm_compute. split; reflexivity. Qed.

(* the removal loop of upsertOffsets removes every OFFSET entry (slice Entries[i+1:], followed by i--) *)
Lemma offset_loop_shape : (match t_tail offset_table with TailSucc => true | _ => false end) && t_redo offset_table && negb (t_unknown offset_table) = true.
Proof. vm_compute. reflexivity. Qed.

(* hidden + kept fields are exactly the excused fields of C07_tags_ok_partial *)
Lemma excused_partition :
  forallb (fun p => inb p excused) (hid_fields ++ keep_fields) = true /\
  forallb (fun p => inb p (hid_fields ++ keep_fields)) excused = true /\
  forallb (fun p => negb (inb p keep_fields)) hid_fields = true.
Proof. vm_compute. repeat split; reflexivity. Qed.

Lemma file_covers : covers hid_fields keep_fields (problems T_File (start T_File)) = true.
Proof. vm_compute. reflexivity. Qed.

(* ---- every field a record line is made of is serialised, or one of the kept excused fields *)

Definition scalar_ty (t : ty) : bool := match t with TStr | TInt | TBool => true | _ => false end.

(* written by json.Marshal and read back by the decoder under the same key, as a scalar *)
Definition serialised (n f : string) : bool :=
  match struct_named n with
  | Some (TStruct _ fs) =>
      existsb (fun mf => String.eqb (f_name (fst mf)) f && survives_key (fst mf) && scalar_ty (snd mf)) fs
  | _ => false
  end.

Definition rendered_ok (L : layout) : bool :=
  match struct_named (l_name L) with
  | Some _ =>
      forallb (fun f => negb (inb (l_name L, f) hid_fields)
                        && (serialised (l_name L) f || inb (l_name L, f) keep_fields)) (layout_reads L)
  | None => false
  end.

Lemma rendered_fields_serialised : forallb rendered_ok all_layouts = true.
Proof. vm_compute. reflexivity. Qed.

(* the kept fields are exactly the excused fields some layout reads *)
Lemma keep_fields_rendered :
  forallb (fun p => existsb (fun L => String.eqb (l_name L) (fst p) && existsb (String.eqb (snd p)) (layout_reads L)) all_layouts) keep_fields = true.
Proof. vm_compute. reflexivity. Qed.

(* ---- the writer's record order is the one [lines] uses *)

Definition addenda_name (n : wnode) : string :=
  match n with
  | WLine x => String.substring 6 (String.length x - 6) x
  | WLoop _ over [WLine _] => String.substring 6 (String.length over - 6) over
  | _ => "?"
  end.

Definition entry_loop_names (n : wnode) : list string :=
  match n with
  | WLoop _ _ (WLine _ :: rest) => map addenda_name rest
  | _ => ["?"]
  end.

Lemma writer_addenda_order :
  match writer_writeBatch with
  | [WLoop _ _ [_; WIf _ [l1] [l2]; _]] =>
      entry_loop_names l1 = std_addenda /\ entry_loop_names l2 = adv_entry_order
  | _ => False
  end /\
  match writer_writeIATBatch with
  | [WLoop _ _ [_; l; _]] => entry_loop_names l = iat_addenda
  | _ => False
  end /\
  writer_order_ok writer_Write writer_writeBatch writer_writeIATBatch = true.
Proof. vm_compute. repeat split; reflexivity. Qed.

Lemma fc_layout_checked fhv bhv fv : fc_layout_ok all_layouts (env_cur fhv bhv fv) = true.
Proof. vm_compute. reflexivity. Qed.

Lemma constructor_nodes :
  rname new_file_control = "FileControl" /\ rname new_batch_control = "BatchControl" /\
  rname new_adv_batch_control = "ADVBatchControl" /\ rname zero_adv_file_control = "ADVFileControl" /\
  rname new_entry_detail = "EntryDetail".
Proof. vm_compute. repeat split; reflexivity. Qed.

(* ------------------------------------------------------------ the round trip on the current source *)

Lemma write_of_lines a b : lines_cur a = lines_cur b -> write_cur a = write_cur b.
Proof. unfold write_cur, write_rt, lines_cur. intros ->. reflexivity. Qed.

(* what comes back from JSON has the tree of what was written *)
Lemma tree_roundtrip v :
  typed T_File v = true -> keep_ok v = true ->
  tree_of_file (dec T_File (start T_File) (to_json v)) = tree_of_file v.
Proof.
  intros Hv Hk. unfold tree_of_file, hidp_cur, to_json.
  apply (view_roundtrip hid_fields keep_fields T_File (start T_File) v);
    [exact file_type_wf | exact file_start_typed | exact Hv | exact file_covers | exact Hk].
Qed.

Theorem roundtrip_partial fhv bhv fv passed v :
  typed T_File v = true ->
  keep_ok v = true ->
  ready (env_cur fhv bhv fv) passed (tree_of_file v) = true ->
  exists f, pres_tree (from_json fhv bhv fv passed (to_json v)) = Some f
            /\ (fv f = true -> from_json fhv bhv fv passed (to_json v) = POk f)
            /\ lines_cur f = lines_cur (tree_of_file v)
            /\ write_cur f = write_cur (tree_of_file v).
Proof.
  intros Hv Hk Hr. pose proof (tree_roundtrip v Hv Hk) as R.
  destruct (post_ready all_layouts (env_cur fhv bhv fv) passed (tree_of_file v) (fc_layout_checked fhv bhv fv) Hr)
    as (f & H1 & H2 & H3).
  unfold from_json, post_cur. unfold tree_of_file in R at 1. rewrite R.
  exists f. split; [exact H1|]. split; [exact H2|]. split; [exact H3|]. apply write_of_lines. exact H3.
Qed.

(* ------------------------------------------------------------ options *)

Lemma opts_passed_override fields passed from_json_opts :
  passed <> [] -> final_opts fields passed from_json_opts = passed.
Proof. destruct passed; [congruence | reflexivity]. Qed.

Lemma opts_nil_passed fields from_json_opts : final_opts fields [] from_json_opts = from_json_opts.
Proof. reflexivity. Qed.

(* ------------------------------------------------------------ timestamps *)

Definition B (s : string) : bytes := bstr s.

Example datetime_own_zone :
  option_map (fun t => (fmt_date t, fmt_time t)) (datetime_parse (B "2019-09-23T21:50:52-07:00")) = Some (B "190923", B "2150")
  /\ option_map (fun t => (fmt_date t, fmt_time t)) (datetime_parse (B "2021-01-31T23:59:00+05:30")) = Some (B "210131", B "2359")
  /\ option_map fmt_time (datetime_parse (B "2023-03-05T7:08:09Z")) = Some (B "0708")
  /\ option_map fmt_date (datetime_parse (B "2024-02-29T12:30:45.123Z")) = Some (B "240229")
  /\ datetime_parse (B "2021-02-29T10:00:00Z") = None
  /\ datetime_parse (B "0001-01-01T01:00:00+01:00") = None
  /\ datetime_parse (B "2020-01-01T00:00:00") = None
  /\ datetime_parse (B "190923") = None.
Proof. vm_compute. repeat split; reflexivity. Qed.

(* ------------------------------------------------------------ non-vacuity: a generated BOC file *)

Definition witness_file : val :=
VRec [VStr [];
 VRec [VStr [];
 VStr [48; 49]%N;
 VStr [55; 49; 50; 52; 49; 51; 57; 56; 53]%N;
 VStr [51; 51; 49; 51; 50; 55; 52; 51; 57]%N;
 VStr [50; 49; 49; 50; 51; 49]%N;
 VStr [48; 48; 48; 48]%N;
 VStr [87]%N;
 VStr [48; 57; 52]%N;
 VStr [49; 48]%N;
 VStr [49]%N;
 VStr [97; 80; 123]%N;
 VStr [106; 55; 118; 37; 123; 47; 45; 32; 122; 56; 102; 121; 32; 115; 57; 87; 49; 32; 32; 54; 64; 32; 52]%N;
 VStr [];
 VInt (0);
 VRec [];
 VRec [];
 VNil];
 VArr [VRec [VStr [];
 VRec [VStr [];
 VInt (200);
 VStr [85]%N;
 VStr [53; 48; 52; 71; 48; 118; 50; 121; 120; 89; 32; 79; 110; 68]%N;
 VStr [87; 87; 67]%N;
 VStr [66; 79; 67]%N;
 VStr [51; 76; 32; 54; 32; 106; 57; 121; 32; 71]%N;
 VStr [65; 85; 71; 32; 49; 54]%N;
 VStr [50; 51; 48; 54; 51; 48]%N;
 VStr [];
 VInt (1);
 VStr [53; 54; 55; 50; 55; 52; 52; 50]%N;
 VInt (1);
 VInt (0);
 VRec [];
 VRec [];
 VNil];
 VArr [VRec [VStr [];
 VInt (37);
 VStr [52; 55; 53; 53; 51; 54; 50; 48]%N;
 VStr [54]%N;
 VStr [69]%N;
 VInt (5156);
 VStr [54; 45]%N;
 VStr [39; 113; 54; 106; 109]%N;
 VStr [52]%N;
 VInt (0);
 VStr [53; 54; 55; 50; 55; 52; 52; 50; 48; 48; 48; 48; 48; 48; 49]%N;
 VNil;
 VArr [];
 VNil;
 VNil;
 VNil;
 VNil;
 VNil;
 VStr [70; 111; 114; 119; 97; 114; 100]%N;
 VInt (0);
 VRec [];
 VRec [];
 VNil]];
 VRec [VStr [];
 VInt (200);
 VInt (1);
 VInt (47553620);
 VInt (5156);
 VInt (0);
 VStr [87; 87; 67]%N;
 VStr [];
 VStr [53; 54; 55; 50; 55; 52; 52; 50]%N;
 VInt (1);
 VInt (0);
 VRec [];
 VRec [];
 VNil];
 VArr [];
 VNil;
 VNil;
 VStr [70; 111; 114; 119; 97; 114; 100]%N;
 VRec [];
 VNil]];
 VArr [];
 VRec [VStr [];
 VInt (1);
 VInt (1);
 VInt (1);
 VInt (47553620);
 VInt (5156);
 VInt (0);
 VInt (0);
 VRec [];
 VRec []];
 VRec [VStr [];
 VInt (0);
 VInt (0);
 VInt (0);
 VInt (0);
 VInt (0);
 VInt (0);
 VInt (0);
 VRec [];
 VRec []];
 VArr [];
 VArr [];
 VNil]
.

Definition S (ls : list bytes) : list string := map (fun l => string_of_list_ascii (map ascii_of_N l)) ls.

Example witness_ready :
  typed T_File witness_file = true /\ keep_ok witness_file = true /\
  ready (env_cur (fun _ _ => true) (fun _ _ => true) (fun _ => true)) [] (tree_of_file witness_file) = true /\
  length (lines_cur (tree_of_file witness_file)) = 5%nat /\
  match from_json_run true [] (to_json witness_file) with
  | POk f => write_cur f = write_cur (tree_of_file witness_file)
  | _ => False
  end.
Proof. vm_compute. repeat split; reflexivity. Qed.

(* ------------------------------------------------------------ refuted without the CTX/ATX condition (known finding json:catx:zero-addenda-records) *)

Definition catx_witness : val :=
VRec [VStr [];
 VRec [VStr [];
 VStr [48; 49]%N;
 VStr [48; 49; 56; 55; 48; 49; 57; 49; 57]%N;
 VStr [48; 53; 49; 56; 48; 51; 54; 52; 57]%N;
 VStr [49; 57; 48; 56; 49; 54]%N;
 VStr [48; 48; 48; 48]%N;
 VStr [51]%N;
 VStr [48; 57; 52]%N;
 VStr [49; 48]%N;
 VStr [49]%N;
 VStr [195; 190; 195; 132; 96; 52; 80; 82; 80; 114; 109; 106; 113; 100; 71; 89; 85; 32; 74; 51; 97; 195; 188; 68; 195; 144; 83]%N;
 VStr [195; 145; 32; 111; 32; 41; 119; 80; 32; 113; 54; 102; 37; 51]%N;
 VStr [];
 VInt (0);
 VRec [];
 VRec [];
 VNil];
 VArr [VRec [VStr [];
 VRec [VStr [];
 VInt (220);
 VStr [119; 116]%N;
 VStr [98; 101; 48; 195; 175; 51; 55; 56; 195; 152; 117; 42; 48; 50; 32; 32; 71; 94]%N;
 VStr [50; 54; 48; 54; 54; 51; 50; 49; 52]%N;
 VStr [67; 84; 88]%N;
 VStr [65; 93]%N;
 VStr [83; 68; 49; 51; 48; 48]%N;
 VStr [50; 48; 48; 50; 50; 57]%N;
 VStr [];
 VInt (1);
 VStr [51; 57; 50; 57; 52; 52; 56; 55]%N;
 VInt (1);
 VInt (0);
 VRec [];
 VRec [];
 VNil];
 VArr [VRec [VStr [];
 VInt (42);
 VStr [51; 48; 49; 48; 54; 54; 53; 49]%N;
 VStr [48]%N;
 VStr [77; 195; 132; 32; 32; 73; 69; 32; 195; 155; 86; 78; 55; 55; 51; 54; 47; 55; 79]%N;
 VInt (30951);
 VStr [195; 171; 68]%N;
 VStr [48; 48; 48; 48; 106; 100; 55; 32; 48; 74; 52; 52; 65; 96; 57; 56; 55; 32; 54; 52; 32; 32]%N;
 VStr [195; 129]%N;
 VInt (0);
 VStr [51; 57; 50; 57; 52; 52; 56; 55; 48; 48; 48; 48; 48; 48; 49]%N;
 VNil;
 VArr [];
 VNil;
 VNil;
 VNil;
 VNil;
 VNil;
 VStr [70; 111; 114; 119; 97; 114; 100]%N;
 VInt (0);
 VRec [];
 VRec [];
 VNil]];
 VRec [VStr [];
 VInt (220);
 VInt (1);
 VInt (30106651);
 VInt (0);
 VInt (30951);
 VStr [50; 54; 48; 54; 54; 51; 50; 49; 52]%N;
 VStr [];
 VStr [51; 57; 50; 57; 52; 52; 56; 55]%N;
 VInt (1);
 VInt (0);
 VRec [];
 VRec [];
 VNil];
 VArr [];
 VNil;
 VNil;
 VStr [70; 111; 114; 119; 97; 114; 100]%N;
 VRec [];
 VNil]];
 VArr [];
 VRec [VStr [];
 VInt (1);
 VInt (1);
 VInt (1);
 VInt (30106651);
 VInt (0);
 VInt (30951);
 VInt (0);
 VRec [];
 VRec []];
 VRec [VStr [];
 VInt (0);
 VInt (0);
 VInt (0);
 VInt (0);
 VInt (0);
 VInt (0);
 VInt (0);
 VRec [];
 VRec []];
 VArr [];
 VArr [];
 VNil]
.

Definition ready_but_catx (E : penv) (passed : list rtree) (d : rtree) : bool :=
  let o := final_opts (pe_merge_fields E) passed (kid d "validateOpts") in
  negb (is_adv_file d)
  && forallb has_header (kid d "Batches")
  && forallb (fun b => forallb (addenda_typed (codes_for (pe_table E) "EntryDetail")) (kid b "Entries")) (kid d "Batches")
  && forallb (batch_built E o) (kid d "Batches")
  && dates_short d && numbered "Control" 1 (kid d "Batches") && fc_matches E d && create_gate E o d.

Lemma roundtrip_catx_refuted :
  exists v,
    typed T_File v = true /\ keep_ok v = true /\
    ready_but_catx (env_cur (fun _ _ => true) (fun _ _ => true) (fun _ => true)) [] (tree_of_file v) = true /\
    match from_json_run true [] (to_json v) with
    | POk f | PInvalid f => lines_cur f <> lines_cur (tree_of_file v)
    | PErr _ => True
    end.
Proof.
  exists catx_witness. split; [vm_compute; reflexivity|]. split; [vm_compute; reflexivity|].
  split; [vm_compute; reflexivity|]. vm_compute. discriminate.
Qed.

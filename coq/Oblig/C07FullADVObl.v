(* C07 (phase 7) obligations: ADV files in the file-level round trip under EXPLICIT readiness conditions
   (Model/JsonFullADV.v), the regenerated ADV statements of the source (Gen/JsonADV.v), File.UnmarshalJSON,
   non-vacuity witnesses (forward advices, returned advices, an ADV file valid only under stored options) and one
   refuted statement per hypothesis that is needed. *)
From Coq Require Import String Ascii List Bool ZArith NArith Lia.
Import ListNotations.
From ACH Require Import Bytes JsonCodec JsonCodecFacts JsonSurvive JsonPostTable Layout LayoutOk FileStruct JsonFile JsonFileFacts JsonFileCurrent.
From ACH Require Import JsonTags JsonPost Offsets OffsetTable Layouts RecValid RecValidFacts RecRules C07Obl C07FileObl.
From ACH Require Import JsonDefaultsTable JsonDefaults JsonFull JsonFullFacts JsonKeepFacts C07FullObl JsonFullADV JsonFullADVFacts JsonADV.
Local Open Scope string_scope.
Local Open Scope list_scope.

(* ------------------------------------------------------------ the regenerated ADV statements *)

Lemma adv_src_checked : adv_src_ok json_adv_src = true.
Proof. vm_compute. reflexivity. Qed.

(* ------------------------------------------------------------ the theorem *)

Theorem roundtrip_adv fhv bhv fv v :
  typed T_File v = true ->
  in_domain v = true -> valid fhv bhv fv v = true -> adv_tabulated fhv bhv fv v = true -> a98_clean v = true ->
  is_adv_value v = true /\
  exists f, from_json fhv bhv fv [] (to_json v) = (if fv f then POk f else PInvalid f)
            /\ lines_full f = lines_full (tree_full v)
            /\ write_full f = write_full (tree_full v)
            /\ file_opts f = file_opts (tree_of_file v)
            /\ header_opts f = [file_opts (tree_of_file v)]
            /\ offsets_of f = offsets_of (tree_of_file v).
Proof.
  intros Hv Hd Hval Ht Ha. destruct (adv_tabulated_tabulated fhv bhv fv v Ht) as [Hadv Htab].
  split; [exact Hadv|].
  apply (roundtrip_final fhv bhv fv v Hv Hd Hval Htab).
  unfold json_safe. rewrite Ha. cbn [andb]. apply catx_clean_adv. exact (adv_tabulated_all_adv fhv bhv fv v Ht).
Qed.

(* the same through File.UnmarshalJSON on a receiver without options *)
Corollary unmarshal_roundtrip_adv fhv bhv fv v :
  typed T_File v = true ->
  in_domain v = true -> valid fhv bhv fv v = true -> adv_tabulated fhv bhv fv v = true -> a98_clean v = true ->
  exists f, unmarshal_file fhv bhv fv [] (to_json v) = (if fv f then POk f else PInvalid f)
            /\ write_full f = write_full (tree_full v)
            /\ file_opts f = file_opts (tree_of_file v).
Proof.
  intros Hv Hd Hval Ht Ha. rewrite unmarshal_own_opts.
  destruct (roundtrip_adv fhv bhv fv v Hv Hd Hval Ht Ha) as (_ & f & H1 & _ & H3 & H4 & _).
  exists f. exact (conj H1 (conj H3 H4)).
Qed.

(* ------------------------------------------------------------ witnesses (generated: c07 advwitness) *)

Definition advret_witness : val :=
VRec [VStr [];
 VRec [VStr [];
 VStr [48; 49]%N;
 VStr [54; 49; 55; 51; 52; 56; 53; 52; 48]%N;
 VStr [51; 49; 54; 55; 55; 57; 49; 53; 56]%N;
 VStr [50; 53; 48; 49; 48; 50]%N;
 VStr [49; 48; 53; 53]%N;
 VStr [85]%N;
 VStr [48; 57; 52]%N;
 VStr [49; 48]%N;
 VStr [49]%N;
 VStr [34; 58; 72; 61; 51; 47; 88; 73]%N;
 VStr [89; 76; 63; 57; 59; 32; 32; 32; 32; 43; 53; 78; 75; 52]%N;
 VStr [];
 VInt (0);
 VRec [];
 VRec [];
 VNil];
 VArr [VRec [VStr [];
 VRec [VStr [];
 VInt (280);
 VStr [52; 49; 56; 46; 66; 119; 32; 111; 32; 32; 70]%N;
 VStr [111; 62; 49; 53; 79; 74; 112; 121; 107; 87; 44; 32; 53; 32; 49]%N;
 VStr [55; 56; 48; 51; 50; 57; 57; 50; 57]%N;
 VStr [65; 68; 86]%N;
 VStr [54; 84; 48; 55; 68; 54; 68; 51; 106; 112]%N;
 VStr [50; 52; 48; 50; 50; 57]%N;
 VStr [50; 49; 49; 50; 51; 49]%N;
 VStr [];
 VInt (0);
 VStr [52; 55; 57; 52; 54; 53; 56; 51]%N;
 VInt (1);
 VInt (0);
 VRec [];
 VRec [];
 VNil];
 VArr [];
 VRec [VStr [];
 VInt (200);
 VInt (0);
 VInt (1);
 VInt (0);
 VInt (0);
 VStr [];
 VStr [];
 VStr [];
 VInt (1);
 VInt (0);
 VRec [];
 VRec [];
 VNil];
 VArr [VRec [VStr [];
 VInt (85);
 VStr [54; 48; 57; 51; 55; 56; 49; 48]%N;
 VStr [52]%N;
 VStr [88; 32; 70]%N;
 VInt (13);
 VStr [56; 54; 55; 53; 48; 57; 50; 57; 52]%N;
 VStr [];
 VStr [];
 VStr [49; 75; 104; 32; 57; 32; 90; 72; 55; 105; 97; 108; 88; 32; 82; 117; 87; 49; 48]%N;
 VStr [];
 VInt (1);
 VStr [57; 48; 54; 48; 50; 56; 56; 48]%N;
 VInt (1);
 VInt (1);
 VRec [VStr [];
 VStr [57; 57]%N;
 VStr [82; 48; 57]%N;
 VStr [48; 48; 54; 51; 55; 54; 53; 54; 52; 57; 55; 49; 51; 57; 50]%N;
 VStr [];
 VStr [51; 54; 51; 54; 50; 50; 51; 50]%N;
 VStr [57; 76; 44; 32; 43; 99; 103; 32; 49; 76; 104; 51; 48; 87; 33; 51; 114; 107; 122; 60; 32; 107; 105; 52; 48; 32; 32; 70; 32; 122; 32; 74; 89; 37; 106; 72; 47; 46; 113; 32; 116; 111; 108; 82]%N;
 VStr [52; 55; 57; 52; 54; 53; 56; 51; 48; 48; 48; 48; 48; 48; 49]%N;
 VInt (0);
 VRec [];
 VRec [];
 VNil];
 VStr [82; 101; 116; 117; 114; 110]%N;
 VInt (0);
 VRec [];
 VRec [];
 VNil];
 VRec [VStr [];
 VInt (85);
 VStr [51; 53; 54; 56; 48; 53; 54; 52]%N;
 VStr [53]%N;
 VStr [69; 53; 55; 35; 47; 45; 54; 65]%N;
 VInt (87);
 VStr [55; 52; 54; 51; 49; 57; 48; 51; 57]%N;
 VStr [];
 VStr [];
 VStr [54; 56; 67; 102; 74; 46; 47; 57; 32; 51; 32; 32; 48; 32; 98; 83; 52]%N;
 VStr [];
 VInt (1);
 VStr [49; 50; 54; 56; 53; 51; 52; 53]%N;
 VInt (1);
 VInt (2);
 VRec [VStr [];
 VStr [57; 57]%N;
 VStr [82; 49; 57]%N;
 VStr [54; 55; 50; 49; 54; 52; 56; 48; 55; 57; 52; 52; 48; 57; 55]%N;
 VStr [];
 VStr [53; 57; 52; 50; 50; 51; 48; 50]%N;
 VStr [52; 48; 57; 32; 50; 104; 80; 82; 89]%N;
 VStr [52; 55; 57; 52; 54; 53; 56; 51; 48; 48; 48; 48; 48; 48; 50]%N;
 VInt (0);
 VRec [];
 VRec [];
 VNil];
 VStr [82; 101; 116; 117; 114; 110]%N;
 VInt (0);
 VRec [];
 VRec [];
 VNil]];
 VRec [VStr [];
 VInt (280);
 VInt (4);
 VInt (96618374);
 VInt (0);
 VInt (100);
 VStr [52; 49; 56; 46; 66; 119; 32; 111; 32; 32; 70]%N;
 VStr [52; 55; 57; 52; 54; 53; 56; 51]%N;
 VInt (1);
 VInt (0);
 VRec [];
 VRec [];
 VNil];
 VNil;
 VStr [82; 101; 116; 117; 114; 110]%N;
 VRec [];
 VNil]];
 VArr [];
 VRec [VStr [];
 VInt (0);
 VInt (0);
 VInt (0);
 VInt (0);
 VInt (0);
 VInt (0);
 VInt (0);
 VRec [];
 VRec []];
 VRec [VStr [];
 VInt (1);
 VInt (1);
 VInt (4);
 VInt (96618374);
 VInt (0);
 VInt (100);
 VInt (0);
 VRec [];
 VRec []];
 VArr [];
 VArr [VRec [VStr [];
 VRec [VStr [];
 VInt (280);
 VStr [52; 49; 56; 46; 66; 119; 32; 111; 32; 32; 70]%N;
 VStr [111; 62; 49; 53; 79; 74; 112; 121; 107; 87; 44; 32; 53; 32; 49]%N;
 VStr [55; 56; 48; 51; 50; 57; 57; 50; 57]%N;
 VStr [65; 68; 86]%N;
 VStr [54; 84; 48; 55; 68; 54; 68; 51; 106; 112]%N;
 VStr [50; 52; 48; 50; 50; 57]%N;
 VStr [50; 49; 49; 50; 51; 49]%N;
 VStr [];
 VInt (0);
 VStr [52; 55; 57; 52; 54; 53; 56; 51]%N;
 VInt (1);
 VInt (0);
 VRec [];
 VRec [];
 VNil];
 VArr [];
 VRec [VStr [];
 VInt (200);
 VInt (0);
 VInt (1);
 VInt (0);
 VInt (0);
 VStr [];
 VStr [];
 VStr [];
 VInt (1);
 VInt (0);
 VRec [];
 VRec [];
 VNil];
 VArr [VRec [VStr [];
 VInt (85);
 VStr [54; 48; 57; 51; 55; 56; 49; 48]%N;
 VStr [52]%N;
 VStr [88; 32; 70]%N;
 VInt (13);
 VStr [56; 54; 55; 53; 48; 57; 50; 57; 52]%N;
 VStr [];
 VStr [];
 VStr [49; 75; 104; 32; 57; 32; 90; 72; 55; 105; 97; 108; 88; 32; 82; 117; 87; 49; 48]%N;
 VStr [];
 VInt (1);
 VStr [57; 48; 54; 48; 50; 56; 56; 48]%N;
 VInt (1);
 VInt (1);
 VRec [VStr [];
 VStr [57; 57]%N;
 VStr [82; 48; 57]%N;
 VStr [48; 48; 54; 51; 55; 54; 53; 54; 52; 57; 55; 49; 51; 57; 50]%N;
 VStr [];
 VStr [51; 54; 51; 54; 50; 50; 51; 50]%N;
 VStr [57; 76; 44; 32; 43; 99; 103; 32; 49; 76; 104; 51; 48; 87; 33; 51; 114; 107; 122; 60; 32; 107; 105; 52; 48; 32; 32; 70; 32; 122; 32; 74; 89; 37; 106; 72; 47; 46; 113; 32; 116; 111; 108; 82]%N;
 VStr [52; 55; 57; 52; 54; 53; 56; 51; 48; 48; 48; 48; 48; 48; 49]%N;
 VInt (0);
 VRec [];
 VRec [];
 VNil];
 VStr [82; 101; 116; 117; 114; 110]%N;
 VInt (0);
 VRec [];
 VRec [];
 VNil];
 VRec [VStr [];
 VInt (85);
 VStr [51; 53; 54; 56; 48; 53; 54; 52]%N;
 VStr [53]%N;
 VStr [69; 53; 55; 35; 47; 45; 54; 65]%N;
 VInt (87);
 VStr [55; 52; 54; 51; 49; 57; 48; 51; 57]%N;
 VStr [];
 VStr [];
 VStr [54; 56; 67; 102; 74; 46; 47; 57; 32; 51; 32; 32; 48; 32; 98; 83; 52]%N;
 VStr [];
 VInt (1);
 VStr [49; 50; 54; 56; 53; 51; 52; 53]%N;
 VInt (1);
 VInt (2);
 VRec [VStr [];
 VStr [57; 57]%N;
 VStr [82; 49; 57]%N;
 VStr [54; 55; 50; 49; 54; 52; 56; 48; 55; 57; 52; 52; 48; 57; 55]%N;
 VStr [];
 VStr [53; 57; 52; 50; 50; 51; 48; 50]%N;
 VStr [52; 48; 57; 32; 50; 104; 80; 82; 89]%N;
 VStr [52; 55; 57; 52; 54; 53; 56; 51; 48; 48; 48; 48; 48; 48; 50]%N;
 VInt (0);
 VRec [];
 VRec [];
 VNil];
 VStr [82; 101; 116; 117; 114; 110]%N;
 VInt (0);
 VRec [];
 VRec [];
 VNil]];
 VRec [VStr [];
 VInt (280);
 VInt (4);
 VInt (96618374);
 VInt (0);
 VInt (100);
 VStr [52; 49; 56; 46; 66; 119; 32; 111; 32; 32; 70]%N;
 VStr [52; 55; 57; 52; 54; 53; 56; 51]%N;
 VInt (1);
 VInt (0);
 VRec [];
 VRec [];
 VNil];
 VNil;
 VStr [82; 101; 116; 117; 114; 110]%N;
 VRec [];
 VNil]];
 VNil].

Definition advopts_witness : val :=
VRec [VStr [];
 VRec [VStr [];
 VStr [48; 49]%N;
 VStr [50; 53; 56; 56; 52; 49; 50; 56; 56]%N;
 VStr [51; 48; 56; 54; 48; 50; 56; 55; 57]%N;
 VStr [49; 57; 48; 56; 49; 57]%N;
 VStr [50; 51; 53; 57]%N;
 VStr [71]%N;
 VStr [48; 57; 52]%N;
 VStr [49; 48]%N;
 VStr [49]%N;
 VStr [61]%N;
 VStr [82; 49; 56; 55; 32; 32; 41; 51; 126; 66; 102; 97; 85; 55; 48; 49; 32; 117; 126; 48; 68; 57; 50]%N;
 VStr [112; 99; 52; 51; 66; 76]%N;
 VInt (0);
 VRec [];
 VRec [];
 VRec [VBool false;
 VBool false;
 VBool false;
 VBool true;
 VNil;
 VBool false;
 VBool false;
 VBool false;
 VBool false;
 VBool false;
 VBool false;
 VBool false;
 VBool false;
 VBool false;
 VBool false;
 VBool false;
 VBool false;
 VBool false;
 VBool false]];
 VArr [VRec [VStr [];
 VRec [VStr [];
 VInt (280);
 VStr [53; 105]%N;
 VStr [48; 32; 44; 54; 32; 124; 120; 55; 105; 51; 33; 49; 55; 56; 83; 48; 32; 49; 51; 87]%N;
 VStr [49; 56; 57; 48; 51; 50; 54; 50; 55; 56]%N;
 VStr [65; 68; 86]%N;
 VStr [81; 68]%N;
 VStr [50; 53; 48; 49; 48; 50]%N;
 VStr [49; 57; 48; 56; 49; 57]%N;
 VStr [];
 VInt (0);
 VStr [50; 53; 52; 49; 55; 57; 56; 51]%N;
 VInt (1);
 VInt (0);
 VRec [];
 VRec [];
 VNil];
 VArr [];
 VRec [VStr [];
 VInt (200);
 VInt (0);
 VInt (1);
 VInt (0);
 VInt (0);
 VStr [];
 VStr [];
 VStr [];
 VInt (1);
 VInt (0);
 VRec [];
 VRec [];
 VNil];
 VArr [VRec [VStr [];
 VInt (82);
 VStr [56; 54; 54; 54; 54; 52; 57; 51]%N;
 VStr [54]%N;
 VStr [47; 56; 90; 78; 50; 57; 81; 51; 46; 32; 32; 47]%N;
 VInt (732341);
 VStr [50; 57; 48; 57; 50; 48; 53; 57; 50]%N;
 VStr [];
 VStr [];
 VStr [119; 32; 90; 37; 39; 120; 34; 55; 50; 86; 95; 55; 51; 32; 77; 49; 106; 111; 74]%N;
 VStr [];
 VInt (0);
 VStr [48; 51; 52; 52; 57; 51; 48; 52]%N;
 VInt (365);
 VInt (1);
 VNil;
 VStr [70; 111; 114; 119; 97; 114; 100]%N;
 VInt (0);
 VRec [];
 VRec [];
 VNil]];
 VRec [VStr [];
 VInt (280);
 VInt (1);
 VInt (86666493);
 VInt (732341);
 VInt (0);
 VStr [53; 105]%N;
 VStr [50; 53; 52; 49; 55; 57; 56; 51]%N;
 VInt (1);
 VInt (0);
 VRec [];
 VRec [];
 VRec [VBool false;
 VBool false;
 VBool false;
 VBool true;
 VNil;
 VBool false;
 VBool false;
 VBool false;
 VBool false;
 VBool false;
 VBool false;
 VBool false;
 VBool false;
 VBool false;
 VBool false;
 VBool false;
 VBool false;
 VBool false;
 VBool false]];
 VNil;
 VStr [70; 111; 114; 119; 97; 114; 100]%N;
 VRec [];
 VRec [VBool false;
 VBool false;
 VBool false;
 VBool true;
 VNil;
 VBool false;
 VBool false;
 VBool false;
 VBool false;
 VBool false;
 VBool false;
 VBool false;
 VBool false;
 VBool false;
 VBool false;
 VBool false;
 VBool false;
 VBool false;
 VBool false]]];
 VArr [];
 VRec [VStr [];
 VInt (0);
 VInt (0);
 VInt (0);
 VInt (0);
 VInt (0);
 VInt (0);
 VInt (0);
 VRec [];
 VRec []];
 VRec [VStr [];
 VInt (1);
 VInt (1);
 VInt (1);
 VInt (86666493);
 VInt (732341);
 VInt (0);
 VInt (0);
 VRec [];
 VRec []];
 VArr [];
 VArr [];
 VRec [VBool false;
 VBool false;
 VBool false;
 VBool true;
 VNil;
 VBool false;
 VBool false;
 VBool false;
 VBool false;
 VBool false;
 VBool false;
 VBool false;
 VBool false;
 VBool false;
 VBool false;
 VBool false;
 VBool false;
 VBool false;
 VBool false]].

(* the conjuncts of adv_tabulated, to show which one a witness violates:
   [batches present; no IAT batches; every batch ADV; every batch explicit; numbering; ADV file control] *)
Definition adv_tab_parts (v : val) : list bool :=
  let E := full_env true in
  let d := tree_of_file v in
  let o := kid d "validateOpts" in
  let bs := kid d "Batches" in
  let cs := batch_adv_controls v in
  [ match bs with [] => false | _ => true end;
    match kid d "IATBatches" with [] => true | _ => false end;
    forallb (fun b => sec_is (header_of b) "ADV") bs;
    forallb2 (adv_batch_explicit E o) bs cs;
    numbered_adv 1 bs cs;
    fc_matches_adv E cs (file_adv_control v) ].

(* the hypotheses other than adv_tabulated *)
Definition adv_other_hyps (v : val) : bool :=
  typed T_File v && in_domain v && valid (fun _ _ => true) (fun _ _ => true) (fun _ => true) v && a98_clean v.

(* does the text come back? *)
Definition text_back (v : val) : option bool :=
  match roundtrip_run true false [] v with
  | Some f => Some (bytes_eqb (write_full f) (write_full (tree_full v)))
  | None => None
  end.

Definition has_addenda99 (v : val) : bool :=
  existsb (fun b => existsb (fun e => match kid e "Addenda99" with [] => false | _ => true end) (kid b "ADVEntries"))
          (kid (tree_of_file v) "Batches").

(* non-vacuity: forward advices (two batches), returned advices (two entries with Addenda99: 8 lines), an ADV file
   whose stored options are needed (BypassDestinationValidation) *)
Example adv_explicit_witnesses :
  adv_hyps true adv_witness = true /\ text_back adv_witness = Some true /\
  adv_hyps true advret_witness = true /\ has_addenda99 advret_witness = true /\
  length (lines_full (tree_full advret_witness)) = 8%nat /\ text_back advret_witness = Some true /\
  adv_hyps true advopts_witness = true /\ flag (file_opts (tree_of_file advopts_witness)) "BypassDestinationValidation" = true /\
  text_back advopts_witness = Some true.
Proof. vm_compute. repeat split; reflexivity. Qed.

Example unmarshal_witness :
  match unmarshal_run true true [] advret_witness with
  | (Some f, _) => bytes_eqb (write_full f) (write_full (tree_full advret_witness)) = true
  | (None, _) => False
  end.
Proof. vm_compute. reflexivity. Qed.

(* ---- one refuted statement per needed hypothesis: edits of the generated file *)

Definition in_batch (i : nat) (g : ty -> val -> val) : ty -> val -> val := upd_fld "Batches" (upd_nth i g).
Definition in_entry (i j : nat) (g : ty -> val -> val) : ty -> val -> val := in_batch i (upd_fld "ADVEntries" (upd_nth j g)).
Definition str_val (s : string) : val := VStr (bstr s).

(* sequence numbers: the first advice carries 5 *)
Definition w_seq : val := in_entry 0 0 (upd_fld "SequenceNumber" (put (VInt 5))) T_File adv_witness.
(* the stored ADV batch control is not what build computes: ACHOperatorData differs from the header's CompanyName *)
Definition w_ctl : val := in_batch 0 (upd_fld "ADVControl" (upd_fld "ACHOperatorData" (put (str_val "OTHER OPERATOR")))) T_File adv_witness.
(* batch number 0 on header and control of the first batch: createFileADV renumbers it *)
Definition w_num : val :=
  in_batch 0 (fun t b => upd_fld "Header" (upd_fld "BatchNumber" (put (VInt 0))) t
                           (upd_fld "ADVControl" (upd_fld "BatchNumber" (put (VInt 0))) t b)) T_File adv_witness.
(* the ADV file control does not hold createFileADV's sums *)
Definition w_fc : val := upd_fld "ADVControl" (upd_fld "TotalDebitEntryDollarAmountInFile" (put (VInt 1))) T_File adv_witness.
(* an Offset stored on an ADV batch: upsertOffsets refuses it *)
Definition w_off : val :=
  in_batch 0 (upd_fld "offset" (put (VRec [str_val "121042882"; str_val "123"; str_val "checking"; str_val ""]))) T_File adv_witness.
(* a forward advice (no Addenda99) whose Category is "Return": setADVEntryRecordType overwrites it *)
Definition w_cat : val := in_entry 0 0 (upd_fld "Category" (put (str_val "Return"))) T_File adv_witness.

Lemma adv_seq_refuted :
  adv_other_hyps w_seq = true /\ adv_tab_parts w_seq = [true; true; true; false; true; true] /\ text_back w_seq = Some false.
Proof. vm_compute. repeat split; reflexivity. Qed.

Lemma adv_control_refuted :
  adv_other_hyps w_ctl = true /\ adv_tab_parts w_ctl = [true; true; true; false; true; true] /\ text_back w_ctl = Some false.
Proof. vm_compute. repeat split; reflexivity. Qed.

Lemma adv_numbering_refuted :
  adv_other_hyps w_num = true /\ adv_tab_parts w_num = [true; true; true; true; false; true] /\ text_back w_num = Some false.
Proof. vm_compute. repeat split; reflexivity. Qed.

Lemma adv_file_control_refuted :
  adv_other_hyps w_fc = true /\ adv_tab_parts w_fc = [true; true; true; true; true; false] /\ text_back w_fc = Some false.
Proof. vm_compute. repeat split; reflexivity. Qed.

Lemma adv_offset_refuted :
  adv_other_hyps w_off = true /\ adv_tab_parts w_off = [true; true; true; false; true; true] /\ text_back w_off = None.
Proof. vm_compute. repeat split; reflexivity. Qed.

(* the batch header must pass BatchHeader.Validate: otherwise build fails and no file comes back *)
Lemma adv_header_refuted :
  from_json (fun _ _ => true) (fun _ _ => false) (fun _ => true) [] (to_json adv_witness) = PErr "build:header".
Proof. vm_compute. reflexivity. Qed.

(* the category condition of [valid] is NOT needed for the text: the category comes back changed, the text does not
   (the hypothesis is kept because the proof goes through the identity of the decoded batch; see docs/C07.md) *)
Lemma adv_category_text_only :
  typed T_File w_cat = true /\ valid (fun _ _ => true) (fun _ _ => true) (fun _ => true) w_cat = false /\
  adv_tab_parts w_cat = [true; true; true; true; true; true] /\ text_back w_cat = Some true /\
  match roundtrip_run true false [] w_cat with
  | Some f => map (fun b => map (fun e => sget e "Category") (kid b "ADVEntries")) (kid f "Batches")
              <> map (fun b => map (fun e => sget e "Category") (kid b "ADVEntries")) (kid (tree_of_file w_cat) "Batches")
  | None => False
  end.
Proof. vm_compute. repeat split; try reflexivity. intros H. discriminate H. Qed.

(* Batch.build is idempotent on ADV batches: instance on the current tables *)
Lemma adv_build_idempotent_cur fhv bhv fv o b b' :
  sec_is (header_of b) "ADV" = true ->
  build_batch (env_cur fhv bhv fv) o b = Good b' -> build_batch (env_cur fhv bhv fv) o b' = Good b'.
Proof. apply adv_build_idem. Qed.

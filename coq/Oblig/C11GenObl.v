(* Phase 3 obligations for C11: table agreement for "Arith-valid implies the Segment gate"
   (re-evaluated on the tables of this run), instances of SegmentGenFacts at ST / gen_tables,
   non-vacuity examples and the witness that category-uniformity is needed for the union of
   the ReturnEntries / NotificationOfChange lists. *)
From Coq Require Import ZArith NArith List Bool Lia Permutation.
Import ListNotations.
From ACH Require Import ValidOut ValidOutFacts Tables C03Obl.
From ACH Require Import Bytes TxCodes RevTable SegTable Segment SegmentFacts SegmentSuccess SegmentTable C11Obl.
From ACH Require Import ValidSegment ValidSegmentFacts ValidSegObl SegmentGen SegmentGenFacts.
Open Scope Z_scope.

(* every transaction code EntryDetail.Validate accepts and ValidTranCodeForServiceClassCode does
   not refuse as an ADV code is a standard entry code (2x..5x) of the segment tables *)
Lemma gen_seg_codes_agree : seg_codes_agree GA ST = true.
Proof. vm_compute. reflexivity. Qed.

Lemma c11_numbers_ok f : validate ST f = None -> numbers_ok ST f = true.
Proof. apply numbers_ok_valid. Qed.

Lemma c11_succeeds_std f :
  validate ST f = None -> is_adv_file (sf_batches f) = false -> exists cf df, segment ST f = SOk cf df.
Proof. apply segment_succeeds_std, ST_ok. Qed.

Lemma c11_succeeds_all f :
  validate ST f = None -> input_wf ST f = true -> exists cf df, segment ST f = SOk cf df.
Proof. apply segment_succeeds_all, ST_ok. Qed.

Lemma c11_numbers_kept f cf df :
  is_adv_file (sf_batches f) = false -> segment ST f = SOk cf df ->
  map sb_num (sf_batches cf) = map sb_num (flat_map (part ST true) (sf_batches f)) /\
  map sb_num (sf_batches df) = map sb_num (flat_map (part ST false) (sf_batches f)) /\
  sublist (map sb_num (sf_batches cf)) (map sb_num (sf_batches f)) /\
  sublist (map sb_num (sf_batches df)) (map sb_num (sf_batches f)).
Proof. apply segment_numbers, ST_ok. Qed.

Lemma c11_part_number cr b : part ST cr b = [] \/ exists y, part ST cr b = [y] /\ sb_num y = sb_num b.
Proof. apply part_shape. Qed.

Lemma c11_arith_gate ep sp f :
  forallb (fun b => negb (sb_adv b)) (sf_batches f) = true ->
  AR.validate_file GA (s_file GA ep sp f) = AR.ROk ->
  validate ST f = None /\ is_adv_file (sf_batches f) = false
  /\ Forall (fun b => sb_adv b = false /\ AR.validate_batch GA (s_batch GA ep sp b) = AR.ROk) (sf_batches f).
Proof. apply arith_valid_gate; [apply gen_tables_ok|apply gen_seg_tables_agree|apply gen_seg_codes_agree]. Qed.

Lemma c11_arith_segments ep sp f :
  forallb (fun b => negb (sb_adv b)) (sf_batches f) = true ->
  AR.validate_file GA (s_file GA ep sp f) = AR.ROk ->
  exists cf df, segment ST f = SOk cf df
    /\ sublist (map sb_num (sf_batches cf)) (map sb_num (sf_batches f))
    /\ sublist (map sb_num (sf_batches df)) (map sb_num (sf_batches f))
    /\ forall g, g = cf \/ g = df -> (sf_batches g <> [] \/ sf_iat g <> []) ->
         fctl_fits GA (AR.fl_ctl (s_file GA ep sp g)) -> AR.validate_file GA (s_file GA ep sp g) = AR.ROk.
Proof. apply arith_valid_segments; [apply gen_tables_ok|apply ST_ok|apply gen_seg_tables_agree|apply gen_seg_codes_agree]. Qed.

(* ---- AddBatch bookkeeping ------------------------------------------------------------------ *)

Lemma c11_built_lists cat bs :
  sel bs (bl_ret (built cat bs)) = filter (is_ret cat) bs /\ sel bs (bl_noc (built cat bs)) = filter (is_noc cat) bs.
Proof. apply built_lists. Qed.

Lemma c11_walk_batches cat cr bs : bl_batches (walk cat ST cr bs) = flat_map (part ST cr) bs.
Proof. apply walk_batches. Qed.

Lemma c11_output_lists cat f gc gd : input_wf ST f = true -> segment_cat cat ST f = GOk gc gd ->
  g_returns gc = filter (is_ret cat) (sf_batches (g_file gc)) /\ g_nocs gc = filter (is_noc cat) (sf_batches (g_file gc)) /\
  g_returns gd = filter (is_ret cat) (sf_batches (g_file gd)) /\ g_nocs gd = filter (is_noc cat) (sf_batches (g_file gd)).
Proof. intros Hw Hs. apply (output_lists cat ST ST_ok f gc gd Hw). now apply segment_cat_ok. Qed.

Lemma c11_lists_union cat f gc gd :
  input_wf ST f = true -> forallb (cat_uniform cat) (sf_batches f) = true ->
  segment_cat cat ST f = GOk gc gd ->
  let inp := built cat (sf_batches f) in
  Permutation (ids_of (g_returns gc) ++ ids_of (g_returns gd)) (ids_of (sel (sf_batches f) (bl_ret inp))) /\
  Permutation (ids_of (g_nocs gc) ++ ids_of (g_nocs gd)) (ids_of (sel (sf_batches f) (bl_noc inp))).
Proof. intros Hw Hu Hs. apply (lists_union cat ST ST_ok f gc gd Hw Hu). now apply segment_cat_ok. Qed.

(* with the category check of validation: success for every valid non-ADV file of category-uniform batches *)
Lemma c11_succeeds_cat cat f :
  validate_cat cat ST f = None -> is_adv_file (sf_batches f) = false ->
  forallb (cat_uniform cat) (sf_batches f) = true ->
  exists gc gd, segment_cat cat ST f = GOk gc gd.
Proof. apply segment_cat_succeeds, ST_ok. Qed.

(* a file without category labels: the category check is void and segment_cat is segment *)
Lemma c11_cat_forward f : validate_cat (fun _ => CForward) ST f = validate ST f.
Proof.
  unfold validate_cat. destruct (is_adv_file (sf_batches f)) eqn:Ea; [reflexivity|].
  assert (E : forall b, is_category_ok (fun _ => CForward) b = true).
  { intros b. unfold is_category_ok. destruct (sb_entries b) as [|e0 [|e1 r]]; try reflexivity. now apply forallb_forall. }
  assert (F : forallb (fun b => batch_ok ST b && is_category_ok (fun _ => CForward) b) (sf_batches f) = forallb (batch_ok ST) (sf_batches f)).
  { clear Ea. induction (sf_batches f) as [|b r IH]; [reflexivity|]. cbn [forallb]. rewrite IH, E. now rewrite andb_true_r. }
  rewrite F. destruct (forallb (batch_ok ST) (sf_batches f)) eqn:Eb; [reflexivity|].
  unfold validate. now rewrite Ea, Eb.
Qed.

(* ---- non-vacuity --------------------------------------------------------------------------- *)

(* ids 1..2 forward, 3..5 returns, 6..7 notifications of change, 8.. forward *)
Definition ex_cat (id : N) : category :=
  if (id <=? 2)%N then CForward else if (id <=? 5)%N then CReturn else if (id <=? 7)%N then CNOC else CForward.

(* a debits-only forward batch #1, a credits-only return batch #2, a mixed return batch #3,
   a mixed NOC batch #5 (zero amounts) and a mixed forward batch #8 *)
Definition ex_gfile : sfile :=
  mksf 121042882 231380104
       [ mksb false 225 1 7 0 200 [mkentry 27 200 1%N 1%N]
       ; mksb false 220 2 7 100 0 [mkentry 21 100 3%N 1%N]
       ; mksb false 200 3 7 30 40 [mkentry 26 40 4%N 1%N; mkentry 31 30 5%N 2%N]
       ; mksb false 200 5 7 0 0 [mkentry 21 0 6%N 1%N; mkentry 36 0 7%N 2%N]
       ; mksb false 200 8 7 11 12 [mkentry 22 11 8%N 1%N; mkentry 37 12 9%N 2%N] ]
       [] 141 252.

Example ex_gfile_hyps :
  validate ST ex_gfile = None /\ validate_cat ex_cat ST ex_gfile = None /\ input_wf ST ex_gfile = true /\ is_adv_file (sf_batches ex_gfile) = false
  /\ forallb (cat_uniform ex_cat) (sf_batches ex_gfile) = true
  /\ forallb (is_category_ok ex_cat) (sf_batches ex_gfile) = true
  /\ bl_ret (built ex_cat (sf_batches ex_gfile)) = [1; 2]%nat /\ bl_noc (built ex_cat (sf_batches ex_gfile)) = [3]%nat.
Proof. vm_compute. repeat split; reflexivity. Qed.

(* both outputs: batch numbers of the sources (credit 2 3 5 8, debit 1 3 5 8), ReturnEntries /
   NotificationOfChange as positions, and the entry identities they denote *)
Example ex_gfile_segments :
  match segment_cat ex_cat ST ex_gfile with
  | GOk gc gd =>
      map sb_num (sf_batches (g_file gc)) = [2; 3; 5; 8] /\ map sb_num (sf_batches (g_file gd)) = [1; 3; 5; 8]
      /\ g_ret gc = [0; 1]%nat /\ g_noc gc = [2]%nat /\ g_ret gd = [1]%nat /\ g_noc gd = [2]%nat
      /\ ids_of (g_returns gc) = [3; 5]%N /\ ids_of (g_returns gd) = [4]%N
      /\ ids_of (g_nocs gc) = [6]%N /\ ids_of (g_nocs gd) = [7]%N
  | GErr _ => False
  end.
Proof. vm_compute. repeat split; reflexivity. Qed.

(* the same file through the validator abstraction: accepted by Arith.validate_file *)
Definition ex_gep (id tr : N) : spay :=
  mkspay (dsb [2;3;1;3;8;0;1;0]) (dsb [4])
         (dsb [1;2;1;0;4;2;8;8;0;0;0;0;0;0] ++ [(48 + tr)%N]) 0.

Example ex_gfile_arith_valid :
  AR.validate_file GA (s_file GA ex_gep ex_ssp ex_gfile) = AR.ROk
  /\ forallb (fun b => negb (sb_adv b)) (sf_batches ex_gfile) = true.
Proof. vm_compute. split; reflexivity. Qed.


(* an ADV file (File.Validate reads nothing but the totals: input_wf is the hypothesis): two ADV
   batches numbered 4 and 9, split into a credit and a debit ADV file that keep the numbers *)
Definition ex_advfile : sfile :=
  mksf 121042882 231380104
       [ mksb true 280 4 7 50 70 [mkentry 81 50 1%N 0%N; mkentry 82 70 2%N 0%N]
       ; mksb true 280 9 7 0 5 [mkentry 88 5 3%N 0%N] ]
       [] 50 75.

Example ex_advfile_segments :
  validate ST ex_advfile = None /\ input_wf ST ex_advfile = true /\ is_adv_file (sf_batches ex_advfile) = true
  /\ match segment ST ex_advfile with
     | SOk cf df => map sb_num (sf_batches cf) = [4] /\ map sb_num (sf_batches df) = [4; 9]
                    /\ sf_credit cf = 50 /\ sf_debit df = 75
     | SErr _ => False
     end.
Proof. vm_compute. repeat split; reflexivity. Qed.

(* ---- category-uniformity is needed for the union ------------------------------------------- *)

(* one mixed batch: a returned credit (labelled Return) and a debit labelled NOC.  Batch.isCategory
   accepts it (entries labelled NOC are skipped); Category() answers Return for the batch, Return
   for its credit half and NOC for its debit half *)
Definition nu_cat (id : N) : category := if (id =? 1)%N then CReturn else CNOC.
Definition nu_file : sfile :=
  mksf 121042882 231380104
       [ mksb false 200 1 7 5 0 [mkentry 21 5 1%N 1%N; mkentry 26 0 2%N 2%N] ] [] 5 0.

Lemma lists_union_nonuniform :
  validate_cat nu_cat ST nu_file = None /\ input_wf ST nu_file = true
  /\ forallb (is_category_ok nu_cat) (sf_batches nu_file) = true
  /\ forallb (cat_uniform nu_cat) (sf_batches nu_file) = false
  /\ match segment_cat nu_cat ST nu_file with
     | GOk gc gd =>
         let inp := built nu_cat (sf_batches nu_file) in
         ids_of (g_returns gc) ++ ids_of (g_returns gd) = [1]%N
         /\ ids_of (sel (sf_batches nu_file) (bl_ret inp)) = [1; 2]%N
         /\ ids_of (g_nocs gc) ++ ids_of (g_nocs gd) = [2]%N
         /\ ids_of (sel (sf_batches nu_file) (bl_noc inp)) = []
     | GErr _ => False
     end.
Proof. vm_compute. repeat split; reflexivity. Qed.

Lemma lists_union_refuted :
  exists cat f gc gd,
    validate_cat cat ST f = None /\ input_wf ST f = true /\ forallb (is_category_ok cat) (sf_batches f) = true
    /\ segment_cat cat ST f = GOk gc gd
    /\ ~ Permutation (ids_of (g_returns gc) ++ ids_of (g_returns gd))
                     (ids_of (sel (sf_batches f) (bl_ret (built cat (sf_batches f))))).
Proof.
  destruct (segment_cat nu_cat ST nu_file) as [gc gd|] eqn:E; [|vm_compute in E; discriminate].
  exists nu_cat, nu_file, gc, gd.
  pose proof lists_union_nonuniform as (H1 & H2 & H3 & _ & H5). rewrite E in H5. cbv zeta in H5.
  destruct H5 as (L1 & L2 & _). repeat split; try assumption.
  rewrite L1, L2. intros P. apply Permutation_length in P. discriminate.
Qed.

(* ---- and for success: SegmentFile fails on a valid file with hand-labelled categories -------- *)

(* one mixed batch: a forward credit, a debit labelled NOC, a forward debit.  Batch.isCategory
   takes the first entry's label (Forward) as reference and skips NOC labels: accepted.  The debit
   half starts with the NOC-labelled entry, which makes NOC the reference: the forward debit is
   refused ("Forward category found in batch with category NOC") and SegmentFile returns an error. *)
Definition cs_cat (id : N) : category := if (id =? 2)%N then CNOC else CForward.
Definition cs_file : sfile :=
  mksf 121042882 231380104
       [ mksb false 200 1 7 100 300 [mkentry 22 100 1%N 1%N; mkentry 27 100 2%N 2%N; mkentry 27 200 3%N 3%N] ] [] 100 300.

Lemma succeeds_cat_refuted :
  validate_cat cs_cat ST cs_file = None /\ input_wf ST cs_file = true /\ is_adv_file (sf_batches cs_file) = false
  /\ forallb (cat_uniform cs_cat) (sf_batches cs_file) = false
  /\ (exists cf df, segment ST cs_file = SOk cf df)
  /\ segment_cat cs_cat ST cs_file = GErr (EOutput VBatch).
Proof. vm_compute. repeat split; try reflexivity. eexists _, _. reflexivity. Qed.

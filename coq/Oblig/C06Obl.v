(* Reflection obligations for C06: boolean checkers evaluated on the table of partial
   operations regenerated from the current source, instances of the generic theorems,
   non-vacuity examples and refutation witnesses. *)
From Coq Require Import String List Bool Arith Lia.
Import ListNotations.
From ACH Require Import Utf8 Fields Totality TotalityFacts PartialTable PartialAccounted PartialSites.
Open Scope string_scope.
Open Scope nat_scope.

(* every slice, index and optional dereference of package ach and package server is either
   discharged by its own dominating guards, or not an obligation (range index, map key, nil-checked),
   or listed in PartialAccounted.accounted *)
Lemma sites_ok : sites_covered field_widths accounted partial_sites = true.
Proof. vm_compute. reflexivity. Qed.

(* no stale entry in the accounted list *)
Lemma accounted_ok : accounted_live accounted partial_sites = true.
Proof. vm_compute. reflexivity. Qed.

(* the modelled slicers have the bounds and guards of the source *)
Lemma model_sites_present : model_sites_ok model_sites partial_sites = true.
Proof. vm_compute. reflexivity. Qed.

Lemma validators_slice_free : slice_free_ok partial_sites = true.
Proof. vm_compute. reflexivity. Qed.

(* the table is not degenerate: it holds sites of every kind and the auto-discharged ones are many *)
Lemma table_nontrivial :
  (100 <=? length (filter (fun s => is_kind s "slice") partial_sites)) &&
  (60 <=? length (filter (site_auto_safe field_widths) partial_sites)) &&
  (100 <=? length (filter (fun s => is_kind s "deref") partial_sites)) = true.
Proof. vm_compute. reflexivity. Qed.

(* instances of the generic theorems on the regenerated table *)
Lemma table_path_sites_safe s : In s partial_sites -> site_auto_safe field_widths s = true -> s_op s = OpPath ->
  forall x : bytes, Forall (fun g => sat x g true) (s_guards s) -> is_panic (go_slice x (s_lo s) (s_hi s)) = false.
Proof. intros _. apply auto_safe_path. Qed.

Lemma table_rune_sites_safe s : In s partial_sites -> site_auto_safe field_widths s = true -> s_op s = OpRunes ->
  forall x : bytes, Forall (fun g => sat x g true) (s_guards s) -> is_panic (go_slice (runes x) (s_lo s) (s_hi s)) = false.
Proof. intros _. apply auto_safe_runes. Qed.

Lemma table_call_sites_safe s f : In s partial_sites -> site_auto_safe field_widths s = true -> s_op s = OpCall f ->
  exists conv w, lookup_width f field_widths = Some (conv, w) /\
  forall (v : bytes) (z : Z), is_panic (go_slice (conv_apply conv v z w) (s_lo s) (s_hi s)) = false.
Proof. intros _. apply auto_safe_call. Qed.

Lemma table_covered s : In s partial_sites -> site_needs s = true ->
  site_auto_safe field_widths s = true \/ exists a, In a accounted /\ a_func a = s_func s /\ a_text a = s_text s.
Proof. apply sites_covered_sound, sites_ok. Qed.

(* the guarded accessors are discharged by the table itself (fix commits 810e2e93, a7fda2da) *)
Lemma guarded_accessors_auto :
  forallb (fun f => existsb (fun s => String.eqb (s_func s) f && site_auto_safe field_widths s) partial_sites)
    ["ach.EntryDetail.ProcessControlField"; "ach.EntryDetail.ItemResearchNumber"; "ach.EntryDetail.SHRCardExpirationDateField";
     "ach.EntryDetail.CATXAddendaRecordsField"; "ach.EntryDetail.CATXReceivingCompanyField"; "ach.aba8";
     "ach.BatchSHR.Validate"; "ach.BatchControl.Parse"; "ach.FileHeader.Parse"; "ach.ADVEntryDetail.Parse"]%string = true.
Proof. vm_compute. reflexivity. Qed.

(* non-vacuity of the guard semantics: a 22 byte name satisfies the guard of ProcessControlField,
   a 94 rune record the guard of BatchControl.Parse *)
Example guard_holds_example :
  sat (repeat 65%N 22) (FNot (FCmp MLen CLt 6)) true /\ sat (repeat 56%N 94) (FNot (FCmp MRune CNe 94)) true.
Proof.
  split.
  - exact (sat_not _ _ _ (sat_cmp (repeat 65%N 22) MLen CLt 6)).
  - exact (sat_not _ _ _ (sat_cmp (repeat 56%N 94) MRune CNe 94)).
Qed.

(* refutation witnesses: the unguarded accessors panic on concrete short values *)
Lemma unguarded_accessors_refuted :
  pop_check_serial (repeat 55%N 8) = Panic /\ pop_terminal_city (repeat 55%N 12) = Panic /\
  pop_terminal_state (repeat 55%N 14) = Panic /\ shr_doc_ref (repeat 55%N 14) = Panic /\
  catx_reserved (repeat 55%N 21) = Panic /\ iat_payment_amount (repeat 55%N 9) = Panic /\
  iat_addenda_information (repeat 55%N 43) = Panic /\ a99_return_trace (repeat 55%N 17) = Panic /\
  a99_settlement_date (repeat 55%N 20) = Panic /\ a99_reason_code (repeat 55%N 22) = Panic /\
  a99_extra (repeat 55%N 22) = Panic.
Proof. vm_compute. repeat split; reflexivity. Qed.

(* the same accessors answer on full-width values, and the guarded ones on every value *)
Example accessors_full_width :
  pop_check_serial (repeat 55%N 15) = Ok (repeat 55%N 9) /\ catx_reserved (repeat 55%N 22) = Ok (repeat 55%N 2) /\
  process_control [] = Ok [] /\ process_control (repeat 67%N 22) = Ok (repeat 67%N 6) /\
  item_research (repeat 67%N 10) = Ok [].
Proof. vm_compute. repeat split; reflexivity. Qed.

(* reader examples: a short line is padded and dispatched, a 94-column batch header with IAT at 50..53 is an IAT header *)
Definition iat_header_line : bytes := (repeat 53%N 50 ++ [73; 65; 84]%N ++ repeat 32%N 41)%list.
Example read_line_examples :
  (exists l, read_line false [53; 50; 50; 53]%N = Ok [(l, KBatchHeader)] /\ length l = 94) /\
  read_line true iat_header_line = Ok [(iat_header_line, KBatchHeaderIAT)] /\
  (exists l, read_line false [120]%N = Ok [(l, KUnknown)]) /\
  (exists l, read_line false (concat (repeat [195; 169]%N 50)) = Ok [(l, KUnknown)] /\ rune_count l = 94%nat).
Proof. vm_compute. repeat split; try reflexivity; eexists; try split; reflexivity. Qed.

(* optional sub-records *)
Example optional_examples :
  reversal_control 0 None = Ok 0 /\ segment_service (@None nat) = Err /\ json_entries [Some 1; None; Some 3] = Ok [1; 3].
Proof. vm_compute. repeat split; reflexivity. Qed.

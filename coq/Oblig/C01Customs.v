(* C01, custom accessors: on the generated tables, the whole-record check
   [seg_stableb L r (SCustom n h)] follows from explicit conditions on the
   fields the accessor reads (Codec/CustomFacts.v).  The facts about the
   tables are closed terms and go by computation. *)
From Coq Require Import String List NArith ZArith Bool.
From ACH Require Import LayoutOk FieldsFacts LayoutFacts CustomFacts Layouts C01Obl.
Import ListNotations.
Local Open Scope string_scope.

(* membership in [all_layouts] by a linear search (no normalisation of the tables) *)
Ltac in_layouts := unfold all_layouts; repeat (first [left; reflexivity | right]).

Lemma ok_Addenda99 : layout_ok L_Addenda99 = true.
Proof. apply layout_ok_in. in_layouts. Qed.
Lemma ok_BatchHeader : layout_ok L_BatchHeader = true.
Proof. apply layout_ok_in. in_layouts. Qed.
Lemma ok_FileHeader : layout_ok L_FileHeader = true.
Proof. apply layout_ok_in. in_layouts. Qed.
Lemma ok_IATBatchHeader : layout_ok L_IATBatchHeader = true.
Proof. apply layout_ok_in. in_layouts. Qed.

(* ---- 1. Addenda99.DateOfDeathField ---- *)

Lemma Addenda99_DateOfDeath_stable r : fitsb L_Addenda99 r = true ->
  (is_nil (gets r "DateOfDeath") || bytes_eqb (gets r "DateOfDeath") (spaces 6)
   || valid_date (gets r "DateOfDeath")) = true ->
  seg_stableb L_Addenda99 r (SCustom "Addenda99.DateOfDeathField" "3e285e789e54") = true.
Proof.
  intros Hfit Hc.
  apply (dod_stable L_Addenda99 r _ (mkcut 21 27 "DateOfDeath" ["validateSimpleDate"]) ok_Addenda99 Hfit);
    [vm_compute; reflexivity|reflexivity|reflexivity|vm_compute; reflexivity|exact Hc].
Qed.

(* ---- 2.-5. FileHeader ---- *)

Lemma FileHeader_FileCreationDate_stable r : fitsb L_FileHeader r = true ->
  valid_date (gets r "FileCreationDate") = true ->
  seg_stableb L_FileHeader r (SCustom "FileHeader.FileCreationDateField" "15c475cdacb0") = true.
Proof.
  intros Hfit Hc.
  apply (fcd_stable L_FileHeader r _ (mkcut 23 29 "FileCreationDate" ["validateSimpleDate"]) ok_FileHeader Hfit);
    [vm_compute; reflexivity|reflexivity|reflexivity|vm_compute; reflexivity|exact Hc].
Qed.

Lemma FileHeader_FileCreationTime_stable r : fitsb L_FileHeader r = true ->
  valid_time (gets r "FileCreationTime") = true ->
  seg_stableb L_FileHeader r (SCustom "FileHeader.FileCreationTimeField" "96fc73e249a4") = true.
Proof.
  intros Hfit Hc.
  apply (fct_stable L_FileHeader r _ (mkcut 29 33 "FileCreationTime" ["validateSimpleTime"]) ok_FileHeader Hfit);
    [vm_compute; reflexivity|reflexivity|reflexivity|vm_compute; reflexivity|exact Hc].
Qed.

Lemma FileHeader_ImmediateDestination_stable r : fitsb L_FileHeader r = true ->
  (is_nil (gets r "ImmediateDestination")
   || (wf_utf8 (gets r "ImmediateDestination")
       && ends_ok (stringField (trim (gets r "ImmediateDestination")) 9))) = true ->
  seg_stableb L_FileHeader r (SCustom "FileHeader.ImmediateDestinationField" "f332511f84a1") = true.
Proof.
  intros Hfit Hc.
  apply (idest_stable L_FileHeader r _
           (mkcut 3 13 "ImmediateDestination" ["trimRoutingNumberLeadingZero"; "parseStringField"]) ok_FileHeader Hfit);
    [vm_compute; reflexivity|reflexivity|reflexivity|vm_compute; reflexivity|exact Hc].
Qed.

Lemma FileHeader_ImmediateOrigin_stable r : fitsb L_FileHeader r = true ->
  (is_nil (gets r "ImmediateOrigin")
   || (wf_utf8 (gets r "ImmediateOrigin")
       && ends_ok (stringField (trim (gets r "ImmediateOrigin")) 9))) = true ->
  seg_stableb L_FileHeader r (SCustom "FileHeader.ImmediateOriginField" "1da7f3123d8e") = true.
Proof.
  intros Hfit Hc.
  apply (iorig_stable L_FileHeader r _
           (mkcut 13 23 "ImmediateOrigin" ["trimRoutingNumberLeadingZero"; "parseStringField"]) ok_FileHeader Hfit);
    [vm_compute; reflexivity|reflexivity|reflexivity|vm_compute; reflexivity|exact Hc].
Qed.

(* ---- 6. IATBatchHeader.ForeignExchangeReferenceField ---- *)

Lemma IATBatchHeader_ForeignExchangeReference_stable r : fitsb L_IATBatchHeader r = true ->
  ((0 <=? geti r "ForeignExchangeReferenceIndicator")%Z && (geti r "ForeignExchangeReferenceIndicator" <? 10)%Z
   && ((geti r "ForeignExchangeReferenceIndicator" =? 3)%Z
       || (wf_utf8 (gets r "ForeignExchangeReference") && plain_left (gets r "ForeignExchangeReference")))) = true ->
  seg_stableb L_IATBatchHeader r (SCustom "IATBatchHeader.ForeignExchangeReferenceField" "cd88a0d75af9") = true.
Proof.
  intros Hfit Hc.
  apply (fxref_stable L_IATBatchHeader r _
           (mkcut 22 23 "ForeignExchangeReferenceIndicator" ["parseNumField"])
           (mkcut 23 38 "ForeignExchangeReference" ["parseStringField"]) ok_IATBatchHeader Hfit);
    [vm_compute; reflexivity|reflexivity|reflexivity|vm_compute; reflexivity
    |vm_compute; reflexivity|reflexivity|reflexivity|vm_compute; reflexivity|exact Hc].
Qed.

(* ---- 7. BatchHeader.EffectiveEntryDateField ---- *)

Lemma BatchHeader_EffectiveEntryDate_stable r : fitsb L_BatchHeader r = true ->
  (if bytes_eqb (gets r "CompanyEntryDescription") AUTOENROLL && bytes_eqb (gets r "StandardEntryClassCode") ENR
   then true
   else negb (bytes_eqb (trim (alphaField (gets r "CompanyEntryDescription") 10)) AUTOENROLL
              && bytes_eqb (gets r "StandardEntryClassCode") ENR)
        && (valid_date (stringField (gets r "EffectiveEntryDate") 6)
            || bytes_eqb (stringField (gets r "EffectiveEntryDate") 6) (zeros 6))) = true ->
  seg_stableb L_BatchHeader r (SCustom "BatchHeader.EffectiveEntryDateField" "27f17b677db8") = true.
Proof.
  intros Hfit Hc.
  apply (eed_stable L_BatchHeader r _
           (mkcut 69 75 "EffectiveEntryDate" ["validateSimpleDate"])
           (mkcut 53 63 "CompanyEntryDescription" ["parseStringFieldWithOpts"])
           (mkcut 50 53 "StandardEntryClassCode" []) ok_BatchHeader Hfit);
    [vm_compute; reflexivity|reflexivity|reflexivity|vm_compute; reflexivity
    |vm_compute; reflexivity|reflexivity|reflexivity|vm_compute; reflexivity
    |vm_compute; reflexivity|reflexivity|reflexivity|vm_compute; reflexivity|exact Hc].
Qed.

(* the sample batch header of C01Obl satisfies the explicit condition; the
   "AUTOENROLL!" record of [bh_autoenroll_refuted] (truncated to AUTOENROLL on
   write, so that the re-parsed ENR header blanks its date) does not *)
Definition eed_cond (r : recval) : bool :=
  if bytes_eqb (gets r "CompanyEntryDescription") AUTOENROLL && bytes_eqb (gets r "StandardEntryClassCode") ENR
  then true
  else negb (bytes_eqb (trim (alphaField (gets r "CompanyEntryDescription") 10)) AUTOENROLL
             && bytes_eqb (gets r "StandardEntryClassCode") ENR)
       && (valid_date (stringField (gets r "EffectiveEntryDate") 6)
           || bytes_eqb (stringField (gets r "EffectiveEntryDate") 6) (zeros 6)).
Example eed_cond_sample : eed_cond bh_record = true.
Proof. vm_compute. reflexivity. Qed.
Example eed_cond_autoenroll_refuted :
  eed_cond bh_enr_record = false /\
  seg_stableb L_BatchHeader bh_enr_record (SCustom "BatchHeader.EffectiveEntryDateField" "27f17b677db8") = false.
Proof. vm_compute. split; reflexivity. Qed.

(* ------------------------------------------------------------------ *)
(* the conditions are needed: witnesses                                  *)

(* an invalid date of death (month 13, day 32) is written as is and erased by
   validateSimpleDate on the way back: the field then renders six blanks *)
Definition a99_record : recval :=
  [ ("TypeCode", VS (bs "99")); ("ReturnCode", VS (bs "R15")); ("OriginalTrace", VS (bs "121042880000001"))
  ; ("DateOfDeath", VS (bs "991332")); ("OriginalDFI", VS (bs "12104288"))
  ; ("AddendaInformation", VS (bs "")); ("TraceNumber", VS (bs "231380100000001")) ].

Example Addenda99_DateOfDeath_refuted :
  fitsb L_Addenda99 a99_record = true /\
  (is_nil (gets a99_record "DateOfDeath") || bytes_eqb (gets a99_record "DateOfDeath") (spaces 6)
   || valid_date (gets a99_record "DateOfDeath")) = false /\
  seg_stableb L_Addenda99 a99_record (SCustom "Addenda99.DateOfDeathField" "3e285e789e54") = false /\
  lookup (parse L_Addenda99 (render L_Addenda99 a99_record)) "DateOfDeath" = Some (VS []) /\
  render L_Addenda99 (overlay (parse L_Addenda99 (render L_Addenda99 a99_record)) a99_record)
    <> render L_Addenda99 a99_record.
Proof. vm_compute. repeat split; discriminate. Qed.

(* the same record with a valid date is stable *)
Example Addenda99_DateOfDeath_witness :
  let r := ("DateOfDeath", VS (bs "991231")) :: a99_record in
  fitsb L_Addenda99 r = true /\ stableb L_Addenda99 r = true.
Proof. vm_compute. split; reflexivity. Qed.

(* a foreign exchange reference indicator of 13 is written as "3" (numericField
   keeps the last digit) and re-parsed as 3, the value for which the accessor
   blanks the foreign exchange reference *)
Definition iatbh_record : recval :=
  [ ("ServiceClassCode", VI 220); ("IATIndicator", VS (bs "")); ("ForeignExchangeIndicator", VS (bs "FF"))
  ; ("ForeignExchangeReferenceIndicator", VI 13); ("ForeignExchangeReference", VS (bs "REF-0001"))
  ; ("ISODestinationCountryCode", VS (bs "US")); ("OriginatorIdentification", VS (bs "123456789"))
  ; ("StandardEntryClassCode", VS (bs "IAT")); ("CompanyEntryDescription", VS (bs "TRADEPAYMT"))
  ; ("ISOOriginatingCurrencyCode", VS (bs "CAD")); ("ISODestinationCurrencyCode", VS (bs "USD"))
  ; ("EffectiveEntryDate", VS (bs "190816")); ("SettlementDate", VS (bs ""))
  ; ("OriginatorStatusCode", VI 1); ("ODFIIdentification", VS (bs "23138010")); ("BatchNumber", VI 1) ].

Example IATBatchHeader_ForeignExchangeReference_refuted :
  fitsb L_IATBatchHeader iatbh_record = true /\
  render_seg iatbh_record (SNum "ForeignExchangeReferenceIndicator" 1) = bs "3" /\
  lookup (parse L_IATBatchHeader (render L_IATBatchHeader iatbh_record)) "ForeignExchangeReferenceIndicator"
    = Some (VI 3) /\
  seg_stableb L_IATBatchHeader iatbh_record
    (SCustom "IATBatchHeader.ForeignExchangeReferenceField" "cd88a0d75af9") = false /\
  render_seg (overlay (parse L_IATBatchHeader (render L_IATBatchHeader iatbh_record)) iatbh_record)
    (SCustom "IATBatchHeader.ForeignExchangeReferenceField" "cd88a0d75af9") = spaces 15 /\
  render L_IATBatchHeader (overlay (parse L_IATBatchHeader (render L_IATBatchHeader iatbh_record)) iatbh_record)
    <> render L_IATBatchHeader iatbh_record.
Proof. vm_compute. repeat split; discriminate. Qed.

(* with an indicator in 0..9 the same record is stable *)
Example IATBatchHeader_ForeignExchangeReference_witness :
  let r := ("ForeignExchangeReferenceIndicator", VI 1) :: iatbh_record in
  fitsb L_IATBatchHeader r = true /\ stableb L_IATBatchHeader r = true.
Proof. vm_compute. split; reflexivity. Qed.

(* ------------------------------------------------------------------ *)
(* whole-record corollary: the file header                               *)

Definition fh_explicit (r : recval) : bool :=
  bytes_eqb (gets r "priorityCode") (bs "01")
  && bytes_eqb (gets r "recordSize") (bs "094")
  && bytes_eqb (gets r "blockingFactor") (bs "10")
  && bytes_eqb (gets r "formatCode") (bs "1")
  && (is_nil (gets r "ImmediateDestination")
      || (wf_utf8 (gets r "ImmediateDestination")
          && ends_ok (stringField (trim (gets r "ImmediateDestination")) 9)))
  && (is_nil (gets r "ImmediateOrigin")
      || (wf_utf8 (gets r "ImmediateOrigin")
          && ends_ok (stringField (trim (gets r "ImmediateOrigin")) 9)))
  && valid_date (gets r "FileCreationDate")
  && valid_time (gets r "FileCreationTime")
  && plain_left (gets r "ImmediateDestinationName")
  && plain_left (gets r "ImmediateOriginName")
  && plain_left (gets r "ReferenceCode").

Lemma FileHeader_stable_explicit r :
  fitsb L_FileHeader r = true -> fh_explicit r = true -> stableb L_FileHeader r = true.
Proof.
  intros Hfit H. unfold fh_explicit in H.
  apply andb_prop in H as [H Hrc]. apply andb_prop in H as [H Hon]. apply andb_prop in H as [H Hdn].
  apply andb_prop in H as [H Ht]. apply andb_prop in H as [H Hd]. apply andb_prop in H as [H Hio].
  apply andb_prop in H as [H Hid]. apply andb_prop in H as [H Hfc]. apply andb_prop in H as [H Hbf].
  apply andb_prop in H as [Hpc Hrs].
  apply bytes_eqb_eq in Hpc, Hrs, Hbf, Hfc.
  unfold stableb.
  change (l_segs L_FileHeader) with
    [ SLit [49]%N
    ; SRaw "priorityCode"
    ; SCustom "FileHeader.ImmediateDestinationField" "f332511f84a1"
    ; SCustom "FileHeader.ImmediateOriginField" "1da7f3123d8e"
    ; SCustom "FileHeader.FileCreationDateField" "15c475cdacb0"
    ; SCustom "FileHeader.FileCreationTimeField" "96fc73e249a4"
    ; SRaw "FileIDModifier"
    ; SRaw "recordSize"
    ; SRaw "blockingFactor"
    ; SRaw "formatCode"
    ; SAlpha "ImmediateDestinationName" 23
    ; SAlpha "ImmediateOriginName" 23
    ; SAlpha "ReferenceCode" 8 ].
  cbn [forallb].
  rewrite (FileHeader_ImmediateDestination_stable r Hfit Hid).
  rewrite (FileHeader_ImmediateOrigin_stable r Hfit Hio).
  rewrite (FileHeader_FileCreationDate_stable r Hfit Hd).
  rewrite (FileHeader_FileCreationTime_stable r Hfit Ht).
  rewrite (raw_const_stable L_FileHeader r "priorityCode" (mkconst "priorityCode" [48; 49]%N) [48; 49]%N
             eq_refl eq_refl Hpc).
  rewrite (raw_const_stable L_FileHeader r "recordSize" (mkconst "recordSize" [48; 57; 52]%N) [48; 57; 52]%N
             eq_refl eq_refl Hrs).
  rewrite (raw_const_stable L_FileHeader r "blockingFactor" (mkconst "blockingFactor" [49; 48]%N) [49; 48]%N
             eq_refl eq_refl Hbf).
  rewrite (raw_const_stable L_FileHeader r "formatCode" (mkconst "formatCode" [49]%N) [49]%N
             eq_refl eq_refl Hfc).
  rewrite (raw_id_stable L_FileHeader r "FileIDModifier" (mkcut 33 34 "FileIDModifier" []) eq_refl eq_refl eq_refl).
  rewrite (alpha_trim_stable L_FileHeader r "ImmediateDestinationName" 23
             (mkcut 40 63 "ImmediateDestinationName" ["parseStringFieldWithOpts"]) eq_refl eq_refl eq_refl Hdn).
  rewrite (alpha_trim_stable L_FileHeader r "ImmediateOriginName" 23
             (mkcut 63 86 "ImmediateOriginName" ["parseStringFieldWithOpts"]) eq_refl eq_refl eq_refl Hon).
  rewrite (alpha_trim_stable L_FileHeader r "ReferenceCode" 8
             (mkcut 86 94 "ReferenceCode" ["parseStringFieldWithOpts"]) eq_refl eq_refl eq_refl Hrc).
  reflexivity.
Qed.

(* hence the file header is a fixed point of  String -> Parse -> String *)
Theorem FileHeader_reparse_fixed_explicit r :
  fitsb L_FileHeader r = true -> fh_explicit r = true ->
  render L_FileHeader (overlay (parse L_FileHeader (render L_FileHeader r)) r) = render L_FileHeader r.
Proof.
  intros Hfit H. apply reparse_fixed; [exact ok_FileHeader|exact Hfit|].
  now apply FileHeader_stable_explicit.
Qed.

(* non-vacuity: the sample file header of C01Obl satisfies the explicit condition;
   a zero-valued FileHeader{} (formatCode "" instead of "1" ...) does not *)
Example fh_explicit_sample : fh_explicit fh_record = true.
Proof. vm_compute. reflexivity. Qed.
Example fh_explicit_zero : fh_explicit [] = false.
Proof. vm_compute. reflexivity. Qed.

Print Assumptions Addenda99_DateOfDeath_stable.
Print Assumptions FileHeader_FileCreationDate_stable.
Print Assumptions FileHeader_FileCreationTime_stable.
Print Assumptions FileHeader_ImmediateDestination_stable.
Print Assumptions FileHeader_ImmediateOrigin_stable.
Print Assumptions IATBatchHeader_ForeignExchangeReference_stable.
Print Assumptions BatchHeader_EffectiveEntryDate_stable.
Print Assumptions Addenda99_DateOfDeath_refuted.
Print Assumptions IATBatchHeader_ForeignExchangeReference_refuted.
Print Assumptions FileHeader_stable_explicit.
Print Assumptions FileHeader_reparse_fixed_explicit.

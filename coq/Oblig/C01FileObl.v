(* Obligations of the file-level C01 theorems:
   1. the reader-dispatch tables regenerated from reader.go / batch.go /
      addenda9x.go (Gen/ReaderDispatch.v) and the writer's addenda order
      (Gen/WriterOrder.v) are exactly the hand tables of Codec/Dispatch.v;
   2. every regenerated record layout passes [layout_ok] and [reads_assigned],
      hence the generic file theorems hold for the 26 layouts of this run;
   3. non-vacuity: generated files of the three kinds satisfy every hypothesis,
      and witnesses showing that the dispatch side conditions are needed. *)
From Coq Require Import String List NArith ZArith Bool Lia.
From ACH Require Import Dispatch LayoutFacts LayoutRoundtrip FramingFacts FileStructFacts DispatchFacts DispatchFixed DispatchBytes.
From ACH Require Import Layouts WriterOrderTypes WriterOrder ReaderDispatch C01Obl C01FileEx.
Import ListNotations.
Local Open Scope string_scope.
Local Open Scope nat_scope.
Local Open Scope list_scope.

(* ------------------------------------------------------------------ *)
(* 1. regenerated tables = model tables                                  *)

Lemma dispatch_line_handlers_ok : gen_line_handlers = line_handlers /\ gen_pad_test = pad_test.
Proof. vm_compute. split; reflexivity. Qed.

Lemma dispatch_iat_detect_ok : gen_iat_detect = iat_detect /\ gen_bh_branches = bh_branches.
Proof. vm_compute. split; reflexivity. Qed.

Lemma dispatch_std_arms_ok : gen_std_arms = std_arms.
Proof. vm_compute. reflexivity. Qed.

Lemma dispatch_iat_arms_ok : gen_iat_arms = iat_arms.
Proof. vm_compute. reflexivity. Qed.

Lemma dispatch_cols_ok : gen_tag_cols = [tag_cols] /\ gen_code_cols = [code_cols].
Proof. vm_compute. split; reflexivity. Qed.

Lemma dispatch_code_lists_ok : gen_code_lists = code_lists.
Proof. vm_compute. reflexivity. Qed.

Lemma dispatch_newbatch_secs_ok : gen_newbatch_secs = newbatch_secs.
Proof. vm_compute. reflexivity. Qed.

(* the hand-modelled control flow: constructors and guard conditions as they are in the source today *)
Lemma reader_source_pinned : gen_record_ctors = record_ctors /\ gen_guards = reader_guards
  /\ assoc "parseADVAddenda" gen_record_ctors = Some [adv_addenda].
Proof. vm_compute. repeat split; reflexivity. Qed.

(* the addenda slots are the writer's emission order (Gen/WriterOrder.v, from writer.go) *)
Definition drop_entry (x : string) : string := String.substring 6 (String.length x - 6) x.
Definition slot_of (n : wnode) : list (string * bool) :=
  match n with
  | WLine x => if String.prefix "entry.Addenda" x then [(drop_entry x, false)] else []
  | WLoop _ over [WLine _] => if String.prefix "entry.Addenda" over then [(drop_entry over, true)] else []
  | _ => []
  end.
Definition slots_of_loop (n : wnode) : list (string * bool) :=
  match n with WLoop _ _ body => flat_map slot_of body | _ => [] end.
Definition loop_slots (n : wnode) : list (list (string * bool)) :=
  match n with WLoop _ _ _ => [slots_of_loop n] | _ => [] end.
Definition entry_loops (batch : list wnode) : list (list (string * bool)) :=
  match batch with
  | [WLoop _ _ body] =>
      flat_map (fun n => match n with
                         | WIf _ a b => flat_map loop_slots a ++ flat_map loop_slots b
                         | _ => loop_slots n end) body
  | _ => []
  end.

Lemma writer_slots_ok :
  entry_loops writer_writeBatch = [std_slots; adv_slots] /\ entry_loops writer_writeIATBatch = [iat_slots].
Proof. vm_compute. split; reflexivity. Qed.

(* every record type a switch constructs has a slot; every layout name used by the model exists *)
Definition arm_kinds (a : arm) : list string :=
  match a with AKind k => [k] | ACode alts d => map snd alts ++ [d] end.
Definition kinds_in (arms : list (bytes * arm)) (slots : list (string * bool)) : bool :=
  forallb (fun k => is_some (assoc k slots)) (flat_map (fun p => arm_kinds (snd p)) arms).

Lemma arms_have_slots : kinds_in std_arms std_slots = true /\ kinds_in iat_arms iat_slots = true
  /\ is_some (assoc adv_addenda adv_slots) = true.
Proof. vm_compute. repeat split; reflexivity. Qed.

Lemma model_kinds_known :
  forallb (fun k => is_some (layout_of all_layouts k))
    (["FileHeader"; "BatchHeader"; "IATBatchHeader"; "FileControl"; "ADVFileControl"]
     ++ flat_map (fun fv => [fv_entry fv; fv_ctl fv] ++ map fst (fv_slots fv)) [std_fl; adv_fl; iat_fl]) = true.
Proof. vm_compute. reflexivity. Qed.

(* ------------------------------------------------------------------ *)
(* 2. instantiation on the layouts of this run                           *)

Definition LT := all_layouts.

Lemma all_reads_assigned : forallb reads_assigned LT = true.
Proof. vm_compute. reflexivity. Qed.

Theorem file_roundtrip f k :
  all_file (rec_fitsb LT) f = true -> dispatchb LT f = true ->
  read_file LT (write_file LT f ++ repeat nines k) = Some (parsed_file LT f).
Proof. exact (read_write_file LT all_layouts_ok f k). Qed.

(* the writer's own output, padded to a multiple of ten records *)
Theorem file_roundtrip_padded f :
  all_file (rec_fitsb LT) f = true -> dispatchb LT f = true ->
  read_file LT (write_file_padded LT f) = Some (parsed_file LT f).
Proof. intros. unfold write_file_padded, physical_lines. now apply file_roundtrip. Qed.

Theorem file_fixed_point_parsed f :
  all_file (rec_fitsb LT) f = true -> all_file (rec_stableb LT) f = true -> dispatchb LT f = true ->
  write_file LT (parsed_file LT f) = write_file LT f.
Proof. exact (write_parsed_file LT all_layouts_ok all_reads_assigned f). Qed.

Theorem file_fixed_point f :
  all_file (rec_fitsb LT) f = true -> all_file (rec_stableb LT) f = true -> dispatchb LT f = true ->
  write_file LT (canon_file LT f) = write_file LT f.
Proof. exact (write_canon_file LT all_layouts_ok f). Qed.

(* write . read . write = write *)
Corollary file_write_read_write f g :
  all_file (rec_fitsb LT) f = true -> all_file (rec_stableb LT) f = true -> dispatchb LT f = true ->
  read_file LT (write_file_padded LT f) = Some g -> write_file LT g = write_file LT f.
Proof.
  intros Hf Hs Hd Hr. rewrite (file_roundtrip_padded f Hf Hd) in Hr. injection Hr as <-.
  now apply file_fixed_point_parsed.
Qed.

Theorem file_text_roundtrip f k j0 recs :
  all_file (rec_fitsb LT) f = true -> dispatchb LT f = true -> all_file (rec_no_nl LT) f = true ->
  map fst recs = write_file LT f ++ repeat nines k ->
  Forall junk_ok j0 -> Forall (fun p => Forall junk_ok (snd p)) recs ->
  read_text LT (junk_bytes j0 ++ text_of recs) = Some (parsed_file LT f).
Proof. exact (read_text_written LT all_layouts_ok f k j0 recs). Qed.

(* the canonical file and the file read differ only outside the layouts *)
Theorem canon_vs_parsed x g :
  lookup (r_val (canon_rec LT x)) g =
  match layout_of LT (r_kind x) with
  | Some _ => match lookup (r_val (parsed_rec LT x)) g with Some v => Some v | None => lookup (r_val x) g end
  | None => lookup (r_val x) g
  end.
Proof. exact (canon_rec_lookup LT x g). Qed.

(* value level: a record of the file read back holds the original value of every
   field read from its own columns, for canonical values ([canonb]) *)
Theorem parsed_rec_value x L s g c :
  layout_of LT (r_kind x) = Some L -> fitsb L (r_val x) = true -> canonb L (r_val x) = true ->
  In s (l_segs L) -> simple_field s = Some g -> find_key (l_cuts L) g = Some c -> c_const c = None ->
  lookup (r_val (parsed_rec LT x)) g = canon_value s (r_val x).
Proof.
  intros HL Hfit Hcan Hs Hsf Hk Hc. unfold parsed_rec. rewrite HL. cbn [r_val]. unfold overlay.
  rewrite app_nil_r.
  assert (Hok : layout_ok L = true) by exact (layout_of_ok LT all_layouts_ok _ _ HL).
  rewrite <- (parse_render_value L (r_val x) s g c Hok Hfit Hcan Hs Hsf Hk Hc).
  unfold parse. destruct (rune_count (render L (r_val x)) =? 94); [|reflexivity].
  destruct (lookup_parse (units (l_ix L) (render L (r_val x))) (l_cuts L) g (layout_ok_keys L Hok)) as [-> ->].
  reflexivity.
Qed.

(* the record-type digit and the addenda type-code columns follow from the layout's shape:
   these conjuncts of [dispatchb] only depend on the record type / on the TypeCode field *)
Definition kind_digit (k : string) : option N :=
  match layout_of LT k with
  | Some L => match l_segs L with SLit [c] :: _ => Some c | _ => None end
  | None => None
  end.

Lemma record_type_digits :
  map (fun L => (l_name L, kind_digit (l_name L))) all_layouts =
  [ ("ADVBatchControl", Some T8); ("ADVEntryDetail", Some T6); ("ADVFileControl", Some T9)
  ; ("Addenda02", Some T7); ("Addenda05", Some T7); ("Addenda10", Some T7); ("Addenda11", Some T7); ("Addenda12", Some T7)
  ; ("Addenda13", Some T7); ("Addenda14", Some T7); ("Addenda15", Some T7); ("Addenda16", Some T7); ("Addenda17", Some T7)
  ; ("Addenda18", Some T7); ("Addenda98", Some T7); ("Addenda98Refused", Some T7); ("Addenda99", Some T7)
  ; ("Addenda99Contested", Some T7); ("Addenda99Dishonored", Some T7)
  ; ("BatchControl", Some T8); ("BatchHeader", Some T5); ("EntryDetail", Some T6); ("FileControl", Some T9)
  ; ("FileHeader", Some T1); ("IATBatchHeader", Some T5); ("IATEntryDetail", Some T6) ].
Proof. vm_compute. reflexivity. Qed.

Lemma line_digit x c : kind_digit (r_kind x) = Some c -> rtype (render_rec LT x) = c.
Proof.
  unfold kind_digit, render_rec. destruct (layout_of LT (r_kind x)) as [L|]; [|discriminate].
  destruct (l_segs L) as [|s1 rest] eqn:E; [discriminate|].
  destruct s1 as [l|? ?|? ?|? ?|?|?|? ?|?]; try discriminate.
  destruct l as [|c' l']; [discriminate|]. destruct l'; [|discriminate].
  intros H. injection H as <-. now apply (rendered_first_byte L _ c' rest).
Qed.

Definition type_code_shape (L : layout) : bool :=
  match l_segs L with SLit [_] :: SRaw f :: _ => String.eqb f "TypeCode" | _ => false end.

Lemma addenda_type_code_shapes :
  forallb (fun L => if String.prefix "Addenda" (l_name L) then type_code_shape L else true) all_layouts = true.
Proof. vm_compute. reflexivity. Qed.

Lemma line_type_code x L : layout_of LT (r_kind x) = Some L -> type_code_shape L = true ->
  length (gets (r_val x) "TypeCode") = 2 ->
  bsub (render_rec LT x) (fst tag_cols) (snd tag_cols) = gets (r_val x) "TypeCode".
Proof.
  unfold render_rec, type_code_shape. intros -> Hs Hl.
  destruct (l_segs L) as [|s1 rest1] eqn:E; [discriminate|].
  destruct s1 as [l|? ?|? ?|? ?|?|?|? ?|?]; try discriminate.
  destruct l as [|c l']; [discriminate|]. destruct l'; [|discriminate].
  destruct rest1 as [|s2 rest]; [discriminate|].
  destruct s2 as [?|? ?|? ?|? ?|f|?|? ?|?]; try discriminate.
  apply String.eqb_eq in Hs. subst f.
  now apply (rendered_type_code L _ c "TypeCode" rest).
Qed.

(* ------------------------------------------------------------------ *)
(* 3. non-vacuity                                                       *)

Definition hyps (f : fileR) : bool :=
  all_file (rec_fitsb LT) f && all_file (rec_stableb LT) f && dispatchb LT f && all_file (rec_no_nl LT) f.

Lemma ex_std_hyps : hyps ex_std = true.  Proof. vm_compute. reflexivity. Qed.
Lemma ex_ret_hyps : hyps ex_ret = true.  Proof. vm_compute. reflexivity. Qed.
Lemma ex_iat_hyps : hyps ex_iat = true.  Proof. vm_compute. reflexivity. Qed.
Lemma ex_adv_hyps : hyps ex_adv = true.  Proof. vm_compute. reflexivity. Qed.

Lemma hyps_split f : hyps f = true ->
  all_file (rec_fitsb LT) f = true /\ all_file (rec_stableb LT) f = true /\ dispatchb LT f = true
  /\ all_file (rec_no_nl LT) f = true.
Proof.
  unfold hyps. intros H. apply andb_prop in H as [H H4]. apply andb_prop in H as [H H3]. apply andb_prop in H as [H1 H2].
  auto.
Qed.

(* the shapes: two batches with addenda; an IAT batch; an ADV batch *)
Lemma ex_shapes :
  length (fl_batches ex_std) = 2 /\ length (fl_iat ex_std) = 0 /\ length (write_file LT ex_std) = 12
  /\ map (fun b => map (fun e => map r_kind (en_addenda e)) (bt_entries b)) (fl_batches ex_std)
     = [[["Addenda05"]; ["Addenda05"]]; [["Addenda98"]]]
  /\ map (fun b => map (fun e => map r_kind (en_addenda e)) (bt_entries b)) (fl_batches ex_ret)
     = [[["Addenda99"]; ["Addenda99"]]; [["Addenda98Refused"]; ["Addenda98"]]]
  /\ length (fl_iat ex_iat) = 2 /\ length (write_file LT ex_iat) = 31
  /\ any_adv (fl_batches ex_adv) = true /\ r_kind (fl_ctl ex_adv) = "ADVFileControl".
Proof. vm_compute. repeat split; reflexivity. Qed.

(* obtained FROM the theorems *)
Example ex_std_roundtrip : read_file LT (write_file_padded LT ex_std) = Some (parsed_file LT ex_std).
Proof. destruct (hyps_split _ ex_std_hyps) as (H1 & _ & H3 & _). now apply file_roundtrip_padded. Qed.
Example ex_iat_roundtrip : read_file LT (write_file_padded LT ex_iat) = Some (parsed_file LT ex_iat).
Proof. destruct (hyps_split _ ex_iat_hyps) as (H1 & _ & H3 & _). now apply file_roundtrip_padded. Qed.
Example ex_adv_roundtrip : read_file LT (write_file_padded LT ex_adv) = Some (parsed_file LT ex_adv).
Proof. destruct (hyps_split _ ex_adv_hyps) as (H1 & _ & H3 & _). now apply file_roundtrip_padded. Qed.
Example ex_std_fixed : write_file LT (parsed_file LT ex_std) = write_file LT ex_std.
Proof. destruct (hyps_split _ ex_std_hyps) as (H1 & H2 & H3 & _). now apply file_fixed_point_parsed. Qed.

(* CR LF after every record, a blank line after the third, two leading line breaks *)
Definition crlf_layout (ls : list bytes) : list (bytes * list junk_item) :=
  map (fun l => (l, [JNl CR; JNl LF])) (firstn 3 ls)
  ++ map (fun l => (l, [JNl CR; JNl LF; JBlank 5 LF])) (firstn 1 (skipn 3 ls))
  ++ map (fun l => (l, [JNl LF])) (skipn 1 (skipn 3 ls)).

Example ex_std_text :
  read_text LT (junk_bytes [JNl LF; JNl LF] ++ text_of (crlf_layout (write_file_padded LT ex_std)))
  = Some (parsed_file LT ex_std).
Proof.
  destruct (hyps_split _ ex_std_hyps) as (H1 & _ & H3 & H4).
  apply (file_text_roundtrip ex_std (pad_count (length (record_lines (struct_of LT ex_std))))); try assumption.
  - unfold crlf_layout. rewrite !map_app, !map_map. cbn [fst]. rewrite !map_id.
    change (write_file LT ex_std ++ repeat nines (pad_count (length (record_lines (struct_of LT ex_std)))))
      with (write_file_padded LT ex_std).
    generalize (write_file_padded LT ex_std) as ls. intros ls.
    transitivity (firstn 3 ls ++ skipn 3 ls); [|apply firstn_skipn]. f_equal.
    apply firstn_skipn.
  - repeat constructor.
  - unfold crlf_layout. rewrite !Forall_app. repeat split; apply Forall_forall; intros p Hp;
      apply in_map_iff in Hp as (l & <- & _); cbn [snd]; repeat constructor; cbn; lia.
Qed.

(* ... and the same text evaluated directly *)
Example ex_std_text_computed :
  read_text LT (junk_bytes [JNl LF; JNl LF] ++ text_of (crlf_layout (write_file_padded LT ex_std)))
  = read_file LT (write_file LT ex_std).
Proof. vm_compute. reflexivity. Qed.

(* ---- the dispatch side conditions are needed ---- *)

(* addenda out of slot order: the tree says 05 then 02, the reader files the 02 first *)
Definition a02 : recordR :=
  mkRec "Addenda02" [("TypeCode", VS (bstr "02")); ("ReferenceInformationOne", VS (bstr "REFONEA")); ("ReferenceInformationTwo", VS (bstr "RE"))
    ; ("TerminalIdentificationCode", VS (bstr "200509")); ("TransactionSerialNumber", VS (bstr "123456")); ("TransactionDate", VS (bstr "0612"))
    ; ("AuthorizationCodeOrExpireDate", VS (bstr "A1B2C3")); ("TerminalLocation", VS (bstr "Target Store 0049")); ("TerminalCity", VS (bstr "PHILADELPHIA"))
    ; ("TerminalState", VS (bstr "PA")); ("TraceNumber", VS (bstr "902600920000001"))].

Definition add_to_first (a : recordR) (f : fileR) : fileR :=
  match fl_batches f with
  | mkBat h (mkEnt e as_ :: es) c :: bs => mkFil (fl_hdr f) (mkBat h (mkEnt e (as_ ++ [a]) :: es) c :: bs) (fl_iat f) (fl_ctl f)
  | _ => f
  end.

Lemma slot_order_needed :
  let f := add_to_first a02 ex_std in
  all_file (rec_fitsb LT) f = true /\ all_file (rec_stableb LT) f = true /\ dispatchb LT f = false
  /\ (exists g, read_file LT (write_file LT f) = Some g /\ g <> parsed_file LT f
               /\ map r_kind (en_addenda (hd (mkEnt a02 []) (bt_entries (hd (mkBat a02 [] a02) (fl_batches g)))))
                  = ["Addenda02"; "Addenda05"]).
Proof.
  cbv zeta. split; [vm_compute; reflexivity|]. split; [vm_compute; reflexivity|]. split; [vm_compute; reflexivity|].
  destruct (read_file LT (write_file LT (add_to_first a02 ex_std))) as [g|] eqn:E; [|vm_compute in E; discriminate E].
  exists g. split; [reflexivity|].
  assert (K : map r_kind (en_addenda (hd (mkEnt a02 []) (bt_entries (hd (mkBat a02 [] a02) (fl_batches g)))))
              = ["Addenda02"; "Addenda05"]).
  { vm_compute in E. injection E as <-. vm_compute. reflexivity. }
  split; [|exact K]. intros ->. vm_compute in K. discriminate K.
Qed.

(* an entry whose AddendaRecordIndicator is 0 but which carries an addenda: the reader reports
   ErrBatchAddendaIndicator *)
Definition clear_indicator (f : fileR) : fileR :=
  match fl_batches f with
  | mkBat h (mkEnt e as_ :: es) c :: bs =>
      mkFil (fl_hdr f) (mkBat h (mkEnt (mkRec (r_kind e) (("AddendaRecordIndicator", VI 0) :: r_val e)) as_ :: es) c :: bs)
            (fl_iat f) (fl_ctl f)
  | _ => f
  end.

Lemma indicator_needed :
  let f := clear_indicator ex_std in
  all_file (rec_fitsb LT) f = true /\ dispatchb LT f = false /\ read_file LT (write_file LT f) = None.
Proof. vm_compute. repeat split; reflexivity. Qed.

(* a refused-NOC change code in a plain Addenda98: the reader builds an Addenda98Refused *)
Definition recode98 (code : string) (f : fileR) : fileR :=
  mkFil (fl_hdr f)
    (map (map_batch (fun x => if String.eqb (r_kind x) "Addenda98"
                              then mkRec (r_kind x) (("ChangeCode", VS (bstr code)) :: r_val x) else x)) (fl_batches f))
    (fl_iat f) (fl_ctl f).

Lemma code_list_needed :
  let f := recode98 "C61" ex_std in
  all_file (rec_fitsb LT) f = true /\ dispatchb LT f = false
  /\ (exists g, read_file LT (write_file LT f) = Some g /\
        map (fun b => map (fun e => map r_kind (en_addenda e)) (bt_entries b)) (fl_batches g)
        = [[["Addenda05"]; ["Addenda05"]]; [["Addenda98Refused"]]])
  /\ dispatchb LT (recode98 "C07" ex_std) = true.
Proof.
  cbv zeta. split; [vm_compute; reflexivity|]. split; [vm_compute; reflexivity|]. split; [|vm_compute; reflexivity].
  destruct (read_file LT (write_file LT (recode98 "C61" ex_std))) as [g|] eqn:E; [|vm_compute in E; discriminate E].
  exists g. split; [reflexivity|]. vm_compute in E. injection E as <-. vm_compute. reflexivity.
Qed.

(* IAT detection: a standard batch header whose SEC columns read IAT is taken for an IAT header *)
Definition retag_sec (sec : string) (f : fileR) : fileR :=
  match fl_batches f with
  | mkBat h es c :: bs =>
      mkFil (fl_hdr f) (mkBat (mkRec (r_kind h) (("StandardEntryClassCode", VS (bstr sec)) :: r_val h)) es c :: bs) (fl_iat f) (fl_ctl f)
  | _ => f
  end.

Lemma iat_detection_needed :
  let f := retag_sec "IAT" ex_std in
  all_file (rec_fitsb LT) f = true /\ dispatchb LT f = false /\ read_file LT (write_file LT f) <> Some (parsed_file LT f).
Proof.
  cbv zeta. split; [vm_compute; reflexivity|]. split; [vm_compute; reflexivity|].
  vm_compute. discriminate.
Qed.

(* known finding roundtrip:dispatch:company-name-iatcor: a standard batch of a company named IATCOR
   is taken for an IAT (notification of change) header; every record-level hypothesis holds *)
Definition rename_company (name : string) (f : fileR) : fileR :=
  match fl_batches f with
  | mkBat h es c :: bs =>
      mkFil (fl_hdr f) (mkBat (mkRec (r_kind h) (("CompanyName", VS (bstr name)) :: r_val h)) es c :: bs) (fl_iat f) (fl_ctl f)
  | _ => f
  end.

Lemma company_iatcor_refuted :
  let f := rename_company "IATCOR" ex_std in
  all_file (rec_fitsb LT) f = true /\ all_file (rec_stableb LT) f = true /\ dispatchb LT f = false
  /\ iat_line (render_rec LT (bt_hdr (hd (mkBat a02 [] a02) (fl_batches f)))) = true
  /\ read_file LT (write_file LT f) <> Some (parsed_file LT f)
  /\ hyps (rename_company "IATCORP" ex_std) = true.
Proof.
  cbv zeta. split; [vm_compute; reflexivity|]. split; [vm_compute; reflexivity|]. split; [vm_compute; reflexivity|].
  split; [vm_compute; reflexivity|]. split; [vm_compute; discriminate|vm_compute; reflexivity].
Qed.

(* since the fix 272ca522 the detection counts characters: three 2-byte characters in the company
   name and a company identification ending in IAT do not disturb it (bytes 50..53 read "IAT") *)
Definition cafe_hdr (f : fileR) : fileR :=
  match fl_batches f with
  | mkBat h es c :: bs =>
      mkFil (fl_hdr f)
        (mkBat (mkRec (r_kind h) (("CompanyName", VS [67; 97; 102; 195; 169; 32; 195; 145; 97; 110; 100; 195; 186; 32; 83; 65]%N)
                                   :: ("CompanyIdentification", VS (bstr "1234567IAT")) :: r_val h)) es c :: bs)
        (fl_iat f) (fl_ctl f)
  | _ => f
  end.

Lemma iat_detection_multibyte :
  let f := cafe_hdr ex_std in
  hyps f = true
  /\ bsub (render_rec LT (bt_hdr (hd (mkBat a02 [] a02) (fl_batches f)))) 50 53 = bstr "IAT"
  /\ csub (render_rec LT (bt_hdr (hd (mkBat a02 [] a02) (fl_batches f)))) 50 53 = bstr "PPD"
  /\ detect1 (IByte, 50, 53, false, bstr "IAT") (render_rec LT (bt_hdr (hd (mkBat a02 [] a02) (fl_batches f)))) = true.
Proof. vm_compute. repeat split; reflexivity. Qed.

(* Reflection obligations for C11 over the tables regenerated from file.go,
   batch.go, iatBatch.go and validators.go. *)
From Coq Require Import ZArith NArith List Bool Lia.
Import ListNotations.
From ACH Require Import TxCodes RevTable SegTable Segment SegmentTable.
Open Scope Z_scope.

Definition ST : stables :=
  mkst seg_std_arms seg_iat_arms seg_adv_arms amount_std_arms amount_iat_arms amount_adv_arms
       seg_scc_std seg_scc_iat seg_standard_codes.

(* Reflection obligations for C11 over the tables regenerated from file.go,
   batch.go, iatBatch.go and validators.go, and the instances of the generic theorems. *)
From Coq Require Import ZArith NArith List Bool Lia Permutation.
Import ListNotations.
From ACH Require Import TxCodes RevTable SegTable Segment SegmentFacts SegmentSuccess SegmentTable.
Open Scope Z_scope.

Definition ST : stables :=
  mkst seg_std_arms seg_iat_arms seg_adv_arms amount_std_arms amount_iat_arms amount_adv_arms
       seg_scc_std seg_scc_iat seg_standard_codes.

(* each of the three segment switches sends every code where the arithmetic list of the
   same batch kind counts it (a code missing from a segment list would silently drop entries) *)
Lemma segment_lists_std_eq : lists_agree seg_std_arms amount_std_arms = true.
Proof. vm_compute. reflexivity. Qed.
Lemma segment_lists_iat_eq : lists_agree seg_iat_arms amount_iat_arms = true.
Proof. vm_compute. reflexivity. Qed.
Lemma segment_lists_adv_eq : lists_agree seg_adv_arms amount_adv_arms = true.
Proof. vm_compute. reflexivity. Qed.

(* mixed -> split into 220 / 225, 220 -> credit file, 225 -> debit file, for standard and IAT batches *)
Lemma segment_class_switches_ok : scc_ok seg_scc_std = true /\ scc_ok seg_scc_iat = true.
Proof. vm_compute. split; reflexivity. Qed.

(* the arithmetic lists follow the units-digit rule on, and give a direction to, every standard code *)
Lemma amount_lists_directed :
  amount_ok amount_std_arms seg_standard_codes = true /\ amount_ok amount_iat_arms seg_standard_codes = true
  /\ adv_codes_ok amount_adv_arms seg_standard_codes = true
  /\ entry_codes_directed amount_std_arms seg_standard_codes = true
  /\ entry_codes_directed amount_iat_arms seg_standard_codes = true.
Proof. vm_compute. repeat split. Qed.

Lemma ST_ok : seg_tables_ok ST = true.
Proof. vm_compute. reflexivity. Qed.

Lemma segment_lists_eq c :
  classify seg_std_arms c = classify amount_std_arms c /\
  classify seg_iat_arms c = classify amount_iat_arms c /\
  classify seg_adv_arms c = classify amount_adv_arms c.
Proof.
  split; [|split]; apply lists_agree_sound.
  - apply segment_lists_std_eq.
  - apply segment_lists_iat_eq.
  - apply segment_lists_adv_eq.
Qed.

Lemma segment_partition_ok f cf df :
  input_wf ST f = true -> segment ST f = SOk cf df -> partition ST f cf df.
Proof. apply segment_partition, ST_ok. Qed.

(* the former finding segment:batch-number-collision (fixed in the repository: split batches keep
   the number of the batch they come from): PPD batches of classes 225, 220, 200 numbered 1, 2, 3.
   Before the fix the credit file carried the numbers 2, 2 and SegmentFile failed; now the
   outputs carry 2, 3 and 1, 3 *)
Definition collision_file : sfile :=
  mksf 121042882 231380104
       [ mksb false 225 1 121042882 0 200 [mkentry 27 200 1%N 1%N]
       ; mksb false 220 2 121042882 100 0 [mkentry 22 100 2%N 1%N]
       ; mksb false 200 3 121042882 101 201 [mkentry 22 101 3%N 1%N; mkentry 27 201 4%N 2%N] ]
       [] 201 401.

Lemma segment_collision_fixed :
  validate ST collision_file = None /\ input_wf ST collision_file = true
  /\ match segment ST collision_file with
     | SOk cf df => map sb_num (sf_batches cf) = [2; 3] /\ map sb_num (sf_batches df) = [1; 3]
     | SErr _ => False
     end.
Proof. vm_compute. repeat split. Qed.

(* non-vacuity: a valid file with a mixed, a credits-only standard batch and a mixed IAT batch that segments *)
Definition ex_file : sfile :=
  mksf 121042882 231380104
       [ mksb false 200 1 121042882 100 207 [mkentry 22 100 1%N 1%N; mkentry 27 200 2%N 2%N; mkentry 56 7 3%N 3%N]
       ; mksb false 220 2 76401251 5 0 [mkentry 33 0 4%N 1%N; mkentry 51 5 5%N 2%N] ]
       [ mksb false 200 3 123456789 9 11 [mkentry 42 9 6%N 4%N; mkentry 47 11 7%N 5%N] ]
       114 218.

Example ex_file_hyps : input_wf ST ex_file = true /\ validate ST ex_file = None.
Proof. vm_compute. split; reflexivity. Qed.

Example ex_file_segments :
  segment ST ex_file =
  SOk (mksf 121042882 231380104
         [ mksb false 220 1 121042882 100 0 [mkentry 22 100 1%N 1%N]
         ; mksb false 220 2 76401251 5 0 [mkentry 33 0 4%N 1%N; mkentry 51 5 5%N 2%N] ]
         [ mksb false 220 3 123456789 9 0 [mkentry 42 9 6%N 1%N] ] 114 0)
      (mksf 121042882 231380104
         [ mksb false 225 1 121042882 0 207 [mkentry 27 200 2%N 2%N; mkentry 56 7 3%N 3%N] ]
         [ mksb false 225 2 123456789 0 11 [mkentry 47 11 7%N 1%N] ] 0 218).
Proof. vm_compute. reflexivity. Qed.

(* SegmentFile succeeds whenever the numbers File.Create leaves on both outputs are ascending:
   nothing else can make it fail on a valid input *)
Lemma segment_succeeds_ok f :
  validate ST f = None -> input_wf ST f = true -> numbers_ok ST f = true ->
  exists cf df, segment ST f = SOk cf df.
Proof. apply segment_succeeds, ST_ok. Qed.

(* the side condition holds for the example and for the former collision witness *)
Example numbers_ok_examples : numbers_ok ST ex_file = true /\ numbers_ok ST collision_file = true.
Proof. vm_compute. split; reflexivity. Qed.

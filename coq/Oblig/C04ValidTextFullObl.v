(* C04, phase 7: the two text-level theorems on the validating reader that phase 6 left _partial,
   on the tables of this run (LT = Gen/Layouts.v, RT = Gen/RecRules.v, AT = Gen/Tables.v).

     c04_tamper_keeps                  one digit of a protected column replaced: the tampered lines are
                                       still a typed structured file of well-formed 94-character lines on
                                       which the two readers agree (Model/TamperValidSurgery.v)
     c04_valid_reader_tamper_text_full C04_valid_reader_tamper_text without the three hypotheses
     (truncation: Oblig/C04ValidTruncObl.v)                                                             *)
From Coq Require Import String List Lia NArith ZArith Bool.
From ACH Require Import Arith ArithFacts LayoutFacts NumFacts FileStructFacts.
From ACH Require Import TamperText TamperTextFacts TamperTextLift TruncFacts TruncBytes TruncUtf8 TruncUtf8Facts.
From ACH Require Import ReaderSkel ReaderSkelFacts TamperValidFacts TamperValidSurgery.
From ACH Require Import Tables C01Obl C03Obl C04TextObl C04Utf8Obl C01FileEx C01FileObl C01ValidObl C04ValidTextObl.
Import ListNotations.
Local Open Scope string_scope.
Local Open Scope nat_scope.
Local Open Scope list_scope.

(* every protected column lies behind the record type character *)
Lemma protected_behind_type : forallb (fun p => 1 <=? p_lo p) protected_columns = true.
Proof. vm_compute. reflexivity. Qed.

Lemma pcol_lo_ge1 p : In p protected_columns -> 1 <= p_lo p.
Proof.
  intros H. pose proof protected_behind_type as A. rewrite forallb_forall in A. apply Nat.leb_le. now apply A.
Qed.

(* the lemma phase 6 named as missing, for a digit of a protected column: the columns of a batch
   header that are protected (ODFI 79..87, batch number 87..94) lie behind the columns both readers
   decide the batch kind on (characters / bytes 4..20 and 50..53) *)
Theorem c04_tamper_keeps s site p line j d :
  file_typed s = true -> utf8_records s -> bridge_okb LT s = true ->
  In p protected_columns -> site_class s site = Some (p_class p) -> site_line s site = Some line ->
  j < p_hi p - p_lo p -> is_digit d = true ->
  digitsb (column line (p_lo p) (p_hi p)) = true ->
  nth j (column line (p_lo p) (p_hi p)) 0%N <> d ->
  (p_kind p = CKNum -> (digits_val (column line (p_lo p) (p_hi p)) 0 < max_int64)%Z) ->
  let s' := tamper s site (p_lo p + j) d in
  file_typed s' = true /\ utf8_records s' /\ bridge_okb LT s' = true.
Proof.
  intros Ht Hu Hb Hin Hsc Hsl Hj Hd Hdig Hne Hmax s'.
  pose proof (pcol_lo_ge1 p Hin) as Hlo. destruct (pcol_in_ok p Hin) as [Hpok Hlok].
  pose proof (site_line_uline s site line Hu Hsl) as (Hwf & Hn & _).
  apply (tamper_keeps LT s site (p_lo p + j) d line Hsl ltac:(lia) Hd); try assumption.
  intros bi ->. cbn [site_class site_line] in Hsc, Hsl.
  destruct (nth_error (f_batches s) bi) as [b|] eqn:Eb; [|discriminate].
  cbn [option_map] in Hsc, Hsl. injection Hsc as Hsc. injection Hsl as Hsl. rewrite Hsl in Hsc.
  destruct (class_hdr p (kind_of_hdr line) Hin (eq_sym Hsc)) as [H79 _].
  split; [lia|].
  apply (kind_of_hdr_tampered AT p Hin Hpok Hlok line Hwf Hn j d Hj Hd Hdig Hne Hmax H79).
  intros Hk. unfold p_layout. rewrite <- Hsc. cbn [class_layout]. destruct (kind_of_hdr line); [reflexivity|congruence|reflexivity].
Qed.

(* C04_valid_reader_tamper_text: a written text that Read + Validate accept; one digit of one
   protected column of one of its lines replaced by another digit: Read + Validate do not accept the
   tampered text (as the original or as anything else) *)
Theorem c04_valid_reader_tamper_text_full s le g0 site p line j d :
  le_ok le -> file_typed s = true -> utf8_records s -> bridge_okb LT s = true ->
  accepts LT RT AT (write le s) = Some g0 ->
  Forall (batch_regular AT) (all_batches (skel s)) ->
  In p protected_columns -> site_class s site = Some (p_class p) -> site_line s site = Some line ->
  j < p_hi p - p_lo p -> is_digit d = true ->
  digitsb (column line (p_lo p) (p_hi p)) = true ->
  nth j (column line (p_lo p) (p_hi p)) 0%N <> d ->
  (p_kind p = CKNum -> (digits_val (column line (p_lo p) (p_hi p)) 0 < max_int64)%Z) ->
  accepts LT RT AT (write le (tamper s site (p_lo p + j) d)) = None.
Proof.
  intros Hle Ht Hu Hb Ha Hreg Hin Hsc Hsl Hj Hd Hdig Hne Hmax.
  pose proof (site_line_uline s site line Hu Hsl) as (Hwf & Hn & _).
  destruct (c04_tamper_keeps s site p line j d Ht Hu Hb Hin Hsc Hsl Hj Hd Hdig Hne Hmax) as (Ht' & Hu' & Hb').
  exact (c04_valid_reader_tamper_text_line s le g0 site p line j d Hle Ht Hu Hb Ha Hreg Hin Hsc Hsl Hwf Hn Hj Hd Hdig Hne Hmax
           Ht' Hu' Hb').
Qed.

(* ... the line written through its layout from a record that fits *)
Theorem c04_valid_reader_tamper_text_rendered_full s le g0 site p r j d :
  le_ok le -> file_typed s = true -> utf8_records s -> bridge_okb LT s = true ->
  accepts LT RT AT (write le s) = Some g0 ->
  Forall (batch_regular AT) (all_batches (skel s)) ->
  In p protected_columns -> site_class s site = Some (p_class p) ->
  site_line s site = Some (render (p_layout p) r) -> fitsb (p_layout p) r = true -> col_value_ok p r ->
  j < p_hi p - p_lo p -> is_digit d = true ->
  nth j (column (render (p_layout p) r) (p_lo p) (p_hi p)) 0%N <> d ->
  accepts LT RT AT (write le (tamper s site (p_lo p + j) d)) = None.
Proof.
  intros Hle Ht Hu Hb Ha Hreg Hin Hsc Hsl Hfit Hval Hj Hd Hne. destruct (pcol_in_ok p Hin) as [A B].
  destruct (rendered_column p r B A Hfit Hval) as (Hwf & Hn & Hdig & Hmax & _).
  now apply (c04_valid_reader_tamper_text_full s le g0 site p (render (p_layout p) r) j d).
Qed.

(* ---- the phase-6 lemma exactly as it was stated: no condition on a header but 53 <= col ---------- *)

(* BatchHeader.Parse cuts the SEC code at characters [50, 53), rune indexed, layout well formed *)
Definition bh_sec : cut := match find_key (l_cuts L_BatchHeader) "StandardEntryClassCode" with Some c => c | None => mkcut 0 0 "" [] end.

Lemma bh_sec_cut : layout_ok L_BatchHeader = true /\ l_ix L_BatchHeader = IRune
  /\ find_key (l_cuts L_BatchHeader) "StandardEntryClassCode" = Some bh_sec /\ (c_lo bh_sec, c_hi bh_sec) = (50, 53).
Proof. vm_compute. repeat split; reflexivity. Qed.

Theorem c04_tamper_keeps_general s site col d l : site_line s site = Some l ->
  1 <= col -> is_digit d = true ->
  (forall bi, site = SBatchHdr bi -> 53 <= col) ->
  file_typed s = true -> utf8_records s -> bridge_okb LT s = true ->
  file_typed (tamper s site col d) = true /\ utf8_records (tamper s site col d) /\ bridge_okb LT (tamper s site col d) = true.
Proof.
  destruct bh_sec_cut as (Hok & Hix & Hsec & Hcols).
  apply (tamper_keeps_general Hok Hix bh_sec Hsec). pose proof (f_equal snd Hcols) as Hhi. cbn [snd] in Hhi. rewrite Hhi. apply Nat.le_refl.
Qed.

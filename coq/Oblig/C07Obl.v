(* C07 obligations on the table regenerated from the source (Gen/JsonTags.v). *)
From Coq Require Import String List Bool ZArith NArith.
Import ListNotations.
From ACH Require Import Bytes JsonCodec JsonCodecFacts JsonTags.
Open Scope string_scope.

(* The fields of the File type tree whose local survival condition can fail for
   some value, as computed by the checker; each is either a known finding or is
   harmless for the NACHA text (docs/C07.md lists the reason per field):
   - unexported fields that decoding restores or that never change
     (FileHeader constants, record-level validateOpts, Batch.id / category);
   - Batch.ADVControl: omitempty + pre-populated, not rendered for non-ADV batches,
     rebuilt by build() for ADV batches;
   - File.ADVControl (written as fileADVControl, read as advFileControl): rebuilt by Create;
   - File.NotificationOfChange / ReturnEntries: views of Batches, written but never read;
   - FileHeader.FileIDModifier: omitempty with default "A" — an empty modifier fails validation;
   - Addenda98.iatCorrectedData: KNOWN FINDING json:unexported:Addenda98.iatCorrectedData. *)
Definition excused : list (string * string) :=
  [ ("FileHeader", "priorityCode"); ("FileHeader", "FileIDModifier"); ("FileHeader", "recordSize");
    ("FileHeader", "blockingFactor"); ("FileHeader", "formatCode"); ("FileHeader", "validateOpts");
    ("Batch", "id"); ("Batch", "ADVControl"); ("Batch", "category"); ("Batch", "validateOpts");
    ("IATBatch", "category"); ("IATBatch", "validateOpts");
    ("BatchHeader", "validateOpts"); ("BatchControl", "validateOpts"); ("ADVBatchControl", "validateOpts");
    ("EntryDetail", "validateOpts"); ("ADVEntryDetail", "validateOpts");
    ("IATBatchHeader", "validateOpts"); ("IATEntryDetail", "validateOpts");
    ("Addenda02", "validateOpts"); ("Addenda05", "validateOpts");
    ("Addenda10", "validateOpts"); ("Addenda11", "validateOpts"); ("Addenda12", "validateOpts");
    ("Addenda13", "validateOpts"); ("Addenda14", "validateOpts"); ("Addenda15", "validateOpts");
    ("Addenda16", "validateOpts"); ("Addenda17", "validateOpts"); ("Addenda18", "validateOpts");
    ("Addenda99", "validateOpts"); ("Addenda99Contested", "validateOpts"); ("Addenda99Dishonored", "validateOpts");
    ("Addenda98", "iatCorrectedData");
    ("File", "ADVControl"); ("File", "NotificationOfChange"); ("File", "ReturnEntries");
    ("ValidateOpts", "CheckTransactionCode") ].

(* of those, the unexported fields that String() / ...Field() read: exactly the FileHeader
   constants, the header's option pointer (restored by File.SetValidation) and the known finding *)
Definition rendered_unexported (t : ty) : list (string * string) :=
  match t with
  | TStruct n fs => flat_map (fun mf => if f_rendered (fst mf) then [(n, f_name (fst mf))] else []) fs
  | _ => []
  end.

Lemma file_type_wf : wf T_File = true.
Proof. vm_compute. reflexivity. Qed.

Lemma file_start_typed : typed T_File (start T_File) = true.
Proof. vm_compute. reflexivity. Qed.

Lemma table_ok : tags_ok excused T_File (start T_File) = true.
Proof. vm_compute. reflexivity. Qed.

(* the excuse list is tight: every excused field is reported by the checker *)
Lemma excused_all_needed : forallb (fun p => inb p (problems T_File (start T_File))) excused = true.
Proof. vm_compute. reflexivity. Qed.

Lemma rendered_unexported_fields :
  flat_map (fun nt => rendered_unexported (snd nt)) json_structs =
  [ ("FileHeader", "priorityCode"); ("FileHeader", "recordSize"); ("FileHeader", "blockingFactor"); ("FileHeader", "formatCode");
    ("FileHeader", "validateOpts");   (* ImmediateOriginField / ImmediateDestinationField consult the bypass options; File.SetValidation restores it *)
    ("Addenda98", "iatCorrectedData") ].
Proof. vm_compute. reflexivity. Qed.

(* ValidateOpts: every boolean field is written, read back under the same key and ORed by merge *)
Lemma opts_merge_complete : opts_merge_fields = opts_bool_fields.
Proof. vm_compute. reflexivity. Qed.

Lemma opts_type_clean : problems T_ValidateOpts (start T_ValidateOpts) = [("ValidateOpts", "CheckTransactionCode")].
Proof. vm_compute. reflexivity. Qed.

Lemma offset_type_clean : problems T_Offset (start T_Offset) = [] /\ wf T_Offset = true.
Proof. vm_compute. split; reflexivity. Qed.

(* ------------------------------------------------------------ instantiation on the regenerated File type *)

(* what still has to hold of a value for the excused fields *)
Definition excused_conditions (v : val) : bool := safe_sel (sel_of excused) T_File (start T_File) v.

Lemma file_codec_iff v :
  typed T_File v = true ->
  (dec T_File (start T_File) (enc T_File v) = v <-> safeb T_File (start T_File) v = true).
Proof. intros Hv. apply codec_roundtrip; [exact file_type_wf | exact file_start_typed | exact Hv]. Qed.

Lemma file_codec_excused v :
  typed T_File v = true -> excused_conditions v = true ->
  dec T_File (start T_File) (enc T_File v) = v.
Proof.
  intros Hv He. eapply codec_roundtrip_excused; [exact file_type_wf | exact file_start_typed | exact Hv | exact table_ok | exact He].
Qed.

(* ValidateOpts and Offset: every typed value survives (no condition at all except the func field being nil) *)
Ltac c07_absurd Hv :=
  exfalso; repeat match goal with x : val |- _ => destruct x end; vm_compute in Hv; discriminate.

Lemma offset_survives v :
  typed T_Offset v = true -> dec T_Offset (start T_Offset) (enc T_Offset v) = v.
Proof.
  intros Hv. apply codec_roundtrip; try assumption; try (vm_compute; reflexivity).
  destruct v as [s|z|b| |vs|xs|]; try (vm_compute in Hv; discriminate).
  destruct vs as [|x1 vs]; [c07_absurd Hv|].
  destruct vs as [|x2 vs]; [c07_absurd Hv|].
  destruct vs as [|x3 vs]; [c07_absurd Hv|].
  destruct vs as [|x4 vs]; [c07_absurd Hv|].
  destruct vs as [|x5 vs].
  - destruct x1, x2, x3, x4; try (vm_compute in Hv; discriminate). reflexivity.
  - exfalso. destruct x1, x2, x3, x4; vm_compute in Hv; discriminate.
Qed.

(* the 18 booleans of a ValidateOpts value (CheckTransactionCode nil) as a model value *)
Definition opts_val (bs : list bool) : val :=
  match bs with
  | b1 :: b2 :: b3 :: b4 :: rest => VRec ([VBool b1; VBool b2; VBool b3; VBool b4; VNil] ++ map VBool rest)
  | _ => VNil
  end.

Lemma opts_survive bs :
  length bs = length opts_bool_fields ->
  typed T_ValidateOpts (opts_val bs) = true /\
  dec T_ValidateOpts (start T_ValidateOpts) (enc T_ValidateOpts (opts_val bs)) = opts_val bs.
Proof.
  intros Hl. vm_compute in Hl.
  do 18 (destruct bs as [|? bs]; [discriminate|]). destruct bs; [|discriminate].
  split; [reflexivity|].
  apply codec_roundtrip; try (vm_compute; reflexivity).
Qed.

(* a file stores its options under the key the decoder reads, and a batch its offset *)
Lemma opts_offset_keys :
  (exists m, In (m, TPtr T_ValidateOpts) (match T_File with TStruct _ fs => fs | _ => [] end)
             /\ f_enc m = Some "validateOpts" /\ f_dec m = Some "validateOpts" /\ f_omit m = false) /\
  (exists m, In (m, TPtr T_Offset) (match T_Batch with TStruct _ fs => fs | _ => [] end)
             /\ f_enc m = Some "offset" /\ f_dec m = Some "offset" /\ f_omit m = false).
Proof.
  split; eexists; (split; [cbn; eauto 20 | cbn; auto]).
Qed.

(* ------------------------------------------------------------ non-vacuity and refuted witnesses *)

(* the start value itself is a typed File satisfying every excused condition *)
Example start_file_ok : typed T_File (start T_File) = true /\ excused_conditions (start T_File) = true.
Proof. vm_compute. split; reflexivity. Qed.

(* Addenda98 with the IAT corrected-data extension set does not survive (known finding) *)
Definition a98_witness : val :=
  VRec [VStr []; VStr [57;56]%N; VStr [67;48;49]%N; VStr []; VStr []; VStr [49]%N; VInt 0;
        VStr [73;65;84]%N; VStr []; VRec []; VRec []].

Lemma addenda98_iat_refuted :
  typed T_Addenda98 a98_witness = true /\
  dec T_Addenda98 (start T_Addenda98) (enc T_Addenda98 a98_witness) <> a98_witness.
Proof. split; [vm_compute; reflexivity|]. vm_compute. discriminate. Qed.

(* the omitempty + non-zero default pattern (what BatchHeader.OriginatorStatusCode was before the fix):
   in a two-field table it loses the zero value *)
Definition T_omit_demo : ty :=
  TStruct "demo" [ (mkF "Status" (Some "status") (Some "status") true (Some (VInt 1)) false, TInt) ].

Lemma omitempty_default_refuted :
  wf T_omit_demo = true /\ problems T_omit_demo (start T_omit_demo) = [("demo", "Status")] /\
  dec T_omit_demo (start T_omit_demo) (enc T_omit_demo (VRec [VInt 0])) = VRec [VInt 1].
Proof. vm_compute. repeat split; reflexivity. Qed.

(* a bare non-ADV batch (ADVControl nil) does not survive at struct level: Batch.UnmarshalJSON pre-populates it *)
Lemma batch_advcontrol_refuted :
  exists v, typed T_Batch v = true /\ safeb T_Batch (start T_Batch) v = false.
Proof.
  exists (VRec [VStr []; VNil; VArr []; VNil; VArr []; VNil; VNil; VStr []; VRec []; VNil]).
  vm_compute. split; reflexivity.
Qed.

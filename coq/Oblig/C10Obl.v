(* C10 — obligations on the tables regenerated from merge.go, and the instances of the
   generic theorems for the code as it stands. *)
From Coq Require Import String List NArith Bool Arith Permutation.
Import ListNotations.
From ACH Require Import Bytes Walk WalkFacts MergeDirTable MergeDirGen MergeDir MergeDirFacts MergeDirTrace MergeDirTraceFacts.

(* ---- reflection obligations *)
Definition mergedir_sel : bool := shape_sel mergedir_sends mergedir_group_ctx.

Lemma mergedir_sel_true : mergedir_sel = true.
Proof. vm_compute. reflexivity. Qed.

(* the parsers seed the shared accumulator (header, options) inside a sync.Once and touch it nowhere else:
   the protocol model's single atomic seeding step that happens before every hand-off to the merger *)
Lemma mergedir_shared_writes_ok : shared_writes_ok mergedir_shared_writes = true.
Proof. vm_compute. reflexivity. Qed.

(* no goroutine MergeDir starts assigns to a variable it captures (the parser literal runs ParseWorkers times at once):
   the goroutines communicate through the channels, the once-seeded accumulator and the errgroup only *)
Lemma mergedir_no_captured_writes : mergedir_captured_writes = [].
Proof. vm_compute. reflexivity. Qed.

Lemma walkdir_loop_complete : loop_complete walkdir_early_returns = true.
Proof. vm_compute. reflexivity. Qed.

Lemma acceptor_table_ok : acceptor_ok acceptor_table acceptor_default acceptor_tag_ok = true.
Proof. vm_compute. reflexivity. Qed.

(* ---- the models selected by the tables *)
Definition default_accept (p : bytes) : acceptance := accept_with acceptor_table acceptor_default p.
Definition walk_as_coded (sub : bool) (prefix : path) (items : list node) : list path :=
  if loop_complete walkdir_early_returns then walk sub prefix items else walk_unfixed sub prefix items.

Lemma default_accept_spec p : default_accept p = spec_accept p.
Proof. apply acceptor_ok_sound with (tag_ok := acceptor_tag_ok). exact acceptor_table_ok. Qed.

Lemma walk_as_coded_complete sub items p : In p (walk_as_coded sub [] items) <-> reach sub p items.
Proof.
  unfold walk_as_coded. rewrite walkdir_loop_complete, walk_complete. cbn. split.
  - intros (q & -> & R). exact R.
  - intros R. eauto.
Qed.

Lemma walk_as_coded_nodup sub items : well_formed items = true -> NoDup (walk_as_coded sub [] items).
Proof. unfold walk_as_coded. rewrite walkdir_loop_complete. apply walk_nodup. Qed.

Definition accepted_as_coded (sub : bool) (items : list node) : list path :=
  filter (fun p => match default_accept (last p []) with Skip => false | _ => true end) (walk_as_coded sub [] items).

Lemma accepted_as_coded_eq sub items : accepted_as_coded sub items = accepted_paths sub items.
Proof.
  unfold accepted_as_coded, accepted_paths, walk_as_coded. rewrite walkdir_loop_complete.
  apply filter_ext. intros p. unfold accepted. now rewrite default_accept_spec.
Qed.

Lemma accepted_as_coded_complete sub items p :
  In p (accepted_as_coded sub items) <-> reach sub p items /\ accepted p = true.
Proof. rewrite accepted_as_coded_eq. apply accepted_paths_complete. Qed.

Lemma accepted_as_coded_nodup sub items : well_formed items = true -> NoDup (accepted_as_coded sub items).
Proof. rewrite accepted_as_coded_eq. apply accepted_paths_nodup. Qed.

(* ---- protocol, with the [sel] the source has *)
Lemma error_terminates parse add_ok n paths sched s : 1 <= n ->
  run mergedir_sel parse add_ok sched (init n paths) = Some s -> terminal s = false ->
  exists l, fire mergedir_sel parse add_ok l s <> None.
Proof. intros Hn. apply progress_sel; auto using mergedir_sel_true. Qed.

(* non-vacuity: an erroring run of the fixed protocol that terminates with RErr *)
Example error_run_terminates :
  option_map (fun s => (terminal s, result_of s))
    (run mergedir_sel bad_parse (fun _ => true)
       [LHand 0; LStart 0; LParse 0; LWalkerCancel; LWalkerDone; LPathsCancel; LParseCancel; LMergerExit]
       (init 1 [1; 2]%N)) = Some (true, RErr).
Proof. vm_compute. reflexivity. Qed.

(* non-vacuity of trace acceptance: two workers overlap on files 1 and 2, 3 is skipped *)
Example trace_demo :
  accept_trace mergedir_sel 2 [(1, POk 101); (2, POk 102); (3, PSkip)]%N [1; 2; 3]%N
    [EStart 2; EStart 1; EDone 1; EStart 3; EDone 3; EDone 2]%N (Some [102; 101]%N) = true
  /\ accept_trace mergedir_sel 1 [(1, POk 101); (2, POk 102)]%N [1; 2]%N
    [EStart 1; EStart 2; EDone 1; EDone 2]%N (Some [102; 101]%N) = false
  /\ accept_trace mergedir_sel 1 [(1, PErr); (2, POk 102)]%N [1; 2]%N
    [EStart 1; EDone 1]%N None = true
  /\ accept_trace mergedir_sel 1 [(1, PErr); (2, POk 102)]%N [1; 2]%N
    [EStart 1; EDone 1; EStart 2; EDone 2]%N (Some [102]%N) = false.
Proof. vm_compute. repeat split. Qed.

(* a trace recorded on the real MergeDir (3 workers; path 5 = sub/sub/data.ach unparseable, path 6
   in the same sub-directory, path 7 back in the root): after the failure the walker abandons the
   sub-directory (path 6 is never handed out) but its caller's loop still hands out path 7.
   Accepted since LWalkerCancel drops one path at a time instead of ending the walk *)
Example trace_walker_abandons_subdirectory :
  accept_trace mergedir_sel 3 [(1, POk 101); (2, POk 102); (3, POk 103); (4, POk 104); (5, PErr); (6, PSkip); (7, PSkip)]%N
    [1; 2; 3; 4; 5; 6; 7]%N
    [EStart 1; EStart 3; EStart 2; EDone 1; EStart 4; EDone 2; EStart 5; EDone 5; EDone 3; EStart 7; EDone 7; EDone 4]%N None = true.
Proof. vm_compute. reflexivity. Qed.

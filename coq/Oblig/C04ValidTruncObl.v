(* C04, phase 7: C04_valid_reader_truncation on the tables of this run.

     c04_read_none_not_accepted   the lemma phase 6 named as missing: a byte prefix of a written text the
                                  STRUCTURAL reader does not read is not accepted by Read + Validate
     c04_valid_reader_truncation  every proper byte prefix of the written text of an accepted file is
                                  not accepted, or accepted with the protected values of the original
     c04_valid_reader_truncation_filler   which of the two, for every prefix that ends behind the control
                                  record: the SAME tree, except when a filler line is cut after its first
                                  character ("9" and blanks is a second file control record)             *)
From Coq Require Import String List Lia NArith ZArith Bool.
From ACH Require Import Arith ArithFacts LayoutFacts NumFacts FileStructFacts.
From ACH Require Import TamperText TamperTextFacts TamperTextLift TruncFacts TruncBytes TruncUtf8 TruncUtf8Facts.
From ACH Require Import ReaderSkel ReaderSkelFacts TamperValidFacts TruncValidFacts.
From ACH Require Import Tables C01Obl C03Obl C04TextObl C04Utf8Obl C01FileEx C01FileObl C01ValidObl C04ValidTextObl.
Import ListNotations.
Local Open Scope string_scope.
Local Open Scope nat_scope.
Local Open Scope list_scope.

(* Read + Validate on a text whose lines are known *)
Lemma accepts_lines text ls : all_lines (read_lines text) = Some ls ->
  accepts LT RT AT text = match read_file_valid LT RT AT ls with
                          | Some (g, false) => if is_rok (validate_file AT (p_file g)) then Some g else None
                          | _ => None
                          end.
Proof. intros H. unfold accepts, read_text_valid. now rewrite norm_all_lines, H. Qed.

(* lines the reader without validation does not read are not accepted *)
Lemma not_read_not_accepted text ls : all_lines (read_lines text) = Some ls -> read_file LT ls = None ->
  accepts LT RT AT text = None.
Proof.
  intros Hls Hn. destruct (accepts LT RT AT text) as [g|] eqn:E; [exfalso|reflexivity].
  destruct (accepted_lines _ _ E) as (ls' & Hls' & Hr & _). rewrite Hls in Hls'. injection Hls' as <-.
  pose proof (c01_valid_reader_refines _ _ Hr) as Hrf. now rewrite Hn in Hrf.
Qed.

Lemma record_lines_body s : record_lines s = body s ++ [f_ctl s].
Proof. reflexivity. Qed.

(* the lines of a proper byte prefix of a written text, with the reason of the verdict *)
Lemma prefix_class s le k : le_ok le -> file_typed s = true -> utf8_records s -> starts99 (f_ctl s) = false ->
  k < length (write le s) ->
  exists L, all_lines (read_lines (firstn k (write le s))) = Some L /\ cut_class s L.
Proof.
  intros Hle Ht Hu H99 Hk. rewrite write_text_of in *.
  destruct (lines_prefix_u le (physical_lines s) k Hle (physical_u s Hu) Hk) as (i & c & j & Hi & Hc & Hj & Hcj & E).
  eexists. split; [exact E|]. exact (dispatch_truncated_u_why s Ht H99 Hu i c j Hi Hc Hj Hcj).
Qed.

Lemma class_rejected s text L : file_typed s = true -> starts99 (f_ctl s) = false ->
  all_lines (read_lines text) = Some L -> cut_class s L -> read_struct L = None -> accepts LT RT AT text = None.
Proof.
  intros Ht H99 HL Hcl Hn. destruct Hcl as [Hno|pre x -> Hx|n x -> X9 X99|n tl _ _ Hr|c j _ _ _ _ _ Hr].
  - exact (not_accepted_without_ctl _ _ HL (not_T9_not_ctl _ Hno)).
  - exact (not_read_not_accepted _ _ HL (read_file_spill LT pre x Hx)).
  - apply (not_read_not_accepted _ _ HL). rewrite record_lines_body.
    exact (read_file_second_ctl LT (body s) (f_ctl s) n x (ctl_T9_u s Ht) H99 X9 X99).
  - congruence.
  - congruence.
Qed.

(* the second missing lemma of phase 6 (for every byte offset; the cases behind the start of the
   control record are CutSpill and CutSecond) *)
Theorem c04_read_none_not_accepted s le k :
  le_ok le -> file_typed s = true -> utf8_records s -> starts99 (f_ctl s) = false -> k < length (write le s) ->
  TamperText.read_text (firstn k (write le s)) = None -> accepts LT RT AT (firstn k (write le s)) = None.
Proof.
  intros Hle Ht Hu H99 Hk Hn. destruct (prefix_class s le k Hle Ht Hu H99 Hk) as (L & HL & Hcl).
  apply (class_rejected s _ L Ht H99 HL Hcl). unfold TamperText.read_text in Hn. now rewrite HL in Hn.
Qed.

(* C04_valid_reader_truncation: every proper byte prefix of the written text of an accepted file is
   not accepted, or accepted as a file with exactly the protected values of the original *)
Theorem c04_valid_reader_truncation s le k g0 :
  le_ok le -> file_typed s = true -> utf8_records s -> bridge_okb LT s = true ->
  accepts LT RT AT (write le s) = Some g0 -> k < length (write le s) ->
  accepts LT RT AT (firstn k (write le s)) = None
  \/ exists g, accepts LT RT AT (firstn k (write le s)) = Some g /\ p_file g = p_file g0.
Proof.
  intros Hle Ht Hu Hb Ha Hk.
  destruct (accepted_struct s le g0 Hle Ht Hu Hb Ha) as (H99 & _ & _).
  destruct (accepts LT RT AT (firstn k (write le s))) as [g|] eqn:E; [right|now left].
  exists g. split; [reflexivity|].
  apply (c04_valid_reader_truncation_partial s le k g0 g Hle Ht Hu Hb Ha Hk E).
  intros Hn. rewrite (c04_read_none_not_accepted s le k Hle Ht Hu H99 Hk Hn) in E. discriminate.
Qed.

(* ---- which of the two, behind the control record ------------------------------------------------- *)

Lemma Forall_uline_filled s n : utf8_records s -> Forall uline (record_lines s ++ repeat nines n).
Proof. intros Hu. apply Forall_app. split; [exact Hu|]. apply Forall_repeat. exact (good_uline nines nines_good). Qed.

Lemma written_split le s n : n < pad_count (length (record_lines s)) ->
  exists rest, write le s = text_of le (record_lines s ++ repeat nines n) ++ (nines ++ le) ++ rest.
Proof.
  intros Hn. rewrite write_text_of. unfold physical_lines.
  set (pc := pad_count (length (record_lines s))) in *.
  replace pc with (n + S (pc - n - 1)) by lia. rewrite repeat_app. cbn [repeat].
  rewrite app_assoc, text_of_app. exists (text_of le (repeat nines (pc - n - 1))). reflexivity.
Qed.

Lemma firstn_written_filler le s n c : n < pad_count (length (record_lines s)) -> c <= 94 ->
  firstn (length (text_of le (record_lines s ++ repeat nines n)) + c) (write le s)
  = text_of le (record_lines s ++ repeat nines n) ++ firstn c nines.
Proof.
  intros Hn Hc. destruct (written_split le s n Hn) as [rest ->]. rewrite firstn_app_2. f_equal.
  rewrite <- app_assoc, firstn_app. change (length nines) with 94. replace (c - 94) with 0 by lia.
  cbn [firstn]. now rewrite app_nil_r.
Qed.

(* prefixes that end inside the filler (n whole filler lines and c characters of the next one; c = 0:
   at a line boundary, n = 0 and c = 0: directly behind the control record and its line end) ARE the
   same file: Read + Validate return the very same tree — except c = 1, where the cut filler line is
   "9" and 93 blanks, a second file control record, and Read fails *)
Theorem c04_valid_reader_truncation_filler s le g0 n c :
  le_ok le -> file_typed s = true -> utf8_records s -> bridge_okb LT s = true ->
  accepts LT RT AT (write le s) = Some g0 ->
  n < pad_count (length (record_lines s)) -> c <= 94 ->
  accepts LT RT AT (firstn (length (text_of le (record_lines s ++ repeat nines n)) + c) (write le s))
  = if c =? 1 then None else Some g0.
Proof.
  intros Hle Ht Hu Hb Ha Hn Hc.
  destruct (accepted_struct s le g0 Hle Ht Hu Hb Ha) as (H99 & _ & _).
  rewrite (firstn_written_filler le s n c Hn Hc).
  pose proof (lines_filler_prefix le _ c Hle (Forall_uline_filled s n Hu) Hc) as HL.
  destruct (Nat.eqb_spec c 1) as [->|Hc1].
  - apply (not_read_not_accepted _ _ HL). unfold tail_of. cbn [Nat.eqb]. rewrite <- app_assoc, record_lines_body.
    destruct cut_nines_1 as [A B].
    exact (read_file_second_ctl LT (body s) (f_ctl s) n _ (ctl_T9_u s Ht) H99 A B).
  - rewrite <- Ha.
    assert (HP : Forall padl (repeat nines n ++ tail_of nines c)).
    { apply Forall_app. split; [apply Forall_repeat, padl_nines|]. unfold tail_of.
      destruct (Nat.eqb_spec c 0); [constructor|]. constructor; [apply padl_cut_nines; lia|constructor]. }
    rewrite <- app_assoc in HL. rewrite (accepts_lines _ _ HL).
    rewrite write_text_of, (accepts_lines _ _ (lines_written le _ Hle (physical_u s Hu))).
    unfold read_file_valid, physical_lines.
    rewrite (g_read_file_pads _ _ _ _ _ HP), (g_read_file_pads _ _ _ (record_lines s) (repeat nines _)) by (apply Forall_repeat, padl_nines).
    reflexivity.
Qed.

(* inside the control record: an ASCII control record (what the library writes) that is blank from
   column b on, cut at or behind column b (after c characters, b <= c <= 94, or after all 94 and in
   front of / inside the line end): the padded line IS the control record, Read + Validate return
   the very same tree.  With C04_truncation_blank_tail (b = 55, ADV 71 for a written control record)
   this settles every offset behind the last significant column. *)
Theorem c04_valid_reader_truncation_blank_tail s le g0 b c :
  le_ok le -> file_typed s = true -> utf8_records s -> bridge_okb LT s = true ->
  accepts LT RT AT (write le s) = Some g0 ->
  asciib (f_ctl s) = true -> skipn b (f_ctl s) = repeat sp (94 - b) -> b <= c <= 94 -> 1 <= c ->
  accepts LT RT AT (firstn (length (text_of le (body s)) + c) (write le s)) = Some g0.
Proof.
  intros Hle Ht Hu Hb Ha Hasc Hblank Hc Hc1.
  pose proof (uline_ascii_good _ (uline_ctl s Hu) Hasc) as Hg. pose proof Hg as (Hl & _).
  rewrite <- Ha.
  assert (Efirst : firstn (length (text_of le (body s)) + c) (write le s) = text_of le (body s) ++ firstn c (f_ctl s)).
  { rewrite text_of_body, firstn_app_2. f_equal.
    change (text_of le (f_ctl s :: repeat nines (pad_count (length (record_lines s)))))
      with ((f_ctl s ++ le) ++ text_of le (repeat nines (pad_count (length (record_lines s))))).
    rewrite <- app_assoc, firstn_app, Hl. replace (c - 94) with 0 by lia. cbn [firstn]. now rewrite app_nil_r. }
  rewrite Efirst.
  pose proof (lines_good_prefix le (body s) (f_ctl s) c Hle (Forall_uline_body s Hu) Hg ltac:(lia)) as HL.
  unfold tail_of in HL. destruct (Nat.eqb_spec c 0) as [|_]; [lia|].
  rewrite (cut_in_blank_tail (f_ctl s) b c Hl Hc Hblank), <- record_lines_body in HL.
  rewrite (accepts_lines _ _ HL).
  rewrite write_text_of, (accepts_lines _ _ (lines_written le _ Hle (physical_u s Hu))).
  unfold read_file_valid, physical_lines.
  now rewrite (g_read_file_pads _ _ _ (record_lines s) (repeat nines _)) by (apply Forall_repeat, padl_nines).
Qed.

(* ---- non-vacuity ---------------------------------------------------------------------------------- *)

(* the written lines of the IAT and of the ADV example file of C01 *)
Definition vx_iat : fileS := struct_of LT ex_iat.
Definition vx_adv : fileS := struct_of LT ex_adv.

Definition ulineb (l : bytes) : bool :=
  Utf8Enc.wf_utf8 l && (rune_count l =? 94) && FramingBytes.no_nl_bytes l && negb (Framing.blank_line l).

Lemma ulineb_uline l : ulineb l = true -> uline l.
Proof.
  unfold ulineb. intros H. apply andb_prop in H as [H H4]. apply andb_prop in H as [H H3]. apply andb_prop in H as [H1 H2].
  apply Nat.eqb_eq in H2. apply negb_true_iff in H4. now repeat split.
Qed.

Lemma forallb_ulines ls : forallb ulineb ls = true -> Forall uline ls.
Proof. intros H. apply Forall_forall. intros l Hl. rewrite forallb_forall in H. now apply ulineb_uline, H. Qed.

Lemma vx_iat_utf8 : utf8_records vx_iat.
Proof. apply forallb_ulines. vm_compute. reflexivity. Qed.
Lemma vx_adv_utf8 : utf8_records vx_adv.
Proof. apply forallb_ulines. vm_compute. reflexivity. Qed.

Lemma vx_iat_ok : file_typed vx_iat = true /\ bridge_okb LT vx_iat = true /\ accept_code LT RT AT (write LF_b vx_iat) = 0
  /\ length (record_lines vx_iat) = 31 /\ pad_count (length (record_lines vx_iat)) = 9.
Proof. vm_compute. repeat split; reflexivity. Qed.

Lemma vx_adv_ok : file_typed vx_adv = true /\ bridge_okb LT vx_adv = true /\ accept_code LT RT AT (write LF_b vx_adv) = 0
  /\ adv_file vx_adv = true.
Proof. vm_compute. repeat split; reflexivity. Qed.

Lemma code0_accepted text : accept_code LT RT AT text = 0 -> exists g, accepts LT RT AT text = Some g.
Proof.
  unfold accept_code, accepts. destruct (read_text_valid LT RT AT text) as [[g [|]]|]; try discriminate.
  destruct (is_rok (validate_file AT (p_file g))); [|discriminate]. intros _. now exists g.
Qed.

Lemma vx_iat_accepted : exists g, accepts LT RT AT (write LF_b vx_iat) = Some g.
Proof. apply code0_accepted. exact (proj1 (proj2 (proj2 vx_iat_ok))). Qed.
Lemma vx_adv_accepted : exists g, accepts LT RT AT (write LF_b vx_adv) = Some g.
Proof. apply code0_accepted. exact (proj1 (proj2 (proj2 vx_adv_ok))). Qed.

(* truncations of the IAT and ADV examples (LF, 95 bytes per line): inside the body, inside the control
   record (column 30; behind the last significant column), at the end of the control record, a filler
   line cut after one / two characters, a whole filler line *)
Lemma vx_iat_truncated :
  map (fun k => accept_code LT RT AT (firstn k (write LF_b vx_iat))) [95 * 20 + 7; 95 * 30 + 30; 95 * 30 + 60; 95 * 31; 95 * 31 + 1; 95 * 31 + 2; 95 * 33]
  = [1; 3; 0; 0; 1; 0; 0].
Proof. vm_compute. reflexivity. Qed.

(* the ADV example has 10 records: no filler lines; the last prefix is the text without its final LF *)
Lemma vx_adv_truncated :
  map (fun k => accept_code LT RT AT (firstn k (write LF_b vx_adv))) [95 * 3 + 7; 95 * 9 + 30; 95 * 9 + 80; 95 * 10 - 1]
  = [1; 3; 0; 0] /\ length (record_lines vx_adv) = 10 /\ length (write LF_b vx_adv) = 950.
Proof. vm_compute. repeat split; reflexivity. Qed.

(* the control record of the standard example is blank from column 55 on: cut after 60 characters *)
Example vx_blank_tail_by_theorem :
  exists g0, accepts LT RT AT (write CRLF_b vx) = Some g0
    /\ accepts LT RT AT (firstn (length (text_of CRLF_b (body vx)) + 60) (write CRLF_b vx)) = Some g0.
Proof.
  destruct vx_accepted as [g0 Ha]. destruct vx_ok as (Ht & Hb & _). exists g0. split; [exact Ha|].
  assert (Hasc : asciib (f_ctl vx) = true) by (vm_compute; reflexivity).
  assert (Hbl : skipn 55 (f_ctl vx) = repeat sp (94 - 55)) by (vm_compute; reflexivity).
  exact (c04_valid_reader_truncation_blank_tail vx CRLF_b g0 55 60 (or_intror eq_refl) Ht vx_utf8 Hb Ha Hasc Hbl ltac:(lia) ltac:(lia)).
Qed.

(* Phase 5 obligations for C09 with options: the flag positions of the validator model under
   options against the struct of this run, the theorems of ValidMergeOptsFacts at the
   regenerated validator tables, and concrete files that are valid ONLY under the options
   stored on them, merged under a line limit that forces overflow files. *)
From Coq Require Import Lia.
From ACH Require Import ValidOut ValidOutFacts Tables ArithOpts ArithOptsFacts ArithOptsTable.
From Coq Require Import List NArith ZArith Bool.
From ACH Require Import Bytes Fields Merge MergeFacts MergeOpts MergeOptsFacts MergeOptsTable MergeOptsGen C08OptsObl.
From ACH Require Import ValidMerge ValidMergeFacts ValidMergeOpts ValidMergeOptsFacts ValidMergeObl.
Import ListNotations.
Open Scope Z_scope.

(* ---- the struct of this run ------------------------------------------------------------------ *)

Lemma opt_positions_ok : positions_ok gen_vo_fields = true.
Proof. vm_compute. reflexivity. Qed.

(* ---- instances at the tables of this run ----------------------------------------------------- *)

Lemma c09_valid_opts csem mp mo fs c :
  inputs_valid_o csem GA mp mo fs -> inputs_header_valid fs -> inputs_stay fs ->
  forall g, In g (merge_files_o fs c) ->
  Forall (fun rb => AR.calc_debit GA AR.KStd (map (m_entry mp) (rbo_entries rb)) <= AR.t_batch_limit GA /\
                    AR.calc_credit GA AR.KStd (map (m_entry mp) (rbo_entries rb)) <= AR.t_batch_limit GA) (rfo_batches g) ->
  fctl_fits GA (vf_ctl (m_ofile GA mp mo g)) ->
  (forall rb, In rb (rfo_batches g) -> rbo_created rb = Some (rbo_entries rb))
  /\ Forall (fun rb => validate_batch_o csem GA (m_obatch GA mp mo rb) = AR.ROk) (rfo_batches g)
  /\ file_valid_o csem GA (m_ofile GA mp mo g) = true.
Proof. apply merge_o_valid_opts. Qed.

Lemma c09_stored_valid_inputs csem mp mo fs :
  (forall f ib, In f fs -> In ib (fo_batches f) ->
     exists num c, validate_batch_o csem GA
       (mkvb (ibo_opts ib) (m_eopts mo (ib_entries (ibo_batch ib)))
             (AR.mkbatch AR.KStd (h_scc (ib_header (ibo_batch ib))) (h_odfi (ib_header (ibo_batch ib))) num
                         (map (m_entry mp) (ib_entries (ibo_batch ib))) c)) = AR.ROk) ->
  inputs_valid_o csem GA mp mo fs.
Proof. apply stored_valid_inputs. Qed.

Lemma c09_input_files_valid_hyps csem mp mo fs :
  input_files_valid csem GA mp mo fs -> inputs_valid_o csem GA mp mo fs /\ inputs_header_valid fs.
Proof. apply input_files_valid_hyps. Qed.

Lemma c09_opts_none_is_arith csem b : AR.bt_kind b = AR.KStd ->
  (validate_batch_o csem GA (no_opts b) = AR.ROk <-> AR.validate_batch GA b = AR.ROk).
Proof. apply validate_batch_o_none. Qed.

Lemma c09_opts_relax_only csem o o' eos b :
  (forall i, oflag i o = true -> oflag i o' = true) ->
  validate_batch_o csem GA (mkvb o eos b) = AR.ROk -> validate_batch_o csem GA (mkvb o' eos b) = AR.ROk.
Proof. apply validate_batch_o_mono. Qed.

Lemma c09_file_valid_batches csem f : file_valid_o csem GA f = true -> oflag ix_skip_all (vf_opts f) = false ->
  Forall (fun ob => validate_batch_o csem GA ob = AR.ROk) (vf_batches f).
Proof. apply file_valid_o_batches. Qed.

(* ---- files valid only under their options ----------------------------------------------------- *)

(* CheckTransactionCode function 1 refuses 91 only *)
Definition ex_csem (f : N) (c : Z) : bool := negb ((f =? 1)%N && (c =? 91)).

(* destination 231380105 fails the ABA test (231380104 passes): every file of the pair needs
   BypassDestinationValidation *)
Definition xo_dest : bytes := dsb [2;3;1;3;8;0;1;0;5].
Definition xo_origin : bytes := dsb [1;2;1;0;4;2;8;8;2].
Definition xo_odfi : bytes := dsb [1;2;1;0;4;2;8;8].
Definition xo_hdr (r : N) : header := mkHeader 220 [65]%N [49]%N [80; 80; 68]%N [80]%N [49; 57]%N xo_odfi r.

(* payload: entry 3 has a wrong check digit and AllowInvalidCheckDigit on the record, entry 4 the
   code 62 (no standard code) and CheckTransactionCode 1 on the record *)
Definition xo_mp (id : N) : mpay :=
  match id with
  | 3%N => mkmpay 22 (dsb [2;3;1;3;8;0;1;0]) (dsb [9])
  | 4%N => mkmpay 62 (dsb [2;3;1;3;8;0;1;0]) (dsb [4])
  | _ => mkmpay 22 (dsb [2;3;1;3;8;0;1;0]) (dsb [4])
  end.
Definition xo_mo (id : N) : vopts :=
  match id with
  | 3%N => mk [ix_invalid_check] None
  | 4%N => mk [] (Some 1%N)
  | _ => None
  end.

(* file 1: BypassDestinationValidation + CustomTraceNumbers; foreign prefix, DESCENDING *)
Definition xo_f1 : ifileo :=
  mkIFO xo_origin xo_dest 1 (mk [ix_bypass_dest; ix_custom_trace] None)
        [mkIBO (mkIBatch (xo_hdr 1) [en 99887766 9 1; en 99887766 3 2]) (mk [ix_custom_trace] None)].
(* file 2: BypassDestinationValidation; its batch stores UnequalServiceClassCode and holds a control
   record of class 200 under a header of class 220 *)
Definition xo_f2 : ifileo :=
  mkIFO xo_origin xo_dest 2 (mk [ix_bypass_dest] None)
        [mkIBO (mkIBatch (xo_hdr 2) [en 12104288 1 3; en 12104288 2 4; en 12104288 5 5]) (mk [ix_unequal_scc] None)].
Definition xo_files := [xo_f1; xo_f2].
Definition xo_conds := mkConds 7 0.

Definition ctl_with (cls : Z) (ib : ibatcho) (num : Z) : AR.bctl :=
  let t := VO.tab_ctl GA AR.KStd (h_scc (ib_header (ibo_batch ib))) (h_odfi (ib_header (ibo_batch ib))) num
                      (map (m_entry xo_mp) (ib_entries (ibo_batch ib))) in
  AR.mkbctl cls (AR.bc_count t) (AR.bc_hash t) (AR.bc_debit t) (AR.bc_credit t) (AR.bc_odfi t) (AR.bc_number t).

Definition xo_ctl (ib : ibatcho) : AR.bctl :=
  ctl_with (if oflag ix_unequal_scc (ibo_opts ib) then 200 else 220) ib 1.

Lemma ex_opts_hyps :
  inputs_valid_o ex_csem GA xo_mp xo_mo xo_files /\ inputs_header_valid xo_files /\ inputs_stay xo_files.
Proof.
  split; [|split].
  - intros f ib Hf Hib. exists 1, (xo_ctl ib).
    destruct Hf as [<-|[<-|[]]]; destruct Hib as [<-|[]]; vm_compute; reflexivity.
  - intros f Hf. right. right. destruct Hf as [<-|[<-|[]]]; vm_compute; reflexivity.
  - intros f ib e Hf Hib He.
    destruct Hf as [<-|[<-|[]]]; destruct Hib as [<-|[]]; cbn [ibo_batch ib_entries] in He;
      repeat (destruct He as [<-|He]; [vm_compute; reflexivity|]); destruct He.
Qed.

(* the inputs are NOT valid once the options are taken away: file 1 (descending foreign traces)
   and file 2 (class 200 control) fail as batches, both headers fail on the destination *)
Lemma ex_opts_needed_by_inputs :
  validate_batch_o ex_csem GA (mkvb None (m_eopts xo_mo [en 99887766 9 1; en 99887766 3 2])
                                    (m_tab GA xo_mp (xo_hdr 1) 1 [en 99887766 9 1; en 99887766 3 2])) = AR.RAscending
  /\ validate_batch_o ex_csem GA
       (mkvb None (m_eopts xo_mo [en 12104288 1 3; en 12104288 2 4; en 12104288 5 5])
             (AR.mkbatch AR.KStd 220 xo_odfi 1 (map (m_entry xo_mp) [en 12104288 1 3; en 12104288 2 4; en 12104288 5 5])
                         (ctl_with 200 (mkIBO (mkIBatch (xo_hdr 2) [en 12104288 1 3; en 12104288 2 4; en 12104288 5 5]) None) 1))) = AR.RClass
  /\ header_ok None xo_origin xo_dest = false.
Proof. repeat split; vm_compute; reflexivity. Qed.

(* MaxLines 7: two output files (the second started at `overflow:`), each carrying the
   union of the file options; every one validates under what it carries, Create changes nothing *)
Lemma ex_opts_outputs :
  map (fun g => (oshow (rfo_opts g), map (fun rb => (rbo_number rb, oshow (rbo_opts rb), map e_id (rbo_entries rb))) (rfo_batches g)))
      (merge_files_o xo_files xo_conds)
  = [ (Some ([3%nat; 4%nat], None), [(1, Some ([3%nat; 4%nat; 10%nat], None), [3%N; 4%N; 5%N])]);
      (Some ([3%nat; 4%nat], None), [(2, Some ([3%nat; 4%nat; 10%nat], None), [2%N; 1%N])]) ]
  /\ forallb (fun g => file_valid_o ex_csem GA (m_ofile GA xo_mp xo_mo g)) (merge_files_o xo_files xo_conds) = true
  /\ merge_created_ok (merge_files_o xo_files xo_conds) = true.
Proof. repeat split; vm_compute; reflexivity. Qed.

(* ... and none of them validates when the options it carries are taken away: the statement
   speaks about the options (an overflow file without them is what b342ca7c repaired) *)
Definition strip_file (g : rfileo) : rfileo :=
  mkRFO (rfo_origin g) (rfo_dest g) (rfo_hid g) None (rfo_batches g).
Definition strip_batches (g : rfileo) : rfileo :=
  mkRFO (rfo_origin g) (rfo_dest g) (rfo_hid g) (rfo_opts g)
        (map (fun rb => mkRBO (rbo_number rb) (rbo_header rb) (rbo_entries rb) None) (rfo_batches g)).

Lemma ex_opts_needed_by_outputs :
  forallb (fun g => negb (file_valid_o ex_csem GA (m_ofile GA xo_mp xo_mo (strip_file g)))) (merge_files_o xo_files xo_conds) = true
  /\ existsb (fun g => negb (file_valid_o ex_csem GA (m_ofile GA xo_mp xo_mo (strip_batches g)))) (merge_files_o xo_files xo_conds) = true.
Proof. split; vm_compute; reflexivity. Qed.

(* the example inputs as whole files: each passes File.Validate() under its stored options (the view
   holds batch number 1, the control records of [xo_ctl], the tabulated file control) *)
Definition xo_view (f : ifileo) : vfile :=
  let bs := map (fun ib => m_ibatch_o xo_mp xo_mo None ib 1 (xo_ctl ib)) (fo_batches f) in
  mkvf (fo_opts f) (fo_origin f) (fo_dest f) bs (tab_fctl_o GA (map vb_b bs)).

Lemma ex_opts_files_valid : input_files_valid ex_csem GA xo_mp xo_mo xo_files.
Proof.
  intros f Hf. exists (xo_view f).
  destruct Hf as [<-|[<-|[]]]; (split; [|split; vm_compute; reflexivity]);
    (split; [reflexivity|split; [reflexivity|split; [reflexivity|]]]);
    repeat constructor.
Qed.

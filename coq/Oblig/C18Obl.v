(* Reflection obligations for C18: the lock table regenerated from the current
   server/repository.go passes the discipline checker; the generic theorems
   instantiated with it; non-vacuity witnesses on the regenerated table. *)
From Coq Require Import String List Bool NArith.
Import ListNotations.
From ACH Require Import RWLock RWLockFacts Repo LockTable RepoFacts Locks.

Lemma lock_table_ok : discipline_ok lock_table = true.
Proof. vm_compute. reflexivity. Qed.

Notation gst := (gstate St arg res loc op).

Lemma lock_table_inv s0 tr (g : gst) :
  run repo_body (mode_of lock_table) (init s0) tr g -> Inv St arg res loc op repo_body (mode_of lock_table) g.
Proof. apply repo_inv_reachable, lock_table_ok. Qed.

Lemma lock_table_linearizable s0 tr (g : gst) :
  run repo_body (mode_of lock_table) (init s0) tr g ->
  exists a, arun repo_body (ainit s0) (erase tr) a /\ sim g a.
Proof. apply repo_linearizable, lock_table_ok. Qed.

Lemma lock_table_ret_matches_log s0 tr (g : gst) tid r g' :
  run repo_body (mode_of lock_table) (init s0) tr g -> step repo_body (mode_of lock_table) g tid (LRet r) g' ->
  exists o a, last_entry tid (glog g) = Some (tid, o, a, r).
Proof. apply repo_ret_matches_log, lock_table_ok. Qed.

Lemma lock_table_quiescent s0 tr (g : gst) :
  run repo_body (mode_of lock_table) (init s0) tr g -> (forall tid, ~ insec (th g tid)) -> store g = ghost g.
Proof. apply repo_quiescent, lock_table_ok. Qed.

Lemma lock_table_log_legal s0 tr (g : gst) :
  run repo_body (mode_of lock_table) (init s0) tr g -> legal repo_body s0 (glog g) (ghost g).
Proof. apply repo_glog_legal. Qed.

Lemma lock_table_acquire_between s0 tr (g : gst) t :
  run repo_body (mode_of lock_table) (init s0) tr g -> proto 0 (tproj t (erase tr)) = true.
Proof. apply rw_acquire_between, discipline_ok_sound, lock_table_ok. Qed.

Lemma lock_table_log_order s0 tr (g : gst) :
  run repo_body (mode_of lock_table) (init s0) tr g -> map entry_tid (glog g) = acq_tids tr.
Proof. apply glog_order. Qed.

Lemma lock_table_ghost_good tr (g : gst) :
  run repo_body (mode_of lock_table) (init []) tr g -> good (ghost g).
Proof. apply repo_ghost_good. Qed.

(* non-vacuity of the hypothesis "run": the machine under the regenerated table
   allows a concurrent schedule with two overlapping readers and a writer, and
   it ends with every thread returned *)
Definition sched_example : list (tid * action arg op) :=
  [ (0, ACall FindAllFiles argb); (1, ACall FindBatch argb); (2, ACall StoreBatch argb);
    (0, AAcq); (1, AAcq); (0, AStep); (1, AStep); (1, AStep); (0, AStep); (1, ARet); (0, ARet);
    (2, AAcq); (2, AStep); (2, AStep); (2, AStep); (2, ARet) ].

Lemma lock_table_run_example :
  exists tr (g : gst), run repo_body (mode_of lock_table) (init store1) tr g /\ length tr = 16 /\
                       batches_of 1%N (store g) = [5%N].
Proof.
  destruct (exec_sched repo_body (mode_of lock_table) 3 (init store1) sched_example) as [[tr g]|] eqn:E.
  - exists tr, g. split; [eapply exec_sched_sound; [apply bounded_init|exact E]|].
    revert E. vm_compute. intros E. injection E as <- <-. split; reflexivity.
  - revert E. vm_compute. discriminate.
Qed.

(* the writer cannot enter while the readers are inside *)
Lemma lock_table_writer_waits :
  exec_sched repo_body (mode_of lock_table) 3 (init store1)
    [ (0, ACall FindAllFiles argb); (2, ACall StoreBatch argb); (0, AAcq); (2, AAcq) ] = None.
Proof. vm_compute. reflexivity. Qed.

(* downgrade / drop a lock in the regenerated table: checker flips, and a violating schedule exists *)
Lemma lock_table_downgrade_flips : discipline_ok (relock "StoreBatch" LkR lock_table) = false.
Proof. vm_compute. reflexivity. Qed.

Lemma lock_table_downgrade_violates : violating (relock "StoreBatch" LkR lock_table).
Proof.
  eapply (violating_of_exec _ store1 sched_downgraded _ 1).
  - vm_compute. reflexivity.
  - vm_compute. reflexivity.
  - cbn. discriminate.
Qed.

Lemma lock_table_drop_flips : discipline_ok (relock "FindAllFiles" LkNone lock_table) = false.
Proof. vm_compute. reflexivity. Qed.

Lemma lock_table_drop_violates : violating (relock "FindAllFiles" LkNone lock_table).
Proof.
  eapply (violating_of_exec _ store1 sched_dropped _ 0).
  - vm_compute. reflexivity.
  - vm_compute. reflexivity.
  - cbn. discriminate.
Qed.

(* C12, phase 7 — obligations for FlattenFullIAT: the regenerated tables of C03 (Gen/Tables.v) and of
   C05 (Gen/TabulateTable.v) agree on the IAT code lists and the hash width; createFileADV refuses IAT
   batches; instances of the generic theorems at the regenerated tables; non-vacuity examples. *)
From Coq Require Import Lia Permutation Sorted.
From ACH Require Import ValidOut ValidOutFacts Tables OffsetTable TabulateTable.
From ACH Require Import OffsetsFacts BuildIATFacts FileCreateAll ValidOffsets ValidOffsetsFacts ValidOutObl.
From ACH Require Import Bytes Fields Flatten FlattenFacts ValidFlatten ValidFlattenFacts ValidFlatObl FlattenFull FlattenFullFacts C12FullObl.
From ACH Require Import FlattenFullIAT FlattenFullIATFacts.
Open Scope Z_scope.

(* re-evaluated on the tables regenerated from the source of this run *)
Lemma gen_iat_tables_agree : iat_tables_agree GA GTT = true.
Proof. vm_compute. reflexivity. Qed.

Lemma gen_iagree : iagree GA GTT.
Proof. apply iat_tables_agree_sound, gen_iat_tables_agree. Qed.

Lemma gtt_guard : BuildIAT.tt_adv_iat_guard GTT = true.
Proof. vm_compute. reflexivity. Qed.

(* ---- instances ------------------------------------------------------------------------------- *)

Lemma c12_create_iat_validates hd ip iq x :
  hd_ok (hd (b_sig x)) = true -> hd_odfi_num (hd (b_sig x)) = true -> b_entries x <> [] ->
  Forall (fun e => BuildIAT.incl_ok (to_iat_entry ip e) = true /\ ip_tr_num (ip (e_core e)) = true) (b_entries x) ->
  (forall e, In e (b_entries x) -> iat_entry_ok GA hd ip iq (b_sig x) e) ->
  StronglySorted trace_lt (b_entries x) ->
  BuildIAT.idebits GTT (map (to_iat_entry ip) (b_entries x)) <= Arith.t_batch_limit GA ->
  BuildIAT.icredits GTT (map (to_iat_entry ip) (b_entries x)) <= Arith.t_batch_limit GA ->
  category_ok x = true ->
  exists b', create_iat GTT hd ip x = Some b' /\ create_iat_v GA GTT hd ip iq x = Some b'
    /\ iat_skeleton hd iq x b' = fi_batch GA hd ip iq x
    /\ Arith.validate_batch GA (iat_skeleton hd iq x b') = Arith.ROk
    /\ forallb seqs_okb (BuildIAT.ib_entries b') = true
    /\ forallb addenda_limits (BuildIAT.ib_entries b') = true
    /\ is_category_iat x = true.
Proof. apply create_iat_validates, gen_iagree. Qed.

Lemma c12_succeeds_iat_valid hd sp ip ap iq kiat inf inp r :
  mixed_file kiat inp -> inp <> [] -> i_hdr_ok inf = true ->
  kinds_consistent inp -> Forall traces_nodup inp ->
  Forall (fun b => kiat (b_sig b) = false -> Arith.validate_batch GA (f_batch GA (hp_of hd) (fp_of sp) b) = Arith.ROk) inp ->
  Forall (mixed_pair hd ip kiat) (ids inp) -> Forall (iat_pair GA hd ip iq kiat) (ids inp) ->
  i_count inf = sum_pairs (cnt_p ip kiat) inp ->
  i_debit inf = sum_pairs (db_p GT GTT sp ip kiat) inp -> i_credit inf = sum_pairs (cr_p GT GTT sp ip kiat) inp ->
  cat_rule inp ->
  i_debit inf <= Arith.t_file_limit GA -> i_credit inf <= Arith.t_file_limit GA ->
  flatten_full_spec GA GT GTT hd sp ip ap inf inp r ->
  (fst r = FOk \/ (fst r = FErrValidate /\ file_ctl_ok GA (snd r) = false))
  /\ Offsets.fc_count (af_ctl (snd r)) = i_count inf
  /\ Offsets.fc_debit (af_ctl (snd r)) = i_debit inf
  /\ Offsets.fc_credit (af_ctl (snd r)) = i_credit inf
  /\ exists all, r = finish GA GT GTT hd sp ip ap inf all /\ flatten_spec inp (finalize all)
       /\ (length (af_std (snd r)) + length (af_iat (snd r)) = length all)%nat
       /\ Forall (fun x => (created_s GA GT hd sp kiat x \/ created_iv GA GTT hd ip iq kiat x) /\ StronglySorted trace_lt (b_entries x)) (pre all).
Proof.
  intros. eapply (flatten_succeeds_iat_valid GA GT GTT gen_agree gen_iagree); eauto using c12_limits.
Qed.

Lemma c12_mixed_adv_error hd sp ip ap inf inp r :
  flatten_full_spec GA GT GTT hd sp ip ap inf inp r ->
  exists all, r = finish GA GT GTT hd sp ip ap inf all /\ flatten_spec inp (finalize all) /\
    let sv := survivors GA GT GTT hd sp ip ap all in
    (fst r = FErrCreate <-> create_refuses (i_hdr_ok inf) (fst sv) (snd sv) = true) /\
    (n_adv (fst sv) <> 0%nat -> (n_std (fst sv) + length (snd sv))%nat <> 0%nat -> fst r = FErrCreate).
Proof. apply flatten_mixed_adv_error, gtt_guard. Qed.

Lemma c12_mixed_adv_created hd sp ip ap inf all x y :
  In x (pre all) -> created_a GTT hd ap x ->
  In y (pre all) -> (created GA GT hd sp y \/ (b_kind y = KIAT /\ create_iat GTT hd ip y <> None)) ->
  fst (finish GA GT GTT hd sp ip ap inf all) = FErrCreate.
Proof. apply mixed_adv_created, gtt_guard. Qed.

Lemma c12_create_never_mixed f f' :
  file_create_all GTT f = (true, f') ->
  file_is_adv f' = false \/ (forallb sb_is_adv (af_std f') = true /\ af_iat f' = []).
Proof. apply create_never_mixed, gtt_guard. Qed.

(* ---- non-vacuity: the file of C12_succeeds_iat_example, with the stored routing number / check digit --- *)

Definition mx_iq (c : bytes) : iqpay := mkiq (dsb [1;2;1;0;4;2;8;8]) (dsb [2]).

Lemma mx_iat_pairs : Forall (iat_pair GA mx_hd mx_ip mx_iq mx_kiat) (ids mx_inp).
Proof.
  unfold ids, mx_inp, ex_inp. cbn [app flat_map ids_of map b_entries b_sig].
  repeat (apply Forall_cons;
    [unfold iat_pair; cbn [fst snd]; intros K; try (vm_compute in K; discriminate K);
     unfold iat_entry_ok, rdfi_tied; repeat split; vm_compute; try reflexivity; try discriminate; try lia|]).
  apply Forall_nil.
Qed.

(* the consolidated IAT batch of that file: Create with the validator accepts it; the skeleton the
   validator sees carries both entries in trace order and the tabulated control *)
Definition mx_iat_batch : batch := mkBatch KIAT [9%N] 3 [mx_i2; mx_i1] [].

Lemma mx_iat_validated :
  In mx_iat_batch (pre (all_batches (run (sort_by count_ltb mx_inp)))) /\
  exists b', create_iat_v GA GTT mx_hd mx_ip mx_iq mx_iat_batch = Some b' /\ create_iat GTT mx_hd mx_ip mx_iat_batch = Some b' /\
    Arith.validate_batch GA (iat_skeleton mx_hd mx_iq mx_iat_batch b') = Arith.ROk /\
    Arith.bt_ctl (iat_skeleton mx_hd mx_iq mx_iat_batch b') = Arith.mkbctl 200 18 24208576 0 3500 (dsb [2;3;1;3;8;0;1;0]) 3.
Proof.
  split; [vm_compute; tauto|].
  destruct (create_iat_v GA GTT mx_hd mx_ip mx_iq mx_iat_batch) as [b'|] eqn:E; [|vm_compute in E; discriminate E].
  exists b'. split; [reflexivity|]. vm_compute in E. injection E as <-. vm_compute. repeat split.
Qed.

(* the validator is not vacuous: the same batch with its entries in the wrong order, or with a third
   Addenda17 record on an entry, passes build and isCategory but is refused *)
Definition mx_ip3 (c : bytes) : ipay := mkipay 22 12104288 true [true; true; true; true; true; true; true] 3 0 false false.

Lemma mx_iat_refused :
  create_iat GTT mx_hd mx_ip (mkBatch KIAT [9%N] 3 [mx_i1; mx_i2] []) <> None /\
  create_iat_v GA GTT mx_hd mx_ip mx_iq (mkBatch KIAT [9%N] 3 [mx_i1; mx_i2] []) = None /\
  create_iat GTT mx_hd mx_ip3 mx_iat_batch <> None /\
  create_iat_v GA GTT mx_hd mx_ip3 mx_iq mx_iat_batch = None.
Proof. vm_compute. repeat split; discriminate. Qed.

(* ---- ADV next to standard batches: the ADV file of C12_succeeds_adv_example followed by the standard
   file of C12_succeeds_example.  Every consolidated batch passes its Create (one ADV, one standard
   survivor); File.Create refuses the mixture: the whole function returns its error ------------------ *)

Definition zx_hd (s : bytes) : hdrp := match s with [8%N] => ax_hd s | _ => fx_hd s end.
Definition zx_inp : list batch := ay_inp ++ ex_inp.
Definition zx_inf : fin := mkfin true 3 0 300.

Lemma zx_result :
  let r := flatten_full_stable GA GT GTT zx_hd fx_sp fx_ip ax_ap zx_inf zx_inp in
  let sv := survivors GA GT GTT zx_hd fx_sp fx_ip ax_ap (all_batches (run (sort_by count_ltb zx_inp))) in
  fst r = FErrCreate /\ n_adv (fst sv) = 1%nat /\ n_std (fst sv) = 1%nat /\ snd sv = [] /\
  (* each part alone is flattened without error *)
  fst (flatten_full_stable GA GT GTT zx_hd fx_sp fx_ip ax_ap ax_inf ay_inp) = FOk /\
  fst (flatten_full_stable GA GT GTT zx_hd fx_sp fx_ip ax_ap zx_inf ex_inp) = FOk.
Proof. vm_compute. repeat split. Qed.

(* ---- input level ----------------------------------------------------------------------------------- *)

Lemma c12_mixed_input hd sp ip ap inf inp r :
  sa_file hd inp ->
  (exists b, In b inp /\ b_entries b <> []) -> (exists b, In b inp /\ b_adv b <> []) ->
  Forall traces_nodup inp ->
  Forall (fun b => hd_adv (hd (b_sig b)) = false -> Arith.validate_batch GA (f_batch GA (hp_of hd) (fp_of sp) b) = Arith.ROk) inp ->
  Forall (hdr_pair hd) (ids inp) ->
  Forall (fun p => hd_adv (hd (fst p)) = true /\ hd_ok (hd (fst p)) = true) (adv_ids inp) ->
  sum_ids (db_e GT sp) inp <= Arith.t_file_limit GA -> sum_ids (cr_e GT sp) inp <= Arith.t_file_limit GA ->
  BuildIAT.zlen (adv_ids inp) <= 9998 ->
  cat_rule inp ->
  flatten_full_spec GA GT GTT hd sp ip ap inf inp r ->
  fst r = FErrCreate.
Proof.
  intros. eapply (flatten_mixed_input GA GT GTT gen_agree gtt_guard); eauto using c12_limits.
Qed.

(* the file of zx_result satisfies every hypothesis *)
Lemma zx_hyps :
  sa_file zx_hd zx_inp /\
  (exists b, In b zx_inp /\ b_entries b <> []) /\ (exists b, In b zx_inp /\ b_adv b <> []) /\
  Forall traces_nodup zx_inp /\
  Forall (fun b => hd_adv (zx_hd (b_sig b)) = false -> Arith.validate_batch GA (f_batch GA (hp_of zx_hd) (fp_of fx_sp) b) = Arith.ROk) zx_inp /\
  Forall (hdr_pair zx_hd) (ids zx_inp) /\
  Forall (fun p => hd_adv (zx_hd (fst p)) = true /\ hd_ok (zx_hd (fst p)) = true) (adv_ids zx_inp) /\
  sum_ids (db_e GT fx_sp) zx_inp <= Arith.t_file_limit GA /\ sum_ids (cr_e GT fx_sp) zx_inp <= Arith.t_file_limit GA /\
  BuildIAT.zlen (adv_ids zx_inp) <= 9998 /\
  cat_rule zx_inp.
Proof.
  split.
  { unfold sa_file, zx_inp, ay_inp, ex_inp. cbn [app].
    repeat (apply Forall_cons; [split; [reflexivity|first [left; split; [reflexivity|split; [cbn; congruence|reflexivity]]
                                                          |right; split; [reflexivity|split; [reflexivity|cbn; congruence]]]]|]).
    apply Forall_nil. }
  split; [eexists; split; [right; right; left; reflexivity|cbn; congruence]|].
  split; [eexists; split; [left; reflexivity|cbn; congruence]|].
  split; [repeat constructor; cbn; tauto|].
  split; [repeat constructor; intros K; try (vm_compute in K; discriminate K); vm_compute; reflexivity|].
  split; [repeat constructor; vm_compute; reflexivity|].
  split; [repeat constructor; vm_compute; reflexivity|].
  split; [vm_compute; discriminate|]. split; [vm_compute; discriminate|]. split; [vm_compute; discriminate|].
  split; [|split].
  - repeat constructor; cbn; intros; intuition (subst; reflexivity).
  - intros a b Ha Hb Hsg. cbn in Ha, Hb.
    destruct Ha as [<-|[<-|[<-|[<-|[]]]]], Hb as [<-|[<-|[<-|[<-|[]]]]]; try reflexivity; cbn in Hsg; discriminate Hsg.
  - repeat constructor; cbn; tauto.
Qed.

(* Reflection obligations for C02 (and the structural part of C01) on the tables
   regenerated from writer.go and the record types. *)
From Coq Require Import String List Bool NArith.
Import ListNotations.
From ACH Require Import Bytes LayoutTypes Layouts WriterOrderTypes WriterOrder FileStruct FileStructFacts.
Open Scope string_scope.

Lemma writer_order_checked : writer_order_ok writer_Write writer_writeBatch writer_writeIATBatch = true.
Proof. vm_compute. reflexivity. Qed.

(* the record-type character each record class starts with *)
Definition expected_type (name : string) : N :=
  if String.eqb name "FileHeader" then T1
  else if String.eqb name "BatchHeader" || String.eqb name "IATBatchHeader" then T5
  else if String.eqb name "EntryDetail" || String.eqb name "IATEntryDetail" || String.eqb name "ADVEntryDetail" then T6
  else if String.prefix "Addenda" name then T7
  else if String.eqb name "BatchControl" || String.eqb name "ADVBatchControl" then T8
  else if String.eqb name "FileControl" || String.eqb name "ADVFileControl" then T9
  else 0%N.

Definition first_lit_ok (L : layout) : bool :=
  match l_segs L with
  | SLit [c] :: _ => N.eqb c (expected_type (l_name L)) && negb (N.eqb c 0)
  | _ => false
  end.

Lemma record_types_checked : forallb first_lit_ok all_layouts = true.
Proof. vm_compute. reflexivity. Qed.

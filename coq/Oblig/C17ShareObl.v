(* C17, phase 4 — obligations of the pointer-graph store: the object-flow table regenerated from
   the server / library source agrees with the one the model was written against; witnesses of
   the statements that are false on the code as it is (the known findings, seen through files
   that share records); non-vacuity of the hypotheses of Props/C17Share.v. *)
From Coq Require Import List ZArith NArith Bool String Lia.
Import ListNotations.
From ACH Require Import Server ServerFacts ServerLib ServerShare ServerShareFacts ServerShareStable ServerShareDerived ShareTable ServerShareGen.
From ACH Require Offsets.

(* ---------------------------------------------------------------- the object flow of the source *)

Lemma share_table_ok : share_check share_facts = true.
Proof. vm_compute. reflexivity. Qed.

Lemma share_facts_expected : share_facts = expected_share_facts.
Proof. apply share_check_sound, share_table_ok. Qed.

Definition has_facts (fs : list sfact) : bool := forallb (fun f => existsb (sfact_eqb f) share_facts) fs.

Lemma has_facts_In fs : has_facts fs = true -> forall f, In f fs -> In f share_facts.
Proof.
  unfold has_facts. rewrite forallb_forall. intros H f F. specialize (H f F). apply existsb_exists in H.
  destruct H as [g [G E]]. apply sfact_eqb_eq in E. now subst.
Qed.

Open Scope string_scope.

(* the endpoints store the RESULT of the service call (a new object) ... *)
Lemma derived_files_are_new_objects :
  has_facts [SF "flattenBatchesEndpoint" "store" "call:param:s.FlattenBatches#0";
    SF "segmentFileIDEndpoint" "store" "call:param:s.SegmentFileID#0";
    SF "segmentFileIDEndpoint" "store" "call:param:s.SegmentFileID#1";
    SF "service.FlattenBatches" "ret0" "call:call:recv.GetFile#0.FlattenBatches#0";
    SF "Flatten" "ret0" "call:param:originalFile.addFileHeaderData#0";
    SF "File.SegmentFile" "ret0" "call:NewFile#0";
    SF "File.SegmentFile" "ret1" "call:NewFile#0"] = true.
Proof. vm_compute. reflexivity. Qed.

(* ... BalanceFile the object it looked up, under a new ID ... *)
Lemma balance_aliases :
  has_facts [SF "service.BalanceFile" "store" "call:recv.GetFile#0";
    SF "service.BalanceFile" "set:ID" "call:recv.GetFile#0 <- call:base.ID#0";
    SF "service.GetFile" "ret0" "call:field:recv.store.FindFile#0";
    SF "repositoryInMemory.FindFile" "ret0" "elem:field:recv.files";
    SF "repositoryInMemory.StoreFile" "mapset" "param:f"] = true.
Proof. vm_compute. reflexivity. Qed.

(* ... DELETE is one delete(r.files, id), outside any loop ... *)
Lemma delete_unbinds_one_id :
  has_facts [SF "repositoryInMemory.DeleteFile" "mapdel" "once field:recv.files";
    SF "service.DeleteFile" "calls" "DeleteFile on field:recv.store"] = true.
Proof. vm_compute. reflexivity. Qed.

(* ... and the library hands the receiver's own entries / batches on *)
Lemma entries_are_passed_not_copied :
  has_facts [SF "mergeableBatcher.Consume" "pass:AddEntry/0" "elem:call:assert:call:param:mergeableToConsume.GetBatch#0.GetEntries#0";
    SF "mergeableIATBatch.Consume" "pass:AddEntry/0" "range:field:assert:call:param:mergeableToConsume.GetBatch#0.Entries";
    SF "mergeableBatcher.Copy" "pass:NewBatch/0" "addr:deref:call:field:recv.batcher.GetHeader#0";
    SF "segmentFileBatchAddEntry" "pass:AddEntry/0" "param:entry";
    SF "File.segmentFileBatches" "pass:segmentFileBatchAddEntry/2" "range:call:range:field:recv.Batches.GetEntries#0";
    SF "File.segmentFileBatches" "pass:AddBatch/0" "range:field:recv.Batches";
    SF "File.segmentFileIATBatches" "pass:AddIATBatch/0" "range:field:recv.IATBatches";
    SF "File.segmentFileIATBatches" "set:TraceNumber" "range:call:range:field:recv.IATBatches.GetEntries#0 <- lit:"""""] = true.
Proof. vm_compute. reflexivity. Qed.

Close Scope string_scope.
Open Scope Z_scope.

(* ---------------------------------------------------------------- sample files *)

Definition odfi : Z := 12345678.
Definition tr (k : Z) : Z := odfi * Offsets.P7 + k.
Definition ctl (svc num n : Z) : Offsets.control := Offsets.mkctl svc num n 0 0 0.

(* one mixed standard batch, two entries with the given trace numbers; tabulated *)
Definition pf_one (t1 t2 : Z) : pfile :=
  mkpf co_nil false true [mkpb false true odfi false 200 1 [t1; t2] (ctl 200 1 2)] [] (fctl_of [ctl 200 1 2]).
(* one mixed IAT batch, entries carrying the ODFI *)
Definition pf_iat : pfile :=
  mkpf co_nil false true [] [mkpb false true odfi false 200 1 [tr 1; tr 2] (ctl 200 1 2)] (fctl_of [ctl 200 1 2]).
(* one credits-only standard batch *)
Definition pf_credit : pfile :=
  mkpf co_nil false true [mkpb false true odfi false 220 1 [tr 1] (ctl 220 1 1)] [] (fctl_of [ctl 220 1 1]).
(* one debits-only IAT batch *)
Definition pf_iatd : pfile :=
  mkpf co_nil false true [] [mkpb false true odfi false 225 1 [tr 1] (ctl 225 1 1)] (fctl_of [ctl 225 1 1]).
(* a mixed and a credits-only standard batch *)
Definition pf_two : pfile :=
  mkpf co_nil false true [mkpb false true odfi false 200 1 [tr 1; tr 2] (ctl 200 1 2);
                          mkpb false true odfi false 220 2 [tr 3] (ctl 220 2 1)] []
       (fctl_of [ctl 200 1 2; ctl 220 2 1]).

Definition g_all : group := mkgroup [0%nat] [(0%nat, 0%nat); (0%nat, 1%nat)] (ctl 200 1 2).
Definition sp_cd : split := mksplit [0%nat] [1%nat] true true true true 1 1 (ctl 220 1 1) (ctl 225 1 1).
Definition c1 := Client 1.
Definition c2 := Client 2.

Definition traces (s : sstate) (i : id) : option (list (list Z)) :=
  option_map (fun v => map vb_traces (vf_bats v ++ vf_iats v)) (shows s i).
Definition nums (s : sstate) (i : id) : option (list Z) :=
  option_map (fun v => map vb_num (vf_bats v ++ vf_iats v)) (shows s i).
Definition svcs (s : sstate) (i : id) : option (list Z) :=
  option_map (fun v => map vb_svc (vf_bats v ++ vf_iats v)) (shows s i).

(* ---------------------------------------------------------------- witnesses: the known findings through shared records *)

(* known finding server:flatten-alters-stored-file: a file whose entries do not carry the batch
   ODFI; the consolidated batch of the flattened file holds the same entry cells and its
   Batch.Create assigns trace numbers through them *)
Definition h_untraced : list srequest := [SCreate (Some 1%N) None (pf_one 0 0); SBuild c1].

Lemma flatten_changes_untraced_source :
  traces (srun sinit h_untraced) c1 = Some [[0; 0]] /\
  traces (srun sinit (h_untraced ++ [SFlatten c1 (FlatOk [g_all] true)])) c1 = Some [[tr 1; tr 2]] /\
  traces (srun sinit (h_untraced ++ [SFlatten c1 (FlatOk [g_all] true)])) (Gen 0) = Some [[tr 1; tr 2]].
Proof. vm_compute. repeat split. Qed.

(* known finding server:segment-alters-stored-file, through the DERIVED file: c1 holds a mixed IAT
   batch whose entries carry the ODFI; flatten leaves c1 alone; segmenting the flattened file g0
   blanks the trace numbers of the entry cells g0 shares with c1 and numbers each half from 1:
   c1 now shows the same trace number twice *)
Definition h_iat : list srequest := [SCreate (Some 1%N) None pf_iat; SFlatten c1 (FlatOk [g_all] true)].

Lemma segment_of_flattened_changes_source :
  traces (srun sinit [SCreate (Some 1%N) None pf_iat]) c1 = Some [[tr 1; tr 2]] /\
  traces (srun sinit h_iat) c1 = Some [[tr 1; tr 2]] /\
  traces (srun sinit (h_iat ++ [SSegment (Gen 0) (SegOk [sp_cd] true true)])) c1 = Some [[tr 1; tr 1]].
Proof. vm_compute. repeat split. Qed.

(* (d) of server:segment-alters-stored-file: the credit file g0 of c1 holds c1's credits-only
   batch as the same cell; balancing g0 puts the offset entry into c1's batch and makes it mixed *)
Definition h_credit : list srequest := [SCreate (Some 1%N) None pf_credit; SSegment c1 (SegOk [no_split] true true)].
Definition bl_off : ballab := mkbl 1 (Some ([EOld 0%nat; EFresh (tr 2)], ctl 200 1 2, 200)) true.

Lemma balance_of_half_changes_source :
  traces (srun sinit h_credit) c1 = Some [[tr 1]] /\ svcs (srun sinit h_credit) c1 = Some [220] /\
  traces (srun sinit (h_credit ++ [SBalance (Gen 0) 0%N [bl_off]])) c1 = Some [[tr 1; tr 2]] /\
  svcs (srun sinit (h_credit ++ [SBalance (Gen 0) 0%N [bl_off]])) c1 = Some [200].
Proof. vm_compute. repeat split. Qed.

(* the same sharing under File.Create: the debit file g0 of c1 holds c1's debits-only IAT batch as
   the same cell; a batch added to g0 comes first in Create's numbering, and GET build of g0
   renumbers the shared batch: c1's only batch now carries number 2 *)
Definition h_iatd : list srequest :=
  [SCreate (Some 1%N) None pf_iatd; SSegment c1 (SegOk [no_split] true true);
   SAddBatch (Gen 0) true false (mkpb false true odfi false 225 1 [tr 1] (ctl 225 1 1))].

Lemma build_of_half_renumbers_source :
  nums (srun sinit h_iatd) c1 = Some [1] /\
  nums (srun sinit (h_iatd ++ [SBuild (Gen 0)])) c1 = Some [2] /\
  nums (srun sinit (h_iatd ++ [SBuild (Gen 0)])) (Gen 0) = Some [1; 2].
Proof. vm_compute. repeat split. Qed.

(* ---------------------------------------------------------------- non-vacuity *)

(* a history with two families, a flattened and a segmented file, a deletion and edits *)
Definition h_sample : list srequest :=
  [SCreate (Some 1%N) None pf_two; SCreate (Some 2%N) None (pf_one (tr 1) (tr 2));
   SFlatten c1 (FlatOk [mkgroup [0%nat] [(0%nat, 0%nat); (0%nat, 1%nat)] (ctl 200 1 2);
                        mkgroup [1%nat] [(1%nat, 0%nat)] (ctl 220 2 1)] true);
   SSegment c1 (SegOk [sp_cd; no_split] true true);
   SAddBatch (Gen 0) true false (mkpb false true odfi false 220 1 [tr 9] (ctl 220 1 1));
   SBuild (Gen 0); SContents (Gen 1); SDelBatch (Gen 0) (Some 0%nat); SGet c1; SDelete (Gen 2)].

Definition s_sample : sstate := srun sinit h_sample.

Lemma sample_store : map fst (ss_store s_sample) = [Gen 1; Gen 0; c2; c1].
Proof. vm_compute. reflexivity. Qed.

Lemma sample_inv : sinv s_sample.
Proof. apply sinv_reachable. Qed.

(* c1 and c2 are of different families; g0 (flattened from c1) and g1 (credit half of c1) are of c1's *)
Lemma sample_families :
  map (fun ip => fo_fam (ss_file s_sample (snd ip))) (ss_store s_sample) = [0; 0; 1; 0]%N.
Proof. vm_compute. reflexivity. Qed.

(* the flattened file g0 held c1's entry cells in batch cells of its own (3, deleted again, and 4)
   and got a batch of its own (7); the credit half g1 holds a new cell (5) over c1's credit entry
   and c1's credits-only batch cell (1) itself *)
Lemma sample_graph :
  map (fun ip => (fst ip, graph_file s_sample (snd ip))) (ss_store s_sample) =
  [(Gen 1, [(5, [0]); (1, [2])]);
   (Gen 0, [(4, [2]); (7, [5])]);
   (c2, [(2, [3; 4])]);
   (c1, [(0, [0; 1]); (1, [2])])]%N.
Proof. vm_compute. reflexivity. Qed.

(* hypotheses of the frame theorems hold of the sample: a request on c2 is in another family
   than c1's; g0 shares no batch cell with c1 *)
Lemma sample_other_family :
  lookup (ss_store s_sample) c1 = Some 0%N /\ fo_fam (ss_file s_sample 0%N) <> req_fam s_sample (SFlatten c2 (FlatOk [g_all] true)).
Proof. vm_compute. split; [reflexivity|discriminate]. Qed.

Definition share_batb (s : sstate) (p p' : N) : bool :=
  existsb (fun q => existsb (N.eqb q) (all_bats (ss_file s p'))) (all_bats (ss_file s p)).

Lemma share_batb_false s p p' : share_batb s p p' = false -> ~ share_bat s p p'.
Proof.
  intros H [q [A B]]. apply not_true_iff_false in H. apply H. apply existsb_exists. exists q. split; [exact A|].
  apply existsb_exists. exists q. split; [exact B|apply N.eqb_refl].
Qed.

Lemma sample_no_shared_batch : ~ share_bat s_sample 2%N 0%N.
Proof. apply share_batb_false. vm_compute. reflexivity. Qed.

(* a stable state: a tabulated file whose entries carry the ODFI, flattened and segmented; every
   stored file is stable, the labels are well formed, and — as the theorem says — a history
   of read requests on the derived files leaves what every ID shows *)
Definition h_stable : list srequest :=
  [SCreate (Some 1%N) None pf_two;
   SFlatten c1 (FlatOk [mkgroup [0%nat] [(0%nat, 0%nat); (0%nat, 1%nat)] (ctl 200 1 2);
                        mkgroup [1%nat] [(1%nat, 0%nat)] (ctl 220 2 1)] true)].
Definition s_stable : sstate := srun sinit h_stable.
Definition h_reads : list srequest :=
  [SSegment (Gen 0) (SegOk [sp_cd; no_split] true true); SBuild (Gen 1); SContents (Gen 2);
   SFlatten (Gen 1) (FlatOk [mkgroup [0%nat] [(0%nat, 0%nat)] (ctl 220 1 1);
                             mkgroup [1%nat] [(1%nat, 0%nat)] (ctl 220 2 1)] true);
   SSegment c1 (SegOk [sp_cd; no_split] true true); SGet c1; SValidate (Gen 0); SList].

Lemma stable_example :
  all_stable s_stable = true /\ forallb sread_stored h_reads = true /\ wf_run s_stable h_reads = true /\
  map fst (ss_store (srun s_stable h_reads)) = [Gen 5; Gen 4; Gen 3; Gen 2; Gen 1; Gen 0; c1] /\
  shows (srun s_stable h_reads) c1 = shows s_stable c1 /\
  shows (srun s_stable h_reads) (Gen 0) = shows s_stable (Gen 0) /\
  all_stable (srun s_stable h_reads) = true.
Proof. vm_compute. repeat split. Qed.

(* the file with entries that do not carry the ODFI is not stable (and flatten changes it: above) *)
Lemma untraced_not_stable : all_stable (srun sinit h_untraced) = false.
Proof. vm_compute. reflexivity. Qed.

(* a file with a mixed IAT batch is not stable either *)
Lemma iat_mixed_not_stable : all_stable (srun sinit [SCreate (Some 1%N) None pf_iat]) = false.
Proof. vm_compute. reflexivity. Qed.

(* the hypotheses of C17_flatten_result_stable hold of the flatten of the file whose entries do NOT
   carry the ODFI (unstable, changed by the flatten): what the flatten stores is stable *)
Lemma flatten_of_unstable_gives_stable :
  wf_flat_result (srun sinit h_untraced) 0%N [g_all] = true /\
  file_stable (srun sinit h_untraced) 0%N = false /\
  file_stable (srun sinit (h_untraced ++ [SFlatten c1 (FlatOk [g_all] true)])) 1%N = true.
Proof. vm_compute. repeat split. Qed.

(* C14, phase 5 — reflection obligations on the aliasing-write table and the construction
   facts regenerated from the current source (Gen/EffectsAlias.v), instances of the generic
   theorems, non-vacuity examples and refutation witnesses. *)
From Coq Require Import String List Bool NArith.
Import ListNotations.
From ACH Require Import Bytes EffectTable Purity PurityFacts AliasTable PurityAlias PurityAliasFacts EffectsAlias.

(* ---- the table *)
Lemma alias_table_ok : alias_ok alias_writes = true.
Proof. vm_compute. reflexivity. Qed.

Lemma alias_table_roots_ok : alias_roots_ok alias_roots alias_closure = true.
Proof. vm_compute. reflexivity. Qed.

Lemma alias_table_closure_counted : length alias_closure = alias_closure_size.
Proof. vm_compute. reflexivity. Qed.

(* no sort / slices call, no append to, copy into or indexed store into a slice that shares its
   backing array with a field of the receiver or of an argument, no map update (C14_d, C14_e) *)
Lemma alias_table_no_inplace : no_inplace alias_writes = true.
Proof. vm_compute. reflexivity. Qed.

(* no write to any ValidateOpts struct or to a field holding one (C14_g) *)
Lemma alias_table_opts_untouched : opts_untouched alias_writes = true.
Proof. vm_compute. reflexivity. Qed.

(* the only writes into anything but the Writer object are the two setters on their receiver *)
Lemma alias_table_file_writes : file_writes_are_installs alias_writes = true.
Proof. vm_compute. reflexivity. Qed.

(* the writes the model performs are still in the code *)
Lemma alias_table_model_present : alias_model_writes_present alias_writes = true.
Proof. vm_compute. reflexivity. Qed.

(* ---- meaning, instantiated *)
Lemma alias_writes_listed w : In w alias_writes -> is_write w = true -> exists c, In (w, c) writes_modelled.
Proof. apply alias_ok_write. exact alias_table_ok. Qed.

Lemma alias_no_inplace_entry w : In w alias_writes -> ~ In (aw_kind w) inplace_kinds.
Proof. apply no_inplace_spec. exact alias_table_no_inplace. Qed.

Lemma alias_opts_untouched_entry w : In w alias_writes -> is_write w = true -> opts_target (aw_target w) = false.
Proof. apply opts_untouched_spec. exact alias_table_opts_untouched. Qed.

Definition from_alias_table (ci : aclass * nat) : Prop :=
  exists w, In w alias_writes /\ aclass_of w = Some (fst ci).

Lemma alias_noop w : In w alias_writes ->
  exists c, aclass_of w = Some c /\ (forall i s, inv (x_bats s) = true -> asem c i s = s) /\
            (forall i s, x_opts (asem c i s) = x_opts s).
Proof.
  intros Hw. destruct (alias_ok_class alias_writes alias_table_ok w Hw) as [c Hc].
  exists c. split; [exact Hc|]. split; [intros i s; apply asem_noop|intros i s; apply asem_opts].
Qed.

Lemma alias_trace_pure tr s : Forall from_alias_table tr -> inv (x_bats s) = true -> arun tr s = s.
Proof. intros _. apply atrace_pure. Qed.

Lemma alias_trace_opts tr s : Forall from_alias_table tr -> x_opts (arun tr s) = x_opts s.
Proof. intros _. apply arun_opts. Qed.

Lemma in_alias w : existsb (aw_eqb w) alias_writes = true -> In w alias_writes.
Proof. intros H. apply existsb_exists in H as (x & Hx & E). apply aw_eqb_eq in E. now subst. Qed.

Lemma ainstall_from_table ci : ainstall_class ci -> from_alias_table ci.
Proof.
  intros [H|[H|H]]; rewrite (surjective_pairing ci); cbn [fst]; rewrite H.
  - exists (mkaw "(*Batch).SetHeader" "Store" "Batch.Header" "param batch"). split; [|reflexivity].
    apply in_alias. vm_compute. reflexivity.
  - exists (mkaw "(*Batch).SetControl" "Store" "Batch.Control" "param batch"). split; [|reflexivity].
    apply in_alias. vm_compute. reflexivity.
  - exists (mkaw "(*server.repositoryInMemory).FindFile" "ExtCall" "(*sync.RWMutex).RLock" "server.repositoryInMemory.mtx").
    split; [|reflexivity]. apply in_alias. vm_compute. reflexivity.
Qed.

Lemma xstep_from_table s o : xstep s o = arun (xop_trace s o) s /\ Forall from_alias_table (xop_trace s o).
Proof.
  destruct (xstep_refines s o) as [E F]. split; [exact E|].
  eapply Forall_impl; [|exact F]. intros ci. apply ainstall_from_table.
Qed.

(* ---- construction facts *)
Lemma ctor_table_checked : ctor_table_ok newbatch_cases ctor_stmts = true.
Proof. vm_compute. reflexivity. Qed.

Lemma read_returns_checked : returns_ok isadv_returns "(*Reader).Read" = true.
Proof. vm_compute. reflexivity. Qed.

Lemma create_returns_checked : returns_ok isadv_returns "(*File).Create" = true.
Proof. vm_compute. reflexivity. Qed.

Lemma batch_sources_checked : sources_ok batch_sources = true.
Proof. vm_compute. reflexivity. Qed.

(* in the closures of Read and Create the header / control pointer of a batch is stored only by
   the two setters, File.Batches only by AddBatch, and the setters are called only by File.IsADV
   and by the NewBatchXXX constructors (on the batch they have just allocated) *)
Definition pointer_write_ok (t : string * string * string) : bool :=
  let '(root, fn, what) := t in
  if String.eqb what "Batch.Header" then String.eqb fn "(*Batch).SetHeader"
  else if String.eqb what "Batch.Control" then String.eqb fn "(*Batch).SetControl"
  else if String.eqb what "File.Batches" then String.eqb fn "(*File).AddBatch" && String.eqb root "(*Reader).Read"
  else if prefixb "calls " what
  then String.eqb fn "(*File).IsADV" || (String.eqb root "(*Reader).Read" && prefixb "NewBatch" fn)
  else false.
Lemma pointer_writes_checked : forallb pointer_write_ok pointer_writes = true.
Proof. vm_compute. reflexivity. Qed.

Definition nb := new_batch_tab newbatch_cases ctor_stmts.
Definition built_src := built_tab newbatch_cases ctor_stmts.
Definition accepted_src := accepted newbatch_cases ctor_stmts.

Lemma nb_sound sec b : nb sec = Some b -> b = new_batch sec.
Proof. apply new_batch_tab_sound. exact ctor_table_checked. Qed.

Lemma built_src_built secs : built_src secs = built (filter accepted_src secs).
Proof. apply built_tab_built. exact ctor_table_checked. Qed.

(* the returns of a function as the table lists them *)
Definition returns_of (fn : string) : list string :=
  match sfind fn isadv_returns with Some cs => cs | None => [] end.

Lemma returns_of_ok fn : returns_ok isadv_returns fn = true ->
  (forall c, In c (returns_of fn) -> ret_class_ok c = true) /\ In "AfterIsADV"%string (returns_of fn).
Proof.
  intros H. destruct (returns_ok_class _ _ H) as (cs & E & A & B). unfold returns_of. rewrite E. now split.
Qed.

(* a file some return of fn leaves, the batches having been added through NewBatch / AddBatch *)
Definition result_of (fn : string) (secs : list bytes) (f : file) (err_nonnil : bool) : Prop :=
  exists c, In c (returns_of fn) /\ run_return c (built_src secs) = Some (f, err_nonnil).

Lemma result_cases fn secs f e : returns_ok isadv_returns fn = true -> result_of fn secs f e ->
  f = built_src secs \/ f = install (built_src secs).
Proof.
  intros Hok (c & Hc & R). destruct (returns_of_ok fn Hok) as [A _].
  exact (run_return_cases c _ _ _ (A c Hc) R).
Qed.

Lemma result_nil_installed fn secs f : returns_ok isadv_returns fn = true -> result_of fn secs f false ->
  f = install (built_src secs).
Proof.
  intros Hok (c & Hc & R). destruct (returns_of_ok fn Hok) as [A _].
  exact (run_return_installed c _ _ (A c Hc) R).
Qed.

(* File.Create returned nil: pure, ADV batches included *)
Lemma xhistory_created ops secs f o : result_of "(*File).Create" secs f false ->
  xobserve (fold_left xstep ops (mkx f o)) = xobserve (mkx f o).
Proof.
  intros R. apply xhistory_prefix. cbn [x_bats].
  rewrite (result_nil_installed _ _ _ create_returns_checked R). apply prefix_inv_install.
Qed.

(* Reader.Read, any return that is not one of the early error exits *)
Lemma xhistory_reader ops secs f o : result_of "(*Reader).Read" secs f false ->
  xobserve (fold_left xstep ops (mkx f o)) = xobserve (mkx f o).
Proof.
  intros R. apply xhistory_prefix. cbn [x_bats].
  rewrite (result_nil_installed _ _ _ read_returns_checked R). apply prefix_inv_install.
Qed.

(* whatever the return (early error exits included), when no batch is ADV *)
Lemma xhistory_any_return fn ops secs f e o : returns_ok isadv_returns fn = true -> no_adv secs = true ->
  result_of fn secs f e -> xobserve (fold_left xstep ops (mkx f o)) = xobserve (mkx f o).
Proof.
  intros Hok Hn R. apply xhistory_prefix. cbn [x_bats].
  assert (I : inv (built_src secs) = true) by (apply inv_built_tab; [exact ctor_table_checked|exact Hn]).
  destruct (result_cases fn secs f e Hok R) as [-> | ->].
  - now apply inv_prefix_inv.
  - apply prefix_inv_install.
Qed.

Lemma xhistory_reader_any ops secs f e o : no_adv secs = true ->
  result_of "(*Reader).Read" secs f e -> xobserve (fold_left xstep ops (mkx f o)) = xobserve (mkx f o).
Proof. apply xhistory_any_return. exact read_returns_checked. Qed.

(* NewBatch + AddBatch only *)
Lemma xhistory_built ops secs o : no_adv secs = true ->
  xobserve (fold_left xstep ops (mkx (built_src secs) o)) = xobserve (mkx (built_src secs) o).
Proof.
  intros Hn. apply xhistory_prefix. cbn [x_bats]. apply inv_prefix_inv.
  apply inv_built_tab; [exact ctor_table_checked|exact Hn].
Qed.

(* ---- non-vacuity *)
Definition ppd_b : bytes := [80; 80; 68]%N.
Definition iat_b : bytes := [73; 65; 84]%N.
Definition zzz_b : bytes := [90; 90; 90]%N.
Definition xflags : vflags := mkv false false true true.
Definition some_opts : option (list bool) := Some [false; true; false; false; true].
Definition xops : list xop :=
  [XServerValidate xflags; XLib (OValidate xflags); XServerValidate (mkv false true false false);
   XLib OWriteBypass; XLib OMarshalJSON; XServerValidate (mkv true false false true)].

(* NewBatch by the table: PPD gets a control, ADV does not, IAT and an unknown code give no batch *)
Example ex_nb : nb ppd_b = Some (mkbat (Some ppd_b) true) /\ nb adv = Some (mkbat (Some adv) false) /\
                nb iat_b = None /\ nb zzz_b = None /\
                built_src [ppd_b; iat_b; adv; zzz_b; ppd_b] = [mkbat (Some ppd_b) true; mkbat (Some adv) false; mkbat (Some ppd_b) true].
Proof. vm_compute. repeat split. Qed.

(* a Create result with an ADV batch exists (the table has an AfterIsADV return) and is pure under a mixed history *)
Example ex_created :
  result_of "(*File).Create" [ppd_b; adv] (install (built_src [ppd_b; adv])) false /\
  fold_left xstep xops (mkx (install (built_src [ppd_b; adv])) some_opts) = mkx (install (built_src [ppd_b; adv])) some_opts.
Proof.
  split; [|vm_compute; reflexivity].
  exists "AfterIsADV"%string. split; [vm_compute; tauto|reflexivity].
Qed.

Example ex_reader_cut :
  result_of "(*Reader).Read" [adv] (built_src [adv]) true.
Proof. exists "ErrNonNil"%string. split; [vm_compute; tauto|reflexivity]. Qed.

Definition ex_store : store :=
  [([49]%N, mkx (install (built_src [ppd_b; adv])) some_opts); ([50]%N, mkx (built_src [ppd_b]) None)].
Example ex_store_ok : store_ok ex_store = true /\
  fold_left serve [([50]%N, xflags); ([49]%N, xflags); ([51]%N, xflags); ([49]%N, mkv false true false false)] ex_store = ex_store.
Proof. vm_compute. split; reflexivity. Qed.

(* ---- refutations *)

(* Read cut short by its line limit / a scanner error (an ErrNonNil return before IsADV) with an
   ADV batch already added: the first validate request installs a Control *)
Lemma reader_cut_adv_refuted :
  exists secs f ops, result_of "(*Reader).Read" secs f true /\
    xobserve (fold_left xstep ops (mkx f None)) <> xobserve (mkx f None).
Proof.
  exists [adv], (built_src [adv]), [XServerValidate xflags]. split; [exact ex_reader_cut|].
  vm_compute. discriminate.
Qed.

(* NewBatch(ADV) + AddBatch, no Create: the stored file is modified by a validate request (known finding) *)
Lemma server_validate_built_adv_refuted :
  exists st rqs, store_ok st = false /\ store_observe (fold_left serve rqs st) <> store_observe st.
Proof.
  exists [([49]%N, mkx (built_src [adv]) None)], [([49]%N, xflags)]. split; [reflexivity|].
  vm_compute. discriminate.
Qed.

(* the model of the seeded change C14_g (options merged through the alias) is told apart:
   one request with a flag the stored file does not have changes the observation *)
Lemma server_validate_aliasing_refuted :
  exists s req v, prefix_inv (x_bats s) = true /\ xobserve (xstep_aliasing req s v) <> xobserve s.
Proof.
  exists (mkx (built_src [ppd_b]) (Some [false; false])), (Some [false; true]), xflags.
  split; [reflexivity|]. vm_compute. discriminate.
Qed.

(* C12, phase 4: obligations, examples and the refuted statement for the option
   handling of FlattenBatches (Model/FlattenOpts.v). *)
From Coq Require Import List ZArith NArith Bool.
Import ListNotations.
From ACH Require Import Bytes Flatten FlattenFacts FlattenOpts FlattenOptsFacts OptSitesObl.
From ACH Require MergeOpts MergeOptsFacts.

(* ---- non-vacuity: two batches with one header signature and different options are
   consolidated into one batch that carries the union; a third batch with another
   signature keeps its own value; the new file carries the file's value *)
Definition o_custom : vopts := Some (MergeOpts.mkOpts [false; false; false; false; true; false] None).
Definition o_bypass : vopts := Some (MergeOpts.mkOpts [false; false; true; false; false; false] (Some 2%N)).
Definition o_file : vopts := Some (MergeOpts.mkOpts [false; false; false; true; false; false] None).

Definition ent (t : N) : entry := mkEntry [48%N; t] [t] 100 false 0 0.

Definition example_file : fileo :=
  mkFO o_file
    [ mkBO (mkBatch KStd [80%N; 80%N; 68%N] 1 [ent 49%N; ent 50%N] []) o_custom
    ; mkBO (mkBatch KStd [80%N; 80%N; 68%N] 2 [ent 51%N] []) o_bypass
    ; mkBO (mkBatch KStd [67%N; 67%N; 68%N] 3 [ent 52%N] []) None ].

Example example_kinds : kinds_consistent (map bo_batch (fo_batches example_file)).
Proof. intros a b Ha Hb _. cbn in Ha, Hb. intuition (subst; reflexivity). Qed.

Example example_result :
  opts_view (flatten_o_stable example_file)
  = (o_file, [Some (MergeOpts.mkOpts [false; false; true; false; true; false] (Some 2%N)); None]).
Proof. vm_compute. reflexivity. Qed.

(* the hypotheses of flatten_opts_kept are satisfiable and its conclusion is not trivial:
   the batch that carried BypassOriginValidation sits in a result batch that also holds
   CustomTraceNumbers from the batch it was consolidated with *)
Example example_kept :
  exists r, In r (fo_batches (flatten_o_stable example_file))
            /\ covers (mkBO (mkBatch KStd [80%N; 80%N; 68%N] 2 [ent 51%N] []) o_bypass) r
            /\ MergeOpts.oflag MergeOpts.ix_custom_trace (bo_opts r) = true.
Proof.
  destruct (flatten_opts_kept example_file (mkBO (mkBatch KStd [80%N; 80%N; 68%N] 2 [ent 51%N] []) o_bypass)
              example_kinds) as (r & Hr & C); [right; left; reflexivity|].
  exists r. split; [exact Hr|]. split; [exact C|].
  vm_compute in Hr. destruct Hr as [<-|[<-|[]]]; [reflexivity|].
  destruct C as (S & _). vm_compute in S. discriminate S.
Qed.

(* ---- the statement before 41f38276 (Consume without the SetValidation): refuted *)
Lemma opts_kept_unfixed_refuted :
  exists f b, In b (fo_batches f) /\ kinds_consistent (map bo_batch (fo_batches f))
    /\ ~ exists r, In r (fo_batches (flatten_unfixed_stable f)) /\ covers b r.
Proof.
  destruct unfixed_loses_options as (f & b & Hb & Hk & Hf & Hr).
  exists f, b. split; [exact Hb|]. split; [exact Hk|]. intros (r & Hin & (_ & _ & _ & Ho)).
  specialize (Hr r Hin). apply (MergeOptsFacts.osub_oflag _ _ _ Ho) in Hf. congruence.
Qed.

(* C10, phase 2 — obligations: the instances for the code as it stands ([sel] from the regenerated
   send table), the validator-model transfer (C09Valid), non-vacuity examples and the refuted
   stronger statements. *)
From Coq Require Import List NArith ZArith Bool Arith Lia Permutation.
From ACH Require Import ValidOut ValidOutFacts Tables.
From ACH Require Import Bytes Merge MergeFacts MergeDir MergeDirFacts MergeDirMerge MergeDirMergeFacts.
From ACH Require Import ValidMerge ValidMergeFacts ValidMergeObl.
Import ListNotations.

(* ------------------------------------------------------------ C09Valid carried over: outputs pass the validator model *)
Section ArithValid.
  Variable sel : bool.
  Variable parse : N -> outcome.
  Variable content : N -> ifile.
  Variable add_ok : N -> bool.
  Variable n : nat.
  Variable paths : list N.
  Variable c : conds.
  Variable sched : list label.
  Variable s : mstate.
  Variable out : list rfile.
  Variable mp : N -> mpay.
  Hypothesis Hrun : run_m sel parse content add_ok sched (init_m n paths) = Some s.
  Hypothesis Hterm : terminal (proto s) = true.
  Hypothesis Hres : result_m c s = Some out.
  Hypothesis Hvalid : inputs_valid gen_tables mp (dir_files parse content paths).

  Let fs : list ifile := as_mergefiles_input (option_map content (seeded s)) (map content (arrivals s)).

  Lemma dir_inputs_valid : inputs_valid gen_tables mp fs.
  Proof.
    intros f ib Hf Hib. apply (Hvalid f ib); [|exact Hib].
    exact (fs_batches_from_dir sel parse content add_ok n paths c sched s out Hrun Hterm Hres f ib Hf Hib).
  Qed.

  Lemma dir_batch_arith_valid g rb : In g out -> In rb (rf_batches g) ->
    (AR.calc_debit gen_tables AR.KStd (map (m_entry mp) (rb_entries rb)) <= AR.t_batch_limit gen_tables)%Z ->
    (AR.calc_credit gen_tables AR.KStd (map (m_entry mp) (rb_entries rb)) <= AR.t_batch_limit gen_tables)%Z ->
    AR.validate_batch gen_tables (m_batch gen_tables mp rb) = AR.ROk.
  Proof.
    rewrite (out_is_mergefiles sel parse content add_ok n paths c sched s out Hrun Hterm Hres).
    apply c09_batch_arith_valid. exact dir_inputs_valid.
  Qed.

  Lemma dir_file_arith_valid g : In g out ->
    Forall (fun rb => (AR.calc_debit gen_tables AR.KStd (map (m_entry mp) (rb_entries rb)) <= AR.t_batch_limit gen_tables)%Z /\
                      (AR.calc_credit gen_tables AR.KStd (map (m_entry mp) (rb_entries rb)) <= AR.t_batch_limit gen_tables)%Z) (rf_batches g) ->
    fctl_fits gen_tables (AR.fl_ctl (m_file gen_tables mp g)) ->
    AR.validate_file gen_tables (m_file gen_tables mp g) = AR.ROk.
  Proof.
    rewrite (out_is_mergefiles sel parse content add_ok n paths c sched s out Hrun Hterm Hres).
    apply c09_file_arith_valid. exact dir_inputs_valid.
  Qed.
End ArithValid.

(* ------------------------------------------------------------ a concrete directory *)
(* two files of the same routing pair whose batch headers are not Equal (names A / B) *)
Definition dx_hA : header := mkHeader 200 [65]%N [49]%N [80; 80; 68]%N [80]%N [49; 57]%N [49; 50]%N 1.
Definition dx_hB : header := mkHeader 200 [66]%N [49]%N [80; 80; 68]%N [80]%N [49; 57]%N [49; 50]%N 2.
Definition dx_fA : ifile := mkIFile [49]%N [50]%N 1 [mkIBatch dx_hA [mkEntry [48; 49]%N 100 0 1; mkEntry [48; 51]%N 300 1 3]].
Definition dx_fB : ifile := mkIFile [49]%N [50]%N 2 [mkIBatch dx_hB [mkEntry [48; 50]%N 200 0 2]].
(* a third file: other routing pair *)
Definition dx_fC : ifile := mkIFile [49]%N [51]%N 3 [mkIBatch dx_hA [mkEntry [48; 49]%N 500 0 5]].

(* paths 1 2 3 (4 is skipped), file ids 101 102 103 *)
Definition dx_parse (p : N) : outcome := if (p =? 4)%N then PSkip else POk (p + 100)%N.
Definition dx_content (f : N) : ifile := if (f =? 101)%N then dx_fA else if (f =? 102)%N then dx_fB else dx_fC.

Definition dx_shape (gs : list rfile) : list (N * list (Z * N * list N)) :=
  map (fun g => (rf_hid g, map (fun rb => (rb_number rb, h_rest (rb_header rb), map e_id (rb_entries rb))) (rf_batches g))) gs.

Definition dx_dir2 : list ifile := dir_files dx_parse dx_content [1; 2]%N.

Lemma dx_dir2_files : dx_dir2 = [dx_fA; dx_fB].
Proof. reflexivity. Qed.

(* two workers; the second file is read first (it seeds the header) and reaches the merger first *)
Definition dx_sched_ba : list label :=
  [LHand 0; LHand 1; LStart 0; LStart 1; LParse 1; LParse 0; LDeliver 1; LAdd; LDeliver 0; LAdd;
   LWalkerDone; LPathsCancel; LWorkerExit 0; LWorkerExit 1; LParseCancel; LMergerExit].

(* two workers; the first file is read first (seeds the header) but the second reaches the merger first *)
Definition dx_sched_seed_a_first_b : list label :=
  [LHand 0; LHand 1; LStart 0; LStart 1; LParse 0; LParse 1; LDeliver 1; LAdd; LDeliver 0; LAdd;
   LWalkerDone; LPathsCancel; LWorkerExit 0; LWorkerExit 1; LParseCancel; LMergerExit].

Definition dx_run (n : nat) (paths : list N) (c : conds) (sched : list label) :=
  run_dir true dx_parse dx_content n paths c sched.

(* non-vacuity of the hypotheses of every C10Merge theorem: complete error-free runs *)
Example dx_run_ba :
  option_map (fun r => let '(t, o, a, sd) := r in (t, option_map dx_shape o, a, sd)) (dx_run 2 [1; 2]%N (mkConds 0 0) dx_sched_ba)
  = Some (true, Some [(2%N, [(1%Z, 2%N, [2%N]); (2%Z, 1%N, [1%N; 3%N])])], [102; 101]%N, Some 102%N).
Proof. vm_compute. reflexivity. Qed.

Example dx_run_seed_a_first_b :
  option_map (fun r => let '(t, o, a, sd) := r in (t, option_map dx_shape o, a, sd)) (dx_run 2 [1; 2]%N (mkConds 0 0) dx_sched_seed_a_first_b)
  = Some (true, Some [(1%N, [(1%Z, 2%N, [2%N]); (2%Z, 1%N, [1%N; 3%N])])], [102; 101]%N, Some 101%N).
Proof. vm_compute. reflexivity. Qed.

Example dx_mergefiles_ab : dx_shape (merge_files dx_dir2 (mkConds 0 0)) = [(1%N, [(1%Z, 1%N, [1%N; 3%N]); (2%Z, 2%N, [2%N])])].
Proof. vm_compute. reflexivity. Qed.

(* one worker, three data files and a skipped one, MaxLines 7 binding (batch number 2 is skipped by the overflow): equals MergeFiles exactly *)
Definition dx_sched_one : list label :=
  [LHand 0; LStart 0; LParse 0; LDeliver 0; LAdd; LHand 0; LStart 0; LParse 0; LDeliver 0; LAdd;
   LHand 0; LStart 0; LParse 0; LDeliver 0; LAdd; LHand 0; LStart 0; LParse 0;
   LWalkerDone; LPathsCancel; LWorkerExit 0; LParseCancel; LMergerExit].

Example dx_run_one :
  option_map (fun r => let '(t, o, a, sd) := r in (t, option_map dx_shape o, a, sd)) (dx_run 1 [1; 2; 3; 4]%N (mkConds 7 0) dx_sched_one)
  = Some (true, Some [(1%N, [(1%Z, 1%N, [1%N; 3%N])]); (1%N, [(3%Z, 2%N, [2%N])]); (3%N, [(4%Z, 1%N, [5%N])])],
          [101; 102; 103]%N, Some 101%N)
  /\ dx_shape (merge_files (dir_files dx_parse dx_content [1; 2; 3; 4]%N) (mkConds 7 0))
     = [(1%N, [(1%Z, 1%N, [1%N; 3%N])]); (1%N, [(3%Z, 2%N, [2%N])]); (3%N, [(4%Z, 1%N, [5%N])])].
Proof. vm_compute. split; reflexivity. Qed.

(* an empty directory (only a skipped file): sorted stays  &outFile{}  and nothing is returned *)
Example dx_run_empty :
  dx_run 1 [4]%N (mkConds 0 0) [LHand 0; LStart 0; LParse 0; LWalkerDone; LPathsCancel; LWorkerExit 0; LParseCancel; LMergerExit]
  = Some (true, Some [], [], None).
Proof. vm_compute. reflexivity. Qed.

(* ------------------------------------------------------------ refuted: equality of the structure *)
(* With two parse workers there is a schedule whose result differs from MergeFiles over the directory
   (batch order and the header of the output file follow the arrival order) ... *)
Lemma structure_equality_refuted :
  exists sched s out,
    run_m true dx_parse dx_content (fun _ => true) sched (init_m 2 [1; 2]%N) = Some s /\
    terminal (proto s) = true /\ result_m (mkConds 0 0) s = Some out /\
    out <> merge_files dx_dir2 (mkConds 0 0) /\
    Permutation (ids_out out) (ids_out (merge_files dx_dir2 (mkConds 0 0))).
Proof.
  destruct (run_m true dx_parse dx_content (fun _ => true) dx_sched_ba (init_m 2 [1; 2]%N)) as [s|] eqn:R;
    [|vm_compute in R; discriminate].
  exists dx_sched_ba, s, (output_of (mkConds 0 0) s).
  assert (T : terminal (proto s) = true /\ result_m (mkConds 0 0) s = Some (output_of (mkConds 0 0) s)).
  { vm_compute in R. injection R as <-. vm_compute. split; reflexivity. }
  destruct T as [T1 T2]. split; [exact R|]. split; [exact T1|]. split; [exact T2|]. split.
  - vm_compute in R. injection R as <-. vm_compute. discriminate.
  - eapply (equals_mergefiles true dx_parse dx_content (fun _ => true) 2 [1; 2]%N); eassumption.
Qed.

(* ... and a schedule whose result is not the MergeFiles result of ANY ordering of the directory's
   files: the file that seeds the header (sync.Once in the worker) is not the first the merger adds *)
Lemma any_ordering_refuted :
  exists sched s out,
    run_m true dx_parse dx_content (fun _ => true) sched (init_m 2 [1; 2]%N) = Some s /\
    terminal (proto s) = true /\ result_m (mkConds 0 0) s = Some out /\
    forall fs', Permutation dx_dir2 fs' -> out <> merge_files fs' (mkConds 0 0).
Proof.
  destruct (run_m true dx_parse dx_content (fun _ => true) dx_sched_seed_a_first_b (init_m 2 [1; 2]%N)) as [s|] eqn:R;
    [|vm_compute in R; discriminate].
  exists dx_sched_seed_a_first_b, s, (output_of (mkConds 0 0) s).
  split; [exact R|]. vm_compute in R. injection R as <-.
  split; [vm_compute; reflexivity|]. split; [vm_compute; reflexivity|].
  intros fs' P. rewrite dx_dir2_files in P. apply Permutation_length_2_inv in P as [->| ->]; vm_compute; discriminate.
Qed.

(* the exact characterisation on that run: MergeFiles of [header of A; B; A] *)
Example any_ordering_witness_is_header_seeded :
  option_map (fun r => snd (fst (fst r))) (dx_run 2 [1; 2]%N (mkConds 0 0) dx_sched_seed_a_first_b)
  = Some (Some (merge_files [header_only dx_fA; dx_fB; dx_fA] (mkConds 0 0))).
Proof. vm_compute. reflexivity. Qed.

(* ------------------------------------------------------------ non-vacuity of the validator transfer *)
(* the two valid files of ValidMergeObl as a directory, second file first: hypothesis met, the one
   output file passes the validator model *)
Definition vx_content (f : N) : ifile := if (f =? 101)%N then ex_mf1 else ex_mf2.

Lemma vx_inputs_valid : inputs_valid gen_tables ex_mp (dir_files dx_parse vx_content [1; 2]%N).
Proof. exact (proj1 ex_merge_hyps). Qed.

Definition vx_out : list rfile :=
  match run_dir true dx_parse vx_content 2 [1; 2]%N ex_conds dx_sched_ba with
  | Some (_, Some out, _, _) => out
  | _ => []
  end.

Example vx_run_ok :
  option_map (fun r => let '(t, o, a, sd) := r in (t, match o with Some _ => true | None => false end, a, sd))
             (run_dir true dx_parse vx_content 2 [1; 2]%N ex_conds dx_sched_ba)
  = Some (true, true, [102; 101]%N, Some 102%N).
Proof. vm_compute. reflexivity. Qed.

Example vx_out_valid :
  map (fun g => map (fun rb => map e_id (rb_entries rb)) (rf_batches g)) vx_out = [[[1%N; 2%N]]] /\
  Forall (fun g => AR.validate_file gen_tables (m_file gen_tables ex_mp g) = AR.ROk) vx_out.
Proof.
  split; [vm_compute; reflexivity|].
  remember vx_out as o eqn:E. vm_compute in E. subst o. repeat constructor; vm_compute; reflexivity.
Qed.

(* Phase 2 obligations: the two regenerated tables (Gen/Tables.v of C03, Gen/OffsetTable.v
   of C05) agree, instances of the generic theorems of ValidOffsetsFacts at these tables,
   and non-vacuity examples. *)
From Coq Require Import Lia.
From ACH Require Import ValidOut ValidOutFacts Tables C03Obl.
From ACH Require Import Offsets OffsetsFacts OffsetTable C05Obl.
From ACH Require Import ValidOffsets ValidOffsetsFacts.
Open Scope Z_scope.

Notation GA := gen_tables.
Notation GT := offset_table.

(* re-evaluated on every run against the current batch.go / validators.go *)
Lemma gen_tables_agree : tables_agree GA GT = true.
Proof. vm_compute. reflexivity. Qed.

Lemma gen_agree : agree GA GT.
Proof. apply tables_agree_sound, gen_tables_agree. Qed.

Lemma c05_build_arith_valid b b' des poff :
  build GT b = Ret true b' -> map fst des = b_entries b ->
  (b_off b <> None -> wf_entries GT (b_entries b) = true) ->
  class_okb GA (b_svc b) = true ->
  forallb pay_ok des = true ->
  Forall (fun d => entry_static GA (o_entry d) = true) des ->
  Forall (fun d => class_dir_ok GA (b_svc b) (o_entry d) = true) des ->
  (forall o, b_off b = Some o -> poff_ok o poff = true) ->
  b_entries b' <> [] ->
  asc 0 (map e_trace (b_entries b')) -> Forall (trace_in (b_odfi b)) (b_entries b') ->
  Forall (fun e => e_amount e <= AR.t_amount_limit GA) (b_entries b') ->
  debits GT (b_entries b') <= AR.t_batch_limit GA -> credits GT (b_entries b') <= AR.t_batch_limit GA ->
  AR.validate_batch GA (o_batch b' (d_build GT b des poff)) = AR.ROk.
Proof. apply build_arith_valid; [apply offset_table_good|apply gen_agree]. Qed.

Lemma c05_fresh_build_arith_valid b b' des poff :
  build GT b = Ret true b' -> map fst des = b_entries b ->
  (b_off b <> None -> wf_entries GT (b_entries b) = true /\ existsb nonoff (b_entries b) = true) ->
  odfi_ok (b_odfi b) -> all_absent (b_odfi b) (b_entries b) = true -> Z.of_nat (length (b_entries b)) + 2 < P7 ->
  class_okb GA (b_svc b) = true ->
  forallb pay_ok des = true ->
  Forall (fun d => entry_static GA (o_entry d) = true) des ->
  Forall (fun d => class_dir_ok GA (b_svc b) (o_entry d) = true) des ->
  (forall o, b_off b = Some o -> poff_ok o poff = true) ->
  Forall (fun e => e_amount e <= AR.t_amount_limit GA) (b_entries b') ->
  debits GT (b_entries b') <= AR.t_batch_limit GA -> credits GT (b_entries b') <= AR.t_batch_limit GA ->
  AR.validate_batch GA (o_batch b' (d_build GT b des poff)) = AR.ROk.
Proof. apply fresh_build_arith_valid; [apply offset_table_good|apply gen_agree]. Qed.

Lemma c05_payload_preserved b des poff d' : In d' (d_build GT b des poff) ->
  (exists d, In d des /\ same_static d d') \/ (exists o, b_off b = Some o /\ snd d' = poff /\ e_off (fst d') = true).
Proof.
  intros H. destruct (d_build_In GT b des poff d' H) as [L|(o & Eo & Hp & Hin)]; [now left|right].
  exists o. apply new_offsets_In in Hin as (Hoff & _). auto.
Qed.

Lemma c05_d_build_entries b b' des poff :
  (b_off b <> None -> wf_entries GT (b_entries b) = true) ->
  build GT b = Ret true b' -> map fst des = b_entries b -> map fst (d_build GT b des poff) = b_entries b'.
Proof. apply d_build_fst, offset_table_good. Qed.

Lemma c05_o_batch_valid b des :
  ctl_ok GT b -> map fst des = b_entries b -> forallb pay_ok des = true ->
  class_okb GA (b_svc b) = true -> b_entries b <> [] ->
  Forall (fun d => entry_static GA (o_entry d) = true) des ->
  Forall (fun d => class_dir_ok GA (b_svc b) (o_entry d) = true) des ->
  asc 0 (map e_trace (b_entries b)) -> Forall (trace_in (b_odfi b)) (b_entries b) ->
  debits GT (b_entries b) <= AR.t_batch_limit GA -> credits GT (b_entries b) <= AR.t_batch_limit GA ->
  AR.validate_batch GA (o_batch b des) = AR.ROk.
Proof. apply o_batch_valid, gen_agree. Qed.

Lemma c05_file_create_arith_valid f f' dess :
  file_create f = Ret true f' -> length dess = length (f_batches f) ->
  Forall (fun x => AR.validate_batch GA x = AR.ROk) (o_batches (f_batches f) dess) ->
  forallb (fun b => b_num b <=? 1) (f_batches f) = true ->
  fctl_fits GA (o_fctl (f_ctl f')) ->
  AR.validate_file GA (o_file f' dess) = AR.ROk.
Proof. apply file_create_arith_valid with (T := GT), gen_agree. Qed.

(* ---- non-vacuity: a credits-only PPD batch of two entries, offset account configured ---- *)

Definition dsb (l : list Z) : bytes := map (fun d => (48 + Z.to_N d)%N) l.

Definition ex_p1 := mkepay (dsb [2;3;1;3;8;0;1;0]) (dsb [4]).
Definition ex_p2 := mkepay (dsb [1;2;1;0;4;2;8;8]) (dsb [2]).
Definition ex_des : list dentry :=
  [ (mkentry 22 100000 false 0 0 23138010, ex_p1); (mkentry 32 5000 false 0 1 12104288, ex_p2) ].
Definition ex_off := mkoff true Checking 12104288.
Definition ex_b : batch := mkbatch true 12104288 220 0 (map fst ex_des) (mkctl 0 0 0 0 0 0) (Some ex_off).
Definition ex_b' : batch := match build GT ex_b with Ret _ x => x | _ => ex_b end.

Lemma ex_fresh_hyps :
  build GT ex_b = Ret true ex_b' /\
  (wf_entries GT (b_entries ex_b) = true /\ existsb nonoff (b_entries ex_b) = true) /\
  all_absent (b_odfi ex_b) (b_entries ex_b) = true /\ class_okb GA (b_svc ex_b) = true /\
  forallb pay_ok ex_des = true /\
  forallb (fun d => entry_static GA (o_entry d)) ex_des = true /\
  forallb (fun d => class_dir_ok GA (b_svc ex_b) (o_entry d)) ex_des = true /\
  poff_ok ex_off ex_p2 = true /\ length (b_entries ex_b') = 3%nat /\ b_svc ex_b' = 200.
Proof. vm_compute. repeat split; reflexivity. Qed.

Lemma ex_fresh_valid : AR.validate_batch GA (o_batch ex_b' (d_build GT ex_b ex_des ex_p2)) = AR.ROk.
Proof. vm_compute. reflexivity. Qed.

(* the same batch with a wrong control total is refused by the same validator: the
   conclusion of the theorems is not a constant *)
Lemma ex_fresh_wrong_total :
  AR.validate_batch GA (o_batch (with_es_ctl ex_b' (b_entries ex_b') (mkctl 200 0 4 (c_hash (b_ctl ex_b')) 105000 5000))
                                (d_build GT ex_b ex_des ex_p2)) = AR.RDebit.
Proof. vm_compute. reflexivity. Qed.

Definition ex_f : file := mkfile true [ex_b'] (mkfctl 0 0 0 0 0 0).
Definition ex_f' : file := match file_create ex_f with Ret _ x => x | _ => ex_f end.
Lemma ex_file_valid :
  file_create ex_f = Ret true ex_f' /\
  AR.validate_file GA (o_file ex_f' [d_build GT ex_b ex_des ex_p2]) = AR.ROk.
Proof. vm_compute. split; reflexivity. Qed.

(* ---- phase 8: File.Create, end to end with C03 ------------------------------------ *)
(* The file control that File.Create tabulates equals sums over the ENTRIES of the created
   file's batches (C03GenObl.file_entries_spec): composition of c05_file_create_arith_valid
   with C03Obl.c03_file_arith and C03GenObl.c03_batch_arith_general. *)
From ACH Require C03Obl C03GenObl.

Lemma c05_file_create_entries f f' dess :
  file_create f = Ret true f' -> length dess = length (f_batches f) ->
  Forall (fun x => AR.validate_batch GA x = AR.ROk) (o_batches (f_batches f) dess) ->
  forallb (fun b => b_num b <=? 1) (f_batches f) = true ->
  fctl_fits GA (o_fctl (f_ctl f')) ->
  AR.is_adv_file (o_file f' dess) = false ->
  C03GenObl.file_entries_spec (o_file f' dess) (o_batches (f_batches f') dess).
Proof.
  intros Hc Hl Hall Hn Hfit Hadv.
  pose proof (c05_file_create_arith_valid f f' dess Hc Hl Hall Hn Hfit) as Hv.
  destruct (C03Obl.c03_file_arith (o_file f' dess) Hv Hadv) as (_ & Hs & Hb & _).
  unfold AR.all_batches in Hs. cbn [AR.fl_batches AR.fl_iat o_file] in Hs, Hb.
  rewrite app_nil_r in Hs.
  apply C03GenObl.file_sums_entries; assumption.
Qed.

Lemma ex_file_entries :
  AR.is_adv_file (o_file ex_f' [d_build GT ex_b ex_des ex_p2]) = false /\
  o_batches (f_batches ex_f') [d_build GT ex_b ex_des ex_p2] <> [].
Proof. vm_compute. split; [reflexivity|discriminate]. Qed.

(* Reflection obligation shared by C11, C12 and C13 (phase 4): the statements of
   FlattenBatches, SegmentFile and Reversal that store a ValidateOpts value, as
   regenerated from file_flattener.go, file.go and reversal.go of this run, are
   exactly the ones the option models take from the source. *)
From Coq Require Import String List Bool.
Import ListNotations.
From ACH Require Import OptSitesTable OptSites.

Lemma opt_sites_ok : sites_ok opt_sites = true.
Proof. vm_compute. reflexivity. Qed.

Lemma opt_sites_facts :
  opt_sites = expected_sites
  /\ (forall x, In x opt_sites -> site_func x <> "File.Reversal"%string)
  /\ In (OSite "mergeableBatcher.Consume" "m.batcher" "batchValidation(m.batcher).merge(batchValidation(batcherToConsume))") opt_sites
  /\ In (OSite "mergeableIATBatch.Consume" "m.iatBatch" "m.iatBatch.validateOpts.merge(batchToConsume.validateOpts)") opt_sites
  /\ In (OSite "setSegmentBatchValidation" "split" "f.validateOpts.merge(batchValidation(from))") opt_sites
  /\ In (OSite "File.segmentFileIATBatches" "creditIATBatch" "f.validateOpts.merge(iatb.validateOpts)") opt_sites
  /\ In (OSite "File.segmentFileIATBatches" "debitIATBatch" "f.validateOpts.merge(iatb.validateOpts)") opt_sites.
Proof. exact (sites_sound opt_sites opt_sites_ok). Qed.

(* Reflection obligations for C14: boolean checkers evaluated on the effect table
   regenerated from the SSA form of the current source (Gen/Effects.v), instances of the
   generic theorems, non-vacuity examples and the refutation witness. *)
From Coq Require Import String List Bool NArith.
Import ListNotations.
From ACH Require Import Bytes EffectTable Purity PurityFacts Effects.

(* every heap write / escaping pointer of the read-only entry points is a modelled one *)
Lemma effects_table_ok : effects_ok effects = true.
Proof. vm_compute. reflexivity. Qed.

(* the analysis still starts from the entry points of the property and still reaches the accessors *)
Lemma effects_roots_ok : roots_ok effects_roots effects_closure = true.
Proof. vm_compute. reflexivity. Qed.

(* the effects the hand model performs are still in the code *)
Lemma effects_model_present : model_effects_present effects = true.
Proof. vm_compute. reflexivity. Qed.

Lemma effects_closure_counted : length effects_closure = effects_closure_size.
Proof. vm_compute. reflexivity. Qed.

(* each entry of the regenerated table has a class, and an instance of that class is the
   identity on a file without nil header / control *)
Lemma effects_noop e : In e effects ->
  exists c, class_of e = Some c /\ forall i f, inv f = true -> sem c i f = f.
Proof.
  intros He. destruct (effects_ok_class effects effects_table_ok e He) as [c Hc].
  exists c. split; [exact Hc|]. intros i f H. now apply sem_noop.
Qed.

(* any program all of whose writes are instances of table entries leaves such a file alone *)
Definition from_table (ci : eclass * nat) : Prop := exists e, In e effects /\ class_of e = Some (fst ci).

Lemma effects_trace_pure tr f : Forall from_table tr -> inv f = true -> run tr f = f.
Proof. intros _ H. now apply trace_pure. Qed.

(* the literal model of each operation is such a program *)
Lemma install_class_from_table ci : install_class ci -> from_table ci.
Proof.
  intros [H|H]; rewrite (surjective_pairing ci); cbn [fst]; rewrite H.
  - exists (mkeff "(*Batch).SetHeader" "Store" "Batch.Header"). split; [|reflexivity].
    apply eff_mem_In. vm_compute. reflexivity.
  - exists (mkeff "(*Batch).SetControl" "Store" "Batch.Control"). split; [|reflexivity].
    apply eff_mem_In. vm_compute. reflexivity.
Qed.

Lemma step_from_table f o :
  step f o = run (op_trace f o) f /\ Forall from_table (op_trace f o).
Proof.
  destruct (step_refines f o) as [E F]. split; [exact E|].
  eapply Forall_impl; [|exact F]. intros ci. apply install_class_from_table.
Qed.

Lemma history_built ops secs : no_adv secs = true ->
  observe (fold_left step ops (built secs)) = observe (built secs).
Proof. intros H. exact (history_observe ops (built secs) (inv_built secs H)). Qed.

Lemma history_created ops secs : observe (fold_left step ops (created secs)) = observe (created secs).
Proof. exact (history_prefix ops (created secs) (prefix_inv_created secs)). Qed.

Lemma history_reader ops secs : observe (fold_left step ops (reader_file secs)) = observe (reader_file secs).
Proof. exact (history_prefix ops (reader_file secs) (prefix_inv_reader secs)). Qed.

(* ---- non-vacuity *)
Definition ppd : bytes := [80; 80; 68]%N.
Definition ccd : bytes := [67; 67; 68]%N.
Definition ex_file : file := built [ppd; ccd; ppd].
Definition ex_flags : vflags := mkv false false true true.
Definition ex_ops : list op :=
  [OValidate ex_flags; OWriteValidating ex_flags; OString 3; OMarshalJSON; OBatchValidate 1; OWriteBypass].

Example ex_inv : no_adv [ppd; ccd; ppd] = true /\ inv ex_file = true /\ length ex_file = 3 /\ fold_left step ex_ops ex_file = ex_file.
Proof. vm_compute. repeat split. Qed.

(* an ADV file as the Reader returns it: two ADV batches, the second still without a
   Control — the invariant is false, the exact condition holds, the history is pure *)
Definition ex_adv_file : file := reader_file [adv; adv].
Example ex_adv : inv ex_adv_file = false /\ prefix_inv ex_adv_file = true /\ fold_left step ex_ops ex_adv_file = ex_adv_file.
Proof. vm_compute. repeat split. Qed.

(* ---- the condition is needed, and constructor-built files can violate it: a file with
   an ADV batch on which File.Create has not run (NewBatchADV leaves Control nil) is
   changed by the first Validate / Write that reaches IsADV (known finding) *)
Definition adv_uncreated : file := built [adv].
Lemma purity_built_adv_refuted :
  exists secs ops, observe (fold_left step ops (built secs)) <> observe (built secs).
Proof. exists [adv], [OValidate ex_flags]. vm_compute. discriminate. Qed.

(* a batch made without the constructors (nil header) likewise *)
Definition bad_file : file := [mkbat None false].
Lemma purity_without_inv_refuted :
  exists f ops, prefix_inv f = false /\ observe (fold_left step ops f) <> observe f.
Proof. exists bad_file, [OValidate ex_flags]. split; [reflexivity|]. vm_compute. discriminate. Qed.

(* ... and an operation sequence that never reaches IsADV leaves even that file alone *)
Example bad_file_untouched :
  fold_left step [OValidate (mkv true false false true); OValidateWith (mkv false false false false); OMarshalJSON; OString 0; OBatchValidate 0] bad_file = bad_file.
Proof. vm_compute. reflexivity. Qed.

(* Obligations of the C02 reader-domain theorems (Props/C02Reader.v) on the tables regenerated in this
   run: Gen/Layouts.v (LT), Gen/RecRules.v (RT), Gen/Tables.v (AT).

   1. reflection: every column no rule bounds is filled by Parse ([parse_fills]); the record types the
      reader constructs start with the record-type character of their place ([reader_kinds_ok]); the
      reasons, spelled out, are the reviewed table [parsed_columns_reviewed]
   2. the generic theorems of Codec/ReaderWidthFacts.v instantiated
   3. non-vacuity: an accepted text (the writer's output of the generated file ex_std), the theorem
      applied to it; an accepted 798 record with data in columns 65..70
   4. witnesses: the clock is needed (a header whose creation time is no time is accepted with an empty
      FileCreationTime; the hand model of FileCreationTimeField covers non-empty values only);
      the flag is needed (a batch that is never closed carries the constructor's control record) *)
From Coq Require Import String List NArith ZArith Bool Lia.
From ACH Require Import Arith.
From ACH Require Import ReaderValid ReaderValidFacts LayoutFacts FileStructFacts DispatchFacts DispatchBytes WrittenCountsFacts ReaderWidth ReaderWidthFacts ReaderLineBreakFacts.
From ACH Require Import Layouts RecRules Tables C01Obl C01FileEx C01FileObl C01ValidObl C02ValidObl.
Import ListNotations.
Local Open Scope string_scope.
Local Open Scope nat_scope.
Local Open Scope list_scope.

(* ------------------------------------------------------------------ *)
(* 1. reflection                                                        *)

Lemma parse_fills_checked : forallb (parse_fills all_rules) all_layouts = true.
Proof. vm_compute. reflexivity. Qed.

Lemma reader_kinds_checked : reader_kinds_ok all_layouts = true.
Proof. vm_compute. reflexivity. Qed.

(* no literal String() writes and no constant Parse assigns holds a CR or LF *)
Lemma lits_no_nl_checked : forallb lits_no_nl all_layouts = true.
Proof. vm_compute. reflexivity. Qed.

(* why each unbounded column is filled: the reason [fills] accepts *)
Definition fill_reason (R : rules) (L : layout) (x : colseg) : string :=
  if negb (fills R L x) then "NOT FILLED"
  else match cs_seg x with
       | SRaw f =>
           match find_key (l_cuts L) f with
           | Some c => match c_const c with
                       | Some _ => "constant assigned by Parse"
                       | None => if is_nil (c_conv c) then "columns sliced as they are"
                                 else "columns sliced and trimmed, one column, a rule rejects the empty string"
                       end
           | None => "?"
           end
       | SItoa _ => "one column read by parseNumField"
       | SCustom n _ => if String.eqb n "FileHeader.FileCreationDateField"
                        then "six columns kept only if a date, a rule rejects the empty string"
                        else "four columns kept only if a time, else the clock"
       | _ => "?"
       end.

Lemma parsed_columns_reviewed :
  map (fun L => (l_name L, map (fun x => (seg_name (cs_seg x), fill_reason (rules_of L) L x)) (unbounded_in all_rules L))) partial_layouts =
  [ ("ADVEntryDetail", [ ("CheckDigit", "columns sliced and trimmed, one column, a rule rejects the empty string")
                       ; ("AddendaRecordIndicator", "one column read by parseNumField") ])
  ; ("EntryDetail", [ ("CheckDigit", "columns sliced as they are")
                    ; ("AddendaRecordIndicator", "one column read by parseNumField") ])
  ; ("FileHeader", [ ("priorityCode", "constant assigned by Parse")
                   ; ("FileHeader.FileCreationDateField", "six columns kept only if a date, a rule rejects the empty string")
                   ; ("FileHeader.FileCreationTimeField", "four columns kept only if a time, else the clock") ])
  ; ("IATEntryDetail", [ ("CheckDigit", "columns sliced and trimmed, one column, a rule rejects the empty string")
                       ; ("AddendaRecordIndicator", "one column read by parseNumField") ]) ].
Proof. vm_compute. reflexivity. Qed.

(* no rule of FileHeader.Validate reads FileCreationTime (so the clock does not change the verdict) *)
Lemma header_rules_skip_time : rules_skip (rules_of L_FileHeader) TIME = true.
Proof. vm_compute. reflexivity. Qed.

(* ------------------------------------------------------------------ *)
(* 2. instances                                                         *)

(* the lines Reader.Read hands to parseLine are valid UTF-8 whatever the input bytes *)
Theorem c02_reader_lines_utf8 text ls : norm_lines (read_lines text) = Some ls -> Forall (fun l => wf_utf8 l = true) ls.
Proof. exact (read_lines_wf text ls). Qed.

(* one record: what Parse makes of a line, if it passes its rules, satisfies the width condition of C02_line_width *)
Theorem c02_parsed_record_widthb L l clk : In L all_layouts ->
  wf_utf8 l = true -> rune_count l = 94 -> wf_utf8 clk = true -> rune_count clk = 4 ->
  let r := overlay (parse L l) [] in
  rec_validb (rules_of L) r = true -> widthb L (stamp_for clk (l_name L) r) = true.
Proof.
  intros HL Hl H94 Hc Hc4. cbv zeta. apply parsed_widthb; auto.
  - now apply layout_ok_in.
  - pose proof parse_fills_checked as H. rewrite forallb_forall in H. now apply H.
Qed.

Theorem c02_parsed_record_line L l clk : In L all_layouts ->
  wf_utf8 l = true -> rune_count l = 94 -> wf_utf8 clk = true -> rune_count clk = 4 ->
  let r := overlay (parse L l) [] in
  rec_validb (rules_of L) r = true ->
  rune_count (render L (stamp_for clk (l_name L) r)) = 94 /\ wf_utf8 (render L (stamp_for clk (l_name L) r)) = true.
Proof.
  intros HL Hl H94 Hc Hc4. cbv zeta. apply parsed_line; auto.
  - now apply layout_ok_in.
  - pose proof parse_fills_checked as H. rewrite forallb_forall in H. now apply H.
Qed.

(* the unbounded columns of the four partial layouts: the explicit hypothesis of C02_valid_width_partial holds of
   every parsed record that passes its rules *)
Theorem c02_parsed_unbounded_fit L l clk : In L all_layouts ->
  wf_utf8 l = true -> rune_count l = 94 -> wf_utf8 clk = true -> rune_count clk = 4 ->
  let r := overlay (parse L l) [] in
  rec_validb (rules_of L) r = true -> unbounded_fit L (stamp_for clk (l_name L) r) = true.
Proof.
  intros HL Hl H94 Hc Hc4. cbv zeta. intros Hv. unfold unbounded_fit, unbounded_fitb. apply forallb_forall. intros x Hx.
  pose proof parse_fills_checked as H. rewrite forallb_forall in H. specialize (H L HL).
  apply (fills_sound all_rules L l clk (layout_ok_in L HL) Hl H94 Hc Hc4); [|exact Hv].
  destruct (pf_parts all_rules L H) as (_ & _ & Hf). rewrite forallb_forall in Hf. now apply Hf.
Qed.

Definition line_ok94 (l : bytes) : Prop := rune_count l = 94 /\ wf_utf8 l = true.

(* C02_reader_domain *)
Theorem c02_reader_domain text f clk :
  read_text_valid LT RT AT text = Some (f, false) -> wf_utf8 clk = true -> rune_count clk = 4 ->
  let g := stamp clk f in
  let out := write_file_padded LT g in
  Forall line_ok94 out
  /\ length out mod 10 = 0
  /\ (exists k, k < 10 /\ out = write_file LT g ++ repeat nines k)
  /\ grammar_ok out = true
  /\ shape_ok LT g = true.
Proof.
  intros Hr Hc Hc4. exact (reader_domain LT RT AT all_layouts_ok parse_fills_checked reader_kinds_checked clk Hc Hc4 text f Hr).
Qed.

Theorem c02_reader_domain_decoded (dec : bytes -> bytes) raw f clk :
  read_text_valid LT RT AT (dec raw) = Some (f, false) -> wf_utf8 clk = true -> rune_count clk = 4 ->
  let out := write_file_padded LT (stamp clk f) in
  Forall line_ok94 out /\ length out mod 10 = 0
  /\ (exists k, k < 10 /\ out = write_file LT (stamp clk f) ++ repeat nines k) /\ grammar_ok out = true.
Proof.
  intros H Hc Hc4. destruct (c02_reader_domain (dec raw) f clk H Hc Hc4) as (A & B & C & D & _). cbv zeta. auto.
Qed.

Theorem c02_reader_domain_timed text f :
  read_text_valid LT RT AT text = Some (f, false) -> all_file has_time f = true ->
  let out := write_file_padded LT f in
  Forall line_ok94 out
  /\ length out mod 10 = 0
  /\ (exists k, k < 10 /\ out = write_file LT f ++ repeat nines k)
  /\ grammar_ok out = true
  /\ shape_ok LT f = true.
Proof.
  intros Hr Ht. pose proof (c02_reader_domain text f (bstr "0000") Hr eq_refl eq_refl) as H. cbv zeta in H.
  now rewrite (stamp_id (bstr "0000") f Ht) in H.
Qed.

(* the same on the lines (after framing), including the tree's validity *)
Theorem c02_reader_domain_lines ls f clk :
  Forall (fun l => wf_utf8 l = true) ls -> read_file_valid LT RT AT ls = Some (f, false) ->
  wf_utf8 clk = true -> rune_count clk = 4 ->
  forallb lineb (write_file_padded LT (stamp clk f)) = true /\ shape_ok LT (stamp clk f) = true
  /\ tree_validb RT AT f = true.
Proof.
  intros Hls Hr Hc Hc4.
  destruct (reader_lines LT RT AT all_layouts_ok parse_fills_checked reader_kinds_checked clk Hc Hc4 ls f Hls Hr) as [H1 H2].
  split; [exact H1|]. split; [exact H2|]. exact (valid_reader_sound LT RT AT ls f Hr).
Qed.

(* what is physically present in the written text of a reader-produced tree is what the tree holds:
   C02_physical_counts (Props/C02Counts.v) applies, its shape hypothesis is a consequence of the reading *)
Theorem c02_reader_physical_counts text f clk :
  read_text_valid LT RT AT text = Some (f, false) -> wf_utf8 clk = true -> rune_count clk = 4 ->
  let g := stamp clk f in
  adv_only g = true ->
  let ls := write_file_padded LT g in
  batch_header_lines ls = length (all_batches g)
  /\ entry_addenda_lines ls = list_sum (map tree_count (all_batches g))
  /\ length (write_file LT g) = 2 + list_sum (map (fun b => 2 + tree_count b) (all_batches g))
  /\ block_lines ls = blocks_of (length (write_file LT g))
  /\ 10 * block_lines ls = length ls
  /\ map (fun s => (entry_addenda_lines (fst s), snd s)) (batch_segments ls)
     = map (fun b => (tree_count b, render_rec LT (bt_ctl b))) (all_batches g).
Proof.
  intros Hr Hc Hc4. cbv zeta. intros Hadv.
  destruct (c02_reader_domain text f clk Hr Hc Hc4) as (_ & _ & _ & _ & Hshape).
  exact (physical_tree LT (stamp clk f) Hshape Hadv).
Qed.

(* no record written for a reader-produced tree holds a CR or LF: splitting the written text at the line ending
   gives back exactly these records *)
Theorem c02_reader_no_line_break text f clk :
  read_text_valid LT RT AT text = Some (f, false) -> wf_utf8 clk = true -> no_nl clk = true ->
  forallb no_nl (write_file_padded LT (stamp clk f)) = true /\ all_file (rec_no_nl LT) (stamp clk f) = true.
Proof.
  intros Hr Hc Hn. split.
  - exact (reader_no_break LT RT AT all_layouts_ok parse_fills_checked lits_no_nl_checked reader_kinds_checked clk Hc Hn text f Hr).
  - exact (reader_rec_no_nl LT RT AT all_layouts_ok parse_fills_checked lits_no_nl_checked reader_kinds_checked clk Hc Hn text f Hr).
Qed.

Theorem c02_reader_lines_no_break text ls : norm_lines (read_lines text) = Some ls ->
  Forall (fun l => wf_utf8 l = true /\ no_nl l = true) ls.
Proof. exact (read_lines_ok text ls). Qed.

(* ------------------------------------------------------------------ *)
(* 3. examples                                                          *)

Definition nl_text (ls : list bytes) : bytes := concat (map (fun l => l ++ [10%N]) ls).
Definition set_cols (lo : nat) (s : bytes) (l : bytes) : bytes := firstn lo l ++ s ++ skipn (lo + length s) l.
Fixpoint set_nth {A} (n : nat) (g : A -> A) (l : list A) : list A :=
  match l, n with
  | [], _ => []
  | x :: t, O => g x :: t
  | x :: t, S k => x :: set_nth k g t
  end.

(* the text the writer produces for the generated file ex_std (two batches, addenda 05 and 98), LF line ends *)
Definition ex_lines : list bytes := write_file_padded LT ex_std.
Definition ex_text : bytes := nl_text ex_lines.
(* ... its 798 record with data in the columns 65..70 (the IAT extension of the corrected data) *)
Definition ex_text_798 : bytes := nl_text (set_nth 9 (set_cols 64 (bstr "IATX1 ")) ex_lines).
(* ... its file header with 9999 in the creation-time columns 30..33 *)
Definition ex_text_notime : bytes := nl_text (set_nth 0 (set_cols 29 (bstr "9999")) ex_lines).
(* ... without the control record of its first batch *)
Definition ex_text_unclosed : bytes := nl_text (drop_nth 6 ex_lines).

Definition tree_of (text : bytes) : fileR :=
  match read_text_valid LT RT AT text with Some (f, _) => f | None => ex_std end.

Lemma ex_text_accepted : read_text_valid LT RT AT ex_text = Some (tree_of ex_text, false)
  /\ all_file has_time (tree_of ex_text) = true /\ length ex_lines = 20.
Proof. vm_compute. repeat split; reflexivity. Qed.

Lemma ex_text_adv_only : adv_only (stamp (bstr "0815") (tree_of ex_text)) = true.
Proof. vm_compute. reflexivity. Qed.

(* the theorem applied: every hypothesis met by a concrete input *)
Lemma ex_text_domain : Forall line_ok94 (write_file_padded LT (tree_of ex_text)) /\ grammar_ok (write_file_padded LT (tree_of ex_text)) = true.
Proof.
  destruct (c02_reader_domain_timed ex_text (tree_of ex_text) (proj1 ex_text_accepted) (proj1 (proj2 ex_text_accepted))) as (H1 & _ & _ & H4 & _).
  now split.
Qed.

(* the 798 record: columns 65..70 are read into iatCorrectedData and written back in their columns *)
Lemma ex_text_798_accepted :
  read_text_valid LT RT AT ex_text_798 = Some (tree_of ex_text_798, false)
  /\ all_file has_time (tree_of ex_text_798) = true
  /\ nth 9 (write_file_padded LT (tree_of ex_text_798)) [] = set_cols 64 (bstr "IATX1 ") (nth 9 ex_lines [])
  /\ existsb (fun x => String.eqb (r_kind x) "Addenda98" && bytes_eqb (gets (r_val x) "iatCorrectedData") (bstr "IATX1"))
             (file_records (tree_of ex_text_798)) = true
  /\ map rune_count (write_file_padded LT (tree_of ex_text_798)) = repeat 94 20.
Proof. vm_compute. repeat split; reflexivity. Qed.

(* ------------------------------------------------------------------ *)
(* 4. witnesses                                                         *)

(* the clock: the header is accepted with FileCreationTime = "" (validateSimpleTime blanks 9999, no rule reads the
   field); the model's writer WITHOUT the clock renders the accessor outside its hand model as nothing — 90
   columns; with any clock value of four characters the theorem applies.  On the real code FileCreationTimeField()
   formats time.Now(): 94 columns (replayed by harness/cmd/c02reader, corpus/C02/reader-domain.json) *)
Lemma ex_text_notime_refuted :
  read_text_valid LT RT AT ex_text_notime = Some (tree_of ex_text_notime, false)
  /\ gets (r_val (fl_hdr (tree_of ex_text_notime))) TIME = []
  /\ all_file has_time (tree_of ex_text_notime) = false
  /\ map rune_count (write_file_padded LT (tree_of ex_text_notime)) = 90 :: repeat 94 19
  /\ map rune_count (write_file_padded LT (stamp (bstr "0815") (tree_of ex_text_notime))) = repeat 94 20
  /\ nth 0 (write_file_padded LT (stamp (bstr "0815") (tree_of ex_text_notime))) [] = set_cols 29 (bstr "0815") (nth 0 ex_lines []).
Proof. vm_compute. repeat split; reflexivity. Qed.

(* the flag: a batch that is never closed by a control record is returned with the control record of the
   constructor, which the model renders from no field at all; the real Writer refuses such a file
   (File.Validate) — it is outside "successfully written" *)
Lemma ex_text_unclosed_refuted :
  (exists g, read_text_valid LT RT AT ex_text_unclosed = Some (g, true)
     /\ existsb (fun l => negb (rune_count l =? 94)) (write_file_padded LT g) = true)
  /\ read_then_validate LT RT AT (drop_nth 6 ex_lines) = None.
Proof.
  split.
  - exists (tree_of ex_text_unclosed). vm_compute. split; reflexivity.
  - vm_compute. reflexivity.
Qed.

(* Reflection obligations for C03 (and the shared tables of C04): boolean checkers
   evaluated on the tables regenerated from the current source, instantiation of
   the generic theorems, non-vacuity examples and refutation witnesses. *)
From Coq Require Import String List Bool ZArith Sorting.Sorted.
From ACH Require Import ArithFacts Tables.
Open Scope Z_scope.

(* ---- the regenerated tables ------------------------------------------------ *)

Lemma gen_tables_ok : tables_ok gen_tables = true.
Proof. vm_compute. reflexivity. Qed.

Lemma gen_no_problems : tables_problems = [].
Proof. reflexivity. Qed.

Lemma gen_batch_verify_calls : calls_ok req_batch_verify checks_batch_verify = true.
Proof. vm_compute. reflexivity. Qed.
Lemma gen_iat_verify_calls : calls_ok req_iat_verify checks_iat_verify = true.
Proof. vm_compute. reflexivity. Qed.
Lemma gen_iat_validate_calls : calls_ok req_iat_validate checks_iat_validate = true.
Proof. vm_compute. reflexivity. Qed.
Lemma gen_file_validate_calls : calls_ok req_file_validate checks_file_validate = true.
Proof. vm_compute. reflexivity. Qed.
Lemma gen_entry_validate_calls : calls_ok req_entry_validate checks_entry_validate = true.
Proof. vm_compute. reflexivity. Qed.
Lemma gen_iat_entry_validate_calls : calls_ok req_iat_entry_validate checks_iat_entry_validate = true.
Proof. vm_compute. reflexivity. Qed.
Lemma gen_adv_entry_validate_calls : calls_ok req_adv_entry_validate checks_adv_entry_validate = true.
Proof. vm_compute. reflexivity. Qed.
Lemma gen_field_inclusion_calls : calls_ok req_field_inclusion checks_field_inclusion = true.
Proof. vm_compute. reflexivity. Qed.
Lemma gen_iat_field_inclusion_calls : calls_ok req_iat_field_inclusion checks_iat_field_inclusion = true.
Proof. vm_compute. reflexivity. Qed.
Lemma gen_sec_validate_calls : sec_ok checks_sec_validate = true.
Proof. vm_compute. reflexivity. Qed.

Lemma gen_src_lsd : src_least_significant_digits = src_lsd_expected.
Proof. reflexivity. Qed.
Lemma gen_src_round : src_round_up_10 = src_round_expected.
Proof. reflexivity. Qed.

(* NACHA direction = units digit for all 100 two-digit codes (and hence all integers) *)
Lemma gen_direction c k : k <> KADV ->
  adds_credit gen_tables k c = (std_code gen_tables c && spec_is_credit k c) /\
  adds_debit gen_tables k c = (std_code gen_tables c && spec_is_debit k c).
Proof. apply direction_sound, gen_tables_ok. Qed.

(* ---- instances of the generic theorems --------------------------------------- *)

Definition T := gen_tables.

Lemma c03_batch_arith b : validate_batch T b = ROk -> codes_regular T (bt_kind b) (bt_entries b) ->
  bc_count (bt_ctl b) = spec_count (bt_entries b) /\
  bc_debit (bt_ctl b) = spec_debit (bt_kind b) (bt_entries b) /\
  bc_credit (bt_ctl b) = spec_credit (bt_kind b) (bt_entries b) /\
  bt_class b = bc_class (bt_ctl b) /\ bt_odfi b = bc_odfi (bt_ctl b) /\ bt_number b = bc_number (bt_ctl b) /\
  (Forall rdfi_wf (bt_entries b) -> bc_hash (bt_ctl b) = spec_hash (bt_entries b)).
Proof. apply batch_arith, gen_tables_ok. Qed.

Lemma c03_batch_arith_std b : bt_kind b = KStd -> validate_batch T b = ROk ->
  bc_count (bt_ctl b) = spec_count (bt_entries b) /\
  bc_debit (bt_ctl b) = spec_debit KStd (bt_entries b) /\
  bc_credit (bt_ctl b) = spec_credit KStd (bt_entries b) /\
  bt_class b = bc_class (bt_ctl b) /\ bt_odfi b = bc_odfi (bt_ctl b) /\ bt_number b = bc_number (bt_ctl b) /\
  (Forall rdfi_wf (bt_entries b) -> bc_hash (bt_ctl b) = spec_hash (bt_entries b)).
Proof.
  intros Hk Hv. pose proof (c03_batch_arith b Hv) as H. rewrite Hk in H. apply H. exact I.
Qed.

Lemma c03_entries b : validate_batch T b = ROk ->
  Forall (fun e => rdfi_wf e -> check_value (bt_kind b) e = Some (spec_check_digit (digit_vals (en_rdfi e)))) (bt_entries b) /\
  (bt_kind b <> KADV -> Sorted bytes_lt (map en_trace (bt_entries b)) /\
     Forall (fun e => trace_prefix (bt_kind b) e = stringField (bt_odfi b) 8) (bt_entries b)) /\
  (bt_kind b = KStd ->
     Forall (fun e => 0 <= en_amount e < 10 ^ 10) (bt_entries b) /\
     (bt_class b = 220 -> Forall (fun e => units_in 1 4 (en_code e)) (bt_entries b)) /\
     (bt_class b = 225 -> Forall (fun e => units_in 5 9 (en_code e)) (bt_entries b))).
Proof. apply batch_entries, gen_tables_ok. Qed.

Lemma c03_file_arith f : validate_file T f = ROk -> is_adv_file f = false ->
  fc_batches (fl_ctl f) = Z.of_nat (length (fl_batches f)) + Z.of_nat (length (fl_iat f)) /\
  file_sums_spec f (all_batches f) /\
  Forall (fun b => validate_batch T b = ROk) (fl_batches f) /\
  numbers_ascending 0 (fl_batches f) = true.
Proof. apply file_arith, gen_tables_ok. Qed.

Lemma c03_file_arith_adv f : validate_file T f = ROk -> is_adv_file f = true ->
  fc_batches (fl_ctl f) = Z.of_nat (length (fl_batches f)) /\ file_sums_spec f (fl_batches f).
Proof. apply file_arith_adv, gen_tables_ok. Qed.

Lemma c03_read_validate f : read_validate T f = ROk ->
  Forall (fun b => validate_batch T b = ROk) (all_batches f) /\ validate_file T f = ROk.
Proof. apply read_validate_all. Qed.

(* ---- non-vacuity: a concrete accepted file ------------------------------------ *)

Definition ds (l : list Z) : bytes := map (fun d => (48 + Z.to_N d)%N) l.

Definition ex_e1 := mkentry 22 100000 (ds [2;3;1;3;8;0;1;0]) (ds [4]) (ds [1;2;1;0;4;2;8;8;0;0;0;0;0;0;1]) 0.
Definition ex_e2 := mkentry 27 5000 (ds [1;2;1;0;4;2;8;8]) (ds [2]) (ds [1;2;1;0;4;2;8;8;0;0;0;0;0;0;2]) 1.
Definition ex_odfi := ds [1;2;1;0;4;2;8;8].
Definition ex_batch := mkbatch KStd 200 ex_odfi 1 [ex_e1; ex_e2] (mkbctl 200 3 35242298 5000 100000 ex_odfi 1).
Definition ex_iat := mkbatch KIAT 220 ex_odfi 2 [mkentry 22 700 (ds [2;3;1;3;8;0;1;0]) (ds [4]) (ds [1;2;1;0;4;2;8;8;0;0;0;0;0;0;1]) 7]
                       (mkbctl 220 8 23138010 0 700 ex_odfi 2).
Definition ex_file := mkfile [ex_batch] [ex_iat] (mkfctl 2 11 58380308 5000 100700).

Lemma ex_file_valid :
  read_validate T ex_file = ROk /\ validate_file T ex_file = ROk /\ is_adv_file ex_file = false /\
  validate_batch T ex_batch = ROk /\ validate_batch T ex_iat = ROk.
Proof. vm_compute. repeat split; reflexivity. Qed.

Lemma ex_wf : Forall rdfi_wf (bt_entries ex_batch) /\ codes_regular T KIAT (bt_entries ex_iat).
Proof.
  split.
  - repeat constructor.
  - repeat constructor.
Qed.

Definition ex_adv := mkbatch KADV 280 ex_odfi 1 [mkentry 81 900 (ds [2;3;1;3;8;0;1;0]) (ds [4]) [] 0; mkentry 82 300 (ds [1;2;1;0;4;2;8;8]) (ds [2]) [] 0]
                       (mkbctl 280 2 35242298 300 900 ex_odfi 1).
Definition ex_adv_file := mkfile [ex_adv] [] (mkfctl 1 2 35242298 300 900).
Lemma ex_adv_valid : read_validate T ex_adv_file = ROk /\ is_adv_file ex_adv_file = true /\
  codes_regular T KADV (bt_entries ex_adv).
Proof. split; [vm_compute; reflexivity|]. split; [reflexivity|]. repeat constructor. Qed.

(* a hash that needs the truncation to ten digits: 120 entries with routing number 99999999 *)
Definition big_entry (i : nat) : entry :=
  mkentry 22 1 (ds [9;9;9;9;9;9;9;9]) (ds [2])
          (app (ds [1;2;1;0;4;2;8;8;0;0;0;0]) (ds [Z.of_nat (i / 100); Z.of_nat ((i / 10) mod 10); Z.of_nat (i mod 10)])) 0.
Definition big_batch := mkbatch KStd 220 ex_odfi 1 (map big_entry (seq 1 120))
                          (mkbctl 220 120 1999999880 0 120 ex_odfi 1).
Lemma big_batch_valid : validate_batch T big_batch = ROk /\ 10 ^ 10 <= sumz rdfi_num (bt_entries big_batch).
Proof. vm_compute. split; [reflexivity|discriminate]. Qed.

(* ---- refutations: the full statement fails on these inputs (known findings) ---- *)

(* File.ValidateWith does not re-validate IAT batches: a file whose IAT batch has a
   wrong entry count is accepted *)
Definition bad_iat := mkbatch KIAT 220 ex_odfi 2 (bt_entries ex_iat) (mkbctl 220 9 23138010 0 700 ex_odfi 2).
Definition bad_iat_file := mkfile [ex_batch] [bad_iat] (mkfctl 2 12 58380308 5000 100700).
Lemma file_iat_not_validated :
  validate_file T bad_iat_file = ROk /\ validate_batch T bad_iat = RCount /\
  bc_count (bt_ctl bad_iat) <> spec_count (bt_entries bad_iat).
Proof. vm_compute. repeat split; try reflexivity. discriminate. Qed.

(* ... nor the batches of an ADV file *)
Definition bad_adv := mkbatch KADV 280 ex_odfi 1 (bt_entries ex_adv) (mkbctl 280 2 35242298 301 900 ex_odfi 1).
Definition bad_adv_file := mkfile [bad_adv] [] (mkfctl 1 2 35242298 301 900).
Lemma file_adv_not_validated :
  validate_file T bad_adv_file = ROk /\ validate_batch T bad_adv = RDebit.
Proof. vm_compute. split; reflexivity. Qed.

(* a routing number stored with 7 characters is written as 8 digits but hashed as 0 *)
Definition short_batch := mkbatch KStd 220 ex_odfi 1
  [mkentry 22 100 (ds [2;3;1;3;8;0;1]) (ds [4]) (ds [1;2;1;0;4;2;8;8;0;0;0;0;0;0;1]) 0]
  (mkbctl 220 1 0 0 100 ex_odfi 1).
Lemma hash_short_rdfi :
  validate_batch T short_batch = ROk /\ bc_hash (bt_ctl short_batch) <> spec_hash (bt_entries short_batch).
Proof. vm_compute. split; [reflexivity|discriminate]. Qed.

(* an IAT batch accepts the ADV accounting codes 81..88 and adds their amounts to neither total *)
Definition iat_adv_code := mkbatch KIAT 200 ex_odfi 2
  [mkentry 82 700 (ds [2;3;1;3;8;0;1;0]) (ds [4]) (ds [1;2;1;0;4;2;8;8;0;0;0;0;0;0;1]) 7]
  (mkbctl 200 8 23138010 0 0 ex_odfi 2).
Lemma iat_adv_code_uncounted :
  validate_batch T iat_adv_code = ROk /\
  bc_credit (bt_ctl iat_adv_code) + bc_debit (bt_ctl iat_adv_code) <> sumz en_amount (bt_entries iat_adv_code).
Proof. vm_compute. split; [reflexivity|discriminate]. Qed.

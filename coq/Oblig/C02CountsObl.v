(* Obligations of the counts theorems of C02 (Props/C02Counts.v):
   1. the statements of File.Create / createFileADV / Batch.build /
      EntryDetail.addendaCount / IATBatch.build / isBatchEntryCount that touch a
      counter (Gen/CountStmts.v, regenerated) have the shape the model transcribes,
      and the addenda they count are exactly the writer's addenda slots;
   2. the count columns of the four control layouts of this run are where
      [WrittenCounts] reads them;
   3. the generic theorems instantiated on the layouts of this run;
   4. non-vacuity: generated files (tabulated by the real Create) of every kind
      and of the residues 0, 1, 9 satisfy the hypotheses; every residue 0..9;
   5. the hypotheses are needed: counts beyond the column width, an ADV file
      with an IAT batch. *)
From Coq Require Import String List NArith ZArith Bool Lia.
From ACH Require Import WrittenCounts WrittenCountsFacts NumFacts LayoutFacts FileStructFacts DispatchFacts.
From ACH Require Import Layouts CountStmtTypes CountStmts C01Obl C01FileEx C02CountsEx.
Import ListNotations.
Local Open Scope string_scope.
Local Open Scope nat_scope.
Local Open Scope list_scope.

(* ------------------------------------------------------------------ *)
(* 1. the tabulation statements of this run                              *)

Lemma count_stmts_checked :
  count_stmts_ok counts_File_Create counts_File_createFileADV counts_Batch_build counts_EntryDetail_addendaCount
                 counts_IATBatch_build counts_IATBatch_isBatchEntryCount std_slots adv_slots iat_slots = true.
Proof. vm_compute. reflexivity. Qed.

(* ------------------------------------------------------------------ *)
(* 2. the count columns                                                 *)

Definition LT := all_layouts.

Lemma count_cols_checked : count_cols_ok LT = true.
Proof. vm_compute. reflexivity. Qed.

(* the count fields are written through numericField only, in layouts without hand-modelled accessors *)
Lemma count_fields_plain_checked : count_fields_plain LT = true.
Proof. vm_compute. reflexivity. Qed.

(* ------------------------------------------------------------------ *)
(* 3. instantiation                                                     *)

Theorem counts_shape_typed f : shape_ok LT f = true -> file_typed (struct_of LT f) = true.
Proof. exact (shape_typed LT f). Qed.

Theorem counts_physical_tree f : shape_ok LT f = true -> adv_only f = true ->
  let ls := write_file_padded LT f in
  batch_header_lines ls = length (all_batches f)
  /\ entry_addenda_lines ls = list_sum (map tree_count (all_batches f))
  /\ length (write_file LT f) = 2 + list_sum (map (fun b => 2 + tree_count b) (all_batches f))
  /\ block_lines ls = blocks_of (length (write_file LT f))
  /\ 10 * block_lines ls = length ls
  /\ map (fun s => (entry_addenda_lines (fst s), snd s)) (batch_segments ls)
     = map (fun b => (tree_count b, render_rec LT (bt_ctl b))) (all_batches f).
Proof. exact (physical_tree LT f). Qed.

Theorem counts_mod f :
  shape_ok LT f = true -> all_file (rec_fitsb LT) f = true -> tabulatedb f = true -> adv_no_iat f = true ->
  let ls := write_file_padded LT f in
  let fc := last (write_file LT f) [] in
  (fc_batch_count fc = Z.of_nat (batch_header_lines ls) mod pow10 6)%Z
  /\ (fc_entry_count fc = Z.of_nat (entry_addenda_lines ls) mod pow10 8)%Z
  /\ (fc_block_count fc = Z.of_nat (block_lines ls) mod pow10 6)%Z
  /\ 10 * block_lines ls = length ls
  /\ length (batch_segments ls) = length (all_batches f)
  /\ Forall (fun s => bc_entry_count (snd s) = Z.of_nat (entry_addenda_lines (fst s)) mod pow10 6)%Z (batch_segments ls).
Proof. exact (create_counts_mod LT all_layouts_ok count_cols_checked f). Qed.

Theorem counts_exact f :
  shape_ok LT f = true -> all_file (rec_fitsb LT) f = true -> tabulatedb f = true -> adv_no_iat f = true ->
  count_boundsb f = true ->
  let ls := write_file_padded LT f in
  let fc := last (write_file LT f) [] in
  fc_batch_count fc = Z.of_nat (batch_header_lines ls)
  /\ fc_entry_count fc = Z.of_nat (entry_addenda_lines ls)
  /\ (fc_block_count fc * 10)%Z = Z.of_nat (length ls)
  /\ length (batch_segments ls) = length (all_batches f)
  /\ Forall (fun s => bc_entry_count (snd s) = Z.of_nat (entry_addenda_lines (fst s))) (batch_segments ls).
Proof. exact (create_counts LT all_layouts_ok count_cols_checked f). Qed.

Theorem counts_residues f r :
  shape_ok LT f = true -> all_file (rec_fitsb LT) f = true -> tabulatedb f = true -> adv_no_iat f = true ->
  count_boundsb f = true ->
  length (write_file LT f) mod 10 = r ->
  let ls := write_file_padded LT f in
  ls = write_file LT f ++ repeat nines ((10 - r) mod 10)
  /\ length ls = length (write_file LT f) + (10 - r) mod 10
  /\ (fc_block_count (last (write_file LT f) []) * 10)%Z = Z.of_nat (length (write_file LT f) + (10 - r) mod 10).
Proof. exact (block_count_residues LT all_layouts_ok count_cols_checked f r). Qed.

(* Create as a function on the tree *)
Theorem counts_tabulated f : adv_only f = true -> tabulatedb (tabulate f) = true.
Proof. exact (tabulate_tabulated f). Qed.

Theorem counts_tabulate_fits f :
  shape_ok LT f = true -> adv_only f = true -> adv_no_iat f = true ->
  all_file (rec_fitsb LT) f = true -> count_boundsb (tabulate f) = true ->
  all_file (rec_fitsb LT) (tabulate f) = true.
Proof. exact (tabulate_fits LT count_fields_plain_checked f). Qed.

Theorem counts_tabulate f g :
  create_counts_of f = Some g ->
  shape_ok LT f = true -> adv_no_iat f = true -> all_file (rec_fitsb LT) f = true -> count_boundsb g = true ->
  let ls := write_file_padded LT g in
  let fc := last (write_file LT g) [] in
  all_file (rec_fitsb LT) g = true
  /\ fc_batch_count fc = Z.of_nat (batch_header_lines ls)
  /\ fc_entry_count fc = Z.of_nat (entry_addenda_lines ls)
  /\ (fc_block_count fc * 10)%Z = Z.of_nat (length ls)
  /\ length (batch_segments ls) = length (all_batches f)
  /\ Forall (fun s => bc_entry_count (snd s) = Z.of_nat (entry_addenda_lines (fst s))) (batch_segments ls).
Proof. exact (create_counts_tabulate LT all_layouts_ok count_cols_checked count_fields_plain_checked f g). Qed.

(* the file control line is the last record before the filler *)
Theorem counts_file_control_line f : last (write_file LT f) [] = render_rec LT (fl_ctl f).
Proof. exact (write_file_last LT f). Qed.

(* the bounds of [count_boundsb] are bounds on what is physically written *)
Theorem counts_bounds_physical f :
  shape_ok LT f = true -> tabulatedb f = true -> adv_no_iat f = true -> count_boundsb f = true ->
  let ls := write_file_padded LT f in
  (Z.of_nat (batch_header_lines ls) < pow10 6)%Z /\ (Z.of_nat (entry_addenda_lines ls) < pow10 8)%Z
  /\ (Z.of_nat (block_lines ls) < pow10 6)%Z
  /\ Forall (fun s => (Z.of_nat (entry_addenda_lines (fst s)) < pow10 6)%Z) (batch_segments ls).
Proof.
  intros Hshape Htab Hno Hb. cbv zeta.
  destruct (bounds_physical f Htab Hno Hb) as (B1 & B2 & B3 & B4).
  destruct (tabulated_facts f Htab Hno) as [_ Fadv _ _ _].
  destruct (physical_tree LT f Hshape Fadv) as (P5 & P67 & Prec & Pblk & _ & Pseg). cbv zeta in P5, P67, Pblk, Pseg.
  fold LT in *.
  repeat split.
  - now rewrite P5.
  - now rewrite P67.
  - now rewrite Pblk, Prec.
  - apply (Forall_of_map (fun s => (entry_addenda_lines (fst s), snd s)) (fun q => (Z.of_nat (fst q) < pow10 6)%Z)).
    rewrite Pseg. apply Forall_map. cbn [fst]. apply Forall_forall. exact B4.
Qed.

(* ------------------------------------------------------------------ *)
(* 4. non-vacuity                                                       *)

Definition hypsb (f : fileR) : bool :=
  shape_ok LT f && all_file (rec_fitsb LT) f && tabulatedb f && adv_no_iat f && count_boundsb f.

Lemma hypsb_split f : hypsb f = true ->
  shape_ok LT f = true /\ all_file (rec_fitsb LT) f = true /\ tabulatedb f = true /\ adv_no_iat f = true
  /\ count_boundsb f = true.
Proof.
  unfold hypsb. intros H.
  repeat match type of H with _ && _ = true => let K := fresh "K" in apply andb_prop in H as [H K] end.
  repeat split; assumption.
Qed.

(* files generated by the harness and tabulated by the real Create: every hypothesis holds *)
Lemma generated_files_hyps :
  forallb hypsb [ex_std; ex_ret; ex_iat; ex_adv; cx_r0; cx_r0_adv; cx_r0_iat; cx_r1; cx_r9; cx_r9_adv; cx_r9_iat] = true.
Proof. vm_compute. reflexivity. Qed.

(* the model of Create leaves the count fields of files tabulated by the real Create as they are *)
Definition count_fields (f : fileR) : list Z * (Z * Z * Z) :=
  (map (fun b => geti (r_val (bt_ctl b)) "EntryAddendaCount") (all_batches f),
   (geti (r_val (fl_ctl f)) "BatchCount", geti (r_val (fl_ctl f)) "BlockCount", geti (r_val (fl_ctl f)) "EntryAddendaCount")).
Lemma generated_files_fixed :
  forallb (fun f => match create_counts_of f with
                    | Some g => if list_eq_dec Z.eq_dec (fst (count_fields g)) (fst (count_fields f)) then
                                  let '(a, b, c) := snd (count_fields g) in let '(a', b', c') := snd (count_fields f) in
                                  (a =? a')%Z && (b =? b')%Z && (c =? c')%Z
                                else false
                    | None => false
                    end)
          [ex_std; ex_ret; ex_iat; ex_adv; cx_r0; cx_r0_adv; cx_r0_iat; cx_r1; cx_r9; cx_r9_adv; cx_r9_iat] = true.
Proof. vm_compute. reflexivity. Qed.

(* (records before the filler, residue, filler lines, declared block count, '5' lines, '6'+'7' lines) *)
Definition residue_row (f : fileR) : nat * nat * nat * Z * nat * nat :=
  let n := length (write_file LT f) in
  let ls := write_file_padded LT f in
  (n, n mod 10, length ls - n, fc_block_count (last (write_file LT f) []), batch_header_lines ls, entry_addenda_lines ls).

Example residue_0 : map residue_row [cx_r0; cx_r0_adv; cx_r0_iat]
  = [(10, 0, 0, 1%Z, 2, 4); (10, 0, 0, 1%Z, 2, 4); (40, 0, 0, 4%Z, 2, 34)].
Proof. vm_compute. reflexivity. Qed.
Example residue_1 : map residue_row [cx_r1; ex_iat]
  = [(11, 1, 9, 2%Z, 2, 5); (31, 1, 9, 4%Z, 2, 25)].
Proof. vm_compute. reflexivity. Qed.
Example residue_9 : map residue_row [cx_r9; cx_r9_adv; cx_r9_iat]
  = [(19, 9, 1, 2%Z, 2, 13); (9, 9, 1, 1%Z, 2, 3); (49, 9, 1, 5%Z, 2, 43)].
Proof. vm_compute. reflexivity. Qed.

(* the theorem applied to a generated file of residue 9 *)
Example cx_r9_counts :
  let ls := write_file_padded LT cx_r9 in
  let fc := last (write_file LT cx_r9) [] in
  fc_batch_count fc = Z.of_nat (batch_header_lines ls)
  /\ fc_entry_count fc = Z.of_nat (entry_addenda_lines ls)
  /\ (fc_block_count fc * 10)%Z = Z.of_nat (length ls)
  /\ length (batch_segments ls) = length (all_batches cx_r9)
  /\ Forall (fun s => bc_entry_count (snd s) = Z.of_nat (entry_addenda_lines (fst s))) (batch_segments ls).
Proof.
  assert (H : hypsb cx_r9 = true) by (vm_compute; reflexivity).
  destruct (hypsb_split _ H) as (H1 & H2 & H3 & H4 & H5). now apply counts_exact.
Qed.

(* every residue 0..9: one batch of the generated file cx_r0 with k copies of its
   first entry, controls tabulated by the model of Create ([tabulate]) *)
Definition plain_entry (e : entryR) : entryR := mkEnt (en_rec e) [].
(* k entries without addenda and one with its (two) addenda: 4 + k + 3 records *)
Definition sized (k : nat) : fileR :=
  match fl_batches cx_r0 with
  | b :: _ => match bt_entries b with
              | e :: _ => tabulate (mkFil (fl_hdr cx_r0) [mkBat (bt_hdr b) (repeat (plain_entry e) k ++ [e]) (bt_ctl b)] [] (fl_ctl cx_r0))
              | [] => cx_r0
              end
  | [] => cx_r0
  end.

Lemma every_residue :
  forallb (fun k => hypsb (sized k)) (seq 0 10) = true
  /\ map (fun k => let '(n, r, pad, blocks, _, _) := residue_row (sized k) in (r, pad, (blocks * 10 - Z.of_nat n)%Z)) (seq 0 10)
     = [(7, 3, 3%Z); (8, 2, 2%Z); (9, 1, 1%Z); (0, 0, 0%Z); (1, 9, 9%Z); (2, 8, 8%Z); (3, 7, 7%Z); (4, 6, 6%Z); (5, 5, 5%Z); (6, 4, 4%Z)].
Proof. vm_compute. split; reflexivity. Qed.

(* ------------------------------------------------------------------ *)
(* 5. the hypotheses are needed                                         *)

(* (a) an ADV file that also carries an IAT batch: createFileADV sums over f.Batches
   only, the writer emits the IAT batch as well.  The tree: the generated ADV file
   cx_r9_adv with the first IAT batch of ex_iat, controls as createFileADV leaves them *)
Definition adv_with_iat : fileR :=
  mkFil (fl_hdr cx_r9_adv) (fl_batches cx_r9_adv) (firstn 1 (fl_iat ex_iat)) (fl_ctl cx_r9_adv).

Lemma adv_with_iat_refuted :
  shape_ok LT adv_with_iat = true /\ all_file (rec_fitsb LT) adv_with_iat = true /\ tabulatedb adv_with_iat = true
  /\ count_boundsb adv_with_iat = true /\ adv_no_iat adv_with_iat = false
  /\ let ls := write_file_padded LT adv_with_iat in
     let fc := last (write_file LT adv_with_iat) [] in
     fc_batch_count fc = 2%Z /\ batch_header_lines ls = 3
     /\ fc_entry_count fc = 3%Z /\ entry_addenda_lines ls = 13
     /\ fc_block_count fc = 1%Z /\ length ls = 30.
Proof. vm_compute. repeat split; reflexivity. Qed.

(* (b) a batch of 10^6 entries: Batch.build counts 1 000 000, the six-digit column holds 000000.
   The tree is never evaluated: its quantities follow from the general theorems. *)
Definition million : nat := N.to_nat 1000000.

Definition big_entry : entryR :=
  match fl_batches cx_r0 with
  | b :: _ => match bt_entries b with e :: _ => plain_entry e | [] => mkEnt (fl_hdr cx_r0) [] end
  | [] => mkEnt (fl_hdr cx_r0) []
  end.
Definition big_hdr : recordR := match fl_batches cx_r0 with b :: _ => bt_hdr b | [] => fl_hdr cx_r0 end.
Definition big_bctl : recordR :=
  match fl_batches cx_r0 with b :: _ => set_int (bt_ctl b) "EntryAddendaCount" 1000000 | [] => fl_hdr cx_r0 end.
Definition big_batch : batchR := mkBat big_hdr (repeat big_entry million) big_bctl.
Definition big_fctl : recordR :=
  set_int (set_int (set_int (fl_ctl cx_r0) "BatchCount" 1) "BlockCount" 100001) "EntryAddendaCount" 1000000.
Definition big_file : fileR := mkFil (fl_hdr cx_r0) [big_batch] [] big_fctl.

Lemma forallb_repeat {A} (p : A -> bool) x n : p x = true -> forallb p (repeat x n) = true.
Proof. intros H. induction n as [|n IH]; [reflexivity|]. cbn [repeat forallb]. now rewrite H, IH. Qed.

Lemma list_sum_repeat_1 {A} (h : A -> nat) x n : h x = 1 -> list_sum (map h (repeat x n)) = n.
Proof. intros H. induction n as [|n IH]; [reflexivity|]. cbn [repeat map]. rewrite list_sum_cons, H, IH. reflexivity. Qed.

Lemma million_Z : Z.of_nat million = 1000000%Z.
Proof. unfold million. rewrite N_nat_Z. reflexivity. Qed.

Lemma map_singleton {A B} (q : A -> B) l y : map q l = [y] -> exists x, l = [x] /\ q x = y.
Proof. destruct l as [|x [|x' l]]; try discriminate. cbn [map]. intros H. injection H as H. now exists x. Qed.

Opaque million.

Lemma big_tree_count : tree_count big_batch = million.
Proof. unfold tree_count, big_batch. cbn [bt_entries]. apply list_sum_repeat_1. reflexivity. Qed.

Lemma big_built_count : built_count big_batch = 1000000%Z.
Proof. now rewrite built_count_tree, big_tree_count, million_Z. Qed.

Lemma big_shape : shape_ok LT big_file = true.
Proof.
  unfold shape_ok, big_file. cbn [fl_hdr fl_batches fl_iat fl_ctl forallb].
  assert (Hb : batch_shape LT big_batch = true).
  { unfold batch_shape, big_batch. cbn [bt_hdr bt_entries bt_ctl].
    rewrite (forallb_repeat (entry_shape LT) big_entry million) by (vm_compute; reflexivity).
    vm_compute. reflexivity. }
  rewrite Hb. vm_compute. reflexivity.
Qed.

Lemma big_fits : all_file (rec_fitsb LT) big_file = true.
Proof.
  unfold all_file, big_file. cbn [fl_hdr fl_batches fl_iat fl_ctl forallb].
  assert (Hb : all_batch (rec_fitsb LT) big_batch = true).
  { unfold all_batch, big_batch. cbn [bt_hdr bt_entries bt_ctl].
    rewrite (forallb_repeat (all_entry (rec_fitsb LT)) big_entry million) by (vm_compute; reflexivity).
    vm_compute. reflexivity. }
  rewrite Hb. vm_compute. reflexivity.
Qed.

Lemma big_tabulated : tabulatedb big_file = true.
Proof.
  unfold tabulatedb, all_batches, big_file. cbn [fl_batches fl_iat app forallb].
  unfold batch_tabulatedb at 1. rewrite big_built_count.
  unfold file_tabulatedb, created_control, created_batches, adv_only. cbn [fl_batches fl_iat fl_ctl].
  assert (Ha : any_adv [big_batch] = false).
  { unfold any_adv. cbn [existsb]. unfold big_batch. cbn [bt_hdr]. vm_compute. reflexivity. }
  rewrite Ha. cbn [app map].
  unfold Offsets.file_control. cbn [Offsets.sumb Offsets.fc_batches Offsets.fc_blocks Offsets.fc_count length].
  assert (Hc : Offsets.c_count (Offsets.b_ctl (o_batch big_batch)) = 1000000%Z).
  { unfold o_batch, o_control, big_batch. cbn [Offsets.b_ctl Offsets.c_count bt_ctl]. vm_compute. reflexivity. }
  rewrite Hc. vm_compute. reflexivity.
Qed.

Lemma big_no_iat : adv_no_iat big_file = true.
Proof. unfold adv_no_iat, big_file. cbn [fl_iat is_nil]. apply orb_true_r. Qed.

Lemma big_bounds : count_boundsb big_file = false.
Proof.
  unfold count_boundsb, all_batches, big_file. cbn [fl_batches fl_iat app forallb].
  rewrite big_built_count. reflexivity.
Qed.

Lemma overflow_refuted :
  shape_ok LT big_file = true /\ all_file (rec_fitsb LT) big_file = true /\ tabulatedb big_file = true
  /\ adv_no_iat big_file = true /\ count_boundsb big_file = false
  /\ exists inner ctl, batch_segments (write_file_padded LT big_file) = [(inner, ctl)]
       /\ Z.of_nat (entry_addenda_lines inner) = 1000000%Z /\ bc_entry_count ctl = 0%Z.
Proof.
  split; [exact big_shape|]. split; [exact big_fits|]. split; [exact big_tabulated|].
  split; [exact big_no_iat|]. split; [exact big_bounds|].
  destruct (tabulated_facts _ big_tabulated big_no_iat) as [_ Fadv _ _ _].
  destruct (counts_physical_tree big_file big_shape Fadv) as (_ & _ & _ & _ & _ & Pseg). cbv zeta in Pseg.
  assert (Eall : all_batches big_file = [big_batch]) by reflexivity. rewrite Eall in Pseg. cbn [map] in Pseg.
  apply map_singleton in Pseg as ([inner ctl] & Eseg & Eq).
  pose proof (f_equal fst Eq) as E1. pose proof (f_equal snd Eq) as E2. cbn [fst snd] in E1, E2.
  exists inner, ctl. split; [exact Eseg|]. split.
  - now rewrite E1, big_tree_count, million_Z.
  - rewrite E2. unfold big_batch. cbn [bt_ctl]. vm_compute. reflexivity.
Qed.

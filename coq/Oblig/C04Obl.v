(* Obligations for C04: the tamper theorems instantiated with the tables regenerated
   from the current source (shared with C03), non-vacuity examples. *)
From Coq Require Import List Bool ZArith.
Open Scope list_scope.
From ACH Require Import TamperFacts Tables C03Obl.
Open Scope Z_scope.

Lemma c04_bctl b p v : verify T b = ROk -> v <> get_c p (bt_ctl b) ->
  verify T (set_ctl b (set_c p v (bt_ctl b))) <> ROk.
Proof. apply tamper_bctl. Qed.

Lemma c04_bctl_odfi b o : verify T b = ROk -> o <> bc_odfi (bt_ctl b) ->
  verify T (set_ctl b (set_c_odfi o (bt_ctl b))) <> ROk.
Proof. apply tamper_bctl_odfi. Qed.

Lemma c04_hdr b o n : verify T b = ROk ->
  (o <> bt_odfi b -> verify T (set_hdr_odfi b o) <> ROk) /\
  (n <> bt_number b -> verify T (set_hdr_number b n) <> ROk).
Proof. intros H. split; [now apply tamper_hdr_odfi|now apply tamper_hdr_number]. Qed.

Lemma c04_amount b pre e post a : bt_entries b = pre ++ e :: post ->
  validate_batch T b = ROk -> codes_regular T (bt_kind b) (bt_entries b) -> a <> en_amount e ->
  validate_batch T (set_entries b (pre ++ set_amount e a :: post)) <> ROk.
Proof. apply tamper_amount, gen_tables_ok. Qed.

Lemma c04_amount_std b pre e post a : bt_kind b = KStd -> bt_entries b = pre ++ e :: post ->
  validate_batch T b = ROk -> a <> en_amount e ->
  validate_batch T (set_entries b (pre ++ set_amount e a :: post)) <> ROk.
Proof.
  intros Hk Hes Hv Ha. apply c04_amount; try assumption. rewrite Hk. exact I.
Qed.

Lemma c04_rdfi b pre e post r : bt_entries b = pre ++ e :: post ->
  validate_batch T b = ROk -> Forall rdfi_wf (bt_entries b) -> digits8 r -> r <> en_rdfi e ->
  validate_batch T (set_entries b (pre ++ set_rdfi e r :: post)) <> ROk.
Proof. apply tamper_rdfi, gen_tables_ok. Qed.

Lemma c04_check b pre e post c : bt_entries b = pre ++ e :: post ->
  validate_batch T b = ROk -> check_value (bt_kind b) (set_check e c) <> check_value (bt_kind b) e ->
  validate_batch T (set_entries b (pre ++ set_check e c :: post)) <> ROk.
Proof. apply tamper_check, gen_tables_ok. Qed.

(* one-digit check digits: different digits are different values *)
Lemma check_value_digit k e d : is_digit d = true -> en_check e = [d] -> check_value k e = Some (Z.of_N (d - 48)).
Proof.
  intros Hd He. unfold check_value. rewrite He.
  destruct (atoi_digits [d]) as [E1 E2]; [discriminate|cbn; now rewrite Hd|cbn; lia|].
  cbn [digits_val] in E1, E2. destruct k; rewrite ?E1, ?E2; f_equal; lia.
Qed.

Lemma c04_check_digit b pre e post d d' : bt_entries b = pre ++ e :: post ->
  validate_batch T b = ROk -> en_check e = [d] -> is_digit d = true -> is_digit d' = true -> d' <> d ->
  validate_batch T (set_entries b (pre ++ set_check e [d'] :: post)) <> ROk.
Proof.
  intros Hes Hv He Hd Hd' Hne. apply c04_check; try assumption.
  rewrite (check_value_digit _ e d Hd He), (check_value_digit _ (set_check e [d']) d' Hd' eq_refl).
  apply is_digit_range in Hd as [_ Hd]. apply is_digit_range in Hd' as [_ Hd']. intros E. injection E as E. lia.
Qed.

Lemma c04_fctl f p v : validate_file T f = ROk -> v <> get_f p (fl_ctl f) ->
  validate_file T (set_fctl f (set_f p v (fl_ctl f))) <> ROk.
Proof. apply tamper_fctl, gen_tables_ok. Qed.

Lemma c04_lift f b : In b (all_batches f) -> verify T b <> ROk -> read_validate T f <> ROk.
Proof. apply tampered_batch_rejects_file. Qed.

Lemma c04_lift_std f b : In b (fl_batches f) -> is_adv_file f = false -> verify T b <> ROk -> validate_file T f <> ROk.
Proof. apply tampered_std_batch_rejects_file, gen_tables_ok. Qed.

(* ---- non-vacuity on the accepted example file of C03Obl ------------------------- *)

Lemma c04_example_amount :
  bt_entries ex_batch = [] ++ ex_e1 :: [ex_e2] /\ validate_batch T ex_batch = ROk /\
  validate_batch T (set_entries ex_batch ([] ++ set_amount ex_e1 100001 :: [ex_e2])) = RCredit.
Proof. vm_compute. repeat split; reflexivity. Qed.

Lemma c04_example_rdfi :
  Forall rdfi_wf (bt_entries ex_batch) /\ digits8 (ds [2;3;1;3;8;0;1;7]) /\
  validate_batch T (set_entries ex_batch ([] ++ set_rdfi ex_e1 (ds [2;3;1;3;8;0;1;7]) :: [ex_e2])) = RCheckDigit.
Proof. split; [repeat constructor|]. split; [split; reflexivity|]. vm_compute. reflexivity. Qed.

Lemma c04_example_controls :
  verify T (set_ctl ex_batch (set_c CHash 35242299 (bt_ctl ex_batch))) = RHash /\
  verify T (set_hdr_number ex_batch 2) = RNumber /\
  validate_file T (set_fctl ex_file (set_f FBatches 3 (fl_ctl ex_file))) = RFBatchCount /\
  validate_file T (set_fctl ex_file (set_f FHash 58380309 (fl_ctl ex_file))) = RFHash.
Proof. vm_compute. repeat split; reflexivity. Qed.

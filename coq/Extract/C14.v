(* Extraction for the C14 correspondence check; directives: ExtrOcamlBasic only. *)
Require Import ExtrOcamlBasic.
From ACH Require Import Bytes EffectTable Purity.
Extraction "model.ml" run_ops inv prefix_inv install built created reader_file.

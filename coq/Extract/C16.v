(* Extraction for the C16 correspondence check; directives: ExtrOcamlBasic only. *)
Require Import ExtrOcamlBasic.
From ACH Require Import Bytes BufIO WriterIOTable WriterIOCurrent.
Extraction "model.ml" writer_run full_output reader_run failing_source healthy_source current_wpolicy current_rpolicy.

(* Extraction for the C11 option correspondence (phase 4); directives: ExtrOcamlBasic only. *)
Require Import ExtrOcamlBasic.
From ACH Require Import TxCodes RevTable SegTable Segment SegmentTable C11Obl SegmentOpts C11OptsObl.
(* [length] is extracted only because ocaml/common/conv.ml refers to the constructors of nat *)
Extraction "model.ml" segment_opts_view_ST length.

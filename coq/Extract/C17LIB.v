(* Extraction for the C17 phase-2 correspondence (the concrete interpretation of the server's
   library symbols); directives: ExtrOcamlBasic only. *)
Require Import ExtrOcamlBasic.
From ACH Require Import Server ServerLib Offsets OffsetTable Purity.
(* List.length only so that the shared conv.ml finds the nat constructors *)
Extraction "model.ml" offset_table lcreate lcontents lbuild lvalidate lmarshal lflatsrc lsegsrc lbal List.length.

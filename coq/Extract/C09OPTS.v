(* Extraction for the phase-5 C09 correspondence (merge outputs valid under the options they carry:
   Model/MergeOpts.v, ArithOpts.v, and the alias-free view OptsView.xm_ofile of
   ValidMergeOpts.m_ofile — OptsViewFacts.xm_ofile_is — over the validator tables of this run);
   directives: ExtrOcamlBasic only. *)
Require Import ExtrOcamlBasic.
From ACH Require Import ValidOut Tables ArithOpts.
From ACH Require Import Merge MergeOpts OptsView.
(* [length] is listed only so that nat (used by ocaml/common/conv.ml) is part of model.ml *)
Extraction "model.ml" merge_files_o rbo_created merge_created_ok xm_ofile file_valid_o gen_tables length.

(* Extraction for the C11 correspondence check; directives: ExtrOcamlBasic only. *)
Require Import ExtrOcamlBasic.
From ACH Require Import TxCodes RevTable SegTable Segment SegmentTable C11Obl.
(* [length] is extracted only because ocaml/common/conv.ml refers to the constructors of nat *)
Extraction "model.ml" segment ST length.

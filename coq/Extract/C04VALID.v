(* Extraction for the C04 validating-reader text correspondence (Codec/ReaderSkel.v accept_code =
   read_text_valid + validate_file over the regenerated tables); directives: ExtrOcamlBasic only. *)
Require Import ExtrOcamlBasic.
From ACH Require Import ReaderSkel Layouts RecRules Tables.
Extraction "model.ml" accept_code all_layouts all_rules gen_tables.

(* Extraction for the correspondence check of the general C03 statements; directives: ExtrOcamlBasic only. *)
Require Import ExtrOcamlBasic.
From ACH Require Import ArithGen Tables.
Extraction "model.ml" gen_tables aba8_num aba8_digits_num rdfi_num digits_val is_digit gen_hash gen_credit gen_debit foreign_amount adv_code advcodes_ok.

(* Extraction for the C08 option correspondence (coq/Model/MergeOpts.v); directives: ExtrOcamlBasic only. *)
Require Import ExtrOcamlBasic.
From ACH Require Import Merge MergeOpts.
(* [length] is listed only so that nat (used by ocaml/common/conv.ml) is part of model.ml *)
Extraction "model.ml" merge_files_o rbo_created merge_created_ok length.

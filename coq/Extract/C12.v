(* Extraction for the C12 correspondence check; directives: ExtrOcamlBasic only. *)
Require Import ExtrOcamlBasic.
From ACH Require Import Bytes Flatten.
Extraction "model.ml" flatten_stable_checked flatten_hint_checked.

(* Extraction for the C20 ENR/DNE payment-information correspondence check; directives: ExtrOcamlBasic only. *)
Require Import ExtrOcamlBasic.
From ACH Require Import PaymentInfo.
Extraction "model.ml" describe_enr describe_dne enr_wellformed dne_wellformed.

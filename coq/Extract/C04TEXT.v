(* Extraction for the C04 text-level correspondence check; directives: ExtrOcamlBasic only. *)
Require Import ExtrOcamlBasic.
From ACH Require Import TamperText Tables.
Extraction "model.ml" gen_tables text_verdict rule_code set_digit protected_columns pcol_ok.

(* Extraction for the C07 post-processing correspondence; directives: ExtrOcamlBasic only. *)
Require Import ExtrOcamlBasic.
From ACH Require Import JsonCodec JsonFile JsonFileCurrent JsonTags.
Extraction "model.ml" from_json_run ready_run tree_of_file opts_tree write_cur lines_cur hid_fields written_fields typed T_File.

(* Extraction for the C06 shape-model correspondence (c06ops); directives: ExtrOcamlBasic only.
   N.succ is listed so that the shared ocaml/common/conv.ml (positive / N helpers) links. *)
Require Import ExtrOcamlBasic.
From Coq Require Import NArith.
From ACH Require Import TotalOps TotalJson.
Extraction "model.ml" run_ops run_ops_result run_op panics file_class wf_file wf_file_strict file_from_json serve N.succ.

(* Extraction for the C18 correspondence check; directives: ExtrOcamlBasic only. *)
Require Import ExtrOcamlBasic.
From ACH Require Import RWLock Repo.
Extraction "model.ml" repo_spec run_seq mkarg.

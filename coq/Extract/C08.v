(* Extraction for the C08/C09 correspondence check; directives: ExtrOcamlBasic only. *)
Require Import ExtrOcamlBasic.
From ACH Require Import Merge.
(* [length] is listed only so that nat (used by ocaml/common/conv.ml) is part of model.ml *)
Extraction "model.ml" merge_files file_lines file_amount length.

(* Extraction for the C06 reader-model correspondence (c06reader); directives: ExtrOcamlBasic only.
   N.succ is listed so that the shared ocaml/common/conv.ml (positive / N helpers) links. *)
Require Import ExtrOcamlBasic.
From Coq Require Import NArith.
From ACH Require Import TotalOps ReaderShape.
Extraction "model.ml" step read_hinted finish_hinted init inv reader_read accepted N.succ.

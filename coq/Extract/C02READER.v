(* Extraction for the C02 reader-domain correspondence: the default reader (ReaderValid.read_text_valid),
   the clock (ReaderWidth.stamp) and the model's writer (Dispatch.write_file_padded) over the regenerated
   layouts, record rules and arithmetic tables; directives: ExtrOcamlBasic only. *)
Require Import ExtrOcamlBasic.
From ACH Require Import ReaderValid ReaderWidth Layouts RecRules Tables.
Extraction "model.ml" read_text_valid write_file_padded stamp all_file has_time all_layouts all_rules gen_tables.

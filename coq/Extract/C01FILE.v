(* Extraction for the C01 whole-file correspondence (typed reader of Codec/Dispatch.v over the
   regenerated layouts); directives: ExtrOcamlBasic only. *)
Require Import ExtrOcamlBasic.
From ACH Require Import Dispatch Layouts.
Extraction "model.ml" read_text read_file all_layouts lookup.

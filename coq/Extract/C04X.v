(* Extraction for the correspondence check of the UTF-8 truncation statements; directives: ExtrOcamlBasic only. *)
Require Import ExtrOcamlBasic.
From ACH Require Import TamperText TruncUtf8 Tables.
Extraction "model.ml" gen_tables text_verdict rule_code chars prefix_chars prefix_lines read_lines split_at cut_ctl numeric_layout fctl_layout.

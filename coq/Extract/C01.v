(* Extraction for the C01/C02 correspondence checks; directives: ExtrOcamlBasic only. *)
Require Import ExtrOcamlBasic.
From ACH Require Import Layout Layouts Framing FileStruct.
Extraction "model.ml" render parse overlay lookup render_custom all_layouts frame chars rune_count norm_line read_struct physical_lines grammar_ok.

(* Extraction for the C01/C02 correspondence checks; directives: ExtrOcamlBasic only. *)
Require Import ExtrOcamlBasic.
From ACH Require Import Layout Layouts.
Extraction "model.ml" render parse overlay lookup render_custom all_layouts.

(* Extraction for the C20 correspondence check; directives: ExtrOcamlBasic only. *)
Require Import ExtrOcamlBasic.
From ACH Require Import Utf8 Mask.
Extraction "model.ml" maskNumber maskName.

(* Extraction for the C07 phase-4 correspondence (option-aware writer, ADV trees, round-trip hypotheses, achcli options, constructor values); directives: ExtrOcamlBasic only. *)
Require Import ExtrOcamlBasic.
From ACH Require Import JsonCodec JsonFile JsonFileCurrent JsonFull JsonTags JsonDefaultsTable JsonDefaults.
Extraction "model.ml" roundtrip_hyps roundtrip_run observe write_full tree_full tree_full_view lines_full opts_tree is_adv_value
  final_opts achcli_passed opts_merge_fields json_ctor_values latent_defaults json_structs T_File in_domain valid tabulated json_safe typed.

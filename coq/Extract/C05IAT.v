(* Extraction for the C05 IAT / ADV / whole-file correspondence check; directives: ExtrOcamlBasic only. *)
Require Import ExtrOcamlBasic.
From ACH Require Import FileCreateAll OffsetTable TabulateTable.
Extraction "model.ml" offset_table tabulate_table astep arun file_create_all iat_build adv_build ttable_ok consts_ok.

(* Extraction for the C03/C04 correspondence check; directives: ExtrOcamlBasic only. *)
Require Import ExtrOcamlBasic.
From ACH Require Import Arith Tables.
Extraction "model.ml" gen_tables validate_batch verify validate_file read_validate calc_check_digit roundUp10 least_sig aba8 credit_or_debit calc_count calc_debit calc_credit calc_hash ascending ascending_init trace_odfi_ok rule_code.

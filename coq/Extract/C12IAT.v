(* Extraction for the C12 phase-7 correspondence (IAT batches with the validator, ADV next to other batches); directives: ExtrOcamlBasic only. *)
Require Import ExtrOcamlBasic.
From ACH Require Import Bytes Flatten FlattenFull FlattenFullIAT Tables OffsetTable TabulateTable.
Extraction "model.ml" gen_tables offset_table tabulate_table flatten_full_stable flatten_full_hint iat_views_stable iat_views_hint create_iat_view survivors n_adv n_std create_refuses.

(* Extraction for the C19 correspondence check; directives: ExtrOcamlBasic only. *)
Require Import ExtrOcamlBasic.
From ACH Require Import Pool.
Extraction "model.ml" solo_final disciplined run ginit.

(* Extraction for the C16 phase-4 correspondence check; directives: ExtrOcamlBasic only. *)
Require Import ExtrOcamlBasic.
From ACH Require Import Bytes BufIO BufIOSeq WriterSiteTable WriterSiteCurrent.
Extraction "model.ml" seq_writer_run off_writer_run sfull_output reader_seq current_spolicy current_rpolicy3.

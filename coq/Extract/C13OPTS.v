(* Extraction for the phase-5 C13 correspondence (Reversal of a file carrying ValidateOpts: the
   alias-free view OptsView.reversal_file_x / xvf_arith of ReversalOpts.reversal_file_o / rvf_arith —
   OptsViewFacts.reversal_file_x_is, xvf_arith_is — over the reversal tables and the validator tables
   of this run); directives: ExtrOcamlBasic only. *)
Require Import ExtrOcamlBasic.
From ACH Require Import ValidOut Tables ArithOpts.
From ACH Require Import Bytes TxCodes RevTable Reversal ReversalFacts ReversalTable C13Obl OptsView.
(* [length] is listed only so that nat (used by ocaml/common/conv.ml) is part of model.ml *)
Extraction "model.ml" reversal_file_x xvf_arith file_valid_o RT gen_tables length.

(* Extraction for the C02 structural correspondence; directives: ExtrOcamlBasic only. *)
Require Import ExtrOcamlBasic.
From ACH Require Import FileStruct.
Extraction "model.ml" read_struct physical_lines grammar_ok record_lines.

(* Extraction for the C17 phase-4 correspondence (the pointer-graph store of Proto/ServerShare.v);
   directives: ExtrOcamlBasic only. *)
Require Import ExtrOcamlBasic.
From ACH Require Import Server ServerLib ServerShare.
(* List.length only so that the shared conv.ml finds the nat constructors *)
Extraction "model.ml" sinit sstep snapshot rclass_of target wf_label wf_flat_result file_stable all_stable sread_stored lookup List.length.

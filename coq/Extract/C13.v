(* Extraction for the C13 correspondence check; directives: ExtrOcamlBasic only. *)
Require Import ExtrOcamlBasic.
From ACH Require Import Bytes TxCodes RevTable Reversal ReversalFacts ReversalTable C13Obl.
(* [length] is extracted only because ocaml/common/conv.ml refers to the constructors of nat *)
Extraction "model.ml" reversal_file RT length.

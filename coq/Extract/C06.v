(* Extraction for the C06 correspondence check; directives: ExtrOcamlBasic only. *)
Require Import ExtrOcamlBasic.
From ACH Require Import Utf8 Fields Totality.
Extraction "model.ml" process_control item_research pop_check_serial pop_terminal_city pop_terminal_state
  shr_card_exp shr_doc_ref catx_addenda_records catx_receiving catx_reserved set_catx_addenda_records
  set_catx_receiving set_rdfi iat_payment_amount iat_addenda_information a99_return_trace a99_settlement_date
  a99_reason_code a99_extra aba8 first trim_long right_pad read_line shr_entry_check trc_entry_check.

(* Extraction for the C12 whole-function correspondence (phase 6); directives: ExtrOcamlBasic only. *)
Require Import ExtrOcamlBasic.
From ACH Require Import Bytes Flatten FlattenFull Tables OffsetTable TabulateTable.
Extraction "model.ml" gen_tables offset_table tabulate_table flatten_full_stable flatten_full_hint flatten_stable flatten_hint batch_category.

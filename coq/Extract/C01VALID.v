(* Extraction for the C01 validating-reader correspondence (Codec/ReaderValid.v over the regenerated
   layouts, record rules and arithmetic tables); directives: ExtrOcamlBasic only. *)
Require Import ExtrOcamlBasic.
From ACH Require Import ReaderValid Layouts RecRules Tables Arith.
Extraction "model.ml" read_text all_file rec_passb batches_okb read_text_valid read_file_valid read_then_validate p_file validate_file is_rok rule_code all_layouts all_rules gen_tables lookup.

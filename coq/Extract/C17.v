(* Extraction for the C17 correspondence check; directives: ExtrOcamlBasic only. *)
Require Import ExtrOcamlBasic.
From ACH Require Import Server.
(* List.length only so that the shared conv.ml finds the nat constructors *)
Extraction "model.ml" cinit cstep minit gstep readonly List.length.

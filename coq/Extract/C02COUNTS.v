(* Extraction for the C02 counts correspondence: the observation [WrittenCounts.observe]
   (physical and declared quantities of the written lines, the hypotheses of
   C02_create_counts) over the regenerated layouts; directives: ExtrOcamlBasic only. *)
Require Import ExtrOcamlBasic.
From ACH Require Import WrittenCounts Layouts.
Extraction "model.ml" observe all_layouts.

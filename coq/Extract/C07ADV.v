(* Extraction for the C07 phase-7 correspondence (ADV documents: explicit hypotheses of C07_roundtrip_adv, from_json, File.UnmarshalJSON, the writer on full trees); directives: ExtrOcamlBasic only. *)
Require Import ExtrOcamlBasic.
From ACH Require Import JsonCodec JsonFile JsonFileCurrent JsonFull JsonFullADV JsonTags.
Extraction "model.ml" adv_hyps unmarshal_run roundtrip_run observe write_full tree_full opts_tree is_adv_value typed in_domain valid
  adv_tabulated a98_clean T_File.

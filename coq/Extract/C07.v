(* Extraction for the C07 correspondence check; directives: ExtrOcamlBasic only. *)
Require Import ExtrOcamlBasic.
From ACH Require Import JsonCodec JsonTags.
Extraction "model.ml" enc dec start safeb typed json_structs.

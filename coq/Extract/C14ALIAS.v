(* Extraction for the C14 server-validate correspondence check; directives: ExtrOcamlBasic only. *)
Require Import ExtrOcamlBasic.
From ACH Require Import Bytes EffectTable Purity AliasTable PurityAlias EffectsAlias C14AliasObl.
Extraction "model.ml" run_srqs store_ok store_observe built_src.

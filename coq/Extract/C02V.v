(* Extraction for the C02 valid => width correspondence (rule interpreter vs the real Validate() methods);
   directives: ExtrOcamlBasic only. *)
Require Import ExtrOcamlBasic.
From ACH Require Import RecValid Layouts RecRules.
Extraction "model.ml" rec_validb eval rules_in all_rules all_layouts batch_entry_rules batch_loop_exits entries_validb entry_subrecords cols seg_reads render_custom render rune_count encode_rune unbounded_in.

(* Extraction for the C10 phase-2 correspondence check (MergeDir over the Merge model); directives: ExtrOcamlBasic only. *)
Require Import ExtrOcamlBasic.
From ACH Require Import Merge MergeDir MergeDirTrace MergeDirMerge C10Obl.
Extraction "model.ml" run_dir build trace_of init mergedir_sel merge_files header_only file_lines file_amount.

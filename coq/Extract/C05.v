(* Extraction for the C05 correspondence check; directives: ExtrOcamlBasic only. *)
Require Import ExtrOcamlBasic.
From ACH Require Import Offsets OffsetTable.
Extraction "model.ml" offset_table table_ok build step file_create ctl_okb credits debits wf_entries.

(* Extraction for the C12 option correspondence (phase 4); directives: ExtrOcamlBasic only. *)
Require Import ExtrOcamlBasic.
From ACH Require Import Bytes Flatten FlattenOpts.
(* [length] is extracted only because ocaml/common/conv.ml refers to the constructors of nat *)
Extraction "model.ml" flatten_o_stable_view length.

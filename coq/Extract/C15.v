(* Extraction for the C15 correspondence check; directives: ExtrOcamlBasic only. *)
Require Import ExtrOcamlBasic.
From Coq Require Import NArith.
From ACH Require Import OptMono OptTree.
Extraction "model.ml" model_predict model_family_idx BinNat.N.succ.

(* Extraction for the phase-3 C11 correspondence (SegmentFile with AddBatch's lists and the
   category check); directives: ExtrOcamlBasic only. *)
Require Import ExtrOcamlBasic.
From ACH Require Import TxCodes RevTable SegTable Segment SegmentTable C11Obl SegmentGen.
(* [length] is extracted only because ocaml/common/conv.ml refers to the constructors of nat *)
Extraction "model.ml" segment_cat built ST length.

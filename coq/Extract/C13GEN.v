(* Extraction for the phase-3 C13 correspondence (Reversal with the amount rule by addenda kind,
   PRENOTE descriptions and OFFSET entries); directives: ExtrOcamlBasic only. *)
Require Import ExtrOcamlBasic.
From ACH Require Import Bytes TxCodes RevTable Reversal ReversalFacts ReversalTable C13Obl ReversalGen.
(* [length] is extracted only because ocaml/common/conv.ml refers to the constructors of nat *)
Extraction "model.ml" reversal_file rfile_valid_gen batch_survives offsets_consistent RT rev_amount_arms length.

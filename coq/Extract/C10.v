(* Extraction for the C10 correspondence check; directives: ExtrOcamlBasic only. *)
Require Import ExtrOcamlBasic.
From ACH Require Import Walk MergeDir MergeDirTrace C10Obl.
Extraction "model.ml" walk_as_coded accepted_as_coded default_accept spec_accept accept_trace mergedir_sel.


type nat =
| O
| S of nat

(** val option_map : ('a1 -> 'a2) -> 'a1 option -> 'a2 option **)

let option_map f = function
| Some a -> Some (f a)
| None -> None

(** val fst : ('a1 * 'a2) -> 'a1 **)

let fst = function
| (x, _) -> x

(** val app : 'a1 list -> 'a1 list -> 'a1 list **)

let rec app l m =
  match l with
  | [] -> m
  | a :: l1 -> a :: (app l1 m)

(** val map : ('a1 -> 'a2) -> 'a1 list -> 'a2 list **)

let rec map f = function
| [] -> []
| a :: t -> (f a) :: (map f t)

(** val fold_left : ('a1 -> 'a2 -> 'a1) -> 'a2 list -> 'a1 -> 'a1 **)

let rec fold_left f l a0 =
  match l with
  | [] -> a0
  | b :: t -> fold_left f t (f a0 b)

(** val existsb : ('a1 -> bool) -> 'a1 list -> bool **)

let rec existsb f = function
| [] -> false
| a :: l0 -> (||) (f a) (existsb f l0)

type positive =
| XI of positive
| XO of positive
| XH

type n =
| N0
| Npos of positive

module Pos =
 struct
  (** val eqb : positive -> positive -> bool **)

  let rec eqb p q =
    match p with
    | XI p0 -> (match q with
                | XI q0 -> eqb p0 q0
                | _ -> false)
    | XO p0 -> (match q with
                | XO q0 -> eqb p0 q0
                | _ -> false)
    | XH -> (match q with
             | XH -> true
             | _ -> false)
 end

module N =
 struct
  (** val eqb : n -> n -> bool **)

  let eqb n0 m =
    match n0 with
    | N0 -> (match m with
             | N0 -> true
             | Npos _ -> false)
    | Npos p -> (match m with
                 | N0 -> false
                 | Npos q -> Pos.eqb p q)
 end

type ('st, 'loc) mstep =
| MRead of ('st -> 'loc -> 'loc)
| MWrite of ('st -> 'loc -> 'st * 'loc)

(** val apply_m : ('a1, 'a2) mstep -> 'a1 -> 'a2 -> 'a1 * 'a2 **)

let apply_m m s l =
  match m with
  | MRead f -> (s, (f s l))
  | MWrite f -> f s l

type ('st, 'arg, 'res, 'loc) body = { b_init : ('arg -> 'loc);
                                      b_steps : ('st, 'loc) mstep list;
                                      b_fin : ('loc -> 'res) }

(** val run_steps : ('a1, 'a2) mstep list -> 'a1 -> 'a2 -> 'a1 * 'a2 **)

let rec run_steps ss s l =
  match ss with
  | [] -> (s, l)
  | f :: ss' -> let (s', l') = apply_m f s l in run_steps ss' s' l'

(** val spec :
    ('a5 -> ('a1, 'a2, 'a3, 'a4) body) -> 'a5 -> 'a2 -> 'a1 -> 'a1 * 'a3 **)

let spec bodies o a s =
  let b = bodies o in
  let (s', l') = run_steps b.b_steps s (b.b_init a) in (s', (b.b_fin l'))

type fid = n

type bid = n

type file = { f_tok : n; f_old : bool; f_batches : bid list }

type st = (fid * file) list

(** val lookup : fid -> st -> file option **)

let rec lookup k = function
| [] -> None
| p :: s' -> let (k', v) = p in if N.eqb k' k then Some v else lookup k s'

(** val remove : fid -> st -> st **)

let rec remove k = function
| [] -> []
| p :: s' ->
  let (k', v) = p in
  if N.eqb k' k then remove k s' else (k', v) :: (remove k s')

(** val set : fid -> file -> st -> st **)

let rec set k v = function
| [] -> (k, v) :: []
| p :: s' ->
  let (k', v') = p in
  if N.eqb k' k then (k', v) :: s' else (k', v') :: (set k v s')

(** val keys : st -> fid list **)

let keys s =
  map fst s

(** val batches_of : fid -> st -> bid list **)

let batches_of k s =
  match lookup k s with
  | Some f -> f.f_batches
  | None -> []

(** val memb : bid -> bid list -> bool **)

let memb b l =
  existsb (N.eqb b) l

(** val last_index : bid -> bid list -> nat option **)

let rec last_index b = function
| [] -> None
| x :: l' ->
  (match last_index b l' with
   | Some i -> Some (S i)
   | None -> if N.eqb x b then Some O else None)

(** val remove_nth : nat -> bid list -> bid list **)

let rec remove_nth i = function
| [] -> []
| x :: l' -> (match i with
              | O -> l'
              | S i' -> x :: (remove_nth i' l'))

type err =
| ENotFound
| EExists
| EOther

type res =
| RNone
| ROk
| RErr of err
| RFile of n
| RFiles of n option list
| RBatch of bid
| RBatches of bid list

type arg = { a_fid : fid; a_bid : bid; a_tok : n; a_old : bool }

type loc = { l_arg : arg; l_keys : fid list; l_idx : nat option; l_res : 
             res; l_done : bool }

type op =
| StoreFile
| FindFile
| FindAllFiles
| DeleteFile
| StoreBatch
| FindBatch
| FindAllBatches
| DeleteBatch
| Sweep

(** val ret : loc -> res -> loc **)

let ret l r =
  { l_arg = l.l_arg; l_keys = l.l_keys; l_idx = l.l_idx; l_res = r; l_done =
    true }

(** val with_keys : loc -> fid list -> loc **)

let with_keys l ks =
  { l_arg = l.l_arg; l_keys = ks; l_idx = l.l_idx; l_res = l.l_res; l_done =
    l.l_done }

(** val with_idx : loc -> nat -> loc **)

let with_idx l i =
  { l_arg = l.l_arg; l_keys = l.l_keys; l_idx = (Some i); l_res = l.l_res;
    l_done = l.l_done }

(** val rd : (st -> loc -> loc) -> (st, loc) mstep **)

let rd f =
  MRead (fun s l -> if l.l_done then l else f s l)

(** val wr : (st -> loc -> st * loc) -> (st, loc) mstep **)

let wr f =
  MWrite (fun s l -> if l.l_done then (s, l) else f s l)

(** val add_batch : file -> bid -> file **)

let add_batch f b =
  { f_tok = f.f_tok; f_old = f.f_old; f_batches =
    (app f.f_batches (b :: [])) }

(** val set_batches : file -> bid list -> file **)

let set_batches f bs =
  { f_tok = f.f_tok; f_old = f.f_old; f_batches = bs }

(** val need_file : (st, loc) mstep **)

let need_file =
  rd (fun s l ->
    match lookup l.l_arg.a_fid s with
    | Some _ -> l
    | None -> ret l (RErr ENotFound))

(** val sweep_keys : fid list -> st -> st **)

let sweep_keys ks s =
  fold_left (fun s0 k ->
    match lookup k s0 with
    | Some f -> if f.f_old then remove k s0 else s0
    | None -> s0) ks s

(** val steps_of : op -> (st, loc) mstep list **)

let steps_of = function
| StoreFile ->
  (rd (fun s l ->
    match lookup l.l_arg.a_fid s with
    | Some _ -> ret l (RErr EExists)
    | None -> l)) :: ((wr (fun s l ->
                        ((set l.l_arg.a_fid { f_tok = l.l_arg.a_tok; f_old =
                           l.l_arg.a_old; f_batches = [] } s), (ret l ROk)))) :: [])
| FindFile ->
  (rd (fun s l ->
    match lookup l.l_arg.a_fid s with
    | Some f -> ret l (RFile f.f_tok)
    | None -> ret l (RErr ENotFound))) :: []
| FindAllFiles ->
  (rd (fun s l -> with_keys l (keys s))) :: ((rd (fun s l ->
                                               ret l (RFiles
                                                 (map (fun k ->
                                                   option_map (fun f ->
                                                     f.f_tok) (lookup k s))
                                                   l.l_keys)))) :: [])
| DeleteFile ->
  (wr (fun s l -> ((remove l.l_arg.a_fid s), (ret l ROk)))) :: []
| StoreBatch ->
  need_file :: ((rd (fun s l ->
                  if memb l.l_arg.a_bid (batches_of l.l_arg.a_fid s)
                  then ret l (RErr EExists)
                  else l)) :: ((wr (fun s l ->
                                 ((match lookup l.l_arg.a_fid s with
                                   | Some f ->
                                     set l.l_arg.a_fid
                                       (add_batch f l.l_arg.a_bid) s
                                   | None -> s), (ret l ROk)))) :: []))
| FindBatch ->
  need_file :: ((rd (fun s l ->
                  if memb l.l_arg.a_bid (batches_of l.l_arg.a_fid s)
                  then ret l (RBatch l.l_arg.a_bid)
                  else ret l (RErr ENotFound))) :: [])
| FindAllBatches ->
  (rd (fun s l ->
    match lookup l.l_arg.a_fid s with
    | Some _ -> l
    | None -> ret l RNone)) :: ((rd (fun s l ->
                                  ret l (RBatches
                                    (batches_of l.l_arg.a_fid s)))) :: [])
| DeleteBatch ->
  (rd (fun s l ->
    match lookup l.l_arg.a_fid s with
    | Some _ -> l
    | None -> ret l (RErr EOther))) :: ((rd (fun s l ->
                                          match last_index l.l_arg.a_bid
                                                  (batches_of l.l_arg.a_fid s) with
                                          | Some i -> with_idx l i
                                          | None -> ret l (RErr ENotFound))) :: (
    (wr (fun s l ->
      ((match l.l_idx with
        | Some i ->
          (match lookup l.l_arg.a_fid s with
           | Some f ->
             set l.l_arg.a_fid (set_batches f (remove_nth i f.f_batches)) s
           | None -> s)
        | None -> s), (ret l ROk)))) :: []))
| Sweep ->
  (rd (fun s l -> with_keys l (keys s))) :: ((wr (fun s l ->
                                               ((sweep_keys l.l_keys s),
                                               (ret l ROk)))) :: [])

(** val repo_body : op -> (st, arg, res, loc) body **)

let repo_body o =
  { b_init = (fun a -> { l_arg = a; l_keys = []; l_idx = None; l_res = RNone;
    l_done = false }); b_steps = (steps_of o); b_fin = (fun l -> l.l_res) }

(** val repo_spec : op -> arg -> st -> st * res **)

let repo_spec =
  spec repo_body

(** val run_seq : (op * arg) list -> st -> st * res list **)

let rec run_seq cs s =
  match cs with
  | [] -> (s, [])
  | p :: cs' ->
    let (o, a) = p in
    let (s1, r) = repo_spec o a s in
    let (s2, rs) = run_seq cs' s1 in (s2, (r :: rs))

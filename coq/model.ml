
(** val negb : bool -> bool **)

let negb = function
| true -> false
| false -> true

type nat =
| O
| S of nat

(** val option_map : ('a1 -> 'a2) -> 'a1 option -> 'a2 option **)

let option_map f = function
| Some a -> Some (f a)
| None -> None

(** val snd : ('a1 * 'a2) -> 'a2 **)

let snd = function
| (_, y) -> y

(** val length : 'a1 list -> nat **)

let rec length = function
| [] -> O
| _ :: l' -> S (length l')

(** val app : 'a1 list -> 'a1 list -> 'a1 list **)

let rec app l m =
  match l with
  | [] -> m
  | a :: l1 -> a :: (app l1 m)

type comparison =
| Eq
| Lt
| Gt

(** val compOpp : comparison -> comparison **)

let compOpp = function
| Eq -> Eq
| Lt -> Gt
| Gt -> Lt

module Nat =
 struct
  (** val eqb : nat -> nat -> bool **)

  let rec eqb n0 m =
    match n0 with
    | O -> (match m with
            | O -> true
            | S _ -> false)
    | S n' -> (match m with
               | O -> false
               | S m' -> eqb n' m')

  (** val leb : nat -> nat -> bool **)

  let rec leb n0 m =
    match n0 with
    | O -> true
    | S n' -> (match m with
               | O -> false
               | S m' -> leb n' m')

  (** val ltb : nat -> nat -> bool **)

  let ltb n0 m =
    leb (S n0) m
 end

(** val nth : nat -> 'a1 list -> 'a1 -> 'a1 **)

let rec nth n0 l default =
  match n0 with
  | O -> (match l with
          | [] -> default
          | x :: _ -> x)
  | S m -> (match l with
            | [] -> default
            | _ :: t -> nth m t default)

(** val concat : 'a1 list list -> 'a1 list **)

let rec concat = function
| [] -> []
| x :: l0 -> app x (concat l0)

(** val map : ('a1 -> 'a2) -> 'a1 list -> 'a2 list **)

let rec map f = function
| [] -> []
| a :: t -> (f a) :: (map f t)

(** val fold_left : ('a1 -> 'a2 -> 'a1) -> 'a2 list -> 'a1 -> 'a1 **)

let rec fold_left f l a0 =
  match l with
  | [] -> a0
  | b :: t -> fold_left f t (f a0 b)

(** val existsb : ('a1 -> bool) -> 'a1 list -> bool **)

let rec existsb f = function
| [] -> false
| a :: l0 -> (||) (f a) (existsb f l0)

(** val forallb : ('a1 -> bool) -> 'a1 list -> bool **)

let rec forallb f = function
| [] -> true
| a :: l0 -> (&&) (f a) (forallb f l0)

(** val filter : ('a1 -> bool) -> 'a1 list -> 'a1 list **)

let rec filter f = function
| [] -> []
| x :: l0 -> if f x then x :: (filter f l0) else filter f l0

type positive =
| XI of positive
| XO of positive
| XH

type n =
| N0
| Npos of positive

type z =
| Z0
| Zpos of positive
| Zneg of positive

module Pos =
 struct
  (** val succ : positive -> positive **)

  let rec succ = function
  | XI p -> XO (succ p)
  | XO p -> XI p
  | XH -> XO XH

  (** val add : positive -> positive -> positive **)

  let rec add x y =
    match x with
    | XI p ->
      (match y with
       | XI q -> XO (add_carry p q)
       | XO q -> XI (add p q)
       | XH -> XO (succ p))
    | XO p ->
      (match y with
       | XI q -> XI (add p q)
       | XO q -> XO (add p q)
       | XH -> XI p)
    | XH -> (match y with
             | XI q -> XO (succ q)
             | XO q -> XI q
             | XH -> XO XH)

  (** val add_carry : positive -> positive -> positive **)

  and add_carry x y =
    match x with
    | XI p ->
      (match y with
       | XI q -> XI (add_carry p q)
       | XO q -> XO (add_carry p q)
       | XH -> XI (succ p))
    | XO p ->
      (match y with
       | XI q -> XO (add_carry p q)
       | XO q -> XI (add p q)
       | XH -> XO (succ p))
    | XH ->
      (match y with
       | XI q -> XI (succ q)
       | XO q -> XO (succ q)
       | XH -> XI XH)

  (** val pred_double : positive -> positive **)

  let rec pred_double = function
  | XI p -> XI (XO p)
  | XO p -> XI (pred_double p)
  | XH -> XH

  (** val compare_cont : comparison -> positive -> positive -> comparison **)

  let rec compare_cont r x y =
    match x with
    | XI p ->
      (match y with
       | XI q -> compare_cont r p q
       | XO q -> compare_cont Gt p q
       | XH -> Gt)
    | XO p ->
      (match y with
       | XI q -> compare_cont Lt p q
       | XO q -> compare_cont r p q
       | XH -> Gt)
    | XH -> (match y with
             | XH -> r
             | _ -> Lt)

  (** val compare : positive -> positive -> comparison **)

  let compare =
    compare_cont Eq

  (** val eqb : positive -> positive -> bool **)

  let rec eqb p q =
    match p with
    | XI p0 -> (match q with
                | XI q0 -> eqb p0 q0
                | _ -> false)
    | XO p0 -> (match q with
                | XO q0 -> eqb p0 q0
                | _ -> false)
    | XH -> (match q with
             | XH -> true
             | _ -> false)
 end

module N =
 struct
  (** val compare : n -> n -> comparison **)

  let compare n0 m =
    match n0 with
    | N0 -> (match m with
             | N0 -> Eq
             | Npos _ -> Lt)
    | Npos n' -> (match m with
                  | N0 -> Gt
                  | Npos m' -> Pos.compare n' m')

  (** val eqb : n -> n -> bool **)

  let eqb n0 m =
    match n0 with
    | N0 -> (match m with
             | N0 -> true
             | Npos _ -> false)
    | Npos p -> (match m with
                 | N0 -> false
                 | Npos q -> Pos.eqb p q)

  (** val ltb : n -> n -> bool **)

  let ltb x y =
    match compare x y with
    | Lt -> true
    | _ -> false
 end

module Z =
 struct
  (** val double : z -> z **)

  let double = function
  | Z0 -> Z0
  | Zpos p -> Zpos (XO p)
  | Zneg p -> Zneg (XO p)

  (** val succ_double : z -> z **)

  let succ_double = function
  | Z0 -> Zpos XH
  | Zpos p -> Zpos (XI p)
  | Zneg p -> Zneg (Pos.pred_double p)

  (** val pred_double : z -> z **)

  let pred_double = function
  | Z0 -> Zneg XH
  | Zpos p -> Zpos (Pos.pred_double p)
  | Zneg p -> Zneg (XI p)

  (** val pos_sub : positive -> positive -> z **)

  let rec pos_sub x y =
    match x with
    | XI p ->
      (match y with
       | XI q -> double (pos_sub p q)
       | XO q -> succ_double (pos_sub p q)
       | XH -> Zpos (XO p))
    | XO p ->
      (match y with
       | XI q -> pred_double (pos_sub p q)
       | XO q -> double (pos_sub p q)
       | XH -> Zpos (Pos.pred_double p))
    | XH ->
      (match y with
       | XI q -> Zneg (XO q)
       | XO q -> Zneg (Pos.pred_double q)
       | XH -> Z0)

  (** val add : z -> z -> z **)

  let add x y =
    match x with
    | Z0 -> y
    | Zpos x' ->
      (match y with
       | Z0 -> x
       | Zpos y' -> Zpos (Pos.add x' y')
       | Zneg y' -> pos_sub x' y')
    | Zneg x' ->
      (match y with
       | Z0 -> x
       | Zpos y' -> pos_sub y' x'
       | Zneg y' -> Zneg (Pos.add x' y'))

  (** val compare : z -> z -> comparison **)

  let compare x y =
    match x with
    | Z0 -> (match y with
             | Z0 -> Eq
             | Zpos _ -> Lt
             | Zneg _ -> Gt)
    | Zpos x' -> (match y with
                  | Zpos y' -> Pos.compare x' y'
                  | _ -> Gt)
    | Zneg x' ->
      (match y with
       | Zneg y' -> compOpp (Pos.compare x' y')
       | _ -> Lt)

  (** val ltb : z -> z -> bool **)

  let ltb x y =
    match compare x y with
    | Lt -> true
    | _ -> false
 end

type bytes = n list

(** val bytes_eqb : bytes -> bytes -> bool **)

let rec bytes_eqb a b =
  match a with
  | [] -> (match b with
           | [] -> true
           | _ :: _ -> false)
  | x :: a' ->
    (match b with
     | [] -> false
     | y :: b' -> (&&) (N.eqb x y) (bytes_eqb a' b'))

type entry = { e_trace : bytes; e_core : bytes; e_amount : z; e_debit : 
               bool; e_addenda : n; e_cat : n }

type kind =
| KStd
| KIAT

(** val kind_eqb : kind -> kind -> bool **)

let kind_eqb a b =
  match a with
  | KStd -> (match b with
             | KStd -> true
             | KIAT -> false)
  | KIAT -> (match b with
             | KStd -> false
             | KIAT -> true)

type batch = { b_kind : kind; b_sig : bytes; b_num : z;
               b_entries : entry list; b_adv : entry list }

(** val lex_ltb : bytes -> bytes -> bool **)

let rec lex_ltb a b =
  match a with
  | [] -> (match b with
           | [] -> false
           | _ :: _ -> true)
  | x :: a' ->
    (match b with
     | [] -> false
     | y :: b' -> (||) (N.ltb x y) ((&&) (N.eqb x y) (lex_ltb a' b')))

(** val insert_by : ('a1 -> 'a1 -> bool) -> 'a1 -> 'a1 list -> 'a1 list **)

let rec insert_by lt x = function
| [] -> x :: []
| y :: l' -> if lt y x then y :: (insert_by lt x l') else x :: (y :: l')

(** val sort_by : ('a1 -> 'a1 -> bool) -> 'a1 list -> 'a1 list **)

let rec sort_by lt = function
| [] -> []
| x :: l' -> insert_by lt x (sort_by lt l')

(** val has_trace : bytes -> batch -> bool **)

let has_trace t b =
  existsb (fun e -> bytes_eqb t e.e_trace) b.b_entries

(** val can_merge : batch -> batch -> bool **)

let can_merge a b =
  (&&) (forallb (fun e -> negb (has_trace e.e_trace b)) a.b_entries)
    (bytes_eqb a.b_sig b.b_sig)

(** val consume : batch -> batch -> batch **)

let consume m c =
  if kind_eqb m.b_kind c.b_kind
  then { b_kind = m.b_kind; b_sig = m.b_sig; b_num =
         (if Z.ltb c.b_num m.b_num then c.b_num else m.b_num); b_entries =
         (app m.b_entries c.b_entries); b_adv = (app m.b_adv c.b_adv) }
  else m

(** val copy : batch -> batch **)

let copy b =
  consume { b_kind = b.b_kind; b_sig = b.b_sig; b_num = b.b_num; b_entries =
    []; b_adv = [] } b

type groups = (bytes * batch list) list

(** val merge_into : batch -> batch list -> batch list option **)

let rec merge_into b = function
| [] -> None
| m :: g' ->
  if can_merge b m
  then Some ((consume m b) :: g')
  else (match merge_into b g' with
        | Some g'' -> Some (m :: g'')
        | None -> None)

(** val place : batch -> batch list -> batch list **)

let place b g =
  match merge_into b g with
  | Some g' -> g'
  | None -> app g ((copy b) :: [])

(** val step : batch -> groups -> groups **)

let rec step b = function
| [] -> (b.b_sig, (place b [])) :: []
| p :: gs' ->
  let (s, g) = p in
  if bytes_eqb s b.b_sig
  then (s, (place b g)) :: gs'
  else (s, g) :: (step b gs')

(** val run : batch list -> groups **)

let run order =
  fold_left (fun gs b -> step b gs) order []

(** val all_batches : groups -> batch list **)

let all_batches gs =
  concat (map snd gs)

(** val trace_ltb : entry -> entry -> bool **)

let trace_ltb a b =
  lex_ltb a.e_trace b.e_trace

(** val num_ltb : batch -> batch -> bool **)

let num_ltb a b =
  Z.ltb a.b_num b.b_num

(** val count_ltb : batch -> batch -> bool **)

let count_ltb a b =
  Nat.ltb (length a.b_entries) (length b.b_entries)

(** val sort_entries : batch -> batch **)

let sort_entries b =
  { b_kind = b.b_kind; b_sig = b.b_sig; b_num = b.b_num; b_entries =
    (sort_by trace_ltb b.b_entries); b_adv = b.b_adv }

(** val is_std : batch -> bool **)

let is_std b =
  match b.b_kind with
  | KStd -> true
  | KIAT -> false

(** val is_iat : batch -> bool **)

let is_iat b =
  negb (is_std b)

(** val renumber : z -> batch list -> batch list **)

let rec renumber n0 = function
| [] -> []
| b :: l' ->
  { b_kind = b.b_kind; b_sig = b.b_sig; b_num = n0; b_entries = b.b_entries;
    b_adv = b.b_adv } :: (renumber (Z.add n0 (Zpos XH)) l')

(** val finalize : batch list -> batch list **)

let finalize all =
  let s = map sort_entries (sort_by num_ltb all) in
  renumber (Zpos XH) (app (filter is_std s) (filter is_iat s))

(** val cat_noc : n **)

let cat_noc =
  Npos (XO XH)

(** val category_ok : batch -> bool **)

let category_ok b =
  match b.b_entries with
  | [] ->
    (match b.b_adv with
     | [] -> true
     | a0 :: _ -> forallb (fun a -> N.eqb a.e_cat a0.e_cat) b.b_adv)
  | e0 :: l ->
    (match l with
     | [] -> true
     | _ :: _ ->
       forallb (fun e ->
         (||) (N.eqb e.e_cat cat_noc) (N.eqb e.e_cat e0.e_cat)) b.b_entries)

(** val checked : batch list -> batch list option **)

let checked out =
  if forallb category_ok out then Some out else None

(** val flatten_stable : batch list -> batch list **)

let flatten_stable inp =
  finalize (all_batches (run (sort_by count_ltb inp)))

(** val sorted_countb : batch list -> bool **)

let rec sorted_countb = function
| [] -> true
| a :: l' ->
  (match l' with
   | [] -> true
   | b :: _ -> (&&) (negb (count_ltb b a)) (sorted_countb l'))

(** val nodupb : nat list -> bool **)

let rec nodupb = function
| [] -> true
| x :: l' -> (&&) (negb (existsb (Nat.eqb x) l')) (nodupb l')

(** val perm_hintb : nat -> nat list -> bool **)

let perm_hintb n0 hint =
  (&&)
    ((&&) (Nat.eqb (length hint) n0) (forallb (fun i -> Nat.ltb i n0) hint))
    (nodupb hint)

(** val dummy_batch : batch **)

let dummy_batch =
  { b_kind = KStd; b_sig = []; b_num = Z0; b_entries = []; b_adv = [] }

(** val apply_hint : batch list -> nat list -> batch list **)

let apply_hint inp hint =
  map (fun i -> nth i inp dummy_batch) hint

(** val flatten_hint : batch list -> nat list -> batch list option **)

let flatten_hint inp hint =
  if (&&) (perm_hintb (length inp) hint) (sorted_countb (apply_hint inp hint))
  then Some (finalize (all_batches (run (apply_hint inp hint))))
  else None

(** val flatten_stable_checked : batch list -> batch list option **)

let flatten_stable_checked inp =
  checked (flatten_stable inp)

(** val flatten_hint_checked :
    batch list -> nat list -> batch list option option **)

let flatten_hint_checked inp hint =
  option_map checked (flatten_hint inp hint)


(** val negb : bool -> bool **)

let negb = function
| true -> false
| false -> true

type nat =
| O
| S of nat

(** val fst : ('a1 * 'a2) -> 'a1 **)

let fst = function
| (x, _) -> x

(** val snd : ('a1 * 'a2) -> 'a2 **)

let snd = function
| (_, y) -> y

(** val length : 'a1 list -> nat **)

let rec length = function
| [] -> O
| _ :: l' -> S (length l')

(** val app : 'a1 list -> 'a1 list -> 'a1 list **)

let rec app l m =
  match l with
  | [] -> m
  | a :: l1 -> a :: (app l1 m)

type comparison =
| Eq
| Lt
| Gt

(** val compOpp : comparison -> comparison **)

let compOpp = function
| Eq -> Eq
| Lt -> Gt
| Gt -> Lt

module Coq__1 = struct
 (** val add : nat -> nat -> nat **)
 let rec add n0 m =
   match n0 with
   | O -> m
   | S p -> S (add p m)
end
include Coq__1

(** val sub : nat -> nat -> nat **)

let rec sub n0 m =
  match n0 with
  | O -> n0
  | S k -> (match m with
            | O -> n0
            | S l -> sub k l)

module Nat =
 struct
  (** val sub : nat -> nat -> nat **)

  let rec sub n0 m =
    match n0 with
    | O -> n0
    | S k -> (match m with
              | O -> n0
              | S l -> sub k l)

  (** val eqb : nat -> nat -> bool **)

  let rec eqb n0 m =
    match n0 with
    | O -> (match m with
            | O -> true
            | S _ -> false)
    | S n' -> (match m with
               | O -> false
               | S m' -> eqb n' m')

  (** val leb : nat -> nat -> bool **)

  let rec leb n0 m =
    match n0 with
    | O -> true
    | S n' -> (match m with
               | O -> false
               | S m' -> leb n' m')

  (** val ltb : nat -> nat -> bool **)

  let ltb n0 m =
    leb (S n0) m

  (** val divmod : nat -> nat -> nat -> nat -> nat * nat **)

  let rec divmod x y q u =
    match x with
    | O -> (q, u)
    | S x' ->
      (match u with
       | O -> divmod x' y (S q) y
       | S u' -> divmod x' y q u')

  (** val modulo : nat -> nat -> nat **)

  let modulo x = function
  | O -> x
  | S y' -> sub y' (snd (divmod x y' O y'))
 end

(** val nth_error : 'a1 list -> nat -> 'a1 option **)

let rec nth_error l = function
| O -> (match l with
        | [] -> None
        | x :: _ -> Some x)
| S n1 -> (match l with
           | [] -> None
           | _ :: l0 -> nth_error l0 n1)

(** val removelast : 'a1 list -> 'a1 list **)

let rec removelast = function
| [] -> []
| a :: l0 -> (match l0 with
              | [] -> []
              | _ :: _ -> a :: (removelast l0))

(** val rev : 'a1 list -> 'a1 list **)

let rec rev = function
| [] -> []
| x :: l' -> app (rev l') (x :: [])

(** val concat : 'a1 list list -> 'a1 list **)

let rec concat = function
| [] -> []
| x :: l0 -> app x (concat l0)

(** val map : ('a1 -> 'a2) -> 'a1 list -> 'a2 list **)

let rec map f = function
| [] -> []
| a :: t -> (f a) :: (map f t)

(** val flat_map : ('a1 -> 'a2 list) -> 'a1 list -> 'a2 list **)

let rec flat_map f = function
| [] -> []
| x :: t -> app (f x) (flat_map f t)

(** val forallb : ('a1 -> bool) -> 'a1 list -> bool **)

let rec forallb f = function
| [] -> true
| a :: l0 -> (&&) (f a) (forallb f l0)

(** val firstn : nat -> 'a1 list -> 'a1 list **)

let rec firstn n0 l =
  match n0 with
  | O -> []
  | S n1 -> (match l with
             | [] -> []
             | a :: l0 -> a :: (firstn n1 l0))

(** val skipn : nat -> 'a1 list -> 'a1 list **)

let rec skipn n0 l =
  match n0 with
  | O -> l
  | S n1 -> (match l with
             | [] -> []
             | _ :: l0 -> skipn n1 l0)

(** val repeat : 'a1 -> nat -> 'a1 list **)

let rec repeat x = function
| O -> []
| S k -> x :: (repeat x k)

type positive =
| XI of positive
| XO of positive
| XH

type n =
| N0
| Npos of positive

type z =
| Z0
| Zpos of positive
| Zneg of positive

module Pos =
 struct
  type mask =
  | IsNul
  | IsPos of positive
  | IsNeg
 end

module Coq_Pos =
 struct
  (** val succ : positive -> positive **)

  let rec succ = function
  | XI p -> XO (succ p)
  | XO p -> XI p
  | XH -> XO XH

  (** val add : positive -> positive -> positive **)

  let rec add x y =
    match x with
    | XI p ->
      (match y with
       | XI q -> XO (add_carry p q)
       | XO q -> XI (add p q)
       | XH -> XO (succ p))
    | XO p ->
      (match y with
       | XI q -> XI (add p q)
       | XO q -> XO (add p q)
       | XH -> XI p)
    | XH -> (match y with
             | XI q -> XO (succ q)
             | XO q -> XI q
             | XH -> XO XH)

  (** val add_carry : positive -> positive -> positive **)

  and add_carry x y =
    match x with
    | XI p ->
      (match y with
       | XI q -> XI (add_carry p q)
       | XO q -> XO (add_carry p q)
       | XH -> XI (succ p))
    | XO p ->
      (match y with
       | XI q -> XO (add_carry p q)
       | XO q -> XI (add p q)
       | XH -> XO (succ p))
    | XH ->
      (match y with
       | XI q -> XI (succ q)
       | XO q -> XO (succ q)
       | XH -> XI XH)

  (** val pred_double : positive -> positive **)

  let rec pred_double = function
  | XI p -> XI (XO p)
  | XO p -> XI (pred_double p)
  | XH -> XH

  type mask = Pos.mask =
  | IsNul
  | IsPos of positive
  | IsNeg

  (** val succ_double_mask : mask -> mask **)

  let succ_double_mask = function
  | IsNul -> IsPos XH
  | IsPos p -> IsPos (XI p)
  | IsNeg -> IsNeg

  (** val double_mask : mask -> mask **)

  let double_mask = function
  | IsPos p -> IsPos (XO p)
  | x0 -> x0

  (** val double_pred_mask : positive -> mask **)

  let double_pred_mask = function
  | XI p -> IsPos (XO (XO p))
  | XO p -> IsPos (XO (pred_double p))
  | XH -> IsNul

  (** val sub_mask : positive -> positive -> mask **)

  let rec sub_mask x y =
    match x with
    | XI p ->
      (match y with
       | XI q -> double_mask (sub_mask p q)
       | XO q -> succ_double_mask (sub_mask p q)
       | XH -> IsPos (XO p))
    | XO p ->
      (match y with
       | XI q -> succ_double_mask (sub_mask_carry p q)
       | XO q -> double_mask (sub_mask p q)
       | XH -> IsPos (pred_double p))
    | XH -> (match y with
             | XH -> IsNul
             | _ -> IsNeg)

  (** val sub_mask_carry : positive -> positive -> mask **)

  and sub_mask_carry x y =
    match x with
    | XI p ->
      (match y with
       | XI q -> succ_double_mask (sub_mask_carry p q)
       | XO q -> double_mask (sub_mask p q)
       | XH -> IsPos (pred_double p))
    | XO p ->
      (match y with
       | XI q -> double_mask (sub_mask_carry p q)
       | XO q -> succ_double_mask (sub_mask_carry p q)
       | XH -> double_pred_mask p)
    | XH -> IsNeg

  (** val mul : positive -> positive -> positive **)

  let rec mul x y =
    match x with
    | XI p -> add y (XO (mul p y))
    | XO p -> XO (mul p y)
    | XH -> y

  (** val size : positive -> positive **)

  let rec size = function
  | XI p0 -> succ (size p0)
  | XO p0 -> succ (size p0)
  | XH -> XH

  (** val compare_cont : comparison -> positive -> positive -> comparison **)

  let rec compare_cont r x y =
    match x with
    | XI p ->
      (match y with
       | XI q -> compare_cont r p q
       | XO q -> compare_cont Gt p q
       | XH -> Gt)
    | XO p ->
      (match y with
       | XI q -> compare_cont Lt p q
       | XO q -> compare_cont r p q
       | XH -> Gt)
    | XH -> (match y with
             | XH -> r
             | _ -> Lt)

  (** val compare : positive -> positive -> comparison **)

  let compare =
    compare_cont Eq

  (** val eqb : positive -> positive -> bool **)

  let rec eqb p q =
    match p with
    | XI p0 -> (match q with
                | XI q0 -> eqb p0 q0
                | _ -> false)
    | XO p0 -> (match q with
                | XO q0 -> eqb p0 q0
                | _ -> false)
    | XH -> (match q with
             | XH -> true
             | _ -> false)

  (** val iter_op : ('a1 -> 'a1 -> 'a1) -> positive -> 'a1 -> 'a1 **)

  let rec iter_op op p a =
    match p with
    | XI p0 -> op a (iter_op op p0 (op a a))
    | XO p0 -> iter_op op p0 (op a a)
    | XH -> a

  (** val to_nat : positive -> nat **)

  let to_nat x =
    iter_op Coq__1.add x (S O)
 end

module N =
 struct
  (** val succ_double : n -> n **)

  let succ_double = function
  | N0 -> Npos XH
  | Npos p -> Npos (XI p)

  (** val double : n -> n **)

  let double = function
  | N0 -> N0
  | Npos p -> Npos (XO p)

  (** val add : n -> n -> n **)

  let add n0 m =
    match n0 with
    | N0 -> m
    | Npos p -> (match m with
                 | N0 -> n0
                 | Npos q -> Npos (Coq_Pos.add p q))

  (** val sub : n -> n -> n **)

  let sub n0 m =
    match n0 with
    | N0 -> N0
    | Npos n' ->
      (match m with
       | N0 -> n0
       | Npos m' ->
         (match Coq_Pos.sub_mask n' m' with
          | Coq_Pos.IsPos p -> Npos p
          | _ -> N0))

  (** val mul : n -> n -> n **)

  let mul n0 m =
    match n0 with
    | N0 -> N0
    | Npos p -> (match m with
                 | N0 -> N0
                 | Npos q -> Npos (Coq_Pos.mul p q))

  (** val compare : n -> n -> comparison **)

  let compare n0 m =
    match n0 with
    | N0 -> (match m with
             | N0 -> Eq
             | Npos _ -> Lt)
    | Npos n' -> (match m with
                  | N0 -> Gt
                  | Npos m' -> Coq_Pos.compare n' m')

  (** val eqb : n -> n -> bool **)

  let eqb n0 m =
    match n0 with
    | N0 -> (match m with
             | N0 -> true
             | Npos _ -> false)
    | Npos p -> (match m with
                 | N0 -> false
                 | Npos q -> Coq_Pos.eqb p q)

  (** val leb : n -> n -> bool **)

  let leb x y =
    match compare x y with
    | Gt -> false
    | _ -> true

  (** val ltb : n -> n -> bool **)

  let ltb x y =
    match compare x y with
    | Lt -> true
    | _ -> false

  (** val log2 : n -> n **)

  let log2 = function
  | N0 -> N0
  | Npos p0 ->
    (match p0 with
     | XI p -> Npos (Coq_Pos.size p)
     | XO p -> Npos (Coq_Pos.size p)
     | XH -> N0)

  (** val pos_div_eucl : positive -> n -> n * n **)

  let rec pos_div_eucl a b =
    match a with
    | XI a' ->
      let (q, r) = pos_div_eucl a' b in
      let r' = succ_double r in
      if leb b r' then ((succ_double q), (sub r' b)) else ((double q), r')
    | XO a' ->
      let (q, r) = pos_div_eucl a' b in
      let r' = double r in
      if leb b r' then ((succ_double q), (sub r' b)) else ((double q), r')
    | XH ->
      (match b with
       | N0 -> (N0, (Npos XH))
       | Npos p -> (match p with
                    | XH -> ((Npos XH), N0)
                    | _ -> (N0, (Npos XH))))

  (** val div_eucl : n -> n -> n * n **)

  let div_eucl a b =
    match a with
    | N0 -> (N0, N0)
    | Npos na -> (match b with
                  | N0 -> (N0, a)
                  | Npos _ -> pos_div_eucl na b)

  (** val div : n -> n -> n **)

  let div a b =
    fst (div_eucl a b)

  (** val modulo : n -> n -> n **)

  let modulo a b =
    snd (div_eucl a b)

  (** val to_nat : n -> nat **)

  let to_nat = function
  | N0 -> O
  | Npos p -> Coq_Pos.to_nat p
 end

module Z =
 struct
  (** val double : z -> z **)

  let double = function
  | Z0 -> Z0
  | Zpos p -> Zpos (XO p)
  | Zneg p -> Zneg (XO p)

  (** val succ_double : z -> z **)

  let succ_double = function
  | Z0 -> Zpos XH
  | Zpos p -> Zpos (XI p)
  | Zneg p -> Zneg (Coq_Pos.pred_double p)

  (** val pred_double : z -> z **)

  let pred_double = function
  | Z0 -> Zneg XH
  | Zpos p -> Zpos (Coq_Pos.pred_double p)
  | Zneg p -> Zneg (XI p)

  (** val pos_sub : positive -> positive -> z **)

  let rec pos_sub x y =
    match x with
    | XI p ->
      (match y with
       | XI q -> double (pos_sub p q)
       | XO q -> succ_double (pos_sub p q)
       | XH -> Zpos (XO p))
    | XO p ->
      (match y with
       | XI q -> pred_double (pos_sub p q)
       | XO q -> double (pos_sub p q)
       | XH -> Zpos (Coq_Pos.pred_double p))
    | XH ->
      (match y with
       | XI q -> Zneg (XO q)
       | XO q -> Zneg (Coq_Pos.pred_double q)
       | XH -> Z0)

  (** val add : z -> z -> z **)

  let add x y =
    match x with
    | Z0 -> y
    | Zpos x' ->
      (match y with
       | Z0 -> x
       | Zpos y' -> Zpos (Coq_Pos.add x' y')
       | Zneg y' -> pos_sub x' y')
    | Zneg x' ->
      (match y with
       | Z0 -> x
       | Zpos y' -> pos_sub y' x'
       | Zneg y' -> Zneg (Coq_Pos.add x' y'))

  (** val opp : z -> z **)

  let opp = function
  | Z0 -> Z0
  | Zpos x0 -> Zneg x0
  | Zneg x0 -> Zpos x0

  (** val mul : z -> z -> z **)

  let mul x y =
    match x with
    | Z0 -> Z0
    | Zpos x' ->
      (match y with
       | Z0 -> Z0
       | Zpos y' -> Zpos (Coq_Pos.mul x' y')
       | Zneg y' -> Zneg (Coq_Pos.mul x' y'))
    | Zneg x' ->
      (match y with
       | Z0 -> Z0
       | Zpos y' -> Zneg (Coq_Pos.mul x' y')
       | Zneg y' -> Zpos (Coq_Pos.mul x' y'))

  (** val compare : z -> z -> comparison **)

  let compare x y =
    match x with
    | Z0 -> (match y with
             | Z0 -> Eq
             | Zpos _ -> Lt
             | Zneg _ -> Gt)
    | Zpos x' -> (match y with
                  | Zpos y' -> Coq_Pos.compare x' y'
                  | _ -> Gt)
    | Zneg x' ->
      (match y with
       | Zneg y' -> compOpp (Coq_Pos.compare x' y')
       | _ -> Lt)

  (** val leb : z -> z -> bool **)

  let leb x y =
    match compare x y with
    | Gt -> false
    | _ -> true

  (** val of_N : n -> z **)

  let of_N = function
  | N0 -> Z0
  | Npos p -> Zpos p
 end

type bytes = n list

(** val sp : n **)

let sp =
  Npos (XO (XO (XO (XO (XO XH)))))

(** val zero : n **)

let zero =
  Npos (XO (XO (XO (XO (XI XH)))))

(** val bytes_eqb : bytes -> bytes -> bool **)

let rec bytes_eqb a b =
  match a with
  | [] -> (match b with
           | [] -> true
           | _ :: _ -> false)
  | x :: a' ->
    (match b with
     | [] -> false
     | y :: b' -> (&&) (N.eqb x y) (bytes_eqb a' b'))

(** val rune_error : n **)

let rune_error =
  Npos (XI (XO (XI (XI (XI (XI (XI (XI (XI (XI (XI (XI (XI (XI (XI
    XH)))))))))))))))

(** val cont : n -> bool **)

let cont b =
  (&&) (N.leb (Npos (XO (XO (XO (XO (XO (XO (XO XH)))))))) b)
    (N.leb b (Npos (XI (XI (XI (XI (XI (XI (XO XH)))))))))

(** val seq_size : n -> nat **)

let seq_size b0 =
  if N.ltb b0 (Npos (XO (XI (XO (XO (XO (XO (XI XH))))))))
  then O
  else if N.leb b0 (Npos (XI (XI (XI (XI (XI (XO (XI XH))))))))
       then S (S O)
       else if N.leb b0 (Npos (XI (XI (XI (XI (XO (XI (XI XH))))))))
            then S (S (S O))
            else if N.leb b0 (Npos (XO (XO (XI (XO (XI (XI (XI XH))))))))
                 then S (S (S (S O)))
                 else O

(** val second_ok : n -> n -> bool **)

let second_ok b0 b1 =
  if N.eqb b0 (Npos (XO (XO (XO (XO (XO (XI (XI XH))))))))
  then (&&) (N.leb (Npos (XO (XO (XO (XO (XO (XI (XO XH)))))))) b1)
         (N.leb b1 (Npos (XI (XI (XI (XI (XI (XI (XO XH)))))))))
  else if N.eqb b0 (Npos (XI (XO (XI (XI (XO (XI (XI XH))))))))
       then (&&) (N.leb (Npos (XO (XO (XO (XO (XO (XO (XO XH)))))))) b1)
              (N.leb b1 (Npos (XI (XI (XI (XI (XI (XO (XO XH)))))))))
       else if N.eqb b0 (Npos (XO (XO (XO (XO (XI (XI (XI XH))))))))
            then (&&) (N.leb (Npos (XO (XO (XO (XO (XI (XO (XO XH)))))))) b1)
                   (N.leb b1 (Npos (XI (XI (XI (XI (XI (XI (XO XH)))))))))
            else if N.eqb b0 (Npos (XO (XO (XI (XO (XI (XI (XI XH))))))))
                 then (&&)
                        (N.leb (Npos (XO (XO (XO (XO (XO (XO (XO XH))))))))
                          b1)
                        (N.leb b1 (Npos (XI (XI (XI (XI (XO (XO (XO
                          XH)))))))))
                 else cont b1

(** val chunks : bytes -> (n * bytes) list **)

let rec chunks = function
| [] -> []
| b0 :: t ->
  if N.ltb b0 (Npos (XO (XO (XO (XO (XO (XO (XO XH))))))))
  then (b0, (b0 :: [])) :: (chunks t)
  else (match seq_size b0 with
        | O -> (rune_error, (b0 :: [])) :: (chunks t)
        | S n0 ->
          (match n0 with
           | O -> (rune_error, (b0 :: [])) :: (chunks t)
           | S n1 ->
             (match n1 with
              | O ->
                (match t with
                 | [] -> (rune_error, (b0 :: [])) :: (chunks t)
                 | b1 :: t1 ->
                   if second_ok b0 b1
                   then ((N.add
                           (N.mul
                             (N.sub b0 (Npos (XO (XO (XO (XO (XO (XO (XI
                               XH))))))))) (Npos (XO (XO (XO (XO (XO (XO
                             XH))))))))
                           (N.sub b1 (Npos (XO (XO (XO (XO (XO (XO (XO
                             XH)))))))))), (b0 :: (b1 :: []))) :: (chunks t1)
                   else (rune_error, (b0 :: [])) :: (chunks t))
              | S n2 ->
                (match n2 with
                 | O ->
                   (match t with
                    | [] -> (rune_error, (b0 :: [])) :: (chunks t)
                    | b1 :: l0 ->
                      (match l0 with
                       | [] -> (rune_error, (b0 :: [])) :: (chunks t)
                       | b2 :: t2 ->
                         if (&&) (second_ok b0 b1) (cont b2)
                         then ((N.add
                                 (N.add
                                   (N.mul
                                     (N.sub b0 (Npos (XO (XO (XO (XO (XO (XI
                                       (XI XH))))))))) (Npos (XO (XO (XO (XO
                                     (XO (XO (XO (XO (XO (XO (XO (XO
                                     XH))))))))))))))
                                   (N.mul
                                     (N.sub b1 (Npos (XO (XO (XO (XO (XO (XO
                                       (XO XH))))))))) (Npos (XO (XO (XO (XO
                                     (XO (XO XH)))))))))
                                 (N.sub b2 (Npos (XO (XO (XO (XO (XO (XO (XO
                                   XH)))))))))),
                                (b0 :: (b1 :: (b2 :: [])))) :: (chunks t2)
                         else (rune_error, (b0 :: [])) :: (chunks t)))
                 | S n3 ->
                   (match n3 with
                    | O ->
                      (match t with
                       | [] -> (rune_error, (b0 :: [])) :: (chunks t)
                       | b1 :: l0 ->
                         (match l0 with
                          | [] -> (rune_error, (b0 :: [])) :: (chunks t)
                          | b2 :: l1 ->
                            (match l1 with
                             | [] -> (rune_error, (b0 :: [])) :: (chunks t)
                             | b3 :: t3 ->
                               if (&&) ((&&) (second_ok b0 b1) (cont b2))
                                    (cont b3)
                               then ((N.add
                                       (N.add
                                         (N.add
                                           (N.mul
                                             (N.sub b0 (Npos (XO (XO (XO (XO
                                               (XI (XI (XI XH))))))))) (Npos
                                             (XO (XO (XO (XO (XO (XO (XO (XO
                                             (XO (XO (XO (XO (XO (XO (XO (XO
                                             (XO (XO XH))))))))))))))))))))
                                           (N.mul
                                             (N.sub b1 (Npos (XO (XO (XO (XO
                                               (XO (XO (XO XH))))))))) (Npos
                                             (XO (XO (XO (XO (XO (XO (XO (XO
                                             (XO (XO (XO (XO XH)))))))))))))))
                                         (N.mul
                                           (N.sub b2 (Npos (XO (XO (XO (XO
                                             (XO (XO (XO XH))))))))) (Npos
                                           (XO (XO (XO (XO (XO (XO XH)))))))))
                                       (N.sub b3 (Npos (XO (XO (XO (XO (XO
                                         (XO (XO XH)))))))))),
                                      (b0 :: (b1 :: (b2 :: (b3 :: []))))) :: 
                                      (chunks t3)
                               else (rune_error, (b0 :: [])) :: (chunks t))))
                    | S _ -> (rune_error, (b0 :: [])) :: (chunks t))))))

(** val runes : bytes -> n list **)

let runes l =
  map fst (chunks l)

(** val rune_count : bytes -> nat **)

let rune_count l =
  length (chunks l)

(** val encode_rune : n -> bytes **)

let encode_rune r =
  if N.ltb r (Npos (XO (XO (XO (XO (XO (XO (XO XH))))))))
  then r :: []
  else if N.ltb r (Npos (XO (XO (XO (XO (XO (XO (XO (XO (XO (XO (XO
            XH))))))))))))
       then (N.add (Npos (XO (XO (XO (XO (XO (XO (XI XH))))))))
              (N.div r (Npos (XO (XO (XO (XO (XO (XO XH))))))))) :: (
              (N.add (Npos (XO (XO (XO (XO (XO (XO (XO XH))))))))
                (N.modulo r (Npos (XO (XO (XO (XO (XO (XO XH))))))))) :: [])
       else if (&&)
                 (N.leb (Npos (XO (XO (XO (XO (XO (XO (XO (XO (XO (XO (XO (XI
                   (XI (XO (XI XH)))))))))))))))) r)
                 (N.leb r (Npos (XI (XI (XI (XI (XI (XI (XI (XI (XI (XI (XI
                   (XI (XI (XO (XI XH)))))))))))))))))
            then (Npos (XI (XI (XI (XI (XO (XI (XI XH)))))))) :: ((Npos (XI
                   (XI (XI (XI (XI (XI (XO XH)))))))) :: ((Npos (XI (XO (XI
                   (XI (XI (XI (XO XH)))))))) :: []))
            else if N.ltb r (Npos (XO (XO (XO (XO (XO (XO (XO (XO (XO (XO (XO
                      (XO (XO (XO (XO (XO XH)))))))))))))))))
                 then (N.add (Npos (XO (XO (XO (XO (XO (XI (XI XH))))))))
                        (N.div r (Npos (XO (XO (XO (XO (XO (XO (XO (XO (XO
                          (XO (XO (XO XH))))))))))))))) :: ((N.add (Npos (XO
                                                              (XO (XO (XO (XO
                                                              (XO (XO
                                                              XH))))))))
                                                              (N.modulo
                                                                (N.div r
                                                                  (Npos (XO
                                                                  (XO (XO (XO
                                                                  (XO (XO
                                                                  XH))))))))
                                                                (Npos (XO (XO
                                                                (XO (XO (XO
                                                                (XO XH))))))))) :: (
                        (N.add (Npos (XO (XO (XO (XO (XO (XO (XO XH))))))))
                          (N.modulo r (Npos (XO (XO (XO (XO (XO (XO XH))))))))) :: []))
                 else if N.ltb r (Npos (XO (XO (XO (XO (XO (XO (XO (XO (XO
                           (XO (XO (XO (XO (XO (XO (XO (XI (XO (XO (XO
                           XH)))))))))))))))))))))
                      then (N.add (Npos (XO (XO (XO (XO (XI (XI (XI
                             XH))))))))
                             (N.div r (Npos (XO (XO (XO (XO (XO (XO (XO (XO
                               (XO (XO (XO (XO (XO (XO (XO (XO (XO (XO
                               XH))))))))))))))))))))) :: ((N.add (Npos (XO
                                                             (XO (XO (XO (XO
                                                             (XO (XO
                                                             XH))))))))
                                                             (N.modulo
                                                               (N.div r (Npos
                                                                 (XO (XO (XO
                                                                 (XO (XO (XO
                                                                 (XO (XO (XO
                                                                 (XO (XO (XO
                                                                 XH))))))))))))))
                                                               (Npos (XO (XO
                                                               (XO (XO (XO
                                                               (XO XH))))))))) :: (
                             (N.add (Npos (XO (XO (XO (XO (XO (XO (XO
                               XH))))))))
                               (N.modulo
                                 (N.div r (Npos (XO (XO (XO (XO (XO (XO
                                   XH)))))))) (Npos (XO (XO (XO (XO (XO (XO
                                 XH))))))))) :: ((N.add (Npos (XO (XO (XO (XO
                                                   (XO (XO (XO XH))))))))
                                                   (N.modulo r (Npos (XO (XO
                                                     (XO (XO (XO (XO
                                                     XH))))))))) :: [])))
                      else (Npos (XI (XI (XI (XI (XO (XI (XI
                             XH)))))))) :: ((Npos (XI (XI (XI (XI (XI (XI (XO
                             XH)))))))) :: ((Npos (XI (XO (XI (XI (XI (XI (XO
                             XH)))))))) :: []))

(** val encode : n list -> bytes **)

let encode rs =
  flat_map encode_rune rs

(** val spaces : nat -> bytes **)

let spaces n0 =
  repeat sp n0

(** val zeros : nat -> bytes **)

let zeros n0 =
  repeat zero n0

(** val is_space : n -> bool **)

let is_space r =
  (||)
    ((||)
      ((||)
        ((||)
          ((||)
            ((||)
              ((||)
                ((||)
                  ((||)
                    ((||)
                      ((&&) (N.leb (Npos (XI (XO (XO XH)))) r)
                        (N.leb r (Npos (XI (XO (XI XH))))))
                      (N.eqb r (Npos (XO (XO (XO (XO (XO XH))))))))
                    (N.eqb r (Npos (XI (XO (XI (XO (XO (XO (XO XH))))))))))
                  (N.eqb r (Npos (XO (XO (XO (XO (XO (XI (XO XH))))))))))
                (N.eqb r (Npos (XO (XO (XO (XO (XO (XO (XO (XI (XO (XI (XI
                  (XO XH)))))))))))))))
              ((&&)
                (N.leb (Npos (XO (XO (XO (XO (XO (XO (XO (XO (XO (XO (XO (XO
                  (XO XH)))))))))))))) r)
                (N.leb r (Npos (XO (XI (XO (XI (XO (XO (XO (XO (XO (XO (XO
                  (XO (XO XH)))))))))))))))))
            (N.eqb r (Npos (XO (XO (XO (XI (XO (XI (XO (XO (XO (XO (XO (XO
              (XO XH))))))))))))))))
          (N.eqb r (Npos (XI (XO (XO (XI (XO (XI (XO (XO (XO (XO (XO (XO (XO
            XH))))))))))))))))
        (N.eqb r (Npos (XI (XI (XI (XI (XO (XI (XO (XO (XO (XO (XO (XO (XO
          XH))))))))))))))))
      (N.eqb r (Npos (XI (XI (XI (XI (XI (XO (XI (XO (XO (XO (XO (XO (XO
        XH))))))))))))))))
    (N.eqb r (Npos (XO (XO (XO (XO (XO (XO (XO (XO (XO (XO (XO (XO (XI
      XH)))))))))))))))

(** val drop_space : (n * bytes) list -> (n * bytes) list **)

let rec drop_space cs = match cs with
| [] -> []
| p :: rest -> let (r, _) = p in if is_space r then drop_space rest else cs

(** val trim : bytes -> bytes **)

let trim s =
  concat (map snd (rev (drop_space (rev (drop_space (chunks s))))))

(** val rune_prefix : nat -> bytes -> bytes **)

let rune_prefix w s =
  encode (firstn w (runes s))

(** val alphaField : bytes -> nat -> bytes **)

let alphaField s w =
  let n0 = rune_count s in
  if Nat.ltb w n0 then rune_prefix w s else app s (spaces (sub w n0))

(** val stringField : bytes -> nat -> bytes **)

let stringField s w =
  let n0 = rune_count s in
  if Nat.ltb w n0 then rune_prefix w s else app (zeros (sub w n0)) s

(** val digits_fuel : nat -> n -> bytes -> bytes **)

let rec digits_fuel fuel n0 acc =
  match fuel with
  | O -> acc
  | S k ->
    if N.ltb n0 (Npos (XO (XI (XO XH))))
    then (N.add (Npos (XO (XO (XO (XO (XI XH)))))) n0) :: acc
    else digits_fuel k (N.div n0 (Npos (XO (XI (XO XH)))))
           ((N.add (Npos (XO (XO (XO (XO (XI XH))))))
              (N.modulo n0 (Npos (XO (XI (XO XH)))))) :: acc)

(** val digits : n -> bytes **)

let digits n0 =
  digits_fuel (S (N.to_nat (N.log2 n0))) n0 []

(** val itoa : z -> bytes **)

let itoa = function
| Z0 -> (Npos (XO (XO (XO (XO (XI XH)))))) :: []
| Zpos p -> digits (Npos p)
| Zneg p -> (Npos (XI (XO (XI (XI (XO XH)))))) :: (digits (Npos p))

(** val numericField : z -> nat -> bytes **)

let numericField z0 w =
  let s = itoa z0 in
  let l = length s in
  if Nat.ltb w l then skipn (sub l w) s else app (zeros (sub w l)) s

(** val is_digit : n -> bool **)

let is_digit b =
  (&&) (N.leb (Npos (XO (XO (XO (XO (XI XH)))))) b)
    (N.leb b (Npos (XI (XO (XO (XI (XI XH)))))))

(** val digits_val : bytes -> z -> z **)

let rec digits_val s acc =
  match s with
  | [] -> acc
  | b :: t ->
    digits_val t
      (Z.add (Z.mul acc (Zpos (XO (XI (XO XH)))))
        (Z.of_N (N.sub b (Npos (XO (XO (XO (XO (XI XH)))))))))

(** val max_int64 : z **)

let max_int64 =
  Zpos (XI (XI (XI (XI (XI (XI (XI (XI (XI (XI (XI (XI (XI (XI (XI (XI (XI
    (XI (XI (XI (XI (XI (XI (XI (XI (XI (XI (XI (XI (XI (XI (XI (XI (XI (XI
    (XI (XI (XI (XI (XI (XI (XI (XI (XI (XI (XI (XI (XI (XI (XI (XI (XI (XI
    (XI (XI (XI (XI (XI (XI (XI (XI (XI
    XH))))))))))))))))))))))))))))))))))))))))))))))))))))))))))))))

(** val min_int64 : z **)

let min_int64 =
  Zneg (XO (XO (XO (XO (XO (XO (XO (XO (XO (XO (XO (XO (XO (XO (XO (XO (XO
    (XO (XO (XO (XO (XO (XO (XO (XO (XO (XO (XO (XO (XO (XO (XO (XO (XO (XO
    (XO (XO (XO (XO (XO (XO (XO (XO (XO (XO (XO (XO (XO (XO (XO (XO (XO (XO
    (XO (XO (XO (XO (XO (XO (XO (XO (XO (XO
    XH)))))))))))))))))))))))))))))))))))))))))))))))))))))))))))))))

(** val atoi : bytes -> z **)

let atoi s = match s with
| [] ->
  let neg = false in
  (match s with
   | [] -> Z0
   | _ :: _ ->
     if forallb is_digit s
     then let v = digits_val s Z0 in
          if neg
          then if Z.leb min_int64 (Z.opp v) then Z.opp v else min_int64
          else if Z.leb v max_int64 then v else max_int64
     else Z0)
| n0 :: t ->
  (match n0 with
   | N0 ->
     let neg = false in
     (match s with
      | [] -> Z0
      | _ :: _ ->
        if forallb is_digit s
        then let v = digits_val s Z0 in
             if neg
             then if Z.leb min_int64 (Z.opp v) then Z.opp v else min_int64
             else if Z.leb v max_int64 then v else max_int64
        else Z0)
   | Npos p ->
     (match p with
      | XI p0 ->
        (match p0 with
         | XI p1 ->
           (match p1 with
            | XO p2 ->
              (match p2 with
               | XI p3 ->
                 (match p3 with
                  | XO p4 ->
                    (match p4 with
                     | XH ->
                       let neg = false in
                       (match t with
                        | [] -> Z0
                        | _ :: _ ->
                          if forallb is_digit t
                          then let v = digits_val t Z0 in
                               if neg
                               then if Z.leb min_int64 (Z.opp v)
                                    then Z.opp v
                                    else min_int64
                               else if Z.leb v max_int64 then v else max_int64
                          else Z0)
                     | _ ->
                       let neg = false in
                       (match s with
                        | [] -> Z0
                        | _ :: _ ->
                          if forallb is_digit s
                          then let v = digits_val s Z0 in
                               if neg
                               then if Z.leb min_int64 (Z.opp v)
                                    then Z.opp v
                                    else min_int64
                               else if Z.leb v max_int64 then v else max_int64
                          else Z0))
                  | _ ->
                    let neg = false in
                    (match s with
                     | [] -> Z0
                     | _ :: _ ->
                       if forallb is_digit s
                       then let v = digits_val s Z0 in
                            if neg
                            then if Z.leb min_int64 (Z.opp v)
                                 then Z.opp v
                                 else min_int64
                            else if Z.leb v max_int64 then v else max_int64
                       else Z0))
               | _ ->
                 let neg = false in
                 (match s with
                  | [] -> Z0
                  | _ :: _ ->
                    if forallb is_digit s
                    then let v = digits_val s Z0 in
                         if neg
                         then if Z.leb min_int64 (Z.opp v)
                              then Z.opp v
                              else min_int64
                         else if Z.leb v max_int64 then v else max_int64
                    else Z0))
            | _ ->
              let neg = false in
              (match s with
               | [] -> Z0
               | _ :: _ ->
                 if forallb is_digit s
                 then let v = digits_val s Z0 in
                      if neg
                      then if Z.leb min_int64 (Z.opp v)
                           then Z.opp v
                           else min_int64
                      else if Z.leb v max_int64 then v else max_int64
                 else Z0))
         | XO p1 ->
           (match p1 with
            | XI p2 ->
              (match p2 with
               | XI p3 ->
                 (match p3 with
                  | XO p4 ->
                    (match p4 with
                     | XH ->
                       let neg = true in
                       (match t with
                        | [] -> Z0
                        | _ :: _ ->
                          if forallb is_digit t
                          then let v = digits_val t Z0 in
                               if neg
                               then if Z.leb min_int64 (Z.opp v)
                                    then Z.opp v
                                    else min_int64
                               else if Z.leb v max_int64 then v else max_int64
                          else Z0)
                     | _ ->
                       let neg = false in
                       (match s with
                        | [] -> Z0
                        | _ :: _ ->
                          if forallb is_digit s
                          then let v = digits_val s Z0 in
                               if neg
                               then if Z.leb min_int64 (Z.opp v)
                                    then Z.opp v
                                    else min_int64
                               else if Z.leb v max_int64 then v else max_int64
                          else Z0))
                  | _ ->
                    let neg = false in
                    (match s with
                     | [] -> Z0
                     | _ :: _ ->
                       if forallb is_digit s
                       then let v = digits_val s Z0 in
                            if neg
                            then if Z.leb min_int64 (Z.opp v)
                                 then Z.opp v
                                 else min_int64
                            else if Z.leb v max_int64 then v else max_int64
                       else Z0))
               | _ ->
                 let neg = false in
                 (match s with
                  | [] -> Z0
                  | _ :: _ ->
                    if forallb is_digit s
                    then let v = digits_val s Z0 in
                         if neg
                         then if Z.leb min_int64 (Z.opp v)
                              then Z.opp v
                              else min_int64
                         else if Z.leb v max_int64 then v else max_int64
                    else Z0))
            | _ ->
              let neg = false in
              (match s with
               | [] -> Z0
               | _ :: _ ->
                 if forallb is_digit s
                 then let v = digits_val s Z0 in
                      if neg
                      then if Z.leb min_int64 (Z.opp v)
                           then Z.opp v
                           else min_int64
                      else if Z.leb v max_int64 then v else max_int64
                 else Z0))
         | XH ->
           let neg = false in
           (match s with
            | [] -> Z0
            | _ :: _ ->
              if forallb is_digit s
              then let v = digits_val s Z0 in
                   if neg
                   then if Z.leb min_int64 (Z.opp v)
                        then Z.opp v
                        else min_int64
                   else if Z.leb v max_int64 then v else max_int64
              else Z0))
      | _ ->
        let neg = false in
        (match s with
         | [] -> Z0
         | _ :: _ ->
           if forallb is_digit s
           then let v = digits_val s Z0 in
                if neg
                then if Z.leb min_int64 (Z.opp v) then Z.opp v else min_int64
                else if Z.leb v max_int64 then v else max_int64
           else Z0)))

(** val parseNumField : bytes -> z **)

let parseNumField s =
  atoi (trim s)

type 'a res =
| Ok of 'a
| Err
| Panic

(** val bind : 'a1 res -> ('a1 -> 'a2 res) -> 'a2 res **)

let bind r f =
  match r with
  | Ok a -> f a
  | Err -> Err
  | Panic -> Panic

(** val go_slice : 'a1 list -> nat option -> nat option -> 'a1 list res **)

let go_slice l lo hi =
  let h = match hi with
          | Some h -> h
          | None -> length l in
  let w = match lo with
          | Some n0 -> n0
          | None -> O in
  if (&&) (Nat.leb w h) (Nat.leb h (length l))
  then Ok (firstn (sub h w) (skipn w l))
  else Panic

(** val go_index : 'a1 list -> nat -> 'a1 res **)

let go_index l i =
  match nth_error l i with
  | Some a -> Ok a
  | None -> Panic

(** val sl : 'a1 list -> nat -> nat -> 'a1 list res **)

let sl l lo hi =
  go_slice l (Some lo) (Some hi)

(** val b_sp : bytes **)

let b_sp =
  (Npos (XO (XO (XO (XO (XO XH)))))) :: []

(** val is_empty : bytes -> bool **)

let is_empty = function
| [] -> true
| _ :: _ -> false

(** val process_control : bytes -> bytes res **)

let process_control name =
  if Nat.ltb (length name) (S (S (S (S (S (S O))))))
  then Ok []
  else bind (sl name O (S (S (S (S (S (S O))))))) (fun t -> Ok (trim t))

(** val item_research : bytes -> bytes res **)

let item_research name =
  if Nat.ltb (length name) (S (S (S (S (S (S (S (S (S (S (S (S (S (S (S (S (S
       (S (S (S (S (S O))))))))))))))))))))))
  then Ok []
  else bind
         (sl name (S (S (S (S (S (S O)))))) (S (S (S (S (S (S (S (S (S (S (S
           (S (S (S (S (S (S (S (S (S (S (S O)))))))))))))))))))))))
         (fun t -> Ok (trim t))

(** val pop_check_serial : bytes -> bytes res **)

let pop_check_serial idn =
  bind (sl idn O (S (S (S (S (S (S (S (S (S O)))))))))) (fun t -> Ok (trim t))

(** val pop_terminal_city : bytes -> bytes res **)

let pop_terminal_city idn =
  bind
    (sl idn (S (S (S (S (S (S (S (S (S O))))))))) (S (S (S (S (S (S (S (S (S
      (S (S (S (S O)))))))))))))) (fun t -> Ok (trim t))

(** val pop_terminal_state : bytes -> bytes res **)

let pop_terminal_state idn =
  bind
    (sl idn (S (S (S (S (S (S (S (S (S (S (S (S (S O))))))))))))) (S (S (S (S
      (S (S (S (S (S (S (S (S (S (S (S O)))))))))))))))) (fun t -> Ok
    (trim t))

(** val shr_card_exp : bytes -> bytes res **)

let shr_card_exp idn =
  if Nat.ltb (length idn) (S (S (S (S O))))
  then Ok (alphaField (trim idn) (S (S (S (S O)))))
  else bind (sl idn O (S (S (S (S O))))) (fun t -> Ok
         (alphaField (trim t) (S (S (S (S O))))))

(** val shr_doc_ref : bytes -> bytes res **)

let shr_doc_ref idn =
  bind
    (sl idn (S (S (S (S O)))) (S (S (S (S (S (S (S (S (S (S (S (S (S (S (S
      O)))))))))))))))) (fun t -> Ok
    (stringField t (S (S (S (S (S (S (S (S (S (S (S O)))))))))))))

(** val catx_addenda_records : bytes -> bytes res **)

let catx_addenda_records name =
  if Nat.ltb (rune_count name) (S (S (S (S (S O)))))
  then Ok name
  else bind (go_slice name None (Some (S (S (S (S O)))))) (fun t -> Ok
         (trim t))

(** val catx_receiving : bytes -> bytes res **)

let catx_receiving name =
  if Nat.ltb (rune_count name) (S (S (S (S O))))
  then Ok []
  else go_slice name (Some (S (S (S (S O))))) None

(** val catx_reserved : bytes -> bytes res **)

let catx_reserved name =
  sl name (S (S (S (S (S (S (S (S (S (S (S (S (S (S (S (S (S (S (S (S
    O)))))))))))))))))))) (S (S (S (S (S (S (S (S (S (S (S (S (S (S (S (S (S
    (S (S (S (S (S O))))))))))))))))))))))

(** val set_catx_addenda_records : z -> bytes -> bytes res **)

let set_catx_addenda_records i name =
  let count = numericField i (S (S (S (S O)))) in
  if Nat.ltb (S (S (S (S O)))) (rune_count name)
  then bind (go_slice name (Some (S (S (S (S O))))) None) (fun t -> Ok
         (app count t))
  else Ok
         (app count
           (app
             (alphaField b_sp (S (S (S (S (S (S (S (S (S (S (S (S (S (S (S (S
               O))))))))))))))))) ((Npos (XO (XO (XO (XO (XO
             XH)))))) :: ((Npos (XO (XO (XO (XO (XO XH)))))) :: []))))

(** val set_catx_receiving : bytes -> bytes -> bytes res **)

let set_catx_receiving s name =
  if Nat.ltb (S (S (S (S O)))) (rune_count name)
  then bind (go_slice name None (Some (S (S (S (S O)))))) (fun c -> Ok
         (app c
           (app
             (alphaField s (S (S (S (S (S (S (S (S (S (S (S (S (S (S (S (S
               O))))))))))))))))) ((Npos (XO (XO (XO (XO (XO
             XH)))))) :: ((Npos (XO (XO (XO (XO (XO XH)))))) :: [])))))
  else Ok
         (app ((Npos (XO (XO (XO (XO (XI XH)))))) :: ((Npos (XO (XO (XO (XO
           (XI XH)))))) :: ((Npos (XO (XO (XO (XO (XI XH)))))) :: ((Npos (XO
           (XO (XO (XO (XI XH)))))) :: []))))
           (app
             (alphaField s (S (S (S (S (S (S (S (S (S (S (S (S (S (S (S (S
               O))))))))))))))))) ((Npos (XO (XO (XO (XO (XO
             XH)))))) :: ((Npos (XO (XO (XO (XO (XO XH)))))) :: []))))

(** val set_rdfi : bytes -> (bytes * bytes) res **)

let set_rdfi rdfi =
  let s = stringField rdfi (S (S (S (S (S (S (S (S (S O))))))))) in
  bind (go_slice s None (Some (S (S (S (S (S (S (S (S O)))))))))) (fun a ->
    bind
      (sl s (S (S (S (S (S (S (S (S O)))))))) (S (S (S (S (S (S (S (S (S
        O)))))))))) (fun b -> Ok ((trim a), (trim b))))

(** val iat_payment_amount : bytes -> z res **)

let iat_payment_amount info =
  bind (sl info O (S (S (S (S (S (S (S (S (S (S O))))))))))) (fun t -> Ok
    (parseNumField t))

(** val iat_addenda_information : bytes -> bytes res **)

let iat_addenda_information info =
  bind
    (sl info (S (S (S (S (S (S (S (S (S O))))))))) (S (S (S (S (S (S (S (S (S
      (S (S (S (S (S (S (S (S (S (S (S (S (S (S (S (S (S (S (S (S (S (S (S (S
      (S (S (S (S (S (S (S (S (S (S (S
      O))))))))))))))))))))))))))))))))))))))))))))) (fun t -> Ok
    (alphaField t (S (S (S (S (S (S (S (S (S (S (S (S (S (S (S (S (S (S (S (S
      (S (S (S (S (S (S (S (S (S (S (S (S (S (S
      O))))))))))))))))))))))))))))))))))))

(** val a99_return_trace : bytes -> bytes res **)

let a99_return_trace info =
  sl info (S (S (S O))) (S (S (S (S (S (S (S (S (S (S (S (S (S (S (S (S (S (S
    O))))))))))))))))))

(** val a99_settlement_date : bytes -> bytes res **)

let a99_settlement_date info =
  sl info (S (S (S (S (S (S (S (S (S (S (S (S (S (S (S (S (S (S
    O)))))))))))))))))) (S (S (S (S (S (S (S (S (S (S (S (S (S (S (S (S (S (S
    (S (S (S O)))))))))))))))))))))

(** val a99_reason_code : bytes -> bytes res **)

let a99_reason_code info =
  bind
    (sl info (S (S (S (S (S (S (S (S (S (S (S (S (S (S (S (S (S (S (S (S (S
      O))))))))))))))))))))) (S (S (S (S (S (S (S (S (S (S (S (S (S (S (S (S
      (S (S (S (S (S (S (S O)))))))))))))))))))))))) (fun t -> Ok ((Npos (XO
    (XI (XO (XO (XI (XO XH))))))) :: t))

(** val a99_extra : bytes -> bytes res **)

let a99_extra info =
  go_slice info (Some (S (S (S (S (S (S (S (S (S (S (S (S (S (S (S (S (S (S
    (S (S (S (S (S O)))))))))))))))))))))))) None

(** val aba8 : bytes -> bytes res **)

let aba8 rtn =
  let n0 = rune_count rtn in
  if Nat.ltb (S (S (S (S (S (S (S (S (S (S O)))))))))) n0
  then Ok []
  else if Nat.eqb n0 (S (S (S (S (S (S (S (S (S (S O))))))))))
       then bind (go_index rtn O) (fun c ->
              if (||) (N.eqb c (Npos (XO (XO (XO (XO (XI XH)))))))
                   (N.eqb c (Npos (XI (XO (XO (XO (XI XH)))))))
              then sl rtn (S O) (S (S (S (S (S (S (S (S (S O)))))))))
              else Ok [])
       else if (&&) (negb (Nat.eqb n0 (S (S (S (S (S (S (S (S O))))))))))
                 (negb (Nat.eqb n0 (S (S (S (S (S (S (S (S (S O)))))))))))
            then Ok []
            else go_slice rtn None (Some (S (S (S (S (S (S (S (S O)))))))))

(** val first : nat -> bytes -> bytes res **)

let first size0 data =
  if Nat.ltb (rune_count data) size0
  then Ok (trim data)
  else bind (go_slice data None (Some size0)) (fun t -> Ok (trim t))

(** val trc_entry_check : bytes -> unit res **)

let trc_entry_check name =
  bind (process_control name) (fun p ->
    if is_empty p
    then Err
    else bind (item_research name) (fun r ->
           if is_empty r then Err else Ok ()))

(** val shr_entry_check : bytes -> (bytes * bytes) res **)

let shr_entry_check idn =
  bind (shr_card_exp idn) (fun e1 ->
    bind (sl e1 O (S (S O))) (fun m ->
      bind (shr_card_exp idn) (fun e2 ->
        bind (sl e2 (S (S O)) (S (S (S (S O))))) (fun y -> Ok ((trim m),
          (trim y))))))

(** val record_length : nat **)

let record_length =
  S (S (S (S (S (S (S (S (S (S (S (S (S (S (S (S (S (S (S (S (S (S (S (S (S
    (S (S (S (S (S (S (S (S (S (S (S (S (S (S (S (S (S (S (S (S (S (S (S (S
    (S (S (S (S (S (S (S (S (S (S (S (S (S (S (S (S (S (S (S (S (S (S (S (S
    (S (S (S (S (S (S (S (S (S (S (S (S (S (S (S (S (S (S (S (S (S
    O)))))))))))))))))))))))))))))))))))))))))))))))))))))))))))))))))))))))))))))))))))))))))))))

(** val ends_with_space : bytes -> bool **)

let rec ends_with_space = function
| [] -> false
| b :: t ->
  (match t with
   | [] -> N.eqb b (Npos (XO (XO (XO (XO (XO XH))))))
   | _ :: _ -> ends_with_space t)

(** val trim_suffix_space : bytes -> bytes **)

let trim_suffix_space s =
  if ends_with_space s then removelast s else s

(** val trim_long : bytes -> bytes res **)

let trim_long s =
  bind (go_slice s None (Some record_length)) (fun t -> Ok
    (trim_suffix_space t))

(** val right_pad : bytes -> bytes res **)

let right_pad s =
  if Nat.ltb record_length (length s)
  then Err
  else Ok (app s (spaces (sub record_length (length s))))

type rec_kind =
| KFileHeader
| KBatchHeaderIAT
| KBatchHeader
| KEntryDetail
| KAddenda of bytes * bytes
| KBatchControl
| KFileControl
| KPadding
| KUnknown

(** val iat_code : bytes **)

let iat_code =
  (Npos (XI (XO (XO (XI (XO (XO XH))))))) :: ((Npos (XI (XO (XO (XO (XO (XO
    XH))))))) :: ((Npos (XO (XO (XI (XO (XI (XO XH))))))) :: []))

(** val iatcor_code : bytes **)

let iatcor_code =
  (Npos (XI (XO (XO (XI (XO (XO XH))))))) :: ((Npos (XI (XO (XO (XO (XO (XO
    XH))))))) :: ((Npos (XO (XO (XI (XO (XI (XO XH))))))) :: ((Npos (XI (XI
    (XO (XO (XO (XO XH))))))) :: ((Npos (XI (XI (XI (XI (XO (XO
    XH))))))) :: ((Npos (XO (XI (XO (XO (XI (XO XH))))))) :: [])))))

(** val parse_line : bytes -> rec_kind res **)

let parse_line line =
  bind (go_slice line None (Some (S O))) (fun t ->
    match t with
    | [] -> bind (go_slice line None (Some (S O))) (fun _ -> Ok KUnknown)
    | n0 :: l ->
      (match n0 with
       | N0 -> bind (go_slice line None (Some (S O))) (fun _ -> Ok KUnknown)
       | Npos p ->
         (match p with
          | XI p0 ->
            (match p0 with
             | XI p1 ->
               (match p1 with
                | XI p2 ->
                  (match p2 with
                   | XO p3 ->
                     (match p3 with
                      | XI p4 ->
                        (match p4 with
                         | XH ->
                           (match l with
                            | [] ->
                              bind (sl line (S O) (S (S (S O)))) (fun tc ->
                                bind
                                  (sl line (S (S (S O))) (S (S (S (S (S (S
                                    O))))))) (fun cc -> Ok (KAddenda (tc,
                                  cc))))
                            | _ :: _ ->
                              bind (go_slice line None (Some (S O)))
                                (fun _ -> Ok KUnknown))
                         | _ ->
                           bind (go_slice line None (Some (S O))) (fun _ ->
                             Ok KUnknown))
                      | _ ->
                        bind (go_slice line None (Some (S O))) (fun _ -> Ok
                          KUnknown))
                   | _ ->
                     bind (go_slice line None (Some (S O))) (fun _ -> Ok
                       KUnknown))
                | _ ->
                  bind (go_slice line None (Some (S O))) (fun _ -> Ok
                    KUnknown))
             | XO p1 ->
               (match p1 with
                | XI p2 ->
                  (match p2 with
                   | XO p3 ->
                     (match p3 with
                      | XI p4 ->
                        (match p4 with
                         | XH ->
                           (match l with
                            | [] ->
                              bind
                                (sl line (S (S (S (S (S (S (S (S (S (S (S (S
                                  (S (S (S (S (S (S (S (S (S (S (S (S (S (S
                                  (S (S (S (S (S (S (S (S (S (S (S (S (S (S
                                  (S (S (S (S (S (S (S (S (S (S
                                  O))))))))))))))))))))))))))))))))))))))))))))))))))
                                  (S (S (S (S (S (S (S (S (S (S (S (S (S (S
                                  (S (S (S (S (S (S (S (S (S (S (S (S (S (S
                                  (S (S (S (S (S (S (S (S (S (S (S (S (S (S
                                  (S (S (S (S (S (S (S (S (S (S (S
                                  O))))))))))))))))))))))))))))))))))))))))))))))))))))))
                                (fun s1 ->
                                bind
                                  (sl line (S (S (S (S O)))) (S (S (S (S (S
                                    (S (S (S (S (S (S (S (S (S (S (S (S (S (S
                                    (S O))))))))))))))))))))) (fun s2 -> Ok
                                  (if (||) (bytes_eqb s1 iat_code)
                                        (bytes_eqb (trim s2) iatcor_code)
                                   then KBatchHeaderIAT
                                   else KBatchHeader)))
                            | _ :: _ ->
                              bind (go_slice line None (Some (S O)))
                                (fun _ -> Ok KUnknown))
                         | _ ->
                           bind (go_slice line None (Some (S O))) (fun _ ->
                             Ok KUnknown))
                      | _ ->
                        bind (go_slice line None (Some (S O))) (fun _ -> Ok
                          KUnknown))
                   | _ ->
                     bind (go_slice line None (Some (S O))) (fun _ -> Ok
                       KUnknown))
                | XO p2 ->
                  (match p2 with
                   | XI p3 ->
                     (match p3 with
                      | XI p4 ->
                        (match p4 with
                         | XH ->
                           (match l with
                            | [] ->
                              bind (go_slice line None (Some (S (S O))))
                                (fun p5 -> Ok
                                (if bytes_eqb p5 ((Npos (XI (XO (XO (XI (XI
                                      XH)))))) :: ((Npos (XI (XO (XO (XI (XI
                                      XH)))))) :: []))
                                 then KPadding
                                 else KFileControl))
                            | _ :: _ ->
                              bind (go_slice line None (Some (S O)))
                                (fun _ -> Ok KUnknown))
                         | _ ->
                           bind (go_slice line None (Some (S O))) (fun _ ->
                             Ok KUnknown))
                      | _ ->
                        bind (go_slice line None (Some (S O))) (fun _ -> Ok
                          KUnknown))
                   | XO p3 ->
                     (match p3 with
                      | XI p4 ->
                        (match p4 with
                         | XH ->
                           (match l with
                            | [] -> Ok KFileHeader
                            | _ :: _ ->
                              bind (go_slice line None (Some (S O)))
                                (fun _ -> Ok KUnknown))
                         | _ ->
                           bind (go_slice line None (Some (S O))) (fun _ ->
                             Ok KUnknown))
                      | _ ->
                        bind (go_slice line None (Some (S O))) (fun _ -> Ok
                          KUnknown))
                   | XH ->
                     bind (go_slice line None (Some (S O))) (fun _ -> Ok
                       KUnknown))
                | XH ->
                  bind (go_slice line None (Some (S O))) (fun _ -> Ok
                    KUnknown))
             | XH ->
               bind (go_slice line None (Some (S O))) (fun _ -> Ok KUnknown))
          | XO p0 ->
            (match p0 with
             | XI p1 ->
               (match p1 with
                | XI p2 ->
                  (match p2 with
                   | XO p3 ->
                     (match p3 with
                      | XI p4 ->
                        (match p4 with
                         | XH ->
                           (match l with
                            | [] -> Ok KEntryDetail
                            | _ :: _ ->
                              bind (go_slice line None (Some (S O)))
                                (fun _ -> Ok KUnknown))
                         | _ ->
                           bind (go_slice line None (Some (S O))) (fun _ ->
                             Ok KUnknown))
                      | _ ->
                        bind (go_slice line None (Some (S O))) (fun _ -> Ok
                          KUnknown))
                   | _ ->
                     bind (go_slice line None (Some (S O))) (fun _ -> Ok
                       KUnknown))
                | _ ->
                  bind (go_slice line None (Some (S O))) (fun _ -> Ok
                    KUnknown))
             | XO p1 ->
               (match p1 with
                | XO p2 ->
                  (match p2 with
                   | XI p3 ->
                     (match p3 with
                      | XI p4 ->
                        (match p4 with
                         | XH ->
                           (match l with
                            | [] -> Ok KBatchControl
                            | _ :: _ ->
                              bind (go_slice line None (Some (S O)))
                                (fun _ -> Ok KUnknown))
                         | _ ->
                           bind (go_slice line None (Some (S O))) (fun _ ->
                             Ok KUnknown))
                      | _ ->
                        bind (go_slice line None (Some (S O))) (fun _ -> Ok
                          KUnknown))
                   | _ ->
                     bind (go_slice line None (Some (S O))) (fun _ -> Ok
                       KUnknown))
                | _ ->
                  bind (go_slice line None (Some (S O))) (fun _ -> Ok
                    KUnknown))
             | XH ->
               bind (go_slice line None (Some (S O))) (fun _ -> Ok KUnknown))
          | XH ->
            bind (go_slice line None (Some (S O))) (fun _ -> Ok KUnknown))))

(** val fixed_width :
    (n * bytes) list -> nat -> bytes -> (bytes * rec_kind) list ->
    (bytes * rec_kind) list res **)

let rec fixed_width cs i rec0 acc =
  match cs with
  | [] -> Ok (rev acc)
  | p :: rest ->
    let (r, bs) = p in
    let rec' = app rec0 (encode_rune r) in
    if (&&) (Nat.ltb O i) (Nat.eqb (Nat.modulo (add i (S O)) record_length) O)
    then bind (parse_line rec') (fun k ->
           fixed_width rest (add i (length bs)) [] ((rec', k) :: acc))
    else fixed_width rest (add i (length bs)) rec' acc

(** val read_line : bool -> bytes -> (bytes * rec_kind) list res **)

let read_line first0 line =
  let n0 = rune_count line in
  if (&&) first0 (Nat.ltb record_length n0)
  then if negb (Nat.eqb (Nat.modulo n0 record_length) O)
       then Err
       else fixed_width (chunks line) O [] []
  else if negb (Nat.eqb n0 record_length)
       then bind
              (if Nat.ltb record_length n0 then trim_long line else Ok line)
              (fun l1 ->
              bind (right_pad l1) (fun l2 ->
                bind (parse_line l2) (fun k -> Ok ((l2, k) :: []))))
       else bind (parse_line line) (fun k -> Ok ((line, k) :: []))


(** val negb : bool -> bool **)

let negb = function
| true -> false
| false -> true

type nat =
| O
| S of nat

(** val fst : ('a1 * 'a2) -> 'a1 **)

let fst = function
| (x, _) -> x

(** val snd : ('a1 * 'a2) -> 'a2 **)

let snd = function
| (_, y) -> y

(** val length : 'a1 list -> nat **)

let rec length = function
| [] -> O
| _ :: l' -> S (length l')

(** val app : 'a1 list -> 'a1 list -> 'a1 list **)

let rec app l m =
  match l with
  | [] -> m
  | a :: l1 -> a :: (app l1 m)

module Nat =
 struct
  (** val eqb : nat -> nat -> bool **)

  let rec eqb n0 m =
    match n0 with
    | O -> (match m with
            | O -> true
            | S _ -> false)
    | S n' -> (match m with
               | O -> false
               | S m' -> eqb n' m')

  (** val leb : nat -> nat -> bool **)

  let rec leb n0 m =
    match n0 with
    | O -> true
    | S n' -> (match m with
               | O -> false
               | S m' -> leb n' m')

  (** val ltb : nat -> nat -> bool **)

  let ltb n0 m =
    leb (S n0) m

  (** val max : nat -> nat -> nat **)

  let rec max n0 m =
    match n0 with
    | O -> m
    | S n' -> (match m with
               | O -> n0
               | S m' -> S (max n' m'))

  (** val eq_dec : nat -> nat -> bool **)

  let rec eq_dec n0 m =
    match n0 with
    | O -> (match m with
            | O -> true
            | S _ -> false)
    | S n1 -> (match m with
               | O -> false
               | S n2 -> eq_dec n1 n2)
 end

(** val in_dec : ('a1 -> 'a1 -> bool) -> 'a1 -> 'a1 list -> bool **)

let rec in_dec h a = function
| [] -> false
| y :: l0 -> let s = h y a in if s then true else in_dec h a l0

(** val nth : nat -> 'a1 list -> 'a1 -> 'a1 **)

let rec nth n0 l default =
  match n0 with
  | O -> (match l with
          | [] -> default
          | x :: _ -> x)
  | S m -> (match l with
            | [] -> default
            | _ :: t -> nth m t default)

(** val remove : ('a1 -> 'a1 -> bool) -> 'a1 -> 'a1 list -> 'a1 list **)

let rec remove eq_dec0 x = function
| [] -> []
| y :: tl ->
  if eq_dec0 x y then remove eq_dec0 x tl else y :: (remove eq_dec0 x tl)

(** val fold_left : ('a1 -> 'a2 -> 'a1) -> 'a2 list -> 'a1 -> 'a1 **)

let rec fold_left f l a0 =
  match l with
  | [] -> a0
  | b :: t -> fold_left f t (f a0 b)

(** val firstn : nat -> 'a1 list -> 'a1 list **)

let rec firstn n0 l =
  match n0 with
  | O -> []
  | S n1 -> (match l with
             | [] -> []
             | a :: l0 -> a :: (firstn n1 l0))

(** val skipn : nat -> 'a1 list -> 'a1 list **)

let rec skipn n0 l =
  match n0 with
  | O -> l
  | S n1 -> (match l with
             | [] -> []
             | _ :: l0 -> skipn n1 l0)

(** val seq : nat -> nat -> nat list **)

let rec seq start = function
| O -> []
| S len0 -> start :: (seq (S start) len0)

type positive =
| XI of positive
| XO of positive
| XH

type n =
| N0
| Npos of positive

type buf = n list

type reg = nat

type bid = nat

type tid = nat

(** val upd : (nat -> 'a1) -> nat -> 'a1 -> nat -> 'a1 **)

let upd f k v k' =
  if Nat.eqb k' k then v else f k'

(** val inb : nat -> nat list -> bool **)

let inb r l =
  if in_dec Nat.eq_dec r l then true else false

(** val rm : nat -> nat list -> nat list **)

let rm r l =
  remove Nat.eq_dec r l

type ('loc, 'glob) prog =
| PDone
| PGet of reg * ('loc, 'glob) prog
| PWrite of reg * ('loc -> buf -> buf) * ('loc, 'glob) prog
| PRead of reg * ('loc -> buf -> 'loc) * ('loc, 'glob) prog
| PReset of reg * ('loc, 'glob) prog
| PPut of reg * ('loc, 'glob) prog
| PLocal of ('loc -> 'loc) * ('loc, 'glob) prog
| PGRead of ('loc -> 'glob -> 'loc) * ('loc, 'glob) prog
| PGWrite of ('loc -> 'glob -> 'glob) * ('loc, 'glob) prog
| PIf of ('loc -> bool) * ('loc, 'glob) prog * ('loc, 'glob) prog

type ('loc, 'glob) sst = { spc : ('loc, 'glob) prog; sloc : 'loc;
                           sbufs : (reg -> buf); sglob : 'glob }

(** val solo_step : ('a1, 'a2) sst -> ('a1, 'a2) sst **)

let solo_step s =
  match s.spc with
  | PDone -> s
  | PGet (r, k) ->
    { spc = k; sloc = s.sloc; sbufs = (upd s.sbufs r []); sglob = s.sglob }
  | PWrite (r, f, k) ->
    { spc = k; sloc = s.sloc; sbufs = (upd s.sbufs r (f s.sloc (s.sbufs r)));
      sglob = s.sglob }
  | PRead (r, g, k) ->
    { spc = k; sloc = (g s.sloc (s.sbufs r)); sbufs = s.sbufs; sglob =
      s.sglob }
  | PReset (r, k) ->
    { spc = k; sloc = s.sloc; sbufs = (upd s.sbufs r []); sglob = s.sglob }
  | PPut (_, k) ->
    { spc = k; sloc = s.sloc; sbufs = s.sbufs; sglob = s.sglob }
  | PLocal (h, k) ->
    { spc = k; sloc = (h s.sloc); sbufs = s.sbufs; sglob = s.sglob }
  | PGRead (g, k) ->
    { spc = k; sloc = (g s.sloc s.sglob); sbufs = s.sbufs; sglob = s.sglob }
  | PGWrite (w, k) ->
    { spc = k; sloc = s.sloc; sbufs = s.sbufs; sglob = (w s.sloc s.sglob) }
  | PIf (c, k1, k2) ->
    { spc = (if c s.sloc then k1 else k2); sloc = s.sloc; sbufs = s.sbufs;
      sglob = s.sglob }

(** val solo_run : nat -> ('a1, 'a2) sst -> ('a1, 'a2) sst **)

let rec solo_run n0 s =
  match n0 with
  | O -> s
  | S n' -> solo_run n' (solo_step s)

(** val depth : ('a1, 'a2) prog -> nat **)

let rec depth = function
| PDone -> O
| PGet (_, k) -> S (depth k)
| PWrite (_, _, k) -> S (depth k)
| PRead (_, _, k) -> S (depth k)
| PReset (_, k) -> S (depth k)
| PPut (_, k) -> S (depth k)
| PLocal (_, k) -> S (depth k)
| PGRead (_, k) -> S (depth k)
| PGWrite (_, k) -> S (depth k)
| PIf (_, k1, k2) -> S (Nat.max (depth k1) (depth k2))

(** val sinit : ('a1, 'a2) prog -> 'a1 -> 'a2 -> ('a1, 'a2) sst **)

let sinit p l g =
  { spc = p; sloc = l; sbufs = (fun _ -> []); sglob = g }

(** val solo_final : ('a1, 'a2) prog -> 'a1 -> 'a2 -> ('a1, 'a2) sst **)

let solo_final p l g =
  solo_run (depth p) (sinit p l g)

type ('loc, 'glob) tst = { pc : ('loc, 'glob) prog; loc : 'loc;
                           regs : (reg -> bid option) }

type ('loc, 'glob) gst = { heap : (bid -> buf); next : bid; pool : bid list;
                           glob : 'glob; th : (tid -> ('loc, 'glob) tst) }

(** val set_th : ('a1, 'a2) gst -> tid -> ('a1, 'a2) tst -> ('a1, 'a2) gst **)

let set_th g t s =
  { heap = g.heap; next = g.next; pool = g.pool; glob = g.glob; th =
    (upd g.th t s) }

(** val gstep : ('a1, 'a2) gst -> tid -> nat option -> ('a1, 'a2) gst **)

let gstep g t c =
  let s = g.th t in
  (match s.pc with
   | PDone -> g
   | PGet (r, k) ->
     (match c with
      | Some i ->
        if Nat.ltb i (length g.pool)
        then let b = nth i g.pool O in
             { heap = g.heap; next = g.next; pool =
             (app (firstn i g.pool) (skipn (S i) g.pool)); glob = g.glob;
             th =
             (upd g.th t { pc = k; loc = s.loc; regs =
               (upd s.regs r (Some b)) }) }
        else { heap = (upd g.heap g.next []); next = (S g.next); pool =
               g.pool; glob = g.glob; th =
               (upd g.th t { pc = k; loc = s.loc; regs =
                 (upd s.regs r (Some g.next)) }) }
      | None ->
        { heap = (upd g.heap g.next []); next = (S g.next); pool = g.pool;
          glob = g.glob; th =
          (upd g.th t { pc = k; loc = s.loc; regs =
            (upd s.regs r (Some g.next)) }) })
   | PWrite (r, f, k) ->
     (match s.regs r with
      | Some b ->
        { heap = (upd g.heap b (f s.loc (g.heap b))); next = g.next; pool =
          g.pool; glob = g.glob; th =
          (upd g.th t { pc = k; loc = s.loc; regs = s.regs }) }
      | None -> set_th g t { pc = k; loc = s.loc; regs = s.regs })
   | PRead (r, gf, k) ->
     (match s.regs r with
      | Some b ->
        set_th g t { pc = k; loc = (gf s.loc (g.heap b)); regs = s.regs }
      | None -> set_th g t { pc = k; loc = (gf s.loc []); regs = s.regs })
   | PReset (r, k) ->
     (match s.regs r with
      | Some b ->
        { heap = (upd g.heap b []); next = g.next; pool = g.pool; glob =
          g.glob; th = (upd g.th t { pc = k; loc = s.loc; regs = s.regs }) }
      | None -> set_th g t { pc = k; loc = s.loc; regs = s.regs })
   | PPut (r, k) ->
     (match s.regs r with
      | Some b ->
        { heap = g.heap; next = g.next; pool = (b :: g.pool); glob = g.glob;
          th = (upd g.th t { pc = k; loc = s.loc; regs = s.regs }) }
      | None -> set_th g t { pc = k; loc = s.loc; regs = s.regs })
   | PLocal (h, k) -> set_th g t { pc = k; loc = (h s.loc); regs = s.regs }
   | PGRead (gf, k) ->
     set_th g t { pc = k; loc = (gf s.loc g.glob); regs = s.regs }
   | PGWrite (w, k) ->
     { heap = g.heap; next = g.next; pool = g.pool; glob = (w s.loc g.glob);
       th = (upd g.th t { pc = k; loc = s.loc; regs = s.regs }) }
   | PIf (c', k1, k2) ->
     set_th g t { pc = (if c' s.loc then k1 else k2); loc = s.loc; regs =
       s.regs })

type sched = (tid * nat option) list

(** val run : sched -> ('a1, 'a2) gst -> ('a1, 'a2) gst **)

let run sc g =
  fold_left (fun g0 x -> gstep g0 (fst x) (snd x)) sc g

(** val ginit :
    (tid -> ('a1, 'a2) prog) -> (tid -> 'a1) -> 'a2 -> nat -> ('a1, 'a2) gst **)

let ginit p l0 g warm =
  { heap = (fun _ -> []); next = warm; pool = (seq O warm); glob = g; th =
    (fun t -> { pc = (p t); loc = (l0 t); regs = (fun _ -> None) }) }

(** val disc : reg list -> reg list -> ('a1, 'a2) prog -> bool **)

let rec disc live empt = function
| PDone -> (match live with
            | [] -> true
            | _ :: _ -> false)
| PGet (r, k) -> (&&) (negb (inb r live)) (disc (r :: live) (r :: empt) k)
| PWrite (r, _, k) -> (&&) (inb r live) (disc live (rm r empt) k)
| PRead (r, _, k) -> (&&) (inb r live) (disc live empt k)
| PReset (r, k) -> (&&) (inb r live) (disc live (r :: empt) k)
| PPut (r, k) ->
  (&&) ((&&) (inb r live) (inb r empt)) (disc (rm r live) (rm r empt) k)
| PLocal (_, k) -> disc live empt k
| PGRead (_, k) -> disc live empt k
| PGWrite (_, _) -> false
| PIf (_, k1, k2) -> (&&) (disc live empt k1) (disc live empt k2)

(** val disciplined : ('a1, 'a2) prog -> bool **)

let disciplined p =
  disc [] [] p

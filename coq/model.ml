
type nat =
| O
| S of nat

(** val snd : ('a1 * 'a2) -> 'a2 **)

let snd = function
| (_, y) -> y

(** val length : 'a1 list -> nat **)

let rec length = function
| [] -> O
| _ :: l' -> S (length l')

(** val app : 'a1 list -> 'a1 list -> 'a1 list **)

let rec app l m =
  match l with
  | [] -> m
  | a :: l1 -> a :: (app l1 m)

(** val sub : nat -> nat -> nat **)

let rec sub n0 m =
  match n0 with
  | O -> n0
  | S k -> (match m with
            | O -> n0
            | S l -> sub k l)

module Nat =
 struct
  (** val sub : nat -> nat -> nat **)

  let rec sub n0 m =
    match n0 with
    | O -> n0
    | S k -> (match m with
              | O -> n0
              | S l -> sub k l)

  (** val eqb : nat -> nat -> bool **)

  let rec eqb n0 m =
    match n0 with
    | O -> (match m with
            | O -> true
            | S _ -> false)
    | S n' -> (match m with
               | O -> false
               | S m' -> eqb n' m')

  (** val divmod : nat -> nat -> nat -> nat -> nat * nat **)

  let rec divmod x y q u =
    match x with
    | O -> (q, u)
    | S x' ->
      (match u with
       | O -> divmod x' y (S q) y
       | S u' -> divmod x' y q u')

  (** val modulo : nat -> nat -> nat **)

  let modulo x = function
  | O -> x
  | S y' -> sub y' (snd (divmod x y' O y'))
 end

(** val hd : 'a1 -> 'a1 list -> 'a1 **)

let hd default = function
| [] -> default
| x :: _ -> x

(** val rev : 'a1 list -> 'a1 list **)

let rec rev = function
| [] -> []
| x :: l' -> app (rev l') (x :: [])

(** val flat_map : ('a1 -> 'a2 list) -> 'a1 list -> 'a2 list **)

let rec flat_map f = function
| [] -> []
| x :: t -> app (f x) (flat_map f t)

(** val fold_left : ('a1 -> 'a2 -> 'a1) -> 'a2 list -> 'a1 -> 'a1 **)

let rec fold_left f l a0 =
  match l with
  | [] -> a0
  | b :: t -> fold_left f t (f a0 b)

(** val repeat : 'a1 -> nat -> 'a1 list **)

let rec repeat x = function
| O -> []
| S k -> x :: (repeat x k)

type positive =
| XI of positive
| XO of positive
| XH

type n =
| N0
| Npos of positive

module Pos =
 struct
  (** val eqb : positive -> positive -> bool **)

  let rec eqb p q =
    match p with
    | XI p0 -> (match q with
                | XI q0 -> eqb p0 q0
                | _ -> false)
    | XO p0 -> (match q with
                | XO q0 -> eqb p0 q0
                | _ -> false)
    | XH -> (match q with
             | XH -> true
             | _ -> false)
 end

module N =
 struct
  (** val eqb : n -> n -> bool **)

  let eqb n0 m =
    match n0 with
    | N0 -> (match m with
             | N0 -> true
             | Npos _ -> false)
    | Npos p -> (match m with
                 | N0 -> false
                 | Npos q -> Pos.eqb p q)
 end

type bytes = n list

(** val nine : n **)

let nine =
  Npos (XI (XO (XO (XI (XI XH)))))

(** val bytes_eqb : bytes -> bytes -> bool **)

let rec bytes_eqb a b =
  match a with
  | [] -> (match b with
           | [] -> true
           | _ :: _ -> false)
  | x :: a' ->
    (match b with
     | [] -> false
     | y :: b' -> (&&) (N.eqb x y) (bytes_eqb a' b'))

type entryS = { e_rec : bytes; e_addenda : bytes list }

type batchS = { b_hdr : bytes; b_entries : entryS list; b_ctl : bytes }

type fileS = { f_hdr : bytes; f_batches : batchS list; f_ctl : bytes }

(** val entry_lines : entryS -> bytes list **)

let entry_lines e =
  e.e_rec :: e.e_addenda

(** val batch_lines : batchS -> bytes list **)

let batch_lines b =
  b.b_hdr :: (app (flat_map entry_lines b.b_entries) (b.b_ctl :: []))

(** val record_lines : fileS -> bytes list **)

let record_lines f =
  f.f_hdr :: (app (flat_map batch_lines f.f_batches) (f.f_ctl :: []))

(** val nines : bytes **)

let nines =
  repeat nine (S (S (S (S (S (S (S (S (S (S (S (S (S (S (S (S (S (S (S (S (S
    (S (S (S (S (S (S (S (S (S (S (S (S (S (S (S (S (S (S (S (S (S (S (S (S
    (S (S (S (S (S (S (S (S (S (S (S (S (S (S (S (S (S (S (S (S (S (S (S (S
    (S (S (S (S (S (S (S (S (S (S (S (S (S (S (S (S (S (S (S (S (S (S (S (S
    (S
    O))))))))))))))))))))))))))))))))))))))))))))))))))))))))))))))))))))))))))))))))))))))))))))))

(** val pad_count : nat -> nat **)

let pad_count n0 =
  if Nat.eqb (Nat.modulo n0 (S (S (S (S (S (S (S (S (S (S O))))))))))) O
  then O
  else sub (S (S (S (S (S (S (S (S (S (S O))))))))))
         (Nat.modulo n0 (S (S (S (S (S (S (S (S (S (S O)))))))))))

(** val physical_lines : fileS -> bytes list **)

let physical_lines f =
  app (record_lines f) (repeat nines (pad_count (length (record_lines f))))

(** val rtype : bytes -> n **)

let rtype l =
  hd N0 l

(** val t1 : n **)

let t1 =
  Npos (XI (XO (XO (XO (XI XH)))))

(** val t5 : n **)

let t5 =
  Npos (XI (XO (XI (XO (XI XH)))))

(** val t6 : n **)

let t6 =
  Npos (XO (XI (XI (XO (XI XH)))))

(** val t7 : n **)

let t7 =
  Npos (XI (XI (XI (XO (XI XH)))))

(** val t8 : n **)

let t8 =
  Npos (XO (XO (XO (XI (XI XH)))))

(** val t9 : n **)

let t9 =
  Npos (XI (XO (XO (XI (XI XH)))))

type gstate =
| GStart
| GFile
| GBatch
| GEntry
| GDone
| GBad

(** val is_filler : bytes -> bool **)

let is_filler l =
  bytes_eqb l nines

(** val gstep : gstate -> bytes -> gstate **)

let gstep s l =
  let t = rtype l in
  (match s with
   | GStart -> if N.eqb t t1 then GFile else GBad
   | GFile ->
     if N.eqb t t5 then GBatch else if N.eqb t t9 then GDone else GBad
   | GBatch ->
     if N.eqb t t6 then GEntry else if N.eqb t t8 then GFile else GBad
   | GEntry ->
     if N.eqb t t6
     then GEntry
     else if N.eqb t t7 then GEntry else if N.eqb t t8 then GFile else GBad
   | GDone -> if is_filler l then GDone else GBad
   | GBad -> GBad)

(** val grammar_ok : bytes list -> bool **)

let grammar_ok ls =
  match fold_left gstep ls GStart with
  | GDone -> true
  | _ -> false

(** val starts99 : bytes -> bool **)

let starts99 = function
| [] -> false
| a :: l0 ->
  (match l0 with
   | [] -> false
   | b :: _ -> (&&) (N.eqb a nine) (N.eqb b nine))

type rstate = { r_hdr : bytes option; r_done : batchS list;
                r_cur : (bytes * entryS list) option; r_ctl : bytes option }

(** val add_addenda : entryS list -> bytes -> entryS list option **)

let add_addenda es a =
  match es with
  | [] -> None
  | e :: rest ->
    Some ({ e_rec = e.e_rec; e_addenda =
      (app e.e_addenda (a :: [])) } :: rest)

(** val rstep : rstate option -> bytes -> rstate option **)

let rstep st l =
  match st with
  | Some s ->
    let t = rtype l in
    if N.eqb t t1
    then (match s.r_hdr with
          | Some _ -> None
          | None ->
            Some { r_hdr = (Some l); r_done = s.r_done; r_cur = s.r_cur;
              r_ctl = s.r_ctl })
    else if N.eqb t t5
         then (match s.r_cur with
               | Some _ -> None
               | None ->
                 Some { r_hdr = s.r_hdr; r_done = s.r_done; r_cur = (Some (l,
                   [])); r_ctl = s.r_ctl })
         else if N.eqb t t6
              then (match s.r_cur with
                    | Some p ->
                      let (h, es) = p in
                      Some { r_hdr = s.r_hdr; r_done = s.r_done; r_cur =
                      (Some (h, ({ e_rec = l; e_addenda = [] } :: es)));
                      r_ctl = s.r_ctl }
                    | None -> None)
              else if N.eqb t t7
                   then (match s.r_cur with
                         | Some p ->
                           let (h, es) = p in
                           (match add_addenda es l with
                            | Some es' ->
                              Some { r_hdr = s.r_hdr; r_done = s.r_done;
                                r_cur = (Some (h, es')); r_ctl = s.r_ctl }
                            | None -> None)
                         | None -> None)
                   else if N.eqb t t8
                        then (match s.r_cur with
                              | Some p ->
                                let (h, es) = p in
                                Some { r_hdr = s.r_hdr; r_done = ({ b_hdr =
                                h; b_entries = (rev es); b_ctl =
                                l } :: s.r_done); r_cur = None; r_ctl =
                                s.r_ctl }
                              | None -> None)
                        else if N.eqb t t9
                             then if starts99 l
                                  then Some s
                                  else (match s.r_ctl with
                                        | Some _ -> None
                                        | None ->
                                          Some { r_hdr = s.r_hdr; r_done =
                                            s.r_done; r_cur = s.r_cur;
                                            r_ctl = (Some l) })
                             else None
  | None -> None

(** val read_struct : bytes list -> fileS option **)

let read_struct ls =
  match fold_left rstep ls (Some { r_hdr = None; r_done = []; r_cur = None;
          r_ctl = None }) with
  | Some r ->
    let { r_hdr = r_hdr0; r_done = done0; r_cur = r_cur0; r_ctl = r_ctl0 } = r
    in
    (match r_hdr0 with
     | Some h ->
       (match r_cur0 with
        | Some _ -> None
        | None ->
          (match r_ctl0 with
           | Some c -> Some { f_hdr = h; f_batches = (rev done0); f_ctl = c }
           | None -> None))
     | None -> None)
  | None -> None

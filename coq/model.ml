
(** val implb : bool -> bool -> bool **)

let implb b1 b2 =
  if b1 then b2 else true

(** val negb : bool -> bool **)

let negb = function
| true -> false
| false -> true

type nat =
| O
| S of nat

type ('a, 'b) sum =
| Inl of 'a
| Inr of 'b

(** val length : 'a1 list -> nat **)

let rec length = function
| [] -> O
| _ :: l' -> S (length l')

(** val app : 'a1 list -> 'a1 list -> 'a1 list **)

let rec app l m =
  match l with
  | [] -> m
  | a :: l1 -> a :: (app l1 m)

type comparison =
| Eq
| Lt
| Gt

(** val compOpp : comparison -> comparison **)

let compOpp = function
| Eq -> Eq
| Lt -> Gt
| Gt -> Lt

type positive =
| XI of positive
| XO of positive
| XH

type n =
| N0
| Npos of positive

type z =
| Z0
| Zpos of positive
| Zneg of positive

module Pos =
 struct
  (** val succ : positive -> positive **)

  let rec succ = function
  | XI p -> XO (succ p)
  | XO p -> XI p
  | XH -> XO XH

  (** val add : positive -> positive -> positive **)

  let rec add x y =
    match x with
    | XI p ->
      (match y with
       | XI q -> XO (add_carry p q)
       | XO q -> XI (add p q)
       | XH -> XO (succ p))
    | XO p ->
      (match y with
       | XI q -> XI (add p q)
       | XO q -> XO (add p q)
       | XH -> XI p)
    | XH -> (match y with
             | XI q -> XO (succ q)
             | XO q -> XI q
             | XH -> XO XH)

  (** val add_carry : positive -> positive -> positive **)

  and add_carry x y =
    match x with
    | XI p ->
      (match y with
       | XI q -> XI (add_carry p q)
       | XO q -> XO (add_carry p q)
       | XH -> XI (succ p))
    | XO p ->
      (match y with
       | XI q -> XO (add_carry p q)
       | XO q -> XI (add p q)
       | XH -> XO (succ p))
    | XH ->
      (match y with
       | XI q -> XI (succ q)
       | XO q -> XO (succ q)
       | XH -> XI XH)

  (** val pred_double : positive -> positive **)

  let rec pred_double = function
  | XI p -> XI (XO p)
  | XO p -> XI (pred_double p)
  | XH -> XH

  (** val mul : positive -> positive -> positive **)

  let rec mul x y =
    match x with
    | XI p -> add y (XO (mul p y))
    | XO p -> XO (mul p y)
    | XH -> y

  (** val compare_cont : comparison -> positive -> positive -> comparison **)

  let rec compare_cont r x y =
    match x with
    | XI p ->
      (match y with
       | XI q -> compare_cont r p q
       | XO q -> compare_cont Gt p q
       | XH -> Gt)
    | XO p ->
      (match y with
       | XI q -> compare_cont Lt p q
       | XO q -> compare_cont r p q
       | XH -> Gt)
    | XH -> (match y with
             | XH -> r
             | _ -> Lt)

  (** val compare : positive -> positive -> comparison **)

  let compare =
    compare_cont Eq

  (** val eqb : positive -> positive -> bool **)

  let rec eqb p q =
    match p with
    | XI p0 -> (match q with
                | XI q0 -> eqb p0 q0
                | _ -> false)
    | XO p0 -> (match q with
                | XO q0 -> eqb p0 q0
                | _ -> false)
    | XH -> (match q with
             | XH -> true
             | _ -> false)

  (** val of_succ_nat : nat -> positive **)

  let rec of_succ_nat = function
  | O -> XH
  | S x -> succ (of_succ_nat x)
 end

module N =
 struct
  (** val add : n -> n -> n **)

  let add n0 m =
    match n0 with
    | N0 -> m
    | Npos p -> (match m with
                 | N0 -> n0
                 | Npos q -> Npos (Pos.add p q))
 end

module Z =
 struct
  (** val double : z -> z **)

  let double = function
  | Z0 -> Z0
  | Zpos p -> Zpos (XO p)
  | Zneg p -> Zneg (XO p)

  (** val succ_double : z -> z **)

  let succ_double = function
  | Z0 -> Zpos XH
  | Zpos p -> Zpos (XI p)
  | Zneg p -> Zneg (Pos.pred_double p)

  (** val pred_double : z -> z **)

  let pred_double = function
  | Z0 -> Zneg XH
  | Zpos p -> Zpos (Pos.pred_double p)
  | Zneg p -> Zneg (XI p)

  (** val pos_sub : positive -> positive -> z **)

  let rec pos_sub x y =
    match x with
    | XI p ->
      (match y with
       | XI q -> double (pos_sub p q)
       | XO q -> succ_double (pos_sub p q)
       | XH -> Zpos (XO p))
    | XO p ->
      (match y with
       | XI q -> pred_double (pos_sub p q)
       | XO q -> double (pos_sub p q)
       | XH -> Zpos (Pos.pred_double p))
    | XH ->
      (match y with
       | XI q -> Zneg (XO q)
       | XO q -> Zneg (Pos.pred_double q)
       | XH -> Z0)

  (** val add : z -> z -> z **)

  let add x y =
    match x with
    | Z0 -> y
    | Zpos x' ->
      (match y with
       | Z0 -> x
       | Zpos y' -> Zpos (Pos.add x' y')
       | Zneg y' -> pos_sub x' y')
    | Zneg x' ->
      (match y with
       | Z0 -> x
       | Zpos y' -> pos_sub y' x'
       | Zneg y' -> Zneg (Pos.add x' y'))

  (** val opp : z -> z **)

  let opp = function
  | Z0 -> Z0
  | Zpos x0 -> Zneg x0
  | Zneg x0 -> Zpos x0

  (** val sub : z -> z -> z **)

  let sub m n0 =
    add m (opp n0)

  (** val mul : z -> z -> z **)

  let mul x y =
    match x with
    | Z0 -> Z0
    | Zpos x' ->
      (match y with
       | Z0 -> Z0
       | Zpos y' -> Zpos (Pos.mul x' y')
       | Zneg y' -> Zneg (Pos.mul x' y'))
    | Zneg x' ->
      (match y with
       | Z0 -> Z0
       | Zpos y' -> Zneg (Pos.mul x' y')
       | Zneg y' -> Zpos (Pos.mul x' y'))

  (** val compare : z -> z -> comparison **)

  let compare x y =
    match x with
    | Z0 -> (match y with
             | Z0 -> Eq
             | Zpos _ -> Lt
             | Zneg _ -> Gt)
    | Zpos x' -> (match y with
                  | Zpos y' -> Pos.compare x' y'
                  | _ -> Gt)
    | Zneg x' ->
      (match y with
       | Zneg y' -> compOpp (Pos.compare x' y')
       | _ -> Lt)

  (** val leb : z -> z -> bool **)

  let leb x y =
    match compare x y with
    | Gt -> false
    | _ -> true

  (** val ltb : z -> z -> bool **)

  let ltb x y =
    match compare x y with
    | Lt -> true
    | _ -> false

  (** val eqb : z -> z -> bool **)

  let eqb x y =
    match x with
    | Z0 -> (match y with
             | Z0 -> true
             | _ -> false)
    | Zpos p -> (match y with
                 | Zpos q -> Pos.eqb p q
                 | _ -> false)
    | Zneg p -> (match y with
                 | Zneg q -> Pos.eqb p q
                 | _ -> false)

  (** val of_nat : nat -> z **)

  let of_nat = function
  | O -> Z0
  | S n1 -> Zpos (Pos.of_succ_nat n1)

  (** val pos_div_eucl : positive -> z -> z * z **)

  let rec pos_div_eucl a b =
    match a with
    | XI a' ->
      let (q, r) = pos_div_eucl a' b in
      let r' = add (mul (Zpos (XO XH)) r) (Zpos XH) in
      if ltb r' b
      then ((mul (Zpos (XO XH)) q), r')
      else ((add (mul (Zpos (XO XH)) q) (Zpos XH)), (sub r' b))
    | XO a' ->
      let (q, r) = pos_div_eucl a' b in
      let r' = mul (Zpos (XO XH)) r in
      if ltb r' b
      then ((mul (Zpos (XO XH)) q), r')
      else ((add (mul (Zpos (XO XH)) q) (Zpos XH)), (sub r' b))
    | XH -> if leb (Zpos (XO XH)) b then (Z0, (Zpos XH)) else ((Zpos XH), Z0)

  (** val div_eucl : z -> z -> z * z **)

  let div_eucl a b =
    match a with
    | Z0 -> (Z0, Z0)
    | Zpos a' ->
      (match b with
       | Z0 -> (Z0, a)
       | Zpos _ -> pos_div_eucl a' b
       | Zneg b' ->
         let (q, r) = pos_div_eucl a' (Zpos b') in
         (match r with
          | Z0 -> ((opp q), Z0)
          | _ -> ((opp (add q (Zpos XH))), (add b r))))
    | Zneg a' ->
      (match b with
       | Z0 -> (Z0, a)
       | Zpos _ ->
         let (q, r) = pos_div_eucl a' b in
         (match r with
          | Z0 -> ((opp q), Z0)
          | _ -> ((opp (add q (Zpos XH))), (sub b r)))
       | Zneg b' -> let (q, r) = pos_div_eucl a' (Zpos b') in (q, (opp r)))

  (** val modulo : z -> z -> z **)

  let modulo a b =
    let (_, r) = div_eucl a b in r
 end

(** val map : ('a1 -> 'a2) -> 'a1 list -> 'a2 list **)

let rec map f = function
| [] -> []
| a :: t -> (f a) :: (map f t)

(** val flat_map : ('a1 -> 'a2 list) -> 'a1 list -> 'a2 list **)

let rec flat_map f = function
| [] -> []
| x :: t -> app (f x) (flat_map f t)

(** val existsb : ('a1 -> bool) -> 'a1 list -> bool **)

let rec existsb f = function
| [] -> false
| a :: l0 -> (||) (f a) (existsb f l0)

(** val forallb : ('a1 -> bool) -> 'a1 list -> bool **)

let rec forallb f = function
| [] -> true
| a :: l0 -> (&&) (f a) (forallb f l0)

(** val filter : ('a1 -> bool) -> 'a1 list -> 'a1 list **)

let rec filter f = function
| [] -> []
| x :: l0 -> if f x then x :: (filter f l0) else filter f l0

type target =
| TCredit
| TDebit
| TNone

(** val target_eqb : target -> target -> bool **)

let target_eqb a b =
  match a with
  | TCredit -> (match b with
                | TCredit -> true
                | _ -> false)
  | TDebit -> (match b with
               | TDebit -> true
               | _ -> false)
  | TNone -> (match b with
              | TNone -> true
              | _ -> false)

type seg_arm = { sa_codes : z list; sa_target : target; sa_unknown : bool }

type scc_kind =
| SSplit of z * z
| SReuseCredit
| SReuseDebit
| SUnknown

type scc_arm = { sc_code : z; sc_kind : scc_kind }

(** val memz : z -> z list -> bool **)

let memz c l =
  existsb (Z.eqb c) l

(** val classify : seg_arm list -> z -> target **)

let rec classify arms c =
  match arms with
  | [] -> TNone
  | a :: r -> if memz c a.sa_codes then a.sa_target else classify r c

(** val digit_dir : z -> target **)

let digit_dir c =
  if (||) (Z.ltb c (Zpos (XO (XI (XO XH)))))
       (Z.ltb (Zpos (XI (XI (XO (XO (XO (XI XH))))))) c)
  then TNone
  else let u = Z.modulo c (Zpos (XO (XI (XO XH)))) in
       if (&&) (Z.leb (Zpos XH) u) (Z.leb u (Zpos (XO (XO XH))))
       then TCredit
       else if Z.leb (Zpos (XI (XO XH))) u then TDebit else TNone

(** val entry_code : z list -> z -> bool **)

let entry_code std c =
  (&&) ((&&) (memz c std) (Z.leb (Zpos (XO (XO (XI (XO XH))))) c))
    (Z.ltb c (Zpos (XO (XO (XI (XI (XI XH)))))))

type entry = { e_code : z; e_amount : z; e_id : n; e_trace : n }

(** val goes : seg_arm list -> target -> entry -> bool **)

let goes arms t e =
  target_eqb (classify arms e.e_code) t

(** val sum_dir : seg_arm list -> target -> entry list -> z **)

let rec sum_dir arms t = function
| [] -> Z0
| e :: r ->
  Z.add (if goes arms t e then e.e_amount else Z0) (sum_dir arms t r)

(** val all_dir : target -> entry list -> bool **)

let all_dir t es =
  forallb (fun e -> target_eqb (digit_dir e.e_code) t) es

type stables = { st_seg_std : seg_arm list; st_seg_iat : seg_arm list;
                 st_seg_adv : seg_arm list; st_amt_std : seg_arm list;
                 st_amt_iat : seg_arm list; st_amt_adv : seg_arm list;
                 st_scc_std : scc_arm list; st_scc_iat : scc_arm list;
                 st_codes : z list }

(** val scc_lookup : scc_arm list -> z -> scc_kind option **)

let rec scc_lookup arms scc =
  match arms with
  | [] -> None
  | a :: r -> if Z.eqb a.sc_code scc then Some a.sc_kind else scc_lookup r scc

type sbatch = { sb_adv : bool; sb_scc : z; sb_num : z; sb_ident : n;
                sb_credit : z; sb_debit : z; sb_entries : entry list }

type sfile = { sf_origin : n; sf_dest : n; sf_batches : sbatch list;
               sf_iat : sbatch list; sf_credit : z; sf_debit : z }

(** val empty_file : sfile **)

let empty_file =
  { sf_origin = N0; sf_dest = N0; sf_batches = []; sf_iat = []; sf_credit =
    Z0; sf_debit = Z0 }

(** val dir_of : bool -> target **)

let dir_of = function
| true -> TCredit
| false -> TDebit

(** val fresh :
    seg_arm list -> bool -> z -> n -> entry list -> sbatch list **)

let fresh amt adv scc ident es = match es with
| [] -> []
| _ :: _ ->
  { sb_adv = adv; sb_scc = scc; sb_num = (Zpos XH); sb_ident = ident;
    sb_credit = (sum_dir amt TCredit es); sb_debit = (sum_dir amt TDebit es);
    sb_entries = es } :: []

(** val retrace : n -> entry list -> entry list **)

let rec retrace seq = function
| [] -> []
| e :: r ->
  { e_code = e.e_code; e_amount = e.e_amount; e_id = e.e_id; e_trace =
    seq } :: (retrace (N.add seq (Npos XH)) r)

(** val part : stables -> bool -> sbatch -> sbatch list **)

let part t cr b =
  if b.sb_adv
  then if Z.eqb b.sb_scc (Zpos (XO (XO (XO (XI (XI (XO (XO (XO XH)))))))))
       then fresh t.st_amt_adv true (Zpos (XO (XO (XO (XI (XI (XO (XO (XO
              XH))))))))) b.sb_ident
              (filter (goes t.st_seg_adv (dir_of cr)) b.sb_entries)
       else []
  else (match scc_lookup t.st_scc_std b.sb_scc with
        | Some s ->
          (match s with
           | SSplit (c, d) ->
             fresh t.st_amt_std false (if cr then c else d) b.sb_ident
               (filter (goes t.st_seg_std (dir_of cr)) b.sb_entries)
           | SReuseCredit -> if cr then b :: [] else []
           | SReuseDebit -> if cr then [] else b :: []
           | SUnknown -> [])
        | None -> [])

(** val ipart : stables -> bool -> sbatch -> sbatch list **)

let ipart t cr b =
  match scc_lookup t.st_scc_iat b.sb_scc with
  | Some s ->
    (match s with
     | SSplit (c, d) ->
       fresh t.st_amt_iat false (if cr then c else d) b.sb_ident
         (retrace (Npos XH)
           (filter (goes t.st_seg_iat (dir_of cr)) b.sb_entries))
     | SReuseCredit -> if cr then b :: [] else []
     | SReuseDebit -> if cr then [] else b :: []
     | SUnknown -> [])
  | None -> []

(** val renumber : z -> sbatch list -> sbatch list **)

let rec renumber seq = function
| [] -> []
| b :: r ->
  (if Z.leb b.sb_num (Zpos XH)
   then { sb_adv = b.sb_adv; sb_scc = b.sb_scc; sb_num = seq; sb_ident =
          b.sb_ident; sb_credit = b.sb_credit; sb_debit = b.sb_debit;
          sb_entries = b.sb_entries }
   else b) :: (renumber (Z.add seq (Zpos XH)) r)

(** val tot_credit : sbatch list -> z **)

let rec tot_credit = function
| [] -> Z0
| b :: r -> Z.add b.sb_credit (tot_credit r)

(** val tot_debit : sbatch list -> z **)

let rec tot_debit = function
| [] -> Z0
| b :: r -> Z.add b.sb_debit (tot_debit r)

(** val is_adv_file : sbatch list -> bool **)

let is_adv_file bs =
  existsb (fun s -> s.sb_adv) bs

type verr =
| VBatch
| VTotals
| VAscending

type serr =
| EInput of verr
| EAdvOnly
| EOutput of verr

(** val create : n -> n -> sbatch list -> sbatch list -> sfile option **)

let create origin dest bs is =
  if is_adv_file bs
  then if forallb (fun s -> s.sb_adv) bs
       then let bs' = renumber (Zpos XH) bs in
            Some { sf_origin = origin; sf_dest = dest; sf_batches = bs';
            sf_iat = is; sf_credit = (tot_credit bs'); sf_debit =
            (tot_debit bs') }
       else None
  else let bs' = renumber (Zpos XH) bs in
       let is' = renumber (Z.add (Zpos XH) (Z.of_nat (length bs))) is in
       Some { sf_origin = origin; sf_dest = dest; sf_batches = bs'; sf_iat =
       is'; sf_credit = (Z.add (tot_credit bs') (tot_credit is')); sf_debit =
       (Z.add (tot_debit bs') (tot_debit is')) }

(** val dir_wf : stables -> sbatch -> bool **)

let dir_wf t b =
  (&&)
    ((&&)
      ((&&)
        (memz b.sb_scc ((Zpos (XO (XO (XO (XI (XO (XO (XI
          XH)))))))) :: ((Zpos (XO (XO (XI (XI (XI (XO (XI
          XH)))))))) :: ((Zpos (XI (XO (XO (XO (XO (XI (XI
          XH)))))))) :: []))))
        (forallb (fun e -> entry_code t.st_codes e.e_code) b.sb_entries))
      (implb (Z.eqb b.sb_scc (Zpos (XO (XO (XI (XI (XI (XO (XI XH)))))))))
        (all_dir TCredit b.sb_entries)))
    (implb (Z.eqb b.sb_scc (Zpos (XI (XO (XO (XO (XO (XI (XI XH)))))))))
      (all_dir TDebit b.sb_entries))

(** val ctl_wf : seg_arm list -> sbatch -> bool **)

let ctl_wf amt b =
  (&&)
    ((&&) (match b.sb_entries with
           | [] -> false
           | _ :: _ -> true)
      (Z.eqb b.sb_credit (sum_dir amt TCredit b.sb_entries)))
    (Z.eqb b.sb_debit (sum_dir amt TDebit b.sb_entries))

(** val batch_ok : stables -> sbatch -> bool **)

let batch_ok t b =
  (&&) ((&&) (negb b.sb_adv) (ctl_wf t.st_amt_std b)) (dir_wf t b)

(** val ascending : z -> z list -> bool **)

let rec ascending last = function
| [] -> true
| n0 :: r -> (&&) (Z.ltb last n0) (ascending n0 r)

(** val validate : stables -> sfile -> verr option **)

let validate t f =
  if is_adv_file f.sf_batches
  then if (&&) (Z.eqb f.sf_credit (tot_credit f.sf_batches))
            (Z.eqb f.sf_debit (tot_debit f.sf_batches))
       then None
       else Some VTotals
  else if negb (forallb (batch_ok t) f.sf_batches)
       then Some VBatch
       else if negb
                 ((&&)
                   (Z.eqb f.sf_credit
                     (Z.add (tot_credit f.sf_batches) (tot_credit f.sf_iat)))
                   (Z.eqb f.sf_debit
                     (Z.add (tot_debit f.sf_batches) (tot_debit f.sf_iat))))
            then Some VTotals
            else if negb (ascending Z0 (map (fun s -> s.sb_num) f.sf_batches))
                 then Some VAscending
                 else None

type sres =
| SOk of sfile * sfile
| SErr of serr

(** val finish :
    stables -> n -> n -> sbatch list -> sbatch list -> (sfile, serr) sum **)

let finish t origin dest bs is =
  match bs with
  | [] ->
    (match is with
     | [] -> Inl empty_file
     | _ :: _ ->
       (match create origin dest bs is with
        | Some g ->
          (match validate t g with
           | Some v -> Inr (EOutput v)
           | None -> Inl g)
        | None -> Inr EAdvOnly))
  | _ :: _ ->
    (match create origin dest bs is with
     | Some g ->
       (match validate t g with
        | Some v -> Inr (EOutput v)
        | None -> Inl g)
     | None -> Inr EAdvOnly)

(** val segment : stables -> sfile -> sres **)

let segment t f =
  match validate t f with
  | Some v -> SErr (EInput v)
  | None ->
    let out = fun cr ->
      finish t f.sf_origin f.sf_dest (flat_map (part t cr) f.sf_batches)
        (flat_map (ipart t cr) f.sf_iat)
    in
    (match out true with
     | Inl cf ->
       (match out false with
        | Inl df -> SOk (cf, df)
        | Inr e -> SErr e)
     | Inr e -> SErr e)

(** val seg_std_arms : seg_arm list **)

let seg_std_arms =
  { sa_codes = ((Zpos (XO (XI (XI (XO XH))))) :: ((Zpos (XI (XO (XI (XO
    XH))))) :: ((Zpos (XI (XI (XI (XO XH))))) :: ((Zpos (XO (XO (XO (XI
    XH))))) :: ((Zpos (XO (XO (XO (XO (XO XH)))))) :: ((Zpos (XI (XI (XI (XI
    XH))))) :: ((Zpos (XI (XO (XO (XO (XO XH)))))) :: ((Zpos (XO (XI (XO (XO
    (XO XH)))))) :: ((Zpos (XO (XI (XO (XI (XO XH)))))) :: ((Zpos (XI (XO (XO
    (XI (XO XH)))))) :: ((Zpos (XI (XI (XO (XI (XO XH)))))) :: ((Zpos (XO (XO
    (XI (XI (XO XH)))))) :: ((Zpos (XO (XO (XI (XO (XI XH)))))) :: ((Zpos (XI
    (XI (XO (XO (XI XH)))))) :: ((Zpos (XI (XO (XI (XO (XI XH)))))) :: ((Zpos
    (XO (XI (XI (XO (XI XH)))))) :: [])))))))))))))))); sa_target = TCredit;
    sa_unknown = false } :: ({ sa_codes = ((Zpos (XI (XI (XO (XI
    XH))))) :: ((Zpos (XO (XI (XO (XI XH))))) :: ((Zpos (XO (XO (XI (XI
    XH))))) :: ((Zpos (XI (XO (XI (XI XH))))) :: ((Zpos (XI (XO (XI (XO (XO
    XH)))))) :: ((Zpos (XO (XO (XI (XO (XO XH)))))) :: ((Zpos (XO (XI (XI (XO
    (XO XH)))))) :: ((Zpos (XI (XI (XI (XO (XO XH)))))) :: ((Zpos (XI (XI (XI
    (XI (XO XH)))))) :: ((Zpos (XO (XI (XI (XI (XO XH)))))) :: ((Zpos (XO (XO
    (XO (XO (XI XH)))))) :: ((Zpos (XI (XO (XO (XO (XI XH)))))) :: ((Zpos (XI
    (XI (XI (XO (XI XH)))))) :: ((Zpos (XO (XO (XO (XI (XI
    XH)))))) :: [])))))))))))))); sa_target = TDebit; sa_unknown =
    false } :: [])

(** val seg_iat_arms : seg_arm list **)

let seg_iat_arms =
  { sa_codes = ((Zpos (XO (XI (XI (XO XH))))) :: ((Zpos (XI (XO (XI (XO
    XH))))) :: ((Zpos (XI (XI (XI (XO XH))))) :: ((Zpos (XO (XO (XO (XI
    XH))))) :: ((Zpos (XO (XO (XO (XO (XO XH)))))) :: ((Zpos (XI (XI (XI (XI
    XH))))) :: ((Zpos (XI (XO (XO (XO (XO XH)))))) :: ((Zpos (XO (XI (XO (XO
    (XO XH)))))) :: ((Zpos (XO (XI (XO (XI (XO XH)))))) :: ((Zpos (XI (XO (XO
    (XI (XO XH)))))) :: ((Zpos (XI (XI (XO (XI (XO XH)))))) :: ((Zpos (XO (XO
    (XI (XI (XO XH)))))) :: ((Zpos (XO (XO (XI (XO (XI XH)))))) :: ((Zpos (XI
    (XI (XO (XO (XI XH)))))) :: ((Zpos (XI (XO (XI (XO (XI XH)))))) :: ((Zpos
    (XO (XI (XI (XO (XI XH)))))) :: [])))))))))))))))); sa_target = TCredit;
    sa_unknown = false } :: ({ sa_codes = ((Zpos (XI (XI (XO (XI
    XH))))) :: ((Zpos (XO (XI (XO (XI XH))))) :: ((Zpos (XO (XO (XI (XI
    XH))))) :: ((Zpos (XI (XO (XI (XI XH))))) :: ((Zpos (XI (XO (XI (XO (XO
    XH)))))) :: ((Zpos (XO (XO (XI (XO (XO XH)))))) :: ((Zpos (XO (XI (XI (XO
    (XO XH)))))) :: ((Zpos (XI (XI (XI (XO (XO XH)))))) :: ((Zpos (XI (XI (XI
    (XI (XO XH)))))) :: ((Zpos (XO (XI (XI (XI (XO XH)))))) :: ((Zpos (XO (XO
    (XO (XO (XI XH)))))) :: ((Zpos (XI (XO (XO (XO (XI XH)))))) :: ((Zpos (XI
    (XI (XI (XO (XI XH)))))) :: ((Zpos (XO (XO (XO (XI (XI
    XH)))))) :: [])))))))))))))); sa_target = TDebit; sa_unknown =
    false } :: [])

(** val seg_adv_arms : seg_arm list **)

let seg_adv_arms =
  { sa_codes = ((Zpos (XI (XO (XO (XO (XI (XO XH))))))) :: ((Zpos (XI (XI (XO
    (XO (XI (XO XH))))))) :: ((Zpos (XI (XO (XI (XO (XI (XO
    XH))))))) :: ((Zpos (XI (XI (XI (XO (XI (XO XH))))))) :: []))));
    sa_target = TCredit; sa_unknown = false } :: ({ sa_codes = ((Zpos (XO (XI
    (XO (XO (XI (XO XH))))))) :: ((Zpos (XO (XO (XI (XO (XI (XO
    XH))))))) :: ((Zpos (XO (XI (XI (XO (XI (XO XH))))))) :: ((Zpos (XO (XO
    (XO (XI (XI (XO XH))))))) :: [])))); sa_target = TDebit; sa_unknown =
    false } :: [])

(** val amount_std_arms : seg_arm list **)

let amount_std_arms =
  { sa_codes = ((Zpos (XO (XI (XI (XO XH))))) :: ((Zpos (XI (XO (XI (XO
    XH))))) :: ((Zpos (XI (XI (XI (XO XH))))) :: ((Zpos (XO (XO (XO (XI
    XH))))) :: ((Zpos (XO (XO (XO (XO (XO XH)))))) :: ((Zpos (XI (XI (XI (XI
    XH))))) :: ((Zpos (XI (XO (XO (XO (XO XH)))))) :: ((Zpos (XO (XI (XO (XO
    (XO XH)))))) :: ((Zpos (XO (XI (XO (XI (XO XH)))))) :: ((Zpos (XI (XO (XO
    (XI (XO XH)))))) :: ((Zpos (XI (XI (XO (XI (XO XH)))))) :: ((Zpos (XO (XO
    (XI (XI (XO XH)))))) :: ((Zpos (XO (XO (XI (XO (XI XH)))))) :: ((Zpos (XI
    (XI (XO (XO (XI XH)))))) :: ((Zpos (XI (XO (XI (XO (XI XH)))))) :: ((Zpos
    (XO (XI (XI (XO (XI XH)))))) :: [])))))))))))))))); sa_target = TCredit;
    sa_unknown = false } :: ({ sa_codes = ((Zpos (XI (XI (XO (XI
    XH))))) :: ((Zpos (XO (XI (XO (XI XH))))) :: ((Zpos (XO (XO (XI (XI
    XH))))) :: ((Zpos (XI (XO (XI (XI XH))))) :: ((Zpos (XI (XO (XI (XO (XO
    XH)))))) :: ((Zpos (XO (XO (XI (XO (XO XH)))))) :: ((Zpos (XO (XI (XI (XO
    (XO XH)))))) :: ((Zpos (XI (XI (XI (XO (XO XH)))))) :: ((Zpos (XI (XI (XI
    (XI (XO XH)))))) :: ((Zpos (XO (XI (XI (XI (XO XH)))))) :: ((Zpos (XO (XO
    (XO (XO (XI XH)))))) :: ((Zpos (XI (XO (XO (XO (XI XH)))))) :: ((Zpos (XI
    (XI (XI (XO (XI XH)))))) :: ((Zpos (XO (XO (XO (XI (XI
    XH)))))) :: [])))))))))))))); sa_target = TDebit; sa_unknown =
    false } :: [])

(** val amount_iat_arms : seg_arm list **)

let amount_iat_arms =
  { sa_codes = ((Zpos (XO (XI (XI (XO XH))))) :: ((Zpos (XI (XO (XI (XO
    XH))))) :: ((Zpos (XI (XI (XI (XO XH))))) :: ((Zpos (XO (XO (XO (XI
    XH))))) :: ((Zpos (XO (XO (XO (XO (XO XH)))))) :: ((Zpos (XI (XI (XI (XI
    XH))))) :: ((Zpos (XI (XO (XO (XO (XO XH)))))) :: ((Zpos (XO (XI (XO (XO
    (XO XH)))))) :: ((Zpos (XO (XI (XO (XI (XO XH)))))) :: ((Zpos (XI (XO (XO
    (XI (XO XH)))))) :: ((Zpos (XI (XI (XO (XI (XO XH)))))) :: ((Zpos (XO (XO
    (XI (XI (XO XH)))))) :: ((Zpos (XO (XO (XI (XO (XI XH)))))) :: ((Zpos (XI
    (XI (XO (XO (XI XH)))))) :: ((Zpos (XI (XO (XI (XO (XI XH)))))) :: ((Zpos
    (XO (XI (XI (XO (XI XH)))))) :: [])))))))))))))))); sa_target = TCredit;
    sa_unknown = false } :: ({ sa_codes = ((Zpos (XI (XI (XO (XI
    XH))))) :: ((Zpos (XO (XI (XO (XI XH))))) :: ((Zpos (XO (XO (XI (XI
    XH))))) :: ((Zpos (XI (XO (XI (XI XH))))) :: ((Zpos (XI (XO (XI (XO (XO
    XH)))))) :: ((Zpos (XO (XO (XI (XO (XO XH)))))) :: ((Zpos (XO (XI (XI (XO
    (XO XH)))))) :: ((Zpos (XI (XI (XI (XO (XO XH)))))) :: ((Zpos (XI (XI (XI
    (XI (XO XH)))))) :: ((Zpos (XO (XI (XI (XI (XO XH)))))) :: ((Zpos (XO (XO
    (XO (XO (XI XH)))))) :: ((Zpos (XI (XO (XO (XO (XI XH)))))) :: ((Zpos (XI
    (XI (XI (XO (XI XH)))))) :: ((Zpos (XO (XO (XO (XI (XI
    XH)))))) :: [])))))))))))))); sa_target = TDebit; sa_unknown =
    false } :: [])

(** val amount_adv_arms : seg_arm list **)

let amount_adv_arms =
  { sa_codes = ((Zpos (XI (XO (XO (XO (XI (XO XH))))))) :: ((Zpos (XI (XI (XO
    (XO (XI (XO XH))))))) :: ((Zpos (XI (XO (XI (XO (XI (XO
    XH))))))) :: ((Zpos (XI (XI (XI (XO (XI (XO XH))))))) :: []))));
    sa_target = TCredit; sa_unknown = false } :: ({ sa_codes = ((Zpos (XO (XI
    (XO (XO (XI (XO XH))))))) :: ((Zpos (XO (XO (XI (XO (XI (XO
    XH))))))) :: ((Zpos (XO (XI (XI (XO (XI (XO XH))))))) :: ((Zpos (XO (XO
    (XO (XI (XI (XO XH))))))) :: [])))); sa_target = TDebit; sa_unknown =
    false } :: [])

(** val seg_standard_codes : z list **)

let seg_standard_codes =
  (Zpos (XI (XO (XI (XO XH))))) :: ((Zpos (XO (XI (XI (XO XH))))) :: ((Zpos
    (XI (XI (XI (XO XH))))) :: ((Zpos (XO (XO (XO (XI XH))))) :: ((Zpos (XO
    (XI (XO (XI XH))))) :: ((Zpos (XI (XI (XO (XI XH))))) :: ((Zpos (XO (XO
    (XI (XI XH))))) :: ((Zpos (XI (XO (XI (XI XH))))) :: ((Zpos (XI (XI (XI
    (XI XH))))) :: ((Zpos (XO (XO (XO (XO (XO XH)))))) :: ((Zpos (XI (XO (XO
    (XO (XO XH)))))) :: ((Zpos (XO (XI (XO (XO (XO XH)))))) :: ((Zpos (XO (XO
    (XI (XO (XO XH)))))) :: ((Zpos (XI (XO (XI (XO (XO XH)))))) :: ((Zpos (XO
    (XI (XI (XO (XO XH)))))) :: ((Zpos (XI (XI (XI (XO (XO XH)))))) :: ((Zpos
    (XI (XO (XO (XI (XO XH)))))) :: ((Zpos (XO (XI (XO (XI (XO
    XH)))))) :: ((Zpos (XI (XI (XO (XI (XO XH)))))) :: ((Zpos (XO (XO (XI (XI
    (XO XH)))))) :: ((Zpos (XO (XI (XI (XI (XO XH)))))) :: ((Zpos (XI (XI (XI
    (XI (XO XH)))))) :: ((Zpos (XO (XO (XO (XO (XI XH)))))) :: ((Zpos (XI (XO
    (XO (XO (XI XH)))))) :: ((Zpos (XI (XI (XO (XO (XI XH)))))) :: ((Zpos (XO
    (XO (XI (XO (XI XH)))))) :: ((Zpos (XI (XO (XI (XO (XI XH)))))) :: ((Zpos
    (XO (XI (XI (XO (XI XH)))))) :: ((Zpos (XI (XI (XI (XO (XI
    XH)))))) :: ((Zpos (XO (XO (XO (XI (XI XH)))))) :: ((Zpos (XI (XO (XO (XO
    (XI (XO XH))))))) :: ((Zpos (XO (XI (XO (XO (XI (XO XH))))))) :: ((Zpos
    (XI (XI (XO (XO (XI (XO XH))))))) :: ((Zpos (XO (XO (XI (XO (XI (XO
    XH))))))) :: ((Zpos (XI (XO (XI (XO (XI (XO XH))))))) :: ((Zpos (XO (XI
    (XI (XO (XI (XO XH))))))) :: ((Zpos (XI (XI (XI (XO (XI (XO
    XH))))))) :: ((Zpos (XO (XO (XO (XI (XI (XO
    XH))))))) :: [])))))))))))))))))))))))))))))))))))))

(** val seg_scc_std : scc_arm list **)

let seg_scc_std =
  { sc_code = (Zpos (XO (XO (XO (XI (XO (XO (XI XH)))))))); sc_kind = (SSplit
    ((Zpos (XO (XO (XI (XI (XI (XO (XI XH)))))))), (Zpos (XI (XO (XO (XO (XO
    (XI (XI XH)))))))))) } :: ({ sc_code = (Zpos (XO (XO (XI (XI (XI (XO (XI
    XH)))))))); sc_kind = SReuseCredit } :: ({ sc_code = (Zpos (XI (XO (XO
    (XO (XO (XI (XI XH)))))))); sc_kind = SReuseDebit } :: []))

(** val seg_scc_iat : scc_arm list **)

let seg_scc_iat =
  { sc_code = (Zpos (XO (XO (XO (XI (XO (XO (XI XH)))))))); sc_kind = (SSplit
    ((Zpos (XO (XO (XI (XI (XI (XO (XI XH)))))))), (Zpos (XI (XO (XO (XO (XO
    (XI (XI XH)))))))))) } :: ({ sc_code = (Zpos (XO (XO (XI (XI (XI (XO (XI
    XH)))))))); sc_kind = SReuseCredit } :: ({ sc_code = (Zpos (XI (XO (XO
    (XO (XO (XI (XI XH)))))))); sc_kind = SReuseDebit } :: []))

(** val sT : stables **)

let sT =
  { st_seg_std = seg_std_arms; st_seg_iat = seg_iat_arms; st_seg_adv =
    seg_adv_arms; st_amt_std = amount_std_arms; st_amt_iat = amount_iat_arms;
    st_amt_adv = amount_adv_arms; st_scc_std = seg_scc_std; st_scc_iat =
    seg_scc_iat; st_codes = seg_standard_codes }

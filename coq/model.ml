
(** val negb : bool -> bool **)

let negb = function
| true -> false
| false -> true

type nat =
| O
| S of nat

(** val fst : ('a1 * 'a2) -> 'a1 **)

let fst = function
| (x, _) -> x

(** val snd : ('a1 * 'a2) -> 'a2 **)

let snd = function
| (_, y) -> y

(** val length : 'a1 list -> nat **)

let rec length = function
| [] -> O
| _ :: l' -> S (length l')

(** val app : 'a1 list -> 'a1 list -> 'a1 list **)

let rec app l m =
  match l with
  | [] -> m
  | a :: l1 -> a :: (app l1 m)

type comparison =
| Eq
| Lt
| Gt

module Coq__1 = struct
 (** val add : nat -> nat -> nat **)
 let rec add n0 m =
   match n0 with
   | O -> m
   | S p -> S (add p m)
end
include Coq__1

(** val rev : 'a1 list -> 'a1 list **)

let rec rev = function
| [] -> []
| x :: l' -> app (rev l') (x :: [])

(** val concat : 'a1 list list -> 'a1 list **)

let rec concat = function
| [] -> []
| x :: l0 -> app x (concat l0)

(** val map : ('a1 -> 'a2) -> 'a1 list -> 'a2 list **)

let rec map f = function
| [] -> []
| a :: t -> (f a) :: (map f t)

(** val firstn : nat -> 'a1 list -> 'a1 list **)

let rec firstn n0 l =
  match n0 with
  | O -> []
  | S n1 -> (match l with
             | [] -> []
             | a :: l0 -> a :: (firstn n1 l0))

(** val skipn : nat -> 'a1 list -> 'a1 list **)

let rec skipn n0 l =
  match n0 with
  | O -> l
  | S n1 -> (match l with
             | [] -> []
             | _ :: l0 -> skipn n1 l0)

(** val repeat : 'a1 -> nat -> 'a1 list **)

let rec repeat x = function
| O -> []
| S k -> x :: (repeat x k)

type positive =
| XI of positive
| XO of positive
| XH

type n =
| N0
| Npos of positive

module Pos =
 struct
  type mask =
  | IsNul
  | IsPos of positive
  | IsNeg
 end

module Coq_Pos =
 struct
  (** val succ : positive -> positive **)

  let rec succ = function
  | XI p -> XO (succ p)
  | XO p -> XI p
  | XH -> XO XH

  (** val add : positive -> positive -> positive **)

  let rec add x y =
    match x with
    | XI p ->
      (match y with
       | XI q -> XO (add_carry p q)
       | XO q -> XI (add p q)
       | XH -> XO (succ p))
    | XO p ->
      (match y with
       | XI q -> XI (add p q)
       | XO q -> XO (add p q)
       | XH -> XI p)
    | XH -> (match y with
             | XI q -> XO (succ q)
             | XO q -> XI q
             | XH -> XO XH)

  (** val add_carry : positive -> positive -> positive **)

  and add_carry x y =
    match x with
    | XI p ->
      (match y with
       | XI q -> XI (add_carry p q)
       | XO q -> XO (add_carry p q)
       | XH -> XI (succ p))
    | XO p ->
      (match y with
       | XI q -> XO (add_carry p q)
       | XO q -> XI (add p q)
       | XH -> XO (succ p))
    | XH ->
      (match y with
       | XI q -> XI (succ q)
       | XO q -> XO (succ q)
       | XH -> XI XH)

  (** val pred_double : positive -> positive **)

  let rec pred_double = function
  | XI p -> XI (XO p)
  | XO p -> XI (pred_double p)
  | XH -> XH

  type mask = Pos.mask =
  | IsNul
  | IsPos of positive
  | IsNeg

  (** val succ_double_mask : mask -> mask **)

  let succ_double_mask = function
  | IsNul -> IsPos XH
  | IsPos p -> IsPos (XI p)
  | IsNeg -> IsNeg

  (** val double_mask : mask -> mask **)

  let double_mask = function
  | IsPos p -> IsPos (XO p)
  | x0 -> x0

  (** val double_pred_mask : positive -> mask **)

  let double_pred_mask = function
  | XI p -> IsPos (XO (XO p))
  | XO p -> IsPos (XO (pred_double p))
  | XH -> IsNul

  (** val sub_mask : positive -> positive -> mask **)

  let rec sub_mask x y =
    match x with
    | XI p ->
      (match y with
       | XI q -> double_mask (sub_mask p q)
       | XO q -> succ_double_mask (sub_mask p q)
       | XH -> IsPos (XO p))
    | XO p ->
      (match y with
       | XI q -> succ_double_mask (sub_mask_carry p q)
       | XO q -> double_mask (sub_mask p q)
       | XH -> IsPos (pred_double p))
    | XH -> (match y with
             | XH -> IsNul
             | _ -> IsNeg)

  (** val sub_mask_carry : positive -> positive -> mask **)

  and sub_mask_carry x y =
    match x with
    | XI p ->
      (match y with
       | XI q -> succ_double_mask (sub_mask_carry p q)
       | XO q -> double_mask (sub_mask p q)
       | XH -> IsPos (pred_double p))
    | XO p ->
      (match y with
       | XI q -> double_mask (sub_mask_carry p q)
       | XO q -> succ_double_mask (sub_mask_carry p q)
       | XH -> double_pred_mask p)
    | XH -> IsNeg

  (** val compare_cont : comparison -> positive -> positive -> comparison **)

  let rec compare_cont r x y =
    match x with
    | XI p ->
      (match y with
       | XI q -> compare_cont r p q
       | XO q -> compare_cont Gt p q
       | XH -> Gt)
    | XO p ->
      (match y with
       | XI q -> compare_cont Lt p q
       | XO q -> compare_cont r p q
       | XH -> Gt)
    | XH -> (match y with
             | XH -> r
             | _ -> Lt)

  (** val compare : positive -> positive -> comparison **)

  let compare =
    compare_cont Eq

  (** val eqb : positive -> positive -> bool **)

  let rec eqb p q =
    match p with
    | XI p0 -> (match q with
                | XI q0 -> eqb p0 q0
                | _ -> false)
    | XO p0 -> (match q with
                | XO q0 -> eqb p0 q0
                | _ -> false)
    | XH -> (match q with
             | XH -> true
             | _ -> false)

  (** val iter_op : ('a1 -> 'a1 -> 'a1) -> positive -> 'a1 -> 'a1 **)

  let rec iter_op op p a =
    match p with
    | XI p0 -> op a (iter_op op p0 (op a a))
    | XO p0 -> iter_op op p0 (op a a)
    | XH -> a

  (** val to_nat : positive -> nat **)

  let to_nat x =
    iter_op Coq__1.add x (S O)

  (** val of_succ_nat : nat -> positive **)

  let rec of_succ_nat = function
  | O -> XH
  | S x -> succ (of_succ_nat x)
 end

module N =
 struct
  (** val succ_double : n -> n **)

  let succ_double = function
  | N0 -> Npos XH
  | Npos p -> Npos (XI p)

  (** val double : n -> n **)

  let double = function
  | N0 -> N0
  | Npos p -> Npos (XO p)

  (** val add : n -> n -> n **)

  let add n0 m =
    match n0 with
    | N0 -> m
    | Npos p -> (match m with
                 | N0 -> n0
                 | Npos q -> Npos (Coq_Pos.add p q))

  (** val sub : n -> n -> n **)

  let sub n0 m =
    match n0 with
    | N0 -> N0
    | Npos n' ->
      (match m with
       | N0 -> n0
       | Npos m' ->
         (match Coq_Pos.sub_mask n' m' with
          | Coq_Pos.IsPos p -> Npos p
          | _ -> N0))

  (** val compare : n -> n -> comparison **)

  let compare n0 m =
    match n0 with
    | N0 -> (match m with
             | N0 -> Eq
             | Npos _ -> Lt)
    | Npos n' -> (match m with
                  | N0 -> Gt
                  | Npos m' -> Coq_Pos.compare n' m')

  (** val eqb : n -> n -> bool **)

  let eqb n0 m =
    match n0 with
    | N0 -> (match m with
             | N0 -> true
             | Npos _ -> false)
    | Npos p -> (match m with
                 | N0 -> false
                 | Npos q -> Coq_Pos.eqb p q)

  (** val leb : n -> n -> bool **)

  let leb x y =
    match compare x y with
    | Gt -> false
    | _ -> true

  (** val ltb : n -> n -> bool **)

  let ltb x y =
    match compare x y with
    | Lt -> true
    | _ -> false

  (** val pos_div_eucl : positive -> n -> n * n **)

  let rec pos_div_eucl a b =
    match a with
    | XI a' ->
      let (q, r) = pos_div_eucl a' b in
      let r' = succ_double r in
      if leb b r' then ((succ_double q), (sub r' b)) else ((double q), r')
    | XO a' ->
      let (q, r) = pos_div_eucl a' b in
      let r' = double r in
      if leb b r' then ((succ_double q), (sub r' b)) else ((double q), r')
    | XH ->
      (match b with
       | N0 -> (N0, (Npos XH))
       | Npos p -> (match p with
                    | XH -> ((Npos XH), N0)
                    | _ -> (N0, (Npos XH))))

  (** val div_eucl : n -> n -> n * n **)

  let div_eucl a b =
    match a with
    | N0 -> (N0, N0)
    | Npos na -> (match b with
                  | N0 -> (N0, a)
                  | Npos _ -> pos_div_eucl na b)

  (** val modulo : n -> n -> n **)

  let modulo a b =
    snd (div_eucl a b)

  (** val to_nat : n -> nat **)

  let to_nat = function
  | N0 -> O
  | Npos p -> Coq_Pos.to_nat p

  (** val of_nat : nat -> n **)

  let of_nat = function
  | O -> N0
  | S n' -> Npos (Coq_Pos.of_succ_nat n')
 end

type bytes = n list

(** val nine : n **)

let nine =
  Npos (XI (XO (XO (XI (XI XH)))))

(** val blen : bytes -> n **)

let blen l =
  N.of_nat (length l)

type werr =
| EInj
| EShort
| EFuel

type skind =
| Hard
| Short
| ShortNil
| FullErr

type fault = { f_k : n; f_kind : skind; f_transient : bool }

type sink = { s_fault : fault option; s_got : bytes; s_calls : n;
              s_tripped : bool }

(** val new_sink : fault option -> sink **)

let new_sink fo =
  { s_fault = fo; s_got = []; s_calls = N0; s_tripped = false }

(** val sink_write : sink -> bytes -> (sink * n) * werr option **)

let sink_write s p =
  let pos = blen s.s_got in
  let lp = blen p in
  let healthy = (({ s_fault = s.s_fault; s_got = (app s.s_got p); s_calls =
    (N.add s.s_calls (Npos XH)); s_tripped = s.s_tripped }, lp), None)
  in
  (match s.s_fault with
   | Some f ->
     if (||) ((&&) f.f_transient s.s_tripped) (N.leb (N.add pos lp) f.f_k)
     then healthy
     else let n0 = N.sub f.f_k pos in
          let part = { s_fault = s.s_fault; s_got =
            (app s.s_got (firstn (N.to_nat n0) p)); s_calls =
            (N.add s.s_calls (Npos XH)); s_tripped = true }
          in
          (match f.f_kind with
           | Hard -> ((part, n0), (Some EInj))
           | Short -> ((part, n0), (Some EShort))
           | ShortNil -> ((part, n0), None)
           | FullErr ->
             (({ s_fault = s.s_fault; s_got = (app s.s_got p); s_calls =
               (N.add s.s_calls (Npos XH)); s_tripped = true }, lp), (Some
               EInj)))
   | None -> healthy)

(** val cap : n **)

let cap =
  Npos (XO (XO (XO (XO (XO (XO (XO (XO (XO (XO (XO (XO XH))))))))))))

type bw = { b_pend : bytes list; b_n : n; b_err : werr option; b_sink : sink }

(** val new_bw : sink -> bw **)

let new_bw s =
  { b_pend = []; b_n = N0; b_err = None; b_sink = s }

(** val buf_bytes : bw -> bytes **)

let buf_bytes b =
  concat (rev b.b_pend)

(** val avail : bw -> n **)

let avail b =
  N.sub cap b.b_n

(** val push : bw -> bytes -> bw **)

let push b s =
  { b_pend = (s :: b.b_pend); b_n = (N.add b.b_n (blen s)); b_err = b.b_err;
    b_sink = b.b_sink }

(** val set_err : bw -> werr -> bw **)

let set_err b e =
  { b_pend = b.b_pend; b_n = b.b_n; b_err = (Some e); b_sink = b.b_sink }

(** val bw_flush : bw -> bw * werr option **)

let bw_flush b =
  match b.b_err with
  | Some e -> (b, (Some e))
  | None ->
    if N.eqb b.b_n N0
    then (b, None)
    else let data = buf_bytes b in
         let (p, e) = sink_write b.b_sink data in
         let (s', n0) = p in
         let e' =
           match e with
           | Some x -> Some x
           | None -> if N.ltb n0 b.b_n then Some EShort else None
         in
         (match e' with
          | Some x ->
            ({ b_pend = ((skipn (N.to_nat n0) data) :: []); b_n =
              (N.sub b.b_n n0); b_err = (Some x); b_sink = s' }, (Some x))
          | None ->
            ({ b_pend = []; b_n = N0; b_err = None; b_sink = s' }, None))

(** val ws_loop : nat -> bw -> bytes -> bw * bytes **)

let rec ws_loop fuel b s =
  match fuel with
  | O -> ((set_err b EFuel), s)
  | S f ->
    (match b.b_err with
     | Some _ -> (b, s)
     | None ->
       if N.ltb (avail b) (blen s)
       then let a = N.to_nat (avail b) in
            ws_loop f (fst (bw_flush (push b (firstn a s)))) (skipn a s)
       else (b, s))

(** val bw_write : bw -> bytes -> bw * werr option **)

let bw_write b s =
  let (b1, s1) = ws_loop (add (length s) (S (S (S O)))) b s in
  (match b1.b_err with
   | Some e -> (b1, (Some e))
   | None -> ((push b1 s1), None))

type handler =
| Propagate
| Ignore
| ReturnNil
| Absent
| Unknown

type wpolicy = { p_wl_line : handler; p_wl_le : handler;
                 p_wl_flush : handler; p_thresh : n; p_api_flush : handler;
                 p_hdr : handler; p_body : handler; p_ctl : handler;
                 p_pad_line : handler; p_pad_le : handler; p_final : 
                 handler }

type act =
| Cont
| Ret of werr option

(** val on_err : handler -> werr option -> act **)

let on_err h = function
| Some x ->
  (match h with
   | Propagate -> Ret (Some x)
   | Ignore -> Cont
   | _ -> Ret None)
| None -> Cont

(** val api_flush : wpolicy -> bw -> bw * werr option **)

let api_flush p b =
  match p.p_api_flush with
  | Propagate -> bw_flush b
  | Absent -> (b, None)
  | _ -> let (b', _) = bw_flush b in (b', None)

type rtag =
| THdr
| TBody
| TCtl

(** val tag_handler : wpolicy -> rtag -> handler **)

let tag_handler p = function
| THdr -> p.p_hdr
| TBody -> p.p_body
| TCtl -> p.p_ctl

(** val nonempty : bytes -> bool **)

let nonempty = function
| [] -> false
| _ :: _ -> true

(** val write_line :
    wpolicy -> bytes -> (bw * n) -> bytes -> (bw * n) * werr option **)

let write_line p le st line =
  let (b, n0) = st in
  if negb (nonempty line)
  then (st, None)
  else let (b1, e1) = bw_write b line in
       (match on_err p.p_wl_line e1 with
        | Cont ->
          let (b2, e2) = bw_write b1 le in
          (match on_err p.p_wl_le e2 with
           | Cont ->
             if N.ltb (avail b2) p.p_thresh
             then (match p.p_wl_flush with
                   | Propagate ->
                     let (b3, e3) = api_flush p b2 in
                     ((b3, (N.add n0 (Npos XH))), e3)
                   | Absent -> ((b2, (N.add n0 (Npos XH))), None)
                   | _ ->
                     let (b3, _) = api_flush p b2 in
                     ((b3, (N.add n0 (Npos XH))), None))
             else ((b2, (N.add n0 (Npos XH))), None)
           | Ret r -> ((b2, n0), r))
        | Ret r -> ((b1, n0), r))

(** val write_recs :
    wpolicy -> bytes -> (bw * n) -> (rtag * bytes) list -> (bw * n) * act **)

let rec write_recs p le st = function
| [] -> (st, Cont)
| p0 :: rest ->
  let (t, l) = p0 in
  let (st1, e) = write_line p le st l in
  (match on_err (tag_handler p t) e with
   | Cont -> write_recs p le st1 rest
   | Ret r -> (st1, (Ret r)))

(** val nines : bytes **)

let nines =
  repeat nine (S (S (S (S (S (S (S (S (S (S (S (S (S (S (S (S (S (S (S (S (S
    (S (S (S (S (S (S (S (S (S (S (S (S (S (S (S (S (S (S (S (S (S (S (S (S
    (S (S (S (S (S (S (S (S (S (S (S (S (S (S (S (S (S (S (S (S (S (S (S (S
    (S (S (S (S (S (S (S (S (S (S (S (S (S (S (S (S (S (S (S (S (S (S (S (S
    (S
    O))))))))))))))))))))))))))))))))))))))))))))))))))))))))))))))))))))))))))))))))))))))))))))))

(** val pad_count : n -> nat **)

let pad_count n0 =
  if N.eqb (N.modulo n0 (Npos (XO (XI (XO XH))))) N0
  then O
  else N.to_nat
         (N.sub (Npos (XO (XI (XO XH))))
           (N.modulo n0 (Npos (XO (XI (XO XH))))))

(** val pad_loop : wpolicy -> bytes -> nat -> bw -> bw * act **)

let rec pad_loop p le k b =
  match k with
  | O -> (b, Cont)
  | S k' ->
    let (b1, e1) = bw_write b nines in
    (match on_err p.p_pad_line e1 with
     | Cont ->
       let (b2, e2) = bw_write b1 le in
       (match on_err p.p_pad_le e2 with
        | Cont -> pad_loop p le k' b2
        | Ret r -> (b2, (Ret r)))
     | Ret r -> (b1, (Ret r)))

(** val final_flush : wpolicy -> bw -> bw * werr option **)

let final_flush p b =
  match p.p_final with
  | Propagate -> bw_flush b
  | Absent -> (b, None)
  | _ -> let (b', _) = bw_flush b in (b', None)

(** val write_file :
    wpolicy -> bytes -> (rtag * bytes) list -> bw -> bw * werr option **)

let write_file p le recs b =
  let (p0, a) = write_recs p le (b, N0) recs in
  let (b1, n0) = p0 in
  (match a with
   | Cont ->
     let (b2, a2) = pad_loop p le (pad_count n0) b1 in
     (match a2 with
      | Cont -> final_flush p b2
      | Ret r -> (b2, r))
   | Ret r -> (b1, r))

type wresult = { wr_write : werr option; wr_flush : werr option;
                 wr_sink : sink }

(** val writer_run :
    wpolicy -> bytes -> (rtag * bytes) list -> fault option -> wresult **)

let writer_run p le recs fo =
  let (b1, r) = write_file p le recs (new_bw (new_sink fo)) in
  let (b2, fr) = api_flush p b1 in
  { wr_write = r; wr_flush = fr; wr_sink = b2.b_sink }

(** val rec_bytes : bytes -> (rtag * bytes) list -> bytes **)

let rec_bytes le recs =
  concat (map (fun r -> if nonempty (snd r) then app (snd r) le else []) recs)

(** val rec_count : (rtag * bytes) list -> n **)

let rec rec_count = function
| [] -> N0
| r :: rest ->
  N.add (if nonempty (snd r) then Npos XH else N0) (rec_count rest)

(** val full_output : bytes -> (rtag * bytes) list -> bytes **)

let full_output le recs =
  app (rec_bytes le recs)
    (concat (repeat (app nines le) (pad_count (rec_count recs))))

type rerr =
| RInj
| RUnexpectedEOF

type term =
| TEOF
| TErr of rerr

type source = { src_chunks : bytes list; src_term : term }

(** val read_full :
    n -> bytes list -> bytes -> (bytes * bytes list) * bool **)

let rec read_full need chunks acc =
  if N.eqb need N0
  then ((acc, chunks), true)
  else (match chunks with
        | [] -> ((acc, []), false)
        | c :: cs ->
          if N.leb (blen c) need
          then read_full (N.sub need (blen c)) cs (app acc c)
          else (((app acc (firstn (N.to_nat need) c)),
                 ((skipn (N.to_nat need) c) :: cs)), true))

(** val preview_size : n **)

let preview_size =
  Npos (XO (XO (XO (XO (XO (XO (XO (XO (XO (XO XH))))))))))

type rpolicy = { r_ctor : handler; r_scan : handler }

type rresult =
| RCtorErr
| RScanErr of rerr
| RParsed of bytes

(** val reader_run : rpolicy -> source -> rresult **)

let reader_run p s =
  let (p0, filled) = read_full preview_size s.src_chunks [] in
  let (pre, rest) = p0 in
  if filled
  then let d = app pre (concat rest) in
       (match s.src_term with
        | TEOF -> RParsed d
        | TErr e ->
          (match p.r_scan with
           | Propagate -> RScanErr e
           | _ -> RParsed d))
  else (match s.src_term with
        | TEOF -> RParsed pre
        | TErr e ->
          (match e with
           | RInj ->
             (match p.r_ctor with
              | Propagate -> RCtorErr
              | _ -> RParsed [])
           | RUnexpectedEOF -> RParsed pre))

(** val chop : nat -> nat -> bytes -> bytes list **)

let rec chop fuel c l =
  match fuel with
  | O -> (match l with
          | [] -> []
          | _ :: _ -> l :: [])
  | S f ->
    (match l with
     | [] -> []
     | _ :: _ -> (firstn c l) :: (chop f c (skipn c l)))

(** val chunked : nat -> bytes -> bytes list **)

let chunked c l =
  match c with
  | O -> (match l with
          | [] -> []
          | _ :: _ -> l :: [])
  | S _ -> chop (length l) c l

(** val failing_source : bytes -> nat -> nat -> rerr -> source **)

let failing_source text k c e =
  { src_chunks = (chunked c (firstn k text)); src_term = (TErr e) }

(** val healthy_source : bytes -> nat -> source **)

let healthy_source text c =
  { src_chunks = (chunked c text); src_term = TEOF }

(** val current_wpolicy : wpolicy **)

let current_wpolicy =
  { p_wl_line = Propagate; p_wl_le = Propagate; p_wl_flush = Propagate;
    p_thresh = (Npos (XO (XI (XI (XI (XI (XO XH))))))); p_api_flush =
    Propagate; p_hdr = Propagate; p_body = Propagate; p_ctl = Propagate;
    p_pad_line = Propagate; p_pad_le = Propagate; p_final = Propagate }

(** val current_rpolicy : rpolicy **)

let current_rpolicy =
  { r_ctor = Propagate; r_scan = Propagate }
